import NeatviVerif.Model.ExCmd
import NeatviVerif.Props.C01
import NeatviVerif.Lemmas.C02Ex
/-!
# C03  Writes never clobber foreign or newer files; failures surface and stay dirty
-/
namespace Neatvi.Props.C03
open Neatvi Neatvi.Lbuf Neatvi.LbufIo Neatvi.Ex Neatvi.Props.C01

/-! ### names for the intermediate values of `lbufSave` -/

/-- the end line `lbuf_save` uses: a negative `end` means "to the last line" -/
def endLine (lb : Lb) (e : Int) : Nat := if e < 0 then lb.lines.length else e.toNat

/-- both guards of `lbuf_save` let the write through -/
def GuardsPass (ed : Ed) (path : Bytes) (force : Bool) (ts : Int) : Prop :=
  force = true ∨ (¬ ed.mtimeOf path > ts ∧ ¬ (ts ≤ 0 ∧ ed.mtimeOf path ≥ 0))

/-- what the target held before the write -/
def oldData (ed : Ed) (path : Bytes) : Bytes := ((ed.findFile path).map (·.data)).getD []

/-- the state after a successful `open(O_WRONLY | O_CREAT)` -/
def afterOpen (ed : Ed) (path : Bytes) : Ed :=
  let ed1 := ed.nextFault.2
  { ed1.putFile ⟨path, oldData ed1 path, ed1.clock + 1⟩ with clock := ed1.clock + 1 }

/-- the outcomes scheduled for the write calls -/
def schedOf (ed : Ed) (n : Nat) : List WOut :=
  (List.range (n + 8)).map (fun k =>
    match (ed.faults.find? (fun f => f.1 == ed.calls + k)).map (·.2) with
    | some 101 => WOut.err
    | some d => if 49 ≤ d && d ≤ 57 then WOut.cnt (d - 48) else WOut.cnt 1000000000
    | none => WOut.cnt 1000000000)

/-- the fuel the model gives `write_fully` -/
def fuelOf (lb : Lb) : Nat := (lb.lines.foldl (fun m l => max m l.length) Gen.WR_BATCH + 8) * 2

/-- the state after the write calls ended in `st` -/
def afterWrite (ed2 : Ed) (path old : Bytes) (n : Nat) (st : WrState) : Ed :=
  let used := (schedOf ed2 n).length - st.sched.length
  let okCalls := used - (if st.ok then 0 else 1)
  { ed2.putFile ⟨path, fileAfter old st.out (if st.ok then some st.sz else none), ed2.clock + okCalls⟩ with
    clock := ed2.clock + okCalls, calls := ed2.calls + used }

/-- `lbufSave` once the guards and the open have passed (in the shape of the model) -/
theorem lbufSave_eq' (ed : Ed) (lb : Lb) (b : Nat) (e : Int) (path : Bytes) (force : Bool) (ts : Int)
    (hg : GuardsPass ed path force ts) (ho : ed.nextFault.1 ≠ 101) :
    lbufSave ed lb b e path force ts =
      match wrFinal lb.lines b (endLine lb e) Gen.WR_BATCH (fuelOf lb) (schedOf (afterOpen ed path) (endLine lb e - b)) with
      | none => none
      | some st =>
        let ed3 := afterWrite (afterOpen ed path) path (oldData ed.nextFault.2 path) (endLine lb e - b) st
        if !st.ok then some (some (strOf "write failed"), ed3.nextFault.2)
        else if ed3.nextFault.1 == 101 then some (some (strOf "write failed"), ed3.nextFault.2)
           else some (none, ed3.nextFault.2) := by
  have h1 : (!force && decide (ed.mtimeOf path > ts)) = false := by
    rcases hg with h | ⟨h, _⟩ <;> simp [h]
  have h2 : (!force && decide (ts ≤ 0) && decide (ed.mtimeOf path ≥ 0)) = false := by
    rcases hg with h | ⟨_, h⟩
    · simp [h]
    · simp only [Bool.and_eq_false_iff, decide_eq_false_iff_not, Bool.and_assoc]
      by_cases h3 : ts ≤ 0
      · right; right; exact fun h4 => h ⟨h3, h4⟩
      · right; left; exact h3
  unfold lbufSave
  simp only [h1, h2, Bool.false_eq_true, if_false]
  have h3 : (ed.nextFault.1 == 101) = false := by simp [ho]
  simp only [h3, Bool.false_eq_true, if_false]
  rfl

/-- the three ways `lbufSave` can end once the guards and the open have passed -/
theorem lbufSave_cases (ed : Ed) (lb : Lb) (b : Nat) (e : Int) (path : Bytes) (force : Bool) (ts : Int)
    (hg : GuardsPass ed path force ts) (ho : ed.nextFault.1 ≠ 101) :
    (wrFinal lb.lines b (endLine lb e) Gen.WR_BATCH (fuelOf lb) (schedOf (afterOpen ed path) (endLine lb e - b)) = none ∧
      lbufSave ed lb b e path force ts = none) ∨
    ∃ st, wrFinal lb.lines b (endLine lb e) Gen.WR_BATCH (fuelOf lb) (schedOf (afterOpen ed path) (endLine lb e - b)) = some st ∧
      let ed3 := afterWrite (afterOpen ed path) path (oldData ed.nextFault.2 path) (endLine lb e - b) st
      ((st.ok = false ∧ lbufSave ed lb b e path force ts = some (some (strOf "write failed"), ed3.nextFault.2)) ∨
       (st.ok = true ∧ ed3.nextFault.1 = 101 ∧
          lbufSave ed lb b e path force ts = some (some (strOf "write failed"), ed3.nextFault.2)) ∨
       (st.ok = true ∧ ed3.nextFault.1 ≠ 101 ∧ lbufSave ed lb b e path force ts = some (none, ed3.nextFault.2))) := by
  rw [lbufSave_eq' ed lb b e path force ts hg ho]
  cases hw : wrFinal lb.lines b (endLine lb e) Gen.WR_BATCH (fuelOf lb) (schedOf (afterOpen ed path) (endLine lb e - b)) with
  | none => left; exact ⟨rfl, rfl⟩
  | some st =>
    right
    refine ⟨st, rfl, ?_⟩
    simp only []
    cases hok : st.ok with
    | false => left; simp
    | true =>
      right
      by_cases hc : (afterWrite (afterOpen ed path) path (oldData ed.nextFault.2 path) (endLine lb e - b) st).nextFault.1 = 101
      · left; simp [hc]
      · right; simp [hc]

/-! ### 1-3: the guards and the open -/

/-- a file that is newer than the buffer's time stamp is never overwritten without `!`: the save is
    refused and nothing changes -/
theorem guard_newer (ed : Ed) (lb : Lb) (b : Nat) (e : Int) (path : Bytes) (ts : Int)
    (h : ed.mtimeOf path > ts) :
    lbufSave ed lb b e path false ts = some (some (strOf "write failed: file changed"), ed) := by
  unfold lbufSave
  simp [h]

/-- a file that exists and was not read by this buffer (`ts ≤ 0`) is never overwritten without `!`:
    the save is refused and nothing changes -/
theorem guard_foreign (ed : Ed) (lb : Lb) (b : Nat) (e : Int) (path : Bytes) (ts : Int)
    (hts : ts ≤ 0) (hex : ed.mtimeOf path ≥ 0) (hn : ¬ ed.mtimeOf path > ts) :
    lbufSave ed lb b e path false ts = some (some (strOf "write failed: file exists"), ed) := by
  unfold lbufSave
  simp [hts, hex, hn]

/-- when the guards do not pass, the save is refused with the state (hence the file system) unchanged -/
theorem guards_fail (ed : Ed) (lb : Lb) (b : Nat) (e : Int) (path : Bytes) (force : Bool) (ts : Int)
    (h : ¬ GuardsPass ed path force ts) :
    ∃ msg, lbufSave ed lb b e path force ts = some (some msg, ed) := by
  unfold GuardsPass at h
  have hf : force = false := by cases force <;> simp_all
  subst hf
  by_cases h1 : ed.mtimeOf path > ts
  · exact ⟨_, guard_newer ed lb b e path ts h1⟩
  · have h2 : ts ≤ 0 ∧ ed.mtimeOf path ≥ 0 := by
      apply Classical.byContradiction
      intro h3; exact h (Or.inr ⟨h1, h3⟩)
    exact ⟨_, guard_foreign ed lb b e path ts h2.1 h2.2 h1⟩

/-- a failing `open` is reported and leaves every file as it was -/
theorem open_failure_surfaces (ed : Ed) (lb : Lb) (b : Nat) (e : Int) (path : Bytes) (force : Bool) (ts : Int)
    (hg : GuardsPass ed path force ts) (ho : ed.nextFault.1 = 101) :
    ∃ ed', lbufSave ed lb b e path force ts = some (some (strOf "write failed: cannot create file"), ed') ∧
      ed'.files = ed.files ∧ ed'.clock = ed.clock ∧ ed'.bufs = ed.bufs := by
  have h1 : (!force && decide (ed.mtimeOf path > ts)) = false := by
    rcases hg with h | ⟨h, _⟩ <;> simp [h]
  have h2 : (!force && decide (ts ≤ 0) && decide (ed.mtimeOf path ≥ 0)) = false := by
    rcases hg with h | ⟨_, h⟩
    · simp [h]
    · simp only [Bool.and_eq_false_iff, decide_eq_false_iff_not, Bool.and_assoc]
      by_cases h3 : ts ≤ 0
      · right; right; exact fun h4 => h ⟨h3, h4⟩
      · right; left; exact h3
  unfold lbufSave
  simp only [h1, h2, Bool.false_eq_true, if_false]
  have h3 : (ed.nextFault.1 == 101) = true := by simp [ho]
  simp only [h3, if_true]
  exact ⟨_, rfl, rfl, rfl, rfl⟩

/-! ### 4: failing writes and a failing close are reported -/

/-- a failing `write` is reported: if the write loop ends with `ok = false` the command never
    reports success -/
theorem write_failure_surfaces (ed : Ed) (lb : Lb) (b : Nat) (e : Int) (path : Bytes) (force : Bool) (ts : Int)
    (hg : GuardsPass ed path force ts) (ho : ed.nextFault.1 ≠ 101) (st : WrState)
    (hw : wrFinal lb.lines b (endLine lb e) Gen.WR_BATCH (fuelOf lb)
      (schedOf (afterOpen ed path) (endLine lb e - b)) = some st)
    (hok : st.ok = false) :
    ∃ ed', lbufSave ed lb b e path force ts = some (some (strOf "write failed"), ed') := by
  rcases lbufSave_cases ed lb b e path force ts hg ho with ⟨h, _⟩ | ⟨st', h, hc⟩
  · rw [hw] at h; cases h
  · rw [hw] at h; cases h
    rcases hc with ⟨_, h⟩ | ⟨h1, _⟩ | ⟨h1, _⟩
    · exact ⟨_, h⟩
    · rw [hok] at h1; cases h1
    · rw [hok] at h1; cases h1

/-- a failing `close` after a complete write is reported as well -/
theorem close_failure_surfaces (ed : Ed) (lb : Lb) (b : Nat) (e : Int) (path : Bytes) (force : Bool) (ts : Int)
    (hg : GuardsPass ed path force ts) (ho : ed.nextFault.1 ≠ 101) (st : WrState)
    (hw : wrFinal lb.lines b (endLine lb e) Gen.WR_BATCH (fuelOf lb)
      (schedOf (afterOpen ed path) (endLine lb e - b)) = some st)
    (hc : (afterWrite (afterOpen ed path) path (oldData ed.nextFault.2 path) (endLine lb e - b) st).nextFault.1 = 101) :
    ∃ ed', lbufSave ed lb b e path force ts = some (some (strOf "write failed"), ed') := by
  rcases lbufSave_cases ed lb b e path force ts hg ho with ⟨h, _⟩ | ⟨st', h, hc'⟩
  · rw [hw] at h; cases h
  · rw [hw] at h; cases h
    rcases hc' with ⟨_, h⟩ | ⟨_, _, h⟩ | ⟨_, h1, _⟩
    · exact ⟨_, h⟩
    · exact ⟨_, h⟩
    · exact absurd hc h1

/-! ### 5: success means the file holds exactly the lines -/

/-- a `write_fully` that reports success has passed on exactly the bytes it was given, whatever the
    schedule of short counts was -/
theorem writeFully_true : ∀ (fuel : Nat) (buf : Bytes) (sched : List WOut) (w : Bytes) (r : List WOut),
    writeFully fuel buf sched = some (true, w, r) → w = buf := by
  intro fuel
  induction fuel with
  | zero =>
    intro buf sched w r h
    simp only [writeFully] at h
    split at h
    · next hb => cases h; exact hb.symm
    · cases h
  | succ f ih =>
    intro buf sched w r h
    simp only [writeFully] at h
    split at h
    · next hb => cases h; exact hb.symm
    · cases sched with
      | nil => cases h; rfl
      | cons o rest =>
        cases o with
        | err => cases h
        | cnt k =>
          simp only [] at h
          cases h1 : writeFully f (buf.drop (min k buf.length)) rest with
          | none => rw [h1] at h; cases h
          | some res =>
            obtain ⟨ok, w', r'⟩ := res
            rw [h1] at h
            simp only [Option.some.injEq, Prod.mk.injEq] at h
            obtain ⟨hok, hw, _⟩ := h
            subst hok
            have := ih _ _ _ _ h1
            rw [← hw, this]
            exact List.take_append_drop _ _

/-- loop invariant of `lbuf_wr` for arbitrary schedules: as long as no write failed, the bytes
    passed on plus the coalescing buffer are the lines processed -/
def OkInv (done : Bytes) (st : WrState) : Prop :=
  st.ok = true → st.out ++ st.buf = done ∧ st.sz = done.length

/-- a flush that reports success has emptied the coalescing buffer into the output -/
theorem flush_inv (fuel : Nat) (st st1 : WrState) (done : Bytes) (h : flush fuel st = some st1)
    (hi : st.out ++ st.buf = done ∧ st.sz = done.length) :
    st1.ok = true → st1.out = done ∧ st1.buf = [] ∧ st1.sz = done.length := by
  unfold flush at h
  cases h1 : writeFully fuel st.buf st.sched with
  | none => rw [h1] at h; cases h
  | some res =>
    obtain ⟨ok, w, r⟩ := res
    rw [h1] at h
    simp only [Option.some.injEq] at h
    subst h
    intro hok
    simp only at hok
    subst hok
    have := writeFully_true _ _ _ _ _ h1
    subst this
    exact ⟨hi.1, rfl, hi.2⟩

/-- a direct write that reports success has appended exactly the line -/
theorem direct_inv (fuel : Nat) (st st1 : WrState) (ln : Bytes) (h : direct fuel st ln = some st1) :
    st1.ok = true → st1.out = st.out ++ ln ∧ st1.buf = st.buf ∧ st1.sz = st.sz := by
  unfold direct at h
  cases h1 : writeFully fuel ln st.sched with
  | none => rw [h1] at h; cases h
  | some res =>
    obtain ⟨ok, w, r⟩ := res
    rw [h1] at h
    simp only [Option.some.injEq] at h
    subst h
    intro hok
    simp only at hok
    subst hok
    have := writeFully_true _ _ _ _ _ h1
    subst this
    exact ⟨rfl, rfl, rfl⟩

/-- one iteration of the loop of `lbuf_wr` keeps `OkInv`, for every outcome of the `write` calls -/
theorem wrStep_inv (batch fuel : Nat) (done : Bytes) (st st' : WrState) (ln : Bytes)
    (h : wrStep batch fuel st ln = some st') (hi : OkInv done st) : OkInv (done ++ ln) st' := by
  unfold wrStep at h
  cases hok : st.ok with
  | false =>
    simp only [hok, Bool.not_false, if_true, Option.some.injEq] at h
    subst h
    intro h'; rw [hok] at h'; cases h'
  | true =>
    have hi0 := hi hok
    simp only [hok, Bool.not_true, Bool.false_eq_true, if_false] at h
    -- the flush
    have s1 : ∀ r, (if (decide (st.buf.length > 0) && decide (st.buf.length + ln.length > batch)) = true
          then flush fuel st else some st) = r →
        r = none ∨ ∃ st1, r = some st1 ∧ (st1.ok = true → st1.out ++ st1.buf = done ∧ st1.sz = done.length ∧
          (ln.length ≥ batch → st1.buf = [])) := by
      intro r hr
      by_cases hc : (decide (st.buf.length > 0) && decide (st.buf.length + ln.length > batch)) = true
      · rw [if_pos hc] at hr
        cases hf : flush fuel st with
        | none => left; rw [← hr, hf]
        | some st1 =>
          right
          refine ⟨st1, by rw [← hr, hf], ?_⟩
          intro h1
          obtain ⟨a, b', c⟩ := flush_inv fuel st st1 done hf hi0 h1
          exact ⟨by rw [a, b']; simp, c, fun _ => b'⟩
      · rw [if_neg hc] at hr
        right
        refine ⟨st, hr.symm, fun _ => ⟨hi0.1, hi0.2, ?_⟩⟩
        intro hbig
        simp only [Bool.and_eq_true, decide_eq_true_eq, not_and] at hc
        cases hb : st.buf with
        | nil => rfl
        | cons x xs =>
          have := hc (by rw [hb]; simp)
          rw [hb] at this; simp at this; omega
    rcases s1 _ rfl with h0 | ⟨st1, h1, hi1⟩
    · rw [h0] at h; cases h
    · rw [h1] at h
      simp only [] at h
      cases hok1 : st1.ok with
      | false =>
        simp only [hok1, Bool.not_false, if_true, Option.some.injEq] at h
        subst h
        intro h'; rw [hok1] at h'; cases h'
      | true =>
        obtain ⟨hb1, hs1, he1⟩ := hi1 hok1
        simp only [hok1, Bool.not_true, Bool.false_eq_true, if_false] at h
        by_cases hbig : ln.length ≥ batch
        · rw [if_pos hbig] at h
          cases hd : direct fuel st1 ln with
          | none => rw [hd] at h; cases h
          | some st2 =>
            rw [hd] at h
            simp only [] at h
            cases hok2 : st2.ok with
            | false =>
              simp only [hok2, Bool.not_false, if_true, Option.some.injEq] at h
              subst h
              intro h'; rw [hok2] at h'; cases h'
            | true =>
              simp only [hok2, Bool.not_true, Bool.false_eq_true, if_false, Option.some.injEq] at h
              subst h
              obtain ⟨a, b', c⟩ := direct_inv fuel st1 st2 ln hd hok2
              intro _
              have he := he1 hbig
              simp only [a, b', c, he, List.append_nil] at hb1 ⊢
              exact ⟨by rw [hb1], by simp [hs1]⟩
        · rw [if_neg hbig] at h
          by_cases hroom : st1.buf.length + ln.length ≤ batch
          · rw [if_pos hroom] at h
            simp only [Bool.not_true, Bool.false_eq_true, if_false, Option.some.injEq] at h
            subst h
            intro _
            exact ⟨by simp only []; rw [← List.append_assoc, hb1], by simp [hs1]⟩
          · rw [if_neg hroom] at h; cases h

/-- the loop of `lbuf_wr` keeps `OkInv` -/
theorem wrLoop_inv (batch fuel : Nat) (ls : List Bytes) :
    ∀ (done : Bytes) (st st' : WrState), wrLoop batch fuel ls st = some st' → OkInv done st →
      OkInv (done ++ ls.flatten) st' := by
  induction ls with
  | nil => intro done st st' h hi; simp only [wrLoop, Option.some.injEq] at h; subst h; simpa using hi
  | cons l ls ih =>
    intro done st st' h hi
    simp only [wrLoop] at h
    cases h1 : wrStep batch fuel st l with
    | none => rw [h1] at h; cases h
    | some st1 =>
      rw [h1] at h
      have := ih (done ++ l) st1 st' h (wrStep_inv batch fuel done st st1 l h1 hi)
      simpa using this

/-- for *every* schedule of write outcomes (short counts, zero counts, errors): if the loop of
    `lbuf_wr` and its final flush end without a failed write, the bytes that reached the
    descriptor are exactly the lines and the recorded size is their length -/
theorem wrFinal_ok_exact (lines : List Bytes) (b e batch fuel : Nat) (sched : List WOut) (st : WrState)
    (h : wrFinal lines b e batch fuel sched = some st) (hok : st.ok = true) :
    st.out = ((lines.drop b).take (e - b)).flatten ∧ st.sz = ((lines.drop b).take (e - b)).flatten.length ∧
      e ≤ lines.length := by
  unfold wrFinal at h
  by_cases he : e > lines.length
  · rw [if_pos he] at h; cases h
  · rw [if_neg he] at h
    cases h1 : wrLoop batch fuel ((lines.drop b).take (e - b)) ({ sched := sched } : WrState) with
    | none => rw [h1] at h; cases h
    | some st0 =>
      rw [h1] at h
      have hi := wrLoop_inv batch fuel _ [] _ st0 h1 (fun _ => ⟨rfl, rfl⟩)
      simp only [List.nil_append] at hi
      simp only [] at h
      cases hok0 : st0.ok with
      | false =>
        simp only [hok0, Bool.not_false, if_true, Option.some.injEq] at h
        subst h; rw [hok0] at hok; cases hok
      | true =>
        obtain ⟨hb, hs⟩ := hi hok0
        simp only [hok0, Bool.not_true, Bool.false_eq_true, if_false] at h
        by_cases hbuf : st0.buf.length > 0
        · rw [if_pos hbuf] at h
          obtain ⟨a, _, c⟩ := flush_inv fuel st0 st _ h ⟨hb, hs⟩ hok
          exact ⟨a, c, by omega⟩
        · rw [if_neg hbuf] at h
          simp only [Option.some.injEq] at h
          subst h
          have : st0.buf = [] := by cases hb' : st0.buf <;> simp_all
          rw [this] at hb; simp at hb
          exact ⟨hb, hs, by omega⟩

/-! the file system -/

theorem find_put_aux (fs : List File) (f : File) :
    (if fs.any (fun g => g.path == f.path) then fs.map (fun g => if g.path == f.path then f else g)
      else fs ++ [f]).find? (fun g => g.path == f.path) = some f := by
  induction fs with
  | nil => simp
  | cons g fs ih =>
    by_cases hg : (g.path == f.path) = true
    · simp only [List.any_cons, hg, Bool.true_or, if_true, List.map_cons]
      rw [List.find?_cons_of_pos (by simp)]
    · have hg' : (g.path == f.path) = false := by simpa using hg
      simp only [List.any_cons, hg', Bool.false_or, List.map_cons, Bool.false_eq_true, if_false,
        List.cons_append]
      by_cases ha : fs.any (fun g => g.path == f.path) = true
      · rw [if_pos ha] at ih ⊢
        rw [List.find?_cons_of_neg (by simpa using hg')]
        exact ih
      · rw [if_neg ha] at ih ⊢
        rw [List.find?_cons_of_neg (by simpa using hg')]
        exact ih

/-- after `putFile f` the path of `f` designates `f` -/
theorem findFile_putFile (ed : Ed) (f : File) : (ed.putFile f).findFile f.path = some f := by
  have := find_put_aux ed.files f
  unfold Ed.putFile Ed.findFile
  by_cases ha : ed.files.any (fun g => g.path == f.path) = true
  · rw [if_pos ha] at this ⊢; exact this
  · rw [if_neg ha] at this ⊢; exact this

theorem putFile_faults (ed : Ed) (f : File) : (ed.putFile f).faults = ed.faults := by
  unfold Ed.putFile; split <;> rfl
theorem putFile_calls (ed : Ed) (f : File) : (ed.putFile f).calls = ed.calls := by
  unfold Ed.putFile; split <;> rfl
theorem putFile_clock (ed : Ed) (f : File) : (ed.putFile f).clock = ed.clock := by
  unfold Ed.putFile; split <;> rfl
theorem putFile_bufs (ed : Ed) (f : File) : (ed.putFile f).bufs = ed.bufs := by
  unfold Ed.putFile; split <;> rfl

/-- the file the path designates after the write calls -/
theorem findFile_afterWrite (ed2 : Ed) (path old : Bytes) (n : Nat) (st : WrState) :
    ∃ t, ((afterWrite ed2 path old n st).nextFault.2).findFile path =
      some ⟨path, fileAfter old st.out (if st.ok then some st.sz else none), t⟩ :=
  ⟨_, findFile_putFile ed2 ⟨path, _, _⟩⟩

/-- whenever `lbuf_save` reports success, the file holds exactly the written lines, whatever it
    held before and whatever short counts the `write` calls returned -/
theorem success_exact (ed ed' : Ed) (lb : Lb) (b : Nat) (e : Int) (path : Bytes) (force : Bool) (ts : Int)
    (h : lbufSave ed lb b e path force ts = some (none, ed')) :
    (ed'.findFile path).map (·.data) = some (((lb.lines.drop b).take (endLine lb e - b)).flatten) := by
  by_cases hg : GuardsPass ed path force ts
  · by_cases ho : ed.nextFault.1 = 101
    · obtain ⟨ed1, h1, _⟩ := open_failure_surfaces ed lb b e path force ts hg ho
      rw [h1] at h; cases h
    · rcases lbufSave_cases ed lb b e path force ts hg ho with ⟨_, h1⟩ | ⟨st, hw, hc⟩
      · rw [h1] at h; cases h
      · rcases hc with ⟨_, h1⟩ | ⟨_, _, h1⟩ | ⟨hok, _, h1⟩
        · rw [h1] at h; cases h
        · rw [h1] at h; cases h
        · rw [h1] at h
          simp only [Option.some.injEq, Prod.mk.injEq, true_and] at h
          subst h
          obtain ⟨t, ht⟩ := findFile_afterWrite (afterOpen ed path) path (oldData ed.nextFault.2 path) (endLine lb e - b) st
          obtain ⟨h2, h3, _⟩ := wrFinal_ok_exact _ _ _ _ _ _ _ hw hok
          rw [ht]
          simp only [hok, if_true, Option.map_some, Option.some.injEq]
          rw [h3, ← h2, wr_file]
  · obtain ⟨msg, h1⟩ := guards_fail ed lb b e path force ts hg
    rw [h1] at h; cases h

/-! ### 6: short writes are completed -/

/-- no error is scheduled for any call of the command (short counts and other kinds may be) -/
def NoErr (ed : Ed) : Prop := ∀ f ∈ ed.faults, f.2 ≠ 101

/-- without scheduled errors the next call does not fail -/
theorem nextFault_ne (ed : Ed) (h : NoErr ed) : ed.nextFault.1 ≠ 101 := by
  show (((ed.faults.find? (fun f => f.1 == ed.calls)).map (·.2)).getD 0) ≠ 101
  cases hf : ed.faults.find? (fun f => f.1 == ed.calls) with
  | none => simp
  | some f => simpa using h f (List.mem_of_find?_eq_some hf)

theorem afterOpen_faults (ed : Ed) (path : Bytes) : (afterOpen ed path).faults = ed.faults := by
  show (ed.nextFault.2.putFile _).faults = _
  rw [putFile_faults]; rfl

theorem afterOpen_clock (ed : Ed) (path : Bytes) : (afterOpen ed path).clock = ed.clock + 1 := rfl

theorem afterOpen_bufs (ed : Ed) (path : Bytes) : (afterOpen ed path).bufs = ed.bufs := by
  show (ed.nextFault.2.putFile _).bufs = _
  rw [putFile_bufs]; rfl

theorem afterWrite_faults (ed2 : Ed) (path old : Bytes) (n : Nat) (st : WrState) :
    (afterWrite ed2 path old n st).faults = ed2.faults := by
  show (ed2.putFile _).faults = _
  rw [putFile_faults]

theorem afterWrite_bufs (ed2 : Ed) (path old : Bytes) (n : Nat) (st : WrState) :
    (afterWrite ed2 path old n st).nextFault.2.bufs = ed2.bufs := by
  show (ed2.putFile _).bufs = _
  rw [putFile_bufs]

/-- without scheduled errors, every scheduled write outcome is a count of at least one byte -/
theorem schedOf_good (ed : Ed) (n : Nat) (h : NoErr ed) : GoodSched (schedOf ed n) := by
  intro o ho
  unfold schedOf at ho
  simp only [List.mem_map, List.mem_range] at ho
  obtain ⟨k, _, hk⟩ := ho
  cases hf : ed.faults.find? (fun f => f.1 == ed.calls + k) with
  | none =>
    rw [hf] at hk
    exact ⟨1000000000, hk.symm, by omega⟩
  | some f =>
    rw [hf] at hk
    have hne : f.2 ≠ 101 := h f (List.mem_of_find?_eq_some hf)
    simp only [Option.map_some] at hk
    split at hk
    · next hd =>
      simp only [Bool.and_eq_true, decide_eq_true_eq] at hd
      exact ⟨f.2 - 48, hk.symm, by omega⟩
    · exact ⟨1000000000, hk.symm, by omega⟩

theorem foldmax_ge (ls : List Bytes) : ∀ init : Nat,
    init ≤ ls.foldl (fun m l => max m l.length) init ∧
    ∀ l ∈ ls, l.length ≤ ls.foldl (fun m l => max m l.length) init := by
  induction ls with
  | nil => intro init; simp
  | cons x ls ih =>
    intro init
    obtain ⟨h1, h2⟩ := ih (max init x.length)
    simp only [List.foldl_cons, List.mem_cons]
    refine ⟨by omega, ?_⟩
    intro l hl
    rcases hl with rfl | hl
    · omega
    · exact h2 l hl

/-- the fuel of the model covers the batch size and the longest line -/
theorem fuelOf_covers (lb : Lb) : Gen.WR_BATCH ≤ fuelOf lb ∧ ∀ l ∈ lb.lines, l.length ≤ fuelOf lb := by
  obtain ⟨h1, h2⟩ := foldmax_ge lb.lines Gen.WR_BATCH
  unfold fuelOf
  refine ⟨by omega, ?_⟩
  intro l hl
  have := h2 l hl
  omega

/-- with no error scheduled, the write loop of `lbuf_save` finishes with every byte delivered, for
    all short counts and with the fuel the model supplies -/
theorem wrFinal_completes (ed2 : Ed) (lb : Lb) (b e' : Nat) (h : NoErr ed2) (he : e' ≤ lb.lines.length) :
    ∃ st, wrFinal lb.lines b e' Gen.WR_BATCH (fuelOf lb) (schedOf ed2 (e' - b)) = some st ∧ st.ok = true := by
  obtain ⟨hf, hl⟩ := fuelOf_covers lb
  have hws := wr_stream lb.lines b e' Gen.WR_BATCH (fuelOf lb) (schedOf ed2 (e' - b)) he (by decide) hf hl
    (schedOf_good ed2 _ h)
  unfold wr at hws
  cases hw : wrFinal lb.lines b e' Gen.WR_BATCH (fuelOf lb) (schedOf ed2 (e' - b)) with
  | none => rw [hw] at hws; cases hws
  | some st =>
    rw [hw] at hws
    refine ⟨st, rfl, ?_⟩
    cases hok : st.ok with
    | true => rfl
    | false => simp [hok] at hws

/-- short writes are retried until the data is out: if no call of the command has an error
    scheduled, the guards pass and the range lies inside the buffer, `lbuf_save` succeeds -/
theorem short_writes_complete (ed : Ed) (lb : Lb) (b : Nat) (e : Int) (path : Bytes) (force : Bool) (ts : Int)
    (hg : GuardsPass ed path force ts) (hne : NoErr ed) (he : endLine lb e ≤ lb.lines.length) :
    ∃ ed', lbufSave ed lb b e path force ts = some (none, ed') := by
  have ho := nextFault_ne ed hne
  have hne2 : NoErr (afterOpen ed path) := by unfold NoErr; rw [afterOpen_faults]; exact hne
  obtain ⟨st, hw, hok⟩ := wrFinal_completes (afterOpen ed path) lb b (endLine lb e) hne2 he
  rcases lbufSave_cases ed lb b e path force ts hg ho with ⟨h, _⟩ | ⟨st', h, hc⟩
  · rw [hw] at h; cases h
  · rw [hw] at h; cases h
    rcases hc with ⟨h1, _⟩ | ⟨_, h1, _⟩ | ⟨_, _, h1⟩
    · rw [hok] at h1; cases h1
    · exfalso
      refine nextFault_ne _ ?_ h1
      unfold NoErr; rw [afterWrite_faults]; exact hne2
    · exact ⟨_, h1⟩

/-! ### failures leave the buffers alone -/

/-- `lbuf_save` never touches the buffer table, whatever its outcome -/
theorem lbufSave_bufs (ed ed' : Ed) (lb : Lb) (b : Nat) (e : Int) (path : Bytes) (force : Bool) (ts : Int)
    (r : Option Bytes) (h : lbufSave ed lb b e path force ts = some (r, ed')) : ed'.bufs = ed.bufs := by
  by_cases hg : GuardsPass ed path force ts
  · by_cases ho : ed.nextFault.1 = 101
    · obtain ⟨ed1, h1, _, _, hb⟩ := open_failure_surfaces ed lb b e path force ts hg ho
      rw [h1] at h; cases h; exact hb
    · have key : ∀ st, (afterWrite (afterOpen ed path) path (oldData ed.nextFault.2 path) (endLine lb e - b) st).nextFault.2.bufs
          = ed.bufs := fun st => by rw [afterWrite_bufs, afterOpen_bufs]
      rcases lbufSave_cases ed lb b e path force ts hg ho with ⟨_, h1⟩ | ⟨st, hw, hc⟩
      · rw [h1] at h; cases h
      · rcases hc with ⟨_, h1⟩ | ⟨_, _, h1⟩ | ⟨_, _, h1⟩ <;>
        · rw [h1] at h; cases h; exact key st
  · obtain ⟨msg, h1⟩ := guards_fail ed lb b e path force ts hg
    rw [h1] at h; cases h; rfl

/-! ### 7: retrying after a failure -/

/-- `mtime(path)` looks at the file system only -/
theorem mtimeOf_congr (ed1 ed2 : Ed) (path : Bytes) (h : ed1.files = ed2.files) :
    ed1.mtimeOf path = ed2.mtimeOf path := by
  unfold Ed.mtimeOf Ed.findFile; rw [h]

/-- the guards look at the file system only -/
theorem GuardsPass_congr (ed1 ed2 : Ed) (path : Bytes) (force : Bool) (ts : Int) (h : ed1.files = ed2.files) :
    GuardsPass ed1 path force ts → GuardsPass ed2 path force ts := by
  unfold GuardsPass; rw [mtimeOf_congr ed1 ed2 path h]; exact id

/-- a save that fails before or at `open` (a guard refuses, or `open` fails) leaves the file system
    and the clock as they were -/
theorem failure_before_write_keeps_files (ed : Ed) (lb : Lb) (b : Nat) (e : Int) (path : Bytes) (force : Bool) (ts : Int)
    (h : ¬ GuardsPass ed path force ts ∨ ed.nextFault.1 = 101) :
    ∃ msg ed', lbufSave ed lb b e path force ts = some (some msg, ed') ∧ ed'.files = ed.files ∧ ed'.clock = ed.clock := by
  by_cases hg : GuardsPass ed path force ts
  · rcases h with h | h
    · exact absurd hg h
    · obtain ⟨ed', h1, h2, h3, _⟩ := open_failure_surfaces ed lb b e path force ts hg h
      exact ⟨_, ed', h1, h2, h3⟩
  · obtain ⟨msg, h1⟩ := guards_fail ed lb b e path force ts hg
    exact ⟨msg, ed, h1, rfl, rfl⟩

/-- after a failed `open` a retry with the same time stamp succeeds: in any later state with the
    same files and no error scheduled the guards pass again and the save goes through -/
theorem retry_after_open_error_succeeds (ed : Ed) (lb : Lb) (b : Nat) (e : Int) (path : Bytes) (force : Bool) (ts : Int)
    (hg : GuardsPass ed path force ts) (ho : ed.nextFault.1 = 101) (he : endLine lb e ≤ lb.lines.length) :
    ∃ ed', lbufSave ed lb b e path force ts = some (some (strOf "write failed: cannot create file"), ed') ∧
      ∀ ed2 : Ed, ed2.files = ed'.files → NoErr ed2 →
        ∃ ed3, lbufSave ed2 lb b e path force ts = some (none, ed3) := by
  obtain ⟨ed', h1, h2, _, _⟩ := open_failure_surfaces ed lb b e path force ts hg ho
  refine ⟨ed', h1, ?_⟩
  intro ed2 hf hne
  exact short_writes_complete ed2 lb b e path force ts
    (GuardsPass_congr ed ed2 path force ts (by rw [hf, h2]) hg) hne he

/-- once `open` has succeeded the editor itself has stamped the file: whatever happens afterwards
    (success, failed write, failed close), the file's modification time is beyond the old clock -/
theorem mtime_advanced (ed ed' : Ed) (lb : Lb) (b : Nat) (e : Int) (path : Bytes) (force : Bool) (ts : Int)
    (hg : GuardsPass ed path force ts) (ho : ed.nextFault.1 ≠ 101) (r : Option Bytes)
    (h : lbufSave ed lb b e path force ts = some (r, ed')) : ed'.mtimeOf path > ed.clock := by
  have key : ∀ st, (afterWrite (afterOpen ed path) path (oldData ed.nextFault.2 path) (endLine lb e - b) st).nextFault.2.mtimeOf path
      > ed.clock := by
    intro st
    unfold Ed.mtimeOf
    have := findFile_putFile (afterOpen ed path) ⟨path, fileAfter (oldData ed.nextFault.2 path) st.out (if st.ok then some st.sz else none),
      (afterOpen ed path).clock + (((schedOf (afterOpen ed path) (endLine lb e - b)).length - st.sched.length - (if st.ok then 0 else 1) : Nat) : Int)⟩
    have h2 : (afterWrite (afterOpen ed path) path (oldData ed.nextFault.2 path) (endLine lb e - b) st).nextFault.2.findFile path = _ := this
    rw [h2]
    simp only [afterOpen_clock]
    omega
  rcases lbufSave_cases ed lb b e path force ts hg ho with ⟨_, h1⟩ | ⟨st, hw, hc⟩
  · rw [h1] at h; cases h
  · rcases hc with ⟨_, h1⟩ | ⟨_, _, h1⟩ | ⟨_, _, h1⟩ <;>
    · rw [h1] at h; cases h; exact key st

/-- **the true retry statement of the model (and of the C)**: after a save that failed during
    `write` or `close`, the file carries a time stamp set by the editor itself; since `ec_write`
    passes the buffer's recorded `mtime`, which is updated on success only, a plain retry with the
    old time stamp (any `ts` not beyond the old clock) is refused as "file changed" with nothing
    written; with `!` the retry goes through when no error is scheduled -/
theorem retry_after_write_error_needs_force (ed ed' : Ed) (lb : Lb) (b : Nat) (e : Int) (path : Bytes) (force : Bool)
    (ts : Int) (msg : Bytes)
    (hg : GuardsPass ed path force ts) (ho : ed.nextFault.1 ≠ 101) (hts : ts ≤ ed.clock)
    (h : lbufSave ed lb b e path force ts = some (some msg, ed')) :
    (∀ ed2 : Ed, ed2.files = ed'.files →
      lbufSave ed2 lb b e path false ts = some (some (strOf "write failed: file changed"), ed2)) ∧
    (∀ ed2 : Ed, ed2.files = ed'.files → NoErr ed2 → endLine lb e ≤ lb.lines.length →
      ∃ ed3, lbufSave ed2 lb b e path true ts = some (none, ed3)) := by
  have hm := mtime_advanced ed ed' lb b e path force ts hg ho _ h
  constructor
  · intro ed2 hf
    apply guard_newer
    rw [mtimeOf_congr ed2 ed' path hf]
    omega
  · intro ed2 _ hne he
    exact short_writes_complete ed2 lb b e path true ts (Or.inl rfl) hne he

/-! ### the guards protect every existing file that is not the buffer's own -/

/-- a file that exists is never overwritten by a buffer that did not read it (`ts ≤ 0`) unless
    `!` is given; the state is unchanged.  (The message is "file changed" unless the file's time stamp
    is exactly 0: see `guard_foreign_range`.) -/
theorem foreign_refused (ed : Ed) (lb : Lb) (b : Nat) (e : Int) (path : Bytes) (ts : Int)
    (hts : ts ≤ 0) (hex : ed.mtimeOf path ≥ 0) :
    ∃ msg, lbufSave ed lb b e path false ts = some (some msg, ed) ∧
      (msg = strOf "write failed: file changed" ∨ msg = strOf "write failed: file exists") := by
  by_cases h : ed.mtimeOf path > ts
  · exact ⟨_, guard_newer ed lb b e path ts h, Or.inl rfl⟩
  · exact ⟨_, guard_foreign ed lb b e path ts hts hex h, Or.inr rfl⟩

/-- the second guard ("file exists") is reached only for a file whose time stamp is 0 and `ts = 0`;
    every other existing foreign file is caught by the first guard -/
theorem guard_foreign_range (ed : Ed) (path : Bytes) (ts : Int)
    (hts : ts ≤ 0) (hex : ed.mtimeOf path ≥ 0) (hn : ¬ ed.mtimeOf path > ts) : ed.mtimeOf path = 0 ∧ ts = 0 := by
  omega

/-! ### the `ec_write` level -/

/-- the file system and the buffer table are the same in both states -/
def Frame (ed ed' : Ed) : Prop := ed'.files = ed.files ∧ ed'.bufs = ed.bufs

theorem Frame.refl (ed : Ed) : Frame ed ed := ⟨rfl, rfl⟩
theorem Frame.trans {a b c : Ed} (h1 : Frame a b) (h2 : Frame b c) : Frame a c :=
  ⟨h2.1.trans h1.1, h2.2.trans h1.2⟩

theorem kwdSet_frame (ed : Ed) (k : Option Bytes) (d : Int) : Frame ed (ed.kwdSet k d) := ⟨rfl, rfl⟩

/-- `ex_search` touches neither files nor buffers -/
theorem exSearch_frame (ed ed' : Ed) (loc : Bytes) (r : Int × Bytes) (h : exSearch ed loc = some (r, ed')) :
    Frame ed ed' := by
  unfold exSearch at h
  simp only [] at h
  repeat' split at h
  all_goals (try cases h)
  all_goals first | exact Frame.refl _ | exact kwdSet_frame _ _ _

/-- `ex_lineno` touches neither files nor buffers -/
theorem exLineno_frame (ed ed' : Ed) (loc : Bytes) (r : Int × Bytes) (h : exLineno ed loc = some (r, ed')) :
    Frame ed ed' := by
  unfold exLineno at h
  simp only [] at h
  repeat' split at h
  all_goals (try cases h)
  all_goals
    rename_i hq
    repeat' split at hq
  all_goals (try cases hq)
  all_goals (try exact Frame.refl _)
  all_goals
    rename_i hs
    exact exSearch_frame _ _ _ _ hs

/-- the address loop of `ex_region` touches neither files nor buffers -/
theorem exRegion_go_frame : ∀ (f : Nat) (ed ed' : Ed) (loc : Bytes) (naddr : Nat) (b e : Int) (r : Int × Int),
    exRegion.go f ed loc naddr b e = some (r, ed') → Frame ed ed' := by
  intro f
  induction f with
  | zero => intro ed ed' loc naddr b e r h; simp only [exRegion.go] at h; cases h; exact Frame.refl _
  | succ f ih =>
    intro ed ed' loc naddr b e r h
    simp only [exRegion.go] at h
    split at h
    · cases h; exact Frame.refl _
    · split at h
      · cases h
      · next n rest ed1 hl =>
        have f1 := exLineno_frame _ _ _ _ hl
        split at h
        · cases h; exact f1
        · split at h
          · cases h; exact f1
          · have f2 := ih _ _ _ _ _ _ _ h
            refine Frame.trans f1 (Frame.trans ?_ f2)
            split
            · exact ⟨rfl, rfl⟩
            · exact Frame.refl _

/-- `ex_region` touches neither files nor buffers -/
theorem exRegion_frame (ed ed' : Ed) (loc : Bytes) (r : Nat × Int × Int) (h : exRegion ed loc = some (r, ed')) :
    Frame ed ed' := by
  unfold exRegion at h
  simp only [] at h
  split at h
  · cases h; exact Frame.refl _
  · split at h
    · cases h; exact Frame.refl _
    · split at h
      · cases h
      · next b e ed1 hgo =>
        have f1 := exRegion_go_frame _ _ _ _ _ _ _ _ hgo
        repeat' split at h
        all_goals (cases h; exact f1)

/-- `ex_pathexpand` touches neither files nor buffers -/
theorem pathExpand_frame (ed ed' : Ed) (src : Bytes) (sp : Bool) (r : Option Bytes)
    (h : pathExpand ed src sp = some (r, ed')) : Frame ed ed' := by
  unfold pathExpand at h
  repeat' split at h
  all_goals (try cases h)
  all_goals first | exact Frame.refl _ | exact ⟨rfl, rfl⟩

/-- the path `ec_write` resolves -/
def writePath (ed : Ed) (arg : Bytes) : R (Option Bytes) :=
  if !arg.isEmpty then pathExpand ed arg true else some (ed.cur.map (·.path), ed)

/-- the line range `ec_write` passes to `lbuf_save` -/
def writeRange (ed : Ed) (loc : Bytes) (b e : Int) : Int × Int :=
  if loc.isEmpty then ((0 : Int), ed.len) else (b, e)

/-- resolving the path of `:w` touches neither files nor buffers -/
theorem writePath_frame (ed ed1 : Ed) (arg : Bytes) (r : Option Bytes) (h : writePath ed arg = some (r, ed1)) :
    Frame ed ed1 := by
  unfold writePath at h
  split at h
  · exact pathExpand_frame _ _ _ _ _ h
  · cases h; exact Frame.refl _

/-- failures surface and the buffer stays dirty, in the shape of the model: `ec_write` calls `lbuf_save`
    with a path that may be empty (`lbufSaveP`); when that call fails inside `:w`, the command
    returns 1 with the error text shown, and the buffer table is exactly what it was before the
    command (no `lbuf_saved`).  No assumption on the path. -/
theorem ecWrite_failureP (ed ed1 ed2 ed3 : Ed) (loc cmd arg path err : Bytes) (b e : Int) (cur : Buf)
    (hp : writePath ed arg = some (some path, ed1)) (hx : cmd.headD 0 ≠ 120)
    (hr : exRegion ed1 loc = some ((0, b, e), ed2)) (hc : ed2.cur = some cur) (hsh : path.headD 0 ≠ 33)
    (hs : lbufSaveP ed2 cur.lb (writeRange ed2 loc b e).1.toNat (writeRange ed2 loc b e).2 path (hasBang cmd)
      (if cur.path == path then cur.mtime else 0) = some (some err, ed3)) :
    ecWrite ed loc cmd arg = some (1, ed3.show err) ∧ (ed3.show err).bufs = ed.bufs := by
  have f1 := writePath_frame _ _ _ _ hp
  have f2 := exRegion_frame _ _ _ _ hr
  have f3 := Lemmas.C02Ex.lbufSaveP_bufs _ _ _ _ _ _ _ _ _ hs
  refine ⟨?_, ?_⟩
  · unfold writePath at hp
    unfold ecWrite
    simp only [hp]
    have hx' : (cmd.headD 0 == 120) = false := by simpa using hx
    simp only [hx', Bool.false_eq_true, if_false, hr]
    have hsh' : (path.headD 0 == 33) = false := by simpa using hsh
    unfold writeRange at hs
    simp only [bne_self_eq_false, Option.isNone_some, Bool.or_false, Bool.false_eq_true, if_false, hc,
      Option.getD_some, hsh', hs]
  · show ed3.bufs = ed.bufs
    rw [f3, f2.2, f1.2]

/-- failures surface and the buffer stays dirty: when `lbuf_save` fails inside `:w` (to a file that
    has a name), the command returns 1 with the error text shown, and the buffer table — the text, the
    undo state that decides `modified`, and the recorded `mtime` of every buffer — is exactly what it
    was before the command (no `lbuf_saved`) -/
theorem ecWrite_failure (ed ed1 ed2 ed3 : Ed) (loc cmd arg path err : Bytes) (b e : Int) (cur : Buf)
    (hp : writePath ed arg = some (some path, ed1)) (hx : cmd.headD 0 ≠ 120)
    (hr : exRegion ed1 loc = some ((0, b, e), ed2)) (hc : ed2.cur = some cur) (hsh : path.headD 0 ≠ 33)
    (hpne : path ≠ [])
    (hs : lbufSave ed2 cur.lb (writeRange ed2 loc b e).1.toNat (writeRange ed2 loc b e).2 path (hasBang cmd)
      (if cur.path == path then cur.mtime else 0) = some (some err, ed3)) :
    ecWrite ed loc cmd arg = some (1, ed3.show err) ∧ (ed3.show err).bufs = ed.bufs :=
  ecWrite_failureP ed ed1 ed2 ed3 loc cmd arg path err b e cur hp hx hr hc hsh
    (by rw [Lemmas.C02Ex.lbufSaveP_of_ne hpne]; exact hs)

/-- **`:w` in a buffer without a name fails**: when the path `ec_write` resolves is empty (no argument
    and the current buffer has no file name), `open("")` fails; the command returns 1, shows
    "write failed: cannot create file", and neither the buffer table nor the file system changes —
    nothing is marked saved, the buffer stays dirty.  (Only a scheduled call is consumed.) -/
theorem ecWrite_unnamed_fails (ed ed1 ed2 : Ed) (loc cmd arg : Bytes) (b e : Int) (cur : Buf)
    (hp : writePath ed arg = some (some [], ed1)) (hx : cmd.headD 0 ≠ 120)
    (hr : exRegion ed1 loc = some ((0, b, e), ed2)) (hc : ed2.cur = some cur) :
    ∃ ed', ecWrite ed loc cmd arg = some (1, ed') ∧
      ed' = (Lemmas.C02Ex.unnamedFail ed2).show (strOf "write failed: cannot create file") ∧
      ed'.msg = ed2.msg ++ strOf "write failed: cannot create file" ++ [10] ∧
      ed'.bufs = ed.bufs ∧ ed'.files = ed.files := by
  have f1 := writePath_frame _ _ _ _ hp
  have f2 := exRegion_frame _ _ _ _ hr
  have h := ecWrite_failureP ed ed1 ed2 (Lemmas.C02Ex.unnamedFail ed2) loc cmd arg [] _ b e cur hp hx hr hc
    (by decide) (Lemmas.C02Ex.lbufSaveP_empty _ _ _ _ _ _)
  refine ⟨_, h.1, rfl, ?_, h.2, ?_⟩
  · show (Lemmas.C02Ex.unnamedFail ed2).msg ++ _ ++ _ = _
    have : (Lemmas.C02Ex.unnamedFail ed2).msg = ed2.msg := by
      unfold Lemmas.C02Ex.unnamedFail; split <;> rfl
    rw [this]
  · show (Lemmas.C02Ex.unnamedFail ed2).files = ed.files
    rw [Lemmas.C02Ex.unnamedFail_files, f2.1, f1.1]

/-- the instance the property speaks about: plain `:w` (no argument) when the current buffer has no
    file name -/
theorem w_unnamed_fails (ed ed2 : Ed) (loc cmd : Bytes) (b e : Int) (c0 cur : Buf)
    (h0 : ed.cur = some c0) (hpath : c0.path = []) (hx : cmd.headD 0 ≠ 120)
    (hr : exRegion ed loc = some ((0, b, e), ed2)) (hc : ed2.cur = some cur) :
    ∃ ed', ecWrite ed loc cmd [] = some (1, ed') ∧
      ed'.msg = ed2.msg ++ strOf "write failed: cannot create file" ++ [10] ∧
      ed'.bufs = ed.bufs ∧ ed'.files = ed.files := by
  have hp : writePath ed [] = some (some [], ed) := by
    unfold writePath
    simp [h0, hpath]
  obtain ⟨ed', h1, _, h3, h4, h5⟩ := ecWrite_unnamed_fails ed ed ed2 loc cmd [] b e cur hp hx hr hc
  exact ⟨ed', h1, h3, h4, h5⟩

/-- `:w path` without `!` never overwrites an existing file that is not the current buffer's own:
    the command fails with the file system and the buffers unchanged -/
theorem ecWrite_foreign_refused (ed ed1 ed2 : Ed) (loc cmd arg path : Bytes) (b e : Int) (cur : Buf)
    (hp : writePath ed arg = some (some path, ed1)) (hx : cmd.headD 0 ≠ 120)
    (hr : exRegion ed1 loc = some ((0, b, e), ed2)) (hc : ed2.cur = some cur) (hsh : path.headD 0 ≠ 33)
    (hbang : hasBang cmd = false) (hforeign : cur.path ≠ path) (hex : ed.mtimeOf path ≥ 0) :
    ∃ ed', ecWrite ed loc cmd arg = some (1, ed') ∧ ed'.files = ed.files ∧ ed'.bufs = ed.bufs := by
  by_cases hpne : path = []
  · -- the empty path: `open("")` fails before anything is written
    subst hpne
    obtain ⟨ed', h1, _, _, h4, h5⟩ := ecWrite_unnamed_fails ed ed1 ed2 loc cmd arg b e cur hp hx hr hc
    exact ⟨ed', h1, h5, h4⟩
  have f1 := writePath_frame _ _ _ _ hp
  have f2 := exRegion_frame _ _ _ _ hr
  have hex2 : ed2.mtimeOf path ≥ 0 := by
    rw [mtimeOf_congr ed2 ed path (by rw [f2.1, f1.1])]; exact hex
  have hts : (if cur.path == path then cur.mtime else 0) = (0 : Int) := by
    have : (cur.path == path) = false := by simpa using hforeign
    simp [this]
  obtain ⟨msg, hs, _⟩ := foreign_refused ed2 cur.lb (writeRange ed2 loc b e).1.toNat (writeRange ed2 loc b e).2 path 0
    (Int.le_refl 0) hex2
  have := ecWrite_failure ed ed1 ed2 ed2 loc cmd arg path msg b e cur hp hx hr hc hsh hpne (by rw [hbang, hts]; exact hs)
  exact ⟨_, this.1, by show ed2.files = ed.files; rw [f2.1, f1.1], this.2⟩

/-! ### non-vacuity -/

def exLb : Lb := { lines := [[97, 10], [98, 99, 10]] }
def exEd : Ed := { files := [⟨[102], [120, 10], 1500⟩, ⟨[103], [], 0⟩], clock := 2000 }
def exView (r : Option Bytes × Ed) : Option Bytes × List File := (r.1, r.2.files)

-- refused: the file is newer than the buffer's time stamp
example : (lbufSave exEd exLb 0 (-1) [102] false 1200).map exView =
    some (some (strOf "write failed: file changed"), exEd.files) := by decide +kernel
-- refused: a foreign file
example : (lbufSave exEd exLb 0 (-1) [102] false 0).map exView =
    some (some (strOf "write failed: file changed"), exEd.files) := by decide +kernel
example : (lbufSave exEd exLb 0 (-1) [103] false 0).map exView =
    some (some (strOf "write failed: file exists"), exEd.files) := by decide +kernel
-- success replaces the content, whatever it was
example : (lbufSave exEd exLb 0 (-1) [102] false 1500).map exView =
    some (none, [⟨[102], [97, 10, 98, 99, 10], 2002⟩, ⟨[103], [], 0⟩]) := by decide +kernel
-- short counts (1 byte, then 2 bytes) are completed
example : (lbufSave { exEd with faults := [(1, 49), (2, 50)] } exLb 0 (-1) [102] false 1500).map exView =
    some (none, [⟨[102], [97, 10, 98, 99, 10], 2004⟩, ⟨[103], [], 0⟩]) := by decide +kernel
-- an `open` error
example : (lbufSave { exEd with faults := [(0, 101)] } exLb 0 (-1) [102] false 1500).map exView =
    some (some (strOf "write failed: cannot create file"), exEd.files) := by decide +kernel
-- a write error after one byte: reported; the file is damaged and stamped
example : (lbufSave { exEd with faults := [(1, 49), (2, 101)] } exLb 0 (-1) [102] false 1500).map exView =
    some (some (strOf "write failed"), [⟨[102], [97, 10], 2002⟩, ⟨[103], [], 0⟩]) := by decide +kernel
-- a close error: reported although the data is complete
example : (lbufSave { exEd with faults := [(2, 101)] } exLb 0 (-1) [102] false 1500).map exView =
    some (some (strOf "write failed"), [⟨[102], [97, 10, 98, 99, 10], 2002⟩, ⟨[103], [], 0⟩]) := by decide +kernel
-- the retry with the old time stamp is refused, the forced retry goes through
example : ((lbufSave { exEd with faults := [(1, 49), (2, 101)] } exLb 0 (-1) [102] false 1500).bind
      (fun r => lbufSave { r.2 with faults := [], calls := 0 } exLb 0 (-1) [102] false 1500)).map exView =
    some (some (strOf "write failed: file changed"), [⟨[102], [97, 10], 2002⟩, ⟨[103], [], 0⟩]) := by decide +kernel
example : ((lbufSave { exEd with faults := [(1, 49), (2, 101)] } exLb 0 (-1) [102] false 1500).bind
      (fun r => lbufSave { r.2 with faults := [], calls := 0 } exLb 0 (-1) [102] true 1500)).map exView =
    some (none, [⟨[102], [97, 10, 98, 99, 10], 2004⟩, ⟨[103], [], 0⟩]) := by decide +kernel

/-- the same at the `:w` level: buffer "f" read at time 1500 -/
def exEd2 : Ed := { bufs := [some { path := [102], lb := exLb, mtime := 1500 }] ++ List.replicate 15 none,
                    files := [⟨[102], [120, 10], 1500⟩, ⟨[103], [], 0⟩], clock := 2000 }
def exView2 (r : Int × Ed) : Int × Bytes × List File × Option Int :=
  (r.1, r.2.msg, r.2.files, r.2.cur.map (·.mtime))

-- `:w` with a write error: rc 1, message, recorded mtime still 1500
example : (ecWrite { exEd2 with faults := [(1, 49), (2, 101)] } [] (strOf "w") []).map exView2 =
    some (1, strOf "write failed\n", [⟨[102], [97, 10], 2002⟩, ⟨[103], [], 0⟩], some 1500) := by decide +kernel
-- a second `:w` is refused: the editor's own partial write made the file "newer"
example : ((ecWrite { exEd2 with faults := [(1, 49), (2, 101)] } [] (strOf "w") []).bind
     (fun r => ecWrite { r.2 with faults := [], calls := 0, msg := [] } [] (strOf "w") [])).map exView2 =
    some (1, strOf "write failed: file changed\n", [⟨[102], [97, 10], 2002⟩, ⟨[103], [], 0⟩], some 1500) := by
  decide +kernel
-- `:w!` repairs the file
example : ((ecWrite { exEd2 with faults := [(1, 49), (2, 101)] } [] (strOf "w") []).bind
     (fun r => ecWrite { r.2 with faults := [], calls := 0, msg := [] } [] (strOf "w!") [])).map exView2 =
    some (0, strOf "\"f\"  [=2]  [w]\n", [⟨[102], [97, 10, 98, 99, 10], 2004⟩, ⟨[103], [], 0⟩], some 2004) := by
  decide +kernel
-- `:w g` onto an existing foreign file is refused
example : (ecWrite exEd2 [] (strOf "w") [103]).map exView2 =
    some (1, strOf "write failed: file exists\n", exEd2.files, some 1500) := by decide +kernel

/-- a buffer without a name (never read from, never written to a file), two lines of text -/
def exEd3 : Ed := { bufs := [some { path := [], lb := exLb }] ++ List.replicate 15 none,
                    files := [⟨[102], [120, 10], 1500⟩, ⟨[103], [], 0⟩], clock := 2000 }

-- the hypotheses of `ecWrite_unnamed_fails` (and of `w_unnamed_fails`) are met by `:w` on that buffer
example : ∃ ed1 ed2 b e cur, writePath exEd3 [] = some (some [], ed1) ∧ (strOf "w").headD 0 ≠ 120 ∧
    exRegion ed1 [] = some ((0, b, e), ed2) ∧ ed2.cur = some cur :=
  ⟨exEd3, exEd3, 0, 1, { path := [], lb := exLb }, rfl, by decide +kernel, rfl, rfl⟩
example : ∃ c0 ed2 b e cur, exEd3.cur = some c0 ∧ c0.path = [] ∧ (strOf "w").headD 0 ≠ 120 ∧
    exRegion exEd3 [] = some ((0, b, e), ed2) ∧ ed2.cur = some cur :=
  ⟨{ path := [], lb := exLb }, exEd3, 0, 1, { path := [], lb := exLb }, rfl, rfl, by decide +kernel, rfl, rfl⟩
-- `:w` in a buffer without a name: rc 1, the message, no file touched, nothing recorded as saved
example : (ecWrite exEd3 [] (strOf "w") []).map exView2 =
    some (1, strOf "write failed: cannot create file\n", exEd3.files, some (-1)) := by decide +kernel
-- ... and the buffer is as dirty as it was (the table is untouched)
example : ((ecWrite exEd3 [] (strOf "w") []).map (fun r => r.2.bufs.map (·.map (fun b => (b.path, b.lb.lines, (modified b.lb).1))))) =
    some (exEd3.bufs.map (·.map (fun b => (b.path, b.lb.lines, (modified b.lb).1)))) := by decide +kernel
-- `:w!` does not help either, and a scheduled `open` error changes nothing visible
example : (ecWrite { exEd3 with faults := [(0, 101)] } [] (strOf "w!") []).map exView2 =
    some (1, strOf "write failed: cannot create file\n", exEd3.files, some (-1)) := by decide +kernel
-- `:w f` from the unnamed buffer still works and gives the buffer its name
example : (ecWrite exEd3 [] (strOf "w!") [102]).map exView2 =
    some (0, strOf "\"f\"  [=2]  [w]\n", [⟨[102], [97, 10, 98, 99, 10], 2002⟩, ⟨[103], [], 0⟩], some 2002) := by
  decide +kernel
example : (ecWrite exEd3 [] (strOf "w!") [102]).bind (fun r => r.2.cur.map (·.path)) = some [102] := by
  decide +kernel

end Neatvi.Props.C03
