import NeatviVerif.Props.C08
import NeatviVerif.Props.C08d
import NeatviVerif.Lemmas.C08eInput
import NeatviVerif.Lemmas.C08eRows
import NeatviVerif.Lemmas.C08ePlain
/-!
# C08 (fifth part): insert mode with typed lines that are empty or start with blanks

1. `led_input` over the typed lines `l₀ ⏎ l₁ ⏎ … ⏎ l_k ESC` where every line may be empty, consist of blanks
   only, or start with blanks / tabs: `ledInput_lines_general`.  The text is `inputText` (a recursive
   function of the typed lines: `inputText_nil`, `inputText_cons`, `contText_nil`, `contText_cons`); the
   auto-indent the model computes is `aiNext` / `aiSeq` (closed form: `contText_eq`), never longer than 127
   bytes (`aiNext_length`, `aiSeq_length_le`).  `ledInput_lines_spec` of `Props/C08d.lean` is the special case
   of lines that do not start with a blank (`inputText_plain`); its formula is false for blank lines
   (`ledInput_lines_spec_blank_false`), and so is the naive auto-indent rule (`aiNext_naive_false`; the rule that
   holds: `aiNext_row`).
2. `vc_insert` (`i a I A o O`) with such a text: `vcInsert_{i,a,A,I,o,O}_lines_general`, the rows `insRows`
   (`rowsG_nil`, `rowsG_cons`) and the cursor offset `insOff`; the theorems of `Props/C08d.lean` are instances
   (`insRows_plain`, `insOff_plain`).
3. `c` over several rows: `viChange_multi_spec`, `viChange_multi_lines`, `viChange_multi_regs`.

All statements are about the model (`Model/Vi.lean`, `Model/ViCmd.lean`), total (`Res.ok`, no trap).
-/
namespace Neatvi.Props.C08e
open Neatvi Neatvi.Uc Neatvi.Vi Neatvi.Ex Neatvi.Spec Neatvi.Lemmas.C08 Neatvi.Lemmas.C08b Neatvi.Lemmas.C09
open Neatvi.Lemmas.C08d Neatvi.Lemmas.C08e Neatvi.Props.C08b Neatvi.Props.C08d

/-! ## 1. `led_input` over lines that may be empty or start with blanks -/

/-- a typed key (`TKey`): a valid code point, not a control character other than TAB, not DEL; a typed line
(`TLine`): such keys — blanks and tabs anywhere, also an empty line — within the bound of the model's loop -/
theorem tline_iff (l : List Nat) : TLine l ↔
    (∀ c ∈ l, ValidCp c ∧ (32 ≤ c ∨ c = 9) ∧ c ≠ 127) ∧ l.length < 100000 := Iff.rfl

/-- the lines of `Props/C08d.lean` are such lines -/
theorem tline_of_plainLine {l : List Nat} (h : PlainLine l) : TLine l := tline_of_plain h

/-- **the rule for writing the auto-indent** (`keepB pne lastNE ln`): the auto-indent is written in front of
the typed line `ln` iff the line has a non-blank character, or text precedes it on its row (`pne`: only
possible on the first line), or it is the last line and is followed by more than the newline (`lastNE`) -/
theorem keepB_iff (pne lastNE : Bool) (ln : Bytes) : keepB pne lastNE ln = true ↔
    (ln.takeWhile isBlankC).length < ln.length ∨ pne = true ∨ lastNE = true := by
  unfold keepB lnBlanks
  simp [or_assoc]

/-- **the auto-indent rule** (`aiNext xai pne ai ln`), the auto-indent after the typed line `ln` when it was
`ai` before: nothing without `autoindent`; unchanged when text preceded the line on its row; else `ai`
followed by the leading blanks of `ln`, cut so that the whole does not exceed 127 bytes -/
theorem aiNext_eq (xai pne : Bool) (ai ln : Bytes) : aiNext xai pne ai ln =
    if xai = false then [] else if pne = true then ai else ai ++ (ln.takeWhile isBlankC).take (127 - ai.length) := by
  unfold aiNext lnBlanks
  cases xai <;> simp

/-- the 127-byte clamp: the auto-indent never exceeds 127 bytes -/
theorem aiNext_length (xai pne : Bool) (ai ln : Bytes) (h : ai.length ≤ 127) : (aiNext xai pne ai ln).length ≤ 127 :=
  Lemmas.C08e.aiNext_length xai pne ai ln h

/-- the auto-indent after a line typed at the start of its row is the leading blanks of that row as written
(auto-indent ++ typed line), at most 127 of them — also when the row is blank and the auto-indent was in fact
not written (`keepB`) -/
theorem aiNext_row (ai ln : Bytes) (hb : ∀ c ∈ ai, isBlankC c = true) (hl : ai.length ≤ 127) :
    aiNext true false ai ln = ((ai ++ ln).takeWhile isBlankC).take 127 := by
  rw [aiNext_eq, List.takeWhile_append_of_pos hb, List.take_append, List.take_of_length_le hl]
  simp

/-- the naive reading of the rule — "the next auto-indent is the leading blanks of the line just typed, or the
inherited one if that line has none" — is not what the model computes: the typed blanks are *added* to the
inherited auto-indent (`o` on a line indented by `␣␣`, then `␣␣x ⏎ y`: the row of `y` is indented by four) -/
def aiNaive (ai ln : Bytes) : Bytes :=
  if (ln.takeWhile isBlankC).isEmpty then ai else (ln.takeWhile isBlankC).take 127

theorem aiNext_naive_false : ¬ ∀ (ai ln : Bytes), ai.length ≤ 127 → aiNext true false ai ln = aiNaive ai ln := by
  intro h
  have := h [32, 32] [32, 32, 120] (by decide)
  revert this
  decide

/-- the typed lines as `led_line` returns them -/
abbrev encLines (ls : List (List Nat)) : List Bytes := ls.map encStr

/-- the text of the lines typed after the first newline: `post` is the rest of the line (already without its
leading blanks when `autoindent` is set), `ai` the auto-indent in force -/
def contText (xai : Bool) (post ai : Bytes) (ls : List (List Nat)) (last : List Nat) : Bytes :=
  loopText xai none post ai (encLines ls) (encStr last)

/-- **the text `led_input` returns** for the prefix `pref`, the rest of the line `post`, the typed lines `ls`
(each ended by a newline) and `last` (ended by ESC) -/
def inputText (xai : Bool) (pref post : Bytes) (ls : List (List Nat)) (last : List Nat) : Bytes :=
  inputTextB xai pref post (encLines ls) (encStr last)

/-- no newline typed: the auto-indent split off the prefix (`aiOf pref`: its leading blanks, at most 127), if
kept, the rest of the prefix, the typed line, the rest of the line -/
theorem inputText_nil (xai : Bool) (pref post : Bytes) (last : List Nat) :
    inputText xai pref post [] last =
      (if keepB (!(prefRest pref).isEmpty) (!post.isEmpty && post.headD 0 != 10) (encStr last) then aiOf pref else []) ++
        prefRest pref ++ encStr last ++ post := rfl

/-- the first typed line goes after the prefix; the text continues after the newline with the rest of the
line without its leading blanks (with `autoindent`: `dropB`) and the next auto-indent -/
theorem inputText_cons (xai : Bool) (pref post : Bytes) (l : List Nat) (ls : List (List Nat)) (last : List Nat) :
    inputText xai pref post (l :: ls) last =
      (if keepB (!(prefRest pref).isEmpty) false (encStr l) then aiOf pref else []) ++ prefRest pref ++ encStr l ++ [10] ++
        contText xai (dropB xai post) (aiNext xai (!(prefRest pref).isEmpty) (aiOf pref) (encStr l)) ls last := rfl

theorem contText_nil (xai : Bool) (post ai : Bytes) (last : List Nat) :
    contText xai post ai [] last =
      (if keepB false (!post.isEmpty && post.headD 0 != 10) (encStr last) then ai else []) ++ encStr last ++ post := by
  simp [contText, loopText, pneOf, postNE]

theorem contText_cons (xai : Bool) (post ai : Bytes) (l : List Nat) (ls : List (List Nat)) (last : List Nat) :
    contText xai post ai (l :: ls) last =
      (if keepB false false (encStr l) then ai else []) ++ encStr l ++ [10] ++
        contText xai (dropB xai post) (aiNext xai false ai (encStr l)) ls last := by
  simp [contText, loopText, pneOf]
  rfl

/-- `aiSeq xai pne ai ls`: the auto-indents in force when each of the lines `ls` is typed, and after them -/
theorem aiSeq_nil (xai pne : Bool) (ai : Bytes) : aiSeq xai pne ai [] = [ai] := rfl
theorem aiSeq_cons (xai pne : Bool) (ai l : Bytes) (ls : List Bytes) :
    aiSeq xai pne ai (l :: ls) = ai :: aiSeq xai false (aiNext xai pne ai l) ls := rfl

/-- its `k`-th entry is the auto-indent after the first `k` lines; every entry is at most 127 bytes long -/
theorem aiSeq_getElem (xai pne : Bool) (ai : Bytes) (ls : List Bytes) (k : Nat) (hk : k ≤ ls.length) :
    (aiSeq xai pne ai ls)[k]? = some (aiAfter xai pne ai (ls.take k)) := Lemmas.C08e.aiSeq_getElem xai ls pne ai k hk

theorem aiSeq_length_le (xai pne : Bool) (ai : Bytes) (ls : List Bytes) (h : ai.length ≤ 127) :
    ∀ a ∈ aiSeq xai pne ai ls, a.length ≤ 127 := by
  intro a ha
  obtain ⟨k, hk, rfl⟩ := List.getElem_of_mem ha
  have hk' : k ≤ ls.length := by rw [Lemmas.C08e.aiSeq_length] at hk; omega
  have := aiSeq_getElem xai pne ai ls k hk'
  rw [List.getElem?_eq_getElem hk] at this
  rw [Option.some.inj this]
  exact aiAfter_length xai _ pne ai h

/-- **closed form**: every line typed after the first newline is written after its auto-indent from `aiSeq`
(unless it is blank), the last one also when text follows it -/
theorem contText_eq (xai : Bool) (post ai : Bytes) (ls : List (List Nat)) (last : List Nat) :
    contText xai post ai ls last =
      (List.zipWith (fun a l => (if keepB false false l then a else []) ++ l ++ [10])
        (aiSeq xai false ai (encLines ls)) (encLines ls)).flatten ++
      (if keepB false (postNE (if ls = [] then post else dropB xai post)) (encStr last)
        then aiAfter xai false ai (encLines ls) else []) ++
      encStr last ++ (if ls = [] then post else dropB xai post) := by
  unfold contText
  rw [loopText_none]
  simp only [encLines, List.map_eq_nil_iff]

/-- **`led_input` over typed lines that may be empty or start with blanks, with the frame.**  The pending keys
are the lines `ls`, each followed by a newline, then the line `last` and ESC; every line is a `TLine`.
`led_input` returns the text `inputText` and the rest of the line (after a newline without its leading blanks,
with `autoindent`); the keys are consumed; the cursor row moved down by the number of newlines; the buffers,
the registers and all state outside the editor record and the key queue are untouched (`Typed`). -/
theorem ledInput_lines_general (pref post : Bytes) (s : VS) (ls : List (List Nat)) (last : List Nat) (rest : Bytes)
    (hp : pending s = (ls.map (fun l => encStr l ++ [10])).flatten ++ encStr last ++ [27] ++ rest)
    (hpl : ∀ l ∈ last :: ls, TLine l) (hlen : ls.length < 100000) (hk : s.xkmap = 0) :
    ∃ s', ledInput pref post s =
        Res.ok (inputText s.xai pref post ls last, if ls = [] then post else postAfterNl s post) s' ∧
      pending s' = rest ∧ Typed ((ls.map (fun l => encStr l ++ [10])).flatten ++ encStr last ++ [27]) ls.length s s' :=
  ledInput_lines_gen pref post s ls last rest hp hpl hlen hk

/-- for lines that do not start with a blank the text is the one of `ledInput_lines_spec` (`Props/C08d.lean`):
the auto-indent stays the one of the prefix -/
theorem inputText_plain (s : VS) (pref post : Bytes) (ls : List (List Nat)) (last : List Nat)
    (hpl : ∀ l ∈ last :: ls, PlainLine l) :
    inputText s.xai pref post ls last =
      pref ++ (ls.map (fun l => encStr l ++ [10] ++ aiAfterNl s pref)).flatten ++ encStr last ++
        (if ls = [] then post else postAfterNl s post) :=
  inputTextB_plain s pref post ls last hpl

/-- `ledInput_lines_spec` (`Props/C08d.lean`) is an instance of `ledInput_lines_general` -/
example (pref post : Bytes) (s : VS) (ls : List (List Nat)) (last : List Nat) (rest : Bytes)
    (hp : pending s = (ls.map (fun l => encStr l ++ [10])).flatten ++ encStr last ++ [27] ++ rest)
    (hpl : ∀ l ∈ last :: ls, PlainLine l) (hlen : ls.length < 100000) (hk : s.xkmap = 0) :
    ∃ s', ledInput pref post s =
        Res.ok (pref ++ (ls.map (fun l => encStr l ++ [10] ++ aiAfterNl s pref)).flatten ++ encStr last ++
          (if ls = [] then post else postAfterNl s post), if ls = [] then post else postAfterNl s post) s' ∧
      pending s' = rest ∧ Typed ((ls.map (fun l => encStr l ++ [10])).flatten ++ encStr last ++ [27]) ls.length s s' := by
  obtain ⟨s', h1, h2, h3⟩ := ledInput_lines_general pref post s ls last rest hp
    (fun l hl => tline_of_plainLine (hpl l hl)) hlen hk
  exact ⟨s', by rw [h1, inputText_plain s pref post ls last hpl], h2, h3⟩

/-- the formula of `ledInput_lines_spec` (`Props/C08d.lean`: every continuation line after the auto-indent of
the prefix) does not extend to blank lines: it is false as soon as `PlainLine` is weakened to `TLine`.
After the prefix `␣␣`, typed `⏎ ESC` gives two empty rows, not two rows of two blanks. -/
theorem ledInput_lines_spec_blank_false :
    ¬ ∀ (pref post : Bytes) (s : VS) (ls : List (List Nat)) (last : List Nat) (rest : Bytes),
      pending s = (ls.map (fun l => encStr l ++ [10])).flatten ++ encStr last ++ [27] ++ rest →
      (∀ l ∈ last :: ls, TLine l) → ls.length < 100000 → s.xkmap = 0 →
      ∃ s', ledInput pref post s =
        Res.ok (pref ++ (ls.map (fun l => encStr l ++ [10] ++ aiAfterNl s pref)).flatten ++ encStr last ++
          (if ls = [] then post else postAfterNl s post), if ls = [] then post else postAfterNl s post) s' := by
  intro h
  obtain ⟨s', h1⟩ := h [32, 32] [10] (exStAi true [10, 27, 120] 0) [[]] [] [120] (by decide +kernel) (by decide)
    (by decide) rfl
  have h2 : inputOf (ledInput [32, 32] [10] (exStAi true [10, 27, 120] 0)) = ([10, 10], [10]) := by decide +kernel
  rw [h1] at h2
  have h3 : (([32, 32] : Bytes) ++ (([[]] : List (List Nat)).map (fun l => encStr l ++ [10] ++
      aiAfterNl (exStAi true [10, 27, 120] 0) [32, 32])).flatten ++ encStr [] ++
      (if ([[]] : List (List Nat)) = [] then [10] else postAfterNl (exStAi true [10, 27, 120] 0) [10]),
      if ([[]] : List (List Nat)) = [] then ([10] : Bytes) else postAfterNl (exStAi true [10, 27, 120] 0) [10]) =
      (([10, 10] : Bytes), ([10] : Bytes)) := h2
  exact absurd h3 (by decide +kernel)

section Examples

/-- the keys of the typed lines `ls`, `last`, then `x` -/
def keysOf (ls : List (List Nat)) (last : List Nat) : Bytes := lineKeys ls last ++ [120]

-- typed `␣␣x ⏎ ⏎ y ESC` after the prefix `␣␣h`, before `␣l ⏎`, with `autoindent`: the prefix is not empty, so
-- the auto-indent stays `␣␣`; the empty line gets none; `y` gets it; the rest of the line loses its blank
example : inputOf (ledInput [32, 32, 104] [32, 108, 10] (exStAi true (keysOf [[32, 32, 120], []] [121]) 0)) =
    ([32, 32, 104, 32, 32, 120, 10, 10, 32, 32, 121, 108, 10], [108, 10]) := by decide +kernel
example : inputText true [32, 32, 104] [32, 108, 10] [[32, 32, 120], []] [121] =
    [32, 32, 104, 32, 32, 120, 10, 10, 32, 32, 121, 108, 10] := by decide +kernel
-- the same after the all-blank prefix `␣␣` (as after `o` on an indented line): the auto-indent grows by the
-- blanks of the first line: `y` is indented by four
example : inputOf (ledInput [32, 32] [10] (exStAi true (keysOf [[32, 32, 120], []] [121]) 0)) =
    ([32, 32, 32, 32, 120, 10, 10, 32, 32, 32, 32, 121, 10], [10]) := by decide +kernel
example : inputText true [32, 32] [10] [[32, 32, 120], []] [121] =
    [32, 32, 32, 32, 120, 10, 10, 32, 32, 32, 32, 121, 10] := by decide +kernel
-- without `autoindent`: the first line still follows the blanks of the prefix, the others get nothing
example : inputOf (ledInput [32, 32] [10] (exStAi false (keysOf [[32, 32, 120], []] [121]) 0)) =
    ([32, 32, 32, 32, 120, 10, 10, 121, 10], [10]) := by decide +kernel
example : inputText false [32, 32] [10] [[32, 32, 120], []] [121] = [32, 32, 32, 32, 120, 10, 10, 121, 10] := by
  decide +kernel
-- two empty lines and an empty last line after an all-blank prefix: the blanks of the prefix are dropped
-- (also without `autoindent`), three empty rows result
example : inputOf (ledInput [32, 32] [10] (exStAi true (keysOf [[], []] []) 0)) = ([10, 10, 10], [10]) := by decide +kernel
example : inputOf (ledInput [32, 32] [10] (exStAi false (keysOf [[], []] []) 0)) = ([10, 10, 10], [10]) := by decide +kernel
example : inputText true [32, 32] [10] [[], []] [] = [10, 10, 10] ∧ inputText false [32, 32] [10] [[], []] [] = [10, 10, 10] := by
  decide +kernel
-- … but before further text (`post` = `l ⏎`) the last line keeps the auto-indent
example : inputOf (ledInput [32, 32] [108, 10] (exStAi true (keysOf [[], []] []) 0)) = ([10, 10, 32, 32, 108, 10], [108, 10]) := by
  decide +kernel
example : inputText true [32, 32] [108, 10] [[], []] [] = [10, 10, 32, 32, 108, 10] := by decide +kernel
-- a line of 130 blanks, then `x`: the blank line is written as typed (130 blanks, no auto-indent), the
-- auto-indent of the next line is cut at 127 blanks
example : inputOf (ledInput [] [10] (exStAi true (keysOf [List.replicate 130 32] [120]) 0)) =
    (List.replicate 130 32 ++ [10] ++ List.replicate 127 32 ++ [120, 10], [10]) := by decide +kernel
example : inputText true [] [10] [List.replicate 130 32] [120] =
    List.replicate 130 32 ++ [10] ++ List.replicate 127 32 ++ [120, 10] := by decide +kernel
example : aiSeq true false [] (encLines [List.replicate 130 32]) = [[], List.replicate 127 32] := by decide +kernel
-- after the prefix `␣␣` the auto-indent is `␣␣` and 125 of the 130 blanks
example : inputText true [32, 32] [10] [List.replicate 130 32] [120] =
    List.replicate 130 32 ++ [10] ++ List.replicate 127 32 ++ [120, 10] := by decide +kernel
-- without `autoindent` nothing is carried over
example : inputOf (ledInput [] [10] (exStAi false (keysOf [List.replicate 130 32] [120]) 0)) =
    (List.replicate 130 32 ++ [10, 120, 10], [10]) := by decide +kernel
example : inputText false [] [10] [List.replicate 130 32] [120] = List.replicate 130 32 ++ [10, 120, 10] := by
  decide +kernel

/-- the hypotheses of `ledInput_lines_general` are met by a concrete state (typed `␣␣x ⏎ ⏎ y ESC`, `autoindent`),
and the theorem gives the value computed above -/
example : ∃ s', ledInput [32, 32] [10] (exStAi true (keysOf [[32, 32, 120], []] [121]) 0) =
      Res.ok ([32, 32, 32, 32, 120, 10, 10, 32, 32, 32, 32, 121, 10], [10]) s' ∧ pending s' = [120] ∧ s'.ed.xrow = 2 := by
  obtain ⟨s', h1, h2, h3⟩ := ledInput_lines_general [32, 32] [10] (exStAi true (keysOf [[32, 32, 120], []] [121]) 0)
    [[32, 32, 120], []] [121] [120] (by decide +kernel) (by decide +kernel) (by decide) rfl
  refine ⟨s', ?_, h2, h3.xrow⟩
  rw [h1]
  have e : (inputText (exStAi true (keysOf [[32, 32, 120], []] [121]) 0).xai [32, 32] [10] [[32, 32, 120], []] [121],
      if ([[32, 32, 120], []] : List (List Nat)) = [] then ([10] : Bytes)
        else postAfterNl (exStAi true (keysOf [[32, 32, 120], []] [121]) 0) [10]) =
      (([32, 32, 32, 32, 120, 10, 10, 32, 32, 32, 32, 121, 10] : Bytes), ([10] : Bytes)) := by decide +kernel
  rw [e]

end Examples

/-! ## 2. `vc_insert` with such a text: `i a I A o O`

The line under the cursor is `encStr (body ++ [10])`; the keys are the typed lines `ls` (each ended by a
newline), the line `last` and ESC; every typed line is a `TLine`.  With `ps` what precedes the insertion
point on the line (`body.take o` for `i`; the indentation `indentOf s body` for `o`, `O`) and `tail` what
follows it, the row is replaced by (`i a I A`) / the new rows are (`o O`) `insRows s ps ls last tail`:
`led_input` splits `ps` into its leading blanks `aiRaw ps` (at most 127: the first auto-indent) and the rest
`hdRest ps`; every typed line is written after the auto-indent in force unless the row would hold nothing but
blanks (`keepCp`); the auto-indent grows by the leading blanks of each typed line up to 127 characters
(`aiNextCp`), or is empty without `autoindent`; at the first newline the tail loses its leading blanks with
`autoindent` (`dropCp`).  The cursor ends on the last character before the tail on the last row (`insOff`),
`ls.length` rows further down. -/

/-- the rows (without their newlines) of an insertion of the lines `ls`, `last` between `ps` and `tail` -/
def insRows (s : VS) (ps : List Nat) (ls : List (List Nat)) (last tail : List Nat) : List (List Nat) :=
  rowsG s.xai (hdRest ps) (aiRaw ps) ls last tail

/-- the cursor offset after it -/
def insOff (s : VS) (ps : List Nat) (ls : List (List Nat)) (last tail : List Nat) : Int :=
  offG (lastPreG s.xai (hdRest ps) (aiRaw ps) ls last tail).length

/-- `ps` is its leading blanks (at most 127 of them) and the rest -/
theorem aiRaw_append_hdRest (ps : List Nat) : aiRaw ps ++ hdRest ps = ps := aiRaw_hdRest ps
theorem aiRaw_eq (ps : List Nat) : aiRaw ps = (ps.takeWhile isBlankC).take 127 := rfl

/-- the recursion of the rows -/
theorem rowsG_nil (xai : Bool) (hd ai last tail : List Nat) :
    rowsG xai hd ai [] last tail = [(if keepCp (!hd.isEmpty) (!tail.isEmpty) last then ai else []) ++ hd ++ last ++ tail] := rfl
theorem rowsG_cons (xai : Bool) (hd ai l : List Nat) (ls : List (List Nat)) (last tail : List Nat) :
    rowsG xai hd ai (l :: ls) last tail =
      ((if keepCp (!hd.isEmpty) false l then ai else []) ++ hd ++ l) ::
        rowsG xai [] (aiNextCp xai (!hd.isEmpty) ai l) ls last (dropCp xai tail) := rfl

theorem keepCp_iff (pne lastNE : Bool) (l : List Nat) : keepCp pne lastNE l = true ↔
    (l.takeWhile isBlankC).length < l.length ∨ pne = true ∨ lastNE = true := by
  unfold keepCp blanksCp
  simp [or_assoc]

theorem aiNextCp_eq (xai pne : Bool) (ai l : List Nat) : aiNextCp xai pne ai l =
    if xai = false then [] else if pne = true then ai else ai ++ (l.takeWhile isBlankC).take (127 - ai.length) := by
  unfold aiNextCp blanksCp
  cases xai <;> simp

/-- the 127-character clamp on rows: every auto-indent used is at most 127 characters long -/
theorem aiNextCp_length (xai pne : Bool) (ai l : List Nat) (h : ai.length ≤ 127) : (aiNextCp xai pne ai l).length ≤ 127 := by
  rw [aiNextCp_eq]
  split
  · simp
  · split
    · exact h
    · rw [List.length_append, List.length_take]; omega

theorem aiRaw_length_le (ps : List Nat) : (aiRaw ps).length ≤ 127 := aiRaw_length ps

/-- one more row than newlines typed -/
theorem insRows_length (s : VS) (ps : List Nat) (ls : List (List Nat)) (last tail : List Nat) :
    (insRows s ps ls last tail).length = ls.length + 1 := rowsG_length s.xai last ls _ _ tail

/-- for lines that do not start with a blank: the rows and the offset of `Props/C08d.lean` -/
theorem insRows_plain (s : VS) (ps : List Nat) (ls : List (List Nat)) (last tail : List Nat)
    (hpl : ∀ l ∈ last :: ls, PlainLine l) :
    insRows s ps ls last tail = rowsOf ps (aiCp s ps) ls last (tailOf s ls tail) := rowsG_plain s ps ls last tail hpl

theorem insOff_plain (s : VS) (ps : List Nat) (ls : List (List Nat)) (last tail : List Nat)
    (hpl : ∀ l ∈ last :: ls, PlainLine l) :
    insOff s ps ls last tail = ((lastHd ps (aiCp s ps) ls).length : Int) + last.length - 1 :=
  offG_plain s ps ls last tail hpl

/-- **`vcInsert_i_lines_general`**: `i` with the cursor on character `o`, then the typed lines -/
theorem vcInsert_i_lines_general (s : VS) (body : List Nat) (ls : List (List Nat)) (last : List Nat) (o : Nat) (rest : Bytes)
    (hr0 : 0 ≤ s.ed.xrow) (hline : (lines s)[s.ed.xrow.toNat]? = some (encStr (body ++ [10])))
    (hb : ∀ c ∈ body, ValidCp c) (hb10 : 10 ∉ body) (ho : s.ed.xoff = (o : Int)) (hol : o < body.length)
    (hp : pending s = lineKeys ls last ++ rest) (hpl : ∀ l ∈ last :: ls, TLine l)
    (hlen : ls.length < 100000) (hk : s.xkmap = 0) :
    ∃ s', vcInsert 105 s = Res.ok VC_OK s' ∧ pending s' = rest ∧
      Inserted (lineKeys ls last) s s' s.ed.xrow (rowLines (insRows s (body.take o) ls last (body.drop o))) 1
        (s.ed.xrow + (ls.length : Int)) (insOff s (body.take o) ls last (body.drop o)) := by
  obtain ⟨c0, t0, rfl⟩ : ∃ c t, body = c :: t := by
    cases body with
    | nil => simp at hol
    | cons c t => exact ⟨c, t, rfl⟩
  have hl := lineOf_of_get s _ _ hr0 hline
  have hhd := headD_line_ne_ten c0 t0 hb10
  have hx := renNoeol_body (c0 :: t0) hb hb10 o hol
  obtain ⟨e1, e2⟩ := subI_line (c0 :: t0) hb o (by omega)
  rw [vcInsert_i_red s _ _ _ hl (by rw [hhd, ho, hx]; exact e1) (by rw [hhd, ho, hx]; exact e2)]
  exact insertTail_lines_at_gen s _ (c0 :: t0) o ls last rest hr0 hline hb hb10 hp hpl hlen hk

/-- `a`: the same after the cursor character -/
theorem vcInsert_a_lines_general (s : VS) (body : List Nat) (ls : List (List Nat)) (last : List Nat) (o : Nat) (rest : Bytes)
    (hr0 : 0 ≤ s.ed.xrow) (hline : (lines s)[s.ed.xrow.toNat]? = some (encStr (body ++ [10])))
    (hb : ∀ c ∈ body, ValidCp c) (hb10 : 10 ∉ body) (ho : s.ed.xoff = (o : Int)) (hol : o < body.length)
    (hp : pending s = lineKeys ls last ++ rest) (hpl : ∀ l ∈ last :: ls, TLine l)
    (hlen : ls.length < 100000) (hk : s.xkmap = 0) :
    ∃ s', vcInsert 97 s = Res.ok VC_OK s' ∧ pending s' = rest ∧
      Inserted (lineKeys ls last) s s' s.ed.xrow
        (rowLines (insRows s (body.take (o + 1)) ls last (body.drop (o + 1)))) 1
        (s.ed.xrow + (ls.length : Int)) (insOff s (body.take (o + 1)) ls last (body.drop (o + 1))) := by
  obtain ⟨c0, t0, rfl⟩ : ∃ c t, body = c :: t := by
    cases body with
    | nil => simp at hol
    | cons c t => exact ⟨c, t, rfl⟩
  have hl := lineOf_of_get s _ _ hr0 hline
  have hhd := headD_line_ne_ten c0 t0 hb10
  have hx := renNoeol_body (c0 :: t0) hb hb10 o hol
  obtain ⟨e1, e2⟩ := subI_line (c0 :: t0) hb (o + 1) (by omega)
  rw [vcInsert_a_red s _ _ _ hl (by rw [hhd, ho, hx]; exact e1) (by rw [hhd, ho, hx]; exact e2)]
  exact insertTail_lines_at_gen s _ (c0 :: t0) (o + 1) ls last rest hr0 hline hb hb10 hp hpl hlen hk

/-- `A`: at the end of the (non-empty) line -/
theorem vcInsert_A_lines_general (s : VS) (body : List Nat) (ls : List (List Nat)) (last : List Nat) (rest : Bytes)
    (hr0 : 0 ≤ s.ed.xrow) (hline : (lines s)[s.ed.xrow.toNat]? = some (encStr (body ++ [10])))
    (hb : ∀ c ∈ body, ValidCp c) (hb10 : 10 ∉ body) (hbne : body ≠ [])
    (hp : pending s = lineKeys ls last ++ rest) (hpl : ∀ l ∈ last :: ls, TLine l)
    (hlen : ls.length < 100000) (hk : s.xkmap = 0) :
    ∃ s', vcInsert 65 s = Res.ok VC_OK s' ∧ pending s' = rest ∧
      Inserted (lineKeys ls last) s s' s.ed.xrow (rowLines (insRows s body ls last [])) 1
        (s.ed.xrow + (ls.length : Int)) (insOff s body ls last []) := by
  obtain ⟨c0, t0, rfl⟩ : ∃ c t, body = c :: t := by
    cases body with
    | nil => exact absurd rfl hbne
    | cons c t => exact ⟨c, t, rfl⟩
  have hl := lineOf_of_get s _ _ hr0 hline
  have hhd := headD_line_ne_ten c0 t0 hb10
  have he := eol_line s _ (c0 :: t0) hr0 hb hline
  have hx := renNoeol_eol (c0 :: t0) hb hbne
  obtain ⟨e1, e2⟩ := subI_line (c0 :: t0) hb (c0 :: t0).length (Nat.le_refl _)
  have hoff : Ren.renNoeol (encStr (c0 :: t0 ++ [10])) (Mot.eol (lines s) s.ed.xrow) + 1 = ((c0 :: t0).length : Int) := by
    rw [he, hx]; omega
  rw [vcInsert_A_red s _ _ _ hl (by rw [hhd]; simp only [Bool.false_eq_true, if_false]; rw [hoff]; exact e1)
    (by rw [hhd]; simp only [Bool.false_eq_true, if_false]; rw [hoff]; exact e2)]
  obtain ⟨s', h1, h2, h3⟩ := insertTail_lines_at_gen s (Ren.renNoeol (encStr (c0 :: t0 ++ [10])) (Mot.eol (lines s) s.ed.xrow))
    (c0 :: t0) (c0 :: t0).length ls last rest hr0 hline hb hb10 hp hpl hlen hk
  refine ⟨s', h1, h2, ?_⟩
  rw [List.take_length, List.drop_length] at h3
  exact h3

/-- `I`: before the first non-blank character (the line is not all blank) -/
theorem vcInsert_I_lines_general (s : VS) (body : List Nat) (ls : List (List Nat)) (last : List Nat) (rest : Bytes)
    (hr0 : 0 ≤ s.ed.xrow) (hline : (lines s)[s.ed.xrow.toNat]? = some (encStr (body ++ [10])))
    (hb : ∀ c ∈ body, ValidCp c) (hb10 : 10 ∉ body)
    (hk' : (body.takeWhile ucIsSpace).length < body.length)
    (hp : pending s = lineKeys ls last ++ rest) (hpl : ∀ l ∈ last :: ls, TLine l)
    (hlen : ls.length < 100000) (hk : s.xkmap = 0) :
    ∃ s', vcInsert 73 s = Res.ok VC_OK s' ∧ pending s' = rest ∧
      Inserted (lineKeys ls last) s s' s.ed.xrow
        (rowLines (insRows s (body.take (body.takeWhile ucIsSpace).length) ls last
          (body.drop (body.takeWhile ucIsSpace).length))) 1
        (s.ed.xrow + (ls.length : Int))
        (insOff s (body.take (body.takeWhile ucIsSpace).length) ls last (body.drop (body.takeWhile ucIsSpace).length)) := by
  obtain ⟨c0, t0, rfl⟩ : ∃ c t, body = c :: t := by
    cases body with
    | nil => simp at hk'
    | cons c t => exact ⟨c, t, rfl⟩
  have hl := lineOf_of_get s _ _ hr0 hline
  have hhd := headD_line_ne_ten c0 t0 hb10
  have hi := indents_line s _ (c0 :: t0) hr0 hb hb10 hline hk'
  have hx := renNoeol_body (c0 :: t0) hb hb10 _ hk'
  obtain ⟨e1, e2⟩ := subI_line (c0 :: t0) hb _ (Nat.le_of_lt hk')
  rw [vcInsert_I_red s _ _ _ hl (by rw [hhd, hi, hx]; exact e1) (by rw [hhd, hi, hx]; exact e2)]
  exact insertTail_lines_at_gen s _ (c0 :: t0) _ ls last rest hr0 hline hb hb10 hp hpl hlen hk

/-- **`vcInsert_o_lines_general`**: `o`, then the typed lines: the rows `insRows s (indentOf s body) ls last []` are
inserted below the current row (the first auto-indent is the indentation of the current line with `autoindent`) -/
theorem vcInsert_o_lines_general (s : VS) (body : List Nat) (ls : List (List Nat)) (last : List Nat) (rest : Bytes)
    (hr0 : 0 ≤ s.ed.xrow) (hline : (lines s)[s.ed.xrow.toNat]? = some (encStr (body ++ [10])))
    (hb : ∀ c ∈ body, ValidCp c) (hb10 : 10 ∉ body)
    (hp : pending s = lineKeys ls last ++ rest) (hpl : ∀ l ∈ last :: ls, TLine l)
    (hlen : ls.length < 100000) (hk : s.xkmap = 0) :
    ∃ s', vcInsert 111 s = Res.ok VC_OK s' ∧ pending s' = rest ∧
      Inserted (lineKeys ls last) s s' (s.ed.xrow + 1) (rowLines (insRows s (indentOf s body) ls last [])) 0
        (s.ed.xrow + 1 + (ls.length : Int)) (insOff s (indentOf s body) ls last []) := by
  have hl := lineOf_of_get s _ _ hr0 hline
  obtain ⟨lb, hlb⟩ := lb_of_line s _ _ hline
  have hrlt : s.ed.xrow.toNat < (lines s).length := (List.getElem?_eq_some_iff.mp hline).1
  obtain ⟨hi, hi10⟩ := indentOf_valid s body hb hb10
  rw [vcInsert_o_red s _ hl, viIndents_line s body hb]
  obtain ⟨ed1, he1, hx1, hb1, hr1⟩ := nextlineSt_eq { s with ed := { s.ed with xoff := Ren.renNoeol (encStr (body ++ [10])) s.ed.xoff } }
  rw [he1]
  have hlines : lines { s with ed := ed1 } = lines s := lines_of_bufs s ed1 hb1
  obtain ⟨s', h1, h2, h3⟩ := openTail_lines_gen (indentOf s body) { s with ed := ed1 } ls last rest lb
    (by rw [lb_of_bufs s ed1 hb1]; exact hlb)
    (by show 0 ≤ ed1.xrow; rw [hx1]; show 0 ≤ s.ed.xrow + 1; omega)
    (by show ed1.xrow ≤ lenOf _; unfold lenOf; rw [hlines, hx1]; show s.ed.xrow + 1 ≤ _; omega)
    (by unfold lenOf; rw [hlines]; omega) hi hi10 hp hpl hlen hk
  refine ⟨s', h1, h2, ?_⟩
  have hx : ({ s with ed := ed1 } : VS).ed.xrow = s.ed.xrow + 1 := hx1
  rw [hx] at h3
  exact h3.of_ed hb1 hr1

/-- `O`: the same above the current row -/
theorem vcInsert_O_lines_general (s : VS) (body : List Nat) (ls : List (List Nat)) (last : List Nat) (rest : Bytes)
    (hr0 : 0 ≤ s.ed.xrow) (hline : (lines s)[s.ed.xrow.toNat]? = some (encStr (body ++ [10])))
    (hb : ∀ c ∈ body, ValidCp c) (hb10 : 10 ∉ body)
    (hp : pending s = lineKeys ls last ++ rest) (hpl : ∀ l ∈ last :: ls, TLine l)
    (hlen : ls.length < 100000) (hk : s.xkmap = 0) :
    ∃ s', vcInsert 79 s = Res.ok VC_OK s' ∧ pending s' = rest ∧
      Inserted (lineKeys ls last) s s' s.ed.xrow (rowLines (insRows s (indentOf s body) ls last [])) 0
        (s.ed.xrow + (ls.length : Int)) (insOff s (indentOf s body) ls last []) := by
  have hl := lineOf_of_get s _ _ hr0 hline
  obtain ⟨lb, hlb⟩ := lb_of_line s _ _ hline
  have hrlt : s.ed.xrow.toNat < (lines s).length := (List.getElem?_eq_some_iff.mp hline).1
  obtain ⟨hi, hi10⟩ := indentOf_valid s body hb hb10
  rw [vcInsert_O_red s _ hl, viIndents_line s body hb]
  obtain ⟨s', h1, h2, h3⟩ := openTail_lines_gen (indentOf s body)
    { s with ed := { s.ed with xoff := Ren.renNoeol (encStr (body ++ [10])) s.ed.xoff } } ls last rest lb hlb hr0
    (by show s.ed.xrow ≤ ((lines s).length : Int); omega) (by show ((lines s).length : Int) ≠ 0; omega)
    hi hi10 hp hpl hlen hk
  exact ⟨s', h1, h2, h3.of_ed rfl rfl⟩

/-- `vcInsert_i_lines_spec` and `vcInsert_o_lines_spec` (`Props/C08d.lean`) are instances -/
example (s : VS) (body : List Nat) (ls : List (List Nat)) (last : List Nat) (o : Nat) (rest : Bytes)
    (hr0 : 0 ≤ s.ed.xrow) (hline : (lines s)[s.ed.xrow.toNat]? = some (encStr (body ++ [10])))
    (hb : ∀ c ∈ body, ValidCp c) (hb10 : 10 ∉ body) (ho : s.ed.xoff = (o : Int)) (hol : o < body.length)
    (hp : pending s = lineKeys ls last ++ rest) (hpl : ∀ l ∈ last :: ls, PlainLine l)
    (hlen : ls.length < 100000) (hk : s.xkmap = 0) :
    ∃ s', vcInsert 105 s = Res.ok VC_OK s' ∧ pending s' = rest ∧
      Inserted (lineKeys ls last) s s' s.ed.xrow
        (rowLines (rowsOf (body.take o) (aiCp s (body.take o)) ls last (tailOf s ls (body.drop o)))) 1
        (s.ed.xrow + (ls.length : Int))
        (((lastHd (body.take o) (aiCp s (body.take o)) ls).length : Int) + last.length - 1) := by
  obtain ⟨s', h1, h2, h3⟩ := vcInsert_i_lines_general s body ls last o rest hr0 hline hb hb10 ho hol hp
    (fun l hl => tline_of_plainLine (hpl l hl)) hlen hk
  rw [insRows_plain s _ ls last _ hpl, insOff_plain s _ ls last _ hpl] at h3
  exact ⟨s', h1, h2, h3⟩

example (s : VS) (body : List Nat) (ls : List (List Nat)) (last : List Nat) (rest : Bytes)
    (hr0 : 0 ≤ s.ed.xrow) (hline : (lines s)[s.ed.xrow.toNat]? = some (encStr (body ++ [10])))
    (hb : ∀ c ∈ body, ValidCp c) (hb10 : 10 ∉ body)
    (hp : pending s = lineKeys ls last ++ rest) (hpl : ∀ l ∈ last :: ls, PlainLine l)
    (hlen : ls.length < 100000) (hk : s.xkmap = 0) :
    ∃ s', vcInsert 111 s = Res.ok VC_OK s' ∧ pending s' = rest ∧
      Inserted (lineKeys ls last) s s' (s.ed.xrow + 1)
        (rowLines (rowsOf (indentOf s body) (aiCp s (indentOf s body)) ls last [])) 0
        (s.ed.xrow + 1 + (ls.length : Int))
        (((lastHd (indentOf s body) (aiCp s (indentOf s body)) ls).length : Int) + last.length - 1) := by
  obtain ⟨s', h1, h2, h3⟩ := vcInsert_o_lines_general s body ls last rest hr0 hline hb hb10 hp
    (fun l hl => tline_of_plainLine (hpl l hl)) hlen hk
  have htl : tailOf s ls [] = [] := by
    unfold tailOf postCp
    split
    · rfl
    · split <;> rfl
  rw [insRows_plain s _ ls last _ hpl, insOff_plain s _ ls last _ hpl, htl] at h3
  exact ⟨s', h1, h2, h3⟩

section Examples2

-- `i ␣␣X ⏎ ⏎ Y ESC` on the `l` (offset 4) of `␣␣hello w`, with `autoindent`: the head `␣␣he` is not blank, so the
-- auto-indent stays `␣␣`; the empty typed line gives an empty row; the tail follows `␣␣Y`
example : linesOf (vcInsert 105 (exStAi true (lineKeys [[32, 32, 88], []] [89]) 4)) =
    [[32, 32, 104, 101, 32, 32, 88, 10], [10], [32, 32, 89, 108, 108, 111, 32, 119, 10], [98, 10]] := by decide +kernel
example : cursorOf (vcInsert 105 (exStAi true (lineKeys [[32, 32, 88], []] [89]) 4)) = (2, 2) := by decide +kernel
example : rowLines (insRows (exStAi true [] 4) [32, 32, 104, 101] [[32, 32, 88], []] [89] [108, 108, 111, 32, 119]) =
    [[32, 32, 104, 101, 32, 32, 88, 10], [10], [32, 32, 89, 108, 108, 111, 32, 119, 10]] ∧
    insOff (exStAi true [] 4) [32, 32, 104, 101] [[32, 32, 88], []] [89] [108, 108, 111, 32, 119] = 2 := by decide +kernel
-- `o ␣␣X ⏎ ⏎ Y ESC` on that line: the indentation `␣␣` is the auto-indent, the typed blanks are added to it
example : linesOf (vcInsert 111 (exStAi true (lineKeys [[32, 32, 88], []] [89]) 4)) =
    [[32, 32, 104, 101, 108, 108, 111, 32, 119, 10], [32, 32, 32, 32, 88, 10], [10], [32, 32, 32, 32, 89, 10], [98, 10]] := by
  decide +kernel
example : cursorOf (vcInsert 111 (exStAi true (lineKeys [[32, 32, 88], []] [89]) 4)) = (3, 4) := by decide +kernel
example : rowLines (insRows (exStAi true [] 4) [32, 32] [[32, 32, 88], []] [89] []) =
    [[32, 32, 32, 32, 88, 10], [10], [32, 32, 32, 32, 89, 10]] ∧
    insOff (exStAi true [] 4) [32, 32] [[32, 32, 88], []] [89] [] = 4 := by decide +kernel
-- `o ⏎ ⏎ ESC`: three empty rows (the indentation is dropped), the cursor at offset 0
example : linesOf (vcInsert 111 (exStAi true (lineKeys [[], []] []) 4)) =
    [[32, 32, 104, 101, 108, 108, 111, 32, 119, 10], [10], [10], [10], [98, 10]] := by decide +kernel
example : cursorOf (vcInsert 111 (exStAi true (lineKeys [[], []] []) 4)) = (3, 0) := by decide +kernel
example : rowLines (insRows (exStAi true [] 4) [32, 32] [[], []] [] []) = [[10], [10], [10]] ∧
    insOff (exStAi true [] 4) [32, 32] [[], []] [] [] = 0 := by decide +kernel
-- without `autoindent`
example : linesOf (vcInsert 111 (exStAi false (lineKeys [[32, 32, 88], []] [89]) 4)) =
    [[32, 32, 104, 101, 108, 108, 111, 32, 119, 10], [32, 32, 88, 10], [10], [89, 10], [98, 10]] := by decide +kernel
example : rowLines (insRows (exStAi false [] 4) [] [[32, 32, 88], []] [89] []) = [[32, 32, 88, 10], [10], [89, 10]] := by
  decide +kernel
-- `o`, a line of 130 blanks, `X`: the next row is indented by 127 blanks
example : linesOf (vcInsert 111 (exStAi true (lineKeys [List.replicate 130 32] [88]) 4)) =
    [[32, 32, 104, 101, 108, 108, 111, 32, 119, 10], List.replicate 130 32 ++ [10], List.replicate 127 32 ++ [88, 10], [98, 10]] := by
  decide +kernel
example : rowLines (insRows (exStAi true [] 4) [32, 32] [List.replicate 130 32] [88] []) =
    [List.replicate 130 32 ++ [10], List.replicate 127 32 ++ [88, 10]] := by decide +kernel

/-- the hypotheses of `vcInsert_o_lines_general` are met by a concrete state: the theorem gives the rows
computed above -/
example : ∃ s', vcInsert 111 (exStAi true (lineKeys [[32, 32, 88], []] [89]) 4) = Res.ok VC_OK s' ∧ pending s' = [] ∧
    lines s' = [[32, 32, 104, 101, 108, 108, 111, 32, 119, 10], [32, 32, 32, 32, 88, 10], [10], [32, 32, 32, 32, 89, 10], [98, 10]] ∧
    s'.ed.xrow = 3 ∧ s'.ed.xoff = 4 := by
  obtain ⟨s', h1, h2, h3⟩ := vcInsert_o_lines_general (exStAi true (lineKeys [[32, 32, 88], []] [89]) 4)
    [32, 32, 104, 101, 108, 108, 111, 32, 119] [[32, 32, 88], []] [89] []
    (by decide) (by decide +kernel) (by decide) (by decide) (by decide +kernel) (by decide +kernel) (by decide) rfl
  refine ⟨s', h1, h2, ?_, ?_, ?_⟩
  · rw [h3.lines]; decide +kernel
  · rw [h3.xrow]; decide +kernel
  · rw [h3.xoff]; decide +kernel

end Examples2

/-! ## 3. `c` over several rows

`vi_change` shares its first steps with `vi_delete` (`Model/ViCmd.lean`: `lbuf_region`, then
`reg_put(vi_ybuf, region, lnmode)`), so the registers are those of a multi-row delete: `regs.put ybuf region 0`,
with the rotation of the numbered registers because the region contains a newline (`put_shifts_numbered` of
`Props/C08.lean`). -/

/-- the text between `(r1, o1)` and `(r2, o2)`, `r1 < r2`: the tail of the first row with its newline, the rows
between, the head of the last row -/
def changeRegion (s : VS) (r1 r2 : Int) (b1 b2 : List Nat) (o1 o2 : Nat) : Bytes :=
  encStr (b1.drop o1 ++ [10]) ++ (((lines s).drop (r1 + 1).toNat).take (r2.toNat - (r1 + 1).toNat)).flatten ++
    encStr (b2.take o2)

theorem ten_mem_changeRegion (s : VS) (r1 r2 : Int) (b1 b2 : List Nat) (o1 o2 : Nat) :
    10 ∈ changeRegion s r1 r2 b1 b2 o1 o2 := by
  unfold changeRegion
  rw [encStr_append]
  simp [show encStr [10] = [10] from rfl]

/-- **`viChange_multi_spec`**: `c` over the character-wise region `(r1, o1) – (r2, o2)` with `r1 < r2`, then the
text `cs` typed on one line (`Inputs K cs`: e.g. plain text and ESC).  The rows `r1 .. r2` are replaced by the
single row head of `r1` ++ text ++ tail of `r2`; the register named by the prefix receives the region in
character mode; the cursor ends on the last typed character of row `r1`.  (`Inserted` is stated from the
state with the register already set.) -/
theorem viChange_multi_spec (s : VS) (r1 r2 : Int) (b1 b2 cs : List Nat) (o1 o2 : Nat) (K rest : Bytes)
    (hr0 : 0 ≤ r1) (hr12 : r1 < r2)
    (hl1 : (lines s)[r1.toNat]? = some (encStr (b1 ++ [10]))) (hl2 : (lines s)[r2.toNat]? = some (encStr (b2 ++ [10])))
    (hb1 : ∀ c ∈ b1, ValidCp c) (hb2 : ∀ c ∈ b2, ValidCp c) (h10a : 10 ∉ b1) (h10b : 10 ∉ b2)
    (ho1 : o1 ≤ b1.length) (ho2 : o2 ≤ b2.length)
    (hin : Inputs K cs) (hp : pending s = K ++ rest) (hpl : ∀ c ∈ cs, ValidCp c) (h10 : 10 ∉ cs)
    (hne : cs.head? ≠ none ∧ cs.head? ≠ some 32 ∧ cs.head? ≠ some 9) (hk : s.xkmap = 0) :
    ∃ s', viChange r1 o1 r2 o2 false s = Res.ok VC_OK s' ∧ pending s' = rest ∧
      s'.ed.regs = s.ed.regs.put s.ybuf (changeRegion s r1 r2 b1 b2 o1 o2) 0 ∧
      Inserted K
        { s with ed := { s.ed with regs := s.ed.regs.put s.ybuf (changeRegion s r1 r2 b1 b2 o1 o2) 0 } } s' r1
        [encStr (b1.take o1 ++ cs ++ (b2.drop o2 ++ [10]))] (r2.toNat - r1.toNat + 1) r1
        ((o1 : Int) + cs.length - 1) := by
  have hr2 : 0 ≤ r2 := by omega
  have hlo2 := lineOf_of_get s _ _ hr2 hl2
  have hlE1 : lineE s r1 = encStr (b1 ++ [10]) := lineE_eq s r1 hr0 _ hl1
  have hlE2 : lineE s r2 = encStr (b2 ++ [10]) := lineE_eq s r2 hr2 _ hl2
  obtain ⟨lb, hlb⟩ := lb_of_line s _ _ hl1
  have hrlt : r2.toNat < (lines s).length := (List.getElem?_eq_some_iff.mp hl2).1
  obtain ⟨e1, e1t⟩ := subI_line b1 hb1 o1 ho1
  obtain ⟨e2h, e2⟩ := subI_line b2 hb2 o2 ho2
  have hreg : lbufRegion s r1 o1 r2 o2 = some (changeRegion s r1 r2 b1 b2 o1 o2) :=
    Props.C08.lbufRegion_multi s r1 o1 r2 o2 (by omega) _ _ (by rw [hlE1]; exact e1t) (by rw [hlE2]; exact e2h)
  rw [viChange_char_red r1 o1 r2 o2 s _ _ _ _ hreg (by rw [hlE1]; exact e1) hlo2 (by rw [hlE2]; exact e2)]
  obtain ⟨s', h1, h2, h3⟩ := changeTail_spec (b1.take o1) (b2.drop o2) cs
    { s with ed := { s.ed with regs := s.ed.regs.put s.ybuf (changeRegion s r1 r2 b1 b2 o1 o2) 0 } } r1 r2 K rest lb hlb
    hr0 (by omega) (by show r2 < ((lines s).length : Int); omega)
    (fun d hd => hb1 d (List.mem_of_mem_take hd)) (fun d hd => hb2 d (List.mem_of_mem_drop hd))
    (fun h => h10a (List.mem_of_mem_take h)) (fun h => h10b (List.mem_of_mem_drop h)) hin hp hpl h10 hne hk
  refine ⟨s', h1, h2, h3.regs, ?_⟩
  have hlen1 : (b1.take o1).length = o1 := by rw [List.length_take]; omega
  rw [hlen1] at h3
  exact h3

/-- the buffer after it, spelled out -/
theorem viChange_multi_lines (s : VS) (r1 r2 : Int) (b1 b2 cs : List Nat) (o1 o2 : Nat) (K rest : Bytes)
    (hr0 : 0 ≤ r1) (hr12 : r1 < r2)
    (hl1 : (lines s)[r1.toNat]? = some (encStr (b1 ++ [10]))) (hl2 : (lines s)[r2.toNat]? = some (encStr (b2 ++ [10])))
    (hb1 : ∀ c ∈ b1, ValidCp c) (hb2 : ∀ c ∈ b2, ValidCp c) (h10a : 10 ∉ b1) (h10b : 10 ∉ b2)
    (ho1 : o1 ≤ b1.length) (ho2 : o2 ≤ b2.length)
    (hin : Inputs K cs) (hp : pending s = K ++ rest) (hpl : ∀ c ∈ cs, ValidCp c) (h10 : 10 ∉ cs)
    (hne : cs.head? ≠ none ∧ cs.head? ≠ some 32 ∧ cs.head? ≠ some 9) (hk : s.xkmap = 0) :
    ∃ s', viChange r1 o1 r2 o2 false s = Res.ok VC_OK s' ∧ pending s' = rest ∧
      lines s' = (lines s).take r1.toNat ++ [encStr (b1.take o1 ++ cs ++ (b2.drop o2 ++ [10]))] ++
        (lines s).drop (r2.toNat + 1) ∧
      s'.ed.xrow = r1 ∧ s'.ed.xoff = (o1 : Int) + cs.length - 1 := by
  obtain ⟨s', h1, h2, -, h4⟩ := viChange_multi_spec s r1 r2 b1 b2 cs o1 o2 K rest hr0 hr12 hl1 hl2 hb1 hb2 h10a h10b
    ho1 ho2 hin hp hpl h10 hne hk
  refine ⟨s', h1, h2, ?_, h4.xrow, h4.xoff⟩
  rw [h4.lines, show r1.toNat + (r2.toNat - r1.toNat + 1) = r2.toNat + 1 by omega]
  rfl

/-- **the registers after it are those of a multi-row delete**: with a register name that is not an
upper-case letter, the register (the unnamed one for no name / `"`) holds the region in character mode; when
it is the unnamed register or a letter, `"1` holds the region too and `"2`..`"9` received their predecessors
(`put_stores`, `put_shifts_numbered` of `Props/C08.lean`, as for `vi_delete`) -/
theorem viChange_multi_regs (s s' : VS) (r1 r2 : Int) (b1 b2 : List Nat) (o1 o2 : Nat)
    (hregs : s'.ed.regs = s.ed.regs.put s.ybuf (changeRegion s r1 r2 b1 b2 o1 o2) 0)
    (hwf : Lemmas.C08.RegsWf s.ed.regs) (hy : s.ybuf < 256) (hu : isUpperC s.ybuf = false) :
    s'.ed.regs.getRaw (Lemmas.C08.regTarget s.ybuf) = (some (changeRegion s r1 r2 b1 b2 o1 o2), 0) ∧
    ((s.ybuf = 0 ∨ s.ybuf = 34 ∨ isAlphaC s.ybuf = true) →
      s'.ed.regs.getRaw 49 = (some (changeRegion s r1 r2 b1 b2 o1 o2), 0) ∧
      ∀ d, 50 ≤ d → d ≤ 57 → s'.ed.regs.getRaw d =
        match s.ed.regs.getRaw (d - 1) with
        | (some x, l) => (some x, l)
        | (none, _) => s.ed.regs.getRaw d) := by
  rw [hregs]
  refine ⟨Props.C08.put_stores _ _ _ _ hwf hy hu, fun hc => ?_⟩
  apply Props.C08.put_shifts_numbered _ _ _ _ hwf hy
  rw [Props.C08.shifts_iff]
  refine ⟨Or.inr (ten_mem_changeRegion s r1 r2 b1 b2 o1 o2), ?_⟩
  rw [Props.C08.regTarget_spec]
  rcases hc with h | h | h
  · rw [h]; simp
  · rw [h]; simp
  · by_cases h34 : s.ybuf = 34
    · rw [h34]; simp
    · rw [if_neg h34]; exact Or.inr h

section Examples3

-- `c` from the second `l` of `hello w` (row 0, offset 3) to before the `b` … of row 1 offset 1, typed `XY`:
-- one row `helXY` ++ rest of row 1
example : linesOf (viChange 0 3 1 1 false (exSt [88, 89, 27] 0 3)) = [[104, 101, 108, 88, 89, 10]] := by decide +kernel
example : cursorOf (viChange 0 3 1 1 false (exSt [88, 89, 27] 0 3)) = (0, 4) := by decide +kernel
-- the unnamed register and `"1` hold the deleted text `lo w ⏎ b`, in character mode
def regsOf (r : Res Nat) (c : Nat) : Option Bytes × Nat := match r with | Res.ok _ s => s.ed.regs.getRaw c | _ => (none, 0)
example : regsOf (viChange 0 3 1 1 false (exSt [88, 89, 27] 0 3)) 0 = (some [108, 111, 32, 119, 10, 98], 0) ∧
    regsOf (viChange 0 3 1 1 false (exSt [88, 89, 27] 0 3)) 49 = (some [108, 111, 32, 119, 10, 98], 0) := by decide +kernel
example : changeRegion (exSt [] 0 3) 0 1 [104, 101, 108, 108, 111, 32, 119] [98] 3 1 = [108, 111, 32, 119, 10, 98] := by
  decide +kernel

end Examples3

end Neatvi.Props.C08e
