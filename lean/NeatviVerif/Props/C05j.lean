import NeatviVerif.Lemmas.C05jF
/-!
# C05j: the `:` commands keep the line/register invariant of the vi loop (`KeepsSOk` of C05i), handler by handler

`Props/C05i.lean` left `KeepsSOk line state` as a hypothesis: the ex command entered from vi keeps `SOk` — every line
of the current buffer ends in its newline, holds no other newline and no NUL; the undo history is consistent and
NUL-free; no register holds a NUL.  This module proves it for the line commands, lifts it to `|`-lists, `ex_command`
and `exCommandV`, and discharges the `:`-clause of `ColonOk`.

**Proved** (`EOk ed c` is `SOk` stated on the ex state):
* unconditionally, from any state with the invariant: `:p`, the empty command, `:d`, `:y`, `:pu` (also from the
  computed registers), `:=`, `:k`, `:se`, `:ec`, every name the model does not run (`keepsSOk_of_tail_handler`);
* `:s` with a NUL-free argument, when the remembered replacement `xrep` is NUL-free (`substitute_keeps`; what is
  written for a line is made of bytes of the line and of the replacement: `substLine_has_no_nul`; a newline in the
  replacement splits the line — `lbuf_edit` cuts the text at its newlines, so the shape is kept);
* `:u`, `:redo` at a command boundary (`keepsSOk_of_handler`);
* `:a :i :c` with a NUL-free text block and `:rs` (`insert_keeps`, `rs_keeps`);
* `|`-lists whose first command is one of the above (not `a i c rs`) and whose other commands are of the first group
  (`keepsSOk_of_line`, the decidable class `sokLine`), through `ex_command` (which closes the undo step) and
  `exCommandV`; hence `ColonOk`'s first clause (`colonOk_of_covered_lines`).

**Second part** (sections 2–4): `xrep` is written by `:s` only among the covered handlers (`xrep_frame`), so the list
induction carries `NoNul xrep` and `:s` may follow a `|` (`sokLine'`); a covered `:` line entered from vi keeps
`SOk … True` and `NoNul xrep` (`colon_keeps_invariants`) and, for C05e's class from an `EdSafe` state, `EdSafe` and
`NoNul xkwd` (`colon_keeps_safe_kwd`); the line invariant holds at the state the `:` prompt returns in
(`sok_at_colon_prompt`); the run theorem `vi_run_no_trap'_partial` with `StepHyp'` in place of `StepHyp`.

**Not proved here**: `:w :q :e :b :r file` (they need, besides, that every buffer of the table — not only the
current one — has the history invariant and that buffer paths are NUL-free: neither is part of `SOk`), hence the `x`
of `ZZ`; `:g` over command lists; `:u` / `:redo` after a `|` (the list induction does not carry "no command in
progress"); **layer (b)**: that the vi commands other than `:` keep `EdSafe` (and `NoNul xrep`, `atDepth = 0`) — no
vi model file mentions `xrep` or `atDepth`, and `bufs` / `xkwd` are written at eight places only (`edEdit`, `markSet`,
`lbufModified`, `u`/`^R`, the two `kwdSet` of `/ ?` and `^A`, the two `exCommandV`), but carrying a predicate through
every monadic function of `Model/Vi.lean` / `Model/ViCmd.lean` needs a `Pres`-development of the size of
`Lemmas/C19f*` (one lemma per function, some 70) which did not fit; therefore `EdSafe` and `NoNul xrep` of the state a
`:` line is entered in stay hypotheses of `StepHyp'`, and `vi_run_no_trap'_full` is stated, not proved.
**Excluded for good**: `:r !cmd` and `:!cmd` on a range — the model hands the oracle's output to `lbuf_edit` as a
byte list, a NUL in it lands in a line (C05h, header; the C code stops at the NUL).  Evaluated: with the oracle entry
`("x", [], "b NUL c ⏎")`, `ex_command("r !x")` on the empty buffer leaves line 0 = `[98, 0, 99, 10]`; likewise `1!x`.

Byte strings are lists of character codes.
-/
set_option linter.unusedVariables false
namespace Neatvi.Props.C05j
open Neatvi Neatvi.Uc Neatvi.Lbuf Neatvi.Ex Neatvi.Mot Neatvi.Vi Neatvi.Rset
open Neatvi.Lemmas.C05f Neatvi.Lemmas.C05h Neatvi.Lemmas.C05j

export Neatvi.Lemmas.C05j (EOk tailHandler headHandler sokLine sokTail XOk sokLine' sokTail' StepHyp')
open Neatvi.Props.C05c (iterate)

/-- `EOk` is C05f's `SOk` read on the ex state -/
theorem sok_is_eok (s : VS) (c : Prop) : SOk s c ↔ EOk s.ed c := Iff.rfl

/-- **`:p`, the empty command, `:d :y :pu := :k :se :ec`, names outside the model** keep the invariant from every state
    that has it (a command may be in progress), for every address, name, argument and text -/
theorem keepsSOk_of_tail_handler (k : Nat) {ed ed' : Ed} {c : Prop} (h : EOk ed c) (hd : String)
    (ht : tailHandler hd = true) (loc cmd arg : Bytes) (txt : Option Bytes) (r : Int)
    (hr : runCmd (k + 2) ed hd loc cmd arg txt = some (r, ed')) : EOk ed' False :=
  keeps_tailHandler k h hd ht loc cmd arg txt r hr

/-- **`keepsSOk_of_handler`**: besides, `:s` with a NUL-free argument (pattern, replacement, flags) when the remembered
    replacement is NUL-free, and `:u`, `:redo` when no command is in progress -/
theorem keepsSOk_of_handler (k : Nat) {ed ed' : Ed} (h : EOk ed True) (hx : NoNul ed.xrep) (hd : String)
    (ht : headHandler hd = true) (loc cmd arg : Bytes) (harg : NoNul arg) (txt : Option Bytes) (r : Int)
    (hr : runCmd (k + 2) ed hd loc cmd arg txt = some (r, ed')) : EOk ed' False :=
  keeps_headHandler k h hx hd ht loc cmd arg harg txt r hr

/-- the hypotheses are satisfiable: `:s/a/b/` on C05h's witness state -/
example : EOk sLong.ed True ∧ NoNul sLong.ed.xrep ∧ headHandler "ec_substitute" = true ∧ NoNul (strOf "/a/b/") :=
  ⟨sLong_sok, by decide, by decide, by decide +kernel⟩

/-- **`:s`** also hands on that the remembered replacement is NUL-free -/
theorem substitute_keeps (f : Nat) {ed ed' : Ed} {c : Prop} (h : EOk ed c) (hrep : NoNul ed.xrep) (loc cmd arg : Bytes)
    (txt : Option Bytes) (harg : NoNul arg) (r : Int)
    (hr : runCmd (f + 1) ed "ec_substitute" loc cmd arg txt = some (r, ed')) : EOk ed' False ∧ NoNul ed'.xrep :=
  keeps_subst f h hrep loc cmd arg txt harg r hr

/-- **what `:s` writes for one line**: NUL-free when the line and the replacement are (any pattern, with and without `g`) -/
theorem substLine_has_no_nul {re : RStr} {rep : Bytes} {g : Bool} {line nl : Bytes} (hrep : NoNul rep) (hl : NoNul line)
    (h : substLine re rep g line = some (some nl)) : NoNul nl := substLine_noNul hrep hl h

/-- **`:a :i :c`** with a text block without NUL (what is typed has none: `C05f.typed_text_has_no_nul`) -/
theorem insert_keeps (f : Nat) {ed ed' : Ed} {c : Prop} (h : EOk ed c) (loc cmd arg : Bytes) (txt : Option Bytes)
    (ht : NoNulO txt) (r : Int) (hr : runCmd (f + 1) ed "ec_insert" loc cmd arg txt = some (r, ed')) : EOk ed' False :=
  keeps_insert f h loc cmd arg txt ht r hr

/-- **`:rs`** (a register set from a text block without NUL) -/
theorem rs_keeps (f : Nat) {ed ed' : Ed} {c : Prop} (h : EOk ed c) (loc cmd arg : Bytes) (txt : Option Bytes)
    (ht : NoNulO txt) (r : Int) (hr : runCmd (f + 1) ed "ec_rs" loc cmd arg txt = some (r, ed')) : EOk ed' c :=
  keeps_rs f h loc cmd arg txt ht r hr

/-- **`ex_exec` on a covered `|`-list** (`sokLine`: the first command has a `headHandler` and a NUL-free argument, the
    others a `tailHandler`), every fuel `≥ 3` -/
theorem exExec_keeps (k : Nat) {ed ed' : Ed} (h : EOk ed True) (hx : NoNul ed.xrep) (ln : Bytes) (hl : sokLine ln = true)
    (r : Int) (hr : exExec (k + 3) ed ln = some (r, ed')) : EOk ed' False := exec_sok k h hx ln hl r hr

/-- **`ex_command`** closes the undo step: the invariant holds again with no command in progress -/
theorem exCommand_keeps (k : Nat) {ed ed' : Ed} (h : EOk ed True) (hx : NoNul ed.xrep) (ln : Bytes) (hl : sokLine ln = true)
    (r : Int) (hr : exCommand (k + 4) ed ln = some (r, ed')) : EOk ed' True := command_sok k h hx ln hl r hr

/-- **`KeepsSOk` of C05i for the covered lines**: entered from vi in a state with the invariant and a NUL-free
    remembered replacement, the command keeps the invariant -/
theorem keepsSOk_of_line {ln : Bytes} {s : VS} (hs : SOk s True) (hx : NoNul s.ed.xrep) (hl : sokLine ln = true) :
    Props.C05i.KeepsSOk ln s := keepsSOk_of_sokLine hs hx hl

/-- the class: `:s/a/b/`, `:1d`, `1,2d|p`, `s/a/b/g|2d|pu`, `u` are covered; `1d|u`, `w out`, `r !ls`, `1,2!sort`,
    `g/a/d`, `x` are not -/
example : sokLine (strOf ":s/a/b/") = true ∧ sokLine (strOf ":1d") = true ∧ sokLine (strOf "1,2d|p") = true ∧
    sokLine (strOf "s/a/b/g|2d|pu") = true ∧ sokLine (strOf "u") = true ∧ sokLine (strOf "1d|u") = false ∧
    sokLine (strOf "w out") = false ∧ sokLine (strOf "r !ls") = false ∧ sokLine (strOf "1,2!sort") = false ∧
    sokLine (strOf "g/a/d") = false ∧ sokLine (strOf "x") = false := by
  refine ⟨?_, ?_, ?_, ?_, ?_, ?_, ?_, ?_, ?_, ?_, ?_⟩ <;> decide +kernel

/-- instance: `:s/a/b/` and `1,2d|p` entered on C05h's witness state -/
example : Props.C05i.KeepsSOk (strOf ":s/a/b/") sLong ∧ Props.C05i.KeepsSOk (strOf "1,2d|p") sLong :=
  ⟨keepsSOk_of_line sLong_sok (by decide) (by decide +kernel), keepsSOk_of_line sLong_sok (by decide) (by decide +kernel)⟩

/-- **`ExCallOk` without `KeepsSOk`**: a line of both classes, entered in a state with both invariants -/
theorem exCallOk_of_covered {ln : Bytes} {s : VS} (h : EdSafe s) (hs : SOk s True) (hx : NoNul s.ed.xrep)
    (hl : ColonLineOk ln) (hk : sokLine ln = true) : ExCallOk ln s :=
  Props.C05i.exCallOk_of_covered h hl (keepsSOk_of_line hs hx hk)

example : ExCallOk (strOf ":s/a/b/") sLong :=
  exCallOk_of_covered sLong_edSafe sLong_sok (by decide) (Or.inl (by decide +kernel)) (by decide +kernel)

/-- **`ColonOk` from the class of the typed lines**: `KeepsSOk` is no longer a hypothesis for the `:` lines — every
    line the prompt returns is in both decidable classes and is entered in a state that is `EdSafe`, has the line
    invariant and a NUL-free remembered replacement.  The `x` of `ZZ` (`ec_quit`, not covered here) keeps its clause. -/
theorem colonOk_of_covered_lines {s : VS}
    (hc : ∀ (s0 : VS) (ln : Bytes) (s1 : VS), ColonAt 58 s s0 → viPrompt true s0 = Res.ok (some ln) s1 → ln.isEmpty = false →
      ColonLineOk (if ln.headD 0 != 58 then 58 :: ln else ln) ∧ sokLine (if ln.headD 0 != 58 then 58 :: ln else ln) = true ∧
        EdSafe s1 ∧ SOk s1 True ∧ NoNul s1.ed.xrep)
    (hz : ∀ s0, ColonAt 90 s s0 → EdSafe s0 ∧ Props.C05i.KeepsSOk (strOf "x") s0) : ColonOk s :=
  Props.C05i.colonOk_of_typed_lines (fun s0 ln s1 hat hm he => by
    obtain ⟨a, b, c, d, e⟩ := hc s0 ln s1 hat hm he
    exact ⟨a, c, keepsSOk_of_line d e b⟩) hz

/-! ## 2. the remembered replacement: written by `:s` only -/

/-- **frame**: `:p`, the empty command, `:d :y :pu := :k :se :ec` and the names outside the model do not write `xrep` -/
theorem xrep_frame (k : Nat) {ed ed' : Ed} (hd : String) (ht : tailHandler hd = true)
    (loc cmd arg : Bytes) (txt : Option Bytes) (r : Int)
    (hr : runCmd (k + 2) ed hd loc cmd arg txt = some (r, ed')) : ed'.xrep = ed.xrep :=
  xrep_tailHandler k hd ht loc cmd arg txt r hr

/-- … nor do `:a :i :c`, `:rs`, `:u`, `:redo` -/
theorem xrep_frame_text (f : Nat) {ed ed' : Ed} (loc cmd arg : Bytes) (txt : Option Bytes) (r : Int) :
    (runCmd (f + 1) ed "ec_insert" loc cmd arg txt = some (r, ed') → ed'.xrep = ed.xrep) ∧
    (runCmd (f + 1) ed "ec_rs" loc cmd arg txt = some (r, ed') → ed'.xrep = ed.xrep) ∧
    (runCmd (f + 1) ed "ec_undo" loc cmd arg txt = some (r, ed') → ed'.xrep = ed.xrep) ∧
    (runCmd (f + 1) ed "ec_redo" loc cmd arg txt = some (r, ed') → ed'.xrep = ed.xrep) :=
  ⟨xrep_insert f loc cmd arg txt r, xrep_rs f loc cmd arg txt r, xrep_undo f loc cmd arg txt r, xrep_redo f loc cmd arg txt r⟩

/-- `sokLine'` extends `sokLine`: `:s` with a NUL-free argument may also follow a `|` -/
theorem sokLine_le {ln : Bytes} (h : sokLine ln = true) : sokLine' ln = true := sokLine_sub h

example : sokLine' (strOf "1d|s/a/b/") = true ∧ sokLine (strOf "1d|s/a/b/") = false ∧ sokLine' (strOf "1d|u") = false ∧
    sokLine' (strOf "w out") = false := by
  refine ⟨?_, ?_, ?_, ?_⟩ <;> decide +kernel

/-- **`ex_command` on a line of the larger class**: the invariant again, no command in progress, and the remembered
    replacement NUL-free -/
theorem exCommand_keeps' (k : Nat) {ed ed' : Ed} (h : EOk ed True) (hx : NoNul ed.xrep) (ln : Bytes)
    (hl : sokLine' ln = true) (r : Int) (hr : exCommand (k + 4) ed ln = some (r, ed')) : XOk ed' True :=
  command_sok' k h hx ln hl r hr

/-! ## 3. `NoNul xrep`, `NoNul xkwd` and `EdSafe` across a covered `:` line -/

/-- **a covered `:` line entered from vi** keeps the line invariant (no command in progress afterwards) and the
    NUL-freeness of the remembered replacement -/
theorem colon_keeps_invariants {ln : Bytes} {s s' : VS} {rc : Int} (hs : SOk s True) (hx : NoNul s.ed.xrep)
    (hl : sokLine' ln = true) (hm : exCommandV ln s = Res.ok rc s') : SOk s' True ∧ NoNul s'.ed.xrep :=
  colon_keeps_xok hs hx hl hm

/-- … and, for a line of C05e's class entered in an `EdSafe` state: `EdSafe` again, the remembered pattern a C string -/
theorem colon_keeps_safe_kwd {ln : Bytes} {s s' : VS} {rc : Int} (h : EdSafe s) (hl : ColonLineOk ln)
    (hm : exCommandV ln s = Res.ok rc s') : EdSafe s' ∧ NoNul s'.ed.xkwd := colon_keeps_xkwd h hl hm

example : ∃ rc s', exCommandV (strOf "1d|s/a/b/") sLong = Res.ok rc s' ∧ EdSafe s' ∧ NoNul s'.ed.xkwd ∧ SOk s' True ∧
    NoNul s'.ed.xrep := by
  obtain ⟨rc, s', he, _⟩ := Props.C05h.colon_keeps_safe (strOf "1d|s/a/b/") sLong sLong_edSafe (Or.inl (by decide +kernel))
  obtain ⟨a, b⟩ := colon_keeps_safe_kwd sLong_edSafe (Or.inl (by decide +kernel)) he
  obtain ⟨c, d⟩ := colon_keeps_invariants sLong_sok (by decide) (by decide +kernel) he
  exact ⟨rc, s', he, a, b, c, d⟩

/-- the line invariant holds in the state the `:` prompt returns in (the caret mark and the prompt change neither the
    lines nor the registers): `SOk` at the `:` call is no hypothesis -/
theorem sok_at_colon_prompt {s s0 s1 : VS} {r : Option Bytes} (hs : SOk s True) (hat : ColonAt 58 s s0)
    (hp : viPrompt true s0 = Res.ok r s1) : SOk s1 True := sok_at_colon hs hat hp

/-! ## 4. the run -/

/-- C05f's `StepHyp` from `StepHyp'` (the `:`-clause: every line typed is `ColonLineOk ∧ sokLine'`, entered in an `EdSafe`
    state with a NUL-free remembered replacement) and the invariant -/
theorem stepHyp_of_reduced {s : VS} (hv : ViOk s) (h : StepHyp' s) : StepHyp s := stepHyp_of hv h

/-- the full target of layer (d): as the partial theorem below, with `EdSafe s1 ∧ NoNul s1.ed.xrep` removed from the
    `typed` clause of `StepHyp'` and the `zz` clause removed.  **Stated, not proved**: it needs layer (b) (the vi commands
    keep `EdSafe`, `atDepth = 0`, `NoNul xrep`) and `KeepsSOk` for `ec_quit`. -/
def vi_run_no_trap'_full : Prop :=
  ∀ (ed0 : Ed) (files : List Bytes), ed0.bufs = List.replicate Gen.NBUFS none → 0 ∉ ed0.xkwd → ed0.atDepth = 0 →
    NoNul ed0.xrep → Lemmas.C05e.NameOk files → ∀ (keys : Bytes) (rows cols : Int),
    ∃ rc ed1, exInit ed0 files = some (rc, ed1) ∧
      (ViOk (viInit ed1 keys rows cols) → ∀ (n : Nat) (s : VS),
        (∀ k t, k ≤ n → iterate k (viInit ed1 keys rows cols) = some t →
          t.ed.xquit = false ∧ MarksIn t ∧ MarksIn (markCaret t) ∧ SearchOk t ∧
          ∀ (s0 : VS) (ln : Bytes) (s1 : VS), ColonAt 58 t s0 → viPrompt true s0 = Res.ok (some ln) s1 → ln.isEmpty = false →
            ColonLineOk (if ln.headD 0 != 58 then 58 :: ln else ln) ∧
              sokLine' (if ln.headD 0 != 58 then 58 :: ln else ln) = true) →
        iterate n (viInit ed1 keys rows cols) = some s → ViOk s ∧ viStep s ≠ Res.trap)

/-- **`vi_run_no_trap'_partial`**: for every file name C05e covers, every file system content, window size and key
    stream: `ex_init` returns, the state `vi` starts from is `EdSafe`, and — if it has C05f's invariant `ViOk` and
    `StepHyp'` holds at every boundary of the run — no iteration traps and the invariant holds at every boundary.
    With respect to `C05i.vi_run_no_trap`, `KeepsSOk` and `SOk` of the `:` call state are gone; missing with respect to
    `vi_run_no_trap'_full`: `EdSafe` and `NoNul xrep` of the `:` call state (layer (b)) and the `ZZ` clause. -/
theorem vi_run_no_trap'_partial (ed0 : Ed) (files : List Bytes) (h0 : ed0.bufs = List.replicate Gen.NBUFS none)
    (hk : 0 ∉ ed0.xkwd) (hd : ed0.atDepth = 0) (hn : Lemmas.C05e.NameOk files) (keys : Bytes) (rows cols : Int) :
    ∃ rc ed1, exInit ed0 files = some (rc, ed1) ∧ EdSafe (viInit ed1 keys rows cols) ∧
      (ViOk (viInit ed1 keys rows cols) → ∀ (n : Nat) (s : VS),
        (∀ k t, k ≤ n → iterate k (viInit ed1 keys rows cols) = some t → StepHyp' t) →
        iterate n (viInit ed1 keys rows cols) = some s → ViOk s ∧ viStep s ≠ Res.trap) := by
  obtain ⟨rc, ed1, hi, hs⟩ := Props.C05h.initial_state_safe ed0 files h0 hk hd hn keys rows cols
  exact ⟨rc, ed1, hi, hs, fun hv n s hh h => run_ok' n _ hv hh s h⟩

/-- the run theorem from any start state -/
theorem run_no_trap' (n : Nat) (s₀ s : VS) (h0 : ViOk s₀) (hh : ∀ k t, k ≤ n → iterate k s₀ = some t → StepHyp' t)
    (h : iterate n s₀ = some s) : ViOk s ∧ viStep s ≠ Res.trap := run_ok' n s₀ h0 hh s h

/-- the hypotheses are satisfiable: the example state of C08b (lines `hello w`, `b`) with any keys without
    `/ ? n N ^A : Z` has `ViOk` and `StepHyp'`; so its first command does not trap -/
example (keys : Bytes) (h : ∀ k ∈ specialKeys, k ∉ keys) :
    ViOk (Props.C08b.exSt keys 0 0) ∧ StepHyp' (Props.C08b.exSt keys 0 0) ∧ viStep (Props.C08b.exSt keys 0 0) ≠ Res.trap :=
  ⟨exSt_viOk keys, exSt_stepHyp' keys h,
    (run_no_trap' 0 _ _ (exSt_viOk keys) (fun k t hk ht => by
      have : k = 0 := by omega
      subst this
      unfold iterate at ht
      cases ht
      exact exSt_stepHyp' keys h) rfl).2⟩

/-- the `typed` clause of `StepHyp'` is satisfiable on a state where a `:` line is entered: C05h's witness state is
    `EdSafe`, has the line invariant and a NUL-free remembered replacement, and `:1d|s/a/b/` is in both classes -/
example : ColonLineOk (strOf ":1d|s/a/b/") ∧ sokLine' (strOf ":1d|s/a/b/") = true ∧ EdSafe sLong ∧ NoNul sLong.ed.xrep :=
  ⟨Or.inl (by decide +kernel), by decide +kernel, sLong_edSafe, by decide⟩

end Neatvi.Props.C05j
