import NeatviVerif.Lemmas.C02dPipe
import NeatviVerif.Props.C02b
/-!
# C02d  A clean buffer is on disk: every buffer of the table, across `:e`, `:b`, `:w`, `:r`, `:q`

C02 / C02b prove that a buffer the editor considers clean has the text of its most recent `lbuf_saved`
(the "ghost"), and — for the current buffer, as long as no command line switches buffers — that this
text is what the file holds.  This file closes the gap for EVERY buffer of the table (current and
parked) and EVERY command line: an invariant `Inv` over the ex model that relates the ghost of each
buffer to the virtual file system `Ed.files`, kept by `:e`, `:e!`, `:e #`, `:b …`, `:w`, `:w other`,
`:w! other`, `:r`, `:q`, `:wq`, `:x`, `:xa`, `:g`, `:@`, the line commands, and lifted to all states
reachable by whole scripts (`exInit`, then `exStep`s over the input queue).

## What "nobody but the editor wrote the path" means in the model

In the model the only writer of `Ed.files` is `lbufSave` (the editor's own `lbuf_save`); every successful
`open` stamps the file with a fresh value of the virtual clock.  A buffer records in `Buf.mtime` the
stamp of its file when it was loaded (`:e`) or last written to its own path (`:w`).  So

    ed.mtimeOf b.path = b.mtime            ("fresh")

says exactly: nobody — no other process (which would change the stamp in the real world), and no OTHER
BUFFER of the editor (`:w other`, `:w! other`, `autowrite`, `:xa`) — wrote the path since this buffer
was loaded or saved.  `save_makes_stale`: whenever a save changes the file system, every buffer of the
table attached to that path is stale afterwards.

## The statement (`clean_means_file_is_text`, `editor_clean_means_file_is_text`)

For every buffer `b` of every reachable state: if `b` reports clean, has a name, is fresh, and its file
exists, then the file holds the buffer's text (`FileIs`: byte for byte, or — after loading — the text is
what `lbuf_rd` makes of the bytes; for a file without NUL that is empty or ends in a newline both mean
`data = lines.flatten`, `clean_text_file_is_exact`).

## What is FALSE (each refuted by a concrete session run in the kernel)

* without "fresh" (`clean_invariant_without_freshness_is_false`, session 1, no `!` anywhere): an unnamed
  buffer written with `:w p` takes the name `p` although another buffer of the table has that name;
  that one reports clean (it is empty and was never touched) while the file holds something else.
* the forced variant (`forced_write_over_open_buffer`, session 2): `:w! p` from another buffer overwrites
  what buffer `p` saved; `p` still reports clean, `:q` quits.  The buffer is stale (1002 ≠ 1003), which
  is what the editor "knows": an unforced `:w` from `p` would be refused (`C03.guard_newer`).
* for a buffer whose file does NOT exist (`clean_invariant_for_missing_files_is_false`, session 3):
  `:e!` on a buffer whose file does not exist keeps the text and calls `lbuf_saved` all the same (so does
  the C: `ec_edit` calls `lbuf_saved` whether or not `open` succeeded).  The buffer reports clean with
  a non-empty text and no file; `:q` quits.  The invariant therefore says nothing about a buffer whose
  file does not exist.

## The user-level corollary (`quit_saved`, `final_q_saved`, `script_final_q_saved`)

If a quit command without `!` (`q`, `wq`, `x`, `xa`) makes the editor quit, then every buffer of the
table is `SavedAt`: it reports clean (so by C02b its text is the text of its last save/load) and, if it
is named, fresh and its file exists, the file holds its text; or it was written by this very command
(`autowrite`, `:xa`) and its file holds its text byte for byte.  Buffers the user dropped earlier with
`:b !`, or told the editor to overwrite with `!`, are outside this statement.

## Scope

* `FsOk` (initial clock ≥ -1, initial files stamped within `[0, clock]`) is needed: a file stamped in the
  future can receive, from a later write, exactly the stamp a buffer recorded for it
  (`clean_invariant_without_fsOk_is_false`, session 7).
* `:w !cmd` (an unnamed buffer used to take the name `!cmd` and be marked saved, although no file was
  written — repaired in the C, 0e9d7ad) is modelled in ex mode: `pipe_write_saves_nothing`.  In vi mode the
  "press a key" protocol after the command's output is not modelled (`Ed.unmodelled`).
-/
namespace Neatvi.Props.C02d
open Neatvi Neatvi.Lbuf Neatvi.LbufIo Neatvi.Ex Neatvi.Props.C01 Neatvi.Lemmas.C02b Neatvi.Lemmas.C02Ex
open Neatvi.Lemmas.C02d

export Neatvi.Lemmas.C02d (FileIs FsOk findF mtimeF Agrees BufOk Core Inv SaveEff CleanSync Held SavedAt
  quitWords sessionS script1 script2 script3 script4 ed5 ed7 runLines edPipe)

/-! ## 1. a file holding a text -/

/-- `FileIs data t` for a text file in the usual sense — no NUL byte; empty or ending in a newline —
    means: the file is the concatenation of the buffer's lines, byte for byte -/
theorem fileIs_exact {data : Bytes} {t : List Bytes} (h : FileIs data t) (h0 : 0 ∉ data)
    (hnl : needNl data = false) : data = t.flatten := Lemmas.C02d.fileIs_exact h h0 hnl

/-- both readings are instances: what a whole write leaves, and what loading leaves -/
theorem fileIs_cases (data : Bytes) (t : List Bytes) :
    FileIs data t ↔ (t = splitLines (cstr data) ∨ data = t.flatten) := Iff.rfl

-- a file without its final newline: loaded, the text has one more byte than the file
example : FileIs [97, 98, 99] [[97, 98, 99, 10]] ∧ [97, 98, 99] ≠ [[97, 98, 99, 10]].flatten :=
  ⟨Or.inl (by decide), by decide⟩

/-! ## 2. the invariant and its preservation -/

/-- the invariant, spelled out: the file system has sane time stamps (`FsOk`: clock ≥ -1, every file
    stamped within `[0, clock]`), and every buffer `b` of the table — current or parked —
    * recorded a time stamp not beyond the clock,
    * was built by the lbuf API with some ghost `d` (`LbReach`, C02b: `d` is the text at its most recent
      `lbuf_saved`, `none` after `lbuf_unsaved`), and
    * if `d = some t`, `b` has a name, and `mtime(b.path) = b.mtime`, then the file `b.path`, if it
      exists, holds `t`. -/
theorem inv_iff (ed : Ed) :
    Inv ed ↔
      ((-1 ≤ ed.clock ∧ ∀ f ∈ ed.files, 0 ≤ f.mtime ∧ f.mtime ≤ ed.clock) ∧
        ∀ b, some b ∈ ed.bufs →
          b.mtime ≤ ed.clock ∧
          ∃ d, LbReach b.lb d ∧
            ∀ t, d = some t → b.path ≠ [] → ed.mtimeOf b.path = b.mtime →
              ∀ fl, ed.findFile b.path = some fl → FileIs fl.data t) := Iff.rfl

/-- an editor that has not opened anything yet, over any file system with sane stamps -/
theorem inv_initial (ed0 : Ed) (h0 : ed0.bufs = List.replicate Gen.NBUFS none) (hfs : FsOk ed0.files ed0.clock) :
    Inv ed0 := inv_empty_table ed0 h0 hfs

/-- **every `ec_*` handler keeps the invariant, for every fuel**: `:e`, `:e!`, `:e #`, `:ew` (`ec_edit`),
    `:b …` (`ec_buffer`), `:w`, `:w other`, `:w! other` (`ec_write`), `:r` (`ec_read`), `:q`, `:wq`, `:x`,
    `:xa` with or without `!` (`ec_quit`), `:g`, `:@`, `:!`, `:s`, `:d`, `:pu`, `:u`, … -/
theorem runCmd_keeps (f : Nat) (ed ed' : Ed) (hd : String) (loc cmd arg : Bytes) (txt : Option Bytes) (r : Int)
    (hi : Inv ed) (h : runCmd f ed hd loc cmd arg txt = some (r, ed')) : Inv ed' :=
  Lemmas.C02d.runCmd_keeps hi h

/-- `:e` in all its forms, also with a `+cmd` -/
theorem ecEdit_keeps (f : Nat) (ed ed' : Ed) (cmd arg : Bytes) (r : Int) (hi : Inv ed)
    (h : ecEdit f ed cmd arg = some (r, ed')) : Inv ed' := Lemmas.C02d.ecEdit_keeps hi h

/-- `:w` in all its forms: to the own path, to another path, forced, a range, by an unnamed buffer -/
theorem ecWrite_keeps (ed ed' : Ed) (loc cmd arg : Bytes) (r : Int) (hi : Inv ed)
    (h : ecWrite ed loc cmd arg = some (r, ed')) : Inv ed' := Lemmas.C02d.ecWrite_inv hi h

/-- a whole command line, at every point the caller can observe (also inside `:g` and `:@`) -/
theorem exExec_keeps (f : Nat) (ed ed' : Ed) (ln : Bytes) (r : Int) (hi : Inv ed)
    (h : exExec f ed ln = some (r, ed')) : Inv ed' := Lemmas.C02d.exExec_keeps hi h

theorem exCommand_keeps (f : Nat) (ed ed' : Ed) (ln : Bytes) (r : Int) (hi : Inv ed)
    (h : exCommand f ed ln = some (r, ed')) : Inv ed' := Lemmas.C02d.exCommand_keeps hi h

/-- one round of the `ex()` loop -/
theorem exStep_keeps (ed ed' : Ed) (r : Int) (hi : Inv ed) (h : exStep ed = some (r, ed')) : Inv ed' :=
  Lemmas.C02d.exStep_keeps hi h

theorem exInit_keeps (ed ed' : Ed) (files : List Bytes) (r : Int) (hi : Inv ed)
    (h : exInit ed files = some (r, ed')) : Inv ed' := Lemmas.C02d.exInit_keeps hi h

/-- **whole scripts**: every state reached by starting the editor on any files and running any number
    of rounds of the `ex()` loop over any input queue satisfies the invariant — like
    `C02b.editor_buffers_satisfy_invariant_full`, now with the file system -/
theorem editor_files_invariant (ed0 : Ed) (files : List Bytes) (n : Nat) (rc : Int) (ed1 ed : Ed)
    (h0 : ed0.bufs = List.replicate Gen.NBUFS none) (hfs : FsOk ed0.files ed0.clock)
    (hinit : exInit ed0 files = some (rc, ed1)) (hrun : C02.Ex.exRun n ed1 = some ed) : Inv ed :=
  reachable_inv ed0 files n rc ed1 ed h0 hfs hinit hrun

/-- the same for a list of command lines run through `ex_command` one after the other (`runLines`), from
    any state satisfying the invariant -/
theorem runLines_keeps (f : Nat) (lns : List Bytes) (ed ed' : Ed) (hi : Inv ed)
    (h : runLines f lns ed = some ed') : Inv ed' := Lemmas.C02d.runLines_keeps f lns ed ed' hi h

-- the hypotheses are met: the default editor state with the script of session 4 in its queue
example : ∃ rc ed1 ed, ({ input := script4 } : Ed).bufs = List.replicate Gen.NBUFS none ∧
    FsOk ({ input := script4 } : Ed).files ({ input := script4 } : Ed).clock ∧
    exInit { input := script4 } [[112]] = some (rc, ed1) ∧ C02.Ex.exRun 2 ed1 = some ed := by
  obtain ⟨rc, ed1, ed, _, _, h1, h2, _⟩ := session4
  exact ⟨rc, ed1, ed, rfl, fsOk_default, h1, h2⟩

/-! ## 3. clean means: the file is the text -/

/-- **the clean flag is sound against the file system, for every buffer of the table**: in a state that
    satisfies the invariant, a buffer (in any slot) that reports clean, has a name, and whose file still
    carries the time stamp the buffer recorded, has the text the file holds — if the file exists -/
theorem clean_means_file_is_text (ed : Ed) (hi : Inv ed) (i : Nat) (b : Buf) (hb : ed.bufs.getD i none = some b)
    (hc : (modified b.lb).1 = false) (hne : b.path ≠ []) (hfresh : ed.mtimeOf b.path = b.mtime)
    (fl : File) (hfl : ed.findFile b.path = some fl) : FileIs fl.data b.lb.lines :=
  (cleanSync_of_inv hi (C20.mem_of_getD _ _ _ hb).1 hc).2 hne hfresh fl hfl

/-- the same for every state a script can reach -/
theorem editor_clean_means_file_is_text (ed0 : Ed) (files : List Bytes) (n : Nat) (rc : Int) (ed1 ed : Ed)
    (h0 : ed0.bufs = List.replicate Gen.NBUFS none) (hfs : FsOk ed0.files ed0.clock)
    (hinit : exInit ed0 files = some (rc, ed1)) (hrun : C02.Ex.exRun n ed1 = some ed)
    (i : Nat) (b : Buf) (hb : ed.bufs.getD i none = some b)
    (hc : (modified b.lb).1 = false) (hne : b.path ≠ []) (hfresh : ed.mtimeOf b.path = b.mtime)
    (fl : File) (hfl : ed.findFile b.path = some fl) : FileIs fl.data b.lb.lines :=
  clean_means_file_is_text ed (editor_files_invariant ed0 files n rc ed1 ed h0 hfs hinit hrun) i b hb hc hne hfresh fl hfl

/-- contrapositive: while the (fresh, existing) file and the text differ, the flag says dirty — so `:q`,
    `:e`, `:b` refuse (C02 Part B) -/
theorem dirty_while_file_differs (ed : Ed) (hi : Inv ed) (i : Nat) (b : Buf) (hb : ed.bufs.getD i none = some b)
    (hne : b.path ≠ []) (hfresh : ed.mtimeOf b.path = b.mtime) (fl : File) (hfl : ed.findFile b.path = some fl)
    (hdiff : ¬ FileIs fl.data b.lb.lines) : (modified b.lb).1 = true :=
  Lemmas.C02d.dirty_while_file_differs ed hi i b hb hne hfresh fl hfl hdiff

-- session 6 (`vi p`, `:a x .`, `:w`, `:a y .`): fresh, the file holds `x\n`, the text is `x\n y\n`: the
-- hypotheses hold and the flag does say dirty
example : ∃ ed b fl, Inv ed ∧ ed.bufs.getD 0 none = some b ∧ b.path ≠ [] ∧ ed.mtimeOf b.path = b.mtime ∧
    ed.findFile b.path = some fl ∧ ¬ FileIs fl.data b.lb.lines ∧ (modified b.lb).1 = true := by
  obtain ⟨rc, ed1, ed, b, fl, h1, h2, hb, hp, hl, hd, hf, hfl, hdat⟩ := session6
  refine ⟨ed, b, fl, editor_files_invariant _ _ _ _ _ _ rfl fsOk_default h1 h2, hb, by rw [hp]; decide, hf, hfl, ?_, hd⟩
  rw [hdat, hl]
  intro h
  rcases h with h | h
  · exact absurd h (by decide)
  · exact absurd h (by decide)

/-- for a text file (no NUL; empty or newline-terminated) the conclusion is equality of bytes -/
theorem clean_text_file_is_exact (ed : Ed) (hi : Inv ed) (i : Nat) (b : Buf) (hb : ed.bufs.getD i none = some b)
    (hc : (modified b.lb).1 = false) (hne : b.path ≠ []) (hfresh : ed.mtimeOf b.path = b.mtime)
    (fl : File) (hfl : ed.findFile b.path = some fl) (h0 : 0 ∉ fl.data) (hnl : needNl fl.data = false) :
    fl.data = b.lb.lines.flatten :=
  fileIs_exact (clean_means_file_is_text ed hi i b hb hc hne hfresh fl hfl) h0 hnl

-- session 4 (`vi p`, `:a x .`, `:w`): all hypotheses hold in the state reached, and the conclusion is
-- what one expects: the file `p` holds `x\n`
example : ∃ ed b fl, Inv ed ∧ ed.bufs.getD 0 none = some b ∧ (modified b.lb).1 = false ∧ b.path ≠ [] ∧
    ed.mtimeOf b.path = b.mtime ∧ ed.findFile b.path = some fl ∧ fl.data = [120, 10] ∧ b.lb.lines = [[120, 10]] := by
  obtain ⟨rc, ed1, ed, b, fl, h1, h2, _, _, _, hb, hp, hl, hd, hf, hfl, hdat⟩ := session4
  exact ⟨ed, b, fl, editor_files_invariant _ _ _ _ _ _ rfl fsOk_default h1 h2, hb, hd, by rw [hp]; decide, hf, hfl, hdat, hl⟩

-- session 5 (a file `abc` without final newline, loaded): the hypotheses hold, `FileIs` holds through its
-- first alternative, and the bytes differ
example : ∃ ed b fl, Inv ed ∧ ed.bufs.getD 0 none = some b ∧ (modified b.lb).1 = false ∧ b.path ≠ [] ∧
    ed.mtimeOf b.path = b.mtime ∧ ed.findFile b.path = some fl ∧ FileIs fl.data b.lb.lines ∧
    fl.data ≠ b.lb.lines.flatten := by
  obtain ⟨rc, ed1, ed, b, fl, h1, h2, hb, hp, hl, hd, hf, hfl, hdat⟩ := session5
  have hi := editor_files_invariant _ _ _ _ _ _ rfl fsOk_ed5 h1 h2
  have hne : b.path ≠ [] := by rw [hp]; decide
  exact ⟨ed, b, fl, hi, hb, hd, hne, hf, hfl, clean_means_file_is_text ed hi 0 b hb hd hne hf fl hfl,
    by rw [hdat, hl]; decide⟩

/-! ### how the premises come about -/

/-- **loading**: the read-and-`lbuf_saved` stage of `:e` (`C02c.editFinish`: a buffer just opened, or the
    current one re-read) leaves the current buffer clean, with the file's stamp recorded ("fresh"), and —
    if it has a name and the file exists — with the text `lbuf_rd` makes of the file -/
theorem load_establishes (ed ed' : Ed) (path : Bytes) (hi : Inv ed) (hf : Lemmas.C02c.editFinish ed path = some ed') :
    ∃ b, ed'.cur = some b ∧ (modified b.lb).1 = false ∧ ed'.mtimeOf b.path = b.mtime ∧
      (b.path ≠ [] → ∀ fl, ed'.findFile b.path = some fl → b.lb.lines = splitLines (cstr fl.data)) :=
  editFinish_establishes hi hf

/-- **writing**: the tail of `ec_write` after a successful `lbuf_save` (`C02.Ex.writeFinish`, see
    `C02.Ex.write_marks_clean_only_if_whole` for how `ec_write` gets there) of the whole buffer to the path
    it has — or takes, if it had none — leaves the current buffer clean and fresh, with its text -/
theorem whole_write_establishes (ed : Ed) (cur : Buf) (path : Bytes) (r : Int) (ed' : Ed)
    (hcur : ed.cur = some cur) (hown : cur.path = path ∨ cur.path = [])
    (hw : writeFinish ed cur path 0 ed.len = some (r, ed')) :
    ∃ c, ed'.cur = some c ∧ c.path = path ∧ c.lb.lines = cur.lb.lines ∧ (modified c.lb).1 = false ∧
      ed'.mtimeOf c.path = c.mtime ∧ ed'.files = ed.files :=
  writeFinish_establishes ed cur path r ed' hcur hown hw

/-! ## 4. a write and the other buffers of the same path -/

/-- what a save may change: the file at `path` (which then carries a stamp beyond the old clock), the
    clock (forward), nothing of the buffer table, not the quit flag; files at other paths stay -/
theorem lbufSave_footprint (ed ed' : Ed) (lb : Lb) (b : Nat) (e : Int) (path : Bytes) (force : Bool) (ts : Int)
    (r : Option Bytes) (h : lbufSave ed lb b e path force ts = some (r, ed')) :
    ed'.bufs = ed.bufs ∧ ed.clock ≤ ed'.clock ∧ (∀ q, q ≠ path → ed'.findFile q = ed.findFile q) ∧
    ((ed'.files = ed.files ∧ ed'.clock = ed.clock) ∨ ∃ fl, ed'.findFile path = some fl ∧ ed.clock < fl.mtime) ∧
    ed'.xquit = ed.xquit :=
  Lemmas.C02d.lbufSave_footprint ed ed' lb b e path force ts r h

/-- **`:w other`, `:w! other`, `autowrite`, `:xa` seen from the other buffers**: whenever a save changes the
    file system, every buffer of the table has a recorded stamp older than the file's new one; a
    buffer attached to that path is not "fresh" any more, the invariant makes no claim about it, and
    an unforced `:w` from it is refused (`C03.guard_newer`) -/
theorem save_makes_stale (ed ed' : Ed) (lb : Lb) (b0 : Nat) (e : Int) (path : Bytes) (force : Bool) (ts : Int)
    (r : Option Bytes) (hi : Inv ed) (h : lbufSave ed lb b0 e path force ts = some (r, ed'))
    (hch : ed'.files ≠ ed.files) : ∀ b, some b ∈ ed'.bufs → b.mtime < ed'.mtimeOf path :=
  Lemmas.C02d.save_makes_stale hi h hch

/-- a one-buffer editor: a fresh buffer named `f`, nothing on disk -/
def edOne : Ed := { bufs := [some { path := [102], lb := Lbuf.make }] ++ List.replicate 15 none }

-- the hypotheses of `save_makes_stale` are met: the invariant holds of `edOne`, and saving creates the file
example : Inv edOne ∧ ∃ ed', lbufSave edOne Lbuf.make 0 (-1) [102] false (-1) = some (none, ed') ∧ ed'.files ≠ edOne.files := by
  refine ⟨⟨fsOk_default, ?_⟩, ?_⟩
  · intro b hb
    have : b = { path := [102], lb := Lbuf.make } := by
      simp only [edOne, List.cons_append, List.nil_append, List.mem_cons, Option.some.injEq, List.mem_replicate,
        reduceCtorEq, and_false, or_false] at hb
      exact hb
    subst this
    exact bufOk_fresh fsOk_default _ rfl rfl
  · have hobs : (lbufSave edOne Lbuf.make 0 (-1) [102] false (-1)).map (fun p => (p.1, p.2.files.length)) = some (none, 1) := by
      decide +kernel
    cases hs : lbufSave edOne Lbuf.make 0 (-1) [102] false (-1) with
    | none => rw [hs] at hobs; cases hobs
    | some p =>
      obtain ⟨r, ed'⟩ := p
      rw [hs] at hobs
      simp only [Option.map_some, Option.some.injEq, Prod.mk.injEq] at hobs
      obtain ⟨rfl, hlen⟩ := hobs
      refine ⟨ed', rfl, ?_⟩
      intro heq
      rw [heq] at hlen
      exact absurd hlen (by decide)

/-- **`:w !cmd` saves nothing** (`ec_write` with an argument that starts with `!`, under any command word of
    `ec_write` / `ec_quit`: `w`, `w!`, `wq`, `x`, …; any address; every state; every outcome): no file changes,
    the clock does not move, the quit flag, the id counter and the registers stay, and the buffer table keeps
    its length, its empty slots and every buffer with its path (no buffer is renamed), id, recorded time
    stamp, text and dirty state (no buffer is marked saved).  Unless the command word is `x…` — which tests
    the dirty flag of the current buffer first and thereby bumps its sequence counter — the table is
    unchanged altogether.  What does change: the message, the address side effects (`xrow`, the search
    keyword), and `unmodelled` in vi mode. -/
theorem pipe_write_saves_nothing (ed ed' : Ed) (loc cmd arg : Bytes) (r : Int) (harg : arg.headD 0 = 33)
    (h : ecWrite ed loc cmd arg = some (r, ed')) :
    ed'.files = ed.files ∧ ed'.clock = ed.clock ∧ ed'.xquit = ed.xquit ∧ ed'.bufsCnt = ed.bufsCnt ∧ ed'.regs = ed.regs ∧
    (cmd.headD 0 ≠ 120 → ed'.bufs = ed.bufs) ∧
    ed'.bufs.length = ed.bufs.length ∧
    ∀ i, (ed.bufs.getD i none = none → ed'.bufs.getD i none = none) ∧
      ∀ b, ed.bufs.getD i none = some b → ∃ b', ed'.bufs.getD i none = some b' ∧ b'.path = b.path ∧ b'.id = b.id ∧
        b'.mtime = b.mtime ∧ b'.lb.lines = b.lb.lines ∧ (modified b'.lb).1 = (modified b.lb).1 :=
  Lemmas.C02d.pipe_write_saves_nothing ed ed' loc cmd arg r harg h

-- the hypotheses are met by `:w !cat` on an unnamed buffer with unsaved text (`edPipe`): return code 0, the
-- message `"!cat"  [=1]  [w]`, and — what the theorem says — the buffer is still unnamed and still dirty
example : ∃ ed', [33, 99, 97, 116].headD 0 = 33 ∧ ecWrite edPipe [] [119] [33, 99, 97, 116] = some (0, ed') ∧
    ∃ b', ed'.bufs.getD 0 none = some b' ∧ b'.path = [] ∧ (modified b'.lb).1 = true := by
  have hobs := edPipe_obs
  cases hw : ecWrite edPipe [] [119] [33, 99, 97, 116] with
  | none => rw [hw] at hobs; cases hobs
  | some p =>
    obtain ⟨r, ed'⟩ := p
    rw [hw] at hobs
    simp only [Option.map_some, Option.some.injEq, Prod.mk.injEq] at hobs
    obtain ⟨rfl, _, _, _⟩ := hobs
    obtain ⟨_, _, _, _, _, _, _, hs⟩ := pipe_write_saves_nothing edPipe ed' [] [119] [33, 99, 97, 116] 0 rfl hw
    obtain ⟨b', hb', hp, _, _, _, hd⟩ := (hs 0).2 _ rfl
    exact ⟨ed', rfl, rfl, b', hb', hp, hd⟩

/-! ## 5. what does not hold -/

/-- the statement without "fresh": a clean named buffer whose file exists has the file's text -/
def clean_means_file_is_text_without_freshness_full : Prop :=
  ∀ (ed0 : Ed) (files : List Bytes) (n : Nat) (rc : Int) (ed1 ed : Ed),
    ed0.bufs = List.replicate Gen.NBUFS none → FsOk ed0.files ed0.clock →
    exInit ed0 files = some (rc, ed1) → C02.Ex.exRun n ed1 = some ed →
    ∀ i b, ed.bufs.getD i none = some b → (modified b.lb).1 = false → b.path ≠ [] →
      ∀ fl, ed.findFile b.path = some fl → FileIs fl.data b.lb.lines

/-- **FALSE**, by session 1 — `vi`; `:e p`; `:b #`; `:a` / `x` / `.`; `:w p` — in which no `!` occurs: the
    unnamed buffer is written to the new file `p` and takes that name, while the table already has a
    buffer `p` (empty, clean, recorded stamp -1).  That one is clean, named, its file exists and holds
    `x\n`, its text is empty.  (Nothing is lost here: the buffer never had any text.  The editor could
    refuse the name; it does not, and neither does the C.) -/
theorem clean_invariant_without_freshness_is_false : ¬ clean_means_file_is_text_without_freshness_full :=
  Lemmas.C02d.without_freshness_false

/-- the corrected statement is `editor_clean_means_file_is_text`; in session 1 its hypothesis "fresh"
    fails for the buffer in slot 1: it recorded -1, the file carries 1002 -/
theorem session1_slot1_is_stale :
    ∃ rc ed1 ed b, exInit { input := script1 } [] = some (rc, ed1) ∧ C02.Ex.exRun 4 ed1 = some ed ∧
      ed.bufs.getD 1 none = some b ∧ (modified b.lb).1 = false ∧ ed.mtimeOf b.path ≠ b.mtime :=
  Lemmas.C02d.session1_slot1_is_stale

/-- **a forced write over a file another buffer of the table is attached to** (session 2: `vi p`;
    `:a` / `x` / `.`; `:w`; `:e r`; `:w! p`; `q`): before the `q`, buffer `p` (slot 1) reports clean with the
    text `x\n` it saved, the file `p` is empty, and the buffer is stale (1002 against 1003).  Then `q`
    quits (return code 0, quit flag set), the files are as they were and the table holds the same (path,
    text) pairs: the text `x\n` is in no file.  This is what the user asked for with `!`; without `!` the
    write is refused (`C03.foreign_refused`). -/
theorem forced_write_over_open_buffer :
    ∃ rc ed1 ed b fl ed', exInit { input := script2 } [[112]] = some (rc, ed1) ∧ C02.Ex.exRun 4 ed1 = some ed ∧
      ed.xquit = false ∧ ed.input = [[113]] ∧
      ed.bufs.getD 1 none = some b ∧ b.path = [112] ∧ b.lb.lines = [[120, 10]] ∧ (modified b.lb).1 = false ∧
      ed.findFile [112] = some fl ∧ fl.data = [] ∧ ed.mtimeOf b.path ≠ b.mtime ∧
      exStep ed = some (0, ed') ∧ ed'.xquit = true ∧ ed'.files = ed.files ∧
      (ed'.bufs.map bufKey).Perm (ed.bufs.map bufKey) :=
  Lemmas.C02d.forced_write_over_open_buffer

/-- the statement one would like for a buffer whose file does not exist: clean, named, fresh, no file ⇒
    the text is empty -/
def clean_means_empty_when_file_missing_full : Prop :=
  ∀ (ed0 : Ed) (files : List Bytes) (n : Nat) (rc : Int) (ed1 ed : Ed),
    ed0.bufs = List.replicate Gen.NBUFS none → FsOk ed0.files ed0.clock →
    exInit ed0 files = some (rc, ed1) → C02.Ex.exRun n ed1 = some ed →
    ∀ i b, ed.bufs.getD i none = some b → (modified b.lb).1 = false → b.path ≠ [] →
      ed.mtimeOf b.path = b.mtime → ed.findFile b.path = none → b.lb.lines = []

/-- **FALSE**, by session 3 — `vi p` (no such file); `:a` / `x` / `.`; `:e!` — : `ec_edit` without a path
    re-reads the file of the current buffer if `open` succeeds, and calls `lbuf_saved` in any case.  With
    no file the text `x\n` stays and is marked saved. -/
theorem clean_invariant_for_missing_files_is_false : ¬ clean_means_empty_when_file_missing_full :=
  Lemmas.C02d.missing_files_false

/-- … and the `q` that follows quits: the text `x\n` of session 3 is discarded with no file written,
    after the user's `:e!` -/
theorem reload_of_missing_file_then_quit :
    ∃ rc ed1 ed b ed', exInit { input := script3 } [[112]] = some (rc, ed1) ∧ C02.Ex.exRun 2 ed1 = some ed ∧
      ed.xquit = false ∧ ed.input = [[113]] ∧
      ed.bufs.getD 0 none = some b ∧ b.path = [112] ∧ b.lb.lines = [[120, 10]] ∧ (modified b.lb).1 = false ∧
      ed.files = [] ∧ exStep ed = some (0, ed') ∧ ed'.xquit = true ∧ ed'.files = [] :=
  Lemmas.C02d.reload_of_missing_file_then_quit

/-- the main statement without the hypothesis on the initial time stamps -/
def clean_means_file_is_text_without_fsOk_full : Prop :=
  ∀ (ed0 : Ed) (files : List Bytes) (n : Nat) (rc : Int) (ed1 ed : Ed),
    ed0.bufs = List.replicate Gen.NBUFS none →
    exInit ed0 files = some (rc, ed1) → C02.Ex.exRun n ed1 = some ed →
    ∀ i b, ed.bufs.getD i none = some b → (modified b.lb).1 = false → b.path ≠ [] →
      ed.mtimeOf b.path = b.mtime → ∀ fl, ed.findFile b.path = some fl → FileIs fl.data b.lb.lines

/-- **FALSE**, by session 7: the file `p` is stamped 1001 while the clock stands at 1000; `vi p`; `:e r`;
    `:w! p`.  The forced write of the empty buffer stamps the file with clock + 1 = 1001, the very stamp
    buffer `p` recorded: `p` looks fresh, is clean, has the text `a\n`, and the file is empty.  Hence the
    hypothesis `FsOk` (no file stamped beyond the clock) in `editor_files_invariant`. -/
theorem clean_invariant_without_fsOk_is_false : ¬ clean_means_file_is_text_without_fsOk_full :=
  Lemmas.C02d.without_fsOk_false

/-! ## 6. quitting without `!` -/

/-- `SavedAt ed b`, spelled out -/
theorem savedAt_iff (ed : Ed) (b : Buf) :
    SavedAt ed b ↔
      (((modified b.lb).1 = false ∧
        (b.path ≠ [] → ed.mtimeOf b.path = b.mtime → ∀ fl, ed.findFile b.path = some fl → FileIs fl.data b.lb.lines)) ∨
       (∃ fl, ed.findFile b.path = some fl ∧ fl.data = b.lb.lines.flatten)) := Iff.rfl

/-- **a quit command without `!` that quits leaves nothing unsaved in the table**: any command word of
    `ec_quit` without `!` (`q`, `wq`, `x`, `xa`), any address and argument, from a state that satisfies the
    invariant and has the quit flag clear.  If the flag is set afterwards then the invariant still holds
    and every buffer of the table — current or parked — is `SavedAt`: it reports clean and, if named, fresh
    and with an existing file, that file holds its text; or this command wrote it (`autowrite`, `:xa`) and
    its file holds its text byte for byte. -/
theorem quit_saved (f : Nat) (ed ed' : Ed) (loc cmd arg : Bytes) (txt : Option Bytes) (rc : Int)
    (hi : Inv ed) (hbang : hasBang cmd = false) (hq0 : ed.xquit = false)
    (h : runCmd (f + 1) ed "ec_quit" loc cmd arg txt = some (rc, ed')) (hq : ed'.xquit = true) :
    Inv ed' ∧ ∀ j b, ed'.bufs.getD j none = some b → SavedAt ed' b :=
  Lemmas.C02d.quit_saved f ed ed' loc cmd arg txt rc hi hbang hq0 h hq

-- the hypotheses of `quit_saved` are met by `:q` in the one-buffer editor `edOne` (its buffer is clean)
example : ∃ ed', Inv edOne ∧ hasBang [113] = false ∧ edOne.xquit = false ∧
    runCmd 2 edOne "ec_quit" [] [113] [] none = some (0, ed') ∧ ed'.xquit = true ∧
    ∀ j b, ed'.bufs.getD j none = some b → SavedAt ed' b := by
  have hinv : Inv edOne := by
    refine ⟨fsOk_default, fun b hb => ?_⟩
    have : b = { path := [102], lb := Lbuf.make } := by
      simp only [edOne, List.cons_append, List.nil_append, List.mem_cons, Option.some.injEq, List.mem_replicate,
        reduceCtorEq, and_false, or_false] at hb
      exact hb
    subst this
    exact bufOk_fresh fsOk_default _ rfl rfl
  obtain ⟨e1, hr, _⟩ := C02.Ex.quit_allowed_when_clean 1 edOne [] [113] [] none (by decide) (by decide) (by decide)
    (by decide) (allClean_spec (by decide))
  exact ⟨_, hinv, by decide, rfl, hr, rfl, (quit_saved 1 edOne _ [] [113] [] none 0 hinv (by decide) rfl hr rfl).2⟩

/-- **the final `q` of a script**: one round of the `ex()` loop whose line is `q` (or `wq`, `x`, `xa`) -/
theorem final_q_saved (ed ed' : Ed) (r : Int) (ln : Bytes) (rest : List Bytes) (hi : Inv ed)
    (hq0 : ed.xquit = false) (hin : ed.input = ln :: rest) (hln : ln ∈ quitWords)
    (h : exStep ed = some (r, ed')) (hq : ed'.xquit = true) :
    ∀ j b, ed'.bufs.getD j none = some b → SavedAt ed' b :=
  exStep_quit_saved ed ed' r ln rest hi hq0 hin hln h hq

/-- **for every script**: start the editor on any files over any file system with sane stamps, run any
    number of rounds of the `ex()` loop over any input; if the next line is `q` (`wq`, `x`, `xa`) and it makes
    the editor quit, every buffer of the table is `SavedAt` — nothing unsaved is discarded by that quit -/
theorem script_final_q_saved (ed0 : Ed) (files : List Bytes) (n : Nat) (rc : Int) (ed1 ed ed' : Ed) (r : Int)
    (ln : Bytes) (rest : List Bytes)
    (h0 : ed0.bufs = List.replicate Gen.NBUFS none) (hfs : FsOk ed0.files ed0.clock)
    (hinit : exInit ed0 files = some (rc, ed1)) (hrun : C02.Ex.exRun n ed1 = some ed)
    (hq0 : ed.xquit = false) (hin : ed.input = ln :: rest) (hln : ln ∈ quitWords)
    (h : exStep ed = some (r, ed')) (hq : ed'.xquit = true) :
    ∀ j b, ed'.bufs.getD j none = some b → SavedAt ed' b :=
  final_q_saved ed ed' r ln rest (editor_files_invariant ed0 files n rc ed1 ed h0 hfs hinit hrun) hq0 hin hln h hq

/-- `q`, `wq`, `x`, `xa` as byte strings -/
theorem quitWords_eq : quitWords = [strOf "q", strOf "wq", strOf "x", strOf "xa"] := by decide +kernel

-- session 4 (`vi p`, `:a x .`, `:w`, then `q`): the hypotheses of `script_final_q_saved` are all met — the
-- `q` does quit — and so every buffer of the final table is `SavedAt`
example : ∃ rc ed1 ed ed', exInit { input := script4 } [[112]] = some (rc, ed1) ∧ C02.Ex.exRun 2 ed1 = some ed ∧
    ed.xquit = false ∧ ed.input = [113] :: [] ∧ [113] ∈ quitWords ∧ exStep ed = some (0, ed') ∧ ed'.xquit = true ∧
    ∀ j b, ed'.bufs.getD j none = some b → SavedAt ed' b := by
  obtain ⟨rc, ed1, ed, b, fl, h1, h2, hq, hin, hcl, _⟩ := session4
  obtain ⟨ed', hs, hq', _, _⟩ := q_quits_when_all_clean ed [] hin hcl
  exact ⟨rc, ed1, ed, ed', h1, h2, hq, hin, by decide, hs, hq',
    script_final_q_saved _ _ _ _ _ _ _ _ _ _ rfl fsOk_default h1 h2 hq hin (by decide) hs hq'⟩

end Neatvi.Props.C02d
