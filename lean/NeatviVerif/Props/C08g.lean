import NeatviVerif.Lemmas.C08gR
import NeatviVerif.Props.C08d
/-!
# C08g: change, put, join, case, replace, shift — from the keys to the text

`Props/C08f.lean` follows the delete and yank operators from the key the user types to the text.  This file does
the same for the other editing commands, whose operator-level specifications are in `Props/C08.lean`, `C08b`,
`C08d`, `C08e`: the change family, `p` / `P`, `J`, `~` and `g~ gu gU`, `r`, `>` / `<`; and it closes the loop of
`vi()` around them (`viPre`, `commandTail`, `viPost`) for the round trips `yyp`, `ddP`, `xp`, `dwP`.

Three levels, each built on the one before:

1. **`vc_motion`** (§1–§3), as in C08f: `s` is the state when `vc_motion` starts (the operator letter has been read),
   `Prefixed s a2 k s1` reads the second count `a2` and the motion key `k`, the count is `opCount s a2`.
   * §1 `Lands`: a motion from character `o` of the cursor row to character `t` of the same row, one lemma per motion
     (`lands_spc lands_bs lands_dollar lands_zero lands_e lands_w lands_l lands_h lands_f lands_t`); the generic
     theorems `row_change`, `row_case` (any such motion), `line_change`, `line_shift` (any line motion);
   * §2 the change family by name: `cw_spec ce_spec c_dollar_spec c_spc_spec cl_spec c0_spec cfc_spec ctc_spec`,
     `cc_spec cj_spec ck_spec`;
   * §3 `~ g~ gu gU` (`case_spc_spec case_w_spec case_e_spec case_dollar_spec case_zero_spec`), `>> << >j >k`
     (`shift_dbl_spec shift_j_spec shift_k_spec`), and `vc_put` made total (`vcPut_chars_p`, `vcPut_chars_P`,
     `vcPut_chars_emptyline`, `vcPut_lines_p`, `vcPut_lines_P`, `vcPut_empty`).
2. **the dispatcher `commandTail`** (§4–§6).  `viRead s = Res.ok c s1`: the command key `c` is read — typed at the
   terminal (`typed_key`) or, as in the loop of `vi()`, pushed back by `viPre` (`pushed_key`) —; `s1` is the state once
   it has been read: `s1.arg1` is the count, `s1.ybuf` the register prefix, nothing is pushed back, the rest of the
   command is pending.  The conclusion is `commandTail s = finRec c k m s'`: `finRec` (C09) records the command for `.`;
   `s'` is described relative to `s1`.
   * §4 `commandTail_op` (the dispatcher on an operator key; the other keys: `Lemmas/C08gE.lean`), `keys_op`,
     `keys_short`, `keys_g`;
   * §5 the change family from the keys: `cw_keys ce_keys c_dollar_keys C_keys s_keys cl_keys c0_keys cfc_keys ctc_keys`,
     `cc_keys S_keys cj_keys ck_keys`;
   * §6 `p_chars_keys P_chars_keys p_lines_keys P_lines_keys`, with a named or numbered register `put_chars_reg_keys`
     `put_lines_reg_keys` (`regGetLn_name`), `J_keys`, `tilde_keys`,
     `g_case_w_keys g_case_dollar_keys`, `r_keys`, `shift_dbl_keys shift_j_keys`.
3. **whole iterations `viStep`** (§7–§8), for commands typed without count or register prefix, from an `Idle` state:
   `viPre_cmd`, `viPost_spec`, `viStep_via`; `yy_step dd_step x_step dw_step put_chars_step put_lines_step`,
   `cw_step Cs_step cc_step`; the round trips `yyp_steps ddP_steps xp_steps dwP_steps`.

§9: conjectures that turned out false (`cw` is not `ce`; `cl` is not `s` on the last character; `ddP` on the last line
does not restore the text), and concrete runs.

The typed text of the change commands is one line: `TypedText K cs` — the keys `K` type the code points `cs` (valid,
no newline, not empty, not starting with a blank) and leave insert mode; `typedText_plain`: plain text and ESC.

All statements are about the model (`Model/Vi.lean`, `Model/ViCmd.lean`); every command is shown to return
(`Res.ok`, no trap) under the stated hypotheses.
-/
set_option linter.unusedSimpArgs false
set_option linter.unusedVariables false

namespace Neatvi.Props.C08g
open Neatvi Neatvi.Uc Neatvi.Vi Neatvi.Ex Neatvi.Lbuf Neatvi.Mot Neatvi.Spec
open Neatvi.Lemmas.C08 Neatvi.Lemmas.C08b Neatvi.Lemmas.C08f
open Neatvi.Lemmas.C09 (finRec pending)
open Neatvi.Props.C07c (Utf8Buf refBufU)
open Neatvi.Props.C08f

export Neatvi.Lemmas.C08g (Lands RowChanged LineChanged RowCased LineShifted PutChars PutLines Joined RowReplaced
  TypedText KeysMark KeysDone isShort isCmdKey preSt cmdSt Idle Settled StepDone RowIs CmdStart copies cnt1 wfixRow wfixOff
  PostFrame edk)

/-! ## 0. the vocabulary -/

/-- what `Lands` says: after the second count the key `k` is read; it is neither an operator letter nor a line
motion; `vi_motion` from character `o` of the cursor row answers the motion `mv > 0` and the target `(same row, t)`,
`t ≤ |body|`, in the state `sm`, which has the editor record, the register prefix and the keymap of `s` -/
theorem lands_iff (s s1 sm : VS) (a2 k mv : Int) (body : List Nat) (o t : Nat) : Lands s s1 sm a2 k mv body o t ↔
    Prefixed s a2 k s1 ∧
    (k ≠ 99 ∧ k ≠ 100 ∧ k ≠ 121 ∧ k ≠ 126 ∧ k ≠ 117 ∧ k ≠ 85 ∧ k ≠ 62 ∧ k ≠ 60 ∧ isLnKey 0 k = false) ∧
    viMotion s.ed.xrow o (motionSt a2 s1 k) = Res.ok (mv, s.ed.xrow, (t : Int)) sm ∧ 0 < mv ∧
    sm.ed = s.ed ∧ sm.ybuf = s.ybuf ∧ sm.xkmap = s.xkmap ∧ t ≤ body.length :=
  ⟨fun h => ⟨h.pre, h.key, h.motion, h.pos, h.ed, h.ybuf, h.xkmap, h.le⟩,
   fun h => ⟨h.1, h.2.1, h.2.2.1, h.2.2.2.1, h.2.2.2.2.1, h.2.2.2.2.2.1, h.2.2.2.2.2.2.1, h.2.2.2.2.2.2.2⟩⟩

/-- what `TypedText` says -/
theorem typedText_iff (K : Bytes) (cs : List Nat) : TypedText K cs ↔
    Inputs K cs ∧ (∀ c ∈ cs, ValidCp c) ∧ 10 ∉ cs ∧ (cs.head? ≠ none ∧ cs.head? ≠ some 32 ∧ cs.head? ≠ some 9) :=
  ⟨fun h => ⟨h.inputs, h.valid, h.no10, h.head⟩, fun h => ⟨h.1, h.2.1, h.2.2.1, h.2.2.2⟩⟩

/-- what `RowChanged` says: the characters `[a, b)` of the row `r` (line `body`) were replaced by `cs`; the register
named by the prefix received them in character mode; the cursor is on the last typed character; apart from the editor
record the state is `sm` (the state after the motion) with the keys `K` of the insertion read (`ReadsEd`, C08b) -/
theorem rowChanged_iff (K : Bytes) (s sm s' : VS) (r : Int) (body cs : List Nat) (a b : Nat) : RowChanged K s sm s' r body cs a b ↔
    lines s' = (lines s).take r.toNat ++ [encStr (body.take a ++ cs ++ body.drop b ++ [10])] ++ (lines s).drop (r.toNat + 1) ∧
    s'.ed.regs = s.ed.regs.put s.ybuf (encStr ((body.take b).drop a)) 0 ∧
    s'.ed.xrow = r ∧ s'.ed.xoff = (a : Int) + cs.length - 1 ∧ ReadsEd K sm s' :=
  ⟨fun h => ⟨h.lines, h.regs, h.xrow, h.xoff, h.frame⟩, fun h => ⟨h.1, h.2.1, h.2.2.1, h.2.2.2.1, h.2.2.2.2⟩⟩

/-- what `LineChanged` says: the rows `lo..hi` (the first of them `body`) were replaced by the one row
`indentation of body ++ cs`; the register received the rows in line mode; the cursor is on the last typed character -/
theorem lineChanged_iff (K : Bytes) (s sm s' : VS) (lo hi : Int) (body cs : List Nat) : LineChanged K s sm s' lo hi body cs ↔
    lines s' = (lines s).take lo.toNat ++ [encStr (indentOf s body ++ cs ++ [10])] ++ (lines s).drop (hi.toNat + 1) ∧
    s'.ed.regs = s.ed.regs.put s.ybuf (((lines s).drop lo.toNat).take (hi.toNat - lo.toNat + 1)).flatten 1 ∧
    s'.ed.xrow = lo ∧ s'.ed.xoff = ((indentOf s body).length : Int) + cs.length - 1 ∧ ReadsEd K sm s' :=
  ⟨fun h => ⟨h.lines, h.regs, h.xrow, h.xoff, h.frame⟩, fun h => ⟨h.1, h.2.1, h.2.2.1, h.2.2.2.1, h.2.2.2.2⟩⟩

/-- the indentation a line-wise change keeps: the leading blanks of the line with `autoindent`, none without -/
theorem indentOf_eq (s : VS) (body : List Nat) : indentOf s body = if s.xai then body.takeWhile isBlankC else [] := rfl

/-- what `RowCased` says -/
theorem rowCased_iff (cmd : Nat) (s sm s' : VS) (r : Int) (body : List Nat) (a b : Nat) : RowCased cmd s sm s' r body a b ↔
    lines s' = (lines s).take r.toNat ++
      [encStr (body.take a ++ ((body.take b).drop a).map (caseCp cmd) ++ (body.drop b ++ [10]))] ++ (lines s).drop (r.toNat + 1) ∧
    s'.ed.regs = s.ed.regs ∧ s'.ed.xrow = r ∧ s'.ed.xoff = (b : Int) ∧ s' = { sm with ed := s'.ed } :=
  ⟨fun h => ⟨h.lines, h.regs, h.xrow, h.xoff, h.frame⟩, fun h => ⟨h.1, h.2.1, h.2.2.1, h.2.2.2.1, h.2.2.2.2⟩⟩

/-- what `LineShifted` says -/
theorem lineShifted_iff (dir : Int) (s sm s' : VS) (lo hi : Int) : LineShifted dir s sm s' lo hi ↔
    lines s' = (lines s).take lo.toNat ++
      (((lines s).drop lo.toNat).take (hi.toNat - lo.toNat + 1)).map (shiftLine dir) ++ (lines s).drop (hi.toNat + 1) ∧
    s'.ed.regs = s.ed.regs ∧ s'.ed.xrow = lo ∧ s'.ed.xoff = Mot.indents (lines s') lo ∧ s' = { sm with ed := s'.ed } :=
  ⟨fun h => ⟨h.lines, h.regs, h.xrow, h.xoff, h.frame⟩, fun h => ⟨h.1, h.2.1, h.2.2.1, h.2.2.2.1, h.2.2.2.2⟩⟩

/-- what `PutChars` says: the text `ins` was inserted before character `p` of the row `r` (line `body`); the cursor is
on the last inserted character; the registers are untouched -/
theorem putChars_iff (s s' : VS) (r : Int) (body ins : List Nat) (p : Nat) : PutChars s s' r body ins p ↔
    lines s' = (lines s).take r.toNat ++ [encStr (body.take p ++ ins ++ body.drop p ++ [10])] ++ (lines s).drop (r.toNat + 1) ∧
    s'.ed.regs = s.ed.regs ∧ s'.ed.xrow = r ∧ s'.ed.xoff = (p : Int) + ins.length - 1 :=
  ⟨fun h => ⟨h.lines, h.regs, h.xrow, h.xoff⟩, fun h => ⟨h.1, h.2.1, h.2.2.1, h.2.2.2⟩⟩

/-- what `PutLines` says: the lines `new` were inserted before the row `r`; the cursor is on the first non-blank of
the first of them; the registers are untouched -/
theorem putLines_iff (s s' : VS) (r : Int) (new : List Bytes) : PutLines s s' r new ↔
    lines s' = (lines s).take r.toNat ++ new ++ (lines s).drop r.toNat ∧
    s'.ed.regs = s.ed.regs ∧ s'.ed.xrow = r ∧ s'.ed.xoff = Mot.indents (lines s') r :=
  ⟨fun h => ⟨h.lines, h.regs, h.xrow, h.xoff⟩, fun h => ⟨h.1, h.2.1, h.2.2.1, h.2.2.2⟩⟩

/-- `copies n l`: `n` copies of `l`, one after the other; `cnt1 s = max 1 count` -/
theorem copies_eq {α : Type} (n : Nat) (l : List α) : copies n l = (List.replicate n l).flatten := rfl
theorem cnt1_eq (s : VS) : cnt1 s = (max 1 s.arg1).toNat := rfl

/-- what `Joined` says -/
theorem joined_iff (s s' : VS) (a : Bytes) (ws : List Bytes) : Joined s s' a ws ↔
    lines s' = (lines s).take s.ed.xrow.toNat ++ [joinRows a ws ++ [10]] ++ (lines s).drop (s.ed.xrow.toNat + (ws.length + 1)) ∧
    s'.ed.regs = s.ed.regs ∧ s'.ed.xrow = s.ed.xrow ∧ s'.ed.xoff = joinOff a ws 0 :=
  ⟨fun h => ⟨h.lines, h.regs, h.xrow, h.xoff⟩, fun h => ⟨h.1, h.2.1, h.2.2.1, h.2.2.2⟩⟩

/-- what `RowReplaced` says -/
theorem rowReplaced_iff (s s' : VS) (body : List Nat) (o n c : Nat) : RowReplaced s s' body o n c ↔
    lines s' = (lines s).take s.ed.xrow.toNat ++
      [encStr (body.take o ++ List.replicate n c ++ (body.drop (o + n) ++ [10]))] ++ (lines s).drop (s.ed.xrow.toNat + 1) ∧
    s'.ed.regs = s.ed.regs ∧ s'.ed.xrow = s.ed.xrow ∧ s'.ed.xoff = (o : Int) + n - 1 :=
  ⟨fun h => ⟨h.lines, h.regs, h.xrow, h.xoff⟩, fun h => ⟨h.1, h.2.1, h.2.2.1, h.2.2.2⟩⟩

/-- what `KeysMark` says: `sm` is `s` after the keys `ks` were read from the terminal and the mark `^` was set: the
key queues moved on, `icmd` recorded the keys, the marks of the buffer may differ; nothing else does -/
theorem keysMark_iff (ks : Bytes) (s sm : VS) : KeysMark ks s sm ↔
    (∃ ib ip ty, sm =
      { s with ibuf := ib, ibufPos := ip, typed := ty, icmd := icmdAfterL s.icmd ks, ed := { s.ed with bufs := sm.ed.bufs } }) ∧
    lines sm = lines s :=
  ⟨fun h => ⟨h.eq, h.lines⟩, fun h => ⟨h.1, h.2⟩⟩

/-- what `KeysDone` says: the queue side of a command that read the keys `ks` after its command key: nothing is left
pushed back, `icmd` recorded the keys (this is what `finRec` stores for `.`), the first count and the register
prefix are untouched -/
theorem keysDone_iff (ks : Bytes) (s s' : VS) : KeysDone ks s s' ↔
    s'.vibuf = [] ∧ s'.icmd = icmdAfterL s.icmd ks ∧ s'.arg1 = s.arg1 ∧ s'.ybuf = s.ybuf :=
  ⟨fun h => ⟨h.vibuf, h.icmd, h.arg1, h.ybuf⟩, fun h => ⟨h.1, h.2.1, h.2.2.1, h.2.2.2⟩⟩

/-- what `Idle` says: the state between two commands — nothing pushed back, the editor not quitting, at most one line
of output waiting (so `vi_wait()` does not prompt) -/
theorem idle_iff (s : VS) : Idle s ↔ s.vibuf = [] ∧ s.ed.xquit = false ∧ nlCount s.ed.out ≤ 1 :=
  ⟨fun h => ⟨h.vibuf, h.xquit, h.out⟩, fun h => ⟨h.1, h.2.1, h.2.2⟩⟩

/-- the state straight after `ex_init` / `viInit` is idle when nothing was printed -/
example : Idle (Props.C08b.exSt [120] 0 0) := ⟨rfl, rfl, by decide⟩

/-- what `Settled` says: what `finRec` and `viPost` do to the state `s'` a command left — the cursor is settled by the
window fix (`wfixRow`, `wfixOff`), the output is shown, the command is recorded in register `.` (when repeatable);
the text, the other registers, the key queues, the keymap, `autoindent`, the text direction are as in `s'` -/
theorem settled_iff (s' s'' : VS) : Settled s' s'' ↔
    lines s'' = lines s' ∧ s''.ed.xrow = wfixRow s' ∧ s''.ed.xoff = wfixOff s' ∧ s''.vibuf = s'.vibuf ∧
    pending s'' = pending s' ∧ s''.ed.xquit = false ∧ s''.ed.out = [] ∧ s''.xkmap = s'.xkmap ∧ s''.xai = s'.xai ∧
    s''.ed.xtd = s'.ed.xtd ∧ (RegsWf s'.ed.regs → RegsWf s''.ed.regs) ∧
    (RegsWf s'.ed.regs → ∀ d, d ≠ 46 → s''.ed.regs.getRaw d = s'.ed.regs.getRaw d) :=
  ⟨fun h => ⟨h.lines, h.xrow, h.xoff, h.vibuf, h.pending, h.xquit, h.out, h.xkmap, h.xai, h.xtd, h.wf, h.regs⟩,
   fun h => ⟨h.1, h.2.1, h.2.2.1, h.2.2.2.1, h.2.2.2.2.1, h.2.2.2.2.2.1, h.2.2.2.2.2.2.1, h.2.2.2.2.2.2.2.1,
     h.2.2.2.2.2.2.2.2.1, h.2.2.2.2.2.2.2.2.2.1, h.2.2.2.2.2.2.2.2.2.2.1, h.2.2.2.2.2.2.2.2.2.2.2⟩⟩

/-- the row and the offset `vi_wfix()` settles on: a row outside the buffer goes to the last line; the offset is
`ren_noeol` of the line -/
theorem wfixRow_eq (s : VS) : wfixRow s =
    if s.ed.xrow < 0 || s.ed.xrow ≥ lenOf s then (if lenOf s != 0 then lenOf s - 1 else 0) else s.ed.xrow := rfl
theorem wfixOff_eq (s : VS) : wfixOff s =
    match lineOf s (wfixRow s) with | some l => Ren.renNoeol l s.ed.xoff | none => Ren.renNoeol [] s.ed.xoff := rfl

/-- what `StepDone` says: the iteration that started in `s` returned in `s''`, idle again, the registers well formed,
the keys `rest` still to come; the keymap, `autoindent` and the text direction are untouched -/
theorem stepDone_iff (s s'' : VS) (rest : Bytes) : StepDone s s'' rest ↔
    Idle s'' ∧ RegsWf s''.ed.regs ∧ pending s'' = rest ∧ s''.xkmap = s.xkmap ∧ s''.xai = s.xai ∧ s''.ed.xtd = s.ed.xtd :=
  ⟨fun h => ⟨h.idle, h.wf, h.pending, h.xkmap, h.xai, h.xtd⟩, fun h => ⟨h.1, h.2.1, h.2.2.1, h.2.2.2.1, h.2.2.2.2.1, h.2.2.2.2.2⟩⟩

/-- `RowIs s s'' body'`: the cursor row of `s` now holds `body'`, the other rows are as they were -/
theorem rowIs_iff (s s'' : VS) (body' : List Nat) : RowIs s s'' body' ↔
    lines s'' = (lines s).take s.ed.xrow.toNat ++ [encStr (body' ++ [10])] ++ (lines s).drop (s.ed.xrow.toNat + 1) := Iff.rfl

/-- what `CmdStart` says: `sm` is the state in which the command function runs when the iteration started in `s` with a
plain command key: the text, the cursor, the registers are those of `s` (the marks may differ); no count, no register
prefix -/
theorem cmdStart_iff (s sm : VS) : CmdStart s sm ↔
    sm.ed = { s.ed with bufs := sm.ed.bufs } ∧ lines sm = lines s ∧ sm.arg1 = 0 ∧ sm.ybuf = 0 ∧ sm.xkmap = s.xkmap ∧
    sm.xai = s.xai :=
  ⟨fun h => ⟨h.ed, h.lines, h.arg1, h.ybuf, h.xkmap, h.xai⟩, fun h => ⟨h.1, h.2.1, h.2.2.1, h.2.2.2.1, h.2.2.2.2.1, h.2.2.2.2.2⟩⟩

/-- what `PostFrame` says: what `viPost` does to a state — the window fix moved the cursor to `(wfixRow, wfixOff)`; the
sticky column, the window, the output buffer and the counters of the buffer may differ; nothing else does -/
theorem postFrame_iff (s s' : VS) : PostFrame s s' ↔
    (∃ xc xt xl B, s' =
      { s with xcol := xc, ed := { s.ed with xrow := wfixRow s, xoff := wfixOff s, xtop := xt, xleft := xl, out := [], bufs := B } }) ∧
    lines s' = lines s :=
  ⟨fun h => ⟨h.eq, h.lines⟩, fun h => ⟨h.1, h.2⟩⟩

/-- the state `viPre` leaves when the plain command key `c` was typed (`preSt`), and that state once the dispatcher has
read the key back from the push-back stack (`cmdSt`): the counts and the register prefix are clear, `icmd` holds the key -/
theorem preSt_eq (s : VS) (c : Nat) (ib : Bytes) (ip : Nat) (ty : Bytes) : preSt s c ib ip ty =
    { s with ibuf := ib, ibufPos := ip, typed := ty, icmd := [c], arg1 := 0, arg2 := 0, ybuf := 0, vibuf := [(c : Int)] } := rfl
theorem cmdSt_eq (s : VS) (c : Nat) (ib : Bytes) (ip : Nat) (ty : Bytes) : cmdSt s c ib ip ty =
    { s with ibuf := ib, ibufPos := ip, typed := ty, icmd := [c], arg1 := 0, arg2 := 0, ybuf := 0, vibuf := [] } := rfl

/-- the command keys of this file: `c d y > < p P J r ~ g x X D C s S Y` -/
theorem isCmdKey_iff (c : Nat) : isCmdKey c ↔
    c = 99 ∨ c = 100 ∨ c = 121 ∨ c = 62 ∨ c = 60 ∨ c = 112 ∨ c = 80 ∨ c = 74 ∨ c = 114 ∨ c = 126 ∨ c = 103 ∨ c = 120 ∨
    c = 88 ∨ c = 68 ∨ c = 67 ∨ c = 115 ∨ c = 83 ∨ c = 89 := Iff.rfl

/-- the shorthands: the key `c` stands for the operator `op` with the motion key `k` — `x` = `d SPC`, `X` = `d BS`,
`D` = `d$`, `C` = `c$`, `s` = `c SPC`, `S` = `cc`, `Y` = `yy`, `~` = `g~ SPC` -/
theorem isShort_iff (c op : Nat) (k : Int) : isShort c op k ↔
    (c = 120 ∧ op = 100 ∧ k = 32) ∨ (c = 88 ∧ op = 100 ∧ k = 8) ∨ (c = 68 ∧ op = 100 ∧ k = 36) ∨
    (c = 67 ∧ op = 99 ∧ k = 36) ∨ (c = 115 ∧ op = 99 ∧ k = 32) ∨ (c = 83 ∧ op = 99 ∧ k = 99) ∨
    (c = 89 ∧ op = 121 ∧ k = 121) ∨ (c = 126 ∧ op = 126 ∧ k = 32) := Iff.rfl

/-- the fields of the editor record the end of an iteration looks at -/
theorem edk_eq (s : VS) : edk s = (s.ed.xquit, s.ed.out, s.ed.xtd) := rfl

/-! ## 1. motions that land on the cursor row; the generic theorems

The cursor is on character `o` of the row `r = s.ed.xrow`, whose line is `encStr (body ++ [10])` (`OnRow`, C08f). -/

/-- the motion `SPC` with the count `c`: to `min (o + c) |body|` -/
theorem lands_spc (s s1 : VS) (a2 : Int) (body : List Nat) (o : Nat) (hk : Prefixed s a2 32 s1)
    (hrow : OnRow s body o) :
    Lands s s1 (setArg2 a2 s1) a2 32 32 body o (min (o + (opCount s a2).toNat) body.length) :=
  Lemmas.C08g.lands_spc s s1 a2 body o hk hrow

/-- `BS` with the count `c`: to `o - c` -/
theorem lands_bs (s s1 : VS) (a2 : Int) (body : List Nat) (o : Nat) (hk : Prefixed s a2 8 s1) (hrow : OnRow s body o) :
    Lands s s1 (setArg2 a2 s1) a2 8 8 body o (o - (opCount s a2).toNat) :=
  Lemmas.C08g.lands_bs s s1 a2 body o hk hrow

/-- `$`: to the newline -/
theorem lands_dollar (s s1 : VS) (a2 : Int) (body : List Nat) (o : Nat) (hk : Prefixed s a2 36 s1)
    (hrow : OnRow s body o) :
    Lands s s1 (setArg2 a2 s1) a2 36 36 body o body.length :=
  Lemmas.C08g.lands_dollar s s1 a2 body o hk hrow

/-- `0`: to the first character -/
theorem lands_zero (s s1 : VS) (a2 : Int) (body : List Nat) (o : Nat) (hk : Prefixed s a2 48 s1) :
    Lands s s1 (setArg2 a2 s1) a2 48 48 body o 0 :=
  Lemmas.C08g.lands_zero s s1 a2 body o hk

/-- `e` with the count: to the reference target, when that is on the row -/
theorem lands_e (s s1 : VS) (a2 : Int) (body : List Nat) (o t : Nat) (hk : Prefixed s a2 101 s1)
    (hrow : OnRow s body o) (hu : Utf8Buf (lines s))
    (href : Motion.wordEndFwdRaw false (refBufU (lines s)) ⟨s.ed.xrow.toNat, o⟩ (opCount s a2).toNat = ⟨s.ed.xrow.toNat, t⟩) :
    Lands s s1 (setArg2 a2 s1) a2 101 101 body o t :=
  Lemmas.C08g.lands_e s s1 a2 body o t hk hrow hu href

/-- `w` with the count: to the reference target, when that is on the row -/
theorem lands_w (s s1 : VS) (a2 : Int) (body : List Nat) (o t : Nat) (hk : Prefixed s a2 119 s1)
    (hrow : OnRow s body o) (hu : Utf8Buf (lines s))
    (href : Motion.wordFwdRaw false (refBufU (lines s)) ⟨s.ed.xrow.toNat, o⟩ (opCount s a2).toNat = ⟨s.ed.xrow.toNat, t⟩) :
    Lands s s1 (setArg2 a2 s1) a2 119 119 body o t :=
  Lemmas.C08g.lands_w s s1 a2 body o t hk hrow hu href

/-- `l` with the count on a row displayed left to right: to `min (o + c) (|body| - 1)` -/
theorem lands_l (s s1 : VS) (a2 : Int) (body : List Nat) (o : Nat) (hk : Prefixed s a2 108 s1) (hrow : OnRow s body o)
    (hltr : LeftToRight s body) :
    Lands s s1 (setArg2 a2 s1) a2 108 108 body o (min (o + (opCount s a2).toNat) (body.length - 1)) :=
  Lemmas.C08g.lands_l s s1 a2 body o hk hrow hltr

/-- `h` with the count on such a row: to `o - c` -/
theorem lands_h (s s1 : VS) (a2 : Int) (body : List Nat) (o : Nat) (hk : Prefixed s a2 104 s1) (hrow : OnRow s body o)
    (hltr : LeftToRight s body) :
    Lands s s1 (setArg2 a2 s1) a2 104 104 body o (o - (opCount s a2).toNat) :=
  Lemmas.C08g.lands_h s s1 a2 body o hk hrow hltr

/-- `f c` with the count: to the `n`-th `c` to the right of the cursor, when there is one -/
theorem lands_f (s s1 : VS) (a2 : Int) (body : List Nat) (o c : Nat) (rest : Bytes) (hk : Prefixed s a2 102 s1)
    (hrow : OnRow s body o) (ha : 0 ≤ s.arg1) (hc : ValidCp c ∧ 32 ≤ c ∧ c ≠ 127) (hp : pending s1 = enc c ++ rest)
    (hkm : s1.xkmap = 0) :
    ∃ s2, Reads false (enc c) (setArg2 a2 s1) s2 ∧ pending s2 = rest ∧
      ∀ t, Motion.findChar body o c true false (opCount s a2).toNat = some t →
        o ≤ t ∧ t < body.length ∧ Lands s s1 { s2 with charlast := enc c, charcmd := 102 } a2 102 102 body o t :=
  Lemmas.C08g.lands_f s s1 a2 body o c rest hk hrow ha hc hp hkm

/-- `t c` with the count: to the character before that `c` -/
theorem lands_t (s s1 : VS) (a2 : Int) (body : List Nat) (o c : Nat) (rest : Bytes) (hk : Prefixed s a2 116 s1)
    (hrow : OnRow s body o) (ha : 0 ≤ s.arg1) (hc : ValidCp c ∧ 32 ≤ c ∧ c ≠ 127) (hp : pending s1 = enc c ++ rest)
    (hkm : s1.xkmap = 0) :
    ∃ s2, Reads false (enc c) (setArg2 a2 s1) s2 ∧ pending s2 = rest ∧
      ∀ t, Motion.findChar body o c true true (opCount s a2).toNat = some t →
        o ≤ t ∧ t < body.length ∧ Lands s s1 { s2 with charlast := enc c, charcmd := 116 } a2 116 116 body o t :=
  Lemmas.C08g.lands_t s s1 a2 body o c rest hk hrow ha hc hp hkm

/-- `vc_motion cmd` with a motion that lands on the row is the operator function applied to the reference span,
in the state the motion left -/
theorem vcMotion_lands (cmd : Nat)
    (hc : cmd = 99 ∨ cmd = 100 ∨ cmd = 121 ∨ cmd = 126 ∨ cmd = 117 ∨ cmd = 85 ∨ cmd = 62 ∨ cmd = 60) (s s1 sm : VS)
    (a2 k mv : Int) (body : List Nat) (o t : Nat) (hrow : OnRow s body o) (hl : Lands s s1 sm a2 k mv body o t) :
    vcMotion cmd s = applyOp cmd s.ed.xrow (((span (inclusive sm mv) o t body.length).1 : Nat) : Int) s.ed.xrow
      (((span (inclusive sm mv) o t body.length).2 : Nat) : Int) false sm :=
  Lemmas.C08g.vcMotion_lands cmd hc s s1 sm a2 k mv body o t hrow hl

/-- `vc_motion cmd` with a line motion `k` whose target row is `t`: the operator is applied to the rows
`[min r t, max r t]` in line mode, in the state after the count and the key were read -/
theorem vcMotion_line (cmd : Nat) (s s1 : VS) (a2 k t : Int) (hk : Prefixed s a2 k s1) (hkpos : 0 < k)
    (ht : lnTarget (setArg2 a2 s) s.ed.xrow cmd k = some t) (ht0 : 0 ≤ t) :
    ∃ a b, vcMotion cmd s = applyOp cmd (min s.ed.xrow t) a (max s.ed.xrow t) b true (setArg2 a2 s1) :=
  Lemmas.C08g.vcMotion_line cmd s s1 a2 k t hk hkpos ht ht0

/-- **generic, `c` with a motion on the row.**  `c` followed by a motion that lands on character `t` of the cursor
row (`Lands`, any of the motions of §1), then the keys `K` that type the text `cs` and leave insert mode: the
reference span of the motion — `[min o t, max o t)`, one character more for an inclusive motion — is replaced by
`cs`; the register named by the prefix receives the span; the cursor ends on the last typed character -/
theorem row_change (s s1 sm : VS) (a2 k mv : Int) (body cs : List Nat) (o t : Nat) (K rest : Bytes)
    (hrow : OnRow s body o) (hl : Lands s s1 sm a2 k mv body o t) (hin : Inputs K cs) (hp : pending sm = K ++ rest)
    (hpl : ∀ c ∈ cs, ValidCp c) (h10 : 10 ∉ cs) (hne : cs.head? ≠ none ∧ cs.head? ≠ some 32 ∧ cs.head? ≠ some 9)
    (hkm : s.xkmap = 0) :
    ∃ s', vcMotion 99 s = Res.ok VC_OK s' ∧ pending s' = rest ∧
      RowChanged K s sm s' s.ed.xrow body cs (span (inclusive sm mv) o t body.length).1
        (span (inclusive sm mv) o t body.length).2 :=
  Lemmas.C08g.row_change s s1 sm a2 k mv body cs o t K rest hrow hl hin hp hpl h10 hne hkm

/-- **generic, `c` with a line motion.**  `c` followed by a line motion `k` (`c j k + - _ G` …, target row `t`:
`lnTarget`), then the keys `K` that type `cs`: the rows `[min r t, max r t]` are replaced by the one row
`indentation of the first of them ++ cs` (the indentation only with `autoindent`); the register receives the rows
in line mode -/
theorem line_change (s s1 : VS) (a2 k t : Int) (body cs : List Nat) (K rest : Bytes) (hk : Prefixed s a2 k s1)
    (hkpos : 0 < k) (ht : lnTarget (setArg2 a2 s) s.ed.xrow 99 k = some t) (h0 : 0 ≤ s.ed.xrow)
    (h1 : s.ed.xrow < lenOf s) (ht0 : 0 ≤ t) (ht1 : t < lenOf s)
    (hline : (lines s)[(min s.ed.xrow t).toNat]? = some (encStr (body ++ [10]))) (hb : ∀ c ∈ body, ValidCp c)
    (hb10 : 10 ∉ body) (hin : Inputs K cs) (hp : pending s1 = K ++ rest) (hpl : ∀ c ∈ cs, ValidCp c) (h10 : 10 ∉ cs)
    (hne : cs.head? ≠ none ∧ cs.head? ≠ some 32 ∧ cs.head? ≠ some 9) (hkm : s.xkmap = 0) :
    ∃ s', vcMotion 99 s = Res.ok VC_OK s' ∧ pending s' = rest ∧
      LineChanged K s (setArg2 a2 s1) s' (min s.ed.xrow t) (max s.ed.xrow t) body cs :=
  Lemmas.C08g.line_change s s1 a2 k t body cs K rest hk hkpos ht h0 h1 ht0 ht1 hline hb hb10 hin hp hpl h10 hne hkm

/-- **generic, a case operator with a motion on the row.**  `cmd` is the letter `vc_motion` receives: `126` for `~`
and `g~`, `117` for `gu`, `85` for `gU`.  The reference span of the motion is case-mapped (`caseCp`: ASCII letters
only), the cursor goes to the end of the span, the registers are untouched -/
theorem row_case (cmd : Nat) (hc : cmd = 126 ∨ cmd = 117 ∨ cmd = 85) (s s1 sm : VS) (a2 k mv : Int) (body : List Nat)
    (o t : Nat) (hrow : OnRow s body o) (hl : Lands s s1 sm a2 k mv body o t) :
    ∃ s', vcMotion cmd s = Res.ok VC_OK s' ∧
      RowCased cmd s sm s' s.ed.xrow body (span (inclusive sm mv) o t body.length).1
        (span (inclusive sm mv) o t body.length).2 :=
  Lemmas.C08g.row_case cmd hc s s1 sm a2 k mv body o t hrow hl

/-- **generic, `>` / `<` with a line motion** (`cmd` = 62 / 60; `>>` is the motion `k = 62`): the rows
`[min r t, max r t]` are shifted by `shiftLine` — a tab in front of every non-empty row for `>`, one leading blank
removed for `<` —, the cursor goes to the first non-blank of the first of them -/
theorem line_shift (cmd : Nat) (hc : cmd = 62 ∨ cmd = 60) (s s1 : VS) (a2 k t : Int) (hk : Prefixed s a2 k s1)
    (hkpos : 0 < k) (ht : lnTarget (setArg2 a2 s) s.ed.xrow cmd k = some t) (h0 : 0 ≤ s.ed.xrow)
    (h1 : s.ed.xrow < lenOf s) (ht0 : 0 ≤ t) (ht1 : t < lenOf s) (hwf : ∀ l ∈ lines s, Props.C01.WfLine l) :
    ∃ s', vcMotion cmd s = Res.ok VC_OK s' ∧
      LineShifted (if cmd = 62 then 1 else -1) s (setArg2 a2 s1) s' (min s.ed.xrow t) (max s.ed.xrow t) :=
  Lemmas.C08g.line_shift cmd hc s s1 a2 k t hk hkpos ht h0 h1 ht0 ht1 hwf

/-! ## 2. the change family by name, at the level of `vc_motion` -/

/-- plain text — valid code points ≥ 32, not DEL, not empty, not starting with a space — followed by ESC is a
`TypedText` -/
theorem typedText_plain (cs : List Nat) (hpl : ∀ c ∈ cs, ValidCp c ∧ 32 ≤ c ∧ c ≠ 127) (hlen : cs.length < 100000)
    (hne : cs.head? ≠ none ∧ cs.head? ≠ some 32) :
    TypedText (encStr cs ++ [27]) cs :=
  Lemmas.C08g.typedText_plain cs hpl hlen hne

/-- **`cw`** (`[count]cw`): the span `dw` deletes — from the cursor to the start of the `c`-th next word, when that
is on the row; the blanks before that word included: unlike in POSIX vi, `cw` is not `ce` — is replaced by the
typed text -/
theorem cw_spec (s s1 : VS) (a2 : Int) (body cs : List Nat) (o : Nat) (K rest : Bytes) (t : Nat)
    (hk : Prefixed s a2 119 s1) (hrow : OnRow s body o) (hu : Utf8Buf (lines s))
    (href : Motion.wordFwdRaw false (refBufU (lines s)) ⟨s.ed.xrow.toNat, o⟩ (opCount s a2).toNat = ⟨s.ed.xrow.toNat, t⟩)
    (ht : TypedText K cs) (hp : pending s1 = K ++ rest) (hkm : s.xkmap = 0) :
    ∃ s', vcMotion 99 s = Res.ok VC_OK s' ∧ pending s' = rest ∧
      RowChanged K s (setArg2 a2 s1) s' s.ed.xrow body cs (min o t) (max o t) :=
  Lemmas.C08g.cw_spec s s1 a2 body cs o K rest t hk hrow hu href ht hp hkm

/-- **`ce`**: the span from the cursor to the end of the `c`-th word, inclusive -/
theorem ce_spec (s s1 : VS) (a2 : Int) (body cs : List Nat) (o : Nat) (K rest : Bytes) (t : Nat)
    (hk : Prefixed s a2 101 s1) (hrow : OnRow s body o) (hu : Utf8Buf (lines s))
    (href : Motion.wordEndFwdRaw false (refBufU (lines s)) ⟨s.ed.xrow.toNat, o⟩ (opCount s a2).toNat = ⟨s.ed.xrow.toNat, t⟩)
    (ht : TypedText K cs) (hp : pending s1 = K ++ rest) (hkm : s.xkmap = 0) :
    ∃ s', vcMotion 99 s = Res.ok VC_OK s' ∧ pending s' = rest ∧
      RowChanged K s (setArg2 a2 s1) s' s.ed.xrow body cs (span true o t body.length).1 (span true o t body.length).2 :=
  Lemmas.C08g.ce_spec s s1 a2 body cs o K rest t hk hrow hu href ht hp hkm

/-- … in the usual case `o ≤ t < |body|`: the characters `[o, t + 1)` -/
theorem ce_spec_fwd (s s1 : VS) (a2 : Int) (body cs : List Nat) (o : Nat) (K rest : Bytes) (t : Nat)
    (hk : Prefixed s a2 101 s1) (hrow : OnRow s body o) (hu : Utf8Buf (lines s))
    (href : Motion.wordEndFwdRaw false (refBufU (lines s)) ⟨s.ed.xrow.toNat, o⟩ (opCount s a2).toNat = ⟨s.ed.xrow.toNat, t⟩)
    (hot : o ≤ t) (htl : t < body.length) (ht : TypedText K cs) (hp : pending s1 = K ++ rest) (hkm : s.xkmap = 0) :
    ∃ s', vcMotion 99 s = Res.ok VC_OK s' ∧ pending s' = rest ∧
      RowChanged K s (setArg2 a2 s1) s' s.ed.xrow body cs o (t + 1) :=
  Lemmas.C08g.ce_spec_fwd s s1 a2 body cs o K rest t hk hrow hu href hot htl ht hp hkm

/-- **`c$`** (= `C`): from the cursor to the end of the line -/
theorem c_dollar_spec (s s1 : VS) (a2 : Int) (body cs : List Nat) (o : Nat) (K rest : Bytes)
    (hk : Prefixed s a2 36 s1) (hrow : OnRow s body o) (ht : TypedText K cs) (hp : pending s1 = K ++ rest)
    (hkm : s.xkmap = 0) :
    ∃ s', vcMotion 99 s = Res.ok VC_OK s' ∧ pending s' = rest ∧
      RowChanged K s (setArg2 a2 s1) s' s.ed.xrow body cs o body.length :=
  Lemmas.C08g.c_dollar_spec s s1 a2 body cs o K rest hk hrow ht hp hkm

/-- **`c SPC`** (= `s`; `[count]s`): `min c (|body| - o)` characters from the cursor on -/
theorem c_spc_spec (s s1 : VS) (a2 : Int) (body cs : List Nat) (o : Nat) (K rest : Bytes) (hk : Prefixed s a2 32 s1)
    (hrow : OnRow s body o) (ht : TypedText K cs) (hp : pending s1 = K ++ rest) (hkm : s.xkmap = 0) :
    ∃ s', vcMotion 99 s = Res.ok VC_OK s' ∧ pending s' = rest ∧
      RowChanged K s (setArg2 a2 s1) s' s.ed.xrow body cs o (min (o + (opCount s a2).toNat) body.length) :=
  Lemmas.C08g.c_spc_spec s s1 a2 body cs o K rest hk hrow ht hp hkm

/-- **`cl`** on a row displayed left to right: the characters `[o, min (o + c) (|body| - 1))` — `l` never moves
onto the newline, so the last character of the line is never part of the span: `cl` is `s` only when
`o + c < |body|` (`cl_eq_s`, `cl_last_char`) -/
theorem cl_spec (s s1 : VS) (a2 : Int) (body cs : List Nat) (o : Nat) (K rest : Bytes) (hk : Prefixed s a2 108 s1)
    (hrow : OnRow s body o) (hltr : LeftToRight s body) (ht : TypedText K cs) (hp : pending s1 = K ++ rest)
    (hkm : s.xkmap = 0) :
    ∃ s', vcMotion 99 s = Res.ok VC_OK s' ∧ pending s' = rest ∧
      RowChanged K s (setArg2 a2 s1) s' s.ed.xrow body cs o (min (o + (opCount s a2).toNat) (body.length - 1)) :=
  Lemmas.C08g.cl_spec s s1 a2 body cs o K rest hk hrow hltr ht hp hkm

/-- **`c0`**: the characters before the cursor -/
theorem c0_spec (s s1 : VS) (a2 : Int) (body cs : List Nat) (o : Nat) (K rest : Bytes) (hk : Prefixed s a2 48 s1)
    (hrow : OnRow s body o) (ht : TypedText K cs) (hp : pending s1 = K ++ rest) (hkm : s.xkmap = 0) :
    ∃ s', vcMotion 99 s = Res.ok VC_OK s' ∧ pending s' = rest ∧
      RowChanged K s (setArg2 a2 s1) s' s.ed.xrow body cs 0 o :=
  Lemmas.C08g.c0_spec s s1 a2 body cs o K rest hk hrow ht hp hkm

/-- **`cf c`**: the characters from the cursor up to and including the `n`-th `c` to its right, `[o, t + 1)` with
`t` the reference `findChar`, are replaced by the typed text (when there is such a `c`) -/
theorem cfc_spec (s s1 : VS) (a2 : Int) (body cs : List Nat) (o : Nat) (K rest : Bytes) (c t : Nat)
    (hk : Prefixed s a2 102 s1) (hrow : OnRow s body o) (ha : 0 ≤ s.arg1) (hc : ValidCp c ∧ 32 ≤ c ∧ c ≠ 127)
    (hp : pending s1 = enc c ++ (K ++ rest)) (hkm : s.xkmap = 0)
    (hfind : Motion.findChar body o c true false (opCount s a2).toNat = some t) (ht : TypedText K cs) :
    ∃ s2 s', Reads false (enc c) (setArg2 a2 s1) s2 ∧ vcMotion 99 s = Res.ok VC_OK s' ∧ pending s' = rest ∧
      o ≤ t ∧ t < body.length ∧
      RowChanged K s { s2 with charlast := enc c, charcmd := 102 } s' s.ed.xrow body cs o (t + 1) :=
  Lemmas.C08g.cfc_spec s s1 a2 body cs o K rest c t hk hrow ha hc hp hkm hfind ht

/-- **`ct c`**: as `cf c`, up to the character before that `c` -/
theorem ctc_spec (s s1 : VS) (a2 : Int) (body cs : List Nat) (o : Nat) (K rest : Bytes) (c t : Nat)
    (hk : Prefixed s a2 116 s1) (hrow : OnRow s body o) (ha : 0 ≤ s.arg1) (hc : ValidCp c ∧ 32 ≤ c ∧ c ≠ 127)
    (hp : pending s1 = enc c ++ (K ++ rest)) (hkm : s.xkmap = 0)
    (hfind : Motion.findChar body o c true true (opCount s a2).toNat = some t) (ht : TypedText K cs) :
    ∃ s2 s', Reads false (enc c) (setArg2 a2 s1) s2 ∧ vcMotion 99 s = Res.ok VC_OK s' ∧ pending s' = rest ∧
      o ≤ t ∧ t < body.length ∧
      RowChanged K s { s2 with charlast := enc c, charcmd := 116 } s' s.ed.xrow body cs o (t + 1) :=
  Lemmas.C08g.ctc_spec s s1 a2 body cs o K rest c t hk hrow ha hc hp hkm hfind ht

/-- **`cc`** (= `S`; `[count]cc`): the rows `r .. min (r + c - 1) (n - 1)` are replaced by one row: the
indentation of the cursor row (with `autoindent`) and the typed text -/
theorem cc_spec (s s1 : VS) (a2 : Int) (body cs : List Nat) (K rest : Bytes) (hk : Prefixed s a2 99 s1)
    (ha : 0 ≤ s.arg1) (h0 : 0 ≤ s.ed.xrow) (h1 : s.ed.xrow < lenOf s)
    (hline : (lines s)[s.ed.xrow.toNat]? = some (encStr (body ++ [10]))) (hb : ∀ c ∈ body, ValidCp c)
    (hb10 : 10 ∉ body) (ht : TypedText K cs) (hp : pending s1 = K ++ rest) (hkm : s.xkmap = 0) :
    ∃ s', vcMotion 99 s = Res.ok VC_OK s' ∧ pending s' = rest ∧
      LineChanged K s (setArg2 a2 s1) s' s.ed.xrow (min (s.ed.xrow + opCount s a2 - 1) (lenOf s - 1)) body cs :=
  Lemmas.C08g.cc_spec s s1 a2 body cs K rest hk ha h0 h1 hline hb hb10 ht hp hkm

/-- **`cj`**: the rows `r .. min (r + c) (n - 1)` -/
theorem cj_spec (s s1 : VS) (a2 : Int) (body cs : List Nat) (K rest : Bytes) (hk : Prefixed s a2 106 s1)
    (ha : 0 ≤ s.arg1) (h0 : 0 ≤ s.ed.xrow) (h1 : s.ed.xrow < lenOf s)
    (hline : (lines s)[s.ed.xrow.toNat]? = some (encStr (body ++ [10]))) (hb : ∀ c ∈ body, ValidCp c)
    (hb10 : 10 ∉ body) (ht : TypedText K cs) (hp : pending s1 = K ++ rest) (hkm : s.xkmap = 0) :
    ∃ s', vcMotion 99 s = Res.ok VC_OK s' ∧ pending s' = rest ∧
      LineChanged K s (setArg2 a2 s1) s' s.ed.xrow (min (s.ed.xrow + opCount s a2) (lenOf s - 1)) body cs :=
  Lemmas.C08g.cj_spec s s1 a2 body cs K rest hk ha h0 h1 hline hb hb10 ht hp hkm

/-- **`ck`**: the rows `max (r - c) 0 .. r`; the indentation is that of the first of them (`body` is the row
`max (r - c) 0`) -/
theorem ck_spec (s s1 : VS) (a2 : Int) (body cs : List Nat) (K rest : Bytes) (hk : Prefixed s a2 107 s1)
    (ha : 0 ≤ s.arg1) (h0 : 0 ≤ s.ed.xrow) (h1 : s.ed.xrow < lenOf s)
    (hline : (lines s)[(max (s.ed.xrow - opCount s a2) 0).toNat]? = some (encStr (body ++ [10])))
    (hb : ∀ c ∈ body, ValidCp c) (hb10 : 10 ∉ body) (ht : TypedText K cs) (hp : pending s1 = K ++ rest)
    (hkm : s.xkmap = 0) :
    ∃ s', vcMotion 99 s = Res.ok VC_OK s' ∧ pending s' = rest ∧
      LineChanged K s (setArg2 a2 s1) s' (max (s.ed.xrow - opCount s a2) 0) s.ed.xrow body cs :=
  Lemmas.C08g.ck_spec s s1 a2 body cs K rest hk ha h0 h1 hline hb hb10 ht hp hkm

/-! ## 3. `~ g~ gu gU`, `> <`, and `vc_put`, at the level of `vc_motion` / `vc_put` -/

/-- **`~`** (`[count]~` = the case operator 126 with `SPC`), and `g~ SPC`, `gu SPC`, `gU SPC`: the `min c (|body| - o)`
characters from the cursor on are case-mapped, the cursor moves behind them -/
theorem case_spc_spec (cmd : Nat) (hc : cmd = 126 ∨ cmd = 117 ∨ cmd = 85) (s s1 : VS) (a2 : Int) (body : List Nat)
    (o : Nat) (hk : Prefixed s a2 32 s1) (hrow : OnRow s body o) :
    ∃ s', vcMotion cmd s = Res.ok VC_OK s' ∧
      RowCased cmd s (setArg2 a2 s1) s' s.ed.xrow body o (min (o + (opCount s a2).toNat) body.length) :=
  Lemmas.C08g.case_spc_spec cmd hc s s1 a2 body o hk hrow

/-- **`g~w`, `guw`, `gUw`**: the span of `dw` is case-mapped -/
theorem case_w_spec (cmd : Nat) (hc : cmd = 126 ∨ cmd = 117 ∨ cmd = 85) (s s1 : VS) (a2 : Int) (body : List Nat)
    (o : Nat) (t : Nat) (hk : Prefixed s a2 119 s1) (hrow : OnRow s body o) (hu : Utf8Buf (lines s))
    (href : Motion.wordFwdRaw false (refBufU (lines s)) ⟨s.ed.xrow.toNat, o⟩ (opCount s a2).toNat = ⟨s.ed.xrow.toNat, t⟩) :
    ∃ s', vcMotion cmd s = Res.ok VC_OK s' ∧ RowCased cmd s (setArg2 a2 s1) s' s.ed.xrow body (min o t) (max o t) :=
  Lemmas.C08g.case_w_spec cmd hc s s1 a2 body o t hk hrow hu href

/-- **`g~e`, `gue`, `gUe`**: the span of `de` (inclusive) -/
theorem case_e_spec (cmd : Nat) (hc : cmd = 126 ∨ cmd = 117 ∨ cmd = 85) (s s1 : VS) (a2 : Int) (body : List Nat)
    (o : Nat) (t : Nat) (hk : Prefixed s a2 101 s1) (hrow : OnRow s body o) (hu : Utf8Buf (lines s))
    (href : Motion.wordEndFwdRaw false (refBufU (lines s)) ⟨s.ed.xrow.toNat, o⟩ (opCount s a2).toNat = ⟨s.ed.xrow.toNat, t⟩) :
    ∃ s', vcMotion cmd s = Res.ok VC_OK s' ∧
      RowCased cmd s (setArg2 a2 s1) s' s.ed.xrow body (span true o t body.length).1 (span true o t body.length).2 :=
  Lemmas.C08g.case_e_spec cmd hc s s1 a2 body o t hk hrow hu href

/-- **`g~$`, `gu$`, `gU$`**: from the cursor to the end of the line -/
theorem case_dollar_spec (cmd : Nat) (hc : cmd = 126 ∨ cmd = 117 ∨ cmd = 85) (s s1 : VS) (a2 : Int) (body : List Nat)
    (o : Nat) (hk : Prefixed s a2 36 s1) (hrow : OnRow s body o) :
    ∃ s', vcMotion cmd s = Res.ok VC_OK s' ∧ RowCased cmd s (setArg2 a2 s1) s' s.ed.xrow body o body.length :=
  Lemmas.C08g.case_dollar_spec cmd hc s s1 a2 body o hk hrow

/-- **`g~0`, `gu0`, `gU0`**: the characters before the cursor -/
theorem case_zero_spec (cmd : Nat) (hc : cmd = 126 ∨ cmd = 117 ∨ cmd = 85) (s s1 : VS) (a2 : Int) (body : List Nat)
    (o : Nat) (hk : Prefixed s a2 48 s1) (hrow : OnRow s body o) :
    ∃ s', vcMotion cmd s = Res.ok VC_OK s' ∧ RowCased cmd s (setArg2 a2 s1) s' s.ed.xrow body 0 o :=
  Lemmas.C08g.case_zero_spec cmd hc s s1 a2 body o hk hrow

/-- **`>>`, `<<`** (`[count]>>`; the second key is the operator letter `k = cmd`): the rows
`r .. min (r + c - 1) (n - 1)` are shifted -/
theorem shift_dbl_spec (cmd : Nat) (hc : cmd = 62 ∨ cmd = 60) (s s1 : VS) (a2 : Int)
    (hk : Prefixed s a2 (cmd : Int) s1) (ha : 0 ≤ s.arg1) (h0 : 0 ≤ s.ed.xrow) (h1 : s.ed.xrow < lenOf s)
    (hwf : ∀ l ∈ lines s, Props.C01.WfLine l) :
    ∃ s', vcMotion cmd s = Res.ok VC_OK s' ∧
      LineShifted (if cmd = 62 then 1 else -1) s (setArg2 a2 s1) s' s.ed.xrow (min (s.ed.xrow + opCount s a2 - 1) (lenOf s - 1)) :=
  Lemmas.C08g.shift_dbl_spec cmd hc s s1 a2 hk ha h0 h1 hwf

/-- **`>j`, `<j`**: the rows `r .. min (r + c) (n - 1)` -/
theorem shift_j_spec (cmd : Nat) (hc : cmd = 62 ∨ cmd = 60) (s s1 : VS) (a2 : Int) (hk : Prefixed s a2 106 s1)
    (ha : 0 ≤ s.arg1) (h0 : 0 ≤ s.ed.xrow) (h1 : s.ed.xrow < lenOf s) (hwf : ∀ l ∈ lines s, Props.C01.WfLine l) :
    ∃ s', vcMotion cmd s = Res.ok VC_OK s' ∧
      LineShifted (if cmd = 62 then 1 else -1) s (setArg2 a2 s1) s' s.ed.xrow (min (s.ed.xrow + opCount s a2) (lenOf s - 1)) :=
  Lemmas.C08g.shift_j_spec cmd hc s s1 a2 hk ha h0 h1 hwf

/-- **`>k`, `<k`**: the rows `max (r - c) 0 .. r` -/
theorem shift_k_spec (cmd : Nat) (hc : cmd = 62 ∨ cmd = 60) (s s1 : VS) (a2 : Int) (hk : Prefixed s a2 107 s1)
    (ha : 0 ≤ s.arg1) (h0 : 0 ≤ s.ed.xrow) (h1 : s.ed.xrow < lenOf s) (hwf : ∀ l ∈ lines s, Props.C01.WfLine l) :
    ∃ s', vcMotion cmd s = Res.ok VC_OK s' ∧
      LineShifted (if cmd = 62 then 1 else -1) s (setArg2 a2 s1) s' (max (s.ed.xrow - opCount s a2) 0) s.ed.xrow :=
  Lemmas.C08g.shift_k_spec cmd hc s s1 a2 hk ha h0 h1 hwf

/-- **`p` with a character-wise register**: `max 1 count` copies go in after the cursor character -/
theorem vcPut_chars_p (s : VS) (body bs : List Nat) (o : Nat) (hrow : OnRow s body o)
    (hreg : regGetLn s.ed s.ybuf = (some (encStr bs), some 0)) (hbs : ∀ c ∈ bs, ValidCp c) (hbs10 : 10 ∉ bs)
    (hne : bs ≠ []) :
    ∃ s', vcPut 112 s = Res.ok VC_OK s' ∧ PutChars s s' s.ed.xrow body (copies (cnt1 s) bs) (o + 1) ∧ s' = { s with ed := s'.ed } :=
  Lemmas.C08g.vcPut_chars_p s body bs o hrow hreg hbs hbs10 hne

/-- **`P` with a character-wise register**: the copies go in before the cursor character -/
theorem vcPut_chars_P (s : VS) (body bs : List Nat) (o : Nat) (hrow : OnRow s body o)
    (hreg : regGetLn s.ed s.ybuf = (some (encStr bs), some 0)) (hbs : ∀ c ∈ bs, ValidCp c) (hbs10 : 10 ∉ bs)
    (hne : bs ≠ []) :
    ∃ s', vcPut 80 s = Res.ok VC_OK s' ∧ PutChars s s' s.ed.xrow body (copies (cnt1 s) bs) o ∧ s' = { s with ed := s'.ed } :=
  Lemmas.C08g.vcPut_chars_P s body bs o hrow hreg hbs hbs10 hne

/-- on an empty line `p` and `P` both put the text at its start -/
theorem vcPut_chars_emptyline (cmd : Nat) (s : VS) (bs : List Nat) (hr0 : 0 ≤ s.ed.xrow)
    (hline : (lines s)[s.ed.xrow.toNat]? = some [10]) (hoff0 : 0 ≤ s.ed.xoff)
    (hreg : regGetLn s.ed s.ybuf = (some (encStr bs), some 0)) (hbs : ∀ c ∈ bs, ValidCp c) (hbs10 : 10 ∉ bs)
    (hne : bs ≠ []) :
    ∃ s', vcPut cmd s = Res.ok VC_OK s' ∧ PutChars s s' s.ed.xrow [] (copies (cnt1 s) bs) 0 ∧ s' = { s with ed := s'.ed } :=
  Lemmas.C08g.vcPut_chars_emptyline cmd s bs hr0 hline hoff0 hreg hbs hbs10 hne

/-- **`p` with a line-wise register**: the copies are inserted after the cursor row, the cursor moves onto the
first of them -/
theorem vcPut_lines_p (s : VS) (rows : List Bytes) (lnm : Nat) (lb : Lb) (hlb : s.ed.lb = some lb)
    (hreg : regGetLn s.ed s.ybuf = (some rows.flatten, some lnm)) (hl : lnm ≠ 0)
    (hrows : ∀ l ∈ rows, Props.C01.WfLine l) (hne : rows ≠ []) (h0 : 0 ≤ s.ed.xrow) (h1 : s.ed.xrow < lenOf s) :
    ∃ s', vcPut 112 s = Res.ok VC_OK s' ∧ PutLines s s' (s.ed.xrow + 1) (copies (cnt1 s) rows) ∧ s' = { s with ed := s'.ed } :=
  Lemmas.C08g.vcPut_lines_p s rows lnm lb hlb hreg hl hrows hne h0 h1

/-- **`P` with a line-wise register** holding the lines `rows`: `max 1 count` copies of them are inserted
before the cursor row; the cursor stays on that row number, on the first non-blank -/
theorem vcPut_lines_P (s : VS) (rows : List Bytes) (lnm : Nat) (lb : Lb) (hlb : s.ed.lb = some lb)
    (hreg : regGetLn s.ed s.ybuf = (some rows.flatten, some lnm)) (hl : lnm ≠ 0)
    (hrows : ∀ l ∈ rows, Props.C01.WfLine l) (hne : rows ≠ []) (hlen : lenOf s ≠ 0) (h0 : 0 ≤ s.ed.xrow)
    (h1 : s.ed.xrow ≤ lenOf s) :
    ∃ s', vcPut 80 s = Res.ok VC_OK s' ∧ PutLines s s' s.ed.xrow (copies (cnt1 s) rows) ∧ s' = { s with ed := s'.ed } :=
  Lemmas.C08g.vcPut_lines_P s rows lnm lb hlb hreg hl hrows hne hlen h0 h1

/-- an empty (or unset) register: `p` / `P` do nothing and report failure -/
theorem vcPut_empty (cmd : Nat) (s : VS) (h : (regGetLn s.ed s.ybuf).1 = none ∨ (regGetLn s.ed s.ybuf).1 = some []) :
    vcPut cmd s = Res.ok 0 s :=
  Lemmas.C08g.vcPut_empty cmd s h

/-! ## 4. the dispatcher -/

/-- a key typed at the terminal: `vi_read` delivers it -/
theorem typed_key (s : VS) (c : Nat) (more : Bytes) (hv : s.vibuf = []) (hp : pending s = c :: more) :
    ∃ s1, viRead s = Res.ok (c : Int) s1 ∧ s1.vibuf = [] ∧ pending s1 = more ∧ Reads false [c] s s1 :=
  Lemmas.C08g.typed_key s c more hv hp

/-- a key pushed back (as `viPre` leaves the command key): `vi_read` delivers it -/
theorem pushed_key (s1 : VS) (c : Int) :
    viRead { s1 with vibuf := c :: s1.vibuf } = Res.ok c s1 :=
  Lemmas.C08g.pushed_key s1 c

/-- the dispatcher on an operator key `c d y > <`: the mark `^` is set, `vc_motion` runs with that letter, the
command is recorded for `.` -/
theorem commandTail_op (c : Int) (hc : c = 99 ∨ c = 100 ∨ c = 121 ∨ c = 62 ∨ c = 60) (s s1 : VS)
    (hk : viRead s = Res.ok c s1) :
    commandTail s = (do markSet 94 s1.ed.xrow s1.ed.xoff; let m ← vcMotion c.toNat; finRec c 0 m : M (Option Nat)) s1 :=
  Lemmas.C08g.commandTail_op c hc s s1 hk

/-- **an operator key `c d y > <` followed by a motion key `k`** (not a digit `1`..`9`: no second count).  `s1` is
the state once the operator key has been read: nothing pushed back, `k` and `more` pending.  The dispatcher runs
`vc_motion` in the state `sm` (`s1` with the mark `^` set), from which `Prefixed sm 0 k s2` reads the key `k` -/
theorem keys_op (c : Nat) (hc : c = 99 ∨ c = 100 ∨ c = 121 ∨ c = 62 ∨ c = 60) (k : Nat) (hk : ¬ (49 ≤ k ∧ k ≤ 57))
    (s s1 : VS) (more : Bytes) (hr : viRead s = Res.ok (c : Int) s1) (hv : s1.vibuf = [])
    (hp : pending s1 = k :: more) :
    ∃ sm s2, KeysMark [] s1 sm ∧ Prefixed sm 0 (k : Int) s2 ∧ Reads false [k] sm s2 ∧ pending s2 = more ∧ s2.vibuf = [] ∧
      ∀ m s', vcMotion c sm = Res.ok m s' → commandTail s = finRec (c : Int) 0 m s' :=
  Lemmas.C08g.keys_op c hc k hk s s1 more hr hv hp

/-- **a shorthand key `x X D C s S Y ~`** (`isShort`: the operator `op` and the motion key `k` it stands for; `s1`: the
state once it has been read): the dispatcher pushes the motion key `k` back and runs `vc_motion op` in the state
`{ sm with vibuf := [k] }`; `sm` is that state once `k` has been read again -/
theorem keys_short (c op : Nat) (k : Int) (hs : isShort c op k) (s s1 : VS) (hr : viRead s = Res.ok (c : Int) s1)
    (hv : s1.vibuf = []) :
    ∃ sm, KeysMark [] s1 sm ∧ sm.vibuf = [] ∧ pending sm = pending s1 ∧
      Prefixed { sm with vibuf := [k] } 0 k sm ∧
      ∀ m s', vcMotion op { sm with vibuf := [k] } = Res.ok m s' → commandTail s = finRec (c : Int) 0 m s' :=
  Lemmas.C08g.keys_short c op k hs s s1 hr hv

/-- **`g` followed by `~`, `u` or `U` and a motion key `k`** (not a digit; `s1`: the state once `g` has been read):
the dispatcher runs `vc_motion` with the second key as the operator letter -/
theorem keys_g (op : Nat) (hop : op = 126 ∨ op = 117 ∨ op = 85) (k : Nat) (hk : ¬ (49 ≤ k ∧ k ≤ 57)) (s s1 : VS)
    (more : Bytes) (hr : viRead s = Res.ok 103 s1) (hv : s1.vibuf = []) (hp : pending s1 = op :: k :: more) :
    ∃ sm s3, KeysMark [op] s1 sm ∧ Prefixed sm 0 (k : Int) s3 ∧ Reads false [k] sm s3 ∧ pending s3 = more ∧ sm.vibuf = [] ∧
      ∀ m s', vcMotion op sm = Res.ok m s' → commandTail s = finRec 103 (op : Int) m s' :=
  Lemmas.C08g.keys_g op hop k hk s s1 more hr hv hp

/-! ## 5. the change family from the keys -/

/-- **the keys `cw`, text, ESC** -/
theorem cw_keys (s s1 : VS) (body cs : List Nat) (o : Nat) (K rest : Bytes) (t : Nat) (hr : viRead s = Res.ok 99 s1)
    (hv : s1.vibuf = []) (hp : pending s1 = 119 :: (K ++ rest)) (hrow : OnRow s1 body o) (hu : Utf8Buf (lines s1))
    (href : Motion.wordFwdRaw false (refBufU (lines s1)) ⟨s1.ed.xrow.toNat, o⟩ (opCount s1 0).toNat = ⟨s1.ed.xrow.toNat, t⟩)
    (ht : TypedText K cs) (hkm : s1.xkmap = 0) :
    ∃ sm s', commandTail s = finRec 99 0 VC_OK s' ∧ pending s' = rest ∧ KeysDone (119 :: K) s1 s' ∧
      RowChanged K s1 sm s' s1.ed.xrow body cs (min o t) (max o t) :=
  Lemmas.C08g.cw_keys s s1 body cs o K rest t hr hv hp hrow hu href ht hkm

/-- **the keys `ce`, text, ESC** (the usual case: the end of the word is at `t`, `o ≤ t < |body|`) -/
theorem ce_keys (s s1 : VS) (body cs : List Nat) (o : Nat) (K rest : Bytes) (t : Nat) (hr : viRead s = Res.ok 99 s1)
    (hv : s1.vibuf = []) (hp : pending s1 = 101 :: (K ++ rest)) (hrow : OnRow s1 body o) (hu : Utf8Buf (lines s1))
    (href : Motion.wordEndFwdRaw false (refBufU (lines s1)) ⟨s1.ed.xrow.toNat, o⟩ (opCount s1 0).toNat = ⟨s1.ed.xrow.toNat, t⟩)
    (hot : o ≤ t) (htl : t < body.length) (ht : TypedText K cs) (hkm : s1.xkmap = 0) :
    ∃ sm s', commandTail s = finRec 99 0 VC_OK s' ∧ pending s' = rest ∧ KeysDone (101 :: K) s1 s' ∧
      RowChanged K s1 sm s' s1.ed.xrow body cs o (t + 1) :=
  Lemmas.C08g.ce_keys s s1 body cs o K rest t hr hv hp hrow hu href hot htl ht hkm

/-- **the keys `c$`, text, ESC** -/
theorem c_dollar_keys (s s1 : VS) (body cs : List Nat) (o : Nat) (K rest : Bytes) (hr : viRead s = Res.ok 99 s1)
    (hv : s1.vibuf = []) (hp : pending s1 = 36 :: (K ++ rest)) (hrow : OnRow s1 body o) (ht : TypedText K cs)
    (hkm : s1.xkmap = 0) :
    ∃ sm s', commandTail s = finRec 99 0 VC_OK s' ∧ pending s' = rest ∧ KeysDone (36 :: K) s1 s' ∧
      RowChanged K s1 sm s' s1.ed.xrow body cs o body.length :=
  Lemmas.C08g.c_dollar_keys s s1 body cs o K rest hr hv hp hrow ht hkm

/-- **the key `C`, text, ESC**: as `c$` -/
theorem C_keys (s s1 : VS) (body cs : List Nat) (o : Nat) (K rest : Bytes) (hr : viRead s = Res.ok 67 s1)
    (hv : s1.vibuf = []) (hp : pending s1 = (K ++ rest)) (hrow : OnRow s1 body o) (ht : TypedText K cs)
    (hkm : s1.xkmap = 0) :
    ∃ sm s', commandTail s = finRec 67 0 VC_OK s' ∧ pending s' = rest ∧ KeysDone K s1 s' ∧
      RowChanged K s1 sm s' s1.ed.xrow body cs o body.length :=
  Lemmas.C08g.C_keys s s1 body cs o K rest hr hv hp hrow ht hkm

/-- **the key `s`, text, ESC** (`[count]s`): `min c (|body| - o)` characters from the cursor on are replaced -/
theorem s_keys (s s1 : VS) (body cs : List Nat) (o : Nat) (K rest : Bytes) (hr : viRead s = Res.ok 115 s1)
    (hv : s1.vibuf = []) (hp : pending s1 = (K ++ rest)) (hrow : OnRow s1 body o) (ht : TypedText K cs)
    (hkm : s1.xkmap = 0) :
    ∃ sm s', commandTail s = finRec 115 0 VC_OK s' ∧ pending s' = rest ∧ KeysDone K s1 s' ∧
      RowChanged K s1 sm s' s1.ed.xrow body cs o (min (o + (opCount s1 0).toNat) body.length) :=
  Lemmas.C08g.s_keys s s1 body cs o K rest hr hv hp hrow ht hkm

/-- **the keys `cl`, text, ESC** on a row displayed left to right -/
theorem cl_keys (s s1 : VS) (body cs : List Nat) (o : Nat) (K rest : Bytes) (hr : viRead s = Res.ok 99 s1)
    (hv : s1.vibuf = []) (hp : pending s1 = 108 :: (K ++ rest)) (hrow : OnRow s1 body o) (hltr : LeftToRight s1 body)
    (ht : TypedText K cs) (hkm : s1.xkmap = 0) :
    ∃ sm s', commandTail s = finRec 99 0 VC_OK s' ∧ pending s' = rest ∧ KeysDone (108 :: K) s1 s' ∧
      RowChanged K s1 sm s' s1.ed.xrow body cs o (min (o + (opCount s1 0).toNat) (body.length - 1)) :=
  Lemmas.C08g.cl_keys s s1 body cs o K rest hr hv hp hrow hltr ht hkm

/-- **the keys `c0`, text, ESC** -/
theorem c0_keys (s s1 : VS) (body cs : List Nat) (o : Nat) (K rest : Bytes) (hr : viRead s = Res.ok 99 s1)
    (hv : s1.vibuf = []) (hp : pending s1 = 48 :: (K ++ rest)) (hrow : OnRow s1 body o) (ht : TypedText K cs)
    (hkm : s1.xkmap = 0) :
    ∃ sm s', commandTail s = finRec 99 0 VC_OK s' ∧ pending s' = rest ∧ KeysDone (48 :: K) s1 s' ∧
      RowChanged K s1 sm s' s1.ed.xrow body cs 0 o :=
  Lemmas.C08g.c0_keys s s1 body cs o K rest hr hv hp hrow ht hkm

/-- **the keys `cf c`, text, ESC**: the characters `[o, t + 1)`, `t` the `n`-th `c` to the right of the cursor
(`n` the count), are replaced by the typed text -/
theorem cfc_keys (s s1 : VS) (body cs : List Nat) (o : Nat) (K rest : Bytes) (c t : Nat)
    (hr : viRead s = Res.ok 99 s1) (hv : s1.vibuf = []) (hp : pending s1 = 102 :: (enc c ++ (K ++ rest)))
    (hrow : OnRow s1 body o) (ha : 0 ≤ s1.arg1) (hc : ValidCp c ∧ 32 ≤ c ∧ c ≠ 127)
    (hfind : Motion.findChar body o c true false (opCount s1 0).toNat = some t) (ht : TypedText K cs)
    (hkm : s1.xkmap = 0) :
    ∃ sm s', commandTail s = finRec 99 0 VC_OK s' ∧ pending s' = rest ∧ KeysDone (102 :: (enc c ++ K)) s1 s' ∧
      o ≤ t ∧ t < body.length ∧ RowChanged K s1 sm s' s1.ed.xrow body cs o (t + 1) :=
  Lemmas.C08g.cfc_keys s s1 body cs o K rest c t hr hv hp hrow ha hc hfind ht hkm

/-- **the keys `ct c`, text, ESC**: as `cf c`, up to the character before that `c` -/
theorem ctc_keys (s s1 : VS) (body cs : List Nat) (o : Nat) (K rest : Bytes) (c t : Nat)
    (hr : viRead s = Res.ok 99 s1) (hv : s1.vibuf = []) (hp : pending s1 = 116 :: (enc c ++ (K ++ rest)))
    (hrow : OnRow s1 body o) (ha : 0 ≤ s1.arg1) (hc : ValidCp c ∧ 32 ≤ c ∧ c ≠ 127)
    (hfind : Motion.findChar body o c true true (opCount s1 0).toNat = some t) (ht : TypedText K cs)
    (hkm : s1.xkmap = 0) :
    ∃ sm s', commandTail s = finRec 99 0 VC_OK s' ∧ pending s' = rest ∧ KeysDone (116 :: (enc c ++ K)) s1 s' ∧
      o ≤ t ∧ t < body.length ∧ RowChanged K s1 sm s' s1.ed.xrow body cs o (t + 1) :=
  Lemmas.C08g.ctc_keys s s1 body cs o K rest c t hr hv hp hrow ha hc hfind ht hkm

/-- **the keys `cc`, text, ESC** (`[count]cc`): the rows `r .. min (r + c - 1) (n - 1)` become the one row
`indentation ++ text` -/
theorem cc_keys (s s1 : VS) (body cs : List Nat) (K rest : Bytes) (hr : viRead s = Res.ok 99 s1) (hv : s1.vibuf = [])
    (hp : pending s1 = 99 :: (K ++ rest)) (ha : 0 ≤ s1.arg1) (h0 : 0 ≤ s1.ed.xrow) (h1 : s1.ed.xrow < lenOf s1)
    (hline : (lines s1)[s1.ed.xrow.toNat]? = some (encStr (body ++ [10]))) (hb : ∀ c ∈ body, ValidCp c)
    (hb10 : 10 ∉ body) (ht : TypedText K cs) (hkm : s1.xkmap = 0) :
    ∃ sm s', commandTail s = finRec 99 0 VC_OK s' ∧ pending s' = rest ∧ KeysDone (99 :: K) s1 s' ∧
      LineChanged K s1 sm s' s1.ed.xrow (min (s1.ed.xrow + opCount s1 0 - 1) (lenOf s1 - 1)) body cs :=
  Lemmas.C08g.cc_keys s s1 body cs K rest hr hv hp ha h0 h1 hline hb hb10 ht hkm

/-- **the key `S`, text, ESC**: as `cc` -/
theorem S_keys (s s1 : VS) (body cs : List Nat) (K rest : Bytes) (hr : viRead s = Res.ok 83 s1) (hv : s1.vibuf = [])
    (hp : pending s1 = (K ++ rest)) (ha : 0 ≤ s1.arg1) (h0 : 0 ≤ s1.ed.xrow) (h1 : s1.ed.xrow < lenOf s1)
    (hline : (lines s1)[s1.ed.xrow.toNat]? = some (encStr (body ++ [10]))) (hb : ∀ c ∈ body, ValidCp c)
    (hb10 : 10 ∉ body) (ht : TypedText K cs) (hkm : s1.xkmap = 0) :
    ∃ sm s', commandTail s = finRec 83 0 VC_OK s' ∧ pending s' = rest ∧ KeysDone K s1 s' ∧
      LineChanged K s1 sm s' s1.ed.xrow (min (s1.ed.xrow + opCount s1 0 - 1) (lenOf s1 - 1)) body cs :=
  Lemmas.C08g.S_keys s s1 body cs K rest hr hv hp ha h0 h1 hline hb hb10 ht hkm

/-- **the keys `cj`, text, ESC**: the rows `r .. min (r + c) (n - 1)` -/
theorem cj_keys (s s1 : VS) (body cs : List Nat) (K rest : Bytes) (hr : viRead s = Res.ok 99 s1) (hv : s1.vibuf = [])
    (hp : pending s1 = 106 :: (K ++ rest)) (ha : 0 ≤ s1.arg1) (h0 : 0 ≤ s1.ed.xrow) (h1 : s1.ed.xrow < lenOf s1)
    (hline : (lines s1)[s1.ed.xrow.toNat]? = some (encStr (body ++ [10]))) (hb : ∀ c ∈ body, ValidCp c)
    (hb10 : 10 ∉ body) (ht : TypedText K cs) (hkm : s1.xkmap = 0) :
    ∃ sm s', commandTail s = finRec 99 0 VC_OK s' ∧ pending s' = rest ∧ KeysDone (106 :: K) s1 s' ∧
      LineChanged K s1 sm s' s1.ed.xrow (min (s1.ed.xrow + opCount s1 0) (lenOf s1 - 1)) body cs :=
  Lemmas.C08g.cj_keys s s1 body cs K rest hr hv hp ha h0 h1 hline hb hb10 ht hkm

/-- **the keys `ck`, text, ESC**: the rows `max (r - c) 0 .. r` (`body` is the first of them) -/
theorem ck_keys (s s1 : VS) (body cs : List Nat) (K rest : Bytes) (hr : viRead s = Res.ok 99 s1) (hv : s1.vibuf = [])
    (hp : pending s1 = 107 :: (K ++ rest)) (ha : 0 ≤ s1.arg1) (h0 : 0 ≤ s1.ed.xrow) (h1 : s1.ed.xrow < lenOf s1)
    (hline : (lines s1)[(max (s1.ed.xrow - opCount s1 0) 0).toNat]? = some (encStr (body ++ [10])))
    (hb : ∀ c ∈ body, ValidCp c) (hb10 : 10 ∉ body) (ht : TypedText K cs) (hkm : s1.xkmap = 0) :
    ∃ sm s', commandTail s = finRec 99 0 VC_OK s' ∧ pending s' = rest ∧ KeysDone (107 :: K) s1 s' ∧
      LineChanged K s1 sm s' (max (s1.ed.xrow - opCount s1 0) 0) s1.ed.xrow body cs :=
  Lemmas.C08g.ck_keys s s1 body cs K rest hr hv hp ha h0 h1 hline hb hb10 ht hkm

/-! ## 6. put, join, case, replace, shift from the keys -/

/-- a plain register name `c` (the unnamed register 0 or `"`, a lower-case letter, a digit …: not upper-case, not
the computed `;` `#` `^`): `reg_get` returns what the table holds -/
theorem regGetLn_plain (ed : Ed) (c : Nat) (h59 : c ≠ 59) (h35 : c ≠ 35) (h94 : c ≠ 94) (h34 : c ≠ 34) :
    regGetLn ed c = ((ed.regs.getRaw c).1, some (ed.regs.getRaw c).2) :=
  Lemmas.C08g.regGetLn_plain ed c h59 h35 h94 h34

/-- **the key `p` with a character-wise register** (the unnamed one, or `"a`..`"z`, `"1`..`"9` … as chosen by the
prefix: `s1.ybuf`) holding the text `bs`: `max 1 count` copies go in after the cursor character, the cursor ends on
the last inserted character -/
theorem p_chars_keys (s s1 : VS) (body bs : List Nat) (o : Nat) (hr : viRead s = Res.ok 112 s1) (hv : s1.vibuf = [])
    (hrow : OnRow s1 body o) (hreg : regGetLn s1.ed s1.ybuf = (some (encStr bs), some 0)) (hbs : ∀ c ∈ bs, ValidCp c)
    (hbs10 : 10 ∉ bs) (hne : bs ≠ []) :
    ∃ s', commandTail s = finRec 112 0 VC_OK s' ∧ pending s' = pending s1 ∧ KeysDone [] s1 s' ∧
      PutChars s1 s' s1.ed.xrow body (copies (cnt1 s1) bs) (o + 1) :=
  Lemmas.C08g.p_chars_keys s s1 body bs o hr hv hrow hreg hbs hbs10 hne

/-- **the key `P` with a character-wise register**: the copies go in before the cursor character -/
theorem P_chars_keys (s s1 : VS) (body bs : List Nat) (o : Nat) (hr : viRead s = Res.ok 80 s1) (hv : s1.vibuf = [])
    (hrow : OnRow s1 body o) (hreg : regGetLn s1.ed s1.ybuf = (some (encStr bs), some 0)) (hbs : ∀ c ∈ bs, ValidCp c)
    (hbs10 : 10 ∉ bs) (hne : bs ≠ []) :
    ∃ s', commandTail s = finRec 80 0 VC_OK s' ∧ pending s' = pending s1 ∧ KeysDone [] s1 s' ∧
      PutChars s1 s' s1.ed.xrow body (copies (cnt1 s1) bs) o :=
  Lemmas.C08g.P_chars_keys s s1 body bs o hr hv hrow hreg hbs hbs10 hne

/-- **the key `p` with a line-wise register** holding the lines `rows`: `max 1 count` copies of them are inserted
below the cursor row, the cursor moves onto the first non-blank of the first of them -/
theorem p_lines_keys (s s1 : VS) (rows : List Bytes) (lnm : Nat) (hr : viRead s = Res.ok 112 s1) (hv : s1.vibuf = [])
    (hreg : regGetLn s1.ed s1.ybuf = (some rows.flatten, some lnm)) (hl : lnm ≠ 0)
    (hrows : ∀ l ∈ rows, Props.C01.WfLine l) (hne : rows ≠ []) (h0 : 0 ≤ s1.ed.xrow) (h1 : s1.ed.xrow < lenOf s1) :
    ∃ s', commandTail s = finRec 112 0 VC_OK s' ∧ pending s' = pending s1 ∧ KeysDone [] s1 s' ∧
      PutLines s1 s' (s1.ed.xrow + 1) (copies (cnt1 s1) rows) :=
  Lemmas.C08g.p_lines_keys s s1 rows lnm hr hv hreg hl hrows hne h0 h1

/-- **the key `P` with a line-wise register**: the copies are inserted above the cursor row; the cursor keeps its
row number (now the first inserted line), on the first non-blank -/
theorem P_lines_keys (s s1 : VS) (rows : List Bytes) (lnm : Nat) (hr : viRead s = Res.ok 80 s1) (hv : s1.vibuf = [])
    (hreg : regGetLn s1.ed s1.ybuf = (some rows.flatten, some lnm)) (hl : lnm ≠ 0)
    (hrows : ∀ l ∈ rows, Props.C01.WfLine l) (hne : rows ≠ []) (h0 : 0 ≤ s1.ed.xrow) (h1 : s1.ed.xrow < lenOf s1) :
    ∃ s', commandTail s = finRec 80 0 VC_OK s' ∧ pending s' = pending s1 ∧ KeysDone [] s1 s' ∧
      PutLines s1 s' s1.ed.xrow (copies (cnt1 s1) rows) :=
  Lemmas.C08g.P_lines_keys s s1 rows lnm hr hv hreg hl hrows hne h0 h1

/-- any register name but the computed `;` `#` `^`: `reg_get` returns what the table holds under `regTarget c` (the name
itself; the unnamed register for `"`) -/
theorem regGetLn_name (ed : Ed) (c : Nat) (h59 : c ≠ 59) (h35 : c ≠ 35) (h94 : c ≠ 94) :
    regGetLn ed c = ((ed.regs.getRaw (regTarget c)).1, some (ed.regs.getRaw (regTarget c)).2) :=
  Lemmas.C08g.regGetLn_name ed c h59 h35 h94

/-- **`p` / `P` with a named or numbered register** (`"ap`, `"1P` …: `s1.ybuf` is the name read by `viPre`; 0 without a
prefix) that holds the characters `bs` in character mode: `max 1 count` copies go in after (`p`) / before (`P`) the
cursor character -/
theorem put_chars_reg_keys (c : Nat) (hc : c = 112 ∨ c = 80) (s s1 : VS) (body bs : List Nat) (o : Nat)
    (hr : viRead s = Res.ok (c : Int) s1) (hv : s1.vibuf = []) (hrow : OnRow s1 body o)
    (hname : s1.ybuf ≠ 59 ∧ s1.ybuf ≠ 35 ∧ s1.ybuf ≠ 94)
    (hreg : s1.ed.regs.getRaw (regTarget s1.ybuf) = (some (encStr bs), 0)) (hbs : ∀ c ∈ bs, ValidCp c)
    (hbs10 : 10 ∉ bs) (hne : bs ≠ []) :
    ∃ s', commandTail s = finRec (c : Int) 0 VC_OK s' ∧ pending s' = pending s1 ∧ KeysDone [] s1 s' ∧
      PutChars s1 s' s1.ed.xrow body (copies (cnt1 s1) bs) (o + if c = 112 then 1 else 0) :=
  Lemmas.C08g.put_chars_reg_keys c hc s s1 body bs o hr hv hrow hname hreg hbs hbs10 hne

/-- **`p` / `P` with a named or numbered register** that holds the lines `rows` in line mode (as after `"ayy`, or `"1`
after a `dd`): `max 1 count` copies of them are inserted below (`p`) / above (`P`) the cursor row -/
theorem put_lines_reg_keys (c : Nat) (hc : c = 112 ∨ c = 80) (s s1 : VS) (rows : List Bytes) (lnm : Nat)
    (hr : viRead s = Res.ok (c : Int) s1) (hv : s1.vibuf = []) (hname : s1.ybuf ≠ 59 ∧ s1.ybuf ≠ 35 ∧ s1.ybuf ≠ 94)
    (hreg : s1.ed.regs.getRaw (regTarget s1.ybuf) = (some rows.flatten, lnm)) (hl : lnm ≠ 0)
    (hrows : ∀ l ∈ rows, Props.C01.WfLine l) (hne : rows ≠ []) (h0 : 0 ≤ s1.ed.xrow) (h1 : s1.ed.xrow < lenOf s1) :
    ∃ s', commandTail s = finRec (c : Int) 0 VC_OK s' ∧ pending s' = pending s1 ∧ KeysDone [] s1 s' ∧
      PutLines s1 s' (s1.ed.xrow + if c = 112 then 1 else 0) (copies (cnt1 s1) rows) :=
  Lemmas.C08g.put_lines_reg_keys c hc s s1 rows lnm hr hv hname hreg hl hrows hne h0 h1

/-- **the key `J`** (`[count]J`): `max 2 count` rows — the cursor row `a` and the `|ws|` rows below it, which must
exist — are joined into `joinRows a ws` (C08b: each further row is appended without its leading blanks, after the
spaces `join_spaces` asks for); the cursor is where the last joined row starts -/
theorem J_keys (s s1 : VS) (a : Bytes) (ws : List Bytes) (hr : viRead s = Res.ok 74 s1) (hv : s1.vibuf = [])
    (hr0 : 0 ≤ s1.ed.xrow) (hcnt : (if s1.arg1 ≤ 1 then 2 else s1.arg1) = ((ws.length + 1 : Nat) : Int))
    (hrows : ((lines s1).drop s1.ed.xrow.toNat).take (ws.length + 1) = (a :: ws).map (· ++ [10]))
    (h10 : ∀ w ∈ a :: ws, 10 ∉ w) :
    ∃ s', commandTail s = finRec 74 0 VC_OK s' ∧ pending s' = pending s1 ∧ KeysDone [] s1 s' ∧ Joined s1 s' a ws :=
  Lemmas.C08g.J_keys s s1 a ws hr hv hr0 hcnt hrows h10

/-- too few rows below the cursor: `J` changes nothing and reports failure -/
theorem J_keys_short (s s1 : VS) (hr : viRead s = Res.ok 74 s1) (hv : s1.vibuf = [])
    (h : lineOf s1 (s1.ed.xrow + (if s1.arg1 ≤ 1 then 2 else s1.arg1) - 1) = none) :
    ∃ s', commandTail s = finRec 74 0 0 s' ∧ pending s' = pending s1 ∧ KeysDone [] s1 s' ∧ lines s' = lines s1 ∧
      s'.ed.xrow = s1.ed.xrow ∧ s'.ed.xoff = s1.ed.xoff ∧ s'.ed.regs = s1.ed.regs :=
  Lemmas.C08g.J_keys_short s s1 hr hv h

/-- **the key `~`** (`[count]~`): the `min c (|body| - o)` characters from the cursor on are toggled, the cursor moves
behind them (onto the last character of the line, after the window fix, when the line ends there) -/
theorem tilde_keys (s s1 : VS) (body : List Nat) (o : Nat) (hr : viRead s = Res.ok 126 s1) (hv : s1.vibuf = [])
    (hrow : OnRow s1 body o) :
    ∃ sm s', commandTail s = finRec 126 0 VC_OK s' ∧ pending s' = pending s1 ∧ KeysDone [] s1 s' ∧
      RowCased 126 s1 sm s' s1.ed.xrow body o (min (o + (opCount s1 0).toNat) body.length) :=
  Lemmas.C08g.tilde_keys s s1 body o hr hv hrow

/-- **the keys `g~w`, `guw`, `gUw`**: the characters from the cursor to the start of the next word (`c`-th with a
count) are toggled / lowered / raised -/
theorem g_case_w_keys (op : Nat) (hop : op = 126 ∨ op = 117 ∨ op = 85) (s s1 : VS) (body : List Nat) (o t : Nat)
    (rest : Bytes) (hr : viRead s = Res.ok 103 s1) (hv : s1.vibuf = []) (hp : pending s1 = op :: 119 :: rest)
    (hrow : OnRow s1 body o) (hu : Utf8Buf (lines s1))
    (href : Motion.wordFwdRaw false (refBufU (lines s1)) ⟨s1.ed.xrow.toNat, o⟩ (opCount s1 0).toNat = ⟨s1.ed.xrow.toNat, t⟩) :
    ∃ sm s', commandTail s = finRec 103 (op : Int) VC_OK s' ∧ pending s' = rest ∧ KeysDone [op, 119] s1 s' ∧
      RowCased op s1 sm s' s1.ed.xrow body (min o t) (max o t) :=
  Lemmas.C08g.g_case_w_keys op hop s s1 body o t rest hr hv hp hrow hu href

/-- **the keys `g~$`, `gu$`, `gU$`** -/
theorem g_case_dollar_keys (op : Nat) (hop : op = 126 ∨ op = 117 ∨ op = 85) (s s1 : VS) (body : List Nat) (o : Nat)
    (rest : Bytes) (hr : viRead s = Res.ok 103 s1) (hv : s1.vibuf = []) (hp : pending s1 = op :: 36 :: rest)
    (hrow : OnRow s1 body o) :
    ∃ sm s', commandTail s = finRec 103 (op : Int) VC_OK s' ∧ pending s' = rest ∧ KeysDone [op, 36] s1 s' ∧
      RowCased op s1 sm s' s1.ed.xrow body o body.length :=
  Lemmas.C08g.g_case_dollar_keys op hop s s1 body o rest hr hv hp hrow

/-- **the keys `r c`** (`[count]r c`; `c` a typable character sent as its UTF-8 bytes), `n = max 1 count`: when `n`
characters remain from the cursor on they are replaced by `n` copies of `c` and the cursor is on the last of them;
otherwise nothing changes and the command reports failure -/
theorem r_keys (s s1 : VS) (body : List Nat) (c o : Nat) (rest : Bytes) (hr : viRead s = Res.ok 114 s1)
    (hv : s1.vibuf = []) (hp : pending s1 = enc c ++ rest) (hrow : OnRow s1 body o)
    (hc : ValidCp c ∧ 32 ≤ c ∧ c ≠ 127) (hkm : s1.xkmap = 0) :
    (o + cnt1 s1 ≤ body.length →
      ∃ s', commandTail s = finRec 114 0 VC_OK s' ∧ pending s' = rest ∧ KeysDone (enc c) s1 s' ∧
        RowReplaced s1 s' body o (cnt1 s1) c) ∧
    (body.length < o + cnt1 s1 →
      ∃ s', commandTail s = finRec 114 0 0 s' ∧ pending s' = rest ∧ KeysDone (enc c) s1 s' ∧ lines s' = lines s1 ∧
        s'.ed.xrow = s1.ed.xrow ∧ s'.ed.xoff = s1.ed.xoff ∧ s'.ed.regs = s1.ed.regs) :=
  Lemmas.C08g.r_keys s s1 body c o rest hr hv hp hrow hc hkm

/-- **the keys `>>`, `<<`** (`[count]>>`): the rows `r .. min (r + c - 1) (n - 1)` are shifted -/
theorem shift_dbl_keys (cmd : Nat) (hc : cmd = 62 ∨ cmd = 60) (s s1 : VS) (rest : Bytes)
    (hr : viRead s = Res.ok (cmd : Int) s1) (hv : s1.vibuf = []) (hp : pending s1 = cmd :: rest) (ha : 0 ≤ s1.arg1)
    (h0 : 0 ≤ s1.ed.xrow) (h1 : s1.ed.xrow < lenOf s1) (hwf : ∀ l ∈ lines s1, Props.C01.WfLine l) :
    ∃ sm s', commandTail s = finRec (cmd : Int) 0 VC_OK s' ∧ pending s' = rest ∧ KeysDone [cmd] s1 s' ∧
      LineShifted (if cmd = 62 then 1 else -1) s1 sm s' s1.ed.xrow (min (s1.ed.xrow + opCount s1 0 - 1) (lenOf s1 - 1)) :=
  Lemmas.C08g.shift_dbl_keys cmd hc s s1 rest hr hv hp ha h0 h1 hwf

/-- **the keys `>j`, `<j`**: the rows `r .. min (r + c) (n - 1)` -/
theorem shift_j_keys (cmd : Nat) (hc : cmd = 62 ∨ cmd = 60) (s s1 : VS) (rest : Bytes)
    (hr : viRead s = Res.ok (cmd : Int) s1) (hv : s1.vibuf = []) (hp : pending s1 = 106 :: rest) (ha : 0 ≤ s1.arg1)
    (h0 : 0 ≤ s1.ed.xrow) (h1 : s1.ed.xrow < lenOf s1) (hwf : ∀ l ∈ lines s1, Props.C01.WfLine l) :
    ∃ sm s', commandTail s = finRec (cmd : Int) 0 VC_OK s' ∧ pending s' = rest ∧ KeysDone [106] s1 s' ∧
      LineShifted (if cmd = 62 then 1 else -1) s1 sm s' s1.ed.xrow (min (s1.ed.xrow + opCount s1 0) (lenOf s1 - 1)) :=
  Lemmas.C08g.shift_j_keys cmd hc s s1 rest hr hv hp ha h0 h1 hwf

/-! ## 7. one whole iteration of `vi()` -/

/-- **`viPre` on a command key** (`isCmdKey`: `c d y > < p P J r ~ g x X D C s S Y`) typed without count or
register prefix: no motion (`mv = 0`); `vi_yankbuf`, `vi_prefix` and `vi_motion` each looked at the key and pushed it
back, so it is left on the push-back stack (`preSt`), the counts and the register prefix are cleared and `icmd`
restarts with the key -/
theorem viPre_cmd (c : Nat) (hc : isCmdKey c) (s : VS) (more : Bytes) (hv : s.vibuf = []) (hp : pending s = c :: more) :
    ∃ ib ip ty, viPre s = Res.ok (0, s.ed.xrow, noeol s s.ed.xrow s.ed.xoff) (preSt s c ib ip ty) ∧ ib.drop ip ++ ty = more :=
  Lemmas.C08g.viPre_cmd c hc s more hv hp

/-- **`viPost` after a command** (`mod`: what the command reported), from a state that is not quitting and has at most
one line of output waiting: it returns; the window fix settles the cursor, the sticky column and the horizontal scroll
are updated, the output is shown, `lbuf_modified` runs — nothing else changes (`PostFrame`) -/
theorem viPost_spec (mod : Nat) (s : VS) (hq : s.ed.xquit = false) (hout : nlCount s.ed.out ≤ 1) :
    ∃ s', viPost (some mod) s = Res.ok () s' ∧ PostFrame s s' :=
  Lemmas.C08g.viPost_spec mod s hq hout

/-- `finRec` then `viPost`, from a state that is not quitting and has no output to show: both return, and the state
is `Settled` -/
theorem finish_step (c k : Int) (m : Nat) (s' : VS) (hq : s'.ed.xquit = false) (hout : nlCount s'.ed.out ≤ 1) :
    ∃ sf s'', finRec c k m s' = Res.ok (some m) sf ∧ viPost (some m) sf = Res.ok () s'' ∧ Settled s' s'' :=
  Lemmas.C08g.finish_step c k m s' hq hout

/-- **one iteration on a plain command key `c`**: `s0` is the state in which the dispatcher starts (the key on the
push-back stack), `s1` the state once it has read the key.  Whatever `commandTail` does — it ends in `finRec` from
a state `s'` that kept `xquit`, `out`, `xtd` — the iteration returns, and leaves `s'` settled -/
theorem viStep_via (c : Nat) (hc : isCmdKey c) (s : VS) (more : Bytes) (hi : Idle s) (hp : pending s = c :: more) :
    ∃ s0 s1, viRead s0 = Res.ok (c : Int) s1 ∧ s1.ed = s.ed ∧ s1.vibuf = [] ∧ pending s1 = more ∧
      s1.arg1 = 0 ∧ s1.ybuf = 0 ∧ s1.xkmap = s.xkmap ∧ s1.xai = s.xai ∧ s1.icmd = [c] ∧
      ∀ (k : Int) (m : Nat) (s' : VS), commandTail s0 = finRec (c : Int) k m s' → edk s' = edk s1 →
        ∃ s'', viStep s = Res.ok () s'' ∧ Settled s' s'' :=
  Lemmas.C08g.viStep_via c hc s more hi hp

/-- **`yy` as one iteration** (no count, no register prefix): the text and the cursor row are unchanged, the unnamed
register holds the cursor line in line mode -/
theorem yy_step (s : VS) (rest : Bytes) (hi : Idle s) (hwf : RegsWf s.ed.regs) (hp : pending s = 121 :: 121 :: rest)
    (h0 : 0 ≤ s.ed.xrow) (h1 : s.ed.xrow < lenOf s) :
    ∃ s'', viStep s = Res.ok () s'' ∧ StepDone s s'' rest ∧ lines s'' = lines s ∧ s''.ed.xrow = s.ed.xrow ∧
      s''.ed.regs.getRaw 0 = (some (rowsText (lines s) s.ed.xrow s.ed.xrow), 1) :=
  Lemmas.C08g.yy_step s rest hi hwf hp h0 h1

/-- **`dd` as one iteration**: the cursor line is gone, the unnamed register holds it in line mode, the cursor is
on the line that followed (the new last line when the last line went) -/
theorem dd_step (s : VS) (rest : Bytes) (hi : Idle s) (hwf : RegsWf s.ed.regs) (hp : pending s = 100 :: 100 :: rest)
    (h0 : 0 ≤ s.ed.xrow) (h1 : s.ed.xrow < lenOf s) :
    ∃ s'', viStep s = Res.ok () s'' ∧ StepDone s s'' rest ∧
      lines s'' = (lines s).take s.ed.xrow.toNat ++ (lines s).drop (s.ed.xrow.toNat + 1) ∧
      s''.ed.xrow = min s.ed.xrow (max 0 (lenOf s - 2)) ∧
      s''.ed.regs.getRaw 0 = (some (rowsText (lines s) s.ed.xrow s.ed.xrow), 1) :=
  Lemmas.C08g.dd_step s rest hi hwf hp h0 h1

/-- **`x` as one iteration** on a character that is not the last of its line: the character is gone, the unnamed
register holds it, the cursor stays (now on the character that followed) -/
theorem x_step (s : VS) (body : List Nat) (o : Nat) (rest : Bytes) (hi : Idle s) (hwf : RegsWf s.ed.regs)
    (hp : pending s = 120 :: rest) (hrow : OnRow s body o) (hnl : o + 1 < body.length) :
    ∃ s'', viStep s = Res.ok () s'' ∧ StepDone s s'' rest ∧ RowIs s s'' (body.take o ++ body.drop (o + 1)) ∧
      s''.ed.xrow = s.ed.xrow ∧ s''.ed.xoff = (o : Int) ∧
      s''.ed.regs.getRaw 0 = (some (encStr ((body.take (o + 1)).drop o)), 0) :=
  Lemmas.C08g.x_step s body o rest hi hwf hp hrow hnl

/-- **`dw` as one iteration**, when the next word starts at `t` on the same row (`o < t < |body|`): the characters
`[o, t)` are gone, the unnamed register holds them, the cursor stays -/
theorem dw_step (s : VS) (body : List Nat) (o t : Nat) (rest : Bytes) (hi : Idle s) (hwf : RegsWf s.ed.regs)
    (hp : pending s = 100 :: 119 :: rest) (hrow : OnRow s body o) (hu : Utf8Buf (lines s))
    (href : Motion.wordFwdRaw false (refBufU (lines s)) ⟨s.ed.xrow.toNat, o⟩ 1 = ⟨s.ed.xrow.toNat, t⟩) (hot : o < t)
    (htl : t < body.length) :
    ∃ s'', viStep s = Res.ok () s'' ∧ StepDone s s'' rest ∧ RowIs s s'' (body.take o ++ body.drop t) ∧
      s''.ed.xrow = s.ed.xrow ∧ s''.ed.xoff = (o : Int) ∧
      s''.ed.regs.getRaw 0 = (some (encStr ((body.take t).drop o)), 0) :=
  Lemmas.C08g.dw_step s body o t rest hi hwf hp hrow hu href hot htl

/-- **`p` / `P` with the unnamed register holding the characters `bs` (character mode), as one iteration**: `bs` goes in
after (`p`) / before (`P`) the cursor character, the cursor ends on its last character -/
theorem put_chars_step (c : Nat) (hc : c = 112 ∨ c = 80) (s : VS) (body bs : List Nat) (o : Nat) (rest : Bytes)
    (hi : Idle s) (hwf : RegsWf s.ed.regs) (hp : pending s = c :: rest) (hrow : OnRow s body o)
    (hreg : s.ed.regs.getRaw 0 = (some (encStr bs), 0)) (hbs : ∀ c ∈ bs, ValidCp c) (hbs10 : 10 ∉ bs) (hne : bs ≠ []) :
    ∃ s'', viStep s = Res.ok () s'' ∧ StepDone s s'' rest ∧
      RowIs s s'' (body.take (o + if c = 112 then 1 else 0) ++ bs ++ body.drop (o + if c = 112 then 1 else 0)) ∧
      s''.ed.xrow = s.ed.xrow ∧ s''.ed.xoff = ((o + (if c = 112 then 1 else 0) + bs.length - 1 : Nat) : Int) ∧
      s''.ed.regs.getRaw 0 = (some (encStr bs), 0) :=
  Lemmas.C08g.put_chars_step c hc s body bs o rest hi hwf hp hrow hreg hbs hbs10 hne

/-- **`p` / `P` with the unnamed register holding the lines `rows` (line mode), as one iteration**: they are inserted
below (`p`) / above (`P`) the cursor row, the cursor goes to the first of them -/
theorem put_lines_step (c : Nat) (hc : c = 112 ∨ c = 80) (s : VS) (rows : List Bytes) (lnm : Nat) (rest : Bytes)
    (hi : Idle s) (hwf : RegsWf s.ed.regs) (hp : pending s = c :: rest) (h0 : 0 ≤ s.ed.xrow)
    (h1 : s.ed.xrow < lenOf s) (hreg : s.ed.regs.getRaw 0 = (some rows.flatten, lnm)) (hl : lnm ≠ 0)
    (hrows : ∀ l ∈ rows, Props.C01.WfLine l) (hne : rows ≠ []) :
    ∃ s'', viStep s = Res.ok () s'' ∧ StepDone s s'' rest ∧
      lines s'' = (lines s).take (s.ed.xrow + if c = 112 then 1 else 0).toNat ++ rows ++
        (lines s).drop (s.ed.xrow + if c = 112 then 1 else 0).toNat ∧
      s''.ed.xrow = s.ed.xrow + (if c = 112 then 1 else 0) ∧
      s''.ed.regs.getRaw 0 = (some rows.flatten, lnm) :=
  Lemmas.C08g.put_lines_step c hc s rows lnm rest hi hwf hp h0 h1 hreg hl hrows hne

/-- **`cw`, text, ESC as one iteration** (no count), when the next word starts at `t` on the same row: the characters
`[min o t, max o t)` are replaced by the typed text, the unnamed register holds them, the cursor is on the last typed
character -/
theorem cw_step (s : VS) (body cs : List Nat) (o t : Nat) (K rest : Bytes) (hi : Idle s) (hwf : RegsWf s.ed.regs)
    (hp : pending s = 99 :: 119 :: (K ++ rest)) (hrow : OnRow s body o) (hu : Utf8Buf (lines s))
    (href : Motion.wordFwdRaw false (refBufU (lines s)) ⟨s.ed.xrow.toNat, o⟩ 1 = ⟨s.ed.xrow.toNat, t⟩)
    (htb : t ≤ body.length) (ht : TypedText K cs) (hkm : s.xkmap = 0) :
    ∃ s'', viStep s = Res.ok () s'' ∧ StepDone s s'' rest ∧
      RowIs s s'' (body.take (min o t) ++ cs ++ body.drop (max o t)) ∧
      s''.ed.xrow = s.ed.xrow ∧ s''.ed.xoff = ((min o t + cs.length - 1 : Nat) : Int) ∧
      s''.ed.regs.getRaw 0 = (some (encStr ((body.take (max o t)).drop (min o t))), 0) :=
  Lemmas.C08g.cw_step s body cs o t K rest hi hwf hp hrow hu href htb ht hkm

/-- **`C` / `s`, text, ESC as one iteration** (no count): `C` replaces the characters from the cursor to the end of the
line, `s` the cursor character -/
theorem Cs_step (c : Nat) (hc : c = 67 ∨ c = 115) (s : VS) (body cs : List Nat) (o : Nat) (K rest : Bytes)
    (hi : Idle s) (hwf : RegsWf s.ed.regs) (hp : pending s = c :: (K ++ rest)) (hrow : OnRow s body o)
    (ht : TypedText K cs) (hkm : s.xkmap = 0) :
    ∃ s'', viStep s = Res.ok () s'' ∧ StepDone s s'' rest ∧
      RowIs s s'' (body.take o ++ cs ++ body.drop (if c = 67 then body.length else o + 1)) ∧
      s''.ed.xrow = s.ed.xrow ∧ s''.ed.xoff = ((o + cs.length - 1 : Nat) : Int) ∧
      s''.ed.regs.getRaw 0 = (some (encStr ((body.take (if c = 67 then body.length else o + 1)).drop o)), 0) :=
  Lemmas.C08g.Cs_step c hc s body cs o K rest hi hwf hp hrow ht hkm

/-- **`cc`, text, ESC as one iteration** (no count): the cursor line `body` becomes `indentation ++ text`, the unnamed
register holds the old line in line mode, the cursor is on the last typed character -/
theorem cc_step (s : VS) (body cs : List Nat) (K rest : Bytes) (hi : Idle s) (hwf : RegsWf s.ed.regs)
    (hp : pending s = 99 :: 99 :: (K ++ rest)) (h0 : 0 ≤ s.ed.xrow)
    (hline : (lines s)[s.ed.xrow.toNat]? = some (encStr (body ++ [10]))) (hb : ∀ c ∈ body, ValidCp c)
    (hb10 : 10 ∉ body) (ht : TypedText K cs) (hkm : s.xkmap = 0) :
    ∃ s'', viStep s = Res.ok () s'' ∧ StepDone s s'' rest ∧ RowIs s s'' (indentOf s body ++ cs) ∧
      s''.ed.xrow = s.ed.xrow ∧ s''.ed.xoff = (((indentOf s body).length + cs.length - 1 : Nat) : Int) ∧
      s''.ed.regs.getRaw 0 = (some (encStr (body ++ [10])), 1) :=
  Lemmas.C08g.cc_step s body cs K rest hi hwf hp h0 hline hb hb10 ht hkm

/-! ## 8. the round trips -/

/-- **`yyp` duplicates the cursor line.**  Two iterations of `vi()` on the keys `y y p`: the line `L` under the cursor
appears a second time below itself, the cursor is on the copy -/
theorem yyp_steps (s : VS) (L : Bytes) (rest : Bytes) (hi : Idle s) (hwf : RegsWf s.ed.regs)
    (hp : pending s = 121 :: 121 :: 112 :: rest) (h0 : 0 ≤ s.ed.xrow) (hline : (lines s)[s.ed.xrow.toNat]? = some L)
    (hL : Props.C01.WfLine L) :
    ∃ s1 s2, viStep s = Res.ok () s1 ∧ viStep s1 = Res.ok () s2 ∧ StepDone s s2 rest ∧
      lines s2 = (lines s).take (s.ed.xrow.toNat + 1) ++ [L] ++ (lines s).drop (s.ed.xrow.toNat + 1) ∧
      s2.ed.xrow = s.ed.xrow + 1 :=
  Lemmas.C08g.yyp_steps s L rest hi hwf hp h0 hline hL

/-- **`ddP` restores the text** when the cursor line is not the last: two iterations on the keys `d d P` leave every
line where it was, and the cursor on its row -/
theorem ddP_steps (s : VS) (L : Bytes) (rest : Bytes) (hi : Idle s) (hwf : RegsWf s.ed.regs)
    (hp : pending s = 100 :: 100 :: 80 :: rest) (h0 : 0 ≤ s.ed.xrow) (hnl : s.ed.xrow + 1 < lenOf s)
    (hline : (lines s)[s.ed.xrow.toNat]? = some L) (hL : Props.C01.WfLine L) :
    ∃ s1 s2, viStep s = Res.ok () s1 ∧ viStep s1 = Res.ok () s2 ∧ StepDone s s2 rest ∧
      lines s1 = (lines s).take s.ed.xrow.toNat ++ (lines s).drop (s.ed.xrow.toNat + 1) ∧
      lines s2 = lines s ∧ s2.ed.xrow = s.ed.xrow :=
  Lemmas.C08g.ddP_steps s L rest hi hwf hp h0 hnl hline hL

/-- **`xp` swaps two characters.**  The cursor row is `pre ++ a :: b :: post`, the cursor on `a`: two iterations on the
keys `x p` leave `pre ++ b :: a :: post`, the cursor on `a` -/
theorem xp_steps (s : VS) (pre post : List Nat) (a b : Nat) (rest : Bytes) (hi : Idle s) (hwf : RegsWf s.ed.regs)
    (hp : pending s = 120 :: 112 :: rest) (hrow : OnRow s (pre ++ a :: b :: post) pre.length) :
    ∃ s1 s2, viStep s = Res.ok () s1 ∧ viStep s1 = Res.ok () s2 ∧ StepDone s s2 rest ∧
      RowIs s s1 (pre ++ b :: post) ∧ RowIs s s2 (pre ++ b :: a :: post) ∧
      s2.ed.xrow = s.ed.xrow ∧ s2.ed.xoff = ((pre.length + 1 : Nat) : Int) :=
  Lemmas.C08g.xp_steps s pre post a b rest hi hwf hp hrow

/-- **`dwP` restores the text** when the next word starts at `t` on the same row (`o < t < |body|`): two iterations on
the keys `d w P` leave the row as it was; the cursor is on the last character that was put back -/
theorem dwP_steps (s : VS) (body : List Nat) (o t : Nat) (rest : Bytes) (hi : Idle s) (hwf : RegsWf s.ed.regs)
    (hp : pending s = 100 :: 119 :: 80 :: rest) (hrow : OnRow s body o) (hu : Utf8Buf (lines s))
    (href : Motion.wordFwdRaw false (refBufU (lines s)) ⟨s.ed.xrow.toNat, o⟩ 1 = ⟨s.ed.xrow.toNat, t⟩) (hot : o < t)
    (htl : t < body.length) :
    ∃ s1 s2, viStep s = Res.ok () s1 ∧ viStep s1 = Res.ok () s2 ∧ StepDone s s2 rest ∧
      RowIs s s1 (body.take o ++ body.drop t) ∧ lines s2 = lines s ∧
      s2.ed.xrow = s.ed.xrow ∧ s2.ed.xoff = ((t - 1 : Nat) : Int) :=
  Lemmas.C08g.dwP_steps s body o t rest hi hwf hp hrow hu href hot htl


/-! ## 9. checks: the hypotheses are satisfiable, refuted conjectures, concrete runs -/

section Examples
open Neatvi.Props.C08b (exSt exEd)

/-- the text of `exSt`: `hello w` / `b` -/
def exLines : List Bytes := [[104, 101, 108, 108, 111, 32, 119, 10], [98, 10]]
def exBody : List Nat := [104, 101, 108, 108, 111, 32, 119]

theorem exUtf8 : Utf8Buf exLines := by
  intro l hl
  simp only [exLines, List.mem_cons, List.not_mem_nil, or_false] at hl
  rcases hl with rfl | rfl
  · exact ⟨exBody, by decide +kernel, by decide, by decide⟩
  · exact ⟨[98], by decide +kernel, by decide, by decide⟩

theorem exWf : ∀ l ∈ exLines, Props.C01.WfLine l := by
  intro l hl
  simp only [exLines, List.mem_cons, List.not_mem_nil, or_false] at hl
  rcases hl with rfl | rfl
  · exact ⟨[104, 101, 108, 108, 111, 32, 119], rfl, by decide⟩
  · exact ⟨[98], rfl, by decide⟩

/-- the command key `c` typed in `exSt`: the state `s1` once it has been read -/
theorem exKey (c : Nat) (more : Bytes) (row off : Int) :
    ∃ s1, viRead (exSt (c :: more) row off) = Res.ok (c : Int) s1 ∧ s1.vibuf = [] ∧ pending s1 = more ∧
      s1.ed = (exSt (c :: more) row off).ed ∧ s1.arg1 = 0 ∧ s1.ybuf = 0 ∧ s1.xkmap = 0 ∧ lines s1 = exLines ∧
      s1.icmd = [c] := by
  obtain ⟨s1, h1, h2, h3, h4⟩ := typed_key (exSt (c :: more) row off) c more rfl rfl
  obtain ⟨a1, a2, a3, a4, a5⟩ := Lemmas.C08g.reads_false_frame h4
  refine ⟨s1, h1, h2, h3, a1, a4, a2, a3, by unfold Vi.lines; rw [a1]; rfl, ?_⟩
  obtain ⟨ib, ip, ty, xl, e, -⟩ := h4
  rw [e]; rfl

theorem onRow_ed {s s1 : VS} {body : List Nat} {o : Nat} (h : OnRow s body o) (he : s1.ed = s.ed) : OnRow s1 body o :=
  ⟨by rw [he]; exact h.row0, by unfold Vi.lines; rw [he]; exact h.line, h.valid, h.no10, by rw [he]; exact h.off, h.onChar⟩

theorem exRow (keys : Bytes) (o : Nat) (ho : o < 7) : OnRow (exSt keys 0 o) exBody o :=
  ⟨Int.le_refl 0, (by show exLines[(0 : Int).toNat]? = some (encStr (exBody ++ [10])); decide +kernel), by decide, by decide, rfl, ho⟩

-- `cw` on the `h` of `hello w`, typed `XY`: the theorem gives the line `XYw` (the blank went too)
example : ∃ s', commandTail (exSt [99, 119, 88, 89, 27, 90] 0 0) = finRec 99 0 VC_OK s' ∧ pending s' = [90] ∧
    lines s' = [encStr [88, 89, 119, 10], [98, 10]] ∧ s'.ed.xoff = 1 ∧ s'.icmd = [99, 119, 88, 89, 27] := by
  obtain ⟨s1, hr, hv, hp, he, ha, hy, hk, hl, hic⟩ := exKey 99 [119, 88, 89, 27, 90] 0 0
  have hoc : opCount s1 0 = 1 := by rw [opCount_zero, ha]; rfl
  obtain ⟨sm, s', e1, e2, e3, e4⟩ := cw_keys _ s1 exBody [88, 89] 0 [88, 89, 27] [90] 6 hr hv hp (onRow_ed (exRow _ 0 (by decide)) he)
    (by rw [hl]; exact exUtf8) (by rw [hl, hoc, he]; decide +kernel)
    (typedText_plain [88, 89] (by decide) (by decide) (by decide)) hk
  refine ⟨s', e1, e2, ?_, ?_, ?_⟩
  · rw [e4.lines, hl, he]; rfl
  · rw [e4.xoff]; rfl
  · rw [e3.icmd]
    rw [hic]; rfl

-- `C` on the first `l` of `hello w`
example : ∃ s', commandTail (exSt [67, 88, 89, 27] 0 2) = finRec 67 0 VC_OK s' ∧
    lines s' = [encStr [104, 101, 88, 89, 10], [98, 10]] ∧ s'.ed.xoff = 3 ∧
    s'.ed.regs.getRaw 0 = (some (encStr [108, 108, 111, 32, 119]), 0) := by
  obtain ⟨s1, hr, hv, hp, he, ha, hy, hk, hl, hic⟩ := exKey 67 [88, 89, 27] 0 2
  obtain ⟨sm, s', e1, e2, e3, e4⟩ := C_keys _ s1 exBody [88, 89] 2 [88, 89, 27] [] hr hv hp (onRow_ed (exRow _ 2 (by decide)) he)
    (typedText_plain [88, 89] (by decide) (by decide) (by decide)) hk
  refine ⟨s', e1, ?_, ?_, ?_⟩
  · rw [e4.lines, hl, he]; rfl
  · rw [e4.xoff]; rfl
  · rw [e4.regs, hy, he]
    exact Lemmas.C08g.getRaw0_put0 _ _ _ regsWf_default

-- `cc` on row 0 (no count): the row becomes `XY`, the register holds the old line in line mode
example : ∃ s', commandTail (exSt [99, 99, 88, 89, 27] 0 2) = finRec 99 0 VC_OK s' ∧
    lines s' = [encStr [88, 89, 10], [98, 10]] ∧ s'.ed.xoff = 1 ∧
    s'.ed.regs.getRaw 0 = (some [104, 101, 108, 108, 111, 32, 119, 10], 1) := by
  obtain ⟨s1, hr, hv, hp, he, ha, hy, hk, hl, hic⟩ := exKey 99 [99, 88, 89, 27] 0 2
  have hoc : opCount s1 0 = 1 := by rw [opCount_zero, ha]; rfl
  have hx : s1.ed.xrow = 0 := by rw [he]; rfl
  have hn : lenOf s1 = 2 := by unfold Vi.lenOf; rw [hl]; rfl
  obtain ⟨sm, s', e1, e2, e3, e4⟩ := cc_keys _ s1 exBody [88, 89] [88, 89, 27] [] hr hv hp (by rw [ha]; decide) (by rw [hx]; decide)
    (by rw [hx, hn]; decide) (by rw [hl, hx]; decide +kernel) (by decide) (by decide)
    (typedText_plain [88, 89] (by decide) (by decide) (by decide)) hk
  rw [hoc, hx, hn] at e4
  have hi : indentOf s1 exBody = [] := by unfold indentOf; split <;> rfl
  refine ⟨s', e1, ?_, ?_, ?_⟩
  · rw [e4.lines, hl, hi]; rfl
  · rw [e4.xoff, hi]; rfl
  · rw [e4.regs, hy, hl, he]
    exact Lemmas.C08g.getRaw0_put0 _ _ _ regsWf_default

-- `cfo` from the `e` of `hello w`: `ello` is replaced
example : ∃ s', commandTail (exSt [99, 102, 111, 88, 89, 27] 0 1) = finRec 99 0 VC_OK s' ∧
    lines s' = [encStr [104, 88, 89, 32, 119, 10], [98, 10]] ∧ s'.ed.xoff = 2 := by
  obtain ⟨s1, hr, hv, hp, he, ha, hy, hk, hl, hic⟩ := exKey 99 [102, 111, 88, 89, 27] 0 1
  have hoc : opCount s1 0 = 1 := by rw [opCount_zero, ha]; rfl
  obtain ⟨sm, s', e1, e2, e3, b1, b2, e4⟩ := cfc_keys _ s1 exBody [88, 89] 1 [88, 89, 27] [] 111 4 hr hv hp
    (onRow_ed (exRow _ 1 (by decide)) he) (by rw [ha]; decide) (by decide) (by rw [hoc]; decide +kernel)
    (typedText_plain [88, 89] (by decide) (by decide) (by decide)) hk
  refine ⟨s', e1, ?_, ?_⟩
  · rw [e4.lines, hl, he]; rfl
  · rw [e4.xoff]; rfl

/-- a key typed at the terminal, with what reading it leaves alone -/
theorem keyOf (s : VS) (c : Nat) (more : Bytes) (hv : s.vibuf = []) (hp : pending s = c :: more) :
    ∃ s1, viRead s = Res.ok (c : Int) s1 ∧ s1.vibuf = [] ∧ pending s1 = more ∧ s1.ed = s.ed ∧ s1.arg1 = s.arg1 ∧
      s1.ybuf = s.ybuf ∧ s1.xkmap = s.xkmap := by
  obtain ⟨s1, h1, h2, h3, h4⟩ := typed_key s c more hv hp
  obtain ⟨a1, a2, a3, a4, a5⟩ := Lemmas.C08g.reads_false_frame h4
  exact ⟨s1, h1, h2, h3, a1, a4, a2, a3⟩

/-- `exSt` with the register `c` set -/
def exReg (keys : Bytes) (row off : Int) (c : Nat) (txt : Bytes) (ln : Nat) (cnt : Int) (yb : Nat) : VS :=
  { exSt keys row off with ed := { (exSt keys row off).ed with regs := (({} : Regs).put c txt ln) }, arg1 := cnt, ybuf := yb }

-- `3p` with the unnamed register holding the characters `AB`, cursor on the first `l`: `helABABABlo w`
example : ∃ s', commandTail (exReg [112] 0 2 0 [65, 66] 0 3 0) = finRec 112 0 VC_OK s' ∧
    lines s' = [encStr [104, 101, 108, 65, 66, 65, 66, 65, 66, 108, 111, 32, 119, 10], [98, 10]] ∧ s'.ed.xoff = 8 := by
  obtain ⟨s1, hr, hv, hp, he, ha, hy, hk⟩ := keyOf (exReg [112] 0 2 0 [65, 66] 0 3 0) 112 [] rfl rfl
  have hrow : OnRow s1 exBody 2 := onRow_ed (s := exReg [112] 0 2 0 [65, 66] 0 3 0)
    ⟨Int.le_refl 0, (by show exLines[(0 : Int).toNat]? = some (encStr (exBody ++ [10])); decide +kernel), by decide, by decide,
      rfl, by decide⟩ he
  obtain ⟨s', e1, e2, e3, e4⟩ := p_chars_keys _ s1 exBody [65, 66] 2 hr hv hrow
    (by rw [hy, he]; decide +kernel) (by decide) (by decide) (by decide)
  have hc : cnt1 s1 = 3 := by unfold cnt1; rw [ha]; rfl
  have hl : lines s1 = exLines := by unfold Vi.lines; rw [he]; rfl
  rw [hc] at e4
  refine ⟨s', e1, ?_, ?_⟩
  · rw [e4.lines, he, hl]; rfl
  · rw [e4.xoff]; rfl

-- `"aP` with register `a` holding the two lines `AB` / `CD` (line mode), cursor on row 1: they go in above `b`
example : ∃ s', commandTail (exReg [80] 1 0 97 [65, 66, 10, 67, 68, 10] 1 0 97) = finRec 80 0 VC_OK s' ∧
    lines s' = [[104, 101, 108, 108, 111, 32, 119, 10], [65, 66, 10], [67, 68, 10], [98, 10]] ∧ s'.ed.xrow = 1 := by
  obtain ⟨s1, hr, hv, hp, he, ha, hy, hk⟩ := keyOf (exReg [80] 1 0 97 [65, 66, 10, 67, 68, 10] 1 0 97) 80 [] rfl rfl
  have hx : s1.ed.xrow = 1 := by rw [he]; rfl
  have hl : lines s1 = exLines := by unfold Vi.lines; rw [he]; rfl
  obtain ⟨s', e1, e2, e3, e4⟩ := P_lines_keys _ s1 [[65, 66, 10], [67, 68, 10]] 1 hr hv
    (by rw [hy, he]; decide +kernel) (by decide)
    (by intro l hl; simp at hl; rcases hl with rfl | rfl
        · exact ⟨[65, 66], rfl, by decide⟩
        · exact ⟨[67, 68], rfl, by decide⟩) (by decide) (by rw [hx]; decide) (by rw [hx]; unfold Vi.lenOf; rw [hl]; decide)
  have hc : cnt1 s1 = 1 := by unfold cnt1; rw [ha]; rfl
  rw [hc, hx] at e4
  exact ⟨s', e1, by rw [e4.lines, hl]; rfl, e4.xrow⟩

-- the same through `put_lines_reg_keys`: `"ap` puts them below row 0
example : ∃ s', commandTail (exReg [112] 0 0 97 [65, 66, 10, 67, 68, 10] 1 0 97) = finRec 112 0 VC_OK s' ∧
    lines s' = [[104, 101, 108, 108, 111, 32, 119, 10], [65, 66, 10], [67, 68, 10], [98, 10]] ∧ s'.ed.xrow = 1 := by
  obtain ⟨s1, hr, hv, hp, he, ha, hy, hk⟩ := keyOf (exReg [112] 0 0 97 [65, 66, 10, 67, 68, 10] 1 0 97) 112 [] rfl rfl
  have hx : s1.ed.xrow = 0 := by rw [he]; rfl
  have hl : lines s1 = exLines := by unfold Vi.lines; rw [he]; rfl
  obtain ⟨s', e1, e2, e3, e4⟩ := put_lines_reg_keys 112 (by simp) _ s1 [[65, 66, 10], [67, 68, 10]] 1 hr hv
    (by rw [hy]; decide) (by rw [hy, he]; decide +kernel) (by decide)
    (by intro l hl; simp at hl; rcases hl with rfl | rfl
        · exact ⟨[65, 66], rfl, by decide⟩
        · exact ⟨[67, 68], rfl, by decide⟩) (by decide) (by rw [hx]; decide) (by rw [hx]; unfold Vi.lenOf; rw [hl]; decide)
  have hc : cnt1 s1 = 1 := by unfold cnt1; rw [ha]; rfl
  rw [hc, hx] at e4
  exact ⟨s', e1, by rw [e4.lines, hl]; rfl, e4.xrow⟩

-- at the level of `vc_motion`, with a second count: `c2 SPC` typed `XY` from the `e` of `hello w` replaces `el`
example : ∃ s', vcMotion 99 (exSt [50, 32, 88, 89, 27] 0 1) = Res.ok VC_OK s' ∧
    lines s' = [encStr [104, 88, 89, 108, 111, 32, 119, 10], [98, 10]] ∧ s'.ed.xoff = 2 ∧
    s'.ed.regs.getRaw 0 = (some (encStr [101, 108]), 0) := by
  have r1 := viRead_pending (exSt [50, 32, 88, 89, 27] 0 1) 50 [32, 88, 89, 27] rfl rfl
  have r2 := viRead_pending (afterRead (exSt [50, 32, 88, 89, 27] 0 1)) 32 [88, 89, 27] rfl r1.2.1
  have hp : Prefixed (exSt [50, 32, 88, 89, 27] 0 1) 2 32 (afterRead (afterRead (exSt [50, 32, 88, 89, 27] 0 1))) :=
    prefixed_digit _ _ _ 50 32 r1.1 (by decide) (by decide) r2.1 (by decide)
  obtain ⟨s', e1, e2, e3⟩ := c_spc_spec _ _ 2 exBody [88, 89] 1 [88, 89, 27] [] hp (exRow _ 1 (by decide))
    (typedText_plain [88, 89] (by decide) (by decide) (by decide)) r2.2.1 rfl
  refine ⟨s', e1, ?_, ?_, ?_⟩
  · rw [e3.lines]; rfl
  · rw [e3.xoff]; rfl
  · rw [e3.regs]; exact Lemmas.C08g.getRaw0_put0 _ _ _ regsWf_default

-- `J` on row 0: `hello w b`, the cursor on the blank that was inserted
example : ∃ s', commandTail (exSt [74] 0 2) = finRec 74 0 VC_OK s' ∧
    lines s' = [[104, 101, 108, 108, 111, 32, 119, 32, 98, 10]] ∧ s'.ed.xoff = 7 := by
  obtain ⟨s1, hr, hv, hp, he, ha, hy, hk, hl, hic⟩ := exKey 74 [] 0 2
  have hx : s1.ed.xrow = 0 := by rw [he]; rfl
  obtain ⟨s', e1, e2, e3, e4⟩ := J_keys _ s1 [104, 101, 108, 108, 111, 32, 119] [[98]] hr hv (by rw [hx]; decide)
    (by rw [ha]; decide) (by rw [hl, hx]; rfl) (by decide)
  refine ⟨s', e1, ?_, ?_⟩
  · rw [e4.lines, hl, hx]; decide +kernel
  · rw [e4.xoff]; decide +kernel

-- `~` on the `w` of `hello w` (the last character): `W`; the cursor is left behind it (the window fix steps back)
example : ∃ s', commandTail (exSt [126] 0 6) = finRec 126 0 VC_OK s' ∧
    lines s' = [encStr [104, 101, 108, 108, 111, 32, 87, 10], [98, 10]] ∧ s'.ed.xoff = 7 := by
  obtain ⟨s1, hr, hv, hp, he, ha, hy, hk, hl, hic⟩ := exKey 126 [] 0 6
  have hoc : opCount s1 0 = 1 := by rw [opCount_zero, ha]; rfl
  obtain ⟨sm, s', e1, e2, e3, e4⟩ := tilde_keys _ s1 exBody 6 hr hv (onRow_ed (exRow _ 6 (by decide)) he)
  rw [hoc] at e4
  refine ⟨s', e1, ?_, ?_⟩
  · rw [e4.lines, hl, he]; decide +kernel
  · rw [e4.xoff]; rfl

-- `rX` on the `e` of `hello w`
example : ∃ s', commandTail (exSt [114, 88] 0 1) = finRec 114 0 VC_OK s' ∧
    lines s' = [encStr [104, 88, 108, 108, 111, 32, 119, 10], [98, 10]] ∧ s'.ed.xoff = 1 := by
  obtain ⟨s1, hr, hv, hp, he, ha, hy, hk, hl, hic⟩ := exKey 114 [88] 0 1
  have hc : cnt1 s1 = 1 := by unfold cnt1; rw [ha]; rfl
  obtain ⟨s', e1, e2, e3, e4⟩ := (r_keys _ s1 exBody 88 1 [] hr hv hp (onRow_ed (exRow _ 1 (by decide)) he) (by decide) hk).1
    (by rw [hc]; decide)
  rw [hc] at e4
  refine ⟨s', e1, ?_, ?_⟩
  · rw [e4.lines, hl, he]; rfl
  · rw [e4.xoff]; rfl

-- `gUw` on the `h` of `hello w`: `HELLO w`
example : ∃ s', commandTail (exSt [103, 85, 119] 0 0) = finRec 103 85 VC_OK s' ∧
    lines s' = [encStr [72, 69, 76, 76, 79, 32, 119, 10], [98, 10]] ∧ s'.ed.xoff = 6 := by
  obtain ⟨s1, hr, hv, hp, he, ha, hy, hk, hl, hic⟩ := exKey 103 [85, 119] 0 0
  have hoc : opCount s1 0 = 1 := by rw [opCount_zero, ha]; rfl
  obtain ⟨sm, s', e1, e2, e3, e4⟩ := g_case_w_keys 85 (by simp) _ s1 exBody 0 6 [] hr hv hp (onRow_ed (exRow _ 0 (by decide)) he)
    (by rw [hl]; exact exUtf8) (by rw [hl, hoc, he]; decide +kernel)
  refine ⟨s', e1, ?_, ?_⟩
  · rw [e4.lines, hl, he]; decide +kernel
  · rw [e4.xoff]; rfl

-- `>>` on row 0
example : ∃ s', commandTail (exSt [62, 62] 0 2) = finRec 62 0 VC_OK s' ∧
    lines s' = [[9, 104, 101, 108, 108, 111, 32, 119, 10], [98, 10]] ∧ s'.ed.xrow = 0 := by
  obtain ⟨s1, hr, hv, hp, he, ha, hy, hk, hl, hic⟩ := exKey 62 [62] 0 2
  have hoc : opCount s1 0 = 1 := by rw [opCount_zero, ha]; rfl
  have hx : s1.ed.xrow = 0 := by rw [he]; rfl
  have hn : lenOf s1 = 2 := by unfold Vi.lenOf; rw [hl]; rfl
  obtain ⟨sm, s', e1, e2, e3, e4⟩ := shift_dbl_keys 62 (by simp) _ s1 [] hr hv hp (by rw [ha]; decide) (by rw [hx]; decide)
    (by rw [hx, hn]; decide) (by rw [hl]; exact exWf)
  rw [hoc, hx, hn] at e4
  refine ⟨s', e1, ?_, ?_⟩
  · rw [e4.lines, hl]; decide +kernel
  · rw [e4.xrow]

/-! ### the round trips on `hello w` / `b` -/

theorem exIdle (keys : Bytes) (row off : Int) : Idle (exSt keys row off) :=
  ⟨rfl, rfl, by show nlCount [] ≤ 1; decide⟩

-- `cwXY<ESC>` as one whole iteration of `vi()`
example : ∃ s'', viStep (exSt [99, 119, 88, 89, 27, 90] 0 0) = Res.ok () s'' ∧ pending s'' = [90] ∧
    RowIs (exSt [99, 119, 88, 89, 27, 90] 0 0) s'' [88, 89, 119] ∧ s''.ed.xoff = 1 ∧
    s''.ed.regs.getRaw 0 = (some (encStr [104, 101, 108, 108, 111, 32]), 0) := by
  obtain ⟨s'', e, d, l, x, o, r⟩ := cw_step (exSt [99, 119, 88, 89, 27, 90] 0 0) exBody [88, 89] 0 6 [88, 89, 27] [90]
    (exIdle _ _ _) regsWf_default rfl (exRow _ 0 (by decide)) exUtf8 (by decide +kernel) (by decide)
    (typedText_plain [88, 89] (by decide) (by decide) (by decide)) rfl
  exact ⟨s'', e, d.pending, l, o, r⟩

-- `yyp` on row 0
example : ∃ s1 s2, viStep (exSt [121, 121, 112] 0 2) = Res.ok () s1 ∧ viStep s1 = Res.ok () s2 ∧ pending s2 = [] ∧
    lines s2 = [[104, 101, 108, 108, 111, 32, 119, 10], [104, 101, 108, 108, 111, 32, 119, 10], [98, 10]] ∧ s2.ed.xrow = 1 := by
  obtain ⟨s1, s2, e1, e2, d, l, x⟩ := yyp_steps (exSt [121, 121, 112] 0 2) [104, 101, 108, 108, 111, 32, 119, 10] []
    (exIdle _ _ _) regsWf_default rfl (by decide) (by decide +kernel) ⟨[104, 101, 108, 108, 111, 32, 119], rfl, by decide⟩
  exact ⟨s1, s2, e1, e2, d.pending, l, x⟩

-- `ddP` on row 0 (not the last line)
example : ∃ s1 s2, viStep (exSt [100, 100, 80] 0 2) = Res.ok () s1 ∧ viStep s1 = Res.ok () s2 ∧
    lines s1 = [[98, 10]] ∧ lines s2 = exLines ∧ s2.ed.xrow = 0 := by
  obtain ⟨s1, s2, e1, e2, d, l1, l2, x⟩ := ddP_steps (exSt [100, 100, 80] 0 2) [104, 101, 108, 108, 111, 32, 119, 10] []
    (exIdle _ _ _) regsWf_default rfl (by decide) (by decide) (by decide +kernel) ⟨[104, 101, 108, 108, 111, 32, 119], rfl, by decide⟩
  exact ⟨s1, s2, e1, e2, l1, l2, x⟩

-- `xp` on the `e` of `hello w`: `hlelo w`
example : ∃ s1 s2, viStep (exSt [120, 112] 0 1) = Res.ok () s1 ∧ viStep s1 = Res.ok () s2 ∧
    RowIs (exSt [120, 112] 0 1) s2 [104, 108, 101, 108, 111, 32, 119] ∧ s2.ed.xoff = 2 := by
  obtain ⟨s1, s2, e1, e2, d, l1, l2, x, o⟩ := xp_steps (exSt [120, 112] 0 1) [104] [108, 111, 32, 119] 101 108 []
    (exIdle _ _ _) regsWf_default rfl (exRow _ 1 (by decide))
  exact ⟨s1, s2, e1, e2, l2, o⟩

-- `dwP` on the `h` of `hello w`
example : ∃ s1 s2, viStep (exSt [100, 119, 80] 0 0) = Res.ok () s1 ∧ viStep s1 = Res.ok () s2 ∧
    RowIs (exSt [100, 119, 80] 0 0) s1 [119] ∧ lines s2 = exLines ∧ s2.ed.xoff = 5 := by
  obtain ⟨s1, s2, e1, e2, d, l1, l2, x, o⟩ := dwP_steps (exSt [100, 119, 80] 0 0) exBody 0 6 []
    (exIdle _ _ _) regsWf_default rfl (exRow _ 0 (by decide)) exUtf8 (by decide +kernel) (by decide) (by decide)
  exact ⟨s1, s2, e1, e2, l1, l2, o⟩

/-- the text, the cursor, a register, the keys left after a run of the dispatcher -/
def linesT (r : Res (Option Nat)) : List Bytes := match r with | Res.ok _ s => lines s | _ => []
def cursorT (r : Res (Option Nat)) : Int × Int := match r with | Res.ok _ s => (s.ed.xrow, s.ed.xoff) | _ => (-1, -1)
def regT (r : Res (Option Nat)) (c : Nat) : Option Bytes × Nat := match r with | Res.ok _ s => s.ed.regs.getRaw c | _ => (none, 0)
def pendT (r : Res (Option Nat)) : Bytes := match r with | Res.ok _ s => pending s | _ => []
/-- two iterations of `vi()` -/
def step2 (s : VS) : Res Unit := match viStep s with | Res.ok _ s1 => viStep s1 | r => r
def linesU (r : Res Unit) : List Bytes := match r with | Res.ok _ s => lines s | _ => []
def cursorU (r : Res Unit) : Int × Int := match r with | Res.ok _ s => (s.ed.xrow, s.ed.xoff) | _ => (-1, -1)

/-- the conjecture "`cw` on a non-blank acts like `ce`" (as in POSIX vi) -/
def cw_is_ce : Prop := ∀ (s : VS) (K : Bytes),
  linesT (commandTail { s with typed := 99 :: 119 :: K }) = linesT (commandTail { s with typed := 99 :: 101 :: K })

/-- **refuted**: on `hello w` from the `h`, `cwXY<ESC>` gives `XYw` — the blank after the word goes too, as with `dw` —,
`ceXY<ESC>` gives `XY w`.  (`vc_motion` has no special case for `cw`; the C code neither: `/repo/vi` gives the same two
lines.) -/
theorem cw_is_ce_is_false : ¬ cw_is_ce := by
  intro h
  have := h (exSt [] 0 0) [88, 89, 27]
  revert this
  decide +kernel

/-- the conjecture "`cl` is `s`" -/
def cl_is_s : Prop := ∀ (s : VS) (K : Bytes),
  linesT (commandTail { s with typed := 99 :: 108 :: K }) = linesT (commandTail { s with typed := 115 :: K })

/-- **refuted**: on the last character of a line `l` does not move (never onto the newline), so `clXY<ESC>` on the `w` of
`hello w` inserts before it (`hello XYw`) while `sXY<ESC>` replaces it (`hello XY`); the C code does the same -/
theorem cl_is_s_is_false : ¬ cl_is_s := by
  intro h
  have := h (exSt [] 0 6) [88, 89, 27]
  revert this
  decide +kernel

/-- the conjecture "`ddP` restores the text" without the hypothesis that the line is not the last -/
def ddP_restores : Prop := ∀ (s : VS), Idle s → s.typed = [100, 100, 80] → s.ibuf = [] →
  linesU (step2 s) = lines s

/-- **refuted**: `dd` on the last line moves the cursor up, so `P` puts the line back above the line before it: on
`hello w` / `b` from row 1, `ddP` gives `b` / `hello w` -/
theorem ddP_restores_is_false : ¬ ddP_restores := by
  intro h
  have := h (exSt [100, 100, 80] 1 0) ⟨rfl, rfl, by show nlCount [] ≤ 1; decide⟩ rfl rfl
  revert this
  decide +kernel

-- what they do instead
example : linesT (commandTail (exSt [99, 119, 88, 89, 27] 0 0)) = [[88, 89, 119, 10], [98, 10]] ∧
    linesT (commandTail (exSt [99, 101, 88, 89, 27] 0 0)) = [[88, 89, 32, 119, 10], [98, 10]] ∧
    linesT (commandTail (exSt [99, 108, 88, 89, 27] 0 6)) = [[104, 101, 108, 108, 111, 32, 88, 89, 119, 10], [98, 10]] ∧
    linesT (commandTail (exSt [115, 88, 89, 27] 0 6)) = [[104, 101, 108, 108, 111, 32, 88, 89, 10], [98, 10]] ∧
    linesU (step2 (exSt [100, 100, 80] 1 0)) = [[98, 10], [104, 101, 108, 108, 111, 32, 119, 10]] := by decide +kernel

/-! ### concrete runs (`exSt keys row off`: the buffer `hello w` / `b`; `exU`: `hel` / `aé中b`; `exStAi`: `  hello w` / `b`) -/

def withReg (s : VS) (c : Nat) (t : Bytes) (ln : Nat) : VS := { s with ed := { s.ed with regs := s.ed.regs.put c t ln } }
def retT (r : Res (Option Nat)) : Option (Option Nat) := match r with | Res.ok a _ => some a | _ => none

-- `c$XY<ESC>`, `c0XY<ESC>`, `ctoXY<ESC>`, `c2lXY<ESC>`
example : linesT (commandTail (exSt [99, 36, 88, 89, 27] 0 2)) = [[104, 101, 88, 89, 10], [98, 10]] ∧
    regT (commandTail (exSt [99, 36, 88, 89, 27] 0 2)) 0 = (some [108, 108, 111, 32, 119], 0) ∧
    linesT (commandTail (exSt [99, 48, 88, 89, 27] 0 2)) = [[88, 89, 108, 108, 111, 32, 119, 10], [98, 10]] ∧
    linesT (commandTail (exSt [99, 116, 111, 88, 89, 27] 0 1)) = [[104, 88, 89, 111, 32, 119, 10], [98, 10]] ∧
    linesT (commandTail (exSt [99, 50, 108, 88, 89, 27] 0 1)) = [[104, 88, 89, 108, 111, 32, 119, 10], [98, 10]] := by decide +kernel
-- `2ccXY<ESC>` (both rows), `SXY<ESC>` on row 1, `cjXY<ESC>`, `ckXY<ESC>`
example : linesT (commandTail { exSt [99, 99, 88, 89, 27] 0 2 with arg1 := 2 }) = [[88, 89, 10]] ∧
    regT (commandTail { exSt [99, 99, 88, 89, 27] 0 2 with arg1 := 2 }) 0 = (some [104, 101, 108, 108, 111, 32, 119, 10, 98, 10], 1) ∧
    linesT (commandTail (exSt [83, 88, 89, 27] 1 0)) = [[104, 101, 108, 108, 111, 32, 119, 10], [88, 89, 10]] ∧
    cursorT (commandTail (exSt [83, 88, 89, 27] 1 0)) = (1, 1) ∧
    linesT (commandTail (exSt [99, 106, 88, 89, 27] 0 2)) = [[88, 89, 10]] ∧
    linesT (commandTail (exSt [99, 107, 88, 89, 27] 1 0)) = [[88, 89, 10]] := by decide +kernel
-- `cc` keeps the indentation with `autoindent`, drops it without
example : linesT (commandTail (Props.C08d.exStAi true [99, 99, 88, 89, 27] 3)) = [[32, 32, 88, 89, 10], [98, 10]] ∧
    cursorT (commandTail (Props.C08d.exStAi true [99, 99, 88, 89, 27] 3)) = (0, 3) ∧
    linesT (commandTail (Props.C08d.exStAi false [99, 99, 88, 89, 27] 3)) = [[88, 89, 10], [98, 10]] := by decide +kernel
-- `2sX<ESC>` on the `é` of `aé中b`: the two multi-byte characters go
example : linesT (commandTail { exU [115, 88, 27] 1 1 with arg1 := 2 }) = [[104, 101, 108, 10], [97, 88, 98, 10]] ∧
    regT (commandTail { exU [115, 88, 27] 1 1 with arg1 := 2 }) 0 = (some [195, 169, 228, 184, 173], 0) := by decide +kernel
-- `P` with `AB`; `"1p` with a line; `2p` of `中` after the `é`
example : linesT (commandTail (withReg (exSt [80] 0 2) 0 [65, 66] 0)) = [[104, 101, 65, 66, 108, 108, 111, 32, 119, 10], [98, 10]] ∧
    cursorT (commandTail (withReg (exSt [80] 0 2) 0 [65, 66] 0)) = (0, 3) ∧
    linesT (commandTail { withReg (exSt [112] 1 0) 49 [32, 32, 113, 10] 1 with ybuf := 49 }) =
      [[104, 101, 108, 108, 111, 32, 119, 10], [98, 10], [32, 32, 113, 10]] ∧
    cursorT (commandTail { withReg (exSt [112] 1 0) 49 [32, 32, 113, 10] 1 with ybuf := 49 }) = (2, 2) ∧
    linesT (commandTail { withReg (exU [112] 1 1) 0 [228, 184, 173] 0 with arg1 := 2 }) =
      [[104, 101, 108, 10], [97, 195, 169, 228, 184, 173, 228, 184, 173, 228, 184, 173, 98, 10]] ∧
    cursorT (commandTail { withReg (exU [112] 1 1) 0 [228, 184, 173] 0 with arg1 := 2 }) = (1, 3) := by decide +kernel
-- an empty register: `p` fails and changes nothing
example : retT (commandTail (exSt [112] 0 2)) = some (some 0) ∧ linesT (commandTail (exSt [112] 0 2)) = exLines := by decide +kernel
-- `3~`; `9~` on `aé中b` (only ASCII letters change); `3rx`; `3rx` with two characters left fails
example : linesT (commandTail { exSt [126] 0 0 with arg1 := 3 }) = [[72, 69, 76, 108, 111, 32, 119, 10], [98, 10]] ∧
    cursorT (commandTail { exSt [126] 0 0 with arg1 := 3 }) = (0, 3) ∧
    linesT (commandTail { exU [126] 1 0 with arg1 := 9 }) = [[104, 101, 108, 10], [65, 195, 169, 228, 184, 173, 66, 10]] ∧
    linesT (commandTail { exSt [114, 120] 0 1 with arg1 := 3 }) = [[104, 120, 120, 120, 111, 32, 119, 10], [98, 10]] ∧
    cursorT (commandTail { exSt [114, 120] 0 1 with arg1 := 3 }) = (0, 3) ∧
    retT (commandTail { exSt [114, 120] 0 5 with arg1 := 3 }) = some (some 0) ∧
    linesT (commandTail { exSt [114, 120] 0 5 with arg1 := 3 }) = exLines := by decide +kernel
-- `2>>`, `<j` (no leading blank: nothing changes), `<<` on `  hello w`, `gu$`, `g~~` (the doubled letter: the whole line)
example : linesT (commandTail { exSt [62, 62] 0 5 with arg1 := 2 }) = [[9, 104, 101, 108, 108, 111, 32, 119, 10], [9, 98, 10]] ∧
    cursorT (commandTail { exSt [62, 62] 0 5 with arg1 := 2 }) = (0, 1) ∧
    linesT (commandTail (exSt [60, 106] 0 5)) = exLines ∧
    linesT (commandTail (Props.C08d.exStAi true [60, 60] 3)) = [[32, 104, 101, 108, 108, 111, 32, 119, 10], [98, 10]] ∧
    linesT (commandTail (exSt [103, 117, 36] 0 2)) = exLines ∧
    linesT (commandTail (exSt [103, 126, 126] 0 2)) = [[72, 69, 76, 76, 79, 32, 87, 10], [98, 10]] := by decide +kernel
-- the round trips, run: `yyp`, `ddP`, `xp`, `dwP`
example : linesU (step2 (exSt [121, 121, 112] 0 2)) =
      [[104, 101, 108, 108, 111, 32, 119, 10], [104, 101, 108, 108, 111, 32, 119, 10], [98, 10]] ∧
    cursorU (step2 (exSt [121, 121, 112] 0 2)) = (1, 0) ∧
    linesU (step2 (exSt [100, 100, 80] 0 2)) = exLines ∧ cursorU (step2 (exSt [100, 100, 80] 0 2)) = (0, 0) ∧
    linesU (step2 (exSt [120, 112] 0 1)) = [[104, 108, 101, 108, 111, 32, 119, 10], [98, 10]] ∧
    cursorU (step2 (exSt [120, 112] 0 1)) = (0, 2) ∧
    linesU (step2 (exSt [100, 119, 80] 0 0)) = exLines ∧ cursorU (step2 (exSt [100, 119, 80] 0 0)) = (0, 5) := by decide +kernel

end Examples


end Neatvi.Props.C08g
