import NeatviVerif.Props.C01
import NeatviVerif.Props.C04
import NeatviVerif.Props.C06
import NeatviVerif.Props.C07
import NeatviVerif.Props.C09
import NeatviVerif.Props.C11
/-!
# C05 (roll-up): the safety obligations behind "no out-of-bounds access, no crash, no hang"

The model makes every access the C code performs through an index or a length explicit: where the C
code would read or write outside an object, or loop for ever, the model returns its trap value
(`none` / `Res.trap`).  This file gathers, under one namespace, the theorems that discharge the
mechanisms the property names.  Each is proved here from, or is a restatement of, a theorem proved
for another property; the unbounded claim "for every stream" is carried by these per-mechanism
theorems plus the sanitizer runs of the check (see MANIFEST level_note), not by a single theorem
about the whole editor.
-/
namespace Neatvi.Props.C05
open Neatvi Neatvi.Vi

/-! ### pushback is bounded by the remaining room (term.c `term_push`, `icmd`) -/

/-- the input buffer of term.c never holds more than its 4096 bytes, whatever is pushed -/
theorem ibuf_bounded (x : Bytes) (s s' : VS) (h : termPush x s = Res.ok () s') (hb : s.ibuf.length ≤ 4096) :
    s'.ibuf.length ≤ 4096 := by
  simp only [termPush, Vi.modify] at h
  injection h with _ hs
  subst hs
  simp only [List.length_append, List.length_take]
  omega

/-- reading a key never grows the recording buffer beyond 4096 bytes -/
theorem icmd_bounded (s s' : VS) (c : Int) (h : termRead s = Res.ok c s') (hb : s.icmd.length ≤ 4096) :
    s'.icmd.length ≤ 4096 := by
  cases hp : Lemmas.C09.pending s with
  | nil => rw [Lemmas.C09.termRead_eof s hp] at h; cases h
  | cons k rest =>
    obtain ⟨ib, ip, ty, h1, -⟩ := Lemmas.C09.termRead_ok s k rest hp
    rw [h1] at h
    injection h with _ hs
    subst hs
    simp only [Lemmas.C09.icmdAfter]
    split
    · simp only [List.length_append, List.length_singleton]; omega
    · exact hb

/-- a drained key queue yields end of input, never a read outside the buffer -/
theorem read_drained_is_eof (s : VS) (h : Lemmas.C09.pending s = []) : termRead s = Res.eof :=
  Lemmas.C09.termRead_eof s h

/-! ### the cursor is re-clamped into the buffer after every vi command (`vi_wfix`, `ren_noeol`) -/

/-- `vi_wfix` never fails -/
theorem wfix_total (s : VS) : ∃ s', viWfix s = Res.ok () s' := C07.viWfix_ok s

/-- after `vi_wfix` the row is inside the buffer (0 on an empty one) -/
theorem cursor_row_in_buffer (s s' : VS) (h : viWfix s = Res.ok () s') :
    (lenOf s' = 0 → s'.ed.xrow = 0) ∧ (lenOf s' ≠ 0 → 0 ≤ s'.ed.xrow ∧ s'.ed.xrow < lenOf s') := by
  have hv := C07.wfix_cursor_valid s s' h
  exact ⟨hv.2.2.1, fun hne => ⟨(hv.2.2.2.1 hne).1, (hv.2.2.2.1 hne).2.1⟩⟩

/-- the window holds the cursor row -/
theorem cursor_row_in_window (s s' : VS) (h : viWfix s = Res.ok () s') (hrows : 0 < s.xrows) :
    s'.ed.xtop ≤ s'.ed.xrow ∧ s'.ed.xrow < s'.ed.xtop + s.xrows :=
  ⟨(C07.wfix_window s s' h hrows).1, (C07.wfix_window s s' h hrows).2.1⟩

/-! ### ranges are validated before any command touches lines (`ex_region`) -/

/-- an accepted range lies inside the buffer -/
theorem range_validated (ed ed' : Ex.Ed) (loc : Bytes) (b e : Int)
    (h : Ex.exRegion ed loc = some ((0, b, e), ed')) : 0 ≤ b ∧ b ≤ e ∧ e ≤ ed'.len :=
  ⟨(C06.region_valid ed ed' loc b e h).1, (C06.region_valid ed ed' loc b e h).2.1, (C06.region_valid ed ed' loc b e h).2.2.1⟩

/-! ### the line buffer and its undo history never index out of range (`lbuf.c`) -/

/-- every history of edits, undos and redos runs to completion -/
theorem lbuf_history_total (ops : List C04.HOp) (hg : C04.Good ops) :
    ∃ rcs lb, C04.run ops Lbuf.make = some (rcs, lb) := by
  obtain ⟨lb, h, _⟩ := C04.refines_zipper ops hg
  exact ⟨_, lb, h⟩

/-! ### the regular-expression engine stays inside its program and its subject (`regex.c`) -/

/-- on a compiled program the matcher takes no out-of-range jump -/
theorem regex_no_wild_jump (cx : Regex.Ctx) (hwf : C11.WfProg cx.prog)
    (hat : ∀ a pos, Regex.atomMatch a cx.subj cx.flg pos ≠ Regex.AR.trap)
    (dep pc pos : Nat) (m : Regex.Marks) (cuts : Nat) (hpc : pc < cx.prog.length) :
    Regex.loop cx dep pc pos m cuts ≠ Regex.Res.trap :=
  (C11.no_edge_trap cx hwf hat dep pc pos m cuts hpc).1

/-! ### the command line is length-checked once (`ex_exec`) -/

/-- a command line that does not fit `EXLEN` is rejected before any of its parts is copied -/
theorem exec_line_checked (f : Nat) (ed : Ex.Ed) (ln : Bytes) (h : ln.length ≥ Gen.EXLEN) :
    Ex.exExec (f + 1) ed ln = some (1, ed.show (Ex.strOf "command too long")) := by
  rw [Ex.exExec]
  simp [h]

/-! ### line accessors return NULL outside the buffer (`lbuf_get`) -/

/-- a row outside the buffer yields no line (and a row inside yields that line): no wild index -/
theorem line_accessor_total (ls : Mot.Lines) (r : Int) :
    (Mot.lineAt ls r = none ↔ (r < 0 ∨ (ls.length : Int) ≤ r)) := by
  unfold Mot.lineAt
  split
  · simp_all
  · rename_i h
    simp only [List.getElem?_eq_none_iff]
    constructor
    · intro hh; right; omega
    · intro hh; rcases hh with hh | hh <;> omega

end Neatvi.Props.C05
