import NeatviVerif.Lemmas.C13bG
import NeatviVerif.Lemmas.C13bH
import NeatviVerif.Lemmas.C13bJ
import NeatviVerif.Lemmas.C13bK
import NeatviVerif.Lemmas.C13bL
import NeatviVerif.Lemmas.C13bM
/-!
# C13b: when "the rest of the line" and "the whole line" are the same question

C13 (search) and C14 (`:s`) are worded "with matches judged against the whole line".  The code —
`lbuf_search` and `ec_substitute` — hands the matcher only the REST of the line (`line.drop k`: after
the cursor, after the previous match) together with the flag "not at the beginning of the line"
(`RE_NOTBOL`), so the theorems of `Props/C13.lean`, `Props/C14.lean` are relative to that suffix
matcher and the difference is a recorded finding (`Props.C13.suffix_rule_real`).  This file delimits
the finding.

* **`ContextFree t`** (on the parse tree): the pattern contains no word-boundary atom `\<`, `\>`.
  These are the only atoms that read the text *before* the position they are tried at (`prevLead`).
  `^` also looks back, but at the start of the rest `RE_NOTBOL` answers for it exactly as the whole
  line does at an offset `k > 0` — except that under `REG_NEWLINE` the whole line lets `^` match right
  after a newline byte; that cannot happen inside a line of the line buffer (`LineNl`: the only newline
  is the last byte), and is the side condition `BegOk` / `NoBeg` below.  `.`, `[...]`, literals and `$`
  look at the current character only.
* **`suffix_eq_whole`**: for a `ContextFree` pattern and an offset `k` that is a character start of the
  line, the start positions tried on the rest are the character starts of the line from `k` on, and at
  each of them the rest has exactly the parses of the whole line, in the same priority order, every
  offset shifted by `k`.  Then the same for the engines: the backtracking VM step by step
  (`vm_suffix_eq_whole`, no hypothesis on depth cuts), `regexec`, `rset_find`, the literal fast path,
  `rstr_find` (`rstrFind_suffix_eq_whole`).
* **corollaries**: `lbuf_search` is the scan of C13 at the whole-line matcher (`search_eq_whole`, and
  the C13 characterisations restated with it); the per-line loop of `ec_substitute` is the whole-line
  scan `scanW` (`substLine_whole`); the two reference scans of the test oracle coincide
  (`oracle_substRef_suffix_eq_whole`).
* **converse witnesses**: `\<`, `\>` and `^`-after-a-newline do make the two readings differ.

`PatCF kw` is the predicate on the pattern *text* (decidable: evaluate it): the literal fast path has
no `\<` / `\>` anchor, or the tree of `((kw))` is `ContextFree`; it holds for every text without the
characters `<` and `>` (`patCF_of_no_angle`).
-/
namespace Neatvi.Props.C13b
open Neatvi Neatvi.Regex Neatvi.Rset Neatvi.Mot Neatvi.Spec.RegexSem Neatvi.Lemmas.C13 Neatvi.Lemmas.C13b
open Neatvi.Props.C13 (reFlags)

/-! ## 1. the predicate -/

/-- `ContextFree` spelled out: no `\<`, no `\>` anywhere in the tree -/
theorem contextFree_iff (t : RNode) :
    ContextFree t = true ↔ TreeAtoms (fun a => a.k ≠ AK.wbeg ∧ a.k ≠ AK.wend) t :=
  Lemmas.C13b.contextFree_iff t

/-- numbering the groups does not change the predicate -/
theorem contextFree_grpnum (t : RNode) (n : Nat) : ContextFree (grpnum t n).1 = ContextFree t := cf_grpnum t n

/-- **a pattern text without the characters `<` and `>` makes no word-boundary test**, whichever of
    the two engines `rstr_make` chooses for it -/
theorem patCF_of_no_angle (kw : Bytes) (h : 60 ∉ kw ∧ 62 ∉ kw) : PatCF kw = true :=
  Lemmas.C13b.patCF_of_no_angle kw h

/-- the tree the parser builds from a text without `<`, `>` is `ContextFree` -/
theorem parse_contextFree {p : Bytes} {t : RNode} (hp : 60 ∉ p ∧ 62 ∉ p) (h : parse p = some (some t)) :
    ContextFree t = true := parse_cf_of_noAngle hp h

/-- what `PatCF` gives for the compiled pattern: no `\<` / `\>` instruction in the program of the
    engine, no `\<` / `\>` anchor on the literal -/
theorem patCF_compiled {kw : Bytes} {flg : Nat} {re : RStr} (h : rstrMake kw flg = some (some re))
    (hp : PatCF kw = true) : ReCF re := reCF_of_pat h hp

/-- `(a|b)*c$` and `^x.[a-z]` are `ContextFree`; `\<a` and `x\>|y` are not; an escaped backslash
    followed by `<` is (it is not the anchor) -/
example : PatCF [40, 97, 124, 98, 41, 42, 99, 36] = true ∧ PatCF [94, 120, 46, 91, 97, 45, 122, 93] = true ∧
    PatCF [92, 60, 97] = false ∧ PatCF [120, 92, 62, 124, 121] = false ∧ PatCF [92, 92, 60, 97] = true := by decide

/-! ## 2. `suffix_eq_whole`: the reference semantics -/

/-- **one atom.**  An atom other than `\<`, `\>`, matched at position `pos` of the rest `line.drop k`
    (`0 < k ≤ line.length`, flags of the rest: `REG_NOTBOL` set, the others as for the whole line),
    gives what it gives at position `pos + k` of the whole line, the end position shifted by `k`.
    For `^` the rest must not begin right after a newline byte inside the line. -/
theorem atom_suffix_eq_whole (a : Atom) (line : Bytes) (k fw fs pos : Nat) (hcf : a.k ≠ AK.wbeg ∧ a.k ≠ AK.wend)
    (hk : k ≤ line.length) (hk0 : 0 < k) (hfl : FlagsRest fw fs) (hbol : a.k = AK.beg → NlFree line k) :
    atomMatch a line fw (pos + k) = shiftAR k (atomMatch a (line.drop k) fs pos) :=
  atomMatch_shift a line k fw fs pos (by simp [CFAtom, hcf.1, hcf.2]) hk hk0 hfl hbol

/-- adding `REG_NOTBOL` to the flags of the whole line gives flags of the rest -/
theorem flagsRest_notbol (f : Nat) : FlagsRest f (f ||| REG_NOTBOL) := flagsRest_or f

/-- **suffix_eq_whole.**  `t` is `ContextFree`; `k > 0` is a character start of the line (one of the
    positions `regexec` steps through); `^` is harmless (`BegOk`: no `^` in `t`, or the rest does not
    begin right after a newline inside the line).  Then matching the rest `line.drop k` under
    `REG_NOTBOL` yields exactly the matches of the whole line that start at or after `k`, offsets
    shifted by `k`:

    * the start positions tried on the rest are, shifted, the character starts of the line `≥ k`;
    * from each of them (and from every position `i`, with any group marks `g`) the ordered list of
      parses of the whole line is the shifted ordered list of parses of the rest.

    (For `k = 0` the rest is the line and no flag is added: nothing to prove.) -/
theorem suffix_eq_whole (t : RNode) (hcf : ContextFree t = true) (line : Bytes) (k : Nat) (hk0 : 0 < k)
    (hks : k ∈ starts line (line.length + 2) 0) (hbeg : BegOk t line k) (fw fs : Nat) (hfl : FlagsRest fw fs) :
    (starts (line.drop k) ((line.drop k).length + 2) 0).map (· + k) =
        (starts line (line.length + 2) 0).filter (fun i => decide (i ≥ k)) ∧
    ∀ (i : Nat) (g : Marks), results ⟨line, fw⟩ t (i + k, shiftM k g) =
        (results ⟨line.drop k, fs⟩ t (i, g)).map (shiftR k) :=
  ⟨starts_rest line k hks,
   fun i g => results_shift line k fw fs (starts_le line _ _ _ (Nat.zero_le _) hks) hk0 hfl t hcf hbeg (i, g)⟩

/-- the parses alone need no character boundary: any byte offset `0 < k ≤ line.length` -/
theorem suffix_eq_whole_parses (t : RNode) (hcf : ContextFree t = true) (line : Bytes) (k : Nat) (hk0 : 0 < k)
    (hk : k ≤ line.length) (hbeg : BegOk t line k) (fw fs : Nat) (hfl : FlagsRest fw fs) (r : R) :
    results ⟨line, fw⟩ t (shiftR k r) = (results ⟨line.drop k, fs⟩ t r).map (shiftR k) :=
  results_shift line k fw fs hk hk0 hfl t hcf hbeg r

/-- the hypotheses of `suffix_eq_whole` on `(b*)(c|d)`, the line `héb bc`, `k = 3` (after `é`) -/
example : ContextFree (.cat (.grp (.atom ⟨AK.chr, [98]⟩ 0 (-1)) 1 1 1)
      (.grp (.alt (.atom ⟨AK.chr, [99]⟩ 1 1) (.atom ⟨AK.chr, [100]⟩ 1 1)) 2 1 1)) = true ∧
    3 ∈ starts [104, 195, 169, 98, 32, 98, 99] 9 0 ∧
    BegOk (.cat (.grp (.atom ⟨AK.chr, [98]⟩ 0 (-1)) 1 1 1)
      (.grp (.alt (.atom ⟨AK.chr, [99]⟩ 1 1) (.atom ⟨AK.chr, [100]⟩ 1 1)) 2 1 1)) [104, 195, 169, 98, 32, 98, 99] 3 := by
  decide

/-- **first match.**  `RegexSem.firstMatch` on the rest under `REG_NOTBOL` is, shifted, the first
    character start of the whole line at or after `k` that has a parse, with its best parse
    (`firstMatchFrom`; `firstMatchFrom … 0 = firstMatch`) -/
theorem suffix_eq_whole_first (t : RNode) (hcf : ContextFree t = true) (line : Bytes) (k : Nat) (hk0 : 0 < k)
    (hks : k ∈ starts line (line.length + 2) 0) (hbeg : BegOk t line k) (fw fs : Nat) (hfl : FlagsRest fw fs)
    (nmarks : Nat) :
    firstMatchFrom t line fw nmarks k = (firstMatch t (line.drop k) fs nmarks).map (shiftFM k) :=
  firstMatch_shift line k fw fs hk0 hfl hks t hcf hbeg nmarks

theorem firstMatchFrom_zero (t : RNode) (subj : Bytes) (flg nmarks : Nat) :
    firstMatchFrom t subj flg nmarks 0 = firstMatch t subj flg nmarks :=
  Lemmas.C13b.firstMatchFrom_zero t subj flg nmarks

/-- **the two reference matchers of the test oracle** (`Drive/ExSpec.lean`): the first match of the
    rest from `k`, told only "not at the beginning of the line" (`matchFromSuffix`), is the first match
    of the whole line at or after `k` (`matchFrom`) -/
theorem oracle_matchers_agree (t : RNode) (line : Bytes) (icase : Bool) (k : Nat)
    (hks : k ∈ starts line (line.length + 2) 0) (hcf : ContextFree t = true) (hbeg : 0 < k → BegOk t line k) :
    Drive.ExSpec.matchFromSuffix t line icase k = Drive.ExSpec.matchFrom t line icase k :=
  matchFromSuffix_eq_matchFrom t line icase k hks hcf hbeg

/-! ## 2'. `suffix_eq_whole`: the engines -/

/-- **the backtracking VM.**  For a program without `\<` / `\>` instruction (`AtomOk` of every atom
    instruction) the run of `re_rec` from `(pc, pos, marks)` on the rest `line.drop k` under
    `REG_NOTBOL` is its run from `(pc, pos + k, shifted marks)` on the whole line: same outcome, same
    cut counter, end position and marks shifted by `k`.  No hypothesis on depth cuts. -/
theorem vm_suffix_eq_whole (prog : List Inst) (line : Bytes) (k fw fs nd ngrps : Nat) (hk : k ≤ line.length)
    (hk0 : 0 < k) (hfl : FlagsRest fw fs) (hprog : CodeAtoms (AtomOk line k) prog)
    (dep pc pos : Nat) (m : Marks) (cuts : Nat) :
    loop ⟨prog, line, fw, nd, ngrps⟩ dep pc (pos + k) (shiftM k m) cuts =
      shiftRes k (loop ⟨prog, line.drop k, fs, nd, ngrps⟩ dep pc pos m cuts) :=
  loop_shift prog line k fw fs nd ngrps hk hk0 hfl hprog dep pc pos m cuts

/-- the program `regcomp` emits for a `ContextFree` tree has no `\<` / `\>` instruction (and its `^`
    instructions are harmless under `BegOk`) -/
theorem regcomp_contextFree {pat : Bytes} {flg : Nat} {prog : Prog} (hc : regcomp pat flg = some (some prog))
    (line : Bytes) (k : Nat) (ht : ∀ t, parse pat = some (some t) → ContextFree t = true ∧ BegOk t line k) :
    CodeAtoms (AtomOk line k) prog.code :=
  codeAtoms_regcomp hc (fun t h => treeAtoms_of_cf line k t (ht t h).1 (ht t h).2)

/-- **`regexec`.**  `regexec` on the rest is `regexec` on the whole line with its start-position loop
    entered at byte `k` (`regexecFrom`; `regexecFrom … 0 = regexec`): same verdict, same cut counter,
    marks and group offsets shifted by `k` -/
theorem regexec_suffix_eq_whole (p : Prog) (line : Bytes) (k nsub ew es nd ngrps : Nat)
    (hk : k ≤ line.length) (hk0 : 0 < k) (hfl : FlagsRest (p.flg ||| ew) (p.flg ||| es))
    (hprog : CodeAtoms (AtomOk line k) p.code) :
    regexecFrom p line k nsub ew nd ngrps = shiftX k (regexec p (line.drop k) nsub es nd ngrps) :=
  regexec_shift p line k nsub ew es nd ngrps hk hk0 hfl hprog

theorem regexecFrom_zero (p : Prog) (subj : Bytes) (nsub eflg nd ngrps : Nat) :
    regexecFrom p subj 0 nsub eflg nd ngrps = regexec p subj nsub eflg nd ngrps := rfl

/-- **`rstr_find`, both engines.**  For a compiled pattern that makes no word-boundary test (`ReCF`:
    no `\<` / `\>` instruction, resp. no `\<` / `\>` anchor on the literal), `rstr_find` on the rest
    with `RE_NOTBOL` returns what `rstr_find` returns on the whole line when its search starts at byte
    `k` (`rstrFindFrom`, `rstrFindFrom … 0 = rstrFind`): same result code and cut counter, the group
    offsets shifted by `k` -/
theorem rstrFind_suffix_eq_whole (re : RStr) (line : Bytes) (k n nd ngrps : Nat) (hk : k ≤ line.length)
    (hk0 : 0 < k) (hcf : ReCF re) (hbeg : ReBegOk re line k) :
    rstrFindFrom re line k n 0 nd ngrps = (rstrFind re (line.drop k) n RE_NOTBOL nd ngrps).map (shiftF k) :=
  rstrFind_shift re line k n nd ngrps hk hk0 hcf hbeg

theorem rstrFindFrom_zero (re : RStr) (s : Bytes) (n flg nd ngrps : Nat) :
    rstrFindFrom re s 0 n flg nd ngrps = rstrFind re s n flg nd ngrps :=
  Lemmas.C13b.rstrFindFrom_zero re s n flg nd ngrps

/-- **through C10b (`regexec_first`).**  `regcomp` accepted the pattern, its tree is `ContextFree`, and
    `regexec` on the rest `line.drop k` with `REG_NOTBOL` reports a match without any depth cut.  Then
    in the reference semantics of the *whole line* no start position tried from `k` up to `s + k` has
    a parse, and the marks reported, shifted by `k`, are those of the highest-priority parse there. -/
theorem regexec_rest_first_whole {pat : Bytes} {flg : Nat} {prog : Prog} (hc : regcomp pat flg = some (some prog))
    (line : Bytes) (k nsub ew es nd ngrps : Nat) (hk : k ≤ line.length) (hk0 : 0 < k)
    (hfl : FlagsRest (prog.flg ||| ew) (prog.flg ||| es)) (hg1 : 1 < ngrps)
    (hgr : ∀ t0, parse pat = some (some t0) → 2 * (1 + (grpnum t0 1).2) ≤ ngrps)
    (hcf : ∀ t0, parse pat = some (some t0) → ContextFree t0 = true ∧ BegOk t0 line k)
    (m : Marks) (subs : List (Int × Int))
    (hr : regexec prog (line.drop k) nsub es nd ngrps = (ExecRes.found m 0, subs)) :
    ∃ t0 s r rest, parse pat = some (some t0) ∧
      Props.C10b.NoParseUntil ⟨line, prog.flg ||| ew⟩ (grpnum t0 1).1 ngrps k (s + k) ∧
      results ⟨line, prog.flg ||| ew⟩ (grpnum t0 1).1 (s + k, Props.C10b.startMarks ngrps (s + k)) = r :: rest ∧
      shiftM k m = r.2.set 1 (r.1 : Int) :=
  Lemmas.C13b.regexec_rest_first_whole hc line k nsub ew es nd ngrps hk hk0 hfl hg1 hgr hcf m subs hr

/-- the hypotheses of `regexec_rest_first_whole` on `a*`, the line `baaab`, `k = 1`: the program
    `regcomp` builds, a run on the rest `aaab` under `REG_NOTBOL` that reports `[0, 3)` without cut, the
    group count, and the tree -/
example : regcomp Props.C10b.patStar 0 = some (some ⟨Props.C10b.codeStar, 6, 0⟩) ∧
    regexec ⟨Props.C10b.codeStar, 6, 0⟩ ([98, 97, 97, 97, 98].drop 1) 1 REG_NOTBOL 64 4 =
      (ExecRes.found [0, 3, -1, -1, -1, -1, -1, -1] 0, [(0, 3)]) ∧
    (∀ t0, parse Props.C10b.patStar = some (some t0) → 2 * (1 + (grpnum t0 1).2) ≤ 4) ∧
    (∀ t0, parse Props.C10b.patStar = some (some t0) → ContextFree t0 = true ∧ BegOk t0 [98, 97, 97, 97, 98] 1) := by
  have hp : parse Props.C10b.patStar = some (some (.atom ⟨AK.chr, [97]⟩ 0 (-1))) := by decide
  exact ⟨rfl, Lemmas.C10.regexecF_sound (fuel := 40) (by decide),
    fun t0 h => by rw [hp] at h; cases h; decide, fun t0 h => by rw [hp] at h; cases h; decide⟩

/-- the hypotheses of `rstrFind_suffix_eq_whole` on the compiled `b*` (it goes to the engine), the line
    ` ab`, `k = 1` -/
example : ∃ re, rstrMake [98, 42] 0 = some (some re) ∧ ReCF re ∧ ReBegOk re [32, 97, 98, 10] 1 :=
  ⟨_, rfl, patCF_compiled (kw := [98, 42]) (flg := 0) rfl (by decide), Or.inr (Or.inl (by decide))⟩

/-! ## 3. corollaries: C13 (search) under the whole-line reading -/

/-- **the matcher of `lbuf_search` is the whole-line matcher.**  `wholeMatcher re s off`: `rstr_find`
    sees the whole line `s` (no `RE_NOTBOL`) and reports the first match that starts at byte `off` or
    later.  For a compiled pattern without word-boundary test, and without `^` or on a line whose only
    newline is its last byte, it is what `lbuf_search` computes from the rest of the line. -/
theorem reMatcher_eq_whole (re : RStr) (s : Bytes) (off : Nat) (hoff : off ≤ s.length)
    (hcf : ReCF re) (hbeg : ReNoBeg re ∨ LineNl s) : reMatcher re s off = wholeMatcher re s off :=
  Lemmas.C13b.reMatcher_eq_whole re s off hoff hcf hbeg

/-- **search_eq_whole**: for a pattern text without word-boundary test `lbuf_search` *is* the scan of
    C13 (`gSearch`) at the whole-line matcher -/
theorem search_eq_whole {ls : Lines} {kw : Bytes} {icase : Bool} {re : RStr}
    (hre : rstrMake kw (reFlags icase) = some (some re)) (hcf : PatCF kw = true)
    (hbeg : PatNoBeg kw = true ∨ ∀ s ∈ ls, LineNl s) (dir r0 o0 : Int) :
    search ls kw icase dir r0 o0 = gSearch (wholeMatcher re) ls dir r0 o0 :=
  Lemmas.C13b.search_eq_whole hre hcf hbeg dir r0 o0

/-- **forward search against the whole line** (`Props.C13.search_forward_first_row` with the
    whole-line matcher): the search reports `(r, o, len)` exactly when no row from the cursor's up to
    `r` has a match of the whole line that begins after the cursor character (cursor's row) / anywhere
    (other rows), and `(o, len)` is the first such match on row `r` -/
theorem search_forward_first_row_whole {ls : Lines} {kw : Bytes} {icase : Bool} {re : RStr} {r0 o0 r o len : Int}
    (hre : rstrMake kw (reFlags icase) = some (some re)) (hcf : PatCF kw = true)
    (hbeg : PatNoBeg kw = true ∨ ∀ s ∈ ls, LineNl s) (h0 : 0 ≤ r0) :
    search ls kw icase 1 r0 o0 = some (some (r, o, len)) ↔
      (r0 ≤ r ∧ r < ls.length ∧
        (∀ j s, r0 ≤ j → j < r → lineAt ls j = some s → fwdLine (wholeMatcher re) r0 o0 j s = some none) ∧
        ∃ s, lineAt ls r = some s ∧ fwdLine (wholeMatcher re) r0 o0 r s = some (some (o, len))) :=
  Lemmas.C13b.search_forward_first_row_whole hre hcf hbeg h0

theorem search_forward_not_found_whole {ls : Lines} {kw : Bytes} {icase : Bool} {re : RStr} {r0 o0 : Int}
    (hre : rstrMake kw (reFlags icase) = some (some re)) (hcf : PatCF kw = true)
    (hbeg : PatNoBeg kw = true ∨ ∀ s ∈ ls, LineNl s) (h0 : 0 ≤ r0) :
    search ls kw icase 1 r0 o0 = some none ↔
      ∀ j s, r0 ≤ j → lineAt ls j = some s → fwdLine (wholeMatcher re) r0 o0 j s = some none :=
  Lemmas.C13b.search_forward_not_found_whole hre hcf hbeg h0

/-- **backward search against the whole line** (`Props.C13.search_backward_last` with the whole-line
    matcher): the chain of successive matches is enumerated by asking the whole line for the first
    match at or after the end of the previous one -/
theorem search_backward_last_whole {ls : Lines} {kw : Bytes} {icase : Bool} {re : RStr} {r0 o0 r o len : Int}
    (hre : rstrMake kw (reFlags icase) = some (some re)) (hcf : PatCF kw = true)
    (hbeg : PatNoBeg kw = true ∨ ∀ s ∈ ls, LineNl s) :
    search ls kw icase (-1) r0 o0 = some (some (r, o, len)) ↔
      (0 ≤ r ∧ r ≤ r0 ∧ r0 < ls.length ∧
        (∀ j s, r < j → j ≤ r0 → lineAt ls j = some s → Chain (wholeMatcher re) s (stopB r0 o0 j s) 0 []) ∧
        ∃ s l b n, lineAt ls r = some s ∧ Chain (wholeMatcher re) s (stopB r0 o0 r s) 0 l ∧
          l.getLast? = some (b, n) ∧ (o, len) = report s b n) :=
  Lemmas.C13b.search_backward_last_whole hre hcf hbeg

theorem search_backward_not_found_whole {ls : Lines} {kw : Bytes} {icase : Bool} {re : RStr} {r0 o0 : Int}
    (hre : rstrMake kw (reFlags icase) = some (some re)) (hcf : PatCF kw = true)
    (hbeg : PatNoBeg kw = true ∨ ∀ s ∈ ls, LineNl s) (hlen : r0 < ls.length) :
    search ls kw icase (-1) r0 o0 = some none ↔
      ∀ j s, j ≤ r0 → lineAt ls j = some s → Chain (wholeMatcher re) s (stopB r0 o0 j s) 0 [] :=
  Lemmas.C13b.search_backward_not_found_whole hre hcf hbeg hlen

/-- `LineNl`, decided: no newline among the bytes before the last one -/
theorem lineNl_of_bool {s : Bytes} (h : lineNlB s = true) : LineNl s := Lemmas.C13b.lineNl_of_bool h

/-- the hypotheses of the search corollaries on the buffer `foo` / `bar` / `foo` of C13: the literal `o`,
    and the pattern `o*` that goes to the engine -/
example : (∃ re, rstrMake [111] (reFlags false) = some (some re)) ∧ PatCF [111] = true ∧ PatNoBeg [111] = true ∧
    (∃ re, rstrMake [111, 42] (reFlags false) = some (some re)) ∧ PatCF [111, 42] = true ∧
    (∀ s ∈ Props.C13.buf3, lineNlB s = true) :=
  ⟨⟨_, rfl⟩, by decide, by decide, ⟨_, rfl⟩, by decide, by decide⟩

/-! ## 3'. corollaries: C14 (`:s`) under the whole-line reading -/

/-- **the matcher of `ec_substitute` is the whole-line matcher.**  `wholeFind re line pos`: `rstr_find`
    sees the whole line and reports the first match at or after byte `pos` in absolute offsets.  It is
    what `ec_substitute` computes from the rest of the line (`Props.C14.rsFind`), read in absolute
    offsets (`liftM pos`). -/
theorem subst_matcher_eq_whole (re : RStr) (line : Bytes) (pos : Nat) (hpos : pos ≤ line.length)
    (hcf : ReCF re) (hbeg : ReNoBeg re ∨ LineNl line) :
    wholeFind re line pos = (Props.C14.rsFind re (line.drop pos) (pos != 0)).map (·.map (liftM pos)) :=
  wholeFind_eq re line pos hpos hcf hbeg

/-- the expansion of the replacement text does not depend on the reading: the groups of a match on the
    rest are, shifted, the groups of the match on the whole line -/
theorem expand_suffix_eq_whole (rep line : Bytes) (k : Nat) (hk : k ≤ line.length) (offs : List Int) :
    Props.C14.expandOpt rep (line.drop k) offs = Props.C14.expandOpt rep line (offs.map (shiftI k)) :=
  expandOpt_shift rep line k hk offs

/-- **subst_scan_eq_whole**: the reference scan of `Props.C14.subst_scan_spec` — match, cut the
    piece, go on with the *rest* — started on the rest of the line from `pos` cuts the pieces the
    whole-line scan `scanW` — the line stays, the offset moves, the matcher sees the whole line —
    cuts from `pos` -/
theorem subst_scan_eq_whole (re : RStr) (rep : Bytes) (g : Bool) (line : Bytes)
    (hcf : ReCF re) (hbeg : ReNoBeg re ∨ LineNl line) (pos : Nat) (hpos : pos ≤ line.length) :
    Props.C14.scan (Props.C14.rsFind re) rep g (line.drop pos) (pos != 0) =
      scanW (wholeFind re) rep g line (line.length - pos + 1) pos :=
  scan_eq_whole re rep g line hcf hbeg _ pos (by omega) hpos

/-- **substLine_whole**: on a line without NUL bytes the per-line loop of `ec_substitute` with a
    pattern without word-boundary test is the whole-line reference scan -/
theorem substLine_whole (re : RStr) (rep : Bytes) (g : Bool) (line : Bytes) (h0 : ∀ b ∈ line, b ≠ 0)
    (hcf : ReCF re) (hbeg : ReNoBeg re ∨ LineNl line) :
    Ex.substLine re rep g line = substRefW (wholeFind re) rep g line :=
  Lemmas.C13b.substLine_whole re rep g line h0 hcf hbeg

/-- the same from the pattern text -/
theorem substLine_whole_pat {kw : Bytes} {flg : Nat} {re : RStr} (hre : rstrMake kw flg = some (some re))
    (hcf : PatCF kw = true) (rep : Bytes) (g : Bool) (line : Bytes) (h0 : ∀ b ∈ line, b ≠ 0)
    (hbeg : PatNoBeg kw = true ∨ LineNl line) :
    Ex.substLine re rep g line = substRefW (wholeFind re) rep g line :=
  Lemmas.C13b.substLine_whole re rep g line h0 (reCF_of_pat hre hcf)
    (hbeg.elim (fun h => Or.inl (reNoBeg_of_pat hre h)) Or.inr)

/-- the hypotheses of `substLine_whole_pat` on `:s|b*|-|g` and the line ` ab` -/
example : (∃ re, rstrMake [98, 42] 0 = some (some re)) ∧ PatCF [98, 42] = true ∧
    (∀ b ∈ [32, 97, 98, 10], b ≠ 0) ∧ lineNlB [32, 97, 98, 10] = true :=
  ⟨⟨_, rfl⟩, by decide, by decide, by decide⟩

/-- **the oracle's two reference scans of `:s` coincide** (`Drive/ExSpec.lean`, `substRef` with
    `suffix := true` against `suffix := false`) for a `ContextFree` pattern, when the matches end on
    character starts of the line (`EndsOnStarts`; so do the scan positions, where `oracle_matchers_agree`
    applies) -/
theorem oracle_substRef_suffix_eq_whole (t : RNode) (rep : Bytes) (g icase : Bool) (line : Bytes)
    (hcf : ContextFree t = true) (hbeg : NoBeg t = true ∨ LineNl line) (hends : EndsOnStarts t line icase) :
    Drive.ExSpec.substRef t rep g icase line true = Drive.ExSpec.substRef t rep g icase line false :=
  substRef_suffix_eq_whole t rep g icase line hcf hbeg hends

/-- on a line of single-byte characters every byte offset is a character start and `EndsOnStarts`
    holds for every pattern -/
theorem endsOnStarts_single_byte (t : RNode) (line : Bytes) (icase : Bool)
    (hall : ∀ i, i ≤ line.length → i ∈ starts line (line.length + 2) 0) : EndsOnStarts t line icase :=
  endsOnStarts_of_all t line icase hall

/-! ## 4. the converse: what `ContextFree` excludes does make a difference -/

/-- `suffix_eq_whole` (its clause on the parses) without the hypothesis `ContextFree` -/
def suffix_eq_whole_any_pattern : Prop := Lemmas.C13b.suffix_eq_whole_any_pattern

/-- **`\<` is not context free**: on the line `ba`, `k = 1`, the rest `a` has the parse "`\<` at 0"
    (nothing is before it), the whole line has none at 1 (`b` is before it) -/
theorem suffix_eq_whole_any_pattern_is_false : ¬ suffix_eq_whole_any_pattern :=
  Lemmas.C13b.suffix_eq_whole_any_pattern_is_false

/-- **`\>` is not context free** either: on `a b`, `k = 1`, the whole line has the parse "`\>` at 1"
    (the word `a` ends there), the rest ` b` has none at 0 -/
theorem wend_differs :
    results ⟨[97, 32, 98], 0⟩ (.atom ⟨AK.wend, []⟩ 1 1) (1, []) = [(1, [])] ∧
    results ⟨[32, 98], REG_NOTBOL⟩ (.atom ⟨AK.wend, []⟩ 1 1) (0, []) = [] := by
  constructor <;> decide

/-- **`^` needs its side condition**: with `REG_NEWLINE` and a newline *inside* the subject (`a⏎b`,
    `k = 2`) the whole line lets `^` match after the newline, the rest `b` under `REG_NOTBOL` does not.
    A line of the line buffer has no newline inside (`LineNl`). -/
theorem bol_after_newline_differs :
    ContextFree (.atom ⟨AK.beg, []⟩ 1 1) = true ∧ ¬ BegOk (.atom ⟨AK.beg, []⟩ 1 1) [97, 10, 98] 2 ∧
    results ⟨[97, 10, 98], REG_NEWLINE⟩ (.atom ⟨AK.beg, []⟩ 1 1) (2, []) = [(2, [])] ∧
    results ⟨[98], REG_NEWLINE ||| REG_NOTBOL⟩ (.atom ⟨AK.beg, []⟩ 1 1) (0, []) = [] := by
  refine ⟨by decide, by decide, by decide, by decide⟩

/-- **search, `\<a` on `ba`** (the finding of `Props.C13.suffix_rule_real`, at the matcher): from byte 1
    the matcher of `lbuf_search` reports the `a`, the whole-line matcher nothing; so the model's
    forward search from `b` finds the `a`, the whole-line reading does not -/
theorem search_word_anchor_differs :
    PatCF [92, 60, 97] = false ∧
    (∃ re, rstrMake [92, 60, 97] 0 = some (some re) ∧
      reMatcher re [98, 97, 10] 1 = some (some (0, 1)) ∧ wholeMatcher re [98, 97, 10] 1 = some none ∧
      search [[98, 97, 10]] [92, 60, 97] false 1 0 0 = some (some (0, 1, 1)) ∧
      gSearch (wholeMatcher re) [[98, 97, 10]] 1 0 0 = some none) :=
  ⟨by decide, _, rfl, by decide, by decide, by decide, by decide⟩

/-- **search, `\>` on `a b`**: forward from `a` the model reports the end of `b` (offset 3), the
    whole-line reading the end of `a` (offset 1) -/
theorem search_wend_differs :
    PatCF [92, 62] = false ∧
    (∃ re, rstrMake [92, 62] 0 = some (some re) ∧
      search [[97, 32, 98, 10]] [92, 62] false 1 0 0 = some (some (0, 3, 0)) ∧
      gSearch (wholeMatcher re) [[97, 32, 98, 10]] 1 0 0 = some (some (0, 1, 0))) :=
  ⟨by decide, _, rfl, by decide, by decide⟩

/-- **`:s|\<|-|g` on ` ab`**: the model (like the C) gives ` -a-b` — after the first round the rest
    `b` looks like the start of a word —, the whole-line reading ` -ab` -/
theorem subst_word_anchor_differs :
    PatCF [92, 60] = false ∧
    (∃ re, rstrMake [92, 60] 0 = some (some re) ∧
      Ex.substLine re [45] true [32, 97, 98, 10] = some (some [32, 45, 97, 45, 98, 10]) ∧
      substRefW (wholeFind re) [45] true [32, 97, 98, 10] = some (some [32, 45, 97, 98, 10])) :=
  ⟨by decide, _, rfl, by decide, by decide⟩

/-- the same pair of answers from the oracle's two reference scans, on the tree of `((\<))` -/
theorem oracle_subst_word_anchor_differs :
    (Drive.ExSpec.refTree [92, 60]).map (fun t =>
      (Drive.ExSpec.substRef t [45] true false [32, 97, 98, 10] true,
       Drive.ExSpec.substRef t [45] true false [32, 97, 98, 10] false)) =
    some ([32, 45, 97, 45, 98, 10], [32, 45, 97, 98, 10]) := by decide

/-- a character boundary is needed for the *start positions* (not for the parses): in `é!` byte 1 is
    inside `é`; the rest from there is stepped through at bytes 1, 2, 3, the whole line at 0, 2, 3 -/
theorem boundary_needed :
    starts [195, 169, 33] 5 0 = [0, 2, 3] ∧ (starts ([195, 169, 33].drop 1) 4 0).map (· + 1) = [1, 2, 3] := by
  constructor <;> decide

end Neatvi.Props.C13b
