import NeatviVerif.Lemmas.C20cQuit
/-!
# C20c lemmas, part 8: buffers by number; every form of `:b` keeps the invariants; `:b !` keeps the
  other buffers; the projection consists of local steps
-/
namespace Neatvi.Lemmas.C20c
open Neatvi Neatvi.Lbuf Neatvi.Ex Neatvi.Rset Neatvi.Props.C20 Neatvi.Props.C20b Neatvi.Lemmas.C20b
open Neatvi.Lemmas.ExFrame Neatvi.Lemmas.C02Ex

/-! ### the invariants one by one under a quiet step; every form of `:b` -/

theorem idsOk_of_ids {ed ed' : Ed} (hcnt : ed'.bufsCnt = ed.bufsCnt)
    (hid : ∀ i, (ed'.bufs.getD i none).map (·.id) = (ed.bufs.getD i none).map (·.id))
    (h : IdsOk ed) : IdsOk ed' := by
  rw [idsOk_iff, hcnt]
  refine idsOkL_transfer id (fun _ _ e => e) (Int.le_refl _) ?_ h
  intro i b hb
  have := hid i
  rw [hb] at this
  cases hx : ed.bufs.getD i none with
  | none => rw [hx] at this; cases this
  | some b' =>
    rw [hx] at this
    simp only [Option.map_some, Option.some.injEq] at this
    exact ⟨b', hx, this.symm⟩

theorem packed_of_ids {ed ed' : Ed}
    (hid : ∀ i, (ed'.bufs.getD i none).map (·.id) = (ed.bufs.getD i none).map (·.id))
    (h : Packed ed) : Packed ed' := by
  intro i j hij hj
  have e1 := congrArg Option.isSome (hid i)
  have e2 := congrArg Option.isSome (hid j)
  simp only [Option.isSome_map] at e1 e2
  rw [e1]; rw [e2] at hj
  exact h i j hij hj

/-- **every form of `:b`** — the listing (no argument), `:b !`, `:b ~`, `:b +`, `:b -`, `:b N`,
    `:b %|#|^`, and any other argument ("no such buffer") — keeps the buffer numbers unique and
    within `1..bufsCnt`, and keeps the occupied slots a prefix, whatever its outcome -/
theorem ec_buffer_invariants_all (f : Nat) (ed ed' : Ed) (loc cmd arg : Bytes) (txt : Option Bytes) (r : Int)
    (h : runCmd (f + 1) ed "ec_buffer" loc cmd arg txt = some (r, ed')) :
    (IdsOk ed → IdsOk ed') ∧ (Packed ed → Packed ed') := by
  cases h0 : arg.isEmpty
  · exact ec_buffer_invariants f ed ed' loc cmd arg txt r h0 h
  · rw [runCmd_b_list f ed loc cmd arg txt h0] at h
    cases h
    have hq := quiet_listEd ed
    exact ⟨idsOk_of_ids hq.cnt hq.idAt, packed_of_ids hq.idAt⟩

/-- the same for the whole of `TableOk` (with the length of the table) -/
theorem ec_buffer_tableOk (f : Nat) (ed ed' : Ed) (loc cmd arg : Bytes) (txt : Option Bytes) (r : Int)
    (h : runCmd (f + 1) ed "ec_buffer" loc cmd arg txt = some (r, ed')) (hok : TableOk ed) : TableOk ed' :=
  buffer_T tableOk_closed f ed ed' loc cmd arg txt r h hok

/-! ### `:b !` removes the current buffer only -/

theorem delEd_steps (ed : Ed) :
    (ed.bufs.getD 1 none ≠ none ∧ StepOk ed .shift (delEd ed)) ∨
    (ed.bufs.getD 1 none = none ∧ StepOk ed .shift ed.bufsShift ∧ StepOk ed.bufsShift .fresh (delEd ed)) := by
  cases h1 : ed.bufs.getD 1 none with
  | some b1 =>
    left
    refine ⟨by simp, ?_⟩
    rw [delEd_second ed b1 h1]; rfl
  | none =>
    right
    refine ⟨rfl, rfl, ?_⟩
    have hc : ed.bufsShift.cur = none := by rw [bufsShift_cur]; exact h1
    refine ⟨hc, ?_⟩
    unfold delEd
    rw [hc]
    rfl

/-- `:b !`: every buffer other than the current one is kept as it was, one slot nearer the front -/
theorem delete_keeps_others (ed : Ed) (i : Nat) (hi : 0 < i) (hocc : (ed.bufs.getD i none).isSome = true) :
    obsAt (delEd ed) (i - 1) = obsAt ed i ∧ idAt (delEd ed) (i - 1) = idAt ed i := by
  have hm : Ev.shift.move i = some (i - 1) := by simp [Ev.move]; omega
  rcases delEd_steps ed with ⟨_, hs⟩ | ⟨h1, hs1, hs2⟩
  · exact ⟨step_obs hs i (i - 1) hm (by intro h; cases h), step_idAt hs i (i - 1) hm (by intro h; cases h)⟩
  · have hi1 : i ≠ 1 := by intro h; subst h; rw [h1] at hocc; cases hocc
    have hm2 : Ev.fresh.move (i - 1) = some (i - 1) := by simp [Ev.move]; omega
    exact ⟨(step_obs hs2 (i - 1) (i - 1) hm2 (by intro h; cases h)).trans (step_obs hs1 i (i - 1) hm (by intro h; cases h)),
      (step_idAt hs2 (i - 1) (i - 1) hm2 (by intro h; cases h)).trans (step_idAt hs1 i (i - 1) hm (by intro h; cases h))⟩

/-! ### the projection consists of local steps of the run -/

theorem own_mem : ∀ (tr : Trace) (i : Nat) (s : Ed × Ev × Ed), s ∈ own tr i → s ∈ tr ∧ s.2.1.isOwn = true := by
  intro tr
  induction tr with
  | nil => intro i s h; simp [own] at h
  | cons x tr ih =>
    intro i s h
    obtain ⟨a, ev, b⟩ := x
    simp only [own] at h
    cases hm : ev.move i with
    | none => rw [hm] at h; simp at h
    | some m =>
      rw [hm] at h
      simp only [List.mem_append] at h
      rcases h with h | h
      · split at h
        · next hl =>
          simp only [List.mem_singleton] at h
          subst h
          exact ⟨List.mem_cons_self, hl.1⟩
        · simp at h
      · exact ⟨List.mem_cons_of_mem _ (ih m s h).1, (ih m s h).2⟩

theorem chain_mem : ∀ (tr : Trace) (ed ed' : Ed), Chain ed tr ed' → ∀ s ∈ tr, StepOk s.1 s.2.1 s.2.2 := by
  intro tr
  induction tr with
  | nil => intro ed ed' _ s hs; simp at hs
  | cons x tr ih =>
    intro ed ed' h s hs
    obtain ⟨a, ev, b⟩ := x
    obtain ⟨_, hs1, hc⟩ := h
    rcases List.mem_cons.1 hs with e | hm
    · subst e; exact hs1
    · exact ih b ed' hc s hm

/-- every step of the projection is a step of the run that acts on the current buffer: it leaves
    every parked buffer exactly as it was -/
theorem own_loc (tr : Trace) (ed ed' : Ed) (h : Chain ed tr ed') (i : Nat) (s : Ed × Ev × Ed) (hs : s ∈ own tr i) :
    Loc s.1 s.2.2 :=
  stepOk_loc (chain_mem tr ed ed' h _ (own_mem tr i s hs).1) (own_mem tr i s hs).2

/-! ### buffers by number -/

/-- the slot of the buffer numbered `n` (the first one, should there be several) -/
def slotOf (ed : Ed) (n : Int) : Option Nat := (List.range ed.bufs.length).find? (fun i => idAt ed i == some n)

theorem idAt_lt {ed : Ed} {i : Nat} {n : Int} (h : idAt ed i = some n) : i < ed.bufs.length := by
  unfold idAt at h
  cases hb : ed.bufs.getD i none with
  | none => rw [hb] at h; cases h
  | some b => exact (mem_of_getD _ _ _ hb).2

/-- with unique numbers, "the slot of number `n`" is the slot holding number `n` -/
theorem slotOf_eq_some_iff {ed : Ed} (hok : IdsOk ed) (n : Int) (i : Nat) :
    slotOf ed n = some i ↔ idAt ed i = some n := by
  unfold slotOf
  rw [List.find?_range_eq_some]
  constructor
  · intro h; simpa using h.1
  · intro h
    refine ⟨by simpa using h, by simpa using idAt_lt h, ?_⟩
    intro j hj
    cases hx : idAt ed j with
    | none => simp
    | some m =>
      have hne : m ≠ n := by
        intro e
        subst e
        unfold idAt at h hx
        cases hbi : ed.bufs.getD i none with
        | none => rw [hbi] at h; cases h
        | some bi =>
          cases hbj : ed.bufs.getD j none with
          | none => rw [hbj] at hx; cases hx
          | some bj =>
            rw [hbi] at h; rw [hbj] at hx
            simp only [Option.map_some, Option.some.injEq] at h hx
            exact hok.2.2 j i bj bi (by omega) hbj hbi (by omega)
      simpa using hne

/-- **locality, by buffer number.**  On a well-formed table, along a run that does not renumber
    (`:b ~`): the buffer numbered `n`, if it is still there, is still numbered `n`, is found in the
    slot the tracking says, and its state is linked to its initial state through its own steps. -/
theorem locality_by_number (tr : Trace) (ed ed' : Ed) (hok : TableOk ed) (hc : Chain ed tr ed')
    (hre : ∀ s ∈ tr, s.2.1 ≠ Ev.renum) (n : Int) (i j : Nat) (hs : slotOf ed n = some i)
    (ht : track tr i = some j) :
    slotOf ed' n = some j ∧ Linked (obsAt ed i) (own tr i) (obsAt ed' j) := by
  have hok' := chain_tableOk tr ed ed' hc hok
  refine ⟨?_, locality tr ed ed' i j hc ht⟩
  rw [slotOf_eq_some_iff hok'.2.1, track_idAt tr ed ed' i j hc ht hre]
  exact (slotOf_eq_some_iff hok.2.1 n i).1 hs

end Neatvi.Lemmas.C20c
