import NeatviVerif.Lemmas.C05gDepth
import NeatviVerif.Props.C15
/-!
# C05g lemmas, part 2: the count of executing registers is restored

`atDepth_restored`: every `ex_command` / `ex_exec` / handler call returns with the `atDepth` it was called with
(whatever the fuel): `ec_at` counts it up for the nested command line and down again, everything else leaves it
alone (`Lemmas/C05gDepth.lean`).
-/
namespace Neatvi.Lemmas.C05g
open Neatvi Neatvi.Lbuf Neatvi.LbufIo Neatvi.Ex Neatvi.Rset Neatvi.Lemmas.ExFrame

def ExecD (f : Nat) : Prop := ∀ ed ln r ed', exExec f ed ln = some (r, ed') → ed'.atDepth = ed.atDepth
def CmdD (f : Nat) : Prop := ∀ ed ln r ed', exCommand f ed ln = some (r, ed') → ed'.atDepth = ed.atDepth
def RunD (f : Nat) : Prop := ∀ ed h loc cmd arg txt r ed',
  runCmd f ed h loc cmd arg txt = some (r, ed') → ed'.atDepth = ed.atDepth

/-! ### `:g` -/

theorem adv_depth (dep : Nat) : ∀ (h : Nat) (ed : Ed) (i : Int), (ecGlob.scan.adv dep h ed i).1.atDepth = ed.atDepth := by
  intro h
  induction h with
  | zero => intro ed i; rw [ecGlob.scan.adv]
  | succ h ih =>
    intro ed i
    rw [ecGlob.scan.adv]
    split
    · rfl
    · split
      · rfl
      · simp only []
        split
        · exact setLb_depth _ _
        · rw [ih]; exact setLb_depth _ _

theorem scan_depth (f : Nat) (neg : Bool) (s : Bytes) (re : RStr) (dep : Nat) (hbody : ExecD f) :
    ∀ (g : Nat) (ed : Ed) (i : Int) (ed' : Ed), ecGlob.scan f neg s re dep g ed i = some ed' →
      ed'.atDepth = ed.atDepth := by
  intro g
  induction g with
  | zero => intro ed i ed' h; rw [ecGlob.scan] at h; cases h
  | succ g ih =>
    intro ed i ed' h
    rw [ecGlob.scan] at h
    simp only [] at h
    frame_cases
    all_goals depth_facts [hbody, ih]
    all_goals (try simp only [adv_depth] at *)
    all_goals depth_omega

theorem globPrep_depth (ed : Ed) (arg : Bytes) : (Props.C15.globPrep ed arg).atDepth = ed.atDepth := by
  unfold Props.C15.globPrep
  depth_omega

theorem foldl_ed_depth {α : Type} (F : Ed → α → Ed) (hF : ∀ ed a, (F ed a).atDepth = ed.atDepth) :
    ∀ (l : List α) (ed : Ed), (l.foldl F ed).atDepth = ed.atDepth := by
  intro l
  induction l with
  | nil => intro ed; rfl
  | cons a l ih => intro ed; rw [List.foldl_cons, ih, hF]

theorem globMark_depth (ed : Ed) (b e : Int) (dep : Nat) : (Props.C15.globMark ed b e dep).atDepth = ed.atDepth := by
  unfold Props.C15.globMark
  rw [foldl_ed_depth]
  intro ed a
  depth_omega

theorem globSweep_depth (ed : Ed) (dep : Nat) : (Props.C15.globSweep ed dep).atDepth = ed.atDepth := by
  unfold Props.C15.globSweep
  depth_omega

theorem ecGlob_depth (f : Nat) (hbody : ExecD f) (ed ed' : Ed) (loc cmd arg : Bytes) (r : Int)
    (h : ecGlob (f + 1) ed loc cmd arg = some (r, ed')) : ed'.atDepth = ed.atDepth := by
  rw [Props.C15.ecGlob_eq] at h
  by_cases hdep : ed.xgdep ≥ 7
  · rw [if_pos hdep] at h; cases h; rfl
  rw [if_neg hdep] at h
  split at h
  · cases h
  · rename_i rc b e ed1 hr
    have e1 := exRegion_depth hr
    have e2 := globPrep_depth ed1 arg
    split at h
    · cases h; exact e1
    · split at h
      · cases h; omega
      · split at h
        · cases h
        · cases h; omega
        · split at h
          · cases h
          · rename_i ed2 hscan
            cases h
            have e3 := scan_depth f _ _ _ _ hbody _ _ _ _ hscan
            have e4 := globMark_depth (Props.C15.globPrep ed1 arg) b e ((Props.C15.globPrep ed1 arg).xgdep + 1)
            have e5 := globSweep_depth ed2 ((Props.C15.globPrep ed1 arg).xgdep + 1)
            show (Props.C15.globSweep ed2 _).atDepth = _
            omega

/-! ### `:@` -/

theorem ecAt_depth (f : Nat) (hcmd : CmdD f) (ed ed' : Ed) (loc cmd arg : Bytes) (r : Int)
    (h : ecAt (f + 1) ed loc cmd arg = some (r, ed')) : ed'.atDepth = ed.atDepth := by
  rw [ecAt] at h
  split at h
  · cases h; rfl
  · split at h
    · cases h
    · rename_i hr
      have e1 := exRegion_depth hr
      split at h
      · cases h; exact e1
      · split at h
        · cases h; exact e1
        · simp only [] at h
          split at h
          · cases h; exact e1
          · split at h
            · cases h
            · rename_i r2 ed2 hx
              cases h
              have e2 := hcmd _ _ _ _ hx
              show ed2.atDepth - 1 = ed.atDepth
              have e3 : ed2.atDepth = _ + 1 := e2
              omega

/-! ### `:e` -/

open Neatvi.Lemmas.C02c Neatvi.Lemmas.C05d in
theorem editStage_depth {ed : Ed} {cmd arg : Bytes} {x : Sum (Int × Ed) Ed} (h : editStage ed cmd arg = some x) :
    (match x with | .inl y => y.2.atDepth | .inr e => e.atDepth) = ed.atDepth := by
  have hpre : ∀ e p, (Props.C20.ewPre e cmd p).atDepth = e.atDepth := by
    intro e p; unfold Props.C20.ewPre; depth_omega
  have hopen : ∀ e p, (editOpen e p).atDepth = e.atDepth := by
    intro e p; unfold editOpen
    split
    · simp only [bufsSwitch_depth, bufsOpen_depth]
    · rfl
  have hfin : ∀ e p e', editFinish e p = some e' → e'.atDepth = e.atDepth := by
    intro e p e' hf
    unfold editFinish editRead at hf
    simp only [] at hf
    frame_cases
    all_goals depth_omega
  unfold editStage at h
  cases hg : Props.C20.editGuard ed cmd with
  | none => rw [hg] at h; cases h
  | some y =>
    obtain ⟨g, ed1⟩ := y
    have e1 : ed1.atDepth = ed.atDepth := by
      unfold Props.C20.editGuard at hg
      split at hg
      · exact bufsModified_depth hg
      · cases hg; rfl
    rw [hg] at h
    cases g with
    | true => cases h; exact e1
    | false =>
      simp only [] at h
      cases hp : pathExpand ed1 (plusSplit arg).2 false with
      | none => rw [hp] at h; cases h
      | some z =>
        obtain ⟨p, ed2⟩ := z
        have e2 : ed2.atDepth = ed.atDepth := (pathExpand_depth hp).trans e1
        rw [hp] at h
        cases p with
        | none => cases h; exact e2
        | some path =>
          simp only [] at h
          split at h
          · cases h
            show (Ed.bufsSwitch _ _).atDepth = _
            rw [bufsSwitch_depth, hpre]; exact e2
          · cases hg2 : editGuard2 (Props.C20.ewPre ed2 cmd path) path with
            | none => rw [hg2] at h; cases h
            | some w =>
              obtain ⟨g2, ed3⟩ := w
              have e3 : ed3.atDepth = ed.atDepth := by
                unfold editGuard2 at hg2
                split at hg2
                · rw [bufsModified_depth hg2, hpre]; exact e2
                · cases hg2; rw [hpre]; exact e2
              rw [hg2] at h
              cases g2 with
              | true => cases h; exact e3
              | false =>
                simp only [] at h
                cases hf : editFinish (editOpen ed3 path) path with
                | none => rw [hf] at h; cases h
                | some ed4 =>
                  rw [hf] at h
                  cases h
                  show ed4.atDepth = _
                  rw [hfin _ _ _ hf, hopen]; exact e3

open Neatvi.Lemmas.C02c Neatvi.Lemmas.C05d in
theorem ecEdit_depth (f : Nat) (hcmd : CmdD f) (ed ed' : Ed) (cmd arg : Bytes) (r : Int)
    (h : ecEdit (f + 1) ed cmd arg = some (r, ed')) : ed'.atDepth = ed.atDepth := by
  rw [ecEdit_stage] at h
  split at h
  · cases h
  · rename_i x hs
    cases h
    exact editStage_depth hs
  · rename_i edX hs
    have e1 : edX.atDepth = ed.atDepth := editStage_depth hs
    unfold editPlus at h
    split at h
    · exact (hcmd _ _ _ _ h).trans e1
    · cases h; exact e1

/-! ### command lines -/

theorem cmds_depth (f : Nat) (hrun : RunD f) :
    ∀ (g : Nat) (ed : Ed) (ln : Bytes) (ret r : Int) (ed' : Ed),
      exExec.cmds f g ed ln ret = some (r, ed') → ed'.atDepth = ed.atDepth := by
  intro g
  induction g with
  | zero => intro ed ln ret r ed' h; rw [exExec.cmds] at h; cases h; rfl
  | succ g ih =>
    intro ed ln ret r ed' h
    rw [exExec.cmds] at h
    split at h
    · cases h; rfl
    · generalize exLoc ln = p1 at h
      obtain ⟨loc, l1⟩ := p1
      simp only [] at h
      generalize exCmd l1 = p2 at h
      obtain ⟨cmd, l2⟩ := p2
      simp only [] at h
      generalize exIdx cmd = idx at h
      cases idx with
      | none =>
        simp only [] at h
        generalize exArg l2 (strOf "unknown") = p3 at h
        obtain ⟨arg, l3⟩ := p3
        simp only [] at h
        have hb := exTxt_depth ed l3 (strOf "unknown")
        generalize exTxt ed l3 (strOf "unknown") = T at h hb
        obtain ⟨⟨txt, l4⟩, edT⟩ := T
        simp only [] at h hb
        have := ih _ _ _ _ _ h
        simp only [show_depth] at this
        omega
      | some ah =>
        obtain ⟨a, hh⟩ := ah
        simp only [] at h
        generalize exArg l2 a = p3 at h
        obtain ⟨arg, l3⟩ := p3
        simp only [] at h
        have hb := exTxt_depth ed l3 a
        generalize exTxt ed l3 a = T at h hb
        obtain ⟨⟨txt, l4⟩, edT⟩ := T
        simp only [] at h hb
        split at h
        · cases h
        · rename_i r1 ed1 hr
          have e1 := hrun _ _ _ _ _ _ _ _ hr
          have e2 := ih _ _ _ _ _ h
          omega

theorem exExec_depth (f : Nat) (hrun : RunD f) : ExecD (f + 1) := by
  intro ed ln r ed' h
  rw [exExec] at h
  split at h
  · cases h; rfl
  · exact cmds_depth f hrun _ _ _ _ _ _ h

theorem exCommand_depth (f : Nat) (hx : ExecD f) : CmdD (f + 1) := by
  intro ed ln r ed' h
  rw [exCommand] at h
  split at h
  · cases h
  · rename_i r1 ed1 he
    cases h
    rw [modifiedAt_depth]
    exact hx _ _ _ _ he

theorem runD_succ (f : Nat) (hx : ExecD f) (hc : CmdD f) : RunD (f + 2) := by
  intro ed hd loc cmd arg txt r ed' h
  refine runCmd_depth (f + 1) ed ed' hd loc cmd arg txt r ?_ ?_ ?_ h
  · intro ed r ed' h; exact ecAt_depth f hc ed ed' loc cmd arg r h
  · intro ed r ed' h; exact ecGlob_depth f hx ed ed' loc cmd arg r h
  · intro ed r ed' h; exact ecEdit_depth f hc ed ed' cmd arg r h

theorem runD_zero : RunD 0 := by
  intro ed hd loc cmd arg txt r ed' h; rw [runCmd] at h; cases h

theorem runD_one : RunD 1 := by
  intro ed hd loc cmd arg txt r ed' h
  refine runCmd_depth 0 ed ed' hd loc cmd arg txt r ?_ ?_ ?_ h
  · intro ed r ed' h; rw [ecAt] at h; cases h
  · intro ed r ed' h; rw [ecGlob] at h; cases h
  · intro ed r ed' h; rw [ecEdit] at h; cases h

theorem all_depth : ∀ f : Nat, ExecD f ∧ CmdD f ∧ RunD f ∧ RunD (f + 1) := by
  intro f
  induction f with
  | zero =>
    refine ⟨?_, ?_, runD_zero, runD_one⟩
    · intro ed ln r ed' h; rw [exExec] at h; cases h
    · intro ed ln r ed' h; rw [exCommand] at h; cases h
  | succ f ih =>
    obtain ⟨hx, hc, hr0, hr1⟩ := ih
    exact ⟨exExec_depth f hr0, exCommand_depth f hx, hr1, runD_succ f hx hc⟩

end Neatvi.Lemmas.C05g
