import NeatviVerif.Lemmas.C05cCmd
import NeatviVerif.Lemmas.C07Step
import NeatviVerif.Lemmas.C09Queue
import NeatviVerif.Props.C05b
/-!
# C19f helper lemmas: invariants of the monadic functions of the vi loop

`Pres P m`: a computation that returns normally takes a state with `P` to a state with `P`.  It is
closed under `pure`, bind, `if`, `match`, recursion by fuel.  Two families of predicates are carried
through the functions of `Model/Vi.lean` / `Model/ViCmd.lean` by the same syntax-directed tactic
(`pres_tac`):

* `Hz v` — the *horizontal snapshot* `hsnap s = (xcol, xcols, xleft, xtd, xquit)` has the value `v`:
  with `v` arbitrary this is the frame fact "the function leaves these five alone".  It holds of the
  prefixes and the motion of an iteration (`viPre`), of `vi_wfix`, `vi_wait`, `lbuf_modified`.
* `GoodB b c` — `xcols = c`, `0 ≤ xcol`, `0 ≤ vi_pcol` and both counts within `[0, 999999999]`
  (`CountsFit` of C05b), and, when `b`, `0 ≤ xcols` and no negative `xleft`, current or saved in the
  buffer table (`LOk`): an invariant of *every* function, `viStep` included
  (`Lemmas/C19fGood.lean`) — for `b = true` given that the ex layer keeps `LOk` (`ExKeepsLeft`).
  `Good c` is `GoodB false c`.

`HG P` says `P` is one of these; the lemmas about the functions both families need are stated for
`HG P` and proved by `cases` on it with one script.
-/
set_option linter.unusedSimpArgs false
set_option linter.unusedVariables false

namespace Neatvi.Lemmas.C19f
open Neatvi Neatvi.Uc Neatvi.Lbuf Neatvi.Ex Neatvi.Mot Neatvi.Vi
open Neatvi.Lemmas.C05b (CountsFit bind_apply)
open Neatvi.Lemmas.C05c (bind_inv)

/-- a computation that returns normally keeps `P` -/
def Pres {α : Type} (P : VS → Prop) (m : M α) : Prop :=
  ∀ s a s', P s → m s = Res.ok a s' → P s'

namespace Pres

theorem pure {α : Type} {P : VS → Prop} (a : α) : Pres P (Pure.pure a : M α) := by
  intro s b s' hs h
  cases h
  exact hs

theorem bind {α β : Type} {P : VS → Prop} {m : M α} {f : α → M β} (hm : Pres P m) (hf : ∀ a, Pres P (f a)) :
    Pres P (m >>= f) := by
  intro s b s' hs h
  obtain ⟨a, s1, h1, h2⟩ := bind_inv _ _ _ _ _ h
  exact hf a _ _ _ (hm _ _ _ hs h1) h2

/-- after `get` the continuation may use that the state it was handed has `P` -/
theorem bind_get {β : Type} {P : VS → Prop} {f : VS → M β} (hf : ∀ s0, P s0 → Pres P (f s0)) :
    Pres P (Vi.get >>= f) := by
  intro s b s' hs h
  exact hf s hs s b s' hs h

theorem get {P : VS → Prop} : Pres P Vi.get := by
  intro s a s' hs h
  cases h
  exact hs

theorem trap {α : Type} {P : VS → Prop} : Pres P (Vi.trap : M α) := by
  intro s a s' hs h
  cases h

theorem modify {P : VS → Prop} {f : VS → VS} (hf : ∀ s, P s → P (f s)) : Pres P (Vi.modify f) := by
  intro s a s' hs h
  cases h
  exact hf s hs

theorem withEd {P : VS → Prop} {f : Ed → Ed} (hf : ∀ s : VS, P s → P { s with ed := f s.ed }) :
    Pres P (Vi.withEd f) := modify hf

theorem ite {α : Type} {P : VS → Prop} {p : Prop} [Decidable p] {a b : M α} (ha : Pres P a) (hb : Pres P b) :
    Pres P (if p then a else b) := by
  split <;> assumption

theorem liftO {α : Type} {P : VS → Prop} (o : Option α) : Pres P (Vi.liftO o) := by
  intro s a s' hs h
  unfold Vi.liftO at h
  split at h
  · cases h; exact hs
  · cases h

theorem repeatM {P : VS → Prop} (n : Nat) {m : M Unit} (hm : Pres P m) : Pres P (Vi.repeatM n m) := by
  induction n with
  | zero => exact pure _
  | succ n ih => exact bind hm (fun _ => ih)

/-- a function whose result state agrees with the start state on everything `P` looks at -/
theorem of_eq {α : Type} {P : VS → Prop} {m : M α} (h : ∀ s a s', m s = Res.ok a s' → P s → P s') : Pres P m :=
  fun s a s' hs hm => h s a s' hm hs

end Pres

/-! ### the two families of predicates -/

/-- the horizontal snapshot: sticky column, window width, first visible column, text direction, quit flag -/
def hsnap (s : VS) : Int × Int × Int × Int × Bool := (s.xcol, s.xcols, s.ed.xleft, s.ed.xtd, s.ed.xquit)

/-- the snapshot has the value `v` -/
def Hz (v : Int × Int × Int × Int × Bool) (s : VS) : Prop := hsnap s = v

/-- no negative `xleft`: the current one and those saved in the buffer table (`ex.c` `bufs[].left`) -/
def LOk (ed : Ed) : Prop := 0 ≤ ed.xleft ∧ ∀ bf, some bf ∈ ed.bufs → 0 ≤ bf.left

/-- the ex layer keeps `LOk`: `:e`, `:b`, … save `xleft` into the table and restore a saved one.
    (A statement about `Model/ExCmd.lean` alone; not proved in C19f.) -/
def ExKeepsLeft : Prop :=
  ∀ (ed ed' : Ed) (ln : Bytes) (rc : Int), exCommand 64 ed ln = some (rc, ed') → LOk ed → LOk ed'

/-- `Good c`, and when `b` also `0 ≤ xcols` and `LOk` -/
def GoodB (b : Bool) (c : Int) (s : VS) : Prop :=
  s.xcols = c ∧ 0 ≤ s.xcol ∧ 0 ≤ s.pcol ∧ CountsFit s ∧ (b = true → 0 ≤ s.xcols ∧ LOk s.ed)

/-- window width `c`, non-negative sticky column and `|` column, counts within bounds -/
abbrev Good (c : Int) (s : VS) : Prop := GoodB false c s

/-- `P` is one of the predicates of the two families -/
inductive HG : (VS → Prop) → Prop
  | hz (v : Int × Int × Int × Int × Bool) : HG (Hz v)
  | good (b : Bool) (c : Int) : HG (GoodB b c)

theorem hsnap_fields {s s' : VS} (h : hsnap s' = hsnap s) :
    s'.xcol = s.xcol ∧ s'.xcols = s.xcols ∧ s'.ed.xleft = s.ed.xleft ∧ s'.ed.xtd = s.ed.xtd ∧
    s'.ed.xquit = s.ed.xquit := by
  unfold hsnap at h
  simp only [Prod.mk.injEq] at h
  exact h

/-- the frame form of `Pres (Hz v)` for all `v` -/
theorem hz_frame {α : Type} {m : M α} (h : ∀ v, Pres (Hz v) m) (s : VS) (a : α) (s' : VS)
    (hm : m s = Res.ok a s') : hsnap s' = hsnap s :=
  h (hsnap s) s a s' rfl hm

/-! ### the primitives -/

theorem pres_termRead {P : VS → Prop} (hP : HG P) : Pres P termRead := by
  intro s a s' hs h
  obtain ⟨e0, _, e1, e2, e3, _, _, _, e4, _, _, _, _, _, _, _, e5, _⟩ := C09.termRead_frame s s' a h
  cases hP with
  | hz v => unfold Hz hsnap at *; rw [e0, e1, e5]; exact hs
  | good b c =>
    unfold GoodB CountsFit at *
    rw [e0, e1, e2, e3, e4, e5]; exact hs

theorem pres_viRead {P : VS → Prop} (hP : HG P) : Pres P viRead := by
  intro s a s' hs h
  unfold viRead at h
  split at h
  · cases h
    cases hP <;> exact hs
  · exact pres_termRead hP _ _ _ hs h

theorem pres_termCmd {P : VS → Prop} (hP : HG P) : Pres P termCmd := by
  intro s a s' hs h
  cases h
  cases hP <;> exact hs

/-- an update of the current line buffer (marks, sequence numbers) -/
theorem setLb_hz (ed : Ed) (lb : Lb) :
    (ed.setLb lb).xleft = ed.xleft ∧ (ed.setLb lb).xtd = ed.xtd ∧ (ed.setLb lb).xquit = ed.xquit := by
  unfold Ed.setLb
  cases ed.cur <;> exact ⟨rfl, rfl, rfl⟩

/-- an update of the current line buffer keeps the saved `left` of every buffer -/
theorem lOk_setLb (ed : Ed) (lb : Lb) (h : LOk ed) : LOk (ed.setLb lb) := by
  unfold Ed.setLb
  cases hc : ed.cur with
  | none => exact h
  | some b =>
    refine ⟨h.1, fun bf hbf => ?_⟩
    have hmem : some b ∈ ed.bufs := by
      unfold Ed.cur at hc
      rw [List.getD_eq_getElem?_getD] at hc
      cases hg : ed.bufs[0]? with
      | none => rw [hg] at hc; cases hc
      | some x =>
        rw [hg] at hc
        simp only [Option.getD_some] at hc
        rw [← hc]
        exact List.mem_of_getElem? hg
    unfold Ed.setCur at hbf
    rcases List.mem_or_eq_of_mem_set hbf with h1 | h1
    · exact h.2 bf h1
    · cases h1
      exact h.2 b hmem

theorem pres_setLb {P : VS → Prop} (hP : HG P) (g : Lb → Lb) :
    Pres P (Vi.withEd fun ed => match ed.lb with | some lb => ed.setLb (g lb) | none => ed) := by
  refine Pres.withEd (fun s hs => ?_)
  cases hP with
  | hz v =>
    unfold Hz hsnap at *
    cases hlb : s.ed.lb with
    | none => simp only [hlb]; exact hs
    | some lb =>
      simp only [hlb]
      obtain ⟨a, b, c⟩ := setLb_hz s.ed (g lb)
      rw [a, b, c]; exact hs
  | good b c =>
    refine ⟨hs.1, hs.2.1, hs.2.2.1, hs.2.2.2.1, fun hb => ⟨(hs.2.2.2.2 hb).1, ?_⟩⟩
    have hl := (hs.2.2.2.2 hb).2
    show LOk (match s.ed.lb with | some lb => s.ed.setLb (g lb) | none => s.ed)
    cases s.ed.lb with
    | none => exact hl
    | some lb => exact lOk_setLb s.ed (g lb) hl

theorem pres_markSet {P : VS → Prop} (hP : HG P) (k : Nat) (r o : Int) : Pres P (markSet k r o) :=
  pres_setLb hP (fun lb => setMark lb k r o)

theorem pres_lbufModified {P : VS → Prop} (hP : HG P) : Pres P lbufModified :=
  pres_setLb hP (fun lb => (Lbuf.modified lb).2)

/-! ### the tactic -/

/-- the table of leaves: extended by `macro_rules` after every function proved -/
syntax "pres_leaf" : tactic
macro_rules | `(tactic| pres_leaf) => `(tactic| first
  | with_reducible assumption
  | with_reducible exact Pres.pure _
  | with_reducible exact Pres.get
  | with_reducible exact Pres.trap
  | with_reducible exact Pres.liftO _
  | with_reducible exact pres_viRead (by constructor)
  | with_reducible exact pres_termRead (by constructor)
  | with_reducible exact pres_termCmd (by constructor)
  | with_reducible exact pres_markSet (by constructor) _ _ _
  | with_reducible exact pres_lbufModified (by constructor)
  | ((with_reducible refine Pres.modify (fun _ hs => ?_)); exact hs)
  | ((with_reducible refine Pres.withEd (fun _ hs => ?_)); exact hs))

macro "pres_step" : tactic => `(tactic| first
  | pres_leaf
  | with_reducible refine Pres.repeatM _ ?_
  | with_reducible refine Pres.bind_get (fun _ _ => ?_)
  | with_reducible refine Pres.bind ?_ (fun _ => ?_)
  | with_reducible refine Pres.ite ?_ ?_
  | dsimp only
  | (show Pres _ _; split))

macro "pres_tac" : tactic => `(tactic| repeat' pres_step)

/-! ### prefixes, characters, prompts (both families) -/

theorem pres_viBack {P : VS → Prop} (hP : HG P) (c : Int) : Pres P (viBack c) := by
  cases hP <;> (unfold viBack; pres_tac)
macro_rules | `(tactic| pres_leaf) => `(tactic| with_reducible exact pres_viBack (by constructor) _)

theorem pres_termPush {P : VS → Prop} (hP : HG P) (x : Bytes) : Pres P (termPush x) := by
  cases hP <;> (unfold termPush; pres_tac)
macro_rules | `(tactic| pres_leaf) => `(tactic| with_reducible exact pres_termPush (by constructor) _)

theorem pres_unmodelled {P : VS → Prop} (hP : HG P) : Pres P Vi.unmodelled := by
  cases hP <;> (unfold Vi.unmodelled; pres_tac)
macro_rules | `(tactic| pres_leaf) => `(tactic| with_reducible exact pres_unmodelled (by constructor))

theorem pres_setMsg {P : VS → Prop} (hP : HG P) (m : Bytes) : Pres P (setMsg m) := by
  cases hP <;> (unfold setMsg; pres_tac)
macro_rules | `(tactic| pres_leaf) => `(tactic| with_reducible exact pres_setMsg (by constructor) _)

theorem pres_setPos {P : VS → Prop} (hP : HG P) (r o : Int) : Pres P (setPos r o) := by
  cases hP <;> exact Pres.withEd (fun _ hs => hs)
theorem pres_setRow {P : VS → Prop} (hP : HG P) (r : Int) : Pres P (setRow r) := by
  cases hP <;> exact Pres.withEd (fun _ hs => hs)
theorem pres_setOff {P : VS → Prop} (hP : HG P) (o : Int) : Pres P (setOff o) := by
  cases hP <;> exact Pres.withEd (fun _ hs => hs)
theorem pres_setTop {P : VS → Prop} (hP : HG P) (t : Int) : Pres P (setTop t) := by
  cases hP <;> exact Pres.withEd (fun _ hs => hs)
theorem pres_regPut {P : VS → Prop} (hP : HG P) (k : Nat) (txt : Bytes) (ln : Nat) : Pres P (regPut k txt ln) := by
  cases hP <;> exact Pres.withEd (fun _ hs => hs)
theorem pres_viNextline (b : Bool) (c : Int) : Pres (GoodB b c) viNextline := by
  refine Pres.withEd (fun s hs => ?_)
  refine ⟨hs.1, hs.2.1, hs.2.2.1, hs.2.2.2.1, fun hb => ⟨(hs.2.2.2.2 hb).1, ?_⟩⟩
  have hl := (hs.2.2.2.2 hb).2
  show LOk (if _ then _ else _)
  split <;> exact hl
macro_rules | `(tactic| pres_leaf) => `(tactic| first
  | with_reducible exact pres_setPos (by constructor) _ _
  | with_reducible exact pres_setRow (by constructor) _
  | with_reducible exact pres_setOff (by constructor) _
  | with_reducible exact pres_setTop (by constructor) _
  | with_reducible exact pres_regPut (by constructor) _ _ _
  | with_reducible exact pres_viNextline _ _)

theorem pres_viYankbuf {P : VS → Prop} (hP : HG P) : Pres P viYankbuf := by
  cases hP <;> (unfold viYankbuf; pres_tac)
macro_rules | `(tactic| pres_leaf) => `(tactic| with_reducible exact pres_viYankbuf (by constructor))

theorem pres_digits {P : VS → Prop} (hP : HG P) (f : Nat) (n c : Int) : Pres P (viPrefix.digits f n c) := by
  induction f generalizing n c with
  | zero => cases hP <;> (unfold viPrefix.digits; pres_tac)
  | succ f ih =>
    unfold viPrefix.digits
    cases hP <;> repeat' (first | exact ih _ _ | pres_step)

theorem pres_viPrefix {P : VS → Prop} (hP : HG P) : Pres P viPrefix := by
  unfold viPrefix
  cases hP <;> repeat' (first | exact pres_digits (by constructor) _ _ _ | pres_step)
macro_rules | `(tactic| pres_leaf) => `(tactic| with_reducible exact pres_viPrefix (by constructor))

theorem pres_more {P : VS → Prop} (hP : HG P) (k : Nat) (acc : Bytes) : Pres P (readCharS.more k acc) := by
  induction k generalizing acc with
  | zero => unfold readCharS.more; exact Pres.pure _
  | succ k ih =>
    unfold readCharS.more
    cases hP <;> repeat' (first | exact ih _ | pres_step)

theorem pres_readKey_more {P : VS → Prop} (hP : HG P) (k : Nat) : Pres P (readKey.more k) := by
  induction k with
  | zero => unfold readKey.more; exact Pres.pure _
  | succ k ih =>
    unfold readKey.more
    cases hP <;> repeat' (first | exact ih | pres_step)

/-- `led_readkey()` touches only the key queue, like `termRead` -/
theorem pres_readKey {P : VS → Prop} (hP : HG P) : Pres P readKey := by
  unfold readKey
  cases hP <;> repeat' (first | exact pres_readKey_more (by constructor) _ | pres_step)
macro_rules | `(tactic| pres_leaf) => `(tactic| with_reducible exact pres_readKey (by constructor))

theorem pres_readCharS {P : VS → Prop} (hP : HG P) (c : Int) (kmap : Nat) : Pres P (readCharS c kmap) := by
  unfold readCharS
  cases hP <;> repeat' (first | exact pres_more (by constructor) _ _ | pres_step)
macro_rules | `(tactic| pres_leaf) => `(tactic| with_reducible exact pres_readCharS (by constructor) _ _)

theorem pres_viChar_go {P : VS → Prop} (hP : HG P) (f : Nat) : Pres P (viChar.go f) := by
  induction f with
  | zero => unfold viChar.go; exact Pres.pure _
  | succ f ih =>
    unfold viChar.go
    cases hP <;> repeat' (first | exact ih | pres_step)

theorem pres_viChar {P : VS → Prop} (hP : HG P) : Pres P viChar := by
  unfold viChar
  exact pres_viChar_go hP _
macro_rules | `(tactic| pres_leaf) => `(tactic| with_reducible exact pres_viChar (by constructor))

theorem pres_ledLine_go {P : VS → Prop} (hP : HG P) (post : Bytes) (aiMax : Nat) (im pe : Bool)
    (setKmap : Option Nat → M Unit) (getKmap : M Nat) (redraw : Bytes → Bytes → Bytes → M Unit)
    (h1 : ∀ k, Pres P (setKmap k)) (h2 : Pres P getKmap) (h3 : ∀ a b c, Pres P (redraw a b c))
    (f : Nat) (sb ai : Bytes) (c1 : Int) :
    Pres P (ledLine.go post aiMax im pe setKmap getKmap redraw f sb ai c1) := by
  induction f generalizing sb ai c1 with
  | zero => unfold ledLine.go; exact Pres.pure _
  | succ f ih =>
    unfold ledLine.go
    cases hP <;>
      repeat' (first | exact h1 _ | exact h2 | exact h3 _ _ _ | exact ih _ _ _ | pres_step)

/-- `led_line` outside insert mode (the prompts): the redraw does not move the window -/
theorem pres_ledLine_prompt {P : VS → Prop} (hP : HG P) (pref post ai0 : Bytes) (aiMax : Nat) (ex : Bool) :
    Pres P (ledLine pref post ai0 aiMax false ex) := by
  unfold ledLine
  dsimp only
  apply pres_ledLine_go hP
  · intro k
    refine Pres.modify (fun s hs => ?_)
    cases hP <;> (split <;> exact hs)
  · intro s a s' hs h
    cases h
    exact hs
  · intro a b c
    simp only [Bool.false_eq_true, if_false]
    exact Pres.pure _
macro_rules | `(tactic| pres_leaf) => `(tactic| with_reducible exact pres_ledLine_prompt (by constructor) _ _ _ _ _)

theorem pres_viPrompt {P : VS → Prop} (hP : HG P) (ex : Bool) : Pres P (viPrompt ex) := by
  cases hP <;> (unfold viPrompt; pres_tac)
macro_rules | `(tactic| pres_leaf) => `(tactic| with_reducible exact pres_viPrompt (by constructor) _)

theorem pres_viSearch {P : VS → Prop} (hP : HG P) (cmd : Nat) (cnt r o : Int) : Pres P (viSearch cmd cnt r o) := by
  cases hP <;> (unfold viSearch; pres_tac)
macro_rules | `(tactic| pres_leaf) => `(tactic| with_reducible exact pres_viSearch (by constructor) _ _ _ _)

theorem pres_viMotionln {P : VS → Prop} (hP : HG P) (row cmd : Int) : Pres P (viMotionln row cmd) := by
  cases hP <;> (unfold viMotionln; pres_tac)
macro_rules | `(tactic| pres_leaf) => `(tactic| with_reducible exact pres_viMotionln (by constructor) _ _)

end Neatvi.Lemmas.C19f
