import NeatviVerif.Lemmas.C08Vi
/-!
# C08: the region normalisation of `vc_motion`, extracted as a pure function
-/
namespace Neatvi.Lemmas.C08
open Neatvi Neatvi.Uc Neatvi.Vi Neatvi.Ex Neatvi.Lbuf Neatvi.Mot

/-- the region normalisation of `vc_motion`, before the inclusive-motion adjustment of `o2` -/
def normRegion (s : VS) (lnmode : Bool) (r1 o1 r2 o2 : Int) : Int × Int × Int × Int :=
  let ls := lines s
  let (o1, o2) := if lnmode then ((0 : Int), eol ls r2) else (o1, o2)
  let (r1, r2, o1, o2) := if r1 > r2 then (r2, r1, o2, o1) else (r1, r2, o1, o2)
  let (o1, o2) := if r1 == r2 && o1 > o2 then (o2, o1) else (o1, o2)
  (r1, noeol s r1 o1, r2, o2)

def vcMotion' (cmd : Nat) : M Nat := do
  let s0 ← get
  let r1 := s0.ed.xrow
  let a2 ← viPrefix
  modify fun s => { s with arg2 := a2 }
  if a2 < 0 then pure 0 else
  let o1 := noeol s0 r1 s0.ed.xoff
  let (mvl, r2l) ← viMotionln r1 cmd
  let res ← (if mvl != 0 then pure (some (mvl, r2l, (-1 : Int))) else do
    let (mv, r2, o2) ← viMotion r1 o1
    if mv == 0 then do
      let _ ← viRead
      pure none
    else pure (some (mv, r2, o2)))
  match res with
  | none => pure 0
  | some (mv, r2, o2) =>
    if mv < 0 then pure 0 else
    let s ← get
    let ls := lines s
    let lnmode := o2 < 0
    let (r1, o1, r2, o2) := normRegion s lnmode r1 o1 r2 o2
    let incl := strHas "fteE%" mv || (mv == 59 && (s.charcmd == 102 || s.charcmd == 116 || s.charcmd == 0))
      || (mv == 44 && (s.charcmd == 70 || s.charcmd == 84 || s.charcmd == 0))
    let o2 := if !lnmode && incl && o2 < eol ls r2 then noeol s r2 o2 + 1 else o2
    if cmd == 121 then viYank r1 o1 r2 o2 lnmode
    else if cmd == 100 then viDelete r1 o1 r2 o2 lnmode
    else if cmd == 99 then viChange r1 o1 r2 o2 lnmode
    else if cmd == 126 || cmd == 117 || cmd == 85 then viCase r1 o1 r2 o2 lnmode cmd
    else if cmd == 62 || cmd == 60 then viShift r1 r2 (if cmd == 62 then 1 else -1)
    else if cmd == 33 then do
      let _ ← viPrompt
      unmodelled
      pure VC_WIN
    else pure 0

theorem vcMotion_eq (cmd : Nat) : vcMotion cmd = vcMotion' cmd := by
  unfold vcMotion vcMotion' normRegion
  simp only []
  congr 1
  funext s0
  congr 1
  funext a2
  congr 1
  congr 1
  congr 1
  funext x
  congr 1
  congr 1
  funext y
  congr 1
  funext res
  cases res with
  | none => rfl
  | some t =>
    obtain ⟨mv, r2, o2⟩ := t
    simp only []
    congr 1
    congr 1
    funext s
    by_cases h1 : o2 < 0 <;> by_cases h2 : s0.ed.xrow > r2 <;> simp only [h1, h2, if_true, if_false]
    all_goals rfl

theorem renNoeol_le (ln : Bytes) (o : Int) : Ren.renNoeol ln o ≤ o := by
  unfold Ren.renNoeol
  simp only []
  have hn : (0 : Int) ≤ ucSlen ln := by omega
  generalize (ucSlen ln : Int) = n at hn
  split <;> split <;> omega

end Neatvi.Lemmas.C08
