import NeatviVerif.Lemmas.C08gH
/-!
# C08g: `~`, `g~ gu gU` with a motion, `>> << >j <j`: by name at the level of `vc_motion`, and from the keys
-/
set_option linter.unusedSimpArgs false
set_option linter.unusedVariables false
namespace Neatvi.Lemmas.C08g
open Neatvi Neatvi.Uc Neatvi.Vi Neatvi.Ex Neatvi.Lbuf Neatvi.Mot Neatvi.Spec
open Neatvi.Lemmas.C08 Neatvi.Lemmas.C08b Neatvi.Lemmas.C08f
open Neatvi.Lemmas.C09 (finRec pending)
open Neatvi.Props.C07c (Utf8Buf refBufU)
open Neatvi.Props.C08f

/-! ### the case operators at the level of `vc_motion` -/

section case
variable (cmd : Nat) (hc : cmd = 126 ∨ cmd = 117 ∨ cmd = 85) (s s1 : VS) (a2 : Int) (body : List Nat) (o : Nat)
include hc

/-- **`~`** (`[count]~` = the case operator 126 with `SPC`), and `g~ SPC`, `gu SPC`, `gU SPC`: the `min c (|body| - o)`
characters from the cursor on are case-mapped, the cursor moves behind them -/
theorem case_spc_spec (hk : Prefixed s a2 32 s1) (hrow : OnRow s body o) :
    ∃ s', vcMotion cmd s = Res.ok VC_OK s' ∧
      RowCased cmd s (setArg2 a2 s1) s' s.ed.xrow body o (min (o + (opCount s a2).toNat) body.length) := by
  obtain ⟨s', e1, e3⟩ := row_case cmd hc s s1 _ a2 32 32 body o _ hrow (lands_spc s s1 a2 body o hk hrow)
  rw [inclusive_false _ 32 (by simp), span_excl] at e3
  have ho := hrow.onChar
  rw [show min o (min (o + (opCount s a2).toNat) body.length) = o by omega,
    show max o (min (o + (opCount s a2).toNat) body.length) = min (o + (opCount s a2).toNat) body.length by omega] at e3
  exact ⟨s', e1, e3⟩

/-- **`g~w`, `guw`, `gUw`**: the span of `dw` is case-mapped -/
theorem case_w_spec (t : Nat) (hk : Prefixed s a2 119 s1) (hrow : OnRow s body o) (hu : Utf8Buf (lines s))
    (href : Motion.wordFwdRaw false (refBufU (lines s)) ⟨s.ed.xrow.toNat, o⟩ (opCount s a2).toNat = ⟨s.ed.xrow.toNat, t⟩) :
    ∃ s', vcMotion cmd s = Res.ok VC_OK s' ∧ RowCased cmd s (setArg2 a2 s1) s' s.ed.xrow body (min o t) (max o t) := by
  obtain ⟨s', e1, e3⟩ := row_case cmd hc s s1 _ a2 119 119 body o t hrow (lands_w s s1 a2 body o t hk hrow hu href)
  rw [inclusive_false _ 119 (by simp), span_excl] at e3
  exact ⟨s', e1, e3⟩

/-- **`g~e`, `gue`, `gUe`**: the span of `de` (inclusive) -/
theorem case_e_spec (t : Nat) (hk : Prefixed s a2 101 s1) (hrow : OnRow s body o) (hu : Utf8Buf (lines s))
    (href : Motion.wordEndFwdRaw false (refBufU (lines s)) ⟨s.ed.xrow.toNat, o⟩ (opCount s a2).toNat = ⟨s.ed.xrow.toNat, t⟩) :
    ∃ s', vcMotion cmd s = Res.ok VC_OK s' ∧
      RowCased cmd s (setArg2 a2 s1) s' s.ed.xrow body (span true o t body.length).1 (span true o t body.length).2 := by
  obtain ⟨s', e1, e3⟩ := row_case cmd hc s s1 _ a2 101 101 body o t hrow (lands_e s s1 a2 body o t hk hrow hu href)
  rw [inclusive_true _ 101 (by simp)] at e3
  exact ⟨s', e1, e3⟩

/-- **`g~$`, `gu$`, `gU$`**: from the cursor to the end of the line -/
theorem case_dollar_spec (hk : Prefixed s a2 36 s1) (hrow : OnRow s body o) :
    ∃ s', vcMotion cmd s = Res.ok VC_OK s' ∧ RowCased cmd s (setArg2 a2 s1) s' s.ed.xrow body o body.length := by
  obtain ⟨s', e1, e3⟩ := row_case cmd hc s s1 _ a2 36 36 body o _ hrow (lands_dollar s s1 a2 body o hk hrow)
  rw [inclusive_false _ 36 (by simp), span_excl] at e3
  have ho := hrow.onChar
  rw [show min o body.length = o by omega, show max o body.length = body.length by omega] at e3
  exact ⟨s', e1, e3⟩

/-- **`g~0`, `gu0`, `gU0`**: the characters before the cursor -/
theorem case_zero_spec (hk : Prefixed s a2 48 s1) (hrow : OnRow s body o) :
    ∃ s', vcMotion cmd s = Res.ok VC_OK s' ∧ RowCased cmd s (setArg2 a2 s1) s' s.ed.xrow body 0 o := by
  obtain ⟨s', e1, e3⟩ := row_case cmd hc s s1 _ a2 48 48 body o 0 hrow (lands_zero s s1 a2 body o hk)
  rw [inclusive_false _ 48 (by simp), span_excl] at e3
  rw [show min o 0 = 0 by omega, show max o 0 = o by omega] at e3
  exact ⟨s', e1, e3⟩

end case

/-! ### the shifts at the level of `vc_motion` -/

section shift
variable (cmd : Nat) (hc : cmd = 62 ∨ cmd = 60) (s s1 : VS) (a2 : Int)
include hc

/-- **`>>`, `<<`** (`[count]>>`; the second key is the operator letter `k = cmd`): the rows
`r .. min (r + c - 1) (n - 1)` are shifted -/
theorem shift_dbl_spec (hk : Prefixed s a2 (cmd : Int) s1) (ha : 0 ≤ s.arg1) (h0 : 0 ≤ s.ed.xrow) (h1 : s.ed.xrow < lenOf s)
    (hwf : ∀ l ∈ lines s, Props.C01.WfLine l) :
    ∃ s', vcMotion cmd s = Res.ok VC_OK s' ∧
      LineShifted (if cmd = 62 then 1 else -1) s (setArg2 a2 s1) s' s.ed.xrow (min (s.ed.xrow + opCount s a2 - 1) (lenOf s - 1)) := by
  have hcp := opCount_pos s a2 ha hk.nonneg
  have ht : lnTarget (setArg2 a2 s) s.ed.xrow (cmd : Int) (cmd : Int) = some (min (s.ed.xrow + opCount s a2 - 1) (lenOf s - 1)) := by
    rcases hc with rfl | rfl <;> rfl
  obtain ⟨s', e1, e3⟩ := line_shift cmd hc s s1 a2 cmd _ hk (by rcases hc with rfl | rfl <;> decide) ht h0 h1 (by omega) (by omega) hwf
  rw [show min s.ed.xrow (min (s.ed.xrow + opCount s a2 - 1) (lenOf s - 1)) = s.ed.xrow by omega,
    show max s.ed.xrow (min (s.ed.xrow + opCount s a2 - 1) (lenOf s - 1)) = min (s.ed.xrow + opCount s a2 - 1) (lenOf s - 1) by omega] at e3
  exact ⟨s', e1, e3⟩

/-- **`>j`, `<j`**: the rows `r .. min (r + c) (n - 1)` -/
theorem shift_j_spec (hk : Prefixed s a2 106 s1) (ha : 0 ≤ s.arg1) (h0 : 0 ≤ s.ed.xrow) (h1 : s.ed.xrow < lenOf s)
    (hwf : ∀ l ∈ lines s, Props.C01.WfLine l) :
    ∃ s', vcMotion cmd s = Res.ok VC_OK s' ∧
      LineShifted (if cmd = 62 then 1 else -1) s (setArg2 a2 s1) s' s.ed.xrow (min (s.ed.xrow + opCount s a2) (lenOf s - 1)) := by
  have hcp := opCount_pos s a2 ha hk.nonneg
  have ht : lnTarget (setArg2 a2 s) s.ed.xrow (cmd : Int) 106 = some (min (s.ed.xrow + opCount s a2) (lenOf s - 1)) := by
    rcases hc with rfl | rfl <;> rfl
  obtain ⟨s', e1, e3⟩ := line_shift cmd hc s s1 a2 106 _ hk (by decide) ht h0 h1 (by omega) (by omega) hwf
  rw [show min s.ed.xrow (min (s.ed.xrow + opCount s a2) (lenOf s - 1)) = s.ed.xrow by omega,
    show max s.ed.xrow (min (s.ed.xrow + opCount s a2) (lenOf s - 1)) = min (s.ed.xrow + opCount s a2) (lenOf s - 1) by omega] at e3
  exact ⟨s', e1, e3⟩

/-- **`>k`, `<k`**: the rows `max (r - c) 0 .. r` -/
theorem shift_k_spec (hk : Prefixed s a2 107 s1) (ha : 0 ≤ s.arg1) (h0 : 0 ≤ s.ed.xrow) (h1 : s.ed.xrow < lenOf s)
    (hwf : ∀ l ∈ lines s, Props.C01.WfLine l) :
    ∃ s', vcMotion cmd s = Res.ok VC_OK s' ∧
      LineShifted (if cmd = 62 then 1 else -1) s (setArg2 a2 s1) s' (max (s.ed.xrow - opCount s a2) 0) s.ed.xrow := by
  have hcp := opCount_pos s a2 ha hk.nonneg
  have ht : lnTarget (setArg2 a2 s) s.ed.xrow (cmd : Int) 107 = some (max (s.ed.xrow - opCount s a2) 0) := by
    rcases hc with rfl | rfl <;> rfl
  obtain ⟨s', e1, e3⟩ := line_shift cmd hc s s1 a2 107 _ hk (by decide) ht h0 h1 (by omega) (by omega) hwf
  rw [show min s.ed.xrow (max (s.ed.xrow - opCount s a2) 0) = max (s.ed.xrow - opCount s a2) 0 by omega,
    show max s.ed.xrow (max (s.ed.xrow - opCount s a2) 0) = s.ed.xrow by omega] at e3
  exact ⟨s', e1, e3⟩

end shift

/-! ### from the keys -/

theorem RowCased.base {cmd : Nat} {ks : Bytes} {s s0 sm s' : VS} {body : List Nat} {a b : Nat}
    (h : RowCased cmd s0 sm s' s0.ed.xrow body a b) (hk : KeysMark ks s s0) :
    RowCased cmd s sm s' s.ed.xrow body a b := by
  obtain ⟨a1, a2, a3, a4, a5⟩ := h
  refine ⟨?_, ?_, ?_, a4, a5⟩
  · rw [a1, hk.lines, hk.xrow]
  · rw [a2, hk.regs]
  · rw [a3, hk.xrow]

theorem LineShifted.base {dir : Int} {ks : Bytes} {s s0 sm s' : VS} {lo hi : Int}
    (h : LineShifted dir s0 sm s' lo hi) (hk : KeysMark ks s s0) : LineShifted dir s sm s' lo hi := by
  obtain ⟨a1, a2, a3, a4, a5⟩ := h
  refine ⟨?_, ?_, a3, a4, a5⟩
  · rw [a1, hk.lines]
  · rw [a2, hk.regs]

/-- the queue side after a motion key, when the operator reads nothing further -/
theorem keysDone_op0 {ks : Bytes} {k : Nat} {s sm s2 s' : VS} (h1 : KeysMark ks s sm) (hv : s.vibuf = [])
    (h2 : Reads false [k] sm s2) (a2 : Int) (h3 : s' = { setArg2 a2 s2 with ed := s'.ed }) : KeysDone (ks ++ [k]) s s' :=
  keysDone_op (K := []) h1 hv h2 a2 ⟨s2.ibuf, s2.ibufPos, s2.typed, h3⟩

/-- the queue side after a shorthand key whose operator reads nothing further -/
theorem keysDone_short0 {ks : Bytes} {s sm s' : VS} (h1 : KeysMark ks s sm) (hv : s.vibuf = [])
    (a2 : Int) (h3 : s' = { setArg2 a2 sm with ed := s'.ed }) : KeysDone ks s s' := by
  have := keysDone_short (K := []) h1 hv a2 ⟨sm.ibuf, sm.ibufPos, sm.typed, h3⟩
  rwa [List.append_nil] at this

/-- **the key `~`** (`[count]~`): the `min c (|body| - o)` characters from the cursor on are toggled, the cursor moves
behind them (onto the last character of the line, after the window fix, when the line ends there) -/
theorem tilde_keys (s s1 : VS) (body : List Nat) (o : Nat) (hr : viRead s = Res.ok 126 s1) (hv : s1.vibuf = [])
    (hrow : OnRow s1 body o) :
    ∃ sm s', commandTail s = finRec 126 0 VC_OK s' ∧ pending s' = pending s1 ∧ KeysDone [] s1 s' ∧
      RowCased 126 s1 sm s' s1.ed.xrow body o (min (o + (opCount s1 0).toNat) body.length) := by
  obtain ⟨sm, hk0, hvb, hpend, hpre, hfin⟩ := keys_short 126 126 32 (by simp [isShort]) s s1 hr hv
  obtain ⟨s', e1, e3⟩ := case_spc_spec 126 (by simp) { sm with vibuf := [32] } sm 0 body o hpre (onRow_vibuf (hk0.onRow hrow) _)
  have hoc : opCount { sm with vibuf := [32] } 0 = opCount s1 0 := hk0.opCount 0
  rw [hoc] at e3
  have hpe : pending s' = pending s1 := by rw [e3.frame]; exact hpend
  refine ⟨setArg2 0 sm, s', hfin _ _ e1, hpe, keysDone_short0 hk0 hv 0 e3.frame, ?_⟩
  have : RowCased 126 sm (setArg2 0 sm) s' sm.ed.xrow body o (min (o + (opCount s1 0).toNat) body.length) :=
    ⟨e3.lines, e3.regs, e3.xrow, e3.xoff, e3.frame⟩
  exact this.base hk0

/-- reading one more key -/
theorem KeysMark.read {ks : Bytes} {k : Nat} {s sm s2 : VS} (h : KeysMark ks s sm) (h2 : Reads false [k] sm s2) :
    KeysMark (ks ++ [k]) s s2 := by
  obtain ⟨ib, ip, ty, xl, rfl, hx⟩ := h2
  have := hx rfl
  subst this
  have hl := h.lines
  obtain ⟨ib0, ip0, ty0, e⟩ := h.eq
  obtain ⟨B, hB⟩ : ∃ B, B = sm.ed.bufs := ⟨_, rfl⟩
  rw [← hB] at e
  subst e
  refine ⟨⟨ib, ip, ty, ?_⟩, hl⟩
  rw [icmdAfterL_append]

/-- **`g` followed by `~`, `u` or `U` and a motion key `k`** (not a digit; `s1`: the state once `g` has been read):
the dispatcher runs `vc_motion` with the second key as the operator letter -/
theorem keys_g (op : Nat) (hop : op = 126 ∨ op = 117 ∨ op = 85) (k : Nat) (hk : ¬ (49 ≤ k ∧ k ≤ 57))
    (s s1 : VS) (more : Bytes) (hr : viRead s = Res.ok 103 s1) (hv : s1.vibuf = []) (hp : pending s1 = op :: k :: more) :
    ∃ sm s3, KeysMark [op] s1 sm ∧ Prefixed sm 0 (k : Int) s3 ∧ Reads false [k] sm s3 ∧ pending s3 = more ∧ sm.vibuf = [] ∧
      ∀ m s', vcMotion op sm = Res.ok m s' → commandTail s = finRec 103 (op : Int) m s' := by
  obtain ⟨sm0, h2, h3, h4, h5⟩ := read_mark s1
  rw [hv] at h4
  rw [hp] at h5
  obtain ⟨g1, g2, g3⟩ := viRead_pending sm0 op (k :: more) h4 h5
  have hkm : KeysMark [op] s1 (afterRead sm0) := h3.read g3
  have hvb : (afterRead sm0).vibuf = [] := by rw [hkm.vibuf]; exact hv
  obtain ⟨f1, f2, f3⟩ := viRead_pending (afterRead sm0) k more hvb g2
  refine ⟨afterRead sm0, _, hkm, prefixed_none _ _ k f1 (by omega), f3, f2, hvb, ?_⟩
  intro m s' hm
  rw [commandTail_g (op : Int) (by omega) s s1 sm0 (afterRead sm0) hr h2 g1]
  simp only [bind_apply, Int.toNat_natCast, hm]

/-- **the keys `g~w`, `guw`, `gUw`**: the characters from the cursor to the start of the next word (`c`-th with a
count) are toggled / lowered / raised -/
theorem g_case_w_keys (op : Nat) (hop : op = 126 ∨ op = 117 ∨ op = 85) (s s1 : VS) (body : List Nat) (o t : Nat) (rest : Bytes)
    (hr : viRead s = Res.ok 103 s1) (hv : s1.vibuf = []) (hp : pending s1 = op :: 119 :: rest) (hrow : OnRow s1 body o)
    (hu : Utf8Buf (lines s1))
    (href : Motion.wordFwdRaw false (refBufU (lines s1)) ⟨s1.ed.xrow.toNat, o⟩ (opCount s1 0).toNat = ⟨s1.ed.xrow.toNat, t⟩) :
    ∃ sm s', commandTail s = finRec 103 (op : Int) VC_OK s' ∧ pending s' = rest ∧ KeysDone [op, 119] s1 s' ∧
      RowCased op s1 sm s' s1.ed.xrow body (min o t) (max o t) := by
  obtain ⟨s0, s3, hk0, hpre, hrd, hpend, hvb, hfin⟩ := keys_g op hop 119 (by omega) s s1 rest hr hv hp
  obtain ⟨s', e1, e3⟩ := case_w_spec op hop s0 s3 0 body o t hpre (hk0.onRow hrow) (by rw [hk0.lines]; exact hu)
    (by rw [hk0.lines, hk0.xrow, hk0.opCount]; exact href)
  have hpe : pending s' = rest := by rw [e3.frame]; exact hpend
  exact ⟨_, s', hfin _ _ e1, hpe, keysDone_op0 hk0 hv hrd 0 e3.frame, e3.base hk0⟩

/-- **the keys `g~$`, `gu$`, `gU$`** -/
theorem g_case_dollar_keys (op : Nat) (hop : op = 126 ∨ op = 117 ∨ op = 85) (s s1 : VS) (body : List Nat) (o : Nat) (rest : Bytes)
    (hr : viRead s = Res.ok 103 s1) (hv : s1.vibuf = []) (hp : pending s1 = op :: 36 :: rest) (hrow : OnRow s1 body o) :
    ∃ sm s', commandTail s = finRec 103 (op : Int) VC_OK s' ∧ pending s' = rest ∧ KeysDone [op, 36] s1 s' ∧
      RowCased op s1 sm s' s1.ed.xrow body o body.length := by
  obtain ⟨s0, s3, hk0, hpre, hrd, hpend, hvb, hfin⟩ := keys_g op hop 36 (by omega) s s1 rest hr hv hp
  obtain ⟨s', e1, e3⟩ := case_dollar_spec op hop s0 s3 0 body o hpre (hk0.onRow hrow)
  have hpe : pending s' = rest := by rw [e3.frame]; exact hpend
  exact ⟨_, s', hfin _ _ e1, hpe, keysDone_op0 hk0 hv hrd 0 e3.frame, e3.base hk0⟩

/-- **the keys `>>`, `<<`** (`[count]>>`): the rows `r .. min (r + c - 1) (n - 1)` are shifted -/
theorem shift_dbl_keys (cmd : Nat) (hc : cmd = 62 ∨ cmd = 60) (s s1 : VS) (rest : Bytes)
    (hr : viRead s = Res.ok (cmd : Int) s1) (hv : s1.vibuf = []) (hp : pending s1 = cmd :: rest) (ha : 0 ≤ s1.arg1)
    (h0 : 0 ≤ s1.ed.xrow) (h1 : s1.ed.xrow < lenOf s1) (hwf : ∀ l ∈ lines s1, Props.C01.WfLine l) :
    ∃ sm s', commandTail s = finRec (cmd : Int) 0 VC_OK s' ∧ pending s' = rest ∧ KeysDone [cmd] s1 s' ∧
      LineShifted (if cmd = 62 then 1 else -1) s1 sm s' s1.ed.xrow (min (s1.ed.xrow + opCount s1 0 - 1) (lenOf s1 - 1)) := by
  obtain ⟨s0, s2, hk0, hpre, hrd, hpend, hvb, hfin⟩ := keys_op cmd (by omega) cmd (by omega) s s1 rest hr hv hp
  obtain ⟨s', e1, e3⟩ := shift_dbl_spec cmd hc s0 s2 0 hpre (by rw [hk0.arg1]; exact ha) (by rw [hk0.xrow]; exact h0)
    (by rw [hk0.xrow, hk0.lenOf]; exact h1) (by rw [hk0.lines]; exact hwf)
  rw [hk0.xrow, hk0.opCount, hk0.lenOf] at e3
  have hpe : pending s' = rest := by rw [e3.frame]; exact hpend
  exact ⟨_, s', hfin _ _ e1, hpe, keysDone_op0 hk0 hv hrd 0 e3.frame, e3.base hk0⟩

/-- **the keys `>j`, `<j`**: the rows `r .. min (r + c) (n - 1)` -/
theorem shift_j_keys (cmd : Nat) (hc : cmd = 62 ∨ cmd = 60) (s s1 : VS) (rest : Bytes)
    (hr : viRead s = Res.ok (cmd : Int) s1) (hv : s1.vibuf = []) (hp : pending s1 = 106 :: rest) (ha : 0 ≤ s1.arg1)
    (h0 : 0 ≤ s1.ed.xrow) (h1 : s1.ed.xrow < lenOf s1) (hwf : ∀ l ∈ lines s1, Props.C01.WfLine l) :
    ∃ sm s', commandTail s = finRec (cmd : Int) 0 VC_OK s' ∧ pending s' = rest ∧ KeysDone [106] s1 s' ∧
      LineShifted (if cmd = 62 then 1 else -1) s1 sm s' s1.ed.xrow (min (s1.ed.xrow + opCount s1 0) (lenOf s1 - 1)) := by
  obtain ⟨s0, s2, hk0, hpre, hrd, hpend, hvb, hfin⟩ := keys_op cmd (by omega) 106 (by omega) s s1 rest hr hv hp
  obtain ⟨s', e1, e3⟩ := shift_j_spec cmd hc s0 s2 0 hpre (by rw [hk0.arg1]; exact ha) (by rw [hk0.xrow]; exact h0)
    (by rw [hk0.xrow, hk0.lenOf]; exact h1) (by rw [hk0.lines]; exact hwf)
  rw [hk0.xrow, hk0.opCount, hk0.lenOf] at e3
  have hpe : pending s' = rest := by rw [e3.frame]; exact hpend
  exact ⟨_, s', hfin _ _ e1, hpe, keysDone_op0 hk0 hv hrd 0 e3.frame, e3.base hk0⟩

end Neatvi.Lemmas.C08g
