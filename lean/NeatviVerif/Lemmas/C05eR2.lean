import NeatviVerif.Lemmas.C05eR1
/-!
# C05e lemmas, part R2: `ratom_match` never traps at a position inside the subject

For every atom, whatever its text (bracket expressions and literals are arbitrary bytes), every subject and every
position `pos ≤ length`: the reads stay within the terminators and the loops end within their fuel.
-/
namespace Neatvi.Lemmas.C05e
open Neatvi Neatvi.Uc Neatvi.Regex Neatvi.Rset Neatvi.Props.C11

theorem ucCode_some (s : Bytes) : ∃ c, ucCode s = some c := by
  unfold ucCode
  dsimp only
  split
  · exact ⟨_, rfl⟩
  · rename_i h1
    have hne : s ≠ [] := by
      intro h0; rw [h0] at h1; simp [Bytes.hd] at h1
    have hlen : 1 ≤ s.length := by cases s with | nil => exact absurd rfl hne | cons _ _ => simp
    have hrd1 : ∃ b, Uc.rd s 1 = some b := by
      unfold Uc.rd
      by_cases h : 1 < s.length
      · rw [if_pos h]; exact ⟨_, List.getElem?_eq_getElem h⟩
      · rw [if_neg h, if_pos (by omega)]; exact ⟨_, rfl⟩
    obtain ⟨b1, hb1⟩ := hrd1
    split
    · rw [hb1]; exact ⟨_, rfl⟩
    · split
      · rw [hb1]
        cases Uc.rd s 2 with
        | none => exact ⟨_, rfl⟩
        | some b2 => dsimp only; split <;> exact ⟨_, rfl⟩
      · split
        · rw [hb1]
          cases Uc.rd s 2 with
          | none => exact ⟨_, rfl⟩
          | some b2 =>
            cases Uc.rd s 3 with
            | none => exact ⟨_, rfl⟩
            | some b3 => dsimp only; split <;> exact ⟨_, rfl⟩
        · exact ⟨_, rfl⟩

theorem decAt_some (s : Bytes) (i : Nat) (h : i ≤ s.length) : ∃ c, decAt s i = some c := by
  unfold decAt
  rw [if_pos h]
  exact ucCode_some _

theorem rxLen_pos' {s : Bytes} {i : Nat} (hi : i < s.length) (h0 : s.getD i 0 ≠ 0) : 1 ≤ rxLen s i := by
  unfold rxLen
  have := ucLen_pos' (c := s.getD i 0) (by omega)
  omega

theorem rxLen_in (s : Bytes) (i : Nat) (hi : i ≤ s.length) : i + rxLen s i ≤ s.length := by
  unfold rxLen; omega

/-! ### the ICASE literal comparison -/

theorem chrIcase_no_trap (lit subj : Bytes) : ∀ (f k r : Nat), k ≤ lit.length → r ≤ subj.length →
    lit.length - k + 2 ≤ f → chrIcase lit subj f k r ≠ AR.trap := by
  intro f
  induction f with
  | zero => intro k r _ _ hf; omega
  | succ f ih =>
    intro k r hk hr hf
    rw [chrIcase]
    obtain ⟨c, hc, hc1, hc2⟩ := rdb_some lit k hk
    rw [hc]
    cases c with
    | zero => intro h; cases h
    | succ c' =>
      have hlt : k < lit.length := by
        rcases Nat.lt_or_ge k lit.length with h | h
        · exact h
        · have := hc2 (by omega); omega
      obtain ⟨c1, h1⟩ := decAt_some lit k hk
      obtain ⟨c2, h2⟩ := decAt_some subj r hr
      split
      · rename_i heq; cases heq
      · rename_i heq; cases heq
      · rw [h1, h2]
        dsimp only
        split
        · intro h; cases h
        · have hl := rxLen_pos' hlt (by rw [← hc1 hlt]; omega)
          exact ih _ _ (rxLen_in lit k hk) (rxLen_in subj r hr) (by omega)

/-! ### bracket expressions -/

theorem classLoop_no_trap (cp : Bytes) (c : Nat) (icase : Bool) : ∀ (f i : Nat), i ≤ cp.length →
    cp.length - i + 2 ≤ f → classLoop cp c icase f i ≠ BR.trap := by
  intro f
  induction f with
  | zero => intro i _ hf; omega
  | succ f ih =>
    intro i hi hf
    rw [classLoop]
    obtain ⟨b0, hb, hb1, hb2⟩ := rdb_some cp i hi
    rw [hb]
    dsimp only
    split
    · rename_i hcond
      have hb0 : b0 ≠ 0 := by
        intro h0; rw [h0] at hcond; simp at hcond
      have hlt : i < cp.length := by
        rcases Nat.lt_or_ge i cp.length with h | h
        · exact h
        · exact absurd (hb2 (by omega)) hb0
      obtain ⟨beg, hbeg⟩ := decAt_some cp i hi
      rw [hbeg]
      dsimp only
      have hl := rxLen_pos' hlt (by rw [← hb1 hlt]; exact hb0)
      have hi1 := rxLen_in cp i hi
      obtain ⟨d, hd, hd1, hd2⟩ := rdb_some cp (i + rxLen cp i) hi1
      rw [hd]
      by_cases hlt1 : i + rxLen cp i < cp.length
      · obtain ⟨e, he, _, _⟩ := rdb_some cp (i + rxLen cp i + 1) (by omega)
        rw [he]
        dsimp only
        split
        · obtain ⟨en, hen⟩ := decAt_some cp (i + rxLen cp i + 1) (by omega)
          rw [hen]
          dsimp only
          split
          · intro h; cases h
          · exact ih _ (rxLen_in cp _ (by omega)) (by omega)
        · split
          · intro h; cases h
          · exact ih _ hi1 (by omega)
      · cases hr2 : rdb cp (i + rxLen cp i + 1) with
        | none =>
          dsimp only
          split
          · intro h; cases h
          · exact ih _ hi1 (by omega)
        | some e =>
          dsimp only
          have hd0 : d = 0 := hd2 (by omega)
          rw [if_neg (by rw [hd0]; simp)]
          split
          · intro h; cases h
          · exact ih _ hi1 (by omega)
    · intro h; cases h

theorem classMatch_no_trap (cp : Bytes) (c : Nat) (icase : Bool) : classMatch cp c icase ≠ BR.trap :=
  classLoop_no_trap cp c icase _ 0 (Nat.zero_le _) (by omega)


theorem lt_of_getD_ne_zero {s : Bytes} {n : Nat} (h : s.getD n 0 ≠ 0) : n < s.length := by
  rcases Nat.lt_or_ge n s.length with hl | hl
  · exact hl
  · rw [List.getD_eq_getElem?_getD, List.getElem?_eq_none hl] at h
    exact absurd rfl h

theorem brkLenLoop_le (s : Bytes) : ∀ (f n : Nat), n ≤ s.length → brkLenLoop s f n ≤ s.length := by
  intro f
  induction f with
  | zero => intro n h; rw [brkLenLoop]; exact h
  | succ f ih =>
    intro n h
    rw [brkLenLoop]
    dsimp only
    split
    · rename_i hc
      refine ih _ ?_
      have hn1 : (if (s.getD n 0 == 91 && (s.getD (n + 1) 0 == 58 || s.getD (n + 1) 0 == 61)) = true then
          n + ((s.drop n).takeWhile (fun b => b != 93)).length else n) ≤ s.length := by
        split
        · have := (List.takeWhile_sublist (fun b => b != 93) (l := s.drop n)).length_le
          simp only [List.length_drop] at this
          omega
        · exact h
      generalize (if (s.getD n 0 == 91 && (s.getD (n + 1) 0 == 58 || s.getD (n + 1) 0 == 61)) = true then
          n + ((s.drop n).takeWhile (fun b => b != 93)).length else n) = n1 at hn1 ⊢
      split
      · rename_i hnz
        have := lt_of_getD_ne_zero (s := s) (n := n1) (by simpa using hnz)
        omega
      · exact hn1
    · exact h

theorem brkLen_le (s : Bytes) (h : 1 ≤ s.length) : brkLen s ≤ s.length := by
  unfold brkLen
  dsimp only
  have h1 : (if (s.getD 1 0 == 94) = true then 1 + 1 else 1) ≤ s.length := by
    split
    · rename_i hc
      have := lt_of_getD_ne_zero (s := s) (n := 1) (by simp only [beq_iff_eq] at hc; omega)
      omega
    · exact h
  generalize (if (s.getD 1 0 == 94) = true then 1 + 1 else 1) = n1 at h1
  have h2 : (if (s.getD n1 0 == 93) = true then n1 + 1 else n1) ≤ s.length := by
    split
    · rename_i hc
      have := lt_of_getD_ne_zero (s := s) (n := n1) (by simp only [beq_iff_eq] at hc; omega)
      omega
    · exact h1
  generalize (if (s.getD n1 0 == 93) = true then n1 + 1 else n1) = n2 at h2
  have h3 := brkLenLoop_le s (s.length + 1) n2 h2
  generalize brkLenLoop s (s.length + 1) n2 = n3 at h3
  split
  · rename_i hc
    have := lt_of_getD_ne_zero (s := s) (n := n3) (by simp only [beq_iff_eq] at hc; omega)
    omega
  · exact h3

theorem brkLoop_no_trap (p : Bytes) (c : Nat) (icase : Bool) : ∀ (f i : Nat), i ≤ p.length →
    p.length - i + 2 ≤ f → brkLoop p c icase f i ≠ BR.trap := by
  intro f
  induction f with
  | zero => intro i _ hf; omega
  | succ f ih =>
    intro i hi hf
    rw [brkLoop]
    obtain ⟨b0, hb, hb1, hb2⟩ := rdb_some p i hi
    rw [hb]
    dsimp only
    split
    · rename_i hcond
      have hb0 : b0 ≠ 0 := by
        intro h0; rw [h0] at hcond; simp at hcond
      have hlt : i < p.length := by
        rcases Nat.lt_or_ge i p.length with h | h
        · exact h
        · exact absurd (hb2 (by omega)) hb0
      split
      · -- a named class
        generalize hfold : Gen.brkClasses.foldl (fun (acc : BR) cl =>
            match acc with
            | BR.miss => if classNameAt p i cl.1 then classMatch cl.2 c icase else BR.miss
            | other => other) BR.miss = r
        have hr : r ≠ BR.trap := by
          rw [← hfold]
          have : ∀ (l : List (Bytes × Bytes)) (acc : BR), acc ≠ BR.trap → l.foldl (fun (acc : BR) cl =>
              match acc with
              | BR.miss => if classNameAt p i cl.1 then classMatch cl.2 c icase else BR.miss
              | other => other) acc ≠ BR.trap := by
            intro l
            induction l with
            | nil => intro acc h; exact h
            | cons cl l ihl =>
              intro acc h
              rw [List.foldl_cons]
              apply ihl
              cases acc with
              | miss =>
                dsimp only
                split
                · exact classMatch_no_trap _ _ _
                · intro h'; cases h'
              | hit => intro h'; cases h'
              | trap => exact absurd rfl h
          exact this _ _ (by intro h; cases h)
        cases r with
        | hit => intro h; cases h
        | trap => exact absurd rfl hr
        | miss =>
          dsimp only
          have hd : 1 ≤ (p.drop i).length := by simp only [List.length_drop]; omega
          have h1 := brkLen_le (p.drop i) hd
          have h2 := brkLen_pos (p.drop i)
          simp only [List.length_drop] at h1
          exact ih _ (by omega) (by omega)
      · obtain ⟨beg, hbeg⟩ := decAt_some p i hi
        rw [hbeg]
        dsimp only
        have hl := rxLen_pos' hlt (by rw [← hb1 hlt]; exact hb0)
        have hi1 := rxLen_in p i hi
        obtain ⟨d, hd, hd1, hd2⟩ := rdb_some p (i + rxLen p i) hi1
        rw [hd]
        dsimp only
        split
        · rename_i h45
          simp only [beq_iff_eq] at h45
          have hlt1 : i + rxLen p i < p.length := by
            rcases Nat.lt_or_ge (i + rxLen p i) p.length with h | h
            · exact h
            · have := hd2 (by omega); omega
          obtain ⟨e, he, _, _⟩ := rdb_some p (i + rxLen p i + 1) (by omega)
          rw [he]
          dsimp only
          split
          · obtain ⟨en, hen⟩ := decAt_some p (i + rxLen p i + 1) (by omega)
            rw [hen]
            dsimp only
            split
            · intro h; cases h
            · exact ih _ (rxLen_in p _ (by omega)) (by omega)
          · split
            · intro h; cases h
            · exact ih _ hi1 (by omega)
        · split
          · intro h; cases h
          · exact ih _ hi1 (by omega)
    · intro h; cases h

theorem brkMatch_some (brk : Bytes) (c : Nat) (icase : Bool) : ∃ b, brkMatch brk c icase = some b := by
  unfold brkMatch
  dsimp only
  have := brkLoop_no_trap (if (brk.headD 0 == 94) = true then brk.drop 1 else brk) (foldc icase c) icase
    ((if (brk.headD 0 == 94) = true then brk.drop 1 else brk).length + 2) 0 (Nat.zero_le _) (by omega)
  cases h : brkLoop (if (brk.headD 0 == 94) = true then brk.drop 1 else brk) (foldc icase c) icase
      ((if (brk.headD 0 == 94) = true then brk.drop 1 else brk).length + 2) 0 with
  | hit => exact ⟨_, rfl⟩
  | miss => exact ⟨_, rfl⟩
  | trap => exact absurd h this

/-- **`ratom_match` never traps inside the subject** -/
theorem atomMatch_no_trap (a : Atom) (subj : Bytes) (flg pos : Nat) (hp : pos ≤ subj.length) :
    atomMatch a subj flg pos ≠ AR.trap := by
  unfold atomMatch
  dsimp only
  obtain ⟨cur, hcur, _, _⟩ := rdb_some subj pos hp
  rw [hcur]
  dsimp only
  cases hk : a.k <;> dsimp only
  · -- chr
    split
    · split <;> (intro h; cases h)
    · exact chrIcase_no_trap _ _ _ _ _ (Nat.zero_le _) hp (by omega)
  · -- beg
    repeat' split
    all_goals (intro h; cases h)
  · -- end
    repeat' split
    all_goals (intro h; cases h)
  · -- any
    split <;> (intro h; cases h)
  · -- brk
    obtain ⟨c, hc⟩ := decAt_some subj pos hp
    rw [hc]
    dsimp only
    split
    · intro h; cases h
    · obtain ⟨b, hb⟩ := brkMatch_some (a.s.drop 1) c (hasFlag flg REG_ICASE)
      rw [hb]
      cases b <;> (intro h; cases h)
  · -- wbeg
    split <;> (intro h; cases h)
  · -- wend
    split <;> (intro h; cases h)

end Neatvi.Lemmas.C05e
