import NeatviVerif.Lemmas.C05fG
import NeatviVerif.Lemmas.C05fI
/-!
# C05f, part J: `vi_motionln`, `vi_search`, `vi_motion`

Every motion returns a position inside the buffer (`PosIn`): a row that is not negative and an offset that is
at most the number of characters of that row's line.  The ways a motion can trap: a counted `/` search whose match
reaches the end of its line, and a repeated search restarted from a hit on the end of its line (`PatIn` excludes it).
-/
set_option linter.unusedSimpArgs false
set_option linter.unusedVariables false
namespace Neatvi.Lemmas.C05f
open Neatvi Neatvi.Uc Neatvi.Lbuf Neatvi.Ex Neatvi.Mot Neatvi.Vi Neatvi.Rset

/-- the buffer and register part of the invariant -/
def SOk (s : VS) (c : Prop) : Prop := BufsOk s.ed.bufs c ∧ RegsOk s.ed.regs

theorem SOk.linesOk {s : VS} {c : Prop} (h : SOk s c) : ∀ l ∈ lines s, LineOk l := h.1.linesOk

theorem SOk.paste {s : VS} {c : Prop} (h : SOk s c) : PasteOk s.ed := by
  refine ⟨h.2, ?_⟩
  intro l hl
  obtain ⟨lb, h1, h2⟩ := h.1.lb s.ed rfl
  unfold Ed.line at hl
  split at hl
  · cases hl
  · rw [h1] at hl
    exact (h2.lines l (List.mem_of_getElem? hl)).noNul

/-- the frame of a motion: the buffer table, the cursor and `xquit` as before; the registers still without NUL -/
def MvF (s s' : VS) : Prop :=
  s'.ed.bufs = s.ed.bufs ∧ s'.ed.xrow = s.ed.xrow ∧ s'.ed.xoff = s.ed.xoff ∧ s'.ed.xquit = s.ed.xquit ∧
    (RegsOk s.ed.regs → RegsOk s'.ed.regs)

theorem MvF.refl (s : VS) : MvF s s := ⟨rfl, rfl, rfl, rfl, id⟩
theorem MvF.trans {a b c : VS} (h1 : MvF a b) (h2 : MvF b c) : MvF a c :=
  ⟨h2.1.trans h1.1, h2.2.1.trans h1.2.1, h2.2.2.1.trans h1.2.2.1, h2.2.2.2.1.trans h1.2.2.2.1,
    fun h => h2.2.2.2.2 (h1.2.2.2.2 h)⟩
theorem MvF.of_EdF {s s' : VS} (h : EdF s.ed s'.ed) : MvF s s' :=
  ⟨h.bufs, h.xrow, h.xoff, h.xquit, fun hr => by rw [h.regs]; exact hr⟩
theorem MvF.of_ed {s s' : VS} (h : s'.ed = s.ed) : MvF s s' := MvF.of_EdF (EdF.of_eq h)
theorem MvF.lb {s s' : VS} (h : MvF s s') : s'.ed.lb = s.ed.lb := by unfold Ed.lb Ed.cur; rw [h.1]
theorem MvF.lines {s s' : VS} (h : MvF s s') : lines s' = lines s := by unfold Vi.lines; rw [h.lb]
theorem MvF.sok {s s' : VS} {c : Prop} (h : MvF s s') (hs : SOk s c) : SOk s' c :=
  ⟨by rw [h.1]; exact hs.1, h.2.2.2.2 hs.2⟩

/-! ### `vi_motionln` -/

/-- **`vi_motionln`**: no trap; the row it returns is not negative; "no line motion" leaves the row alone -/
theorem wp_viMotionln (row cmd : Int) (s : VS) (hrow : 0 ≤ row) (Q : Int × Int → VS → Prop)
    (hQ : ∀ mv r s', PfxPost s s' → (mv = 0 → r = row) → 0 ≤ r → Q (mv, r) s') : wp (viMotionln row cmd) Q s := by
  unfold viMotionln
  wpn
  refine wp_viRead s _ (fun c s1 e1 q1 => ?_)
  have p1 : PfxPost s s1 := pfx_read e1 q1
  have hfin : ∀ (r : Int) (hc : c ≠ 0), wp (pure (c, if r < 0 then 0 else r) : M (Int × Int)) Q s1 := by
    intro r hc
    refine (wp_pure _ _ _).mpr (hQ _ _ _ p1 (fun h => absurd h hc) ?_)
    split <;> omega
  wpif hc
  · exact hfin _ (by simp at hc; omega)
  wpif hc
  · exact hfin _ (by simp at hc; omega)
  wpif hc
  · exact hfin _ (by simp at hc; omega)
  wpif hc
  · wpn
    refine wp_viRead s1 _ (fun m s2 e2 q2 => ?_)
    have p2 : PfxPost s s2 := p1.trans (pfx_read e2 q2)
    wpif hm
    · wpn; exact hQ _ _ _ p2 (fun h => by omega) hrow
    · cases hj : s.ed.lb.bind (fun lb => jump lb m.toNat) with
      | none => simp only []; wpn; exact hQ _ _ _ p2 (fun h => by omega) hrow
      | some pq =>
        obtain ⟨p, q⟩ := pq
        simp only []
        refine (wp_pure _ _ _).mpr (hQ _ _ _ p2 (fun h => by simp at hc; omega) ?_)
        split <;> omega
  wpif hc
  · exact hfin _ (by simp at hc; omega)
  wpif hc
  · exact hfin _ (by simp at hc; omega)
  wpif hc
  · exact hfin _ (by simp at hc; omega)
  wpif hc
  · exact hfin _ (by simp at hc; omega)
  wpif hc
  · exact hfin _ (by simp at hc; omega)
  wpif hc
  · exact hfin _ (by simp at hc; omega)
  wpif hc
  · refine hfin _ ?_
    simp only [Bool.and_eq_true, bne_iff_ne, ne_eq, beq_iff_eq] at hc
    omega
  wpif hc
  · wpif hc2
    · wpn; exact hQ _ _ _ p1 (fun h => by omega) hrow
    · refine hfin _ ?_
      simp only [Bool.and_eq_true, beq_iff_eq] at hc
      omega
  · wpn
    exact hQ _ _ _ (pfx_read_back e1 q1) (fun _ => rfl) hrow

/-! ### `vi_search` -/

theorem reRead_go_noNul (delim : Nat) : ∀ (f : Nat) (s acc : Bytes), NoNul s → NoNul acc →
    NoNul (reRead.go delim f s acc).1 := by
  intro f
  induction f with
  | zero => intro s acc _ ha; unfold reRead.go; exact ha
  | succ f ih =>
    intro s acc hs ha
    unfold reRead.go
    cases s with
    | nil => exact ha
    | cons c r =>
      obtain ⟨hc, hr⟩ := noNul_cons.mp hs
      simp only []
      have hd : r.headD 0 ≠ 0 ∨ r = [] := by
        cases r with
        | nil => right; rfl
        | cons d r' => left; simpa using (noNul_cons.mp hr).1
      splits
      all_goals first
        | exact ha
        | exact ih _ _ hr (noNul_append.mpr ⟨ha, noNul_singleton.mpr hc⟩)
        | (refine ih _ _ (hr.drop 1) (noNul_append.mpr ⟨ha, ?_⟩)
           rename_i hne _
           rcases hd with hd | hd
           · first
               | exact noNul_cons.mpr ⟨by decide, noNul_singleton.mpr hd⟩
               | exact noNul_singleton.mpr hd
           · subst hd; simp at hne)

/-- the pattern `re_read` cuts out of a text without NUL has none -/
theorem reRead_noNul {src : Bytes} (h : NoNul src) : NoNulO (reRead src).1 := by
  unfold reRead
  cases src with
  | nil => exact noNulO_none
  | cons d s =>
    simp only []
    exact noNulO_some.mpr (reRead_go_noNul d _ s [] (noNul_cons.mp h).2 noNul_nil)

/-- the first half of `vi_search`: the prompt, the new keyword -/
def sPre (cmd : Nat) : M Bool := do
  if cmd == 47 || cmd == 63 then
    match ← viPrompt with
    | none => pure true
    | some kw =>
      let full := [cmd] ++ kw
      let (re, rest) := reRead full
      match re with
      | some re =>
        withEd fun ed => ed.kwdSet (if re.isEmpty then none else some re) (if cmd == 47 then 1 else -1)
        if !re.isEmpty then
          withEd fun ed => { ed with regs := ed.regs.put 47 re 0 }
        let rest := rest.dropWhile isSpaceC
        modify fun s => { s with soset := !rest.isEmpty, so := atoi rest }
        pure false
      | none => pure false
  else pure false

/-- what `vi_search` returns for the outcome of the repeated search -/
def sFin (s : VS) (kwd : Bytes) (res : Option (Option (Int × Int))) : M (Option (Int × Int)) :=
  match res with
  | none => trap
  | some none => do
    setMsg ([47] ++ kwd ++ strOf "/ not found")
    pure none
  | some (some (r', o')) =>
    if s.soset then
      if r' + s.so < 0 || r' + s.so ≥ lenOf s then do
        setMsg ([47] ++ kwd ++ strOf "/ bad offset")
        pure none
      else pure (some (r' + s.so, -1))
    else pure (some (r', o'))

/-- the repeated search of `vi_search` in state `s` -/
def sRep (cmd : Nat) (cnt r o : Int) (s : VS) : Option (Option (Int × Int)) :=
  viSearch.rep cmd cnt s s.ed.xkwd (if cmd == 78 then -s.ed.xkwddir else s.ed.xkwddir) (cnt.toNat + 1) r o 0

/-- the second half of `vi_search` -/
def sTail (cmd : Nat) (cnt r o : Int) (aborted : Bool) : M (Option (Int × Int)) :=
  if aborted then pure none else do
  let s ← get
  if lenOf s == 0 || s.ed.xkwddir == 0 then pure none else
  sFin s s.ed.xkwd (sRep cmd cnt r o s)

theorem viSearch_eq (cmd : Nat) (cnt r o : Int) : viSearch cmd cnt r o = (sPre cmd >>= sTail cmd cnt r o) := by
  rfl

/-- the prompt of a search: no trap; buffer and cursor as before, the registers stay free of NUL -/
theorem wp_sPre (cmd : Nat) (s : VS) {c : Prop} (hs : SOk s c) (Q : Bool → VS → Prop)
    (hQ : ∀ a s', MvF s s' → (NoNul s.ed.xkwd → NoNul s'.ed.xkwd) → Q a s') : wp (sPre cmd) Q s := by
  unfold sPre
  wpif hc
  · wpn
    refine wp_viPrompt _ s hs.paste _ (fun r s1 e1 hr => ?_)
    have m1 : MvF s s1 := MvF.of_EdF e1
    have k1 : NoNul s.ed.xkwd → NoNul s1.ed.xkwd := fun h => by rw [e1.xkwd]; exact h
    cases r with
    | none => exact hQ _ _ m1 k1
    | some kw =>
      have hkw := hr kw rfl
      dsimp only
      have hre := reRead_noNul (src := [cmd] ++ kw) (noNul_append.mpr ⟨noNul_singleton.mpr (by
        simp only [Bool.or_eq_true, beq_iff_eq] at hc; omega), hkw⟩)
      generalize reRead ([cmd] ++ kw) = rr at hre
      obtain ⟨re, rest⟩ := rr
      dsimp only
      cases re with
      | none => exact hQ _ _ m1 k1
      | some re =>
        have hren : NoNul re := hre re rfl
        have k2 : NoNul s.ed.xkwd →
            NoNul (s1.ed.kwdSet (if re.isEmpty then none else some re) (if cmd == 47 then 1 else -1)).xkwd := by
          intro h
          unfold Ed.kwdSet
          by_cases hre0 : re.isEmpty = true
          · rw [if_pos hre0]; exact k1 h
          · rw [if_neg hre0]; exact fun hmem => hren (List.mem_of_mem_take hmem)
        dsimp only
        wpn
        wpif hne
        · wpn
          refine hQ _ _ (m1.trans ⟨rfl, rfl, rfl, rfl, fun h => ?_⟩) k2
          exact regsOk_put h _ hren _
        · wpn
          exact hQ _ _ (m1.trans ⟨rfl, rfl, rfl, rfl, id⟩) k2
  · exact hQ _ _ (MvF.refl _) id

/-! ### the repeated search -/

theorem rep_zero (cmd : Nat) (cnt : Int) (s : VS) (kwd : Bytes) (dir r o i : Int) :
    viSearch.rep cmd cnt s kwd dir 0 r o i = some (some (r, o)) := rfl

theorem rep_succ_ge (cmd : Nat) (cnt : Int) (s : VS) (kwd : Bytes) (dir : Int) (f : Nat) (r o i : Int) (h : i ≥ cnt) :
    viSearch.rep cmd cnt s kwd dir (f + 1) r o i = some (some (r, o)) := by
  show (if i ≥ cnt then some (some (r, o)) else _) = _
  rw [if_pos h]

theorem rep_succ_trap (cmd : Nat) (cnt : Int) (s : VS) (kwd : Bytes) (dir : Int) (f : Nat) (r o i : Int) (h : ¬ i ≥ cnt)
    (hs : search (lines s) kwd (s.ed.xic != 0) dir r o = none) :
    viSearch.rep cmd cnt s kwd dir (f + 1) r o i = none := by
  show (if i ≥ cnt then some (some (r, o)) else _) = _
  rw [if_neg h, hs]

theorem rep_succ_miss (cmd : Nat) (cnt : Int) (s : VS) (kwd : Bytes) (dir : Int) (f : Nat) (r o i : Int) (h : ¬ i ≥ cnt)
    (hs : search (lines s) kwd (s.ed.xic != 0) dir r o = some none) :
    viSearch.rep cmd cnt s kwd dir (f + 1) r o i = some none := by
  show (if i ≥ cnt then some (some (r, o)) else _) = _
  rw [if_neg h, hs]

theorem rep_succ_hit (cmd : Nat) (cnt : Int) (s : VS) (kwd : Bytes) (dir : Int) (f : Nat) (r o i r' o' len : Int)
    (h : ¬ i ≥ cnt) (hs : search (lines s) kwd (s.ed.xic != 0) dir r o = some (some (r', o', len))) :
    viSearch.rep cmd cnt s kwd dir (f + 1) r o i =
      viSearch.rep cmd cnt s kwd dir f r' (if i + 1 < cnt && cmd == 47 then o' + len else o') (i + 1) := by
  show (if i ≥ cnt then some (some (r, o)) else _) = _
  rw [if_neg h, hs]

section rep
variable (cmd : Nat) (cnt : Int) (s : VS) (kwd : Bytes) (dir : Int)

/-- a position the repeated search returns is a position inside the buffer (a character of an existing line or the end
    of that line), or the position it started from — no hypothesis -/
theorem rep_post : ∀ (f : Nat) (r o i : Int), (f : Int) + i = cnt.toNat + 1 → 0 ≤ i → (cnt ≤ i → PosIn (lines s) r o) →
    ∀ r' o', viSearch.rep cmd cnt s kwd dir f r o i = some (some (r', o')) → PosIn (lines s) r' o' := by
  intro f
  induction f with
  | zero =>
    intro r o i hf hi hp r' o' h
    rw [rep_zero] at h
    cases h
    exact hp (by omega)
  | succ f ih =>
    intro r o i hf hi hp r' o' h
    by_cases hc : i ≥ cnt
    · rw [rep_succ_ge _ _ _ _ _ _ _ _ _ hc] at h; cases h; exact hp hc
    · cases hsr : search (lines s) kwd (s.ed.xic != 0) dir r o with
      | none => rw [rep_succ_trap _ _ _ _ _ _ _ _ _ hc hsr] at h; cases h
      | some res =>
        have hh := search_hit_in _ _ _ _ _ _ res hsr
        cases res with
        | none => rw [rep_succ_miss _ _ _ _ _ _ _ _ _ hc hsr] at h; cases h
        | some hit =>
          obtain ⟨r1, o1, len⟩ := hit
          rw [rep_succ_hit _ _ _ _ _ _ _ _ _ _ _ _ hc hsr] at h
          obtain ⟨a1, a2, a3, a4⟩ := hh r1 o1 len rfl
          refine ih r1 _ (i + 1) (by push_cast at hf ⊢; omega) (by omega) ?_ r' o' h
          intro hci
          rw [if_neg (by simp; omega)]
          exact ⟨a1, a4⟩

/-- without a count, or for `? n N ^A`: the repeated search does not trap — for a pattern without NUL; a search that
    is *repeated* (count ≥ 2) needs the residual hypothesis `PatIn` to restart from the previous hit -/
theorem rep_total (hl : ∀ l ∈ lines s, LineOk l) (hkw : NoNul kwd) (hcs : cmd ≠ 47 ∨ cnt ≤ 1)
    (hpos : 2 ≤ cnt → PatIn kwd (s.ed.xic != 0) (lines s)) :
    ∀ (f : Nat) (r o i : Int), 0 ≤ i → (i < cnt → o < slenAt (lines s) r) →
    viSearch.rep cmd cnt s kwd dir f r o i ≠ none := by
  intro f
  induction f with
  | zero => intro r o i hi ho; rw [rep_zero]; simp
  | succ f ih =>
    intro r o i hi ho
    by_cases hc : i ≥ cnt
    · rw [rep_succ_ge _ _ _ _ _ _ _ _ _ hc]; simp
    · obtain ⟨res, hsr⟩ := search_total_c (lines s) kwd (s.ed.xic != 0) dir r o hkw (ho (by omega))
      cases res with
      | none => rw [rep_succ_miss _ _ _ _ _ _ _ _ _ hc hsr]; simp
      | some hit =>
        obtain ⟨r1, o1, len⟩ := hit
        rw [rep_succ_hit _ _ _ _ _ _ _ _ _ _ _ _ hc hsr]
        refine ih r1 _ (i + 1) (by omega) ?_
        intro hlt
        have h2 : 2 ≤ cnt := by omega
        obtain ⟨a1, a2, a3, a4⟩ := search_hit_strict _ _ _ _ _ _ hl (hpos h2) _ hsr r1 o1 len rfl
        rw [if_neg ?_]
        · exact a4
        · simp only [Bool.and_eq_true, decide_eq_true_eq, beq_iff_eq, not_and]
          intro h1 h2'
          rcases hcs with h | h
          · exact h h2'
          · omega

end rep

/-- **`vi_search`**, started on a character of an existing line, with a last pattern that has no NUL.  The ways it
    can trap: the counted `/` whose match reaches the end of its line (hypothesis `hsl`), and a repeated `? n N ^A`
    whose previous hit is on the end of its line (excluded by `hpos`: the pattern in force after the prompt matches
    inside the lines).  What it returns is a position inside the buffer; the last pattern still has no NUL. -/
theorem wp_viSearch (cmd : Nat) (cnt r o : Int) (s : VS) {c : Prop} (hs : SOk s c) (hkw : NoNul s.ed.xkwd)
    (hp : PosIn (lines s) r o) (ho : lenOf s ≠ 0 → o < slenAt (lines s) r) (hsl : cmd = 47 → 2 ≤ cnt → viSearch cmd cnt r o s ≠ Res.trap)
    (hpos : cmd ≠ 47 → 2 ≤ cnt → ∀ ab s1, sPre cmd s = Res.ok ab s1 → ∀ ic, PatIn s1.ed.xkwd ic (lines s))
    (Q : Option (Int × Int) → VS → Prop)
    (hQ : ∀ res s', MvF s s' → NoNul s'.ed.xkwd → (∀ r' o', res = some (r', o') → PosIn (lines s) r' o') → Q res s') :
    wp (viSearch cmd cnt r o) Q s := by
  rw [viSearch_eq]
  refine (wp_bind_eqn _ _ _ _).mpr (wp_sPre cmd s hs _ (fun aborted s1 m1 k1 hm => ?_))
  have hk1 : NoNul s1.ed.xkwd := k1 hkw
  have hnone : ∀ r' o', (none : Option (Int × Int)) = some (r', o') → PosIn (lines s) r' o' := by
    intro r' o' h; cases h
  unfold sTail
  wpif hab
  · exact hQ _ _ m1 hk1 hnone
  wpn
  wpif hc
  · exact hQ _ _ m1 hk1 hnone
  have hl1 : ∀ l ∈ lines s1, LineOk l := (m1.sok hs).linesOk
  have hpost := rep_post cmd cnt s1 s1.ed.xkwd (if cmd == 78 then -s1.ed.xkwddir else s1.ed.xkwddir)
    (cnt.toNat + 1) r o 0 (by push_cast; omega) (Int.le_refl 0)
    (fun _ => by rw [m1.lines]; exact hp)
  have hlen : lenOf s ≠ 0 := by
    simp only [Bool.or_eq_true, beq_iff_eq, not_or] at hc
    have : lenOf s1 = lenOf s := by unfold lenOf; rw [m1.lines]
    rw [← this]; exact hc.1
  cases hrep : sRep cmd cnt r o s1 with
  | none =>
    exfalso
    by_cases hcs : cmd ≠ 47 ∨ cnt ≤ 1
    · refine rep_total cmd cnt s1 s1.ed.xkwd (if cmd == 78 then -s1.ed.xkwddir else s1.ed.xkwddir) hl1 hk1 hcs ?_
        (cnt.toNat + 1) r o 0 (Int.le_refl 0) (fun _ => by rw [m1.lines]; exact ho hlen) hrep
      intro h2
      rw [m1.lines]
      refine hpos ?_ h2 aborted s1 hm _
      rcases hcs with h | h
      · exact h
      · omega
    · have h47 : cmd = 47 := by
        by_cases h : cmd = 47
        · exact h
        · exact absurd (Or.inl h) hcs
      have h2 : 2 ≤ cnt := by
        by_cases h : cnt ≤ 1
        · exact absurd (Or.inr h) hcs
        · omega
      apply hsl h47 h2
      rw [viSearch_eq, bind_ok hm]
      unfold sTail
      rw [if_neg hab]
      show (if (lenOf s1 == 0 || s1.ed.xkwddir == 0) = true then pure none else
        sFin s1 s1.ed.xkwd (sRep cmd cnt r o s1)) s1 = Res.trap
      rw [if_neg hc, hrep]
      rfl
  | some res =>
    cases res with
    | none =>
      unfold sFin
      wpn
      exact hQ _ _ (m1.trans (MvF.of_ed rfl)) hk1 hnone
    | some p =>
      obtain ⟨r', o'⟩ := p
      have hp : PosIn (lines s) r' o' := by rw [← m1.lines]; exact hpost r' o' hrep
      unfold sFin
      dsimp only
      wpif hso
      · wpif hbad
        · wpn
          exact hQ _ _ (m1.trans (MvF.of_ed rfl)) hk1 hnone
        · refine hQ _ _ m1 hk1 (fun r2 o2 h => ?_)
          cases h
          simp only [Bool.or_eq_true, decide_eq_true_eq, not_or] at hbad
          exact ⟨by omega, by have := slenAt_nonneg (lines s) (r' + s1.so); omega⟩
      · refine hQ _ _ m1 hk1 (fun r2 o2 h => ?_)
        cases h; exact hp

end Neatvi.Lemmas.C05f
