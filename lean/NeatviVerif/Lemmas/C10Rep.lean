import NeatviVerif.Lemmas.C10Seg
/-!
# C10 lemmas, part 2: sound code segments and the repetition wrapper
-/
namespace Neatvi.Lemmas.C10
open Neatvi Neatvi.Regex

/-- `k` successive steps of a relation -/
inductive IterR (one : St → St → Prop) : Nat → St → St → Prop
  | zero (r : St) : IterR one 0 r r
  | succ {k : Nat} {r s r' : St} : one r s → IterR one k s r' → IterR one (k + 1) r r'

theorem IterR.append {one : St → St → Prop} {j : Nat} : ∀ {k : Nat} {r s r' : St},
    IterR one j r s → IterR one k s r' → IterR one (j + k) r r' := by
  induction j with
  | zero => intro k r s r' h1 h2; cases h1; simpa using h2
  | succ j ih =>
    intro k r s r' h1 h2
    cases h1 with
    | succ h h1' => rw [show j + 1 + k = (j + k) + 1 by omega]; exact IterR.succ h (ih h1' h2)

theorem IterR.one {one : St → St → Prop} {r s : St} (h : one r s) : IterR one 1 r s :=
  IterR.succ h (IterR.zero s)

/-- the copy counts the code emitted for `{mn, mx}` allows -/
def RepOk (mn mx : Int) (k : Nat) : Prop :=
  if mn = 0 ∧ mx = 0 then k = 0
  else if mn = 1 ∧ mx = 1 then k = 1
  else (mn = 0 ∧ k = 0) ∨ (max 1 mn ≤ (k : Int) ∧ (mx < 0 ∨ (k : Int) ≤ max (max 1 mn) mx))

instance (mn mx : Int) (k : Nat) : Decidable (RepOk mn mx k) := by
  unfold RepOk; exact inferInstance

section seg
variable (cx : Ctx)

/-- every successful run entering at `b` passes through `e` in an `R`-related state, not shallower,
    and finishes from there with the same result -/
def SegSound (R : St → St → Prop) (b e : Nat) : Prop :=
  ∀ dep pos m cuts p' m' c', loop cx dep b pos m cuts = Res.ok p' m' c' →
    ∃ (r : St) (dep' cuts' : Nat), R (pos, m) r ∧ dep ≤ dep' ∧
      loop cx dep' e r.1 r.2 cuts' = Res.ok p' m' c'

theorem SegSound.refl {R : St → St → Prop} (hR : ∀ r, R r r) (b : Nat) : SegSound cx R b b :=
  fun dep pos m cuts _ _ _ h => ⟨(pos, m), dep, cuts, hR _, Nat.le_refl _, h⟩

theorem SegSound.mono {R S : St → St → Prop} {b e : Nat} (h : SegSound cx R b e)
    (hRS : ∀ r r', R r r' → S r r') : SegSound cx S b e := by
  intro dep pos m cuts p' m' c' hr
  obtain ⟨r, d, c, hR, hd, hc⟩ := h dep pos m cuts p' m' c' hr
  exact ⟨r, d, c, hRS _ _ hR, hd, hc⟩

theorem SegSound.comp {R S T : St → St → Prop} {b e f : Nat} (h1 : SegSound cx R b e)
    (h2 : SegSound cx S e f) (hT : ∀ r s r', R r s → S s r' → T r r') : SegSound cx T b f := by
  intro dep pos m cuts p' m' c' hr
  obtain ⟨r, d, c, hR, hd, hc⟩ := h1 dep pos m cuts p' m' c' hr
  obtain ⟨r2, d2, c2, hS, hd2, hc2⟩ := h2 d r.1 r.2 c p' m' c' hc
  exact ⟨r2, d2, c2, hT _ _ _ hR hS, by omega, hc2⟩

/-- a body `body b` of length `bl` that is sound for `one` wherever it is placed in the program -/
def BodySound (body : Nat → List Inst) (bl : Nat) (one : St → St → Prop) : Prop :=
  (∀ b, (body b).length = bl) ∧
  ∀ pre post b, b = pre.length → cx.prog = pre ++ body b ++ post → SegSound cx one b (b + bl)

variable {cx} {body : Nat → List Inst} {bl : Nat} {one : St → St → Prop}

theorem seg_copies (hbody : BodySound cx body bl one) :
    ∀ k pre post base, base = pre.length → cx.prog = pre ++ emitCopies body bl k base ++ post →
      ∀ e, e = base + k * bl → SegSound cx (IterR one k) base e := by
  intro k
  induction k with
  | zero =>
    intro pre post base _ _ e he
    rw [show e = base by omega]
    exact SegSound.refl cx (fun r => IterR.zero r) base
  | succ k ih =>
    intro pre post base hb hp e he
    have h1 := hbody.2 pre (emitCopies body bl k (base + bl) ++ post) base hb
      (by simp [hp, emitCopies, List.append_assoc])
    have h2 := ih (pre ++ body base) post (base + bl) (by simp [hbody.1, hb])
      (by simp [hp, emitCopies, List.append_assoc]) e (by rw [he, Nat.succ_mul]; omega)
    exact SegSound.comp cx h1 h2 (fun _ _ _ a b => IterR.succ a b)

theorem seg_opts (hbody : BodySound cx body bl one) (endA : Nat) :
    ∀ k pre post base, base = pre.length → cx.prog = pre ++ emitOpts body bl endA k base ++ post →
      endA = base + k * (1 + bl) →
      SegSound cx (fun r r' => ∃ j, j ≤ k ∧ IterR one j r r') base endA := by
  intro k
  induction k with
  | zero =>
    intro pre post base _ _ he
    rw [show endA = base by omega]
    exact SegSound.refl cx (fun r => ⟨0, Nat.le_refl _, IterR.zero r⟩) base
  | succ k ih =>
    intro pre post base hb hp he
    have hf : cx.prog[base]? = some (Inst.fork (base + 1) endA) := by
      subst hb
      exact get_mid (q := body (pre.length + 1) ++ emitOpts body bl endA k (pre.length + 1 + bl) ++ post)
        (by simp [hp, emitOpts, List.append_assoc])
    have h1 := hbody.2 (pre ++ [Inst.fork (base + 1) endA]) (emitOpts body bl endA k (base + 1 + bl) ++ post)
      (base + 1) (by simp [hb]) (by simp [hp, emitOpts, List.append_assoc])
    have h2 := ih (pre ++ [Inst.fork (base + 1) endA] ++ body (base + 1)) post (base + 1 + bl)
      (by simp [hbody.1, hb]; omega) (by simp [hp, emitOpts, List.append_assoc])
      (by rw [he, Nat.succ_mul]; omega)
    have h12 : SegSound cx (fun r r' => ∃ j, j ≤ k + 1 ∧ IterR one j r r') (base + 1) endA :=
      SegSound.comp cx h1 h2 (fun _ _ _ a ⟨j, hj, b⟩ => ⟨j + 1, by omega, IterR.succ a b⟩)
    intro dep pos m cuts p' m' c' hr
    rcases fork_ok cx hf hr with ⟨_, hl⟩ | ⟨c'', hl⟩
    · obtain ⟨r, d, c, hR, hd, hc⟩ := h12 _ _ _ _ _ _ _ hl
      exact ⟨r, d, c, hR, by omega, hc⟩
    · exact ⟨(pos, m), dep, c'', ⟨0, by omega, IterR.zero _⟩, Nat.le_refl _, hl⟩

/-- the closing fork of an unbounded repetition: each further copy is run one level deeper -/
theorem seg_star {last b2 e : Nat} (hlast : SegSound cx one last b2)
    (hf : cx.prog[b2]? = some (Inst.fork last e)) :
    SegSound cx (fun r r' => ∃ j, IterR one j r r') b2 e := by
  have key : ∀ n dep, cx.nd - dep ≤ n → ∀ pos m cuts p' m' c',
      loop cx dep b2 pos m cuts = Res.ok p' m' c' →
      ∃ (r : St) (dep' cuts' : Nat), (∃ j, IterR one j (pos, m) r) ∧ dep ≤ dep' ∧
        loop cx dep' e r.1 r.2 cuts' = Res.ok p' m' c' := by
    intro n
    induction n with
    | zero =>
      intro dep hn pos m cuts p' m' c' hr
      rcases fork_ok cx hf hr with ⟨hlt, _⟩ | ⟨c'', hl⟩
      · omega
      · exact ⟨(pos, m), dep, c'', ⟨0, IterR.zero _⟩, Nat.le_refl _, hl⟩
    | succ n ih =>
      intro dep hn pos m cuts p' m' c' hr
      rcases fork_ok cx hf hr with ⟨hlt, hl⟩ | ⟨c'', hl⟩
      · obtain ⟨r, d, c, hR, hd, hc⟩ := hlast _ _ _ _ _ _ _ hl
        obtain ⟨r2, d2, c2, ⟨j, hj⟩, hd2, hc2⟩ := ih d (by omega) r.1 r.2 c p' m' c' hc
        exact ⟨r2, d2, c2, ⟨j + 1, IterR.succ hR hj⟩, by omega, hc2⟩
      · exact ⟨(pos, m), dep, c'', ⟨0, IterR.zero _⟩, Nat.le_refl _, hl⟩
  intro dep pos m cuts p' m' c' hr
  exact key (cx.nd - dep) dep (Nat.le_refl _) pos m cuts p' m' c' hr

/-- the repetition wrapper `emitRep` around a sound body is sound for "`k` copies, `k` allowed by `{mn, mx}`" -/
theorem seg_rep (hbody : BodySound cx body bl one) (mn mx : Int) (pre post : List Inst) (base : Nat)
    (hb : base = pre.length) (hp : cx.prog = pre ++ emitRep body bl mn mx base ++ post) :
    ∀ e, e = base + repLen bl mn mx →
      SegSound cx (fun r r' => ∃ k, RepOk mn mx k ∧ IterR one k r r') base e := by
  intro e he
  by_cases h00 : mn = 0 ∧ mx = 0
  · have : repLen bl mn mx = 0 := by simp [repLen, h00]
    rw [show e = base by omega]
    exact SegSound.refl cx (fun r => ⟨0, by simp [RepOk, h00], IterR.zero r⟩) base
  by_cases h11 : mn = 1 ∧ mx = 1
  · have hl : repLen bl mn mx = bl := by simp [repLen, h11]
    have hE : emitRep body bl mn mx base = body base := by simp [emitRep, h11]
    rw [hE] at hp
    rw [show e = base + bl by omega]
    exact (hbody.2 pre post base hb hp).mono cx (fun r r' h => ⟨1, by simp [RepOk, h11], IterR.one h⟩)
  -- the general shape: lead fork, mandatory copies, closing fork or optional copies
  rw [emitRep_general body base h00 h11] at hp
  have hrl := repLen_general (bl := bl) h00 h11
  rw [← he] at hp
  generalize hL : repLen bl mn mx = L at hrl he
  generalize hlead : repLead mn base e = lead at hp
  obtain ⟨c, hc⟩ : ∃ c, c = (max 1 mn).toNat := ⟨_, rfl⟩
  obtain ⟨n, hn⟩ : ∃ n, n = (mx - max 1 mn).toNat := ⟨_, rfl⟩
  rw [← hc, ← hn] at hp hrl
  generalize hstar : repStar mx (base + lead.length + c * bl - bl) (base + lead.length + c * bl + 1) = star at hp
  have hll : lead.length = if mn = 0 then 1 else 0 := by rw [← hlead, repLead_length]
  have hsl : star.length = if mx < 0 then 1 else 0 := by rw [← hstar, repStar_length]
  have hcop : SegSound cx (IterR one c) (base + lead.length) (base + lead.length + c * bl) :=
    seg_copies hbody c (pre ++ lead)
      (star ++ emitOpts body bl e n (base + lead.length + c * bl + star.length) ++ post) _
      (by simp [hb]) (by simp [hp, List.append_assoc]) _ rfl
  have htail : SegSound cx (fun r r' => ∃ j, (mx < 0 ∨ j ≤ n) ∧ IterR one j r r')
      (base + lead.length + c * bl) e := by
    by_cases hmx : mx < 0
    · have hn0 : n = 0 := by omega
      obtain ⟨c', hc'⟩ : ∃ c', c = c' + 1 := ⟨c - 1, by omega⟩
      have hmul : c * bl = c' * bl + bl := by rw [hc', Nat.succ_mul]
      have he' : e = base + lead.length + c * bl + 1 := by
        rw [he, hrl, hll, hn0, if_pos hmx]; omega
      have hst : star = [Inst.fork (base + lead.length + c' * bl) e] := by
        rw [← hstar, he']; unfold repStar; rw [if_pos hmx]
        rw [show base + lead.length + c * bl - bl = base + lead.length + c' * bl by omega]
      have hlast : SegSound cx one (base + lead.length + c' * bl) (base + lead.length + c * bl) := by
        have := hbody.2 (pre ++ lead ++ emitCopies body bl c' (base + lead.length))
          (star ++ emitOpts body bl e n (base + lead.length + c * bl + star.length) ++ post)
          (base + lead.length + c' * bl) (by simp [emitCopies_length hbody.1, hb]; omega)
          (by rw [hp, hc', emitCopies_snoc]; simp [List.append_assoc])
        rw [show base + lead.length + c * bl = base + lead.length + c' * bl + bl by omega]
        exact this
      have hf : cx.prog[base + lead.length + c * bl]? = some (Inst.fork (base + lead.length + c' * bl) e) := by
        have := get_mid (prog := cx.prog) (p := pre ++ lead ++ emitCopies body bl c (base + lead.length))
          (x := Inst.fork (base + lead.length + c' * bl) e)
          (q := emitOpts body bl e n (base + lead.length + c * bl + star.length) ++ post)
          (by rw [hp, hst]; simp [List.append_assoc])
        rw [show (pre ++ lead ++ emitCopies body bl c (base + lead.length)).length =
          base + lead.length + c * bl by simp [emitCopies_length hbody.1, hb]; omega] at this
        exact this
      exact (seg_star hlast hf).mono cx (fun r r' ⟨j, h⟩ => ⟨j, Or.inl hmx, h⟩)
    · have hs0 : star = [] := by rw [← hstar]; unfold repStar; rw [if_neg hmx]
      have hs0l : star.length = 0 := by rw [hs0]; rfl
      have := seg_opts hbody e n (pre ++ lead ++ emitCopies body bl c (base + lead.length)) post
        (base + lead.length + c * bl) (by simp [emitCopies_length hbody.1, hb]; omega)
        (by rw [hp, hs0]; simp [List.append_assoc])
        (by rw [he, hrl, hll, if_neg hmx]; omega)
      exact this.mono cx (fun r r' ⟨j, hj, h⟩ => ⟨j, Or.inr hj, h⟩)
  have hmain : SegSound cx (fun r r' => ∃ k, RepOk mn mx k ∧ IterR one k r r') (base + lead.length) e := by
    refine SegSound.comp cx hcop htail ?_
    intro r s r' h1 ⟨j, hj, h2⟩
    refine ⟨c + j, ?_, IterR.append h1 h2⟩
    unfold RepOk
    rw [if_neg h00, if_neg h11]
    right
    omega
  by_cases hmn : mn = 0
  · have hld : lead = [Inst.fork (base + 1) e] := by
      rw [← hlead]; unfold repLead; simp [hmn]
    have hf : cx.prog[base]? = some (Inst.fork (base + 1) e) := by
      have := get_mid (prog := cx.prog) (p := pre) (x := Inst.fork (base + 1) e)
        (q := emitCopies body bl c (base + lead.length) ++ star ++
          emitOpts body bl e n (base + lead.length + c * bl + star.length) ++ post)
        (by rw [hp, hld]; simp [List.append_assoc])
      rw [← hb] at this
      exact this
    have hl1 : base + lead.length = base + 1 := by rw [hll, if_pos hmn]
    rw [hl1] at hmain
    intro dep pos m cuts p' m' c' hr
    rcases fork_ok cx hf hr with ⟨_, hl⟩ | ⟨c'', hl⟩
    · obtain ⟨r, d, c, hR, hd, hc⟩ := hmain _ _ _ _ _ _ _ hl
      exact ⟨r, d, c, hR, by omega, hc⟩
    · refine ⟨(pos, m), dep, c'', ⟨0, ?_, IterR.zero _⟩, Nat.le_refl _, hl⟩
      unfold RepOk
      rw [if_neg h00, if_neg h11]
      exact Or.inl ⟨hmn, rfl⟩
  · have hl0 : base + lead.length = base := by rw [hll, if_neg hmn]; rfl
    rw [hl0] at hmain
    exact hmain

end seg
end Neatvi.Lemmas.C10
