import NeatviVerif.Lemmas.C05eB
/-!
# C05e lemmas, part C: path expansion and the handlers that use it (`:!`, `:r`, `:w`, `:q`/`:wq`/`:x`/`:xa`, `:b`)

`ex_pathexpand` writes into a buffer of 1024 bytes and truncates; the model does not follow the truncation and
answers `none` when the expansion reaches 1000 bytes.  That `none` is not a trap of the C code.  `PathFits ed src sp`
says the expansion of `src` in the state `ed` stays below that size; it depends on the state only through the path
names in slots 0 and 1 (`PathsEq`).
-/
namespace Neatvi.Lemmas.C05e
open Neatvi Neatvi.Lbuf Neatvi.LbufIo Neatvi.Ex Neatvi.Rset
open Neatvi.Lemmas.ExFrame Neatvi.Lemmas.C02Ex Neatvi.Lemmas.C02b Neatvi.Lemmas.C06

/-! ### `ex_pathexpand` -/

/-- the copy loop itself has no trap -/
theorem pathGo_some (ed : Ed) (sp : Bool) : ∀ (f : Nat) (src dst : Bytes), ∃ o, pathExpand.go ed sp f src dst = some o := by
  intro f
  induction f with
  | zero => intro src dst; exact ⟨_, rfl⟩
  | succ f ih =>
    intro src dst
    rw [pathExpand.go.eq_def]
    dsimp only
    split
    · exact ⟨_, rfl⟩
    · split
      · exact ⟨_, rfl⟩
      · split
        · split
          · exact ⟨_, rfl⟩
          · exact ih _ _
        · split
          · split
            · split <;> exact ih _ _
            · exact ih _ _
          · split <;> exact ih _ _

/-- the expansion of `src` stays below the size the model follows -/
def PathFits (ed : Ed) (src : Bytes) (sp : Bool) : Prop :=
  ∀ p, pathExpand.go ed sp (src.length + 1) src [] = some (some p) → p.length < 1000

/-- **`ex_pathexpand` never traps** when the expansion fits -/
theorem pathExpand_total {ed : Ed} {src : Bytes} {sp : Bool} (h : PathFits ed src sp) :
    ∃ r ed', pathExpand ed src sp = some (r, ed') ∧ (ed' = ed ∨ ∃ m, ed' = ed.show m) := by
  unfold pathExpand
  obtain ⟨o, ho⟩ := pathGo_some ed sp (src.length + 1) src []
  rw [ho]
  cases o with
  | none => exact ⟨_, _, rfl, Or.inr ⟨_, rfl⟩⟩
  | some p =>
    dsimp only
    have := h p ho
    rw [if_neg (by omega)]
    exact ⟨_, _, rfl, Or.inl rfl⟩

/-- when it does not fit, the model answers `none` — and only then -/
theorem pathExpand_none_iff (ed : Ed) (src : Bytes) (sp : Bool) : pathExpand ed src sp = none ↔ ¬ PathFits ed src sp := by
  constructor
  · intro h hf
    obtain ⟨_, _, h1, _⟩ := pathExpand_total hf
    rw [h] at h1; cases h1
  · intro h
    unfold pathExpand
    obtain ⟨o, ho⟩ := pathGo_some ed sp (src.length + 1) src []
    rw [ho]
    cases o with
    | none => exact absurd (fun p hp => by rw [ho] at hp; cases hp) h
    | some p =>
      by_cases hl : p.length ≥ 1000
      · simp [hl]
      · exact absurd (fun q hq => by rw [ho] at hq; cases hq; omega) h

/-- the same path names in every slot -/
def PathsEq (ed ed' : Ed) : Prop := ∀ i, (ed'.bufs.getD i none).map (·.path) = (ed.bufs.getD i none).map (·.path)

theorem PathsEq.refl (ed : Ed) : PathsEq ed ed := fun _ => rfl
theorem PathsEq.trans {a b c : Ed} (h1 : PathsEq a b) (h2 : PathsEq b c) : PathsEq a c := fun i => (h2 i).trans (h1 i)
theorem PathsEq.of_bufs {ed ed' : Ed} (h : ed'.bufs = ed.bufs) : PathsEq ed ed' := fun i => by rw [h]

theorem PathsEq.isSome {ed ed' : Ed} (h : PathsEq ed ed') (i : Nat) :
    (ed'.bufs.getD i none).isSome = (ed.bufs.getD i none).isSome := by
  have := congrArg Option.isSome (h i)
  simpa using this

theorem PathsEq.set {ed : Ed} {i : Nat} {b b' : Buf} (hb : ed.bufs.getD i none = some b) (hp : b'.path = b.path) :
    PathsEq ed { ed with bufs := ed.bufs.set i (some b') } := by
  intro j
  by_cases hij : i = j
  · subst hij
    show ((ed.bufs.set i (some b')).getD i none).map (·.path) = _
    rw [getD_set_self _ _ _ (getD_some hb).1, hb]
    simp [hp]
  · show ((ed.bufs.set i (some b')).getD j none).map (·.path) = _
    rw [getD_set_ne _ _ _ _ hij]

theorem modifiedAt_pathsEq (ed : Ed) (idx : Nat) : PathsEq ed (ed.modifiedAt idx).2 := by
  unfold Ed.modifiedAt
  cases hb : ed.bufs.getD idx none with
  | none => exact PathsEq.refl _
  | some b => exact PathsEq.set hb rfl

theorem pathGo_congr {ed ed' : Ed} (h : PathsEq ed ed') (sp : Bool) : ∀ (f : Nat) (src dst : Bytes),
    pathExpand.go ed' sp f src dst = pathExpand.go ed sp f src dst := by
  intro f
  induction f with
  | zero => intro src dst; rfl
  | succ f ih =>
    intro src dst
    rw [pathExpand.go.eq_def, pathExpand.go.eq_def]
    dsimp only
    cases src with
    | nil => rfl
    | cons c r =>
      dsimp only
      split
      · rfl
      · split
        · have hi := h (if (c == 35) = true then 1 else 0)
          cases h1 : ed'.bufs.getD (if (c == 35) = true then 1 else 0) none <;>
            cases h2 : ed.bufs.getD (if (c == 35) = true then 1 else 0) none <;> rw [h1, h2] at hi <;>
            simp only [Option.map_none, Option.map_some, reduceCtorEq, Option.some.injEq] at hi
          all_goals (first | rfl | (dsimp only; rw [hi]; exact ih _ _))
        · split
          · have hi := h 0
            unfold Ed.cur
            cases h1 : ed'.bufs.getD 0 none <;> cases h2 : ed.bufs.getD 0 none <;> rw [h1, h2] at hi <;>
              simp only [Option.map_none, Option.map_some, reduceCtorEq, Option.some.injEq] at hi
            all_goals (first | exact ih _ _ | (dsimp only; rw [hi]; split <;> exact ih _ _))
          · split <;> exact ih _ _

theorem PathFits.congr {ed ed' : Ed} {src : Bytes} {sp : Bool} (h : PathFits ed src sp) (he : PathsEq ed ed') :
    PathFits ed' src sp := by
  intro p hp
  rw [pathGo_congr he] at hp
  exact h p hp


/-! ### the unsaved-changes guard -/

theorem modifiedAt_atDepth (ed : Ed) (idx : Nat) : (ed.modifiedAt idx).2.atDepth = ed.atDepth := by
  unfold Ed.modifiedAt
  cases ed.bufs.getD idx none <;> rfl

theorem bufsModified_atDepth {ed ed' : Ed} {idx : Nat} {msg : Option Bytes} {r : Bool}
    (hm : bufsModified ed idx msg = some (r, ed')) : ed'.atDepth = ed.atDepth := by
  unfold bufsModified at hm
  have h1 := modifiedAt_atDepth ed idx
  generalize ed.modifiedAt idx = p at hm h1
  obtain ⟨m, ed1⟩ := p
  simp only [] at hm h1
  split at hm
  · cases hm; rfl
  · split at hm
    · cases hm; exact h1
    · split at hm
      · cases hm
      · split at hm
        · split at hm
          · cases hm
          · rename_i hs
            cases hm
            exact (lbufSave_ioFr _ _ _ _ _ _ _ _ _ hs).atDepth.trans h1
        · cases hm
          split
          · exact h1
          · exact h1


theorem Safe.paths {ed ed' : Ed} (h : Safe ed) (hi : EdInv ed') (hq : PathsEq ed ed') (hk : ed'.xkwd = ed.xkwd) : Safe ed' :=
  ⟨hi, by have := hq.isSome 0; unfold Ed.cur; rw [this]; exact h.cur, by rw [hk]; exact h.kwd⟩

theorem modifiedAt_xkwd (ed : Ed) (idx : Nat) : (ed.modifiedAt idx).2.xkwd = ed.xkwd := by
  unfold Ed.modifiedAt
  cases ed.bufs.getD idx none <;> rfl

theorem IoFr.xkwd {ed ed' : Ed} (h : IoFr ed ed') : ed'.xkwd = ed.xkwd := by
  obtain ⟨_, _, _, _, e⟩ := h; subst e; rfl

theorem bufsModified_xkwd {ed ed' : Ed} {idx : Nat} {msg : Option Bytes} {r : Bool}
    (hm : bufsModified ed idx msg = some (r, ed')) : ed'.xkwd = ed.xkwd := by
  unfold bufsModified at hm
  have h1 := modifiedAt_xkwd ed idx
  generalize ed.modifiedAt idx = p at hm h1
  obtain ⟨m, ed1⟩ := p
  simp only [] at hm h1
  split at hm
  · cases hm; rfl
  · split at hm
    · cases hm; exact h1
    · split at hm
      · cases hm
      · split at hm
        · split at hm
          · cases hm
          · rename_i hs
            cases hm
            exact (lbufSave_ioFr _ _ _ _ _ _ _ _ _ hs).xkwd.trans h1
        · cases hm
          split
          · exact h1
          · exact h1

theorem bufsModified_pathsEq {ed ed' : Ed} {idx : Nat} {msg : Option Bytes} {r : Bool}
    (hm : bufsModified ed idx msg = some (r, ed')) : PathsEq ed ed' := by
  unfold bufsModified at hm
  have h1 := modifiedAt_pathsEq ed idx
  generalize ed.modifiedAt idx = p at hm h1
  obtain ⟨m, ed1⟩ := p
  simp only [] at hm h1
  split at hm
  · cases hm; exact PathsEq.refl _
  · split at hm
    · cases hm; exact h1
    · split at hm
      · cases hm
      · split at hm
        · split at hm
          · cases hm
          · rename_i hs
            cases hm
            exact h1.trans (PathsEq.of_bufs (lbufSave_bufs _ _ _ _ _ _ _ _ _ hs))
        · cases hm
          split
          · exact h1.trans (PathsEq.of_bufs rfl)
          · exact h1

theorem guard_total {ed : Ed} (h : Safe ed) (c : Prop) [Decidable c] (idx : Nat) (msg : Option Bytes) :
    ∃ r ed', (if c then bufsModified ed idx msg else some (false, ed) : R Bool) = some (r, ed') ∧ Safe ed' ∧ PathsEq ed ed' ∧
      ed'.atDepth = ed.atDepth := by
  by_cases hc : c
  · obtain ⟨r, ed', hm⟩ := bufsModified_total ed idx msg
    have hq := bufsModified_pathsEq hm
    exact ⟨r, ed', by rw [if_pos hc]; exact hm, h.paths (edInv_bufsModified h.inv hm) hq (bufsModified_xkwd hm), hq, bufsModified_atDepth hm⟩
  · exact ⟨false, ed, by rw [if_neg hc], h, PathsEq.refl _, rfl⟩

theorem pathExpand_cases {ed : Ed} {src : Bytes} {sp : Bool} (h : Safe ed) (hp : PathFits ed src sp) :
    ∃ r ed', pathExpand ed src sp = some (r, ed') ∧ Safe ed' ∧ ed'.bufs = ed.bufs ∧ ed'.atDepth = ed.atDepth := by
  obtain ⟨r, ed', h1, h2⟩ := pathExpand_total hp
  refine ⟨r, ed', h1, ?_, ?_, ?_⟩
  · rcases h2 with rfl | ⟨m, rfl⟩
    · exact h
    · exact h.show m
  · rcases h2 with rfl | ⟨m, rfl⟩ <;> rfl
  · rcases h2 with rfl | ⟨m, rfl⟩ <;> rfl


/-! ### `:!` -/

theorem run_exec (hre : ReSafe) (f : Nat) {ed : Ed} (h : Safe ed) (loc cmd arg : Bytes) (txt : Option Bytes)
    (hloc : 0 ∉ loc) (hp : PathFits ed arg true) : Ret ed.atDepth (runCmd (f + 1) ed "ec_exec" loc cmd arg txt) := by
  rw [runCmd]
  simp (config := {decide := true}) only [if_false, if_true]
  obtain ⟨g, ed1, hg, h1, hq, hd1⟩ := guard_total h ((ed.xwa == 0) = true) 0 (some (strOf "buffer modified"))
  rw [hg]
  cases g with
  | true => exact Ret.mk h1 (by dep)
  | false =>
    dsimp only
    obtain ⟨path, ed2, he, h2, _, hd2⟩ := pathExpand_cases h1 (hp.congr hq)
    rw [he]
    cases path with
    | none => exact Ret.mk h2 (by dep)
    | some ecmd =>
      dsimp only
      split
      · exact Ret.mk (h2.of_bufs rfl) (by dep)
      · obtain ⟨rc, b, e, ed3, hr, h3, hd3, hrc, hin, _⟩ := region_cases hre h2 loc hloc
        rw [hr]
        dsimp only
        split
        · exact Ret.mk h3 (by dep)
        · rename_i hc
          have h0 : rc = 0 := by
            rcases hrc with h0 | h1'
            · exact h0
            · subst h1'; simp at hc
          split
          · exact Ret.mk (h3.of_bufs rfl) (by dep)
          · exact Ret.mk h3 (by dep)
          · rename_i rep _
            obtain ⟨ed4, he4, h4, hd4⟩ := edit_total' h3 (some rep) b e (hin h0).1 (hin h0).2.1
            rw [he4]
            exact Ret.mk h4 (by dep)

/-! ### `:r` -/

theorem run_read (hre : ReSafe) (f : Nat) {ed : Ed} (h : Safe ed) (loc cmd arg : Bytes) (txt : Option Bytes)
    (hloc : 0 ∉ loc) (hp : PathFits ed arg true) : Ret ed.atDepth (runCmd (f + 1) ed "ec_read" loc cmd arg txt) := by
  rw [runCmd]
  simp (config := {decide := true}) only [if_false, if_true]
  have hpr : ∃ path ed1, (if (!arg.isEmpty) = true then pathExpand ed arg true else some (ed.cur.map (·.path), ed)) = some (path, ed1) ∧
      Safe ed1 ∧ ed1.atDepth = ed.atDepth := by
    split
    · obtain ⟨path, ed1, he, h1, _, hd1⟩ := pathExpand_cases h hp
      exact ⟨path, ed1, he, h1, hd1⟩
    · exact ⟨_, _, rfl, h, rfl⟩
  obtain ⟨path, ed1, hpe, h1, hd1⟩ := hpr
  rw [hpe]
  dsimp only
  obtain ⟨rc, b, e, ed2, hr, h2, hd2, hrc, hin, _⟩ := region_cases hre h1 loc hloc
  rw [hr]
  dsimp only
  split
  · exact Ret.mk h2 (by dep)
  · rename_i hc
    have h0 : rc = 0 := by
      rcases hrc with h0 | h1'
      · exact h0
      · subst h1'; simp at hc
    have hpos : 0 ≤ (if (ed2.len != 0) = true then e else 0) := by
      split
      · have := hin h0; omega
      · omega
    split
    · split
      · exact Ret.mk h2 (by dep)
      · split
        · exact Ret.mk (h2.of_bufs rfl) (by dep)
        · rename_i obuf _
          cases obuf with
          | none => exact Ret.mk (h2.of_bufs rfl) (by dep)
          | some o =>
            dsimp only
            obtain ⟨ed3, he3, h3, hd3⟩ := edit_total' h2 (some o) _ _ hpos (Int.le_refl _)
            rw [he3]
            exact Ret.mk (h3.of_bufs rfl) (by dep)
    · split
      · exact Ret.mk (h2.show _) (by dep)
      · rename_i fl _
        obtain ⟨lb, hl, hg⟩ := h2.lb
        rw [hl]
        simp only [Option.bind_some]
        obtain ⟨rc', lb', hrd⟩ := rd_total lb [fl.data] false (if (ed2.len != 0) = true then e else 0).toNat
          (if (ed2.len != 0) = true then e else 0).toNat (Nat.le_refl _)
        rw [hrd]
        exact Ret.mk ((h2.setLb (hg.rd hrd)).of_bufs rfl) (by dep)


/-! ### `:w` -/

theorem Safe.setCur {ed : Ed} (h : Safe ed) {b : Buf} (hg : GoodLb b.lb) : Safe (ed.setCur b) := by
  refine ⟨edInv_setCur h.inv hg, ?_, h.kwd⟩
  have hc := h.cur
  cases hb : ed.cur with
  | none => rw [hb] at hc; cases hc
  | some b0 => rw [setCur_cur ed b0 b hb]; rfl

theorem ecWrite_ret (hre : ReSafe) {ed : Ed} (h : Safe ed) (loc cmd arg : Bytes) (hloc : 0 ∉ loc)
    (hp : PathFits ed arg true) : Ret ed.atDepth (ecWrite ed loc cmd arg) := by
  unfold ecWrite
  dsimp only
  have hpr : ∃ path ed1, (if (!arg.isEmpty) = true then pathExpand ed arg true else some (ed.cur.map (·.path), ed)) = some (path, ed1) ∧
      Safe ed1 ∧ ed1.atDepth = ed.atDepth := by
    split
    · obtain ⟨path, ed1, he, h1, _, hd1⟩ := pathExpand_cases h hp
      exact ⟨path, ed1, he, h1, hd1⟩
    · exact ⟨_, _, rfl, h, rfl⟩
  obtain ⟨path, ed1, hpe, h1, hd1⟩ := hpr
  rw [hpe]
  dsimp only
  have hx : ∃ m ed2, (if (cmd.headD 0 == 120) = true then some (ed1.modifiedAt 0) else some (true, ed1)) = some (m, ed2) ∧ Safe ed2 ∧ ed2.atDepth = ed1.atDepth := by
    split
    · exact ⟨_, _, rfl, h1.paths (edInv_modifiedAt 0 h1.inv) (modifiedAt_pathsEq ed1 0) (modifiedAt_xkwd ed1 0), modifiedAt_atDepth ed1 0⟩
    · exact ⟨_, _, rfl, h1, rfl⟩
  obtain ⟨m, ed2, hxe, h2, hd2⟩ := hx
  rw [hxe]
  cases m with
  | false => exact Ret.mk h2 (by dep)
  | true =>
    dsimp only
    obtain ⟨rc, b, e, ed3, hr, h3, hd3, hrc, hin, _⟩ := region_cases hre h2 loc hloc
    rw [hr]
    dsimp only
    split
    · exact Ret.mk h3 (by dep)
    · rename_i hc
      have h0 : rc = 0 := by
        rcases hrc with h0 | h1'
        · exact h0
        · subst h1'; simp at hc
      have hbe : ∃ b' e' : Int, (if loc.isEmpty = true then ((0 : Int), ed3.len) else (b, e)) = (b', e') ∧ 0 ≤ b' ∧ b' ≤ e' ∧ e' ≤ ed3.len := by
        split
        · exact ⟨_, _, rfl, by omega, len_nonneg _, Int.le_refl _⟩
        · exact ⟨_, _, rfl, (hin h0).1, (hin h0).2.1, (hin h0).2.2⟩
      obtain ⟨b', e', hbe, hb0, hb1, hb2⟩ := hbe
      rw [hbe]
      dsimp only
      cases hcur : ed3.cur with
      | none => have := h3.cur; rw [hcur] at this; cases this
      | some cur =>
        dsimp only
        have hgc : GoodLb cur.lb := edInv_cur h3.inv hcur
        split
        · split
          · exact Ret.mk h3 (by dep)
          · refine Ret.mk ?_ ?_
            · split
              · exact h3.of_bufs rfl
              · exact h3.show _
            · split <;> dep
        · have hlen : ed3.len = cur.lb.lines.length := by simp [Ed.len, Ed.lb, hcur]
          obtain ⟨r, ed4, hs⟩ := lbufSaveP_total ed3 cur.lb b'.toNat e' (path.getD []) (hasBang cmd)
            (if (cur.path == path.getD []) = true then cur.mtime else 0) (Or.inr (by omega))
          rw [hs]
          have hb4 := lbufSaveP_bufs _ _ _ _ _ _ _ _ _ hs
          have h4 : Safe ed4 := h3.of_bufs hb4 (lbufSaveP_ioFr _ _ _ _ _ _ _ _ _ hs).xkwd
          have hd4 : ed4.atDepth = ed3.atDepth := (lbufSaveP_ioFr _ _ _ _ _ _ _ _ _ hs).atDepth
          cases r with
          | some err => exact Ret.mk (h4.show _) (by dep)
          | none =>
            dsimp only
            have hc4 : (ed4.show ([34] ++ path.getD [] ++ strOf "\"  [=" ++ intStr (e' - b') ++ strOf "]  [w]")).cur = some cur := by
              rw [← hcur]; exact cur_congr hb4
            rw [hc4]
            dsimp only
            generalize hE : Ed.show ed4 _ = ed5
            have h5 : Safe ed5 := by rw [← hE]; exact h4.show _
            have hd5 : ed5.atDepth = ed4.atDepth := by rw [← hE]; rfl
            generalize hX : (if cur.path.isEmpty = true then _ else (cur, ed5) : Buf × Ed) = X
            have hX1 : X.1.lb = cur.lb := by rw [← hX]; split <;> rfl
            have hX2 : Safe X.2 := by rw [← hX]; split <;> first | exact h5 | exact h5.of_bufs rfl
            have hX3 : X.2.atDepth = ed5.atDepth := by rw [← hX]; split <;> rfl
            obtain ⟨c3, ed6⟩ := X
            simp only [] at hX1 hX2 hX3 ⊢
            repeat' split
            all_goals
              refine Ret.mk (hX2.setCur ?_) (by dep)
              first
                | (show GoodLb (modified (savedCore c3.lb false)).2; rw [hX1]; exact hgc.savedBump false)
                | (show GoodLb (unsavedMark c3.lb); rw [hX1]; exact hgc.partialWrite)
                | (rw [hX1]; exact hgc)

theorem run_write (hre : ReSafe) (f : Nat) {ed : Ed} (h : Safe ed) (loc cmd arg : Bytes) (txt : Option Bytes)
    (hloc : 0 ∉ loc) (hp : PathFits ed arg true) : Ret ed.atDepth (runCmd (f + 1) ed "ec_write" loc cmd arg txt) := by
  rw [runCmd]
  simp (config := {decide := true}) only [if_false, if_true]
  exact ecWrite_ret hre h loc cmd arg hloc hp

end Neatvi.Lemmas.C05e
