import NeatviVerif.Lemmas.C02Run
/-!
# C02 lemmas, part 5: facts about the reference run (zipper with a mark) used by the corollaries
-/
namespace Neatvi.Lemmas.C02
open Neatvi Neatvi.Lbuf Neatvi.Spec Neatvi.Lemmas.Hist Neatvi.Props.C01 Neatvi.Props.C04

/-- the texts at and below the cursor, nearest first -/
def stack (z : Zipper) : List Text := z.present :: z.past

/-- every command of the list modifies the text history (logs at least one entry), from text `t` on -/
def AllLog : Text → List (List Splice) → Prop
  | _, [] => True
  | t, ss :: r => cmdLogs t ss = true ∧ AllLog (ss.foldl spliceText t) r

/-- modifying commands push one text each and leave a mark at or below the cursor alone -/
theorem rrun_cmds (css : List (List Splice)) : ∀ (r : Ref) (p : Nat), r.z.open_ = false → r.mark = some p →
    p ≤ r.z.past.length → AllLog r.z.present css →
    (rrun (css.map SOp.cmd) r).z.open_ = false ∧ (rrun (css.map SOp.cmd) r).mark = some p ∧
      ∃ ts, ts.length = css.length ∧ stack (rrun (css.map SOp.cmd) r).z = ts ++ stack r.z := by
  induction css with
  | nil => intro r p ho hm _ _; exact ⟨ho, hm, [], rfl, rfl⟩
  | cons ss css ih =>
    intro r p ho hm hp hl
    obtain ⟨hl1, hl2⟩ := hl
    have hz : (rstep r (.cmd ss)).z =
        (⟨r.z.present :: r.z.past, ss.foldl spliceText r.z.present, [], false⟩ : Zipper) := by
      show (refStep r.z (.cmd ss)).2 = _
      rw [refStep_cmd_logs r.z ss ho hl1]
    have hk : (rstep r (.cmd ss)).mark = some p := by
      simp [rstep, hl1, hm, keepMark, hp]
    obtain ⟨a, b, ts, c1, c2⟩ := ih (rstep r (.cmd ss)) p (by rw [hz]) hk
      (by rw [hz]; simp only [List.length_cons]; omega) (by rw [hz]; exact hl2)
    refine ⟨a, b, ts ++ [ss.foldl spliceText r.z.present], by simp [c1], ?_⟩
    show stack (rrun (css.map SOp.cmd) (rstep r (.cmd ss))).z = _
    rw [c2, hz]
    simp [stack]

/-- successful undos pop one text each and leave the mark alone -/
theorem rrun_undos (j : Nat) : ∀ (r : Ref), r.z.open_ = false → j ≤ r.z.past.length →
    (rrun (List.replicate j SOp.undo) r).z.open_ = false ∧ (rrun (List.replicate j SOp.undo) r).mark = r.mark ∧
      stack (rrun (List.replicate j SOp.undo) r).z = (stack r.z).drop j := by
  induction j with
  | zero => intro r ho _; exact ⟨ho, rfl, rfl⟩
  | succ j ih =>
    intro r ho hj
    cases hp : r.z.past with
    | nil => rw [hp] at hj; simp at hj
    | cons p ps =>
      have hz : (rstep r .undo).z = (⟨ps, p, r.z.present :: r.z.future, false⟩ : Zipper) := by
        show (refStep r.z .undo).2 = _
        simp [refStep, Zipper.undo, hp]
      obtain ⟨a, b, c⟩ := ih (rstep r .undo) (by rw [hz]) (by rw [hz]; rw [hp] at hj; simpa using hj)
      refine ⟨a, b, ?_⟩
      show stack (rrun (List.replicate j SOp.undo) (rstep r .undo)).z = _
      rw [c, hz]
      simp [stack, hp]

theorem rstep_undo_redo (r : Ref) (ho : r.z.open_ = false) (hp : 1 ≤ r.z.past.length) :
    rstep (rstep r .undo) .redo = r := by
  obtain ⟨⟨past, present, future, open_⟩, mark⟩ := r
  simp only at ho hp
  subst ho
  cases past with
  | nil => simp at hp
  | cons p ps => simp [rstep, refStep, Zipper.undo, Zipper.redo]

/-- `j` successful undos followed by `j` redos lead back to the same reference state -/
theorem rrun_undo_redo (j : Nat) : ∀ (r : Ref), r.z.open_ = false → j ≤ r.z.past.length →
    rrun (List.replicate j SOp.undo ++ List.replicate j SOp.redo) r = r := by
  induction j with
  | zero => intro r _ _; rfl
  | succ j ih =>
    intro r ho hj
    have h1 := rrun_undos 1 r ho (by omega)
    have e : List.replicate (j + 1) SOp.undo ++ List.replicate (j + 1) SOp.redo =
        [SOp.undo] ++ ((List.replicate j SOp.undo ++ List.replicate j SOp.redo) ++ [SOp.redo]) := by
      rw [List.replicate_succ, List.replicate_succ']
      simp
    rw [e, rrun_append, rrun_append]
    have hr1 : rrun [SOp.undo] r = rstep r .undo := rfl
    rw [hr1]
    have hlen : j ≤ (rstep r .undo).z.past.length := by
      have := congrArg List.length h1.2.2
      simp only [stack, List.length_cons, List.length_drop] at this
      have e1 : rrun (List.replicate 1 SOp.undo) r = rstep r .undo := rfl
      rw [e1] at this
      omega
    rw [ih (rstep r .undo) h1.1 hlen]
    exact rstep_undo_redo r ho (by omega)

def isSaving : SOp → Bool
  | .saved => true
  | .savedClear => true
  | _ => false

/-- once the mark is lost only a whole write brings it back -/
theorem rrun_mark_none (ops : List SOp) : ∀ (r : Ref), r.mark = none → (∀ op ∈ ops, isSaving op = false) →
    (rrun ops r).mark = none := by
  induction ops with
  | nil => intro r h _; exact h
  | cons op ops ih =>
    intro r h hs
    apply ih _ _ (fun o ho => hs o (by simp [ho]))
    have := hs op (by simp)
    cases op <;> simp_all [rstep, isSaving, keepMark]

end Neatvi.Lemmas.C02
