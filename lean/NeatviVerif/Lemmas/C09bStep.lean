import NeatviVerif.Lemmas.C09bRespCmd
/-!
# C09b: one iteration of `vi()` under the simulation relation `K`

* every iteration that is not a `.` / `@` command keeps `K` (`viStep_K_plain`);
* the `.` / `@` commands keep `K` when no pushed key is unread at the moment of the push and `ibuf` has
  room for what is pushed (`pushOk`); `stepOk s` is that proviso, computed by running the model;
* on the diagonal (`s = t`) the proviso is not needed: the unary invariants `Inv` hold along every run.
-/
namespace Neatvi.Lemmas.C09b
open Neatvi Neatvi.Vi Neatvi.Ex Neatvi.Lemmas.C09

/-! ### the recording tail -/

theorem rep_ok_of_cond {c k : Int} {cmd : Bytes}
    (h : (isRepeatable c k && decide (cmd.length + 1 < 4096)) = true) : cmd.length + 1 < 4096 := by
  simp only [Bool.and_eq_true, decide_eq_true_eq] at h
  exact h.2

theorem length_takeWhile_le' (p : Nat → Bool) (l : Bytes) : (l.takeWhile p).length ≤ l.length := by
  induction l with
  | nil => simp
  | cons a l ih =>
    rw [List.takeWhile_cons]
    split
    · simp only [List.length_cons]; omega
    · simp

theorem rep_ok_takeWhile {c k : Int} {cmd : Bytes} (p : Nat → Bool)
    (h : (isRepeatable c k && decide (cmd.length + 1 < 4096)) = true) :
    (cmd.takeWhile p).length + 1 < 4096 := by
  have := rep_ok_of_cond h
  have := length_takeWhile_le' p cmd
  omega

/-- storing a command shorter than the buffer in `rep_cmd` -/
theorem resp_modify_rep (x : Bytes) (hx : x.length + 1 < 4096) :
    Resp (Vi.modify fun s => { s with repCmd := x }) := by
  intro s t h
  refine RelK.ok _ _ _ ⟨?_, h.wfs, h.wft, h.unr, h.len, h.emp, hx, h.icm⟩
  have := h.keq
  have hq : QueueFree (fun s => { s with repCmd := x }) := fun _ => rfl
  unfold KeyEq at this ⊢
  rw [hq s, hq t, this]

syntax "resp_rep" : tactic
macro_rules | `(tactic| resp_rep) => `(tactic| first
  | ((with_reducible refine resp_modify_rep _ ?_); first
      | exact rep_ok_of_cond ‹_›
      | exact rep_ok_takeWhile _ ‹_›)
  | (with_reducible refine resp_ite' (fun _ => ?_) (fun _ => ?_))
  | resp_step)

theorem resp_finRec (c k : Int) (mod : Nat) : Resp (finRec c k mod) := by
  unfold finRec
  repeat' resp_rep

/-! ### the command switch: everything but `.` and `@` -/

/-- `commandTail` is "read the command key, then `body key`", and `body c` keeps `K` for every key but
`.` and `@` -/
theorem resp_commandTail_body :
    ∃ body : Int → M (Option Nat), commandTail = (viRead >>= body) ∧
      ∀ c : Int, c ≠ 46 → c ≠ 64 → Resp (body c) := by
  refine ⟨_, by unfold commandTail; rfl, fun c h46 h64 => ?_⟩
  repeat' (first
    | resp_rep
    | (exfalso; simp_all; done))

/-- the part of an iteration between `viPre` and `viPost` -/
def stepMid (mv nrow noff : Int) : M (Option Nat) :=
  if mv > 0 then motionTail mv nrow noff
  else if mv == 0 then commandTail
  else pure (some 0)

theorem viStep_eq_mid : viStep = (viPre >>= fun r => stepMid r.1 r.2.1 r.2.2 >>= viPost) := rfl

/-- is the key the command switch is about to read `.` or `@`? -/
def cmdKey (s1 : VS) : Option Int := match viRead s1 with
  | Res.ok c _ => some c
  | _ => none

theorem commandTail_K_plain (s t : VS) (h : K s t) (hk : cmdKey s ≠ some 46 ∧ cmdKey s ≠ some 64) :
    RelK (commandTail s) (commandTail t) := by
  obtain ⟨body, hb, hr⟩ := resp_commandTail_body
  rw [hb]
  refine relK_bind (resp_viRead s t h) (fun c s' t' hc _ h' => ?_)
  refine hr c ?_ ?_ s' t' h'
  · intro e; subst e; apply hk.1; unfold cmdKey; rw [hc]
  · intro e; subst e; apply hk.2; unfold cmdKey; rw [hc]

end Neatvi.Lemmas.C09b
