import NeatviVerif.Lemmas.C02cStages
/-!
# C02c lemmas, part 2: what the stages of `ec_edit` do to the buffer table

`bufView b`: the id, the path, the text and the dirty flag of a buffer: what must not get lost.
`SameTable ed ed'`: slot by slot the same views (the guards only bump sequence counters).
`Held ed v` / `HeldTail ed v`: some slot / some slot other than the current one shows the view `v`.
-/
namespace Neatvi.Lemmas.C02c
open Neatvi Neatvi.Lbuf Neatvi.LbufIo Neatvi.Ex Neatvi.Lemmas.C02Ex Neatvi.Props

/-- what must survive of a buffer: id, path, text, dirty flag -/
def bufView (b : Buf) : Int × Bytes × List Bytes × Bool := (b.id, b.path, b.lb.lines, (modified b.lb).1)

def slotView (x : Option Buf) : Option (Int × Bytes × List Bytes × Bool) := x.map bufView

theorem slotView_some {x : Option Buf} {v} (h : slotView x = some v) : ∃ b, x = some b ∧ bufView b = v := by
  cases x with
  | none => cases h
  | some b => exact ⟨b, rfl, by simpa [slotView] using h⟩

theorem slotView_isNone (x : Option Buf) : (slotView x).isNone = x.isNone := by
  cases x <;> rfl

/-- the bump of `lbuf_modified` keeps the view -/
theorem bufView_bump (b : Buf) : bufView { b with lb := (modified b.lb).2 } = bufView b := rfl

theorem bufView_leftRec (ed : Ed) (b : Buf) : bufView (C20.leftRec ed b) = bufView b := rfl

/-! ### slot by slot the same -/

structure SameTable (ed ed' : Ed) : Prop where
  xaw : ed'.xaw = ed.xaw
  xwa : ed'.xwa = ed.xwa
  files : ed'.files = ed.files
  length : ed'.bufs.length = ed.bufs.length
  slots : ∀ k, slotView (ed'.bufs.getD k none) = slotView (ed.bufs.getD k none)

theorem SameTable.refl (ed : Ed) : SameTable ed ed := ⟨rfl, rfl, rfl, rfl, fun _ => rfl⟩

theorem SameTable.trans {a b c : Ed} (h1 : SameTable a b) (h2 : SameTable b c) : SameTable a c :=
  ⟨h2.xaw.trans h1.xaw, h2.xwa.trans h1.xwa, h2.files.trans h1.files, h2.length.trans h1.length,
    fun k => (h2.slots k).trans (h1.slots k)⟩

theorem sameTable_show (ed : Ed) (m : Bytes) : SameTable ed (ed.show m) := ⟨rfl, rfl, rfl, rfl, fun _ => rfl⟩

theorem sameTable_showOpt (ed : Ed) (m : Option Bytes) : SameTable ed (showOpt ed m) := by
  cases m
  · exact SameTable.refl _
  · exact sameTable_show _ _

theorem sameTable_bumpAt (ed : Ed) (idx : Nat) (b : Buf) (hb : ed.bufs.getD idx none = some b) :
    SameTable ed (bumpAt ed idx b) := by
  obtain ⟨hlt, _⟩ := getD_some hb
  refine ⟨rfl, rfl, rfl, by simp [bumpAt], ?_⟩
  intro k
  by_cases hk : idx = k
  · subst hk
    simp only [bumpAt]
    rw [getD_set_self _ _ _ hlt, hb]
    rfl
  · simp only [bumpAt]
    rw [getD_set_ne _ _ _ _ hk]

theorem SameTable.cur_isNone {ed ed' : Ed} (h : SameTable ed ed') : ed'.cur.isNone = ed.cur.isNone := by
  have := congrArg Option.isNone (h.slots 0)
  rw [slotView_isNone, slotView_isNone] at this
  exact this

theorem SameTable.findRoom {ed ed' : Ed} (h : SameTable ed ed') : ed'.findRoom = ed.findRoom := by
  unfold Ed.findRoom
  have hp : (fun i => (ed'.bufs.getD i none).isNone) = (fun i => (ed.bufs.getD i none).isNone) := by
    funext i
    have := congrArg Option.isNone (h.slots i)
    rw [slotView_isNone, slotView_isNone] at this
    exact this
  rw [h.length, hp]

/-- the paths, slot by slot -/
theorem SameTable.bufsFind {ed ed' : Ed} (h : SameTable ed ed') (p : Bytes) : ed'.bufsFind p = ed.bufsFind p := by
  unfold Ed.bufsFind
  simp only [h.length]
  congr 2
  funext i
  have := h.slots i
  cases h1 : ed'.bufs.getD i none with
  | none =>
    cases h2 : ed.bufs.getD i none with
    | none => rfl
    | some b => rw [h1, h2] at this; cases this
  | some b' =>
    cases h2 : ed.bufs.getD i none with
    | none => rw [h1, h2] at this; cases this
    | some b =>
      rw [h1, h2] at this
      simp only [slotView, Option.map_some, Option.some.injEq, bufView, Prod.mk.injEq] at this
      simp only [this.2.1]

/-! ### `bufs_modified` without autowrite -/

theorem bufsModified_cases (ed ed' : Ed) (idx : Nat) (msg : Option Bytes) (r : Bool) (haw : ed.xaw = 0)
    (h : bufsModified ed idx msg = some (r, ed')) :
    (ed.bufs.getD idx none = none ∧ r = false ∧ ed' = ed) ∨
    (∃ b, ed.bufs.getD idx none = some b ∧ (modified b.lb).1 = false ∧ r = false ∧ ed' = bumpAt ed idx b) ∨
    (∃ b, ed.bufs.getD idx none = some b ∧ (modified b.lb).1 = true ∧ r = true ∧
      ed' = showOpt (bumpAt ed idx b) msg) := by
  cases hb : ed.bufs.getD idx none with
  | none =>
    left
    unfold bufsModified at h
    simp only [hb] at h
    cases h
    exact ⟨rfl, rfl, rfl⟩
  | some b =>
    right
    cases hd : (modified b.lb).1 with
    | false =>
      left
      rw [guard_passes_at ed idx b msg hb hd] at h
      cases h
      exact ⟨b, rfl, hd, rfl, rfl⟩
    | true =>
      right
      rw [guard_refuses_at ed idx b msg hb hd haw] at h
      cases h
      exact ⟨b, rfl, hd, rfl, rfl⟩

theorem bufsModified_sameTable (ed ed' : Ed) (idx : Nat) (msg : Option Bytes) (r : Bool) (haw : ed.xaw = 0)
    (h : bufsModified ed idx msg = some (r, ed')) : SameTable ed ed' := by
  rcases bufsModified_cases ed ed' idx msg r haw h with ⟨_, _, rfl⟩ | ⟨b, hb, _, _, rfl⟩ | ⟨b, hb, _, _, rfl⟩
  · exact SameTable.refl _
  · exact sameTable_bumpAt ed idx b hb
  · exact (sameTable_bumpAt ed idx b hb).trans (sameTable_showOpt _ _)

/-- when `bufs_modified(idx)` lets the caller go on, slot `idx` of the old table shows no dirty buffer -/
theorem bufsModified_false (ed ed' : Ed) (idx : Nat) (msg : Option Bytes) (haw : ed.xaw = 0)
    (h : bufsModified ed idx msg = some (false, ed')) (v : Int × Bytes × List Bytes × Bool)
    (hv : slotView (ed.bufs.getD idx none) = some v) : v.2.2.2 = false := by
  rcases bufsModified_cases ed ed' idx msg false haw h with ⟨hb, _, _⟩ | ⟨b, hb, hd, _, _⟩ | ⟨b, _, _, hr, _⟩
  · rw [hb] at hv; cases hv
  · rw [hb] at hv
    simp only [slotView, Option.map_some, Option.some.injEq] at hv
    rw [← hv]; exact hd
  · cases hr

/-! ### `ex_pathexpand` -/

theorem pathExpand_cases (ed ed' : Ed) (src : Bytes) (sp : Bool) (r : Option Bytes)
    (h : pathExpand ed src sp = some (r, ed')) : ed' = ed ∨ ∃ m, ed' = ed.show m := by
  unfold pathExpand at h
  repeat' split at h
  all_goals (try cases h)
  all_goals first | exact Or.inl rfl | exact Or.inr ⟨_, rfl⟩

theorem pathExpand_sameTable (ed ed' : Ed) (src : Bytes) (sp : Bool) (r : Option Bytes)
    (h : pathExpand ed src sp = some (r, ed')) : SameTable ed ed' := by
  rcases pathExpand_cases ed ed' src sp r h with rfl | ⟨m, rfl⟩
  · exact SameTable.refl _
  · exact sameTable_show _ _

/-! ### the guards of `ec_edit` -/

theorem editGuard_sameTable (ed ed' : Ed) (cmd : Bytes) (r : Bool) (haw : ed.xaw = 0)
    (h : C20.editGuard ed cmd = some (r, ed')) : SameTable ed ed' := by
  unfold C20.editGuard at h
  split at h
  · exact bufsModified_sameTable _ _ _ _ _ haw h
  · cases h; exact SameTable.refl _

theorem editGuard2_sameTable (ed ed' : Ed) (path : Bytes) (r : Bool) (haw : ed.xaw = 0)
    (h : editGuard2 ed path = some (r, ed')) : SameTable ed ed' := by
  unfold editGuard2 at h
  split at h
  · exact bufsModified_sameTable _ _ _ _ _ haw h
  · cases h; exact SameTable.refl _

/-! ### some slot shows the view -/

abbrev View := Int × Bytes × List Bytes × Bool

def Held (ed : Ed) (v : View) : Prop := some v ∈ ed.bufs.map slotView

def HeldTail (ed : Ed) (v : View) : Prop := some v ∈ (ed.bufs.drop 1).map slotView

theorem mem_of_getD_view (l : List (Option Buf)) (k : Nat) (v : View) (h : slotView (l.getD k none) = some v) :
    some v ∈ l.map slotView := by
  obtain ⟨b, hb, hv⟩ := slotView_some h
  have := (C20.mem_of_getD _ _ _ hb).1
  exact List.mem_map.2 ⟨some b, this, by simp [slotView, hv]⟩

theorem getD_of_mem_view (l : List (Option Buf)) (v : View) (h : some v ∈ l.map slotView) :
    ∃ k, k < l.length ∧ slotView (l.getD k none) = some v := by
  obtain ⟨x, hx, hxv⟩ := List.mem_map.1 h
  obtain ⟨k, hk, hget⟩ := List.getElem_of_mem hx
  refine ⟨k, hk, ?_⟩
  rw [List.getD_eq_getElem?_getD, List.getElem?_eq_getElem hk, hget]
  exact hxv

theorem held_of_getD {ed : Ed} {k : Nat} {v : View} (h : slotView (ed.bufs.getD k none) = some v) : Held ed v :=
  mem_of_getD_view _ _ _ h

theorem Held.getD {ed : Ed} {v : View} (h : Held ed v) : ∃ k, slotView (ed.bufs.getD k none) = some v := by
  obtain ⟨k, _, hk⟩ := getD_of_mem_view _ _ h
  exact ⟨k, hk⟩

theorem getD_drop_one (l : List (Option Buf)) (j : Nat) : (l.drop 1).getD j none = l.getD (j + 1) none := by
  simp only [List.getD_eq_getElem?_getD, List.getElem?_drop]
  rw [Nat.add_comm]

theorem heldTail_of_getD {ed : Ed} {k : Nat} {v : View} (hk : 0 < k)
    (h : slotView (ed.bufs.getD k none) = some v) : HeldTail ed v := by
  cases k with
  | zero => omega
  | succ j =>
    rw [← getD_drop_one] at h
    exact mem_of_getD_view _ _ _ h

theorem HeldTail.getD {ed : Ed} {v : View} (h : HeldTail ed v) :
    ∃ k, 0 < k ∧ slotView (ed.bufs.getD k none) = some v := by
  obtain ⟨j, _, hj⟩ := getD_of_mem_view _ _ h
  rw [getD_drop_one] at hj
  exact ⟨j + 1, by omega, hj⟩

theorem HeldTail.held {ed : Ed} {v : View} (h : HeldTail ed v) : Held ed v := by
  obtain ⟨k, _, hk⟩ := h.getD
  exact held_of_getD hk

theorem SameTable.held {ed ed' : Ed} {v : View} (h : SameTable ed ed') (hv : Held ed v) : Held ed' v := by
  obtain ⟨k, hk⟩ := hv.getD
  exact held_of_getD ((h.slots k).trans hk)

theorem SameTable.heldTail {ed ed' : Ed} {v : View} (h : SameTable ed ed') (hv : HeldTail ed v) : HeldTail ed' v := by
  obtain ⟨k, h0, hk⟩ := hv.getD
  exact heldTail_of_getD h0 ((h.slots k).trans hk)

theorem heldTail_of_drop {ed ed' : Ed} {v : View} (h : ed'.bufs.drop 1 = ed.bufs.drop 1) (hv : HeldTail ed v) :
    HeldTail ed' v := by
  unfold HeldTail; rw [h]; exact hv

/-! ### `bufs_switch` -/

theorem leftBufs_view (ed : Ed) (k : Nat) :
    slotView ((C20.leftBufs ed).getD k none) = slotView (ed.bufs.getD k none) := by
  cases k with
  | zero =>
    cases h0 : ed.bufs.getD 0 none with
    | none => rw [C20.leftBufs_zero_none ed h0]
    | some b0 => rw [C20.leftBufs_zero ed b0 h0]; rfl
  | succ j => rw [C20.leftBufs_getD ed (j + 1) (by omega)]

theorem mem_rotate {α} (L : List (Option α)) (idx : Nat) (x : Option α) (h : x ∈ L) :
    x ∈ [L.getD idx none] ++ L.take idx ++ L.drop (idx + 1) := by
  rw [← List.take_append_drop idx L] at h
  simp only [List.mem_append, List.mem_singleton] at h ⊢
  rcases h with h | h
  · exact Or.inl (Or.inr h)
  · by_cases hi : idx < L.length
    · rw [List.drop_eq_getElem_cons hi] at h
      rcases List.mem_cons.1 h with h | h
      · left; left
        rw [h, List.getD_eq_getElem?_getD, List.getElem?_eq_getElem hi]; rfl
      · exact Or.inr h
    · rw [List.drop_eq_nil_of_le (by omega)] at h
      cases h

theorem mem_rotate_ne {α} (L : List (Option α)) (idx k : Nat) (x : Option α) (hk : k ≠ idx)
    (h : L[k]? = some x) : x ∈ L.take idx ++ L.drop (idx + 1) := by
  rw [List.mem_append]
  by_cases hlt : k < idx
  · left
    have : (L.take idx)[k]? = some x := by rw [List.getElem?_take_of_lt hlt]; exact h
    exact List.mem_of_getElem? this
  · right
    have : (L.drop (idx + 1))[k - (idx + 1)]? = some x := by
      rw [List.getElem?_drop, ← h]
      congr 1
      omega
    exact List.mem_of_getElem? this

theorem bufsSwitch_xaw (ed : Ed) (idx : Nat) : (ed.bufsSwitch idx).xaw = ed.xaw ∧ (ed.bufsSwitch idx).xwa = ed.xwa := by
  unfold Ed.bufsSwitch Ed.bufsLoad Ed.bufsSave Ed.setCur
  simp only []
  repeat' split
  all_goals exact ⟨rfl, rfl⟩

/-- a switch loses no view -/
theorem held_bufsSwitch {ed : Ed} {v : View} (idx : Nat) (h : Held ed v) : Held (ed.bufsSwitch idx) v := by
  obtain ⟨k, hk⟩ := h.getD
  unfold Held
  rw [C20.switch_rotation]
  rw [← leftBufs_view] at hk
  have hm := mem_of_getD_view _ _ _ hk
  obtain ⟨x, hx, hxv⟩ := List.mem_map.1 hm
  exact List.mem_map.2 ⟨x, mem_rotate _ idx x hx, hxv⟩

/-- after a switch to `idx`, every view of another slot is shown by a slot other than the current one -/
theorem heldTail_bufsSwitch_ne {ed : Ed} {v : View} (idx k : Nat) (hne : k ≠ idx)
    (h : slotView (ed.bufs.getD k none) = some v) : HeldTail (ed.bufsSwitch idx) v := by
  unfold HeldTail
  rw [C20.switch_rotation]
  rw [← leftBufs_view] at h
  obtain ⟨b, hb, hv⟩ := slotView_some h
  obtain ⟨_, hget⟩ := getD_some hb
  have hm := mem_rotate_ne _ idx k _ hne hget
  simp only [List.cons_append, List.nil_append, List.drop_succ_cons, List.drop_zero]
  exact List.mem_map.2 ⟨some b, hm, by simp [slotView, hv]⟩

/-! ### `bufs_open` -/

theorem bufsOpen_frame (ed : Ed) (p : Bytes) :
    (ed.bufsOpen p).2.xaw = ed.xaw ∧ (ed.bufsOpen p).2.xwa = ed.xwa ∧ (ed.bufsOpen p).2.files = ed.files :=
  ⟨rfl, rfl, rfl⟩

/-! ### the rest of `ec_edit` touches slot 0 only -/

theorem drop_one_set_zero (l : List (Option Buf)) (x : Option Buf) : (l.set 0 x).drop 1 = l.drop 1 := by
  cases l <;> rfl

theorem setCur_drop (ed : Ed) (b : Buf) : (ed.setCur b).bufs.drop 1 = ed.bufs.drop 1 :=
  drop_one_set_zero _ _

theorem setLb_drop (ed : Ed) (lb : Lb) : (ed.setLb lb).bufs.drop 1 = ed.bufs.drop 1 := by
  unfold Ed.setLb
  split
  · exact setCur_drop _ _
  · rfl

theorem editRead_drop (ed ed' : Ed) (b : Buf) (h : editRead ed b = some ed') : ed'.bufs.drop 1 = ed.bufs.drop 1 := by
  unfold editRead at h
  split at h
  · split at h
    · cases h; rfl
    · split at h
      · cases h
      · cases h
        exact setLb_drop _ _
  · cases h; rfl

theorem editFinish_drop (ed ed' : Ed) (path : Bytes) (h : editFinish ed path = some ed') :
    ed'.bufs.drop 1 = ed.bufs.drop 1 := by
  unfold editFinish at h
  split at h
  · cases h
  · split at h
    · cases h
    · rename_i ed1 hr
      have h1 := editRead_drop _ _ _ hr
      split at h
      · cases h
      · cases h
        exact (setCur_drop _ _).trans h1

end Neatvi.Lemmas.C02c
