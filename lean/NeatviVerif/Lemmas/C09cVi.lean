import NeatviVerif.Lemmas.C09cRun
/-!
# C09c, part 7: the `vi` layer — related states, related computations, a syntax-directed traversal

`Rel2 w E m m'`: from `Sim w`-related states the computations `m` and `m'` end alike — both at the end of the keys,
both trapped, or both with the same value in `Sim w`-related states; `E a b` is an *escape*: the two computations may
also end with values `a`, `b` with `E a b` (used for the motions that read the mark `^` while that mark is exempt:
both then report a motion, `mv ≠ 0`).

What a `Sim`-related pair of states shows alike is collected in the `Sim.*_eq` lemmas; `sim_reads` rewrites the
observations of the first state into those of the second.
-/
namespace Neatvi.Lemmas.C09c
open Neatvi Neatvi.Uc Neatvi.Lbuf Neatvi.Ex Neatvi.Vi Neatvi.Mot
open Neatvi.Lemmas.C09 (bind_apply pure_apply)

/-! ### related results, related computations -/

inductive RR (w : Bool) {α : Type} (E : α → α → Prop) : Res α → Res α → Prop where
  | ok (a : α) (s t : VS) (h : Sim w s t) : RR w E (Res.ok a s) (Res.ok a t)
  | esc (a b : α) (s t : VS) (h : E a b) : RR w E (Res.ok a s) (Res.ok b t)
  | eof : RR w E Res.eof Res.eof
  | trap : RR w E Res.trap Res.trap

/-- no escape -/
def NoEsc {α : Type} : α → α → Prop := fun _ _ => False

def Rel2 (w : Bool) {α : Type} (E : α → α → Prop) (m m' : M α) : Prop := ∀ s t, Sim w s t → RR w E (m s) (m' t)

theorem RR.mono {w : Bool} {α : Type} {E E' : α → α → Prop} (hE : ∀ a b, E a b → E' a b) {x y : Res α}
    (h : RR w E x y) : RR w E' x y := by
  cases h with
  | ok a s t h => exact RR.ok a s t h
  | esc a b s t h => exact RR.esc a b s t (hE a b h)
  | eof => exact RR.eof
  | trap => exact RR.trap

theorem rel2_pure {w : Bool} {α : Type} {E : α → α → Prop} (a : α) : Rel2 w E (pure a : M α) (pure a) :=
  fun s t h => RR.ok a s t h

theorem rel2_trap {w : Bool} {α : Type} {E : α → α → Prop} : Rel2 w E (Vi.trap : M α) Vi.trap := fun _ _ _ => RR.trap

theorem rel2_bind {w : Bool} {α β : Type} {E : β → β → Prop} {m m' : M α} {f f' : α → M β}
    (hm : Rel2 w NoEsc m m') (hf : ∀ a, Rel2 w E (f a) (f' a)) : Rel2 w E (m >>= f) (m' >>= f') := by
  intro s t h
  rw [bind_apply, bind_apply]
  have hr := hm s t h
  revert hr
  generalize m s = r1
  generalize m' t = r2
  intro hr
  cases hr with
  | ok a s' t' h' => exact hf a s' t' h'
  | esc a b s' t' h' => exact h'.elim
  | eof => exact RR.eof
  | trap => exact RR.trap

/-- `bind` when the first computation may escape: the continuation has to cope with escaped values -/
theorem rel2_bind_esc {w : Bool} {α β : Type} {E1 : α → α → Prop} {E : β → β → Prop} {m m' : M α} {f f' : α → M β}
    (hm : Rel2 w E1 m m') (hf : ∀ a, Rel2 w E (f a) (f' a))
    (he : ∀ a b s t, E1 a b → RR w E (f a s) (f' b t)) : Rel2 w E (m >>= f) (m' >>= f') := by
  intro s t h
  rw [bind_apply, bind_apply]
  have hr := hm s t h
  revert hr
  generalize m s = r1
  generalize m' t = r2
  intro hr
  cases hr with
  | ok a s' t' h' => exact hf a s' t' h'
  | esc a b s' t' h' => exact he a b s' t' h'
  | eof => exact RR.eof
  | trap => exact RR.trap

theorem rel2_get_bind {w : Bool} {β : Type} {E : β → β → Prop} {f f' : VS → M β}
    (hf : ∀ s t, Sim w s t → Rel2 w E (f s) (f' t)) : Rel2 w E (Vi.get >>= f) (Vi.get >>= f') :=
  fun s t h => hf s t h s t h

theorem rel2_ite {w : Bool} {α : Type} {E : α → α → Prop} {c : Prop} [Decidable c] {a a' b b' : M α}
    (ha : c → Rel2 w E a a') (hb : ¬ c → Rel2 w E b b') : Rel2 w E (if c then a else b) (if c then a' else b') := by
  split
  · exact ha ‹_›
  · exact hb ‹_›

theorem rel2_modify {w : Bool} {E : Unit → Unit → Prop} {g g' : VS → VS} (hg : ∀ s t, Sim w s t → Sim w (g s) (g' t)) :
    Rel2 w E (Vi.modify g) (Vi.modify g') := fun s t h => RR.ok () _ _ (hg s t h)

theorem rel2_withEd {w : Bool} {E : Unit → Unit → Prop} {g g' : Ed → Ed} (hg : ∀ a b, EdRel w a b → EdRel w (g a) (g' b)) :
    Rel2 w E (withEd g) (withEd g') := rel2_modify fun _ _ h => { h with ed := hg _ _ h.ed }

/-- a pure observation of the state -/
theorem rel2_reader {w : Bool} {α : Type} {E : α → α → Prop} {g g' : VS → α} (hg : ∀ s t, Sim w s t → g s = g' t) :
    Rel2 w E (fun s => Res.ok (g s) s) (fun s => Res.ok (g' s) s) := by
  intro s t h
  show RR w E (Res.ok (g s) s) (Res.ok (g' t) t)
  rw [hg s t h]
  exact RR.ok _ _ _ h

theorem rel2_liftO {w : Bool} {α : Type} {E : α → α → Prop} (o : Option α) : Rel2 w E (liftO o) (liftO o) := by
  intro s t h
  unfold liftO
  cases o with
  | none => exact RR.trap
  | some a => exact RR.ok _ _ _ h

theorem rel2_repeatM {w : Bool} {E : Unit → Unit → Prop} (n : Nat) {m : M Unit} (hm : Rel2 w NoEsc m m) :
    Rel2 w E (repeatM n m) (repeatM n m) := by
  induction n with
  | zero => exact rel2_pure _
  | succ n ih => exact rel2_bind hm fun _ => ih

/-! ### the key queue -/

theorem rel2_termRead {w : Bool} {E : Int → Int → Prop} : Rel2 w E termRead termRead := by
  intro s t h
  unfold termRead
  rw [h.ibufPos, h.ibuf, h.typed]
  simp only []
  by_cases h1 : (decide (t.ibufPos ≥ t.ibuf.length) && t.typed.isEmpty) = true
  · simp only [h1, if_true]; exact RR.eof
  · simp only [h1, Bool.false_eq_true, if_false]
    by_cases h2 : t.ibufPos ≥ t.ibuf.length
    · simp only [h2, ↓reduceIte]
      rw [h.icmd]
      exact RR.ok _ _ _ { h with ibuf := rfl, ibufPos := rfl, typed := rfl, icmd := rfl }
    · simp only [h2, ↓reduceIte]
      rw [h.icmd, h.ibuf, h.ibufPos]
      exact RR.ok _ _ _ { h with ibuf := rfl, ibufPos := rfl, icmd := rfl }

theorem rel2_viRead {w : Bool} {E : Int → Int → Prop} : Rel2 w E viRead viRead := by
  intro s t h
  unfold viRead
  rw [h.vibuf]
  cases t.vibuf with
  | nil => exact rel2_termRead s t h
  | cons c r => exact RR.ok _ _ _ { h with vibuf := rfl }

theorem rel2_viBack {w : Bool} {E : Unit → Unit → Prop} (c : Int) : Rel2 w E (viBack c) (viBack c) :=
  rel2_modify fun s t h => { h with vibuf := by show c :: s.vibuf = c :: t.vibuf; rw [h.vibuf] }

theorem rel2_termCmd {w : Bool} {E : Bytes → Bytes → Prop} : Rel2 w E termCmd termCmd := by
  intro s t h
  show RR w E (Res.ok s.icmd { s with icmd := [] }) (Res.ok t.icmd { t with icmd := [] })
  rw [h.icmd]
  exact RR.ok _ _ _ { h with icmd := rfl }

theorem rel2_termPush {w : Bool} {E : Unit → Unit → Prop} (x : Bytes) : Rel2 w E (termPush x) (termPush x) :=
  rel2_modify fun s t h => { h with ibuf := by show s.ibuf ++ _ = t.ibuf ++ _; rw [h.ibuf] }

/-! ### what related states show alike -/

section reads
variable {w : Bool} {s t : VS}

theorem Sim.lines_eq (h : Sim w s t) : lines s = lines t := by
  unfold lines
  rcases h.ed.lb_cases with ⟨r1, r2⟩ | ⟨la, lb, r1, r2, hl⟩
  · rw [r1, r2]
  · rw [r1, r2]; exact hl.lines

theorem Sim.lenOf_eq (h : Sim w s t) : lenOf s = lenOf t := by unfold lenOf; rw [h.lines_eq]
theorem Sim.lineOf_eq (h : Sim w s t) : lineOf s = lineOf t := by funext r; unfold lineOf; rw [h.lines_eq]
theorem Sim.lineE_eq (h : Sim w s t) : lineE s = lineE t := by funext r; unfold lineE; rw [h.lineOf_eq]
theorem Sim.cntOf_eq (h : Sim w s t) : cntOf s = cntOf t := by unfold cntOf; rw [h.arg1, h.arg2]
theorem Sim.renOpts_eq (h : Sim w s t) : renOpts s = renOpts t := by unfold renOpts; rw [h.ed.xtd]
theorem Sim.posTab_eq (h : Sim w s t) : posTab s = posTab t := by funext ln; unfold posTab; rw [h.renOpts_eq]
theorem Sim.off2col_eq (h : Sim w s t) : off2col s = off2col t := by
  funext r o; unfold off2col; rw [h.lineOf_eq, h.posTab_eq]
theorem Sim.col2off_eq (h : Sim w s t) : col2off s = col2off t := by
  funext r c; unfold col2off; rw [h.lineOf_eq, h.posTab_eq]
theorem Sim.noeol_eq (h : Sim w s t) : noeol s = noeol t := by funext r o; unfold noeol; rw [h.lineOf_eq]
theorem Sim.dirCtx_eq (h : Sim w s t) : dirCtx s = dirCtx t := by funext ln; unfold dirCtx; rw [h.ed.xtd]
theorem Sim.nextcol_eq (h : Sim w s t) : nextcol s = nextcol t := by
  funext d r o; unfold nextcol; rw [h.lineOf_eq, h.posTab_eq]
theorem Sim.curword_eq (h : Sim w s t) : curword s = curword t := by funext r o; unfold curword; rw [h.lineOf_eq]
theorem Sim.ledLeft_eq (h : Sim w s t) : ledLeft s = ledLeft t := by
  funext a b c d e; unfold ledLeft; rw [h.posTab_eq, h.xcols]
theorem Sim.viIndents_eq (h : Sim w s t) : viIndents s = viIndents t := by funext ln; unfold viIndents; rw [h.xai]
theorem Sim.cp_eq (h : Sim w s t) : s.ed.cp = t.ed.cp := by funext x y; exact h.ed.cp_eq x y
theorem Sim.lbufRegion_eq (h : Sim w s t) : lbufRegion s = lbufRegion t := by
  funext a b c d; unfold lbufRegion; rw [h.lineE_eq, h.cp_eq]
theorem Sim.regGet_eq (h : Sim w s t) : regGet s.ed = regGet t.ed := by funext c; exact h.ed.regGet_eq c
theorem Sim.regGetLn_eq (h : Sim w s t) : regGetLn s.ed = regGetLn t.ed := by
  funext c; unfold regGetLn; rw [h.regGet_eq, h.ed.regs]
theorem Sim.xrow (h : Sim w s t) : s.ed.xrow = t.ed.xrow := h.ed.xrow
theorem Sim.xoff (h : Sim w s t) : s.ed.xoff = t.ed.xoff := h.ed.xoff
theorem Sim.xtop (h : Sim w s t) : s.ed.xtop = t.ed.xtop := h.ed.xtop
theorem Sim.xleft (h : Sim w s t) : s.ed.xleft = t.ed.xleft := h.ed.xleft
theorem Sim.xquit (h : Sim w s t) : s.ed.xquit = t.ed.xquit := h.ed.xquit
theorem Sim.xkwd (h : Sim w s t) : s.ed.xkwd = t.ed.xkwd := h.ed.xkwd
theorem Sim.xkwddir (h : Sim w s t) : s.ed.xkwddir = t.ed.xkwddir := h.ed.xkwddir
theorem Sim.xic (h : Sim w s t) : s.ed.xic = t.ed.xic := h.ed.xic
theorem Sim.out (h : Sim w s t) : s.ed.out = t.ed.out := h.ed.out

theorem Sim.viSearch_rep_eq (h : Sim w s t) (cmd : Nat) (cnt : Int) (kwd : Bytes) (dir : Int) :
    viSearch.rep cmd cnt s kwd dir = viSearch.rep cmd cnt t kwd dir := by
  funext f
  induction f with
  | zero => funext r o i; rfl
  | succ f ih =>
    funext r o i
    unfold viSearch.rep
    simp only [h.lines_eq, h.xic, ih]

theorem Sim.vcJoin_go_eq (h : Sim w s t) (beg e : Int) : vcJoin.go s beg e = vcJoin.go t beg e := by
  funext f
  induction f with
  | zero => funext i sb off; rfl
  | succ f ih =>
    funext i sb off
    unfold vcJoin.go
    simp only [h.lineE_eq, ih]

/-- the marks (only when the mark `^` is not exempt) -/
theorem Sim.jump_eq (h : Sim false s t) (c : Nat) :
    s.ed.lb.bind (fun lb => jump lb c) = t.ed.lb.bind (fun lb => jump lb c) := h.ed.jump_eq c

end reads

/-- rewrite what the first state shows into what the second shows -/
macro "sim_reads " h:term : tactic => `(tactic| (try simp only [Sim.lines_eq $h, Sim.lenOf_eq $h, Sim.lineOf_eq $h,
  Sim.lineE_eq $h, Sim.cntOf_eq $h, Sim.renOpts_eq $h, Sim.posTab_eq $h, Sim.off2col_eq $h, Sim.col2off_eq $h,
  Sim.noeol_eq $h, Sim.dirCtx_eq $h, Sim.nextcol_eq $h, Sim.curword_eq $h, Sim.ledLeft_eq $h, Sim.viIndents_eq $h,
  Sim.cp_eq $h, Sim.lbufRegion_eq $h, Sim.regGet_eq $h, Sim.regGetLn_eq $h, Sim.xrow $h, Sim.xoff $h, Sim.xtop $h,
  Sim.xleft $h, Sim.xquit $h, Sim.xkwd $h, Sim.xkwddir $h, Sim.xic $h, Sim.out $h, Sim.viSearch_rep_eq $h,
  Sim.vcJoin_go_eq $h, Sim.arg1 $h, Sim.arg2 $h, Sim.ybuf $h, Sim.xcol $h, Sim.pcol $h, Sim.charlast $h,
  Sim.charcmd $h, Sim.soset $h, Sim.so $h, Sim.scroll $h, Sim.xrows $h, Sim.xcols $h, Sim.xai $h, Sim.xkmap $h,
  Sim.exKmap $h, Sim.xkmapAlt $h, Sim.repCmd $h, Sim.execReg $h]))

/-- close one field of `Sim w (g s) (g t)` -/
macro "sim_field " h:term : tactic => `(tactic| first
  | with_reducible exact (Sim.ed $h :) | with_reducible exact (Sim.typed $h :) | with_reducible exact (Sim.ibuf $h :) | with_reducible exact (Sim.ibufPos $h :) | with_reducible exact (Sim.icmd $h :)
  | with_reducible exact (Sim.vibuf $h :) | with_reducible exact (Sim.xcol $h :) | with_reducible exact (Sim.arg1 $h :) | with_reducible exact (Sim.arg2 $h :) | with_reducible exact (Sim.ybuf $h :)
  | with_reducible exact (Sim.charlast $h :) | with_reducible exact (Sim.charcmd $h :) | with_reducible exact (Sim.pcol $h :) | with_reducible exact (Sim.soset $h :) | with_reducible exact (Sim.so $h :)
  | with_reducible exact (Sim.scroll $h :) | with_reducible exact (Sim.repCmd $h :) | with_reducible exact (Sim.execReg $h :) | with_reducible exact (Sim.msg $h :) | with_reducible exact (Sim.xrows $h :)
  | with_reducible exact (Sim.xcols $h :) | with_reducible exact (Sim.xai $h :) | with_reducible exact (Sim.xkmap $h :) | with_reducible exact (Sim.exKmap $h :) | with_reducible exact (Sim.xkmapAlt $h :)
  | with_reducible exact (Sim.unmodelled $h :) | with_reducible rfl | (sim_reads $h; done) | rfl)

/-- `Sim w (g s) (g' t)` for an update `g` of fields other than `ed` -/
macro "sim_upd" : tactic => `(tactic| (intro s t h; constructor <;> sim_field h))

theorem rel2_setMsg {w : Bool} {E : Unit → Unit → Prop} (m : Bytes) : Rel2 w E (setMsg m) (setMsg m) :=
  rel2_modify (by sim_upd)

theorem rel2_unmodelled {w : Bool} {E : Unit → Unit → Prop} : Rel2 w E Vi.unmodelled Vi.unmodelled :=
  rel2_modify (by sim_upd)

/-! ### updates of `ed` -/

theorem rel2_setPos {w : Bool} {E : Unit → Unit → Prop} (r o : Int) : Rel2 w E (setPos r o) (setPos r o) :=
  rel2_withEd fun _ _ h => { h with xrow := rfl, xoff := rfl }
theorem rel2_setRow {w : Bool} {E : Unit → Unit → Prop} (r : Int) : Rel2 w E (setRow r) (setRow r) :=
  rel2_withEd fun _ _ h => { h with xrow := rfl }
theorem rel2_setOff {w : Bool} {E : Unit → Unit → Prop} (o : Int) : Rel2 w E (setOff o) (setOff o) :=
  rel2_withEd fun _ _ h => { h with xoff := rfl }
theorem rel2_setTop {w : Bool} {E : Unit → Unit → Prop} (x : Int) : Rel2 w E (setTop x) (setTop x) :=
  rel2_withEd fun _ _ h => { h with xtop := rfl }
theorem rel2_markSet {w : Bool} {E : Unit → Unit → Prop} (c : Nat) (r o : Int) : Rel2 w E (markSet c r o) (markSet c r o) :=
  rel2_withEd fun _ _ h => markCur_rel h c r o
theorem rel2_regPut {w : Bool} {E : Unit → Unit → Prop} (c : Nat) (x : Bytes) (ln : Nat) :
    Rel2 w E (regPut c x ln) (regPut c x ln) :=
  rel2_withEd fun a b h => { h with regs := by show a.regs.put c x ln = b.regs.put c x ln; rw [h.regs] }

theorem rel2_lbufModified {w : Bool} {E : Unit → Unit → Prop} : Rel2 w E lbufModified lbufModified :=
  rel2_withEd fun a b h => by
    rcases h.lb_cases with ⟨r1, r2⟩ | ⟨la, lb, r1, r2, hl⟩
    · rw [r1, r2]; exact h
    · rw [r1, r2]; exact setLb_rel h (modified_rel hl).2

theorem rel2_viNextline {w : Bool} {E : Unit → Unit → Prop} : Rel2 w E viNextline viNextline :=
  rel2_withEd fun a b h => by
    rw [h.xrow, h.xtop]
    split
    · exact { h with xrow := rfl, xtop := rfl }
    · exact { h with xrow := rfl, xtop := rfl }

theorem rel2_edEdit (E : Unit → Unit → Prop) (txt : Option Bytes) (x y : Int) :
    Rel2 false E (edEdit txt x y) (edEdit txt x y) := by
  intro s t h
  unfold edEdit
  rcases (edit_rel' h.ed txt x y).cases with ⟨r1, r2⟩ | ⟨a, b, r1, r2, hab⟩
  · rw [r1, r2]; exact RR.trap
  · rw [r1, r2]; exact RR.ok _ _ _ { h with ed := hab }

/-- close one field of `EdRel w (g a) (g b)` -/
macro "ed_field " h:term : tactic => `(tactic| first
  | with_reducible exact (EdRel.bufs $h :) | with_reducible exact (EdRel.bufsCnt $h :) | with_reducible exact (EdRel.xrow $h :) | with_reducible exact (EdRel.xoff $h :)
  | with_reducible exact (EdRel.xtop $h :) | with_reducible exact (EdRel.xleft $h :) | with_reducible exact (EdRel.xtd $h :) | with_reducible exact (EdRel.xquit $h :)
  | with_reducible exact (EdRel.xvis $h :) | with_reducible exact (EdRel.xaw $h :) | with_reducible exact (EdRel.xwa $h :) | with_reducible exact (EdRel.xic $h :)
  | with_reducible exact (EdRel.xkwd $h :) | with_reducible exact (EdRel.xrep $h :) | with_reducible exact (EdRel.xkwddir $h :) | with_reducible exact (EdRel.xgdep $h :) | with_reducible exact (EdRel.atDepth $h :)
  | with_reducible exact (EdRel.regs $h :) | with_reducible exact (EdRel.files $h :) | with_reducible exact (EdRel.clock $h :) | with_reducible exact (EdRel.faults $h :)
  | with_reducible exact (EdRel.calls $h :) | with_reducible exact (EdRel.fired $h :) | with_reducible exact (EdRel.input $h :) | with_reducible exact (EdRel.out $h :)
  | with_reducible exact (EdRel.msg $h :) | with_reducible exact (EdRel.pipes $h :) | with_reducible exact (EdRel.unmodelled $h :) | with_reducible rfl
  | (simp only [EdRel.xrow $h, EdRel.xoff $h, EdRel.xtop $h, EdRel.xleft $h, EdRel.regs $h, EdRel.xtd $h]; done) | rfl)

/-- `EdRel w (g a) (g b)` for an update `g` of fields other than the buffer table -/
macro "ed_upd" : tactic => `(tactic| (intro a b h; first | with_reducible exact kwdSet_rel h _ _ | (constructor <;> ed_field h)))

/-! ### the traversal -/

syntax "rel_step" : tactic
macro_rules | `(tactic| rel_step) => `(tactic| first
  | with_reducible exact rel2_termRead
  | with_reducible exact rel2_viRead
  | with_reducible exact rel2_termCmd
  | with_reducible exact rel2_viBack _
  | with_reducible exact rel2_termPush _
  | with_reducible exact rel2_pure _
  | with_reducible exact rel2_trap
  | with_reducible exact rel2_setMsg _
  | with_reducible exact rel2_unmodelled
  | with_reducible exact rel2_setPos _ _
  | with_reducible exact rel2_setRow _
  | with_reducible exact rel2_setOff _
  | with_reducible exact rel2_setTop _
  | with_reducible exact rel2_markSet _ _ _
  | with_reducible exact rel2_regPut _ _ _
  | with_reducible exact rel2_lbufModified
  | with_reducible exact rel2_viNextline
  | with_reducible exact rel2_liftO _
  | with_reducible exact rel2_edEdit _ _ _ _
  | (with_reducible refine rel2_repeatM _ ?_)
  | ((with_reducible refine rel2_withEd ?_); ed_upd)
  | ((with_reducible refine rel2_modify ?_); sim_upd)
  | with_reducible assumption
  | ((with_reducible refine rel2_get_bind ?_); intro s t h; sim_reads h)
  | with_reducible refine rel2_bind ?_ (fun _ => ?_)
  | with_reducible refine rel2_ite (fun _ => ?_) (fun _ => ?_)
  | ((with_reducible refine rel2_reader ?_); intro s t h; sim_reads h)
  | dsimp only
  | (show Rel2 _ _ _ _; split))

macro "rel_tac" : tactic => `(tactic| repeat' rel_step)

end Neatvi.Lemmas.C09c
