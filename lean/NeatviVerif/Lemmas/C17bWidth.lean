import NeatviVerif.Lemmas.Ren
import NeatviVerif.Lemmas.C07Ren
/-! Helper lemmas for C17b, for arbitrary byte strings (not only valid UTF-8): every display cell
`ren_cwid` computes is at least one column wide, and `uc_chop` lists `uc_slen` characters. -/
namespace Neatvi.Lemmas.C17b
open Neatvi Neatvi.Uc Neatvi.Ren

private theorem ph_wid_pos : Gen.placeholders.all (fun p => decide (1 ≤ p.2.2)) = true := by decide +kernel

theorem renPlaceholder_cases (s : Bytes) :
    (∃ p, p ∈ Gen.placeholders ∧ renPlaceholder s = some (p.2.1, p.2.2)) ∨
    (renPlaceholder s = if ucIsBell s == some true then some ([0xef, 0xbf, 0xbd], 1) else none) := by
  unfold renPlaceholder
  simp only []
  generalize hh : (if Bytes.hd s &&& phBits == phBits then
      Gen.placeholders.find? (fun p => Bytes.hd p.1 == Bytes.hd s && ucCode p.1 == ucCode s)
    else none) = hit
  cases hit with
  | none => right; rfl
  | some p =>
    left
    refine ⟨p, ?_, rfl⟩
    split at hh
    · exact List.mem_of_find?_eq_some hh
    · cases hh

/-- the "printable ASCII, blank, tab, newline" test of `uc_isbell` on a first byte -/
def plainB (b : Nat) : Bool := b == 32 || b == 9 || b == 10 || (b ≥ 0x20 && b < 0x7f)

theorem ucCode_plain (s : Bytes) (h : plainB (Bytes.hd s) = true) : ucCode s = some (Bytes.hd s) := by
  have hlt : Bytes.hd s < 0x7f := by
    unfold plainB at h
    simp only [Bool.or_eq_true, Bool.and_eq_true, beq_iff_eq, decide_eq_true_eq] at h
    omega
  have hand : Bytes.hd s &&& 0xc0 ≤ Bytes.hd s := Nat.and_le_left
  unfold ucCode
  simp only []
  rw [if_pos]
  simp only [bne_iff_ne, ne_eq]
  omega

/-- every display cell is at least one column wide, for any bytes: a zero-width code point is
    drawn as the width-1 "bell" placeholder -/
theorem renCwid_pos (s : Bytes) (col : Nat) : 1 ≤ renCwid s col := by
  unfold renCwid
  split
  · have : col &&& 7 = col % 8 := Nat.and_two_pow_sub_one_eq_mod col 3
    omega
  · rcases renPlaceholder_cases s with ⟨p, hp, he⟩ | he
    · rw [he]
      simp only []
      have := List.all_eq_true.mp ph_wid_pos p hp
      simpa using this
    · rw [he]
      by_cases hb : (ucIsBell s == some true) = true
      · rw [if_pos hb]; exact Nat.le_refl 1
      · rw [if_neg hb]
        simp only []
        unfold ucWid
        cases hc : ucCode s with
        | none => simp
        | some c =>
          simp only [Option.map_some, Option.getD_some]
          unfold ucWidC
          by_cases hz : ucIsZw c = true
          · exfalso
            apply hb
            unfold ucIsBell
            simp only []
            by_cases hpl : plainB (Bytes.hd s) = true
            · have := ucCode_plain s hpl
              rw [hc] at this
              have hc' : c = Bytes.hd s := Option.some.inj this
              have hlt : Bytes.hd s < 0x7f := by
                unfold plainB at hpl
                simp only [Bool.or_eq_true, Bool.and_eq_true, beq_iff_eq, decide_eq_true_eq] at hpl
                omega
              unfold ucIsZw at hz
              simp only [Bool.and_eq_true, decide_eq_true_eq] at hz
              omega
            · unfold plainB at hpl
              rw [if_neg hpl, hc]
              simp only [Option.map_some]
              unfold ucIsBellC
              rw [if_neg hpl, hz]
              simp
          · rw [if_neg hz]
            split <;> omega

/-! ### `uc_chop` lists `uc_slen` characters -/

theorem chopF_length (f : Nat) (s : Bytes) (hz : 0 ∉ s) (base : Nat) :
    (ucChopF f s base).length = ucSlenF f s + 1 := by
  induction f generalizing s base with
  | zero => simp [ucChopF, ucSlenF]
  | succ f ih =>
    unfold ucChopF ucSlenF
    by_cases h0 : (Bytes.hd s == 0) = true
    · rw [if_pos h0, if_pos h0]; rfl
    · rw [if_neg h0, if_neg h0, List.length_cons, Lemmas.C07.drop_next_eq s hz]
      rw [ih _ (fun hm => hz (List.mem_of_mem_drop hm))]

/-- on a NUL-free string, `uc_chop` yields `uc_slen` characters -/
theorem chrs_length (s : Bytes) (hz : 0 ∉ s) : (chrs s).length = ucSlen s := by
  unfold chrs ucChop ucSlen
  rw [List.length_map, List.length_dropLast, chopF_length _ s hz]
  omega

end Neatvi.Lemmas.C17b
