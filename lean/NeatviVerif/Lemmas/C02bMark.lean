import NeatviVerif.Lemmas.C02bLb
/-!
# C02b lemmas, part 2: the saved position, at any point of a command; the buffers the lbuf API can build

`LbInvG lb d`: the history invariant `HInv` plus Part A's `MarkInv` with ghost file text `d`.
`LbReach lb d`: `lb` was built from `lbuf_make()` by calls of the lbuf API (in ANY order), and `d` is
the text the buffer had at the most recent `lbuf_saved` among them (`none` after `lbuf_unsaved`).
-/
namespace Neatvi.Lemmas.C02b
open Neatvi Neatvi.Lbuf Neatvi.Spec Neatvi.Lemmas.Hist Neatvi.Props.C01 Neatvi.Props.C04 Neatvi.Lemmas.C02

/-- the group on top (carrying the current sequence number) grows -/
theorem markInv_grow {T0 lb d m} (P : List Group) (es es' : List Entry)
    (h : MarkInv T0 lb (P ++ [(lb.useq, es)]) d m) : MarkInv T0 lb (P ++ [(lb.useq, es')]) d m where
  last := by
    intro g hg
    simp only [List.mem_append, List.mem_singleton] at hg
    rcases hg with hg | rfl
    · exact h.last g (by simp [hg])
    · exact h.lastlt
  lastlt := h.lastlt
  zerolt := h.zerolt
  uns := h.uns
  mark := by
    intro k hk
    obtain ⟨hu, A, B, hAB, hlen, hz, hd⟩ := h.mark k hk
    refine ⟨hu, A, ?_⟩
    rcases List.append_eq_append_iff.1 hAB with ⟨C, hA, hg⟩ | ⟨C, hP, hB⟩
    · cases C with
      | nil =>
        simp only [List.append_nil] at hA
        exact ⟨[(lb.useq, es')], by rw [hA], hlen, hz, hd⟩
      | cons c C' =>
        exfalso
        have hc : c = (lb.useq, es) ∧ C' = [] ∧ B = [] := by
          cases C' with
          | nil =>
            simp at hg
            obtain ⟨h1, h2⟩ := hg
            exact ⟨by first | exact h1 | exact h1.symm, rfl, by first | exact h2 | exact h2.symm⟩
          | cons x y => simp at hg
        obtain ⟨rfl, rfl, rfl⟩ := hc
        have : lb.useqZero = lb.useq := by rw [hz, hA]; exact lastSeq_concat _ _ _
        have := h.zerolt
        omega
    · exact ⟨C ++ [(lb.useq, es')], by rw [hP, List.append_assoc], hlen, hz, hd⟩
  lost := by
    intro hm hu
    obtain ⟨h1, h2⟩ := h.lost hm hu
    refine ⟨h1, ?_⟩
    intro g hg
    simp only [List.mem_append, List.mem_singleton] at hg
    rcases hg with hg | rfl
    · exact h2 g (by simp [hg])
    · exact h2 (lb.useq, es) (by simp)

/-- a logging `lbuf_edit` at a cursor with the groups `P` below it (all older than the current
    sequence number is NOT needed: `useq_zero < useq` is enough) and `F` above it -/
theorem markInv_trunc' {T0 lb d m} (P F : List Group) (es : List Entry) (h : MarkInv T0 lb (P ++ F) d m)
    (hs : (P ++ F).Pairwise (fun a b => a.1 < b.1)) :
    MarkInv T0 lb (P ++ [(lb.useq, es)]) d (keepMark P.length m) where
  last := by
    intro g hg
    simp only [List.mem_append, List.mem_singleton] at hg
    rcases hg with hg | rfl
    · exact h.last g (by simp [hg])
    · exact h.lastlt
  lastlt := h.lastlt
  zerolt := h.zerolt
  uns := by intro hu; rw [h.uns hu]; rfl
  mark := by
    intro k hk
    cases m with
    | none => simp [keepMark] at hk
    | some k0 =>
      by_cases hle : k0 ≤ P.length
      · simp only [keepMark, hle, if_true, Option.some.injEq] at hk
        subst hk
        obtain ⟨hu, A, B, hAB, hlen, hz, hd⟩ := h.mark k0 rfl
        subst hlen
        have hA : A = P.take A.length := by
          have := congrArg (List.take A.length) hAB
          rw [List.take_append_of_le_length hle, List.take_left] at this
          exact this.symm
        refine ⟨hu, A, P.drop A.length ++ [(lb.useq, es)], ?_, rfl, hz, hd⟩
        rw [← List.append_assoc]
        congr 1
        conv => lhs; rw [← List.take_append_drop A.length P]
        rw [← hA]
      · simp [keepMark, hle] at hk
  lost := by
    intro hm hu
    cases m with
    | none =>
      obtain ⟨h1, h2⟩ := h.lost rfl hu
      refine ⟨h1, ?_⟩
      intro g hg
      simp only [List.mem_append, List.mem_singleton] at hg
      rcases hg with hg | rfl
      · exact h2 g (by simp [hg])
      · have := h.zerolt; simp only; omega
    | some k0 =>
      by_cases hle : k0 ≤ P.length
      · simp [keepMark, hle] at hm
      · obtain ⟨_, A, B, hAB, hlen, hz, _⟩ := h.mark k0 rfl
        subst hlen
        rcases List.append_eq_append_iff.1 hAB with ⟨C, hA, hF⟩ | ⟨C, hP, _⟩
        · rcases List.eq_nil_or_concat C with rfl | ⟨C0, c, hcc⟩
          · exfalso; rw [hA] at hle; simp at hle
          · rw [List.concat_eq_append] at hcc
            subst hcc
            have hz' : lb.useqZero = c.1 := by
              rw [hz, hA, ← List.append_assoc]; exact lastSeq_concat _ _ _
            have hcF : c ∈ F := by rw [hF]; simp
            refine ⟨?_, ?_⟩
            · have := h.last c (by simp [hcF]); omega
            · intro g hg
              simp only [List.mem_append, List.mem_singleton] at hg
              rcases hg with hg | rfl
              · rw [List.pairwise_append] at hs
                have := hs.2.2 g hg c hcF
                omega
              · have := h.zerolt; simp only; omega
        · exfalso; rw [hP] at hle; simp at hle

/-- `lbuf_saved(lb, 0)` and the bump, anywhere -/
theorem markInv_saved' {T0 lb pg fg d m} (hi : HInv T0 lb pg fg) (h : MarkInv T0 lb (pg.reverse ++ fg) d m) :
    MarkInv T0 (modified (savedCore lb false)).2 (pg.reverse ++ fg) (some lb.lines) (some pg.length) := by
  have hseq := seqAt_hinv hi
  rw [savedCore_false]
  exact
    { last := h.last
      lastlt := Nat.lt_succ_of_lt h.lastlt
      zerolt := by
        show seqAt lb < lb.useq + 1
        rw [hseq]
        apply Nat.lt_succ_of_le
        apply lastSeq_le
        · intro g hg; exact hi.le g (by simp at hg; simp [hg])
        · exact Nat.le_of_lt h.lastlt
      uns := by intro hu; cases hu
      mark := by
        intro k hk
        simp only [Option.some.injEq] at hk
        subst hk
        refine ⟨rfl, pg.reverse, fg, rfl, by simp, hseq, ?_⟩
        rw [hi.lines]
      lost := by intro hm; cases hm }

theorem clean_iff_mark' {T0 lb pg fg d m} (hi : HInv T0 lb pg fg)
    (h : MarkInv T0 lb (pg.reverse ++ fg) d m) : (modified lb).1 = false ↔ m = some pg.length := by
  have hseq := seqAt_hinv hi
  rw [modified_fst]
  constructor
  · intro hcl
    simp only [Bool.or_eq_false_iff, bne_eq_false_iff_eq] at hcl
    obtain ⟨hu, hz⟩ := hcl
    rw [hseq] at hz
    cases m with
    | none =>
      exfalso
      obtain ⟨h1, h2⟩ := h.lost rfl hu
      rcases lastSeq_cases lb.useqLast pg.reverse with ⟨_, hq⟩ | ⟨A0, c, hA, hq⟩
      · rw [hq] at hz; exact h1 hz.symm
      · rw [hq] at hz
        exact h2 c (by rw [hA]; simp) hz
    | some k =>
      obtain ⟨_, A, B, hAB, hlen, hz', _⟩ := h.mark k rfl
      have hA : pg.reverse = A :=
        lastSeq_inj lb.useqLast pg.reverse fg A B hi.sorted h.last hAB (by rw [hz, hz'])
      rw [← hlen, ← hA]; simp
  · intro hm
    obtain ⟨hu, A, B, hAB, hlen, hz, _⟩ := h.mark _ hm
    have hA : pg.reverse = A := List.append_inj_left hAB (by rw [hlen]; simp)
    rw [hu, hseq, hz, hA]
    simp

theorem mark_here_text' {T0 lb pg fg d m} (hi : HInv T0 lb pg fg)
    (h : MarkInv T0 lb (pg.reverse ++ fg) d m) (hm : m = some pg.length) : d = some lb.lines := by
  obtain ⟨_, A, B, hAB, hlen, _, hd⟩ := h.mark _ hm
  have hA : pg.reverse = A := List.append_inj_left hAB (by rw [hlen]; simp)
  rw [hd, ← hA, hi.lines]

/-! ### the invariant with its ghost -/

/-- the invariant of a line buffer with ghost file text `d` -/
def LbInvG (lb : Lb) (d : Option Text) : Prop :=
  ∃ T0 pg fg m, HInv T0 lb pg fg ∧ MarkInv T0 lb (pg.reverse ++ fg) d m

theorem lbInv_make : LbInvG Lbuf.make (some []) := ⟨[], [], [], some 0, hinv_make, markInv_make⟩

/-- **clean is sound** -/
theorem LbInvG.clean_text {lb d} (h : LbInvG lb d) (hc : (modified lb).1 = false) : d = some lb.lines := by
  obtain ⟨T0, pg, fg, m, hi, hm⟩ := h
  exact mark_here_text' hi hm ((clean_iff_mark' hi hm).1 hc)

theorem LbInvG.seq_le {lb d} (h : LbInvG lb d) : ∀ e ∈ lb.hist, e.seq ≤ lb.useq := by
  obtain ⟨T0, pg, fg, m, hi, _⟩ := h
  exact hinv_seq_le hi

/-- at a command boundary this is Part A's invariant -/
theorem LbInvG.sinv {lb d} (h : LbInvG lb d) (hc : Closed lb) : ∃ r, SInv lb r d := by
  obtain ⟨T0, pg, fg, m, hi, hm⟩ := h
  exact ⟨⟨⟨pastTexts T0 pg, lb.lines, futTexts lb.lines fg, false⟩, m⟩, rfl, T0, pg, fg, inv_of_hinv hi hc, hm⟩

theorem lbInv_of_sinv {lb r d} (h : SInv lb r d) : LbInvG lb d := by
  obtain ⟨_, T0, pg, fg, hi, hm⟩ := h
  exact ⟨T0, pg, fg, r.mark, hinv_of_inv hi, hm⟩

theorem lbInv_congr {lb lb' d} (h : LbInvG lb d) (h1 : lb'.hist = lb.hist) (h2 : lb'.histU = lb.histU)
    (h3 : lb'.useq = lb.useq) (h4 : lb'.lines = lb.lines) (hf : Frame lb lb') : LbInvG lb' d := by
  obtain ⟨T0, pg, fg, m, hi, hm⟩ := h
  exact ⟨T0, pg, fg, m, hinv_congr hi h1 h2 h3 h4, markInv_congr hm hf h3⟩

theorem lbInv_bump {lb d} (h : LbInvG lb d) : LbInvG (modified lb).2 d := by
  obtain ⟨T0, pg, fg, m, hi, hm⟩ := h
  exact ⟨T0, pg, fg, m, hinv_bump hi, markInv_bump hm⟩

theorem lbInv_edit {lb d} (h : LbInvG lb d) (buf : Option Bytes) (b e : Nat) (lb' : Lb)
    (he : edit lb buf b e = some lb') : LbInvG lb' d := by
  obtain ⟨T0, pg, fg, m, hi, hm⟩ := h
  rcases hinv_edit hi buf b e lb' he with rfl | ⟨en, hu, hi'⟩
  · exact ⟨T0, pg, fg, m, hi, hm⟩
  · have hfr := edit_frame _ _ _ _ _ he
    cases pg with
    | nil =>
      have hm1 := markInv_trunc' [] fg [en] (by simpa using hm) (by simpa using hi.sorted)
      refine ⟨T0, _, [], keepMark 0 m, hi', ?_⟩
      have := markInv_congr hm1 hfr hu
      simpa [pushGroup] using this
    | cons g ps =>
      by_cases hgu : g.1 = lb.useq
      · have hfg : fg = [] := by
          cases fg with
          | nil => rfl
          | cons f fs =>
            exfalso
            have hs := hi.sorted
            rw [List.pairwise_append] at hs
            have h1 := hs.2.2 g (by simp) f (by simp)
            have h2 := hi.le f (by simp)
            omega
        subst hfg
        obtain ⟨gs, ges⟩ := g
        simp only at hgu
        subst hgu
        have hm0 : MarkInv T0 lb (ps.reverse ++ [(lb.useq, ges)]) d m := by simpa using hm
        have hm1 := markInv_grow ps.reverse ges (ges ++ [en]) hm0
        refine ⟨T0, _, [], m, hi', ?_⟩
        have := markInv_congr hm1 hfr hu
        simpa [pushGroup] using this
      · have hm1 := markInv_trunc' (g :: ps).reverse fg [en] hm hi.sorted
        refine ⟨T0, _, [], keepMark (g :: ps).reverse.length m, hi', ?_⟩
        have := markInv_congr hm1 hfr hu
        simpa [pushGroup, hgu] using this

theorem lbInv_undo {lb d} (h : LbInvG lb d) (rc : Nat) (lb' : Lb) (hu : undo lb = some (rc, lb')) :
    LbInvG lb' d := by
  obtain ⟨T0, pg, fg, m, hi, hm⟩ := h
  rcases hinv_undo hi with ⟨_, h1⟩ | ⟨g, ps, lb2, hpg, h1, hus, hi'⟩
  · rw [hu] at h1; cases h1; exact ⟨T0, pg, fg, m, hi, hm⟩
  · rw [hu] at h1; cases h1
    subst hpg
    refine ⟨T0, ps, g :: fg, m, hi', ?_⟩
    have := markInv_congr hm (undo_frame _ _ _ hu) hus
    simpa using this

theorem lbInv_redo {lb d} (h : LbInvG lb d) (rc : Nat) (lb' : Lb) (hu : redo lb = some (rc, lb')) :
    LbInvG lb' d := by
  obtain ⟨T0, pg, fg, m, hi, hm⟩ := h
  rcases hinv_redo hi with ⟨_, h1⟩ | ⟨g, fs, lb2, hfg, h1, hus, hi'⟩
  · rw [hu] at h1; cases h1; exact ⟨T0, pg, fg, m, hi, hm⟩
  · rw [hu] at h1; cases h1
    subst hfg
    refine ⟨T0, g :: pg, fs, m, hi', ?_⟩
    have := markInv_congr hm (redo_frame _ _ _ hu) hus
    simpa using this

theorem lbInv_saved {lb d} (h : LbInvG lb d) : LbInvG (modified (savedCore lb false)).2 (some lb.lines) := by
  obtain ⟨T0, pg, fg, m, hi, hm⟩ := h
  exact ⟨T0, pg, fg, some pg.length, hinv_saved hi, markInv_saved' hi hm⟩

theorem lbInv_savedClear {lb d} (h : LbInvG lb d) : LbInvG (modified (savedCore lb true)).2 (some lb.lines) := by
  obtain ⟨T0, pg, fg, m, hi, hm⟩ := h
  exact ⟨lb.lines, [], [], some 0, hinv_clear hi, markInv_clear hm⟩

theorem lbInv_partial {lb d} (h : LbInvG lb d) : LbInvG (unsavedMark lb) none := by
  obtain ⟨T0, pg, fg, m, hi, hm⟩ := h
  exact ⟨T0, pg, fg, none, hinv_congr hi rfl rfl rfl rfl, markInv_partial hm⟩

theorem lbInv_setMark {lb d} (h : LbInvG lb d) (c : Nat) (p o : Int) : LbInvG (setMark lb c p o) d :=
  lbInv_congr h (setMark_hist _ _ _ _) (setMark_histU _ _ _ _) (setMark_useq _ _ _ _) (setMark_lines _ _ _ _)
    (setMark_frame _ _ _ _)

theorem lbInv_globSet {lb d} (h : LbInvG lb d) (pos dep : Nat) : LbInvG (globSet lb pos dep) d :=
  lbInv_congr h rfl rfl rfl rfl ⟨rfl, rfl, rfl⟩

theorem lbInv_globGet {lb d} (h : LbInvG lb d) (pos dep : Nat) : LbInvG (globGet lb pos dep).2 d :=
  lbInv_congr h rfl rfl rfl rfl ⟨rfl, rfl, rfl⟩

/-! ### the buffers the lbuf API can build -/

/-- `lb` is the result of a sequence of lbuf API calls on a fresh buffer; `d` is the text at the most
    recent `lbuf_saved` (initially the empty text; `none` after `lbuf_unsaved`) -/
inductive LbReach : Lb → Option Text → Prop
  | make : LbReach Lbuf.make (some [])
  | edit {lb d} (buf : Option Bytes) (b e : Nat) {lb'} : LbReach lb d → Lbuf.edit lb buf b e = some lb' → LbReach lb' d
  | undo {lb d rc lb'} : LbReach lb d → Lbuf.undo lb = some (rc, lb') → LbReach lb' d
  | redo {lb d rc lb'} : LbReach lb d → Lbuf.redo lb = some (rc, lb') → LbReach lb' d
  | bump {lb d} : LbReach lb d → LbReach (modified lb).2 d
  | saved {lb d} : LbReach lb d → LbReach (modified (savedCore lb false)).2 (some lb.lines)
  | savedClear {lb d} : LbReach lb d → LbReach (modified (savedCore lb true)).2 (some lb.lines)
  | partialWrite {lb d} : LbReach lb d → LbReach (unsavedMark lb) none
  | setMark {lb d} (c : Nat) (p o : Int) : LbReach lb d → LbReach (Lbuf.setMark lb c p o) d
  | globSet {lb d} (pos dep : Nat) : LbReach lb d → LbReach (Lbuf.globSet lb pos dep) d
  | globGet {lb d} (pos dep : Nat) : LbReach lb d → LbReach (Lbuf.globGet lb pos dep).2 d

/-- **every buffer the API can build satisfies the invariant** -/
theorem LbReach.inv {lb d} (h : LbReach lb d) : LbInvG lb d := by
  induction h with
  | make => exact lbInv_make
  | edit buf b e _ he ih => exact lbInv_edit ih buf b e _ he
  | undo _ hu ih => exact lbInv_undo ih _ _ hu
  | redo _ hu ih => exact lbInv_redo ih _ _ hu
  | bump _ ih => exact lbInv_bump ih
  | saved _ ih => exact lbInv_saved ih
  | savedClear _ ih => exact lbInv_savedClear ih
  | partialWrite _ ih => exact lbInv_partial ih
  | setMark c p o _ ih => exact lbInv_setMark ih c p o
  | globSet pos dep _ ih => exact lbInv_globSet ih pos dep
  | globGet pos dep _ ih => exact lbInv_globGet ih pos dep

/-- `lbuf_rd` is `lbuf_edit` (or nothing) -/
theorem LbReach.rd {lb d} (h : LbReach lb d) {chunks : List Bytes} {fe : Bool} {b e rc : Nat} {lb' : Lb}
    (hr : LbufIo.rd lb chunks fe b e = some (rc, lb')) : LbReach lb' d := by
  unfold LbufIo.rd at hr
  repeat' (split at hr)
  all_goals (first | cases hr | skip)
  · exact h
  · rename_i he; exact LbReach.edit _ _ _ h he

/-- the bump after which a buffer is left (or a command ends) closes every group -/
theorem LbReach.closed_bump {lb d} (h : LbReach lb d) : Closed (modified lb).2 :=
  closed_bump_of_le h.inv.seq_le

theorem closed_make : Closed Lbuf.make := by intro e he; simp [Lbuf.make] at he

theorem closed_bump {lb : Lb} (h : Closed lb) : Closed (modified lb).2 := by
  intro e he; exact Nat.lt_succ_of_lt (h e he)

end Neatvi.Lemmas.C02b
