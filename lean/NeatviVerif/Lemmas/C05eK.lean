import NeatviVerif.Lemmas.C05eJ
import NeatviVerif.Lemmas.C05eR6
/-!
# C05e lemmas, part K: the side conditions instantiated — plain lines, lines with `:g`, all lines
-/
namespace Neatvi.Lemmas.C05e
open Neatvi Neatvi.Lbuf Neatvi.LbufIo Neatvi.Ex Neatvi.Rset Neatvi.Lemmas.C06b
open Neatvi.Lemmas.ExFrame Neatvi.Lemmas.C02Ex Neatvi.Lemmas.C02b Neatvi.Lemmas.C06

/-! ### path expansion of a text without `%`, `#`, `=` -/

theorem pathGo_len (ed : Ed) (sp : Bool) : ∀ (f : Nat) (src dst p : Bytes), (∀ c ∈ src, c ≠ 37 ∧ c ≠ 35 ∧ c ≠ 61) →
    pathExpand.go ed sp f src dst = some (some p) → p.length ≤ dst.length + src.length := by
  intro f
  induction f with
  | zero =>
    intro src dst p _ h
    rw [pathExpand.go.eq_def] at h
    cases h; omega
  | succ f ih =>
    intro src dst p hs h
    rw [pathExpand.go.eq_def] at h
    dsimp only at h
    cases src with
    | nil => cases h; simp
    | cons c r =>
      dsimp only at h
      have hc := hs c (by simp)
      have hr : ∀ x ∈ r, x ≠ 37 ∧ x ≠ 35 ∧ x ≠ 61 := fun x hx => hs x (by simp [hx])
      have hr1 : ∀ x ∈ r.drop 1, x ≠ 37 ∧ x ≠ 35 ∧ x ≠ 61 := fun x hx => hr x (List.mem_of_mem_drop hx)
      split at h
      · cases h; simp
      · rw [if_neg (by simp [hc.1, hc.2.1])] at h
        rw [if_neg (by simp [hc.2.2])] at h
        split at h
        · have := ih _ _ _ hr1 h
          simp only [List.length_append, List.length_cons, List.length_nil, List.length_drop] at this ⊢
          omega
        · have := ih _ _ _ hr h
          simp only [List.length_append, List.length_cons, List.length_nil] at this ⊢
          omega

/-- a file-name argument without `%`, `#`, `=` expands to at most its own length -/
theorem pathFits_plain (ed : Ed) (src : Bytes) (sp : Bool) (hs : ∀ c ∈ src, c ≠ 37 ∧ c ≠ 35 ∧ c ≠ 61)
    (hl : src.length < 1000) : PathFits ed src sp := by
  intro p hp
  have := pathGo_len ed sp _ _ _ _ hs hp
  simp only [List.length_nil] at this
  omega

/-! ### the three instances of the side condition -/

/-- no NUL, no `@`, no `%` `#` `=`, no `g` `v`: nothing in the line can start a `:g` or a `:@`, every path fits -/
def Plain (l : Bytes) : Prop := ∀ c ∈ l, c ≠ 0 ∧ c ≠ 64 ∧ c ≠ 37 ∧ c ≠ 35 ∧ c ≠ 61 ∧ c ≠ 103 ∧ c ≠ 118

theorem lineCond_plain : LineCond Plain 0 where
  sub := fun hs h c hc => h c (hs.subset hc)
  nul := fun l h h0 => (h 0 h0).1 rfl
  path := fun ed arg sp _ h hl => pathFits_plain ed arg sp (fun c hc => ⟨(h c hc).2.2.1, (h c hc).2.2.2.1, (h c hc).2.2.2.2.1⟩)
    (by rw [exlen_eq] at hl; omega)
  at_ := Or.inl (fun l h h64 => (h 64 h64).2.1 rfl)
  glob := Or.inl (fun l h => ⟨fun h1 => (h 103 h1).2.2.2.2.2.1 rfl, fun h1 => (h 118 h1).2.2.2.2.2.2 rfl⟩)

/-! ### flat lines: commands that start no command line of their own -/

/-- the bytes `ex_pathexpand` treats specially -/
def plainArg (arg : Bytes) : Bool := arg.all (fun c => c != 37 && c != 35 && c != 61)

theorem plainArg_iff {arg : Bytes} (h : plainArg arg = true) : ∀ c ∈ arg, c ≠ 37 ∧ c ≠ 35 ∧ c ≠ 61 := by
  intro c hc
  have := List.all_eq_true.mp h c hc
  simp only [Bool.and_eq_true, bne_iff_ne, ne_eq] at this
  exact ⟨this.1.1, this.1.2, this.2⟩

def pathHandler (hd : String) : Bool :=
  hd == "ec_edit" || hd == "ec_exec" || hd == "ec_read" || hd == "ec_write" || hd == "ec_quit"

/-- one parsed command is flat: address and argument are C strings; it is not `:@`/`:ra`, not of the `:g` family, not
    `:e +cmd`; a file-name argument holds no `%`, `#`, `=` -/
def flatCmd (p : Parsed) : Bool :=
  !p.loc.contains 0 && !p.arg.contains 0 &&
  match p.idx with
  | none => true
  | some (_, hd) =>
    hd != "ec_at" && hd != "ec_glob" && (hd != "ec_edit" || (plusOf p.arg).1.headD 0 != 43) &&
    (!pathHandler hd || plainArg p.arg)

/-- every command of the line, as `ex_exec` cuts it, is flat -/
def flatLine : Nat → Bytes → Bool
  | 0, _ => true
  | n + 1, ln => ln.isEmpty || (flatCmd (parse1 ln) && flatLine n (restOf ln))

theorem flatLine_mono : ∀ (n : Nat) (ln : Bytes), ln.length ≤ n → ∀ m, flatLine n ln = true → ln.length ≤ m → flatLine m ln = true := by
  intro n
  induction n with
  | zero =>
    intro ln hl m _ _
    have : ln = [] := by cases ln with | nil => rfl | cons _ _ => simp at hl
    subst this
    cases m <;> rfl
  | succ n ih =>
    intro ln hl m h hm
    cases m with
    | zero =>
      rfl
    | succ m =>
      rw [flatLine] at h ⊢
      by_cases hne : ln = []
      · subst hne; rfl
      · have hemp : ln.isEmpty = false := by cases ln with | nil => exact absurd rfl hne | cons _ _ => rfl
        rw [hemp, Bool.false_or, Bool.and_eq_true] at h
        rw [hemp, Bool.false_or, Bool.and_eq_true]
        have hlt := restOf_lt ln hne
        exact ⟨h.1, ih (restOf ln) (by omega) m h.2 (by omega)⟩

/-- the dispatcher on a flat command -/
theorem runCmd_flat (k : Nat) {ed : Ed} (h : Safe ed) (p : Parsed) (a : Bytes) (hd : String) (hi : p.idx = some (a, hd))
    (hf : flatCmd p = true) (hl : p.arg.length < 1000) (txt : Option Bytes) :
    Ret ed.atDepth (runCmd (k + 2) ed hd p.loc p.cmd p.arg txt) := by
  have hre := reSafe
  have hgr := reGroups
  unfold flatCmd at hf
  rw [hi] at hf
  simp only [Bool.and_eq_true, Bool.not_eq_true', Bool.or_eq_true, bne_iff_ne, ne_eq] at hf
  obtain ⟨⟨hloc', harg'⟩, ⟨⟨hnat, hnglob⟩, hplus⟩, hpath⟩ := hf
  have hloc : 0 ∉ p.loc := by intro hm; rw [List.contains_iff_mem.mpr hm] at hloc'; cases hloc'
  have harg : 0 ∉ p.arg := by intro hm; rw [List.contains_iff_mem.mpr hm] at harg'; cases harg'
  have hpf : pathHandler hd = true → ∀ sp, PathFits ed p.arg sp := by
    intro hph sp
    rcases hpath with hp | hp
    · rw [hph] at hp; cases hp
    · exact pathFits_plain ed p.arg sp (plainArg_iff hp) hl
  by_cases c1 : hd = "ec_insert"
  · subst c1; exact run_insert hre (k + 1) h _ _ _ _ hloc
  by_cases c2 : hd = "ec_print"
  · subst c2; exact run_print hre (k + 1) h _ _ _ _ hloc
  by_cases c3 : hd = "ec_null"
  · subst c3; exact run_null hre k h _ _ _ _ hloc
  by_cases c4 : hd = "ec_delete"
  · subst c4; exact run_delete hre (k + 1) h _ _ _ _ hloc
  by_cases c5 : hd = "ec_yank"
  · subst c5; exact run_yank hre (k + 1) h _ _ _ _ hloc
  by_cases c6 : hd = "ec_put"
  · subst c6; exact run_put hre (k + 1) h _ _ _ _ hloc
  by_cases c7 : hd = "ec_lnum"
  · subst c7; exact run_lnum hre (k + 1) h _ _ _ _ hloc
  by_cases c8 : hd = "ec_undo"
  · subst c8; exact run_undo (k + 1) h _ _ _ _
  by_cases c9 : hd = "ec_redo"
  · subst c9; exact run_redo (k + 1) h _ _ _ _
  by_cases c10 : hd = "ec_mark"
  · subst c10; exact run_mark hre (k + 1) h _ _ _ _ hloc
  by_cases c11 : hd = "ec_rs"
  · subst c11; exact run_rs (k + 1) h _ _ _ _
  by_cases c14 : hd = "ec_edit"
  · subst c14
    obtain ⟨hp1, hp2⟩ := plusOf_sublist p.arg
    refine run_edit k h _ _ _ _ ?_ ?_
    · rcases hpath with hp' | hp'
      · cases hp'
      · exact pathFits_plain ed _ false (fun c hc => plainArg_iff hp' c (hp2.subset hc))
          (Nat.lt_of_le_of_lt hp2.length_le hl)
    · intro hpl
      rcases hplus with hq | hq
      · exact absurd rfl hq
      · simp only [beq_iff_eq] at hpl; exact absurd hpl hq
  by_cases c15 : hd = "ec_substitute"
  · subst c15; exact run_subst hre hgr (k + 1) h _ _ _ _ hloc harg
  by_cases c16 : hd = "ec_exec"
  · subst c16; exact run_exec hre (k + 1) h _ _ _ _ hloc (hpf rfl true)
  by_cases c17 : hd = "ec_read"
  · subst c17; exact run_read hre (k + 1) h _ _ _ _ hloc (hpf rfl true)
  by_cases c18 : hd = "ec_write"
  · subst c18; exact run_write hre (k + 1) h _ _ _ _ hloc (hpf rfl true)
  by_cases c19 : hd = "ec_quit"
  · subst c19; exact run_quit hre (k + 1) h _ _ _ _ (hpf rfl true)
  by_cases c20 : hd = "ec_buffer"
  · subst c20; exact run_buffer (k + 1) h _ _ _ _
  by_cases c21 : hd = "ec_set"
  · subst c21; exact run_set (k + 1) h _ _ _ _
  by_cases c22 : hd = "ec_echo"
  · subst c22; exact run_echo (k + 1) h _ _ _ _
  rw [run_other (k + 1) ed hd (by simp [modelled, c1, c2, c3, c4, c5, c6, c7, c8, c9, c10, c11, hnat, hnglob, c14, c15, c16, c17,
    c18, c19, c20, c21, c22])]
  exact Ret.mk (h.of_bufs rfl) rfl

/-- the loop of `ex_exec` over a flat line -/
theorem cmds_flat (k d : Nat) : ∀ (g : Nat) (ed : Ed) (ln : Bytes) (ret : Int), Safe ed → ed.atDepth = d →
    ln.length < 1000 → flatLine g ln = true → Ret d (exExec.cmds (k + 2) g ed ln ret) := by
  intro g
  induction g with
  | zero => intro ed ln ret h hd _ _; rw [exExec.cmds]; exact Ret.mk h hd
  | succ g ih =>
    intro ed ln ret h hd hlen hfl
    rw [cmds_succ]
    split
    · exact Ret.mk h hd
    · rename_i hne
      rw [flatLine] at hfl
      have hemp : ln.isEmpty = false := by cases hq : ln.isEmpty <;> simp_all
      rw [hemp, Bool.false_or, Bool.and_eq_true] at hfl
      have hrs := restOf_sublist ln
      have hrest : ∀ (ed1 : Ed) (r : Int), Safe ed1 → ed1.atDepth = d → Ret d (exExec.cmds (k + 2) g ed1 (restOf ln) r) :=
        fun ed1 r h1 hd1 => ih ed1 (restOf ln) r h1 hd1 (Nat.lt_of_le_of_lt hrs.length_le hlen) hfl.2
      obtain ⟨hT, hdT⟩ := exTxt_safe h (parse1 ln).rest (abbrOf (parse1 ln).idx)
      cases hi : (parse1 ln).idx with
      | none =>
        have hro : runOne (k + 2) ed (parse1 ln) ret =
            some ((ret, (exTxt ed (parse1 ln).rest (abbrOf (parse1 ln).idx)).2.show (strOf "unknown command")),
              (exTxt ed (parse1 ln).rest (abbrOf (parse1 ln).idx)).1.2) := by
          unfold runOne; rw [hi]
        rw [hro]
        dsimp only
        rw [show (exTxt ed (parse1 ln).rest (abbrOf (parse1 ln).idx)).1.2 = restOf ln from
          exTxt_rest_indep ed {} _ _]
        exact hrest _ _ (hT.show _) (by rw [← hd]; exact hdT)
      | some ah =>
        obtain ⟨a, hh⟩ := ah
        have hal : (parse1 ln).arg.length < 1000 := Nat.lt_of_le_of_lt (parse1_arg_sublist ln).length_le hlen
        obtain ⟨r, ed1, he, h1, hd1⟩ := runCmd_flat k hT (parse1 ln) a hh hi hfl.1 hal
          (exTxt ed (parse1 ln).rest (abbrOf (parse1 ln).idx)).1.1
        have hro : runOne (k + 2) ed (parse1 ln) ret =
            some ((r, ed1), (exTxt ed (parse1 ln).rest (abbrOf (parse1 ln).idx)).1.2) := by
          unfold runOne; rw [hi]; dsimp only; rw [hi] at he; rw [he]
        rw [hro]
        dsimp only
        rw [show (exTxt ed (parse1 ln).rest (abbrOf (parse1 ln).idx)).1.2 = restOf ln from
          exTxt_rest_indep ed {} _ _]
        exact hrest _ _ h1 (by rw [hd1, hdT, hd])

/-- **a flat line never traps**: from every safe state, with every fuel `≥ 3` -/
theorem exec_flat (k : Nat) {ed : Ed} (h : Safe ed) (ln : Bytes) (hfl : flatLine (ln.length + 1) ln = true) :
    Ret ed.atDepth (exExec (k + 3) ed ln) := by
  by_cases hlong : ln.length ≥ Gen.EXLEN
  · exact exExec_long (k + 2) h hlong
  · rw [exExec, if_neg hlong]
    exact cmds_flat k ed.atDepth (ln.length + 1) ed ln 0 h rfl (by rw [exlen_eq] at hlong; omega) hfl

end Neatvi.Lemmas.C05e
