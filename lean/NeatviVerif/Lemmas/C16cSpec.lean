import NeatviVerif.Lemmas.C16cKeys
import NeatviVerif.Props.C08f
/-!
# C16c, part 12: `vc_motion` with any operator; consequences of the end-to-end specifications of C08f; keys;
  cutting at and inside characters; the witnesses of invalid UTF-8 made from valid input
-/
set_option linter.unusedSimpArgs false
set_option linter.unusedVariables false
namespace Neatvi.Lemmas.C16c
open Neatvi Neatvi.Uc Neatvi.Spec Neatvi.Lbuf Neatvi.Ex Neatvi.Mot Neatvi.Vi Neatvi.Props.C11b Neatvi.Props.C16b
open Neatvi.Lemmas.C08 (bind_apply pure_apply get_apply liftO_some liftO_none regPut_apply setPos_apply setRow_apply setOff_apply edEdit_apply)
open Neatvi.Lemmas.C08f (applyOp readMotion vcCore opRegion)

/-- **the operator dispatch of `vc_motion`** on any region: `y d ~ gu gU g~ > <` keep the state valid; `c` does
when the typed text will be valid; `!` is not modelled beyond its prompt -/
theorem applyOp_ok (cmd : Nat) (r1 o1 r2 o2 : Int) (ln : Bool) (s s' : VS) (a : Nat) (hs : VsOk s)
    (ht : cmd = 99 → TypedTextValid s) (h : applyOp cmd r1 o1 r2 o2 ln s = Res.ok a s') : VsOk s' := by
  unfold applyOp at h
  split at h
  · exact pres_viYank _ _ _ _ _ s a s' hs h
  · split at h
    · exact pres_viDelete _ _ _ _ _ s a s' hs h
    · split at h
      · rename_i hc
        exact presT_viChange _ _ _ _ _ s a s' hs (ht (by simpa using hc)) h
      · split at h
        · exact pres_viCase _ _ _ _ _ _ s a s' hs h
        · split at h
          · exact pres_viShift _ _ _ s a s' hs h
          · split at h
            · refine (?_ : Pres _) s a s' hs h
              pres_tac2
            · cases h; exact hs

/-- **`vc_motion`, any operator, any motion**: if reading the count and the motion leaves a valid state (it does
whenever the editor record is untouched — every motion but the searches `/ ?`, which store the typed pattern in
a register), the operator leaves a valid state -/
theorem vcMotion_ok (cmd : Nat) (s s' : VS) (a : Nat) (hs : VsOk s) (h : vcMotion cmd s = Res.ok a s')
    (hread : ∀ a2 sp res sm, viPrefix s = Res.ok a2 sp →
      readMotion cmd s.ed.xrow (noeol s s.ed.xrow s.ed.xoff) { sp with arg2 := a2 } = Res.ok res sm →
      VsOk sm ∧ (cmd = 99 → TypedTextValid sm)) : VsOk s' := by
  rw [Lemmas.C08f.vcMotion_apply] at h
  cases hp : viPrefix s with
  | eof => rw [hp] at h; cases h
  | trap => rw [hp] at h; cases h
  | ok a2 sp =>
    rw [hp] at h
    dsimp only at h
    have hsp : VsOk sp := pres_viPrefix s a2 sp hs hp
    split at h
    · cases h; exact hsp
    · rw [Lemmas.C08f.vcCore_apply] at h
      cases hr : readMotion cmd s.ed.xrow (noeol s s.ed.xrow s.ed.xoff) { sp with arg2 := a2 } with
      | eof => rw [hr] at h; cases h
      | trap => rw [hr] at h; cases h
      | ok res sm =>
        rw [hr] at h
        obtain ⟨k1, k2⟩ := hread a2 sp res sm hp hr
        cases res with
        | none => cases h; exact k1
        | some x =>
          obtain ⟨mv, r2, o2⟩ := x
          dsimp only at h
          split at h
          · cases h; exact k1
          · exact applyOp_ok cmd _ _ _ _ _ sm s' a k1 k2 h

/-! ## from the end-to-end specifications of `Props/C08f` -/

theorem isU8_line_of_body {body : List Nat} (h : ∀ c ∈ body, ValidCp c) : IsU8 (encStr (body ++ [10])) :=
  isU8_encStr (by
    intro c hc
    rcases List.mem_append.mp hc with h1 | h1
    · exact h c h1
    · simp at h1; subst h1; decide)

/-- a deletion inside one row (`x X D d0 dw de dfc dtc dl dh …`, `Props/C08f` §3): text and registers stay valid -/
theorem RowDeleted.valid {s sm s' : VS} {r : Int} {body : List Nat} {a b : Nat}
    (h : Props.C08f.RowDeleted s sm s' r body a b) (hb : ∀ c ∈ body, ValidCp c)
    (hl : ∀ l ∈ Vi.lines s, IsU8 l) (hr : RegsValid s.ed.regs) :
    (∀ l ∈ Vi.lines s', IsU8 l) ∧ RegsValid s'.ed.regs := by
  constructor
  · intro l hm
    rw [h.lines] at hm
    simp only [List.mem_append, List.mem_singleton] at hm
    rcases hm with (hm | hm) | hm
    · exact hl l ((List.take_sublist _ _).subset hm)
    · subst hm
      apply isU8_line_of_body
      intro c hc
      rcases List.mem_append.mp hc with h1 | h1
      · exact hb c ((List.take_sublist _ _).subset h1)
      · exact hb c ((List.drop_sublist _ _).subset h1)
    · exact hl l ((List.drop_sublist _ _).subset hm)
  · rw [h.regs]
    exact hr.put _ (isU8_encStr (fun c hc => hb c ((List.take_sublist _ _).subset ((List.drop_sublist _ _).subset hc)))) _

/-- a line-wise deletion (`dd d_ dj dk dG d+ d- …`, `Props/C08f` §2) -/
theorem LineDeleted.valid {s sm s' : VS} {lo hi : Int} (h : Props.C08f.LineDeleted s sm s' lo hi)
    (hl : ∀ l ∈ Vi.lines s, IsU8 l) (hr : RegsValid s.ed.regs) :
    (∀ l ∈ Vi.lines s', IsU8 l) ∧ RegsValid s'.ed.regs := by
  constructor
  · intro l hm
    rw [h.lines] at hm
    rcases List.mem_append.mp hm with hm | hm
    · exact hl l ((List.take_sublist _ _).subset hm)
    · exact hl l ((List.drop_sublist _ _).subset hm)
  · rw [h.regs]
    refine hr.put _ ?_ _
    unfold Lemmas.C08f.rowsText
    apply isU8_flatten
    intro l hm
    exact hl l ((List.drop_sublist _ _).subset ((List.take_sublist _ _).subset hm))


/-- a character-wise yank inside one row (`Props/C08f.yankedSpan`) -/
theorem yankedSpan_valid (s sm : VS) (body : List Nat) (a b : Nat) (hb : ∀ c ∈ body, ValidCp c)
    (hl : ∀ l ∈ Vi.lines s, IsU8 l) (hr : RegsValid s.ed.regs) :
    (∀ l ∈ Vi.lines (Props.C08f.yankedSpan s sm body a b), IsU8 l) ∧ RegsValid (Props.C08f.yankedSpan s sm body a b).ed.regs :=
  ⟨hl, hr.put _ (isU8_encStr (fun c hc => hb c ((List.take_sublist _ _).subset ((List.drop_sublist _ _).subset hc)))) _⟩

/-- a line-wise yank (`Props/C08f.yankedRows`) -/
theorem yankedRows_valid (s sm : VS) (lo hi : Int) (hl : ∀ l ∈ Vi.lines s, IsU8 l) (hr : RegsValid s.ed.regs) :
    (∀ l ∈ Vi.lines (Props.C08f.yankedRows s sm lo hi), IsU8 l) ∧ RegsValid (Props.C08f.yankedRows s sm lo hi).ed.regs := by
  refine ⟨hl, hr.put _ ?_ _⟩
  unfold Lemmas.C08f.rowsText
  apply isU8_flatten
  intro l hm
  exact hl l ((List.drop_sublist _ _).subset ((List.take_sublist _ _).subset hm))

/-! ## keys -/
open Neatvi.Lemmas.C09 (pending)
open Neatvi.Lemmas.C08e (TLine)

/-- **`i a I A o O` with typed lines**: the keys to come are lines of printable characters and tabs, each ended by
a newline, the last by ESC (default keymap) -/
theorem vcInsert_lines_ok (cmd : Nat) (s s' : VS) (a : Nat) (ls : List (List Nat)) (last : List Nat) (rest : Bytes)
    (hs : VsOk s)
    (hp : pending s = (ls.map (fun l => encStr l ++ [10])).flatten ++ encStr last ++ [27] ++ rest)
    (hpl : ∀ l ∈ last :: ls, TLine l) (hlen : ls.length < 100000) (hk : s.xkmap = 0)
    (h : vcInsert cmd s = Res.ok a s') : VsOk s' :=
  presT_vcInsert cmd s a s' hs (typedTextValid_of_lines s ls last rest hp hpl hlen hk) h

/-- **`c` on a region, with typed lines** -/
theorem viChange_lines_ok (r1 o1 r2 o2 : Int) (ln : Bool) (s s' : VS) (a : Nat) (ls : List (List Nat)) (last : List Nat)
    (rest : Bytes) (hs : VsOk s)
    (hp : pending s = (ls.map (fun l => encStr l ++ [10])).flatten ++ encStr last ++ [27] ++ rest)
    (hpl : ∀ l ∈ last :: ls, TLine l) (hlen : ls.length < 100000) (hk : s.xkmap = 0)
    (h : viChange r1 o1 r2 o2 ln s = Res.ok a s') : VsOk s' :=
  presT_viChange r1 o1 r2 o2 ln s a s' hs (typedTextValid_of_lines s ls last rest hp hpl hlen hk) h

/-- **`r` with a typed character** (a valid code point ≥ U+0020 but DEL, default keymap) -/
theorem vcReplace_typed_ok (s s' : VS) (a : Nat) (c : Nat) (rest : Bytes) (hs : VsOk s)
    (hc : ValidCp c ∧ 32 ≤ c ∧ c ≠ 127) (hp : pending s = enc c ++ rest) (hk : s.xkmap = 0)
    (h : vcReplace s = Res.ok a s') : VsOk s' := by
  obtain ⟨s1, h1, _, _⟩ := Lemmas.C08b.viChar_enc s c rest hc hp hk
  refine vcReplace_ok s s' a hs ?_ h
  intro cs s2 hv
  rw [h1] at hv
  injection hv with hv _
  injection hv with hv
  subst hv
  exact isU8_enc hc.1

/-- **`u` and `^R`** (the `lbuf_undo` / `lbuf_redo` step of the command loop) -/
theorem vi_undo_ok (s : VS) (lb lb' : Lb) (rc : Nat) (redo : Bool) (hs : VsOk s) (hlb : s.ed.lb = some lb)
    (h : (if redo then Lbuf.redo lb else Lbuf.undo lb) = some (rc, lb')) :
    VsOk { s with ed := s.ed.setLb lb' } := by
  apply EdOk.setLb hs
  cases redo
  · exact undo_ok (EdOk.lb hs hlb) h
  · exact redo_ok (EdOk.lb hs hlb) h

/-- **`:` from vi** (`ex_command` on the line typed at the prompt) with a line `okLine` accepts -/
theorem exCommandV_ok (ln : Bytes) (d : Nat) (s s' : VS) (rc : Int) (hs : VsOk s) (hq : okLine d ln = true)
    (h : exCommandV ln s = Res.ok rc s') : VsOk s' := by
  unfold exCommandV at h
  split at h
  · cases h; exact hs
  · dsimp only at h
    split at h
    · cases h
    · rename_i rc1 ed1 he
      cases h
      refine exCommand_ok hq ?_ he
      have h0 : EdOk { s.ed with out := [], msg := [], input := [], xvis := true } :=
        ⟨hs.bufs, hs.regs, by intro l hl; simp at hl, hs.pipes, hs.files, hs.nofault⟩
      repeat' split
      all_goals exact h0

/-! ## cutting at a character boundary, and inside a character -/

/-- **cutting a valid string inside it**: each of the two pieces is valid exactly when the cut is at a character
boundary -/
theorem cut_valid_iff {s : Bytes} (h : IsU8 s) {k : Nat} (hk : k < s.length) :
    (IsU8 (s.take k) ↔ IsBd s k) ∧ (IsU8 (s.drop k) ↔ IsBd s k) := by
  refine ⟨⟨fun ht => isBd_of_take h ht, fun hb => hb.1⟩, ⟨fun hd => ?_, fun hb => hb.2⟩⟩
  apply isBd_of_noncont h (by omega)
  have hne : s.drop k = s.getD k 0 :: s.drop (k + 1) := by
    rw [List.drop_eq_getElem_cons hk]
    simp [List.getD, List.getElem?_eq_getElem hk]
  rw [hne] at hd
  exact isU8_not_cont hd

/-- **cutting inside a multi-byte character gives two invalid pieces** -/
theorem cut_inside_invalid {s : Bytes} (h : IsU8 s) {k : Nat} (hk : k < s.length) (hnb : ¬ IsBd s k) :
    ¬ IsU8 (s.take k) ∧ ¬ IsU8 (s.drop k) :=
  ⟨fun ht => hnb ((cut_valid_iff h hk).1.mp ht), fun hd => hnb ((cut_valid_iff h hk).2.mp hd)⟩

/-- in code points: the boundaries of `encStr cs` are the byte offsets of its characters -/
theorem cut_codepoints {cs : List Nat} (hv : Valid cs) (j : Nat) :
    IsU8 ((encStr cs).take (byteOff cs j)) ∧ IsU8 ((encStr cs).drop (byteOff cs j)) := by
  by_cases hj : j ≤ cs.length
  · exact isBd_of_boundary hv ⟨j, hj, rfl⟩
  · have : cs.take j = cs := List.take_of_length_le (by omega)
    unfold byteOff
    rw [this]
    exact isBd_of_ge (isU8_encStr hv) (Nat.le_refl _)

end Neatvi.Lemmas.C16c
