import NeatviVerif.Lemmas.C08dInput
/-!
# C08 (insert mode): `vi_input` and the tails of `vc_insert` with a text of any number of lines
-/
set_option linter.unusedSimpArgs false
namespace Neatvi.Lemmas.C08d
open Neatvi Neatvi.Uc Neatvi.Vi Neatvi.Ex Neatvi.Spec Neatvi.Lemmas.C08 Neatvi.Lemmas.C08b Neatvi.Lemmas.C09

/-! ### the rows an insertion produces, as characters -/

/-- the rows (without their newlines) that replace a line when the lines `ls`, `last` are typed between
the head `hd` and the tail `tail` of that line, every continuation row starting with the auto-indent `ai`:
`hd ++ l₀`, `ai ++ l₁`, …, `ai ++ last ++ tail` -/
def rowsOf (hd ai : List Nat) (ls : List (List Nat)) (last tail : List Nat) : List (List Nat) :=
  match ls with
  | [] => [hd ++ last ++ tail]
  | l :: ls' => (hd ++ l) :: (ls'.map (fun x => ai ++ x) ++ [ai ++ last ++ tail])

/-- the rows before the last one -/
def initOf (hd ai : List Nat) (ls : List (List Nat)) : List (List Nat) :=
  match ls with
  | [] => []
  | l :: ls' => (hd ++ l) :: ls'.map (fun x => ai ++ x)

/-- what the last row starts with -/
def lastHd (hd ai : List Nat) (ls : List (List Nat)) : List Nat := if ls = [] then hd else ai

theorem rowsOf_split (hd ai : List Nat) (ls : List (List Nat)) (last tail : List Nat) :
    rowsOf hd ai ls last tail = initOf hd ai ls ++ [lastHd hd ai ls ++ last ++ tail] := by
  cases ls with
  | nil => rfl
  | cons l ls' => rfl

theorem rowsOf_length (hd ai : List Nat) (ls : List (List Nat)) (last tail : List Nat) :
    (rowsOf hd ai ls last tail).length = ls.length + 1 := by
  cases ls with
  | nil => rfl
  | cons l ls' => simp [rowsOf]

theorem flat_cont (ai x : List Nat) : ∀ (ls : List (List Nat)),
    ((ls.map (fun l => ai ++ l) ++ [ai ++ x]).map (fun r => r ++ [10])).flatten =
      ai ++ (ls.map (fun l => l ++ [10] ++ ai)).flatten ++ x ++ [10] := by
  intro ls
  induction ls with
  | nil => simp
  | cons l ls ih =>
    rw [List.map_cons, List.cons_append, List.map_cons, List.flatten_cons, ih, List.map_cons, List.flatten_cons]
    simp only [List.append_assoc]

/-- the rows, each with its newline, are the text `led_input` builds -/
theorem rowsOf_flat (hd ai : List Nat) (ls : List (List Nat)) (last tail : List Nat) :
    ((rowsOf hd ai ls last tail).map (fun r => r ++ [10])).flatten =
      hd ++ (ls.map (fun l => l ++ [10] ++ ai)).flatten ++ last ++ tail ++ [10] := by
  cases ls with
  | nil => simp [rowsOf]
  | cons l ls' =>
    have := flat_cont ai (last ++ tail) ls'
    rw [← List.append_assoc] at this
    unfold rowsOf
    rw [List.map_cons, List.flatten_cons, this, List.map_cons, List.flatten_cons]
    simp only [List.append_assoc]

theorem rowsOf_no10 (hd ai : List Nat) (ls : List (List Nat)) (last tail : List Nat)
    (h1 : 10 ∉ hd) (h2 : 10 ∉ ai) (h3 : ∀ l ∈ ls, 10 ∉ l) (h4 : 10 ∉ last) (h5 : 10 ∉ tail) :
    ∀ r ∈ rowsOf hd ai ls last tail, 10 ∉ r := by
  intro r hr
  cases ls with
  | nil =>
    simp only [rowsOf, List.mem_singleton] at hr
    subst hr
    simp only [List.mem_append, not_or]
    exact ⟨⟨h1, h4⟩, h5⟩
  | cons l ls' =>
    simp only [rowsOf, List.mem_cons, List.mem_append, List.mem_map, List.mem_singleton, List.not_mem_nil, or_false] at hr
    rcases hr with rfl | ⟨x, hx, rfl⟩ | rfl
    · simp only [List.mem_append, not_or]
      exact ⟨h1, h3 l (by simp)⟩
    · simp only [List.mem_append, not_or]
      exact ⟨h2, h3 x (by simp [hx])⟩
    · simp only [List.mem_append, not_or]
      exact ⟨⟨h2, h4⟩, h5⟩

/-! ### encoding the rows -/

theorem encStr_ten : encStr [10] = [10] := rfl

theorem encStr_flat_lines (ai : List Nat) : ∀ (ls : List (List Nat)),
    (ls.map (fun l => encStr l ++ [10] ++ encStr ai)).flatten = encStr ((ls.map (fun l => l ++ [10] ++ ai)).flatten) := by
  intro ls
  induction ls with
  | nil => rfl
  | cons l ls ih =>
    rw [List.map_cons, List.flatten_cons, ih, List.map_cons, List.flatten_cons, encStr_append, encStr_append,
      encStr_append, encStr_ten]

theorem flatten_enc_rows : ∀ (rows : List (List Nat)),
    (rows.map (fun r => encStr (r ++ [10]))).flatten = encStr ((rows.map (fun r => r ++ [10])).flatten) := by
  intro rows
  induction rows with
  | nil => rfl
  | cons r rows ih =>
    rw [List.map_cons, List.flatten_cons, ih, List.map_cons, List.flatten_cons, encStr_append, encStr_append,
      encStr_append]

/-- `lbuf` splits the encoded text back into the rows -/
theorem split_rows (rows : List (List Nat)) (h10 : ∀ r ∈ rows, 10 ∉ r) :
    Lbuf.splitLines (encStr ((rows.map (fun r => r ++ [10])).flatten)) = rows.map (fun r => encStr (r ++ [10])) := by
  rw [← flatten_enc_rows]
  apply Props.C01.split_of_join
  intro l hl
  obtain ⟨r, hr, rfl⟩ := List.mem_map.mp hl
  exact wfLine_enc (h10 r hr)

theorem nlCount_rows : ∀ (rows : List (List Nat)), (∀ r ∈ rows, 10 ∉ r) →
    nlCount (encStr ((rows.map (fun r => r ++ [10])).flatten)) = rows.length := by
  intro rows
  induction rows with
  | nil => intro _; rfl
  | cons r rows ih =>
    intro h
    rw [List.map_cons, List.flatten_cons, encStr_append, encStr_append, nlCount_append, nlCount_append,
      nlCount_encStr (h r (by simp)), ih (fun r' hr' => h r' (by simp [hr'])), encStr_ten, nlCount_ten, List.length_cons]
    omega

theorem flat_rows_end (init : List (List Nat)) :
    (init.map (fun r => r ++ [10])).flatten = [] ∨ ∃ hd, (init.map (fun r => r ++ [10])).flatten = hd ++ [10] := by
  rcases List.eq_nil_or_concat init with rfl | ⟨init', y, rfl⟩
  · exact Or.inl rfl
  · refine Or.inr ⟨(init'.map (fun r => r ++ [10])).flatten ++ y, ?_⟩
    simp only [List.concat_eq_append, List.map_append, List.flatten_append, List.map_cons, List.map_nil,
      List.flatten_cons, List.flatten_nil, List.append_nil, List.append_assoc]

/-- `charcount` on the rows: the characters of the last row before the tail -/
theorem charcount_rows (init : List (List Nat)) (x tail : List Nat) (hx : ∀ c ∈ x, ValidCp c) (ht : ∀ c ∈ tail, ValidCp c)
    (hx10 : 10 ∉ x) :
    charcount (encStr (((init ++ [x ++ tail]).map (fun r => r ++ [10])).flatten)) (encStr (tail ++ [10])) = x.length := by
  have e : ((init ++ [x ++ tail]).map (fun r => r ++ [10])).flatten =
      (init.map (fun r => r ++ [10])).flatten ++ x ++ (tail ++ [10]) := by
    simp only [List.map_append, List.flatten_append, List.map_cons, List.map_nil, List.flatten_cons, List.flatten_nil,
      List.append_nil, List.append_assoc]
  rw [e]
  rcases flat_rows_end init with h | ⟨hd, h⟩
  · rw [h, List.nil_append, encStr_append]
    exact charcount_enc hx (valid_snoc_ten ht) hx10
  · rw [h, encStr_append, encStr_append, encStr_append, encStr_ten]
    exact charcount_two hx (valid_snoc_ten ht) hx10

/-! ### `vi_input` over the typed lines -/

/-- the tail of the line after the insertion: untouched without a newline, else without its leading blanks
when `autoindent` is set (`postCp`) -/
def tailOf (s : VS) (ls : List (List Nat)) (qs' : List Nat) : List Nat := if ls = [] then qs' else postCp s qs'

theorem tailOf_sub (s : VS) (ls : List (List Nat)) (qs' : List Nat) : ∀ c ∈ tailOf s ls qs', c ∈ qs' := by
  unfold tailOf
  split
  · exact fun c hc => hc
  · exact postCp_sub s qs'

theorem postOf_enc (s : VS) (ls : List (List Nat)) (qs' : List Nat) (hqs : ∀ c ∈ qs', ValidCp c) :
    postOf s ls (encStr (qs' ++ [10])) = encStr (tailOf s ls qs' ++ [10]) := by
  unfold postOf tailOf
  split
  · rfl
  · rw [postAfterNl_enc s _ (valid_snoc_ten hqs), postCp_snoc]

theorem PlainLine.valid {l : List Nat} (h : PlainLine l) : ∀ c ∈ l, ValidCp c := fun c hc => (h.1 c hc).1
theorem PlainLine.no10 {l : List Nat} (h : PlainLine l) : 10 ∉ l := fun hc => by have := h.1 10 hc; omega
theorem PlainLine.pos {l : List Nat} (h : PlainLine l) : 0 < l.length := by
  cases l with
  | nil => exact absurd rfl h.2.1.1
  | cons c t => simp

theorem lastHd_valid (s : VS) (ps : List Nat) (ls : List (List Nat)) (hps : ∀ c ∈ ps, ValidCp c) (hps10 : 10 ∉ ps) :
    (∀ c ∈ lastHd ps (aiCp s ps) ls, ValidCp c) ∧ 10 ∉ lastHd ps (aiCp s ps) ls := by
  unfold lastHd
  split
  · exact ⟨hps, hps10⟩
  · exact aiCp_valid s ps

/-- **`vi_input` over the typed lines**: the replacement text is the rows `rowsOf`, each with its newline;
the row count is their number; the offset is that of the last typed character on the last row -/
theorem viInput_lines (ps qs' : List Nat) (s : VS) (ls : List (List Nat)) (last : List Nat) (rest : Bytes)
    (hps : ∀ c ∈ ps, ValidCp c) (hqs : ∀ c ∈ qs', ValidCp c) (hps10 : 10 ∉ ps) (hqs10 : 10 ∉ qs')
    (hp : pending s = lineKeys ls last ++ rest) (hpl : ∀ l ∈ last :: ls, PlainLine l)
    (hlen : ls.length < 100000) (hk : s.xkmap = 0) :
    ∃ s1, viInput (encStr ps) (encStr (qs' ++ [10])) s =
        Res.ok (encStr (((rowsOf ps (aiCp s ps) ls last (tailOf s ls qs')).map (fun r => r ++ [10])).flatten),
          ((ls.length + 1 : Nat) : Int), ((lastHd ps (aiCp s ps) ls).length : Int) + last.length - 1) s1 ∧
      pending s1 = rest ∧ Typed (lineKeys ls last) ls.length s s1 := by
  obtain ⟨s1, h1, h2, h3⟩ := ledInput_lines (encStr ps) (encStr (qs' ++ [10])) s ls last rest hp hpl hlen hk
  have hlast := hpl last (by simp)
  obtain ⟨hav, ha10⟩ := aiCp_valid s ps
  have htv : ∀ c ∈ tailOf s ls qs', ValidCp c := fun c hc => hqs c (tailOf_sub s ls qs' c hc)
  have hrep : encStr ps ++ (ls.map (fun l => encStr l ++ [10] ++ aiAfterNl s (encStr ps))).flatten ++ encStr last ++
      postOf s ls (encStr (qs' ++ [10])) =
      encStr (((rowsOf ps (aiCp s ps) ls last (tailOf s ls qs')).map (fun r => r ++ [10])).flatten) := by
    rw [aiAfterNl_enc s ps hps, postOf_enc s ls qs' hqs, encStr_flat_lines, rowsOf_flat]
    simp only [encStr_append, List.append_assoc]
  rw [hrep, postOf_enc s ls qs' hqs] at h1
  refine ⟨s1, ?_, h2, h3⟩
  rw [viInput_of_ledInput _ _ _ _ _ _ h1]
  obtain ⟨hlv, hl10⟩ := lastHd_valid s ps ls hps hps10
  have hcc : charcount (encStr (((rowsOf ps (aiCp s ps) ls last (tailOf s ls qs')).map (fun r => r ++ [10])).flatten))
      (encStr (tailOf s ls qs' ++ [10])) = ((lastHd ps (aiCp s ps) ls ++ last).length : Nat) := by
    rw [rowsOf_split]
    exact charcount_rows _ (lastHd ps (aiCp s ps) ls ++ last) _
      (fun c hc => by
        rcases List.mem_append.mp hc with hc | hc
        · exact hlv c hc
        · exact hlast.valid c hc) htv
      (fun h => by
        rcases List.mem_append.mp h with h | h
        · exact hl10 h
        · exact hlast.no10 h)
  have hnl : nlCount (encStr (((rowsOf ps (aiCp s ps) ls last (tailOf s ls qs')).map (fun r => r ++ [10])).flatten)) =
      ls.length + 1 := by
    rw [nlCount_rows, rowsOf_length]
    exact rowsOf_no10 _ _ _ _ _ hps10 ha10 (fun l hl => (hpl l (by simp [hl])).no10) hlast.no10
      (fun h => hqs10 (tailOf_sub s ls qs' 10 h))
  rw [hcc, hnl]
  have := hlast.pos
  rw [if_neg (by simp only [List.length_append]; omega)]
  simp only [List.length_append]
  congr 3

/-! ### the tails of `vc_insert` -/

/-- the rows as buffer lines -/
def rowLines (rows : List (List Nat)) : List Bytes := rows.map (fun r => encStr (r ++ [10]))

theorem Typed.readsEd_lb {used : Bytes} {n : Nat} {s s' : VS} (h : Typed used n s s') (L : Bytes) (k : Nat)
    (hl : (Vi.lines s)[k]? = some L) : ∃ lb, s'.ed.lb = some lb :=
  lb_of_line s' k L (by rw [h.lines]; exact hl)

/-- `insertTail` (the tail of `i a I A`) with the typed lines `ls`, `last`: the row under the cursor is
replaced by the rows `rowsOf`; the cursor goes to the last typed character on the last of them -/
theorem insertTail_lines (ps qs' : List Nat) (s : VS) (ls : List (List Nat)) (last : List Nat) (rest : Bytes) (L : Bytes)
    (hr0 : 0 ≤ s.ed.xrow) (hline : (Vi.lines s)[s.ed.xrow.toNat]? = some L)
    (hps : ∀ c ∈ ps, ValidCp c) (hqs : ∀ c ∈ qs', ValidCp c) (hps10 : 10 ∉ ps) (hqs10 : 10 ∉ qs')
    (hp : pending s = lineKeys ls last ++ rest) (hpl : ∀ l ∈ last :: ls, PlainLine l)
    (hlen : ls.length < 100000) (hk : s.xkmap = 0) :
    ∃ s', insertTail (encStr ps) (encStr (qs' ++ [10])) s = Res.ok VC_OK s' ∧ pending s' = rest ∧
      Inserted (lineKeys ls last) s s' s.ed.xrow (rowLines (rowsOf ps (aiCp s ps) ls last (tailOf s ls qs'))) 1
        (s.ed.xrow + (ls.length : Int)) (((lastHd ps (aiCp s ps) ls).length : Int) + last.length - 1) := by
  obtain ⟨s1, h1, h2, h3⟩ := viInput_lines ps qs' s ls last rest hps hqs hps10 hqs10 hp hpl hlen hk
  obtain ⟨lb, hlb⟩ := h3.readsEd_lb L _ hline
  have hrlt : s.ed.xrow.toNat < (Vi.lines s).length := (List.getElem?_eq_some_iff.mp hline).1
  have hbeg : s1.ed.xrow - ((ls.length + 1 : Nat) : Int) + 1 = s.ed.xrow := by rw [h3.xrow]; omega
  obtain ⟨ha, ha10⟩ := aiCp_valid s ps
  have hrows10 := rowsOf_no10 ps (aiCp s ps) ls last (tailOf s ls qs') hps10 ha10
    (fun l hl => (hpl l (by simp [hl])).no10) (hpl last (by simp)).no10 (fun h => hqs10 (tailOf_sub s ls qs' 10 h))
  obtain ⟨ed', he1, he2, he3⟩ := edEdit_spec s1
    (encStr (((rowsOf ps (aiCp s ps) ls last (tailOf s ls qs')).map (fun r => r ++ [10])).flatten))
    s.ed.xrow (s.ed.xrow + 1) lb hlb hr0 (by omega) (by unfold lenOf; rw [h3.lines]; omega)
  refine ⟨{ s1 with ed := { ed' with xoff := ((lastHd ps (aiCp s ps) ls).length : Int) + last.length - 1 } }, ?_, h2, ?_⟩
  · unfold insertTail
    simp only [bind_apply, h1, get_apply, hbeg, he1, setOff_apply, pure_apply]
  · refine ⟨?_, ?_, rfl, ?_, ?_⟩
    · show Lemmas.C06.lines ed' = _
      rw [he2, h3.lines, split_rows _ hrows10, show (s.ed.xrow + 1).toNat = s.ed.xrow.toNat + 1 by omega]
      rfl
    · show ed'.xrow = _
      rw [he3]; exact h3.xrow
    · show ed'.regs = s.ed.regs
      rw [he3]; exact h3.regs
    · exact h3.frame.withEd _

/-- `openTail` (the tail of `o O`) with the typed lines `ls`, `last`: the rows `rowsOf` are inserted before
the row of the cursor -/
theorem openTail_lines (ind : List Nat) (s : VS) (ls : List (List Nat)) (last : List Nat) (rest : Bytes)
    (lb : Lbuf.Lb) (hlb : s.ed.lb = some lb)
    (hr0 : 0 ≤ s.ed.xrow) (hr1 : s.ed.xrow ≤ lenOf s) (hlen0 : lenOf s ≠ 0)
    (hi : ∀ c ∈ ind, ValidCp c) (hi10 : 10 ∉ ind)
    (hp : pending s = lineKeys ls last ++ rest) (hpl : ∀ l ∈ last :: ls, PlainLine l)
    (hlen : ls.length < 100000) (hk : s.xkmap = 0) :
    ∃ s', openTail (encStr ind) s = Res.ok VC_OK s' ∧ pending s' = rest ∧
      Inserted (lineKeys ls last) s s' s.ed.xrow (rowLines (rowsOf ind (aiCp s ind) ls last [])) 0
        (s.ed.xrow + (ls.length : Int)) (((lastHd ind (aiCp s ind) ls).length : Int) + last.length - 1) := by
  obtain ⟨s1, h1, h2, h3⟩ := viInput_lines ind [] s ls last rest hi (by intro c hc; simp at hc) hi10 (by simp) hp hpl hlen hk
  have htl : tailOf s ls [] = [] := by
    unfold tailOf postCp
    split
    · rfl
    · split <;> rfl
  rw [htl] at h1
  have e10 : encStr ([] ++ [10]) = [10] := rfl
  rw [e10] at h1
  have hbeg : s1.ed.xrow - ((ls.length + 1 : Nat) : Int) + 1 = s.ed.xrow := by rw [h3.xrow]; omega
  have hl1 : lenOf s1 = lenOf s := by unfold lenOf; rw [h3.lines]
  have hlb1 : s1.ed.lb = some lb := by rw [h3.lb]; exact hlb
  obtain ⟨ha, ha10⟩ := aiCp_valid s ind
  have hrows10 := rowsOf_no10 ind (aiCp s ind) ls last [] hi10 ha10
    (fun l hl => (hpl l (by simp [hl])).no10) (hpl last (by simp)).no10 (by simp)
  obtain ⟨ed', he1, he2, he3⟩ := edEdit_spec s1
    (encStr (((rowsOf ind (aiCp s ind) ls last []).map (fun r => r ++ [10])).flatten))
    s.ed.xrow s.ed.xrow lb hlb1 hr0 (Int.le_refl _) (by rw [hl1]; exact hr1)
  have hlz : (lenOf s1 == 0) = false := by rw [hl1]; simpa using hlen0
  refine ⟨{ s1 with ed := { ed' with xoff := ((lastHd ind (aiCp s ind) ls).length : Int) + last.length - 1 } }, ?_, h2, ?_⟩
  · unfold openTail
    simp only [bind_apply, h1, get_apply, hlz, Bool.false_eq_true, if_false, pure_apply, hbeg, he1, setOff_apply]
  · refine ⟨?_, ?_, rfl, ?_, ?_⟩
    · show Lemmas.C06.lines ed' = _
      rw [he2, h3.lines, split_rows _ hrows10, Nat.add_zero]
      rfl
    · show ed'.xrow = _
      rw [he3]; exact h3.xrow
    · show ed'.regs = s.ed.regs
      rw [he3]; exact h3.regs
    · exact h3.frame.withEd _

/-- `insertTail` at the character offset `off` of the line `body`, with the typed lines `ls`, `last` -/
theorem insertTail_lines_at (s : VS) (x : Int) (body : List Nat) (off : Nat) (ls : List (List Nat)) (last : List Nat)
    (rest : Bytes)
    (hr0 : 0 ≤ s.ed.xrow) (hline : (Vi.lines s)[s.ed.xrow.toNat]? = some (encStr (body ++ [10])))
    (hb : ∀ c ∈ body, ValidCp c) (hb10 : 10 ∉ body)
    (hp : pending s = lineKeys ls last ++ rest) (hpl : ∀ l ∈ last :: ls, PlainLine l)
    (hlen : ls.length < 100000) (hk : s.xkmap = 0) :
    ∃ s', insertTail (encStr (body.take off)) (encStr (body.drop off ++ [10])) { s with ed := { s.ed with xoff := x } }
        = Res.ok VC_OK s' ∧ pending s' = rest ∧
      Inserted (lineKeys ls last) s s' s.ed.xrow
        (rowLines (rowsOf (body.take off) (aiCp s (body.take off)) ls last (tailOf s ls (body.drop off)))) 1
        (s.ed.xrow + (ls.length : Int))
        (((lastHd (body.take off) (aiCp s (body.take off)) ls).length : Int) + last.length - 1) := by
  obtain ⟨s', h1, h2, h3⟩ := insertTail_lines (body.take off) (body.drop off)
    { s with ed := { s.ed with xoff := x } } ls last rest _ hr0 hline
    (fun d hd => hb d (List.mem_of_mem_take hd)) (fun d hd => hb d (List.mem_of_mem_drop hd))
    (fun h => hb10 (List.mem_of_mem_take h)) (fun h => hb10 (List.mem_of_mem_drop h)) hp hpl hlen hk
  exact ⟨s', h1, h2, h3.of_ed rfl rfl⟩

end Neatvi.Lemmas.C08d
