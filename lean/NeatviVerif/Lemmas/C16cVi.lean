import NeatviVerif.Lemmas.C16cLine
import NeatviVerif.Lemmas.C08Vi
import NeatviVerif.Lemmas.C08bCase
import NeatviVerif.Lemmas.C07Frame
/-!
# C16c, part 9: vi level — the invariant `VsOk`, computations that keep it (`Pres`), the pieces of text
  the operators cut (`lbuf_region`, `uc_sub`, the case loop)
-/
set_option linter.unusedSimpArgs false
set_option linter.unusedVariables false
namespace Neatvi.Lemmas.C16c
open Neatvi Neatvi.Uc Neatvi.Spec Neatvi.Lbuf Neatvi.Ex Neatvi.Mot Neatvi.Vi Neatvi.Props.C11b Neatvi.Props.C16b
open Neatvi.Lemmas.C08 (bind_apply pure_apply get_apply liftO_some liftO_none regPut_apply setPos_apply setRow_apply setOff_apply edEdit_apply)

/-- the invariant of the vi state: its editor record is valid (`EdOk`) -/
def VsOk (s : VS) : Prop := EdOk s.ed

instance (s : VS) : Decidable (VsOk s) := by unfold VsOk; exact inferInstance

/-! ## lines of the current buffer -/

theorem VsOk.lines {s : VS} (h : VsOk s) : ∀ l ∈ Vi.lines s, IsU8 l := by
  unfold Vi.lines
  cases hl : s.ed.lb with
  | none => intro l hl'; simp at hl'
  | some lb => exact (EdOk.lb h hl).lines

theorem VsOk.lineOf {s : VS} (h : VsOk s) {r : Int} {l : Bytes} (hl : Vi.lineOf s r = some l) : IsU8 l := by
  unfold Vi.lineOf Mot.lineAt at hl
  split at hl
  · cases hl
  · exact h.lines l (List.mem_of_getElem? hl)

theorem VsOk.lineE {s : VS} (h : VsOk s) (r : Int) : IsU8 (Vi.lineE s r) := by
  unfold Vi.lineE
  cases hl : Vi.lineOf s r with
  | none => exact isU8_nil
  | some l => exact h.lineOf hl

/-- **`lbuf_region` of a valid buffer is valid**, for all rows and offsets -/
theorem VsOk.region {s : VS} (h : VsOk s) {r1 o1 r2 o2 : Int} {x : Bytes} (hr : lbufRegion s r1 o1 r2 o2 = some x) : IsU8 x := by
  unfold lbufRegion at hr
  split at hr
  · exact subI_valid (h.lineE r1) hr
  · split at hr
    · rename_i s1 s3 h1 h3
      injection hr with hr; subst hr
      exact isU8_append (isU8_append (subI_valid (h.lineE r1) h1) (EdOk.cp h _ _)) (subI_valid (h.lineE r2) h3)
    · cases hr

/-- **the case loop (`~`, `gu`, `gU`, `g~`) on valid UTF-8**: only ASCII letters change, the result is valid -/
theorem caseMap_valid (cmd : Nat) {x : Bytes} (h : IsU8 x) : IsU8 (caseMap cmd (x.length + 1) x) := by
  obtain ⟨cs, hv, rfl⟩ := h
  rw [Lemmas.C08b.caseMap_enc cmd cs _ hv (by have := C12.length_le_encStr cs; omega)]
  exact ⟨cs.map (Lemmas.C08b.caseCp cmd), by
    intro c hc
    simp only [List.mem_map] at hc
    obtain ⟨c0, h0, rfl⟩ := hc
    exact Lemmas.C08b.caseCp_valid cmd c0 (hv c0 h0), rfl⟩

theorem viIndents_valid {s : VS} (h : VsOk s) (r : Int) : IsU8 (viIndents s (Vi.lineOf s r)) := by
  unfold viIndents
  cases hl : Vi.lineOf s r with
  | none => exact isU8_nil
  | some l =>
    simp only []
    split
    · exact isU8_takeWhile_ascii (h.lineOf hl) _ (by intro b hb; unfold isBlankC at hb; simp at hb; omega)
    · exact isU8_nil

/-! ## computations that keep the editor record valid -/

/-- a computation that returns normally from a valid state leaves a valid state -/
def Pres {α : Type} (m : M α) : Prop := ∀ s a s', VsOk s → m s = Res.ok a s' → VsOk s'

namespace Pres

theorem pure {α : Type} (a : α) : Pres (Pure.pure a : M α) := by
  intro s b s' hs h; cases h; exact hs

theorem bind {α β : Type} {m : M α} {f : α → M β} (hm : Pres m) (hf : ∀ a, Pres (f a)) : Pres (m >>= f) := by
  intro s b s' hs h
  rw [bind_apply] at h
  split at h
  · rename_i a s1 h1
    exact hf a _ _ _ (hm _ _ _ hs h1) h
  · cases h
  · cases h

theorem get : Pres Vi.get := by intro s a s' hs h; cases h; exact hs
theorem trap {α : Type} : Pres (Vi.trap : M α) := by intro s a s' _ h; cases h

/-- an update that leaves the editor record alone -/
theorem modify {f : VS → VS} (hf : ∀ s, (f s).ed = s.ed) : Pres (Vi.modify f) := by
  intro s a s' hs h; cases h; unfold VsOk; rw [hf]; exact hs

/-- an update that changes the editor record outside the fields the invariant reads -/
theorem modifyCore {f : VS → VS} (hf : ∀ s, core (f s).ed = core s.ed) : Pres (Vi.modify f) := by
  intro s a s' hs h; cases h; exact EdOk.to hs (hf _)

/-- an update of the editor record outside the fields the invariant reads -/
theorem withEd {f : Ed → Ed} (hf : ∀ ed, core (f ed) = core ed) : Pres (Vi.withEd f) := by
  intro s a s' hs h; cases h; exact EdOk.to hs (hf _)

/-- an update of the editor record that keeps it valid -/
theorem withEd' {f : Ed → Ed} (hf : ∀ ed, EdOk ed → EdOk (f ed)) : Pres (Vi.withEd f) := by
  intro s a s' hs h; cases h; exact hf _ hs

theorem ite {α : Type} {p : Prop} [Decidable p] {a b : M α} (ha : Pres a) (hb : Pres b) : Pres (if p then a else b) := by
  split <;> assumption

theorem liftO {α : Type} (o : Option α) : Pres (Vi.liftO o) := by
  intro s a s' hs h
  unfold Vi.liftO at h
  split at h
  · cases h; exact hs
  · cases h

theorem repeatM (n : Nat) {m : M Unit} (hm : Pres m) : Pres (Vi.repeatM n m) := by
  induction n with
  | zero => exact pure _
  | succ n ih => exact bind hm (fun _ => ih)

/-- a function whose result state has the same editor record -/
theorem of_ed {α : Type} {m : M α} (h : ∀ s a s', m s = Res.ok a s' → s'.ed = s.ed) : Pres m := by
  intro s a s' hs hm; unfold VsOk; rw [h s a s' hm]; exact hs

end Pres

theorem termRead_ed' (s : VS) (c : Int) (s' : VS) (h : termRead s = Res.ok c s') : s'.ed = s.ed := by
  unfold termRead at h
  simp only [] at h
  split at h
  · cases h
  · cases h
    simp only []
    split <;> rfl

theorem pres_termRead : Pres termRead := Pres.of_ed termRead_ed'
theorem pres_viRead : Pres viRead := by
  apply Pres.of_ed
  intro s a s' h
  unfold viRead at h
  split at h
  · cases h; rfl
  · exact termRead_ed' _ _ _ h
theorem pres_termCmd : Pres termCmd := Pres.of_ed (fun s a s' h => by cases h; rfl)
theorem pres_termPush (x : Bytes) : Pres (termPush x) := Pres.modify (fun _ => rfl)
theorem pres_viBack (c : Int) : Pres (viBack c) := Pres.modify (fun _ => rfl)
theorem pres_unmodelled : Pres Vi.unmodelled := Pres.modify (fun _ => rfl)
theorem pres_setMsg (m : Bytes) : Pres (setMsg m) := Pres.modify (fun _ => rfl)
theorem pres_setPos (r o : Int) : Pres (setPos r o) := Pres.withEd (fun _ => rfl)
theorem pres_setRow (r : Int) : Pres (setRow r) := Pres.withEd (fun _ => rfl)
theorem pres_setOff (o : Int) : Pres (setOff o) := Pres.withEd (fun _ => rfl)
theorem pres_setTop (t : Int) : Pres (setTop t) := Pres.withEd (fun _ => rfl)
theorem pres_markSet (c : Nat) (r o : Int) : Pres (markSet c r o) := by
  apply Pres.withEd'
  intro ed h
  exact h.updLb (fun lb => setMark lb c r o) (fun lb hl => setMark_ok hl _ _ _)
theorem pres_lbufModified : Pres lbufModified := by
  apply Pres.withEd'
  intro ed h
  exact h.updLb (fun lb => (Lbuf.modified lb).2) (fun lb hl => modified_ok hl)
theorem pres_viNextline : Pres viNextline := by
  apply Pres.withEd
  intro ed; split <;> rfl

/-- `reg_put` of a valid text -/
theorem pres_regPut (c : Nat) {txt : Bytes} (h : IsU8 txt) (ln : Nat) : Pres (regPut c txt ln) := by
  apply Pres.withEd'
  intro ed he
  exact he.withRegs (he.regs.put _ h _)

/-- `lbuf_edit` with a valid text -/
theorem pres_edEdit {txt : Option Bytes} (h : OptValid txt) (b e : Int) : Pres (edEdit txt b e) := by
  intro s a s' hs hm
  rw [edEdit_apply] at hm
  split at hm
  · rename_i ed he
    cases hm
    exact EdOk.edit hs h he
  · cases hm

/-! ### the tactic (after `Lemmas/C05cFrame.lean`) -/

/-- the table of leaves: extended by `macro_rules` after every function proved -/
syntax "pres_leaf" : tactic
macro_rules | `(tactic| pres_leaf) => `(tactic| first
  | with_reducible assumption
  | with_reducible exact Pres.pure _
  | with_reducible exact Pres.get
  | with_reducible exact Pres.trap
  | with_reducible exact pres_viRead
  | with_reducible exact pres_termRead
  | with_reducible exact pres_termCmd
  | with_reducible exact pres_viBack _
  | with_reducible exact pres_termPush _
  | with_reducible exact pres_unmodelled
  | with_reducible exact pres_setMsg _
  | with_reducible exact pres_setPos _ _
  | with_reducible exact pres_setRow _
  | with_reducible exact pres_setOff _
  | with_reducible exact pres_setTop _
  | with_reducible exact pres_markSet _ _ _
  | with_reducible exact pres_viNextline
  | with_reducible exact pres_lbufModified
  | with_reducible exact Pres.liftO _
  | (with_reducible refine Pres.withEd (fun _ => ?_)); (first | rfl | (split <;> rfl))
  | (with_reducible refine Pres.modify (fun _ => ?_)); (first | rfl | (split <;> rfl))
  | (with_reducible refine Pres.modifyCore (fun _ => ?_)); (first | rfl | (split <;> rfl)))

macro "pres_step" : tactic => `(tactic| first
  | pres_leaf
  | with_reducible refine Pres.repeatM _ ?_
  | with_reducible refine Pres.bind ?_ (fun _ => ?_)
  | with_reducible refine Pres.ite ?_ ?_
  | dsimp only
  | (show Pres _; split))

macro "pres_tac" : tactic => `(tactic| repeat' pres_step)

/-! ### reading keys, characters and lines never changes what the invariant reads -/

theorem pres_viYankbuf : Pres viYankbuf := by
  unfold viYankbuf
  pres_tac
macro_rules | `(tactic| pres_leaf) => `(tactic| with_reducible exact pres_viYankbuf)

theorem pres_digits (f : Nat) (n c : Int) : Pres (viPrefix.digits f n c) := by
  induction f generalizing n c with
  | zero => unfold viPrefix.digits; pres_tac
  | succ f ih => unfold viPrefix.digits; repeat' (first | exact ih _ _ | pres_step)

theorem pres_viPrefix : Pres viPrefix := by
  unfold viPrefix
  repeat' (first | exact pres_digits _ _ _ | pres_step)
macro_rules | `(tactic| pres_leaf) => `(tactic| with_reducible exact pres_viPrefix)

theorem pres_readKey_more (k : Nat) : Pres (readKey.more k) := by
  induction k with
  | zero => unfold readKey.more; pres_tac
  | succ k ih => unfold readKey.more; repeat' (first | exact ih | pres_step)

/-- `led_readkey()` only reads keys -/
theorem pres_readKey : Pres readKey := by
  unfold readKey
  repeat' (first | exact pres_readKey_more _ | pres_step)
macro_rules | `(tactic| pres_leaf) => `(tactic| with_reducible exact pres_readKey)

theorem pres_more (k : Nat) (acc : Bytes) : Pres (readCharS.more k acc) := by
  induction k generalizing acc with
  | zero => unfold readCharS.more; pres_tac
  | succ k ih => unfold readCharS.more; repeat' (first | exact ih _ | pres_step)

theorem pres_readCharS (c : Int) (kmap : Nat) : Pres (readCharS c kmap) := by
  unfold readCharS
  repeat' (first | exact pres_more _ _ | pres_step)
macro_rules | `(tactic| pres_leaf) => `(tactic| with_reducible exact pres_readCharS _ _)

theorem pres_viChar_go (f : Nat) : Pres (viChar.go f) := by
  induction f with
  | zero => unfold viChar.go; pres_tac
  | succ f ih => unfold viChar.go; repeat' (first | exact ih | pres_step)

theorem pres_viChar : Pres viChar := by
  unfold viChar
  exact pres_viChar_go _
macro_rules | `(tactic| pres_leaf) => `(tactic| with_reducible exact pres_viChar)

theorem pres_ledLine_go (post : Bytes) (aiMax : Nat) (im pe : Bool) (setKmap : Option Nat → M Unit)
    (getKmap : M Nat) (redraw : Bytes → Bytes → Bytes → M Unit)
    (h1 : ∀ k, Pres (setKmap k)) (h2 : Pres getKmap) (h3 : ∀ a b c, Pres (redraw a b c))
    (f : Nat) (sb ai : Bytes) (c1 : Int) :
    Pres (ledLine.go post aiMax im pe setKmap getKmap redraw f sb ai c1) := by
  induction f generalizing sb ai c1 with
  | zero => unfold ledLine.go; pres_tac
  | succ f ih =>
    unfold ledLine.go
    repeat' (first | exact h1 _ | exact h2 | exact h3 _ _ _ | exact ih _ _ _ | pres_step)

/-- **the line editor `led_line`** changes nothing the invariant reads (only key queues, keymaps, `xleft`) -/
theorem pres_ledLine (pref post ai0 : Bytes) (aiMax : Nat) (im ex : Bool) :
    Pres (ledLine pref post ai0 aiMax im ex) := by
  unfold ledLine
  dsimp only
  apply pres_ledLine_go
  · intro k
    refine Pres.modify (fun s => ?_)
    split <;> rfl
  · intro s a s' hs h
    cases h
    exact hs
  · intro a b c
    pres_tac
macro_rules | `(tactic| pres_leaf) => `(tactic| with_reducible exact pres_ledLine _ _ _ _ _ _)

theorem pres_viPrompt (ex : Bool) : Pres (viPrompt ex) := by
  unfold viPrompt
  pres_tac
macro_rules | `(tactic| pres_leaf) => `(tactic| with_reducible exact pres_viPrompt _)

theorem pres_viMotionln (row cmd : Int) : Pres (viMotionln row cmd) := by
  unfold viMotionln
  pres_tac
macro_rules | `(tactic| pres_leaf) => `(tactic| with_reducible exact pres_viMotionln _ _)

theorem pres_markSave : Pres markSave := by
  unfold markSave
  pres_tac
macro_rules | `(tactic| pres_leaf) => `(tactic| with_reducible exact pres_markSave)

theorem pres_drawfixTop (r : Int) (p : Bool) : Pres (drawfixTop r p) := by
  unfold drawfixTop
  pres_tac
macro_rules | `(tactic| pres_leaf) => `(tactic| with_reducible exact pres_drawfixTop _ _)

theorem pres_viNextlineR : Pres viNextlineR := by
  unfold viNextlineR
  pres_tac
macro_rules | `(tactic| pres_leaf) => `(tactic| with_reducible exact pres_viNextlineR)

theorem pres_ledInput_loop (xai : Bool) (f : Nat) (sb : Bytes) (pref : Option Bytes) (post ai : Bytes) :
    Pres (ledInput.loop xai f sb pref post ai) := by
  induction f generalizing sb pref post ai with
  | zero => unfold ledInput.loop; exact Pres.pure _
  | succ f ih =>
    unfold ledInput.loop
    repeat' (first | exact ih _ _ _ _ | pres_step)

theorem pres_ledInput (pref post : Bytes) : Pres (ledInput pref post) := by
  unfold ledInput
  repeat' (first | exact pres_ledInput_loop _ _ _ _ _ _ | pres_step)
macro_rules | `(tactic| pres_leaf) => `(tactic| with_reducible exact pres_ledInput _ _)

/-- **insert mode (`vi_input`)** changes nothing the invariant reads: the text it returns is put into the
buffer by its caller -/
theorem pres_viInput (pref post : Bytes) : Pres (viInput pref post) := by
  unfold viInput
  pres_tac
macro_rules | `(tactic| pres_leaf) => `(tactic| with_reducible exact pres_viInput _ _)

theorem pres_scrollForward (cnt : Int) : Pres (scrollForward cnt) := by
  unfold scrollForward
  pres_tac
theorem pres_scrollBackward (cnt : Int) : Pres (scrollBackward cnt) := by
  unfold scrollBackward
  pres_tac
theorem pres_viWfix : Pres viWfix := by
  unfold viWfix
  pres_tac
theorem pres_viWait : Pres viWait := by
  unfold viWait
  pres_tac

end Neatvi.Lemmas.C16c
