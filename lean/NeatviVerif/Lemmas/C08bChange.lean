import NeatviVerif.Lemmas.C08bOpen
/-!
# C08 (insert mode): `vi_change` on a character-wise region
-/
set_option linter.unusedSimpArgs false
namespace Neatvi.Lemmas.C08b
open Neatvi Neatvi.Uc Neatvi.Vi Neatvi.Ex Neatvi.Spec Neatvi.Lemmas.C08 Neatvi.Lemmas.C09

/-- `vi_change` after the region went to the register and `pref`, `post` were cut out -/
def changeTail (pref post : Bytes) (r1 r2 : Int) : M Nat := do
  setRow r1
  drawfixTop r1 true
  let (rep, row, off) ← viInput pref post
  edEdit (some rep) r1 (r2 + 1)
  setPos (r1 + row - 1) off
  pure VC_OK

/-- the state in which the insertion of `vi_change` starts: row set, window pulled up to it -/
def changeSt (s : VS) (r1 : Int) : VS :=
  { s with ed := if r1 < s.ed.xtop then { s.ed with xrow := r1, xtop := r1 } else { s.ed with xrow := r1 } }

theorem changeSt_eq (s : VS) (r1 : Int) : ∃ ed, changeSt s r1 = { s with ed := ed } ∧ ed.xrow = r1 ∧
    ed.bufs = s.ed.bufs ∧ ed.regs = s.ed.regs := by
  unfold changeSt
  split
  · exact ⟨_, rfl, rfl, rfl, rfl⟩
  · exact ⟨_, rfl, rfl, rfl, rfl⟩

theorem changeTail_eq (pref post : Bytes) (r1 r2 : Int) (s : VS) :
    changeTail pref post r1 r2 s =
      (do let (rep, row, off) ← viInput pref post
          edEdit (some rep) r1 (r2 + 1)
          setPos (r1 + row - 1) off
          pure VC_OK : M Nat) (changeSt s r1) := by
  unfold changeTail changeSt drawfixTop
  simp only [bind_apply, setRow_apply, get_apply, Bool.true_and]
  by_cases h : r1 < s.ed.xtop
  · simp only [h, decide_true, if_true]
    rfl
  · simp only [h, decide_false, Bool.false_eq_true, if_false]
    rfl

/-- character-wise `vi_change` is the cut, `reg_put`, and `changeTail` -/
theorem viChange_char_red (r1 o1 r2 o2 : Int) (s : VS) (region pref post : Bytes) (l2 : Bytes)
    (hreg : lbufRegion s r1 o1 r2 o2 = some region)
    (hpref : subI (lineE s r1) 0 o1 = some pref) (hl2 : lineOf s r2 = some l2)
    (hpost : subI (lineE s r2) o2 (-1) = some post) :
    viChange r1 o1 r2 o2 false s =
      changeTail pref post r1 r2 { s with ed := { s.ed with regs := s.ed.regs.put s.ybuf region 0 } } := by
  unfold viChange changeTail
  simp only [bind_apply, get_apply, Bool.false_eq_true, if_false, hreg, liftO_some, regPut_apply, hpref, hl2,
    Option.isNone_some, Bool.or_self, hpost]

/-- `changeTail`: the rows `r1..r2` become the one line prefix ++ text ++ rest -/
theorem changeTail_spec (ps qs' cs : List Nat) (s : VS) (r1 r2 : Int) (K rest : Bytes) (lb : Lbuf.Lb)
    (hlb : s.ed.lb = some lb) (hr0 : 0 ≤ r1) (hr12 : r1 ≤ r2) (hr2 : r2 < lenOf s)
    (hps : ∀ c ∈ ps, ValidCp c) (hqs : ∀ c ∈ qs', ValidCp c) (hps10 : 10 ∉ ps) (hqs10 : 10 ∉ qs')
    (hin : Inputs K cs) (hp : pending s = K ++ rest) (hpl : ∀ c ∈ cs, ValidCp c) (h10 : 10 ∉ cs)
    (hne : cs.head? ≠ none ∧ cs.head? ≠ some 32 ∧ cs.head? ≠ some 9)
    (hk : s.xkmap = 0) :
    ∃ s', changeTail (encStr ps) (encStr (qs' ++ [10])) r1 r2 s = Res.ok VC_OK s' ∧ pending s' = rest ∧
      Inserted K s s' r1 [encStr (ps ++ cs ++ (qs' ++ [10]))] (r2.toNat - r1.toNat + 1) r1
        ((ps.length : Int) + cs.length - 1) := by
  obtain ⟨c, t, rfl⟩ : ∃ c t, cs = c :: t := by
    cases cs with
    | nil => exact absurd rfl hne.1
    | cons c t => exact ⟨c, t, rfl⟩
  have hc32 : c ≠ 32 := fun h => hne.2.1 (by simp [h])
  have hc9 : c ≠ 9 := fun h => hne.2.2 (by simp [h])
  have hcv := hpl c (by simp)
  have hkeep := keepAi_of_text (encStr ps) (encStr (qs' ++ [10])) c t hcv hc32 hc9
  have hqv : ∀ c ∈ qs' ++ [10], ValidCp c := valid_snoc_ten hqs
  obtain ⟨ed0, he0, hx0, hb0, hrg0⟩ := changeSt_eq s r1
  rw [changeTail_eq, he0]
  obtain ⟨s1, h1, h2, h3⟩ := viInput_single_line_aux ps (qs' ++ [10]) { s with ed := ed0 } K (c :: t) rest hps hqv hps10
    hin hp hpl h10 hk hkeep
  have hnl : nlCount (encStr (qs' ++ [10])) = 1 := by
    rw [encStr_append, nlCount_append, nlCount_encStr hqs10]; rfl
  rw [hnl] at h1
  obtain ⟨offv, hoffv⟩ : ∃ x : Int, x = (if ((ps.length + (c :: t).length : Nat) : Int) - 1 < 0 then 0
      else ((ps.length + (c :: t).length : Nat) : Int) - 1) := ⟨_, rfl⟩
  rw [← hoffv] at h1
  have hlines0 : Vi.lines { s with ed := ed0 } = Vi.lines s := lines_of_bufs s ed0 hb0
  have hl1 : lenOf s1 = lenOf s := by unfold lenOf; rw [h3.lines, hlines0]
  obtain ⟨ed', he1, he2, he3⟩ := edEdit_spec s1 (encStr (ps ++ (c :: t) ++ (qs' ++ [10]))) r1 (r2 + 1) lb
    (by rw [h3.lb]; show ed0.lb = _; rw [lb_of_bufs s ed0 hb0]; exact hlb) hr0 (by omega) (by rw [hl1]; omega)
  refine ⟨{ s1 with ed := { ed' with xrow := r1 + ((1 : Nat) : Int) - 1, xoff := offv } }, ?_, h2, ?_⟩
  · simp only [bind_apply, h1, he1, setPos_apply, pure_apply]
  · refine ⟨?_, ?_, ?_, ?_, ?_⟩
    · show Lemmas.C06.lines ed' = _
      rw [he2, h3.lines, hlines0, splitLines_wf _ (wfLine_enc_snoc (by
        intro hm
        rcases List.mem_append.mp hm with hm | hm
        · exact hps10 hm
        · exact h10 hm) hqs10)]
      rw [show (r2 + 1).toNat = r1.toNat + (r2.toNat - r1.toNat + 1) by omega]
    · show r1 + ((1 : Nat) : Int) - 1 = r1
      omega
    · show offv = _
      rw [hoffv, if_neg (by simp only [List.length_cons]; omega)]
      simp only [List.length_cons]; omega
    · show ed'.regs = s.ed.regs
      rw [he3, h3.ed]; exact hrg0
    · exact ((h3.readsEd).withEd _).of_ed ⟨_, rfl⟩

/-- line-wise `vi_change` (`cc`, `S`) is `reg_put` of the lines and `changeTail` after the indentation -/
theorem viChange_line_red (r1 o1 r2 o2 : Int) (s : VS) (region : Bytes)
    (hreg : lbufRegion s r1 0 r2 (-1) = some region) :
    viChange r1 o1 r2 o2 true s =
      changeTail (viIndents s (lineOf s r1)) [10] r1 r2
        { s with ed := { s.ed with regs := s.ed.regs.put s.ybuf region 1 } } := by
  unfold viChange changeTail
  simp only [bind_apply, get_apply, if_true, hreg, liftO_some, regPut_apply, pure_apply, Bool.true_or]

end Neatvi.Lemmas.C08b
