import NeatviVerif.Model.ExCmd
/-!
# C08, registers: `reg_putraw`, `reg_getraw` and the rotation of `reg_put` (`reg.c`)
-/
namespace Neatvi.Lemmas.C08
open Neatvi Neatvi.Ex

/-- the register file has its 256 slots -/
def RegsWf (r : Regs) : Prop := r.buf.length = 256 ∧ r.ln.length = 256

theorem regsWf_default : RegsWf {} := ⟨List.length_replicate .., List.length_replicate ..⟩

theorem getD_set_self {α : Type} (l : List α) (i : Nat) (x d : α) (h : i < l.length) : (l.set i x).getD i d = x := by
  simp [List.getD_eq_getElem?_getD, h]

theorem getD_set_other {α : Type} (l : List α) (i j : Nat) (x d : α) (h : i ≠ j) : (l.set i x).getD j d = l.getD j d := by
  simp [List.getD_eq_getElem?_getD, List.getElem?_set_ne h]

theorem putRaw_wf (r : Regs) (c : Nat) (s : Bytes) (ln : Nat) (h : RegsWf r) : RegsWf (r.putRaw c s ln) := by
  unfold RegsWf Regs.putRaw at *
  simpa using h

theorem lowerC_of_not_upper {c : Nat} (h : isUpperC c = false) : lowerC c = c := by
  unfold isUpperC at h
  unfold lowerC
  rw [h]; rfl

theorem lowerC_of_upper {c : Nat} (h : isUpperC c = true) : lowerC c = c + 32 := by
  unfold isUpperC at h
  unfold lowerC
  rw [h]; rfl

theorem lowerC_lt {c : Nat} (h : c < 256) : lowerC c < 256 := by
  unfold lowerC
  split
  · rename_i hu; simp at hu; omega
  · exact h

/-- the text `reg_putraw(c, s, ln)` stores: appended to the old value for an upper-case name -/
def rawText (r : Regs) (c : Nat) (s : Bytes) : Bytes :=
  (if isUpperC c then ((r.getRaw (lowerC c)).1).getD [] else []) ++ s

/-- reading after `reg_putraw` -/
theorem getRaw_putRaw (r : Regs) (c d : Nat) (s : Bytes) (ln : Nat) (h : RegsWf r) (hc : c < 256) :
    (r.putRaw c s ln).getRaw d = if d = lowerC c then (some (rawText r c s), ln) else r.getRaw d := by
  have hl := lowerC_lt hc
  unfold Regs.putRaw Regs.getRaw rawText Regs.getRaw
  simp only []
  by_cases hd : d = lowerC c
  · subst hd
    rw [if_pos rfl, getD_set_self _ _ _ _ (by rw [h.1]; exact hl), getD_set_self _ _ _ _ (by rw [h.2]; exact hl)]
  · rw [if_neg hd, getD_set_other _ _ _ _ _ (Ne.symm hd), getD_set_other _ _ _ _ _ (Ne.symm hd)]

/-! ### the rotation `"1 → "2 → … → "9` -/

/-- one step of the loop `for (i = 8; i > 0; i--) if (bufs['0' + i]) reg_putraw('0' + i + 1, …)` -/
def shiftStep (acc : Regs) (i : Nat) : Regs :=
  match acc.getRaw (48 + i) with
  | (some x, l) => acc.putRaw (48 + i + 1) x l
  | (none, _) => acc

/-- what a numbered register holds after the rotation: its predecessor when that was set -/
def shiftedAt (r : Regs) (d : Nat) : Option Bytes × Nat :=
  match r.getRaw (d - 1) with
  | (some x, l) => (some x, l)
  | (none, _) => r.getRaw d

theorem shiftStep_wf (r : Regs) (i : Nat) (h : RegsWf r) : RegsWf (shiftStep r i) := by
  unfold shiftStep
  split
  · exact putRaw_wf _ _ _ _ h
  · exact h

theorem isUpperC_digit (i : Nat) (h : i ≤ 9) : isUpperC (48 + i) = false := by
  unfold isUpperC; simp; omega

theorem shiftStep_get (r : Regs) (i d : Nat) (h : RegsWf r) (hi : i ≤ 8) :
    (shiftStep r i).getRaw d = if d = 48 + i + 1 then shiftedAt r d else r.getRaw d := by
  unfold shiftStep shiftedAt
  have hu : isUpperC (48 + i + 1) = false := isUpperC_digit (i + 1) (by omega)
  by_cases hd : d = 48 + i + 1
  · subst hd
    rw [if_pos rfl, show 48 + i + 1 - 1 = 48 + i by omega]
    split
    · rename_i x l hx
      rw [getRaw_putRaw _ _ _ _ _ h (by omega), lowerC_of_not_upper hu, if_pos rfl]
      simp [rawText, hu]
    · rename_i l hx
      simp
  · rw [if_neg hd]
    split
    · rw [getRaw_putRaw _ _ _ _ _ h (by omega), lowerC_of_not_upper hu, if_neg hd]
    · rfl

/-- `[k, k-1, …, 1]` -/
def downList : Nat → List Nat
  | 0 => []
  | k + 1 => (k + 1) :: downList k

theorem shiftFold_wf (k : Nat) : ∀ r, RegsWf r → RegsWf ((downList k).foldl shiftStep r) := by
  induction k with
  | zero => intro r h; exact h
  | succ k ih => intro r h; exact ih _ (shiftStep_wf _ _ h)

theorem shiftFold_get (k : Nat) (hk : k ≤ 8) : ∀ (r : Regs) (d : Nat), RegsWf r →
    ((downList k).foldl shiftStep r).getRaw d =
      if 50 ≤ d ∧ d ≤ 48 + k + 1 then shiftedAt r d else r.getRaw d := by
  induction k with
  | zero =>
    intro r d _
    rw [if_neg (by omega)]
    rfl
  | succ k ih =>
    intro r d h
    show ((downList k).foldl shiftStep (shiftStep r (k + 1))).getRaw d = _
    rw [ih (by omega) _ _ (shiftStep_wf _ _ h)]
    by_cases hd : d = 48 + (k + 1) + 1
    · subst hd
      rw [if_neg (by omega), if_pos (by omega), shiftStep_get _ _ _ h hk, if_pos rfl]
    · by_cases hr : 50 ≤ d ∧ d ≤ 48 + k + 1
      · rw [if_pos hr, if_pos (by omega)]
        unfold shiftedAt
        rw [shiftStep_get _ _ _ h hk, if_neg (by omega), shiftStep_get _ _ _ h hk, if_neg hd]
      · rw [if_neg hr, if_neg (by omega), shiftStep_get _ _ _ h hk, if_neg hd]

/-- the registers after the rotation loop of `reg_put` -/
def shifted (r : Regs) : Regs :=
  [8, 7, 6, 5, 4, 3, 2, 1].foldl (fun (acc : Regs) i =>
    match acc.getRaw (48 + i) with
    | (some x, l) => acc.putRaw (48 + i + 1) x l
    | (none, _) => acc) r

theorem shifted_eq (r : Regs) : shifted r = (downList 8).foldl shiftStep r := rfl

theorem shifted_wf (r : Regs) (h : RegsWf r) : RegsWf (shifted r) := by
  rw [shifted_eq]; exact shiftFold_wf 8 r h

theorem shifted_get (r : Regs) (d : Nat) (h : RegsWf r) :
    (shifted r).getRaw d = if 50 ≤ d ∧ d ≤ 57 then shiftedAt r d else r.getRaw d := by
  rw [shifted_eq, shiftFold_get 8 (by omega) r d h]

/-- does `reg_put(c, s, ln)` rotate the numbered registers? -/
def shifts (c : Nat) (s : Bytes) (ln : Nat) : Bool := (ln != 0 || s.contains 10) && (c == 0 || isAlphaC c)

/-- the register a name designates: `"` is the unnamed register -/
def regTarget (c : Nat) : Nat := if c == 34 then 0 else c

theorem regTarget_ne {c : Nat} (h : c ≠ 34) : regTarget c = c := by
  unfold regTarget; simp [h]

theorem regTarget_quote : regTarget 34 = 0 := rfl

theorem regTarget_lt {c : Nat} (h : c < 256) : regTarget c < 256 := by
  unfold regTarget; split <;> omega

theorem regTarget_upper (c : Nat) : isUpperC (regTarget c) = isUpperC c := by
  unfold regTarget
  split
  · rename_i h; simp at h; subst h; decide
  · rfl

/-- `reg_put` once the name is resolved -/
def putCore (r : Regs) (c : Nat) (s : Bytes) (ln : Nat) : Regs :=
  (if shifts c s ln then (shifted r).putRaw 49 s ln else r).putRaw c s ln

theorem put_eq (r : Regs) (c : Nat) (s : Bytes) (ln : Nat) : r.put c s ln = putCore r (regTarget c) s ln := rfl

theorem put_wf (r : Regs) (c : Nat) (s : Bytes) (ln : Nat) (h : RegsWf r) : RegsWf (r.put c s ln) := by
  rw [put_eq]
  unfold putCore
  apply putRaw_wf
  split
  · exact putRaw_wf _ _ _ _ (shifted_wf _ h)
  · exact h

/-- the registers before the final `reg_putraw(c, …)` -/
def beforeFinal (r : Regs) (c : Nat) (s : Bytes) (ln : Nat) : Regs :=
  if shifts c s ln then (shifted r).putRaw 49 s ln else r

theorem beforeFinal_wf (r : Regs) (c : Nat) (s : Bytes) (ln : Nat) (h : RegsWf r) : RegsWf (beforeFinal r c s ln) := by
  unfold beforeFinal
  split
  · exact putRaw_wf _ _ _ _ (shifted_wf _ h)
  · exact h

theorem beforeFinal_get (r : Regs) (c d : Nat) (s : Bytes) (ln : Nat) (h : RegsWf r) :
    (beforeFinal r c s ln).getRaw d =
      if shifts c s ln then
        (if d = 49 then (some s, ln) else if 50 ≤ d ∧ d ≤ 57 then shiftedAt r d else r.getRaw d)
      else r.getRaw d := by
  unfold beforeFinal
  by_cases hs : shifts c s ln = true
  · rw [if_pos hs, if_pos hs, getRaw_putRaw _ _ _ _ _ (shifted_wf _ h) (by omega)]
    have : lowerC 49 = 49 := by decide
    rw [this]
    by_cases hd : d = 49
    · rw [if_pos hd, if_pos hd]; simp [rawText, isUpperC]
    · rw [if_neg hd, if_neg hd, shifted_get _ _ h]
  · rw [if_neg hs, if_neg hs]

/-- reading any register after `reg_put` (`c` is the resolved name, `regTarget` of the name given) -/
theorem putCore_get (r : Regs) (c d : Nat) (s : Bytes) (ln : Nat) (h : RegsWf r) (hc : c < 256) :
    (putCore r c s ln).getRaw d =
      if d = lowerC c then (some (rawText (beforeFinal r c s ln) c s), ln)
      else (beforeFinal r c s ln).getRaw d :=
  getRaw_putRaw _ _ _ _ _ (beforeFinal_wf r c s ln h) hc

theorem put_get (r : Regs) (c d : Nat) (s : Bytes) (ln : Nat) (h : RegsWf r) (hc : c < 256) :
    (r.put c s ln).getRaw d =
      if d = lowerC (regTarget c) then (some (rawText (beforeFinal r (regTarget c) s ln) (regTarget c) s), ln)
      else (beforeFinal r (regTarget c) s ln).getRaw d := by
  rw [put_eq]
  exact putCore_get r (regTarget c) d s ln h (regTarget_lt hc)

/-- a shifting put never names a digit register -/
theorem shifts_name {c : Nat} {s : Bytes} {ln : Nat} (h : shifts c s ln = true) :
    c = 0 ∨ (65 ≤ c ∧ c ≤ 90) ∨ (97 ≤ c ∧ c ≤ 122) := by
  unfold shifts isAlphaC at h
  simp at h
  omega

theorem shifts_lower_not_digit {c : Nat} {s : Bytes} {ln : Nat} (h : shifts c s ln = true) :
    lowerC c = 0 ∨ 97 ≤ lowerC c := by
  have := shifts_name h
  unfold lowerC
  split
  · rename_i hu; simp at hu; omega
  · rename_i hu; simp at hu; omega

end Neatvi.Lemmas.C08
