import NeatviVerif.Lemmas.C09Respects
/-!
# C09: `Respects` for the commands of vi.c (everything in an iteration of `vi()` but the `.`/`@`
branches of the command switch)
-/
namespace Neatvi.Lemmas.C09
open Neatvi Neatvi.Vi Neatvi.Ex

theorem respects_markSave : Respects markSave := by
  unfold markSave
  respects_tac
macro_rules | `(tactic| respects_step) => `(tactic| with_reducible exact respects_markSave)

theorem respects_drawfixTop (r : Int) (p : Bool) : Respects (drawfixTop r p) := by
  unfold drawfixTop
  respects_tac
macro_rules | `(tactic| respects_step) => `(tactic| with_reducible exact respects_drawfixTop _ _)

theorem respects_viNextlineR : Respects viNextlineR := by
  unfold viNextlineR
  respects_tac
macro_rules | `(tactic| respects_step) => `(tactic| with_reducible exact respects_viNextlineR)

theorem respects_ledInput_loop (xai : Bool) (f : Nat) (sb : Bytes) (pref : Option Bytes) (post ai : Bytes) :
    Respects (ledInput.loop xai f sb pref post ai) := by
  induction f generalizing sb pref post ai with
  | zero => unfold ledInput.loop; exact respects_pure _
  | succ f ih =>
    unfold ledInput.loop
    repeat' (first | exact ih _ _ _ _ | respects_step)

theorem respects_ledInput (pref post : Bytes) : Respects (ledInput pref post) := by
  unfold ledInput
  repeat' (first | exact respects_ledInput_loop _ _ _ _ _ _ | respects_step)
macro_rules | `(tactic| respects_step) => `(tactic| with_reducible exact respects_ledInput _ _)

theorem respects_viInput (pref post : Bytes) : Respects (viInput pref post) := by
  unfold viInput
  respects_tac
macro_rules | `(tactic| respects_step) => `(tactic| with_reducible exact respects_viInput _ _)

theorem respects_viYank (r1 o1 r2 o2 : Int) (ln : Bool) : Respects (viYank r1 o1 r2 o2 ln) := by
  unfold viYank
  respects_tac
macro_rules | `(tactic| respects_step) => `(tactic| with_reducible exact respects_viYank _ _ _ _ _)

theorem respects_viDelete (r1 o1 r2 o2 : Int) (ln : Bool) : Respects (viDelete r1 o1 r2 o2 ln) := by
  unfold viDelete
  respects_tac
macro_rules | `(tactic| respects_step) => `(tactic| with_reducible exact respects_viDelete _ _ _ _ _)

theorem respects_viChange (r1 o1 r2 o2 : Int) (ln : Bool) : Respects (viChange r1 o1 r2 o2 ln) := by
  unfold viChange
  respects_tac
macro_rules | `(tactic| respects_step) => `(tactic| with_reducible exact respects_viChange _ _ _ _ _)

theorem respects_viCase (r1 o1 r2 o2 : Int) (ln : Bool) (cmd : Nat) :
    Respects (viCase r1 o1 r2 o2 ln cmd) := by
  unfold viCase
  respects_tac
macro_rules | `(tactic| respects_step) => `(tactic| with_reducible exact respects_viCase _ _ _ _ _ _)

theorem respects_viShift_go (r2 dir : Int) (f : Nat) (i : Int) : Respects (viShift.go r2 dir f i) := by
  induction f generalizing i with
  | zero => unfold viShift.go; exact respects_pure _
  | succ f ih =>
    unfold viShift.go
    repeat' (first | exact ih _ | respects_step)

theorem respects_viShift (r1 r2 dir : Int) : Respects (viShift r1 r2 dir) := by
  unfold viShift
  repeat' (first | exact respects_viShift_go _ _ _ _ | respects_step)
macro_rules | `(tactic| respects_step) => `(tactic| with_reducible exact respects_viShift _ _ _)

theorem respects_vcMotion (cmd : Nat) : Respects (vcMotion cmd) := by
  unfold vcMotion
  respects_tac
macro_rules | `(tactic| respects_step) => `(tactic| with_reducible exact respects_vcMotion _)

theorem respects_vcInsert (cmd : Nat) : Respects (vcInsert cmd) := by
  unfold vcInsert
  respects_tac
macro_rules | `(tactic| respects_step) => `(tactic| with_reducible exact respects_vcInsert _)

theorem respects_vcPut (cmd : Nat) : Respects (vcPut cmd) := by
  unfold vcPut
  respects_tac
macro_rules | `(tactic| respects_step) => `(tactic| with_reducible exact respects_vcPut _)

theorem respects_vcJoin : Respects vcJoin := by
  unfold vcJoin
  respects_tac
macro_rules | `(tactic| respects_step) => `(tactic| with_reducible exact respects_vcJoin)

theorem respects_vcReplace : Respects vcReplace := by
  unfold vcReplace
  respects_tac
macro_rules | `(tactic| respects_step) => `(tactic| with_reducible exact respects_vcReplace)

theorem respects_scrollForward (cnt : Int) : Respects (scrollForward cnt) := by
  unfold scrollForward
  respects_tac
macro_rules | `(tactic| respects_step) => `(tactic| with_reducible exact respects_scrollForward _)

theorem respects_scrollBackward (cnt : Int) : Respects (scrollBackward cnt) := by
  unfold scrollBackward
  respects_tac
macro_rules | `(tactic| respects_step) => `(tactic| with_reducible exact respects_scrollBackward _)

theorem respects_viWfix : Respects viWfix := by
  unfold viWfix
  respects_tac
macro_rules | `(tactic| respects_step) => `(tactic| with_reducible exact respects_viWfix)

theorem respects_viWait : Respects viWait := by
  unfold viWait
  respects_tac
macro_rules | `(tactic| respects_step) => `(tactic| with_reducible exact respects_viWait)

/-! ### `ex_command` from vi -/

/-- apply a state transformer to the final state -/
def mapS {α : Type} (f : VS → VS) : Res α → Res α
  | Res.ok a s => Res.ok a (f s)
  | Res.eof => Res.eof
  | Res.trap => Res.trap

/-- a computation that commutes with `norm` (it neither inspects nor alters the queue) respects `KeyEq` -/
theorem respects_of_commutes {α : Type} {m : M α} (h : ∀ s, m (norm s) = mapS norm (m s)) :
    Respects m := by
  intro s t hst
  have e : mapS norm (m s) = mapS norm (m t) := by
    rw [← h s, ← h t, show norm t = norm s from hst.symm]
  revert e
  generalize m s = r1
  generalize m t = r2
  intro e
  cases r1 <;> cases r2 <;> simp only [mapS, reduceCtorEq] at e
  · injection e with e1 e2
    subst e1
    exact RelRes.ok _ _ _ e2
  · exact RelRes.eof
  · exact RelRes.trap

def exSet (ln : Bytes) (s : VS) : VS := match setOf ln with
  | some (v, val) =>
    if v == "xai" then { s with xai := val != 0 }
    else if v == "xaw" || v == "xwa" || v == "xic" || v == "xtd" then s
    else { s with unmodelled := true }
  | none => s

def exTail (ln : Bytes) (s : VS) : Res Int :=
  match exCommand 64 { s.ed with out := [], msg := [], input := [], xvis := true } ln with
  | none => Res.trap
  | some (rc, ed) => Res.ok rc { s with ed := ed, unmodelled := s.unmodelled || ed.unmodelled }

theorem exCommandV_eq (ln : Bytes) (s : VS) :
    exCommandV ln s = if exWantsInput ln then Res.ok 1 { s with unmodelled := true }
      else exTail ln (exSet ln s) := rfl

theorem exSet_norm (ln : Bytes) (s : VS) : exSet ln (norm s) = norm (exSet ln s) := by
  unfold exSet
  cases setOf ln with
  | none => rfl
  | some p =>
    obtain ⟨v, val⟩ := p
    dsimp only
    split
    · rfl
    · split <;> rfl

theorem exTail_norm (ln : Bytes) (s : VS) : exTail ln (norm s) = mapS norm (exTail ln s) := by
  unfold exTail
  simp only [norm_ed, norm_unmodelled]
  generalize exCommand 64 _ ln = r
  cases r with
  | none => rfl
  | some p => rfl

theorem respects_exCommandV (ln : Bytes) : Respects (exCommandV ln) := by
  apply respects_of_commutes
  intro s
  rw [exCommandV_eq, exCommandV_eq]
  split
  · rfl
  · rw [exSet_norm, exTail_norm]

macro_rules | `(tactic| respects_step) => `(tactic| with_reducible exact respects_exCommandV _)

/-! ### the parts of an iteration of `vi()` -/

theorem respects_viPre : Respects viPre := by
  unfold viPre
  respects_tac

theorem respects_motionTail (mv nrow noff : Int) : Respects (motionTail mv nrow noff) := by
  unfold motionTail
  respects_tac

theorem respects_viPost (cont : Option Nat) : Respects (viPost cont) := by
  unfold viPost
  respects_tac


/-! ### the command switch: everything but `.` and `@` -/

theorem respects_ite' {α : Type} {c : Prop} [Decidable c] {a b : M α} (ha : c → Respects a)
    (hb : ¬ c → Respects b) : Respects (if c then a else b) := by
  split
  · exact ha ‹_›
  · exact hb ‹_›

theorem respects_finRec (c k : Int) (mod : Nat) : Respects (finRec c k mod) := by
  unfold finRec
  respects_tac

/-- `bind` for a single pair of states -/
theorem relres_bind {α β : Type} {m : M α} {f : α → M β} {s t : VS} (hm : RelRes (m s) (m t))
    (hf : ∀ a s' t', m s = Res.ok a s' → KeyEq s' t' → RelRes (f a s') (f a t')) :
    RelRes ((m >>= f) s) ((m >>= f) t) := by
  rw [bind_apply, bind_apply]
  revert hf hm
  generalize m s = r1
  generalize m t = r2
  intro hm hf
  cases hm with
  | ok a s' t' h' => exact hf a s' t' rfl h'
  | eof => exact RelRes.eof
  | trap => exact RelRes.trap

/-- `commandTail` is "read the command key, then `body key`", and `body c` respects `KeyEq` for every
key but `.` and `@` -/
theorem respects_commandTail_body :
    ∃ body : Int → M (Option Nat), commandTail = (viRead >>= body) ∧
      ∀ c : Int, c ≠ 46 → c ≠ 64 → Respects (body c) := by
  refine ⟨_, by unfold commandTail; rfl, fun c h46 h64 => ?_⟩
  repeat' (first
    | (with_reducible refine respects_ite' (fun _ => ?_) (fun _ => ?_))
    | respects_step
    | (exfalso; simp_all; done))

/-- **`commandTail_keyEq`**: unless the command key is `.` or `@`, the command switch cannot tell
`KeyEq` states apart -/
theorem commandTail_keyEq (s t : VS) (h : KeyEq s t)
    (hk : ∀ s', viRead s ≠ Res.ok 46 s' ∧ viRead s ≠ Res.ok 64 s') :
    RelRes (commandTail s) (commandTail t) := by
  obtain ⟨body, hb, hr⟩ := respects_commandTail_body
  rw [hb]
  refine relres_bind (viRead_keyEq s t h) (fun c s' t' hc h' => ?_)
  refine hr c ?_ ?_ s' t' h'
  · intro e; subst e; exact (hk s').1 hc
  · intro e; subst e; exact (hk s').2 hc

/-- **`viStep_keyEq`**: one iteration of `vi()` cannot tell `KeyEq` states apart, unless it is a command
(`mv = 0`) whose key is `.` or `@` -/
theorem viStep_keyEq (s t : VS) (h : KeyEq s t)
    (hk : ∀ r s1 s2, viPre s = Res.ok r s1 → r.1 = 0 →
      viRead s1 ≠ Res.ok 46 s2 ∧ viRead s1 ≠ Res.ok 64 s2) :
    RelRes (viStep s) (viStep t) := by
  unfold viStep
  refine relres_bind (respects_viPre s t h) (fun r s1 t1 hr h1 => ?_)
  obtain ⟨mv, nrow, noff⟩ := r
  dsimp only
  refine relres_bind ?_ (fun cont s2 t2 _ h2 => respects_viPost cont s2 t2 h2)
  by_cases hmv : mv > 0
  · simp only [hmv, if_true]
    exact respects_motionTail _ _ _ s1 t1 h1
  · simp only [hmv, if_false]
    by_cases h0 : mv = 0
    · subst h0
      simp only [BEq.rfl, if_true]
      exact commandTail_keyEq s1 t1 h1 (fun s2 => hk _ s1 s2 hr rfl)
    · have : (mv == 0) = false := by simpa using h0
      simp only [this, Bool.false_eq_true, if_false]
      exact respects_pure _ s1 t1 h1

end Neatvi.Lemmas.C09
