import NeatviVerif.Lemmas.C12Simple
/-!
# C12 lemmas, part 3: what the engine's parser makes of a literal pattern
-/
namespace Neatvi.C12
open Neatvi Neatvi.Uc Neatvi.Regex Neatvi.Rset

/-- stepping through `lit` by the length announced by each lead byte (`uc_len`) from offset `i`
    lands exactly on the end of `lit` -/
inductive Steps (lit : Bytes) : Nat → Prop
  | done : Steps lit lit.length
  | step {i : Nat} : i < lit.length → 0 < ucLen (lit.getD i 0) →
      Steps lit (i + ucLen (lit.getD i 0)) → Steps lit i

/-- the literal is a whole number of characters as the engine counts them -/
def LitOk (lit : Bytes) : Prop := Steps lit 0

theorem Steps.le {lit : Bytes} {i : Nat} (h : Steps lit i) : i ≤ lit.length := by
  induction h with
  | done => exact Nat.le_refl _
  | step h1 _ _ _ => omega

theorem ucLen_ascii {c : Nat} (h0 : 0 < c) (h : c < 128) : ucLen c = 1 := by
  have : ∀ x : Fin 128, 0 < x.val → ucLen x.val = 1 := by decide +kernel
  exact this ⟨c, h⟩ h0

theorem steps_ascii (lit : Bytes) (h : ∀ c ∈ lit, 0 < c ∧ c < 128) :
    ∀ k i, i + k = lit.length → Steps lit i := by
  intro k
  induction k with
  | zero => intro i hi; rw [show i = lit.length by omega]; exact Steps.done
  | succ k ih =>
    intro i hi
    have hlt : i < lit.length := by omega
    have hm : lit.getD i 0 ∈ lit := by
      rw [List.getD_eq_getElem?_getD, List.getElem?_eq_getElem hlt]; simp
    have h1 := ucLen_ascii (h _ hm).1 (h _ hm).2
    refine Steps.step hlt (by omega) ?_
    rw [h1]; exact ih (i + 1) (by omega)

/-- an ASCII literal is a whole number of characters -/
theorem litOk_ascii (lit : Bytes) (h : ∀ c ∈ lit, 0 < c ∧ c < 128) : LitOk lit :=
  steps_ascii lit h lit.length 0 (by omega)

/-! ### reading bytes -/

theorem rdb_le {p : Bytes} {j : Nat} (h : j ≤ p.length) : rdb p j = some (p.getD j 0) := by
  unfold rdb
  by_cases h1 : j < p.length
  · simp [h1, List.getD_eq_getElem?_getD]
  · have : j = p.length := by omega
    subst this
    simp [List.getD_eq_getElem?_getD]

theorem getD_append_left {a b : Bytes} {j : Nat} (h : j < a.length) : (a ++ b).getD j 0 = a.getD j 0 := by
  simp [List.getD_eq_getElem?_getD, List.getElem?_append_left h]

theorem getD_append_at {a b : Bytes} : (a ++ b).getD a.length 0 = b.headD 0 := by
  cases b with
  | nil => simp [List.getD_eq_getElem?_getD]
  | cons x t => simp [List.getD_eq_getElem?_getD]

theorem getD_mem {a : Bytes} {j : Nat} (h : j < a.length) : a.getD j 0 ∈ a := by
  rw [List.getD_eq_getElem?_getD, List.getElem?_eq_getElem h]; simp

/-! ### the literal-run loop -/

theorem not_rep {x : Nat} (h : isRepChar x = false) : x ≠ 42 ∧ x ≠ 63 ∧ x ≠ 43 ∧ x ≠ 123 := by
  simp [isRepChar, Gen.repChars] at h
  omega

theorem not_special {x : Nat} (h : isSpecial x = false) :
    x ≠ 0 ∧ x ≠ 46 ∧ x ≠ 94 ∧ x ≠ 36 ∧ x ≠ 91 ∧ x ≠ 40 ∧ x ≠ 124 ∧ x ≠ 41 ∧ x ≠ 92 := by
  simp [isSpecial, Gen.ratomSpecial] at h
  omega

theorem litLoop_lit (lit rest : Bytes) (hne : lit ≠ [])
    (hlit : ∀ c ∈ lit, isSpecial c = false ∧ isRepChar c = false)
    (hs : isSpecial (rest.headD 0) = true) (hr : isRepChar (rest.headD 0) = false) :
    ∀ i, Steps lit i → ∀ f, f ≥ lit.length - i + 1 → litLoop (lit ++ rest) f i = some lit.length := by
  intro i hst
  have hlen : lit.length ≠ 0 := by cases lit <;> simp_all
  induction hst with
  | done =>
    intro f hf
    obtain ⟨f', rfl⟩ : ∃ f', f = f' + 1 := ⟨f - 1, by omega⟩
    rw [litLoop, rdb_le (by simp), getD_append_at]
    dsimp only
    rw [hs]
    simp [hlen]
  | @step i hi hpos hnext ih =>
    intro f hf
    obtain ⟨f', rfl⟩ : ∃ f', f = f' + 1 := ⟨f - 1, by omega⟩
    have hle := hnext.le
    have hc := hlit _ (getD_mem hi)
    have hrx : rxLen (lit ++ rest) i = ucLen (lit.getD i 0) := by
      show min (ucLen ((lit ++ rest).getD i 0)) ((lit ++ rest).length - i) = _
      rw [getD_append_left hi, List.length_append]
      omega
    rw [litLoop, rdb_le (by rw [List.length_append]; omega), getD_append_left hi]
    simp only [hc.1, Bool.not_false, Bool.or_true, if_true, hrx]
    have hz : (ucLen (lit.getD i 0) == 0) = false := beq_eq_false_iff_ne.mpr (by omega)
    simp only [hz, Bool.and_false, Bool.false_eq_true, if_false]
    have hnx : ∃ nx, rdb (lit ++ rest) (i + ucLen (lit.getD i 0)) = some nx ∧ isRepChar nx = false := by
      rw [rdb_le (by rw [List.length_append]; omega)]
      refine ⟨_, rfl, ?_⟩
      by_cases h2 : i + ucLen (lit.getD i 0) < lit.length
      · rw [getD_append_left h2]; exact (hlit _ (getD_mem h2)).2
      · have : i + ucLen (lit.getD i 0) = lit.length := by omega
        rw [this, getD_append_at]; exact hr
    obtain ⟨nx, hnx1, hnx2⟩ := hnx
    by_cases hi0 : i = 0
    · subst hi0
      simp only [bne_self_eq_false, Bool.false_eq_true, if_false, Bool.false_and]
      exact ih f' (by omega)
    · have : (i != 0) = true := by simp [hi0]
      simp only [this, if_true, hnx1, hnx2, Bool.and_false, Bool.false_eq_true, if_false]
      exact ih f' (by omega)

theorem readRep_none (n : RNode) (p : Bytes) (h : isRepChar (p.headD 0) = false) :
    readRep n p = some (some n, p) := by
  obtain ⟨h1, h2, h3, h4⟩ := not_rep h
  rw [List.headD_eq_head?_getD] at h1 h2 h3 h4
  unfold readRep
  simp [h1, h2, h3, h4]

/-! ### atoms and sequences of atoms -/

/-- the pattern text of an atom of a literal pattern -/
def atomText (a : Atom) : Bytes :=
  match a.k with
  | AK.beg => [94]
  | AK.end_ => [36]
  | AK.wbeg => [92, 60]
  | AK.wend => [92, 62]
  | AK.chr => a.s
  | _ => []

/-- side conditions under which `atomText a` followed by a byte `next` is read back as `a` -/
def AtomOk (a : Atom) (next : Nat) : Prop :=
  match a.k with
  | AK.chr => a.s ≠ [] ∧ LitOk a.s ∧ (∀ c ∈ a.s, isSpecial c = false ∧ isRepChar c = false) ∧
      isSpecial next = true
  | AK.beg => a.s = []
  | AK.end_ => a.s = []
  | AK.wbeg => a.s = []
  | AK.wend => a.s = []
  | _ => False

theorem parseAtom_ok (a : Atom) (rest : Bytes) (f : Nat)
    (hok : AtomOk a (rest.headD 0)) (hr : isRepChar (rest.headD 0) = false) :
    parseAtom (f + 1) (atomText a ++ rest) = some (some (RNode.atom a 1 1), rest) := by
  obtain ⟨k, s⟩ := a
  cases k with
  | beg =>
    simp only [AtomOk] at hok; subst hok
    simp [parseAtom, atomText, ratomRead, readRep_none _ _ hr]
  | end_ =>
    simp only [AtomOk] at hok; subst hok
    simp [parseAtom, atomText, ratomRead, readRep_none _ _ hr]
  | wbeg =>
    simp only [AtomOk] at hok; subst hok
    simp [parseAtom, atomText, ratomRead, readRep_none _ _ hr]
  | wend =>
    simp only [AtomOk] at hok; subst hok
    simp [parseAtom, atomText, ratomRead, readRep_none _ _ hr]
  | chr =>
    simp only [AtomOk] at hok
    obtain ⟨hne, hlo, hlit, hsp⟩ := hok
    have hll := litLoop_lit s rest hne hlit hsp hr 0 hlo ((s ++ rest).length + 2) (by simp; omega)
    cases s with
    | nil => exact absurd rfl hne
    | cons c t =>
      obtain ⟨c0, c1, c2, c3, c4, c5, c6, c7, c8⟩ := not_special (hlit c (by simp)).1
      simp only [atomText, List.cons_append] at hll ⊢
      rw [parseAtom]
      simp only [List.headD_cons, beq_iff_eq, Bool.or_eq_true, c0, c6, c7, c5, or_self, if_false,
        ratomRead, c1, c2, c3, c4, c8, hll, Option.map_some]
      have e1 : List.take (c :: t).length (c :: (t ++ rest)) = c :: t := by
        rw [← List.cons_append, List.take_left']; rfl
      have e2 : List.drop (c :: t).length (c :: (t ++ rest)) = rest := by
        rw [← List.cons_append, List.drop_left']; rfl
      rw [e1, e2]
      exact readRep_none _ _ hr
  | any => simp [AtomOk] at hok
  | brk => simp [AtomOk] at hok

/-- the text of a sequence of atoms -/
def seqText : List Atom → Bytes
  | [] => []
  | a :: as => atomText a ++ seqText as

/-- each atom can be read back in the context of what follows -/
def SeqOk : List Atom → Bytes → Prop
  | [], _ => True
  | a :: as, rest =>
    AtomOk a ((seqText as ++ rest).headD 0) ∧ isRepChar ((seqText as ++ rest).headD 0) = false ∧
      SeqOk as rest

/-- right-nested concatenation of atoms, each matched exactly once -/
def catOf : List Atom → RNode
  | [] => RNode.nul
  | [a] => RNode.atom a 1 1
  | a :: b :: t => RNode.cat (RNode.atom a 1 1) (catOf (b :: t))

theorem parseSeq_close (rest : Bytes) (f : Nat) :
    parseSeq (f + 2) (41 :: rest) = some (none, 41 :: rest) := by
  simp [parseSeq, parseAtom]

theorem parseSeq_atoms : ∀ (as : List Atom) (rest : Bytes) (f : Nat), SeqOk as (41 :: rest) → as ≠ [] →
    f ≥ 2 * as.length + 2 →
    parseSeq f (seqText as ++ 41 :: rest) = some (some (catOf as), 41 :: rest) := by
  intro as
  induction as with
  | nil => intro rest f _ h; exact absurd rfl h
  | cons a as ih =>
    intro rest f hok _ hf
    obtain ⟨f', rfl⟩ : ∃ f', f = f' + 2 := ⟨f - 2, by simp at hf; omega⟩
    obtain ⟨h1, h2, h3⟩ := hok
    rw [parseSeq]
    simp only [seqText, List.append_assoc]
    rw [parseAtom_ok a _ f' h1 h2]
    dsimp only
    cases as with
    | nil =>
      simp only [seqText, List.nil_append]
      obtain ⟨f'', rfl⟩ : ∃ f'', f' = f'' + 1 := ⟨f' - 1, by simp at hf; omega⟩
      rw [parseSeq_close]
      simp [catOf]
    | cons b t =>
      rw [ih rest (f' + 1) h3 (by simp) (by simp at hf ⊢; omega)]
      simp [catOf]

/-- the parse tree of `((re))` when `re` is the text of a sequence of atoms -/
theorem parse_wrapped (as : List Atom) (hok : SeqOk as [41, 41]) (hne : as ≠ [])
    (hhd : (seqText as ++ [41, 41]).headD 0 ≠ 41) (hlen : as.length ≤ 5) :
    parse ([40, 40] ++ seqText as ++ [41, 41]) =
      some (some (RNode.grp (RNode.grp (catOf as) 0 1 1) 0 1 1)) := by
  unfold parse parseFuel
  obtain ⟨f, hf⟩ : ∃ f, 4 * ([40, 40] ++ seqText as ++ [41, 41]).length + 8 = f + 22 :=
    ⟨4 * ([40, 40] ++ seqText as ++ [41, 41]).length + 8 - 22, by simp; omega⟩
  rw [hf]
  have hseq := parseSeq_atoms as [41] (f + 13) hok hne (by omega)
  have hclose1 : parseSeq (f + 16) [41] = some (none, [41]) := parseSeq_close [] (f + 14)
  have hemp : parseSeq (f + 20) [] = some (none, []) := by simp [parseSeq, parseAtom]
  have hr1 : ∀ n, readRep n [41] = some (some n, [41]) := fun n => readRep_none _ _ (by decide)
  have hr0 : ∀ n, readRep n [] = some (some n, []) := fun n => readRep_none _ _ (by decide)
  simp only [List.cons_append, List.nil_append] at hseq hhd ⊢
  rw [parseAlt, parseSeq, parseAtom, parseGrp, parseAlt, parseSeq, parseAtom, parseGrp, parseAlt]
  simp only [List.drop_succ_cons, List.drop_zero, List.headD_cons, bne_iff_ne, ne_eq, hhd,
    not_false_eq_true, if_true, hseq]
  simp [hr1, hr0, hclose1, hemp]

end Neatvi.C12
