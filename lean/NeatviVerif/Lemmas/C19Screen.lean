import NeatviVerif.Model.Screen
/-!
# C19, pointwise description of the screen primitives (`room`, `drawRow`, `drawRows`, `repaint`)
-/
namespace Neatvi.Lemmas.C19
open Neatvi Neatvi.Mot Neatvi.Screen

theorem blank_length (k : Nat) : (blank k).length = k := by simp [blank]

theorem blank_getElem? (k j : Nat) : (blank k)[j]? = if j < k then some none else none := by
  simp [blank, List.getElem?_replicate]

/-! ### `room` -/

theorem room_length (s : Scr) (r n : Int) : (room s r n).length = s.length := by
  unfold room
  split
  · rfl
  · simp only []
    split
    · simp [blank]; omega
    · split
      · simp [blank]; omega
      · rfl

theorem room_zero (s : Scr) (r : Int) : room s r 0 = s := by
  unfold room; simp

theorem room_outside (s : Scr) (r n : Int) (h : r < 0 ∨ (s.length : Int) ≤ r) : room s r n = s := by
  unfold room
  rw [if_pos]
  simp only [Bool.or_eq_true, decide_eq_true_eq]; omega

/-- deleting rows: the rows below move up, blanks enter at the bottom -/
theorem room_del_getElem? (s : Scr) (r : Nat) (n : Int) (hr : r < s.length) (hn : n < 0) (j : Nat) :
    (room s (r : Int) n)[j]? =
      if j < r then s[j]?
      else if j + min (-n).toNat (s.length - r) < s.length then s[j + min (-n).toNat (s.length - r)]?
      else if j < s.length then some none else none := by
  unfold room
  rw [if_neg (by simp only [Bool.or_eq_true, decide_eq_true_eq]; omega)]
  simp only [Int.toNat_natCast]
  rw [if_pos hn]
  generalize hk : min (-n).toNat (s.length - r) = k
  have hk' : k ≤ s.length - r := by omega
  by_cases h1 : j < r
  · rw [if_pos h1, List.append_assoc, List.getElem?_append_left (by simp; omega)]
    simp [h1]
  · rw [if_neg h1, List.append_assoc, List.getElem?_append_right (by simp; omega)]
    simp only [List.length_take]
    rw [show min r s.length = r by omega]
    by_cases h2 : j + k < s.length
    · rw [if_pos h2, List.getElem?_append_left (by simp; omega), List.getElem?_drop]
      congr 1; omega
    · rw [if_neg h2, List.getElem?_append_right (by simp; omega), blank_getElem?]
      simp only [List.length_drop]
      by_cases h3 : j < s.length
      · rw [if_pos h3, if_pos (by omega)]
      · rw [if_neg h3, if_neg (by omega)]

/-- inserting rows: blanks enter at the cursor row, the rows below move down and fall off -/
theorem room_ins_getElem? (s : Scr) (r : Nat) (n : Int) (hr : r < s.length) (hn : 0 < n) (j : Nat) :
    (room s (r : Int) n)[j]? =
      if j < r then s[j]?
      else if j < r + min n.toNat (s.length - r) then some none
      else if j < s.length then s[j - min n.toNat (s.length - r)]? else none := by
  unfold room
  rw [if_neg (by simp only [Bool.or_eq_true, decide_eq_true_eq]; omega)]
  simp only [Int.toNat_natCast]
  rw [if_neg (by omega), if_pos hn]
  generalize hk : min n.toNat (s.length - r) = k
  have hk' : k ≤ s.length - r := by omega
  by_cases h1 : j < r
  · rw [if_pos h1, List.append_assoc, List.getElem?_append_left (by simp; omega)]
    simp [h1]
  · rw [if_neg h1, List.append_assoc, List.getElem?_append_right (by simp; omega)]
    simp only [List.length_take]
    rw [show min r s.length = r by omega]
    by_cases h2 : j < r + k
    · rw [if_pos h2, List.getElem?_append_left (by simp [blank]; omega), blank_getElem?, if_pos (by omega)]
    · rw [if_neg h2, List.getElem?_append_right (by simp [blank]; omega), blank_length]
      by_cases h3 : j < s.length
      · rw [if_pos h3, List.getElem?_take, if_pos (by omega), List.getElem?_drop]
        congr 1; omega
      · rw [if_neg h3, List.getElem?_take, if_neg (by omega)]

/-! ### `drawRow`, `drawRows` -/

theorem drawRow_length (s : Scr) (ls : Lines) (xtop xleft i : Int) :
    (drawRow s ls xtop xleft i).length = s.length := by
  unfold drawRow
  simp only []
  split <;> simp

theorem drawRow_getElem? (s : Scr) (ls : Lines) (xtop xleft i : Int) (j : Nat) :
    (drawRow s ls xtop xleft i)[j]? =
      if j < s.length ∧ i = xtop + (j : Int) then some (some (img ls xleft i)) else s[j]? := by
  unfold drawRow
  simp only []
  split
  · rename_i h
    simp only [Bool.or_eq_true, decide_eq_true_eq] at h
    rw [if_neg (by omega)]
  · rename_i h
    simp only [Bool.or_eq_true, decide_eq_true_eq] at h
    rw [List.getElem?_set]
    by_cases h1 : (i - xtop).toNat = j
    · rw [if_pos h1, if_pos (by omega), if_pos (by omega)]
    · rw [if_neg h1, if_neg (by omega)]

theorem drawRows_length (s : Scr) (ls : Lines) (xtop xleft : Int) (is : List Int) :
    (drawRows s ls xtop xleft is).length = s.length := by
  unfold drawRows
  induction is generalizing s with
  | nil => rfl
  | cons i is ih => rw [List.foldl_cons, ih, drawRow_length]

theorem drawRows_nil (s : Scr) (ls : Lines) (xtop xleft : Int) : drawRows s ls xtop xleft [] = s := rfl

theorem drawRows_cons (s : Scr) (ls : Lines) (xtop xleft i : Int) (is : List Int) :
    drawRows s ls xtop xleft (i :: is) = drawRows (drawRow s ls xtop xleft i) ls xtop xleft is := rfl

theorem drawRows_append (s : Scr) (ls : Lines) (xtop xleft : Int) (is js : List Int) :
    drawRows s ls xtop xleft (is ++ js) = drawRows (drawRows s ls xtop xleft is) ls xtop xleft js := by
  unfold drawRows; rw [List.foldl_append]

/-- the order of the rows does not matter: a text row shows the line it stands for iff that line
    was among the rows drawn -/
theorem drawRows_getElem? (s : Scr) (ls : Lines) (xtop xleft : Int) (is : List Int) (j : Nat) :
    (drawRows s ls xtop xleft is)[j]? =
      if j < s.length ∧ xtop + (j : Int) ∈ is then some (some (img ls xleft (xtop + (j : Int)))) else s[j]? := by
  induction is generalizing s with
  | nil => simp [drawRows_nil]
  | cons i is ih =>
    rw [drawRows_cons, ih, drawRow_length, drawRow_getElem?]
    by_cases h1 : j < s.length ∧ xtop + (j : Int) ∈ is
    · rw [if_pos h1, if_pos ⟨h1.1, List.mem_cons_of_mem _ h1.2⟩]
    · rw [if_neg h1]
      by_cases h2 : j < s.length ∧ i = xtop + (j : Int)
      · rw [if_pos h2, if_pos ⟨h2.1, by rw [h2.2]; exact List.mem_cons_self⟩, h2.2]
      · rw [if_neg h2, if_neg]
        intro ⟨h3, h4⟩
        rcases List.mem_cons.mp h4 with h5 | h5
        · exact h2 ⟨h3, h5.symm⟩
        · exact h1 ⟨h3, h5⟩

/-! ### `repaint` -/

theorem repaint_length (ls : Lines) (top left : Int) (rows : Nat) : (repaint ls top left rows).length = rows := by
  simp [repaint]

theorem repaint_getElem (ls : Lines) (top left : Int) (rows k : Nat) (h : k < rows) :
    (repaint ls top left rows)[k]? = some (some (img ls left (top + (k : Int)))) := by
  simp [repaint, h]

theorem repaint_getElem_ge (ls : Lines) (top left : Int) (rows k : Nat) (h : rows ≤ k) :
    (repaint ls top left rows)[k]? = none := by
  simp [repaint, h]

/-- a screen is the repaint iff every row shows its line -/
theorem eq_repaint_iff (s : Scr) (ls : Lines) (top left : Int) (rows : Nat) :
    s = repaint ls top left rows ↔
      s.length = rows ∧ ∀ k, k < rows → s[k]? = some (some (img ls left (top + (k : Int)))) := by
  constructor
  · intro h; subst h
    exact ⟨repaint_length .., fun k hk => repaint_getElem _ _ _ _ _ hk⟩
  · intro ⟨hl, hk⟩
    apply List.ext_getElem?
    intro k
    by_cases h : k < rows
    · rw [hk k h, repaint_getElem _ _ _ _ _ h]
    · rw [repaint_getElem_ge _ _ _ _ _ (by omega), List.getElem?_eq_none (by omega)]

/-! ### membership in the row lists the routines build -/

theorem mem_rangeMap (a x : Int) (m : Nat) :
    x ∈ (List.range m).map (fun (i : Nat) => a + (i : Int)) ↔ a ≤ x ∧ x < a + (m : Int) := by
  simp only [List.mem_map, List.mem_range]
  constructor
  · rintro ⟨i, hi, rfl⟩; omega
  · intro ⟨h1, h2⟩; exact ⟨(x - a).toNat, by omega, by omega⟩

theorem mem_rangeFilterMap (a b x : Int) (m : Nat) :
    x ∈ (List.range m).filterMap (fun (i : Nat) =>
        let row := a + (i : Int); if row < b then some row else none) ↔
      a ≤ x ∧ x < a + (m : Int) ∧ x < b := by
  simp only [List.mem_filterMap, List.mem_range]
  constructor
  · rintro ⟨i, hi, h⟩
    split at h
    · cases h; omega
    · cases h
  · intro ⟨h1, h2, h3⟩
    refine ⟨(x - a).toNat, by omega, ?_⟩
    rw [if_pos (by omega)]; congr 1; omega

end Neatvi.Lemmas.C19
