import NeatviVerif.Lemmas.C20cInv
/-!
# C20c lemmas, part 6: traces of atomic steps, tracking a buffer through them, locality

* `Ev`, `StepOk`, `Chain`: a run as a list of atomic steps `(before, event, after)`;
* `Ev.move`: where the record of slot `i` goes in one step (`none`: it is deleted);
* `obsAt ed i`: what a user sees of the buffer in slot `i`: path, text with its history and marks
  (without the sequence counter), position (the editor's when current, the stored one when
  parked), time stamp — the dirty flag is a function of it;
* `own tr i`: the projection of the run onto the buffer that starts in slot `i`: the local steps
  taken while it is current;
* `locality`: the final state of the buffer is linked to its initial state through its own steps
  alone.
-/
namespace Neatvi.Lemmas.C20c
open Neatvi Neatvi.Lbuf Neatvi.Ex Neatvi.Rset Neatvi.Props.C20 Neatvi.Props.C20b Neatvi.Lemmas.C20b
open Neatvi.Lemmas.ExFrame Neatvi.Lemmas.C02Ex

/-! ### events, steps, chains -/

inductive Ev where
  /-- a step acting on the current buffer (a guard, the text of `:a`, marks of `:g`, …) -/
  | loc
  /-- the dispatch of one ex command other than `:e`, `:b`, `:q`, `:g`, `:@` -/
  | cmd (f : Nat) (hd : String) (loc cmd arg : Bytes) (txt : Option Bytes)
  /-- nothing observable: sequence counters bumped, messages, files written by autowrite -/
  | quiet
  /-- `bufs_switch(idx)` -/
  | sw (idx : Nat)
  /-- `bufs_open(path)` into slot `k` -/
  | opn (k : Nat)
  /-- `bufs_shift()`: slot 0 is deleted -/
  | shift
  /-- `bufs_init(0, "")` after the last buffer was deleted -/
  | fresh
  /-- `bufs_number()` -/
  | renum
deriving DecidableEq, Repr

/-- one atomic step -/
def StepOk (ed : Ed) : Ev → Ed → Prop
  | .loc, ed' => Loc ed ed'
  | .cmd f hd loc cmd arg txt, ed' => tableHandler hd = false ∧ ∃ r, runCmd f ed hd loc cmd arg txt = some (r, ed')
  | .quiet, ed' => Quiet ed ed'
  | .sw idx, ed' => ed' = ed.bufsSwitch idx ∧ (TableOk ed → (ed.bufs.getD idx none).isSome = true)
  | .opn k, ed' => k = ed.findRoom ∧ ∃ p, ed' = (ed.bufsOpen p).2
  | .shift, ed' => ed' = ed.bufsShift
  | .fresh, ed' => ed.cur = none ∧
      ed' = { ed with bufs := ed.bufs.set 0 (some (freshBuf ed)), bufsCnt := ed.bufsCnt + 1 }
  | .renum, ed' => ed' = renumEd ed

abbrev Trace := List (Ed × Ev × Ed)

/-- `tr` is a run from `ed` to `ed'`: consecutive steps fit, each is an atomic step -/
def Chain : Ed → Trace → Ed → Prop
  | ed, [], ed' => ed = ed'
  | ed, (a, ev, b) :: tr, ed' => a = ed ∧ StepOk a ev b ∧ Chain b tr ed'

theorem chain_append : ∀ (t1 : Trace) (t2 : Trace) (a b c : Ed), Chain a t1 b → Chain b t2 c → Chain a (t1 ++ t2) c := by
  intro t1
  induction t1 with
  | nil => intro t2 a b c h1 h2; cases h1; exact h2
  | cons s t1 ih =>
    intro t2 a b c h1 h2
    obtain ⟨x, ev, y⟩ := s
    exact ⟨h1.1, h1.2.1, ih t2 y b c h1.2.2 h2⟩

/-- `ed'` is reached from `ed` by atomic steps -/
def Steps (ed ed' : Ed) : Prop := ∃ tr, Chain ed tr ed'

theorem steps_one {ed ed' : Ed} (ev : Ev) (h : StepOk ed ev ed') : Steps ed ed' := ⟨[(ed, ev, ed')], rfl, h, rfl⟩

theorem steps_closed : StepClosed Steps where
  refl := fun _ => ⟨[], rfl⟩
  trans := fun ⟨t1, h1⟩ ⟨t2, h2⟩ => ⟨t1 ++ t2, chain_append _ _ _ _ _ h1 h2⟩
  loc := fun h => steps_one .loc h
  cmd := fun {f _ hd loc cmd arg txt r _} hl h => steps_one (.cmd f hd loc cmd arg txt) ⟨hl, r, h⟩
  quiet := fun h => steps_one .quiet h
  sw := fun _ idx hp => steps_one (.sw idx) ⟨rfl, hp⟩
  opn := fun ed p => steps_one (.opn ed.findRoom) ⟨rfl, p, rfl⟩
  shift := fun _ => steps_one .shift rfl
  fresh := fun _ h => steps_one .fresh ⟨h, rfl⟩
  renum := fun _ => steps_one .renum rfl

theorem stepOk_tableOk {ed ed' : Ed} {ev : Ev} (h : StepOk ed ev ed') (hok : TableOk ed) : TableOk ed' := by
  cases ev with
  | loc => exact tableOk_loc h hok
  | cmd f hd loc cmd arg txt =>
    obtain ⟨hl, r, hr⟩ := h
    exact tableOk_loc (runCmd_local_any _ _ _ _ _ _ _ _ _ hl hr) hok
  | quiet => exact tableOk_quiet h hok
  | sw idx => obtain ⟨e, hp⟩ := h; rw [e]; exact tableOk_switch ed idx (hp hok) hok
  | opn k => obtain ⟨_, p, e⟩ := h; rw [e]; exact tableOk_open ed p hok
  | shift => rw [show ed' = ed.bufsShift from h]; exact tableOk_shift ed hok
  | fresh => obtain ⟨_, e⟩ := h; rw [e]; exact tableOk_fresh ed hok
  | renum => rw [show ed' = renumEd ed from h]; exact tableOk_renum ed hok

theorem chain_tableOk : ∀ (tr : Trace) (ed ed' : Ed), Chain ed tr ed' → TableOk ed → TableOk ed' := by
  intro tr
  induction tr with
  | nil => intro ed ed' h hok; cases h; exact hok
  | cons s tr ih =>
    intro ed ed' h hok
    obtain ⟨a, ev, b⟩ := s
    obtain ⟨e, hs, hc⟩ := h
    subst e
    exact ih _ _ hc (stepOk_tableOk hs hok)

/-! ### where a slot goes -/

/-- the slot the record of slot `i` is in after the step; `none`: the record is gone -/
def Ev.move : Ev → Nat → Option Nat
  | .loc, i => some i
  | .cmd .., i => some i
  | .quiet, i => some i
  | .sw idx, i => some (if i = idx then 0 else if i < idx then i + 1 else i)
  | .opn k, i => if i = k then none else some i
  | .shift, i => if i = 0 then none else some (i - 1)
  | .fresh, i => if i = 0 then none else some i
  | .renum, i => some i

/-- a record disappears only by `:b !` on it (`bufs_shift` deletes slot 0), or by `bufs_open` taking
    its slot -/
theorem move_none_iff (ev : Ev) (i : Nat) :
    ev.move i = none ↔ (ev = .shift ∧ i = 0) ∨ (ev = .fresh ∧ i = 0) ∨ ev = .opn i := by
  cases ev <;> simp [Ev.move]
  · rename_i k; exact eq_comm

/-! ### what is observed of a buffer -/

/-- the record with the editor's view in place of the stored one when it is the current buffer -/
def viewed (ed : Ed) (i : Nat) (b : Buf) : Buf :=
  if i = 0 then { b with row := ed.xrow, off := ed.xoff, top := ed.xtop, left := ed.xleft, td := ed.xtd } else b

/-- the record without its number and without the sequence counter of its text -/
def obsB (b : Buf) : Buf := { b with id := 0, lb := { b.lb with useq := 0 } }

/-- what is observed of the buffer in slot `i` -/
def obsAt (ed : Ed) (i : Nat) : Option Buf := (ed.bufs.getD i none).map (fun b => obsB (viewed ed i b))

/-- the number of the buffer in slot `i` -/
def idAt (ed : Ed) (i : Nat) : Option Int := (ed.bufs.getD i none).map (·.id)

/-- the dirty flag (`lbuf_modified`) is a function of what is observed -/
theorem dirty_obsB (b : Buf) : (modified (obsB b).lb).1 = (modified b.lb).1 := rfl

theorem dirty_viewed (ed : Ed) (i : Nat) (b : Buf) : (modified (viewed ed i b).lb).1 = (modified b.lb).1 := by
  unfold viewed; split <;> rfl

theorem obsB_viewed_core (ed : Ed) (i : Nat) (b : Buf) : obsB (viewed ed i (coreB b)) = obsB (viewed ed i b) := by
  unfold viewed; split <;> rfl

theorem obsB_viewed_congr {ed ed' : Ed} (i : Nat) (b : Buf)
    (h1 : ed'.xrow = ed.xrow) (h2 : ed'.xoff = ed.xoff) (h3 : ed'.xtop = ed.xtop) (h4 : ed'.xleft = ed.xleft)
    (h5 : ed'.xtd = ed.xtd) : obsB (viewed ed' i b) = obsB (viewed ed i b) := by
  unfold viewed; rw [h1, h2, h3, h4, h5]

theorem obsAt_congr {ed ed' : Ed} (i j : Nat) (hb : ed'.bufs.getD j none = ed.bufs.getD i none) (hij : j = 0 ↔ i = 0)
    (h1 : ed'.xrow = ed.xrow) (h2 : ed'.xoff = ed.xoff) (h3 : ed'.xtop = ed.xtop) (h4 : ed'.xleft = ed.xleft)
    (h5 : ed'.xtd = ed.xtd) : obsAt ed' j = obsAt ed i := by
  unfold obsAt
  rw [hb]
  congr 1
  funext b
  unfold viewed
  by_cases hi : i = 0
  · rw [if_pos hi, if_pos (hij.2 hi), h1, h2, h3, h4, h5]
  · rw [if_neg hi, if_neg (fun h => hi (hij.1 h))]

/-! ### `bufs_switch`, slot by slot, without a bound on the index -/

theorem switch_getD' (ed : Ed) (idx j : Nat) :
    (ed.bufsSwitch idx).bufs.getD j none = (leftBufs ed).getD (switchSrc idx j) none := by
  rw [switch_rotation]
  generalize leftBufs ed = L
  unfold switchSrc
  cases j with
  | zero => simp
  | succ j =>
    rw [if_neg (by omega)]
    simp only [List.cons_append, List.nil_append, List.getD_eq_getElem?_getD, List.getElem?_cons_succ]
    split
    · next hj =>
      by_cases hl : j < (L.take idx).length
      · rw [List.getElem?_append_left hl, List.getElem?_take_of_lt (by omega)]; rfl
      · -- beyond the table: both sides are empty
        have hL : L.length ≤ j := by simp at hl; omega
        rw [List.getElem?_append_right (by omega), List.getElem?_drop]
        rw [List.getElem?_eq_none (by simp; omega)]
        show _ = (L[j + 1 - 1]?).getD none
        rw [show j + 1 - 1 = j by omega, List.getElem?_eq_none hL]
    · next hj =>
      have hlen : (L.take idx).length ≤ j := by simp; omega
      rw [List.getElem?_append_right hlen, List.getElem?_drop]
      by_cases hl : idx ≤ L.length
      · congr 2
        simp [Nat.min_eq_left hl]; omega
      · have hL : L.length ≤ j + 1 := by omega
        rw [List.getElem?_eq_none (by omega), List.getElem?_eq_none hL]

/-- the view after a switch is the stored position of the new slot 0 -/
theorem switch_view (ed : Ed) (idx : Nat) (b : Buf) (h : (ed.bufsSwitch idx).bufs.getD 0 none = some b) :
    (ed.bufsSwitch idx).xrow = b.row ∧ (ed.bufsSwitch idx).xoff = b.off ∧ (ed.bufsSwitch idx).xtop = b.top ∧
    (ed.bufsSwitch idx).xleft = b.left ∧ (ed.bufsSwitch idx).xtd = b.td := by
  rw [switch_def] at h ⊢
  rw [bufsLoad_bufs] at h
  exact (bufsLoad_view _ b h).2

theorem obsB_leftRec (ed : Ed) (b : Buf) : obsB (leftRec ed b) = obsB (viewed ed 0 b) := rfl

/-- **a switch moves records, it does not change them**: what is observed of the record of slot `i`
    is observed in the slot it moved to — for the buffer left (its view is stored), for the buffer
    reached (its stored position becomes the view), for all others -/
theorem switch_obs (ed : Ed) (idx i : Nat) :
    obsAt (ed.bufsSwitch idx) (if i = idx then 0 else if i < idx then i + 1 else i) = obsAt ed i := by
  by_cases h1 : i = idx
  · -- the buffer reached
    rw [if_pos h1]
    subst h1
    have hg := switch_getD' ed i 0
    rw [show switchSrc i 0 = i from by simp [switchSrc]] at hg
    unfold obsAt
    cases i with
    | zero =>
      cases hb : ed.bufs.getD 0 none with
      | none => rw [hg, leftBufs_zero_none ed hb]; rfl
      | some b0 =>
        rw [leftBufs_zero ed b0 hb] at hg
        obtain ⟨v1, v2, v3, v4, v5⟩ := switch_view ed 0 _ hg
        rw [hg]
        simp only [Option.map_some, Option.some.injEq]
        unfold viewed
        simp only [if_true]
        rw [v1, v2, v3, v4, v5]
        rfl
    | succ i =>
      rw [leftBufs_getD ed (i + 1) (by omega)] at hg
      cases hb : ed.bufs.getD (i + 1) none with
      | none => rw [hg, hb]; rfl
      | some b =>
        rw [hb] at hg
        obtain ⟨v1, v2, v3, v4, v5⟩ := switch_view ed (i + 1) _ hg
        rw [hg]
        simp only [Option.map_some, Option.some.injEq]
        unfold viewed
        simp only [if_true, if_neg (show ¬ (i + 1 = 0) by omega)]
        rw [v1, v2, v3, v4, v5]
  · rw [if_neg h1]
    by_cases h2 : i < idx
    · rw [if_pos h2]
      have hg := switch_getD' ed idx (i + 1)
      rw [show switchSrc idx (i + 1) = i from by simp [switchSrc]; omega] at hg
      unfold obsAt
      rw [hg]
      cases i with
      | zero =>
        cases hb : ed.bufs.getD 0 none with
        | none => rw [leftBufs_zero_none ed hb]; rfl
        | some b0 =>
          rw [leftBufs_zero ed b0 hb]
          simp only [Option.map_some, Option.some.injEq]
          rw [show viewed (ed.bufsSwitch idx) (0 + 1) (leftRec ed b0) = leftRec ed b0 from rfl]
          exact obsB_leftRec ed b0
      | succ i =>
        rw [leftBufs_getD ed (i + 1) (by omega)]
        congr 1
    · rw [if_neg h2]
      have hg := switch_getD' ed idx i
      rw [switchSrc_gt idx i (by omega), leftBufs_getD ed i (by omega)] at hg
      unfold obsAt
      rw [hg]
      congr 1
      funext b
      unfold viewed
      rw [if_neg (by omega), if_neg (by omega)]

theorem switch_idAt (ed : Ed) (idx i : Nat) :
    idAt (ed.bufsSwitch idx) (if i = idx then 0 else if i < idx then i + 1 else i) = idAt ed i := by
  have key : ∀ j, (ed.bufsSwitch idx).bufs.getD j none = (leftBufs ed).getD (switchSrc idx j) none := switch_getD' ed idx
  have hl : ∀ k, ((leftBufs ed).getD k none).map (·.id) = (ed.bufs.getD k none).map (·.id) := by
    intro k
    cases k with
    | zero =>
      cases hb : ed.bufs.getD 0 none with
      | none => rw [leftBufs_zero_none ed hb]
      | some b0 => rw [leftBufs_zero ed b0 hb]; rfl
    | succ k => rw [leftBufs_getD ed (k + 1) (by omega)]
  unfold idAt
  rw [key, hl]
  congr 2
  unfold switchSrc
  by_cases h1 : i = idx
  · rw [if_pos h1, if_pos rfl, h1]
  · rw [if_neg h1]
    by_cases h2 : i < idx
    · rw [if_pos h2, if_neg (by omega), if_pos (by omega)]; omega
    · rw [if_neg h2, if_neg (by omega), if_neg (by omega)]

/-! ### one step -/

theorem bufsOpen_view (ed : Ed) (p : Bytes) :
    (ed.bufsOpen p).2.xrow = ed.xrow ∧ (ed.bufsOpen p).2.xoff = ed.xoff ∧ (ed.bufsOpen p).2.xtop = ed.xtop ∧
    (ed.bufsOpen p).2.xleft = ed.xleft ∧ (ed.bufsOpen p).2.xtd = ed.xtd := ⟨rfl, rfl, rfl, rfl, rfl⟩

/-- the events that act on the current buffer -/
def Ev.isOwn : Ev → Bool
  | .loc => true
  | .cmd .. => true
  | _ => false

/-- what a step that acts on the current buffer does to the table: a local step -/
theorem stepOk_loc {ed ed' : Ed} {ev : Ev} (h : StepOk ed ev ed') (hown : ev.isOwn = true) : Loc ed ed' := by
  cases ev with
  | loc => exact h
  | cmd f hd loc cmd arg txt =>
    obtain ⟨hl, r, hr⟩ := h
    exact runCmd_local_any _ _ _ _ _ _ _ _ _ hl hr
  | _ => cases hown

theorem loc_obs {ed ed' : Ed} (h : Loc ed ed') (i : Nat) (hi : i ≠ 0) : obsAt ed' i = obsAt ed i := by
  unfold obsAt
  rw [Loc.getD h i (by omega)]
  congr 1
  funext b
  unfold viewed
  rw [if_neg hi, if_neg hi]

/-- **one atomic step keeps what is observed of every record it does not delete**, except the
    current one in a step that acts on the current buffer -/
theorem step_obs {ed ed' : Ed} {ev : Ev} (h : StepOk ed ev ed') (i j : Nat) (hm : ev.move i = some j)
    (hloc : ev.isOwn = true → i ≠ 0) : obsAt ed' j = obsAt ed i := by
  cases ev with
  | loc =>
    simp only [Ev.move, Option.some.injEq] at hm
    subst hm
    exact loc_obs h i (hloc rfl)
  | cmd f hd loc cmd arg txt =>
    simp only [Ev.move, Option.some.injEq] at hm
    subst hm
    exact loc_obs (stepOk_loc h rfl) i (hloc rfl)
  | quiet =>
    simp only [Ev.move, Option.some.injEq] at hm
    subst hm
    have hq : Quiet ed ed' := h
    have hg := hq.getD i
    unfold obsAt
    cases h1 : ed'.bufs.getD i none with
    | none =>
      cases h2 : ed.bufs.getD i none with
      | none => rfl
      | some b => rw [h1, h2] at hg; cases hg
    | some b' =>
      cases h2 : ed.bufs.getD i none with
      | none => rw [h1, h2] at hg; cases hg
      | some b =>
        rw [h1, h2] at hg
        simp only [Option.map_some, Option.some.injEq] at hg ⊢
        rw [← obsB_viewed_core ed' i b', hg, obsB_viewed_core]
        exact obsB_viewed_congr i b hq.xrow hq.xoff hq.xtop hq.xleft hq.xtd
  | sw idx =>
    simp only [Ev.move, Option.some.injEq] at hm
    subst hm
    rw [h.1]
    exact switch_obs ed idx i
  | opn k =>
    obtain ⟨hk, p, e⟩ := h
    simp only [Ev.move] at hm
    split at hm
    · cases hm
    · next hik =>
      simp only [Option.some.injEq] at hm
      subst hm
      rw [e]
      refine obsAt_congr (ed := ed) i i ?_ Iff.rfl rfl rfl rfl rfl rfl
      exact (open_uses_free_slot ed p).2.2.2.2.2.2.1 i (by rw [← hk]; exact hik)
  | shift =>
    simp only [Ev.move] at hm
    split at hm
    · cases hm
    · next hi0 =>
      simp only [Option.some.injEq] at hm
      subst hm
      rw [show ed' = ed.bufsShift from h]
      have hg : ed.bufsShift.bufs.getD (i - 1) none = ed.bufs.getD i none := by
        rw [bufsShift_getD]; congr 1; omega
      by_cases hi1 : i = 1
      · subst hi1
        unfold obsAt
        rw [hg]
        cases hb : ed.bufs.getD 1 none with
        | none => rfl
        | some b =>
          obtain ⟨_, v1, v2, v3, v4, v5⟩ := (bufsShift_spec ed).2.2.2.2.2.2.2.1 b hb
          simp only [Option.map_some, Option.some.injEq]
          unfold viewed
          simp only [if_true, if_neg (show ¬ (1 = 0) by omega)]
          rw [v1, v2, v3, v4, v5]
      · unfold obsAt
        rw [hg]
        congr 1
        funext b
        unfold viewed
        rw [if_neg (by omega), if_neg (by omega)]
  | fresh =>
    obtain ⟨_, e⟩ := h
    simp only [Ev.move] at hm
    split at hm
    · cases hm
    · next hi0 =>
      simp only [Option.some.injEq] at hm
      subst hm
      rw [e]
      refine obsAt_congr (ed := ed) i i ?_ Iff.rfl rfl rfl rfl rfl rfl
      exact getD_set_ne _ _ _ _ _ hi0
  | renum =>
    simp only [Ev.move, Option.some.injEq] at hm
    subst hm
    rw [show ed' = renumEd ed from h, renumEd_eq]
    unfold obsAt
    show ((renumFrom 0 ed.bufs).getD i none).map _ = _
    rw [renumFrom_getD]
    cases ed.bufs.getD i none with
    | none => rfl
    | some b =>
      simp only [Option.map_some, Option.some.injEq]
      unfold viewed
      split <;> rfl

/-- the number travels with the record in every step but `:b ~` -/
theorem step_idAt {ed ed' : Ed} {ev : Ev} (h : StepOk ed ev ed') (i j : Nat) (hm : ev.move i = some j)
    (hre : ev ≠ .renum) : idAt ed' j = idAt ed i := by
  cases ev with
  | loc =>
    simp only [Ev.move, Option.some.injEq] at hm
    subst hm
    exact Loc.idAt h i
  | cmd f hd loc cmd arg txt =>
    simp only [Ev.move, Option.some.injEq] at hm
    subst hm
    exact Loc.idAt (stepOk_loc h rfl) i
  | quiet =>
    simp only [Ev.move, Option.some.injEq] at hm
    subst hm
    exact Quiet.idAt h i
  | sw idx =>
    simp only [Ev.move, Option.some.injEq] at hm
    subst hm
    rw [h.1]
    exact switch_idAt ed idx i
  | opn k =>
    obtain ⟨hk, p, e⟩ := h
    simp only [Ev.move] at hm
    split at hm
    · cases hm
    · next hik =>
      simp only [Option.some.injEq] at hm
      subst hm
      rw [e]
      unfold idAt
      rw [(open_uses_free_slot ed p).2.2.2.2.2.2.1 i (by rw [← hk]; exact hik)]
  | shift =>
    simp only [Ev.move] at hm
    split at hm
    · cases hm
    · next hi0 =>
      simp only [Option.some.injEq] at hm
      subst hm
      rw [show ed' = ed.bufsShift from h]
      unfold idAt
      rw [bufsShift_getD]
      congr 2; omega
  | fresh =>
    obtain ⟨_, e⟩ := h
    simp only [Ev.move] at hm
    split at hm
    · cases hm
    · next hi0 =>
      simp only [Option.some.injEq] at hm
      subst hm
      rw [e]
      unfold idAt
      show ((ed.bufs.set 0 _).getD i none).map _ = _
      rw [getD_set_ne _ _ _ _ _ hi0]
  | renum => exact absurd rfl hre

/-! ### a whole run -/

/-- the slot the record of slot `i` is in at the end of the run; `none`: deleted on the way -/
def track : Trace → Nat → Option Nat
  | [], i => some i
  | (_, ev, _) :: tr, i => (ev.move i).bind (track tr)

/-- **the projection of a run onto one buffer**: the steps (state before, event, state after) that
    act on the current buffer, taken while the record that starts in slot `i` is the current buffer -/
def own : Trace → Nat → Trace
  | [], _ => []
  | (a, ev, b) :: tr, i =>
    match ev.move i with
    | none => []
    | some j => (if ev.isOwn = true ∧ i = 0 then [(a, ev, b)] else []) ++ own tr j

/-- `o'` is obtained from `o` by the steps of the list, each applied to the current buffer: every
    step starts with the buffer as the previous one left it -/
def Linked : Option Buf → Trace → Option Buf → Prop
  | o, [], o' => o = o'
  | o, (a, _, b) :: l, o' => o = obsAt a 0 ∧ Linked (obsAt b 0) l o'

/-- **locality.** Along any run, the state of a buffer at the end is linked to its state at the
    start through its own steps alone: whatever happens while another buffer is current — edits,
    writes, undo, switches, listings, opening and deleting other buffers — leaves it as it was. -/
theorem locality : ∀ (tr : Trace) (ed ed' : Ed) (i j : Nat), Chain ed tr ed' → track tr i = some j →
    Linked (obsAt ed i) (own tr i) (obsAt ed' j) := by
  intro tr
  induction tr with
  | nil =>
    intro ed ed' i j h ht
    cases h
    simp only [track, Option.some.injEq] at ht
    subst ht
    exact rfl
  | cons s tr ih =>
    intro ed ed' i j h ht
    obtain ⟨a, ev, b⟩ := s
    obtain ⟨e, hs, hc⟩ := h
    subst e
    simp only [track] at ht
    cases hm : ev.move i with
    | none => rw [hm] at ht; cases ht
    | some m =>
      rw [hm] at ht
      simp only [Option.bind_some] at ht
      have ih' := ih b ed' m j hc ht
      simp only [own, hm]
      by_cases hl : ev.isOwn = true ∧ i = 0
      · rw [if_pos hl]
        obtain ⟨h1, h2⟩ := hl
        subst h2
        have hm0 : m = 0 := by
          cases ev <;> simp [Ev.isOwn] at h1 <;> simp only [Ev.move, Option.some.injEq] at hm <;> exact hm.symm
        subst hm0
        exact ⟨rfl, ih'⟩
      · rw [if_neg hl, List.nil_append]
        rw [← step_obs hs i m hm (fun e hi => hl ⟨e, hi⟩)]
        exact ih'

/-- a buffer that is never the current one during a local step ends as it started -/
theorem untouched (tr : Trace) (ed ed' : Ed) (i j : Nat) (h : Chain ed tr ed') (ht : track tr i = some j)
    (hown : own tr i = []) : obsAt ed' j = obsAt ed i := by
  have := locality tr ed ed' i j h ht
  rw [hown] at this
  exact this.symm

/-- the number of a buffer stays its number as long as `:b ~` is not used -/
theorem track_idAt : ∀ (tr : Trace) (ed ed' : Ed) (i j : Nat), Chain ed tr ed' → track tr i = some j →
    (∀ s ∈ tr, s.2.1 ≠ Ev.renum) → idAt ed' j = idAt ed i := by
  intro tr
  induction tr with
  | nil =>
    intro ed ed' i j h ht _
    cases h
    simp only [track, Option.some.injEq] at ht
    subst ht
    rfl
  | cons s tr ih =>
    intro ed ed' i j h ht hre
    obtain ⟨a, ev, b⟩ := s
    obtain ⟨e, hs, hc⟩ := h
    subst e
    simp only [track] at ht
    cases hm : ev.move i with
    | none => rw [hm] at ht; cases ht
    | some m =>
      rw [hm] at ht
      simp only [Option.bind_some] at ht
      rw [ih b ed' m j hc ht (fun s hs => hre s (List.mem_cons_of_mem _ hs))]
      exact step_idAt hs i m hm (hre _ List.mem_cons_self)

/-- when a record is lost, it is at one definite step: a deletion of the current buffer, or
    `bufs_open` taking its slot -/
theorem track_none : ∀ (tr : Trace) (i : Nat), track tr i = none →
    ∃ pre a ev b post k, tr = pre ++ (a, ev, b) :: post ∧ track pre i = some k ∧
      ((ev = .shift ∧ k = 0) ∨ (ev = .fresh ∧ k = 0) ∨ ev = .opn k) := by
  intro tr
  induction tr with
  | nil => intro i h; cases h
  | cons s tr ih =>
    intro i h
    obtain ⟨a, ev, b⟩ := s
    simp only [track] at h
    cases hm : ev.move i with
    | none => exact ⟨[], a, ev, b, tr, i, rfl, rfl, (move_none_iff ev i).1 hm⟩
    | some m =>
      rw [hm] at h
      simp only [Option.bind_some] at h
      obtain ⟨pre, a', ev', b', post, k, e, ht, hc⟩ := ih m h
      refine ⟨(a, ev, b) :: pre, a', ev', b', post, k, by rw [e]; rfl, ?_, hc⟩
      simp only [track, hm, Option.bind_some]
      exact ht

end Neatvi.Lemmas.C20c
