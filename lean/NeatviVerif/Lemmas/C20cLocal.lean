import NeatviVerif.Lemmas.C20cSubstWrite
/-!
# C20c lemmas, part 3: every ex command other than `:e`, `:b`, `:q`, `:g`, `:@` is a local step

`runCmd_local`: whatever such a command does, every parked buffer record is exactly what it was
(`Loc`): text, history, marks, stored position, path, number, time stamp.  This covers `:w` and
`:w path` (they write the *current* buffer), `:r`, `:s`, `:d`, `:pu`, `:u`, `:redo`, `:!`, …
-/
namespace Neatvi.Lemmas.C20c
open Neatvi Neatvi.Lbuf Neatvi.Ex Neatvi.Rset Neatvi.Props.C20 Neatvi.Props.C20b Neatvi.Lemmas.C20b
open Neatvi.Lemmas.ExFrame Neatvi.Lemmas.C02Ex Neatvi.Lemmas.C02b

theorem Loc.edit3 {ed0 edm ed ed1 ed' : Ed} {s : Option Bytes} {b e : Int} (he : ed.edit s b e = some ed1)
    (h : Loc ed0 edm) (hb0 : ed.bufs = edm.bufs) (hc0 : ed.bufsCnt = edm.bufsCnt)
    (hb : ed'.bufs = ed1.bufs) (hc : ed'.bufsCnt = ed1.bufsCnt) : Loc ed0 ed' :=
  ((h.to hb0 hc0).trans (loc_edit he)).to hb hc

theorem runCmd_print_loc (f : Nat) (ed ed' : Ed) (loc cmd arg : Bytes) (txt : Option Bytes) (r : Int)
    (h : runCmd f ed "ec_print" loc cmd arg txt = some (r, ed')) : Loc ed ed' := by
  cases f with
  | zero => rw [runCmd] at h; cases h
  | succ f =>
    rw [runCmd] at h
    rw [if_neg (by decide), if_pos (by decide)] at h
    split at h
    · cases h; exact Loc.refl _
    · split at h
      · cases h
      · rename_i hr
        have e1 : Loc ed _ := Loc.of_same (exRegion_same hr)
        split at h
        · cases h; exact e1
        · cases h
          exact (e1.same (foldl_print_same _ _ _)).to rfl rfl

/-- the handlers that work on the buffer table or run other command lines -/
def tableHandler (h : String) : Bool :=
  h == "ec_edit" || h == "ec_buffer" || h == "ec_quit" || h == "ec_glob" || h == "ec_at"

/-- every other command is a local step -/
theorem runCmd_local (f : Nat) (ed ed' : Ed) (hd : String) (loc cmd arg : Bytes) (txt : Option Bytes) (r : Int)
    (hl : tableHandler hd = false)
    (h : runCmd (f + 1) ed hd loc cmd arg txt = some (r, ed')) : Loc ed ed' := by
  have hi : Loc ed ed := Loc.refl ed
  simp only [tableHandler, Bool.or_eq_false_iff, beq_eq_false_iff_ne, ne_eq] at hl
  obtain ⟨⟨⟨⟨he, hbuf⟩, hq⟩, hglob⟩, hat⟩ := hl
  by_cases hs : hd = "ec_substitute"
  · subst hs
    exact subst_loc f ed ed' loc cmd arg txt r h
  by_cases hw : hd = "ec_write"
  · subst hw
    rw [runCmd_write] at h
    exact ecWrite_loc h
  rw [runCmd] at h
  by_cases c : (hd == "ec_insert") = true
  · rw [if_pos c] at h
    simp only [] at h
    split at h
    · cases h
    · rename_i hr
      have e1 : Loc ed _ := Loc.of_same (exRegion_same hr)
      repeat' (split at h)
      all_goals (first | cases h | skip)
      all_goals (first | exact e1 | exact Loc.edit3 (by assumption) e1 (by rfl) (by rfl) (by rfl) (by rfl))
  rw [if_neg c] at h; clear c
  by_cases c : (hd == "ec_print") = true
  · have : hd = "ec_print" := by simpa using c
    subst this
    have h' : runCmd (f + 1) ed "ec_print" loc cmd arg txt = some (r, ed') := by
      rw [runCmd, if_neg (by decide), if_pos (by decide)]
      rw [if_pos c] at h
      exact h
    exact runCmd_print_loc _ _ _ _ _ _ _ _ h'
  rw [if_neg c] at h; clear c
  by_cases c : (hd == "ec_null") = true
  · rw [if_pos c] at h
    split at h
    · simp only [] at h
      have h2 := runCmd_print_loc _ _ _ _ _ _ _ _ h
      refine Loc.trans ?_ h2
      exact Loc.of_same ⟨rfl, rfl⟩
    · split at h
      · cases h
      · rename_i hr
        have e1 : Loc ed _ := Loc.of_same (exRegion_same hr)
        split at h
        · cases h; exact e1
        · cases h; exact e1.to rfl rfl
  rw [if_neg c] at h; clear c
  by_cases c : (hd == "ec_delete" || hd == "ec_yank") = true
  · rw [if_pos c] at h
    simp only [] at h
    split at h
    · cases h
    · rename_i hr
      have e1 : Loc ed _ := Loc.of_same (exRegion_same hr)
      repeat' (split at h)
      all_goals (first | cases h | skip)
      all_goals (first | exact e1 | exact e1.to rfl rfl | exact Loc.edit3 (by assumption) e1 (by rfl) (by rfl) (by rfl) (by rfl))
  rw [if_neg c] at h; clear c
  by_cases c : (hd == "ec_put") = true
  · rw [if_pos c] at h
    simp only [] at h
    split at h
    · cases h; exact hi
    · split at h
      · cases h
      · rename_i hr
        have e1 : Loc ed _ := Loc.of_same (exRegion_same hr)
        repeat' (split at h)
        all_goals (first | cases h | skip)
        all_goals (first | exact e1 | exact Loc.edit3 (by assumption) e1 (by rfl) (by rfl) (by rfl) (by rfl))
  rw [if_neg c] at h; clear c
  by_cases c : (hd == "ec_lnum") = true
  · rw [if_pos c] at h
    split at h
    · cases h
    · rename_i hr
      have e1 : Loc ed _ := Loc.of_same (exRegion_same hr)
      split at h
      · cases h; exact e1
      · cases h; exact e1.to rfl rfl
  rw [if_neg c] at h; clear c
  by_cases c : (hd == "ec_undo") = true
  · rw [if_pos c] at h
    split at h
    · cases h
    · cases h
      exact loc_setLb _ _
  rw [if_neg c] at h; clear c
  by_cases c : (hd == "ec_redo") = true
  · rw [if_pos c] at h
    split at h
    · cases h
    · cases h
      exact loc_setLb _ _
  rw [if_neg c] at h; clear c
  by_cases c : (hd == "ec_mark") = true
  · rw [if_pos c] at h
    split at h
    · cases h
    · rename_i hr
      have e1 : Loc ed _ := Loc.of_same (exRegion_same hr)
      split at h
      · cases h; exact e1
      · split at h
        · cases h
        · cases h
          exact e1.trans (loc_setLb _ _)
  rw [if_neg c] at h; clear c
  by_cases c : (hd == "ec_rs") = true
  · rw [if_pos c] at h
    cases h; exact hi.to rfl rfl
  rw [if_neg c] at h; clear c
  by_cases c : (hd == "ec_at") = true
  · exact absurd (by simpa using c) hat
  rw [if_neg c] at h; clear c
  by_cases c : (hd == "ec_glob") = true
  · exact absurd (by simpa using c) hglob
  rw [if_neg c] at h; clear c
  by_cases c : (hd == "ec_edit") = true
  · exact absurd (by simpa using c) he
  rw [if_neg c] at h; clear c
  by_cases c : (hd == "ec_substitute") = true
  · exact absurd (by simpa using c) hs
  rw [if_neg c] at h; clear c
  by_cases c : (hd == "ec_exec") = true
  · rw [if_pos c] at h
    simp only [] at h
    split at h
    · cases h
    · rename_i ed1 hg
      cases h
      exact loc_guard0 hg
    · rename_i ed1 hg
      have e0 : Loc ed ed1 := loc_guard0 hg
      split at h
      · cases h
      · rename_i ed2 hp
        cases h
        exact e0.same (pathExpand_same hp)
      · rename_i ecmd ed2 hp
        have e1 : Loc ed ed2 := e0.same (pathExpand_same hp)
        split at h
        · cases h; exact e1.to rfl rfl
        · split at h
          · cases h
          · rename_i hr
            have e2 := e1.same (exRegion_same hr)
            repeat' (split at h)
            all_goals (first | cases h | skip)
            all_goals (first | exact e2 | exact e2.to rfl rfl | skip)
            · rename_i hm
              cases hx : Ed.edit _ _ _ _ with
              | none => rw [hx] at h; cases h
              | some edx =>
                rw [hx] at h
                cases h
                exact e2.trans (loc_edit hx)
  rw [if_neg c] at h; clear c
  by_cases c : (hd == "ec_read") = true
  · rw [if_pos c] at h
    simp only [] at h
    split at h
    · cases h
    · rename_i path ed1 hp
      have e0 : Loc ed ed1 := by
        split at hp
        · exact Loc.of_same (pathExpand_same hp)
        · cases hp; exact hi
      split at h
      · cases h
      · rename_i edr hr
        have e1 := e0.same (exRegion_same hr)
        repeat' (split at h)
        all_goals (first | cases h | skip)
        all_goals (first | exact e1 | exact e1.to rfl rfl | skip)
        · rename_i hm
          split at hm
          · exact (e1.trans (loc_edit hm)).to rfl rfl
          · cases hm; exact e1.to rfl rfl
        · rename_i lb1 hrd
          exact (e1.trans (loc_setLb _ lb1)).to rfl rfl
  rw [if_neg c] at h; clear c
  by_cases c : (hd == "ec_write") = true
  · exact absurd (by simpa using c) hw
  rw [if_neg c] at h; clear c
  by_cases c : (hd == "ec_quit") = true
  · exact absurd (by simpa using c) hq
  rw [if_neg c] at h; clear c
  by_cases c : (hd == "ec_buffer") = true
  · exact absurd (by simpa using c) hbuf
  rw [if_neg c] at h; clear c
  by_cases c : (hd == "ec_set") = true
  · rw [if_pos c] at h
    simp only [] at h
    repeat' (split at h)
    all_goals (first | cases h | skip)
    all_goals (first | exact hi | exact hi.to rfl rfl | exact Loc.of_same (setOpt_same _ _ _))
  rw [if_neg c] at h; clear c
  by_cases c : (hd == "ec_echo") = true
  · rw [if_pos c] at h
    cases h; exact hi.to rfl rfl
  rw [if_neg c] at h; clear c
  cases h; exact hi.to rfl rfl

/-- the same for every fuel -/
theorem runCmd_local_any (f : Nat) (ed ed' : Ed) (hd : String) (loc cmd arg : Bytes) (txt : Option Bytes) (r : Int)
    (hl : tableHandler hd = false) (h : runCmd f ed hd loc cmd arg txt = some (r, ed')) : Loc ed ed' := by
  cases f with
  | zero => rw [runCmd] at h; cases h
  | succ f => exact runCmd_local f ed ed' hd loc cmd arg txt r hl h

end Neatvi.Lemmas.C20c
