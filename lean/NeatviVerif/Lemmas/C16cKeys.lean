import NeatviVerif.Lemmas.C16cOps
import NeatviVerif.Props.C08e
/-!
# C16c, part 11: `c` given valid typed text; typed lines are valid text
-/
set_option linter.unusedSimpArgs false
set_option linter.unusedVariables false
namespace Neatvi.Lemmas.C16c
open Neatvi Neatvi.Uc Neatvi.Spec Neatvi.Lbuf Neatvi.Ex Neatvi.Mot Neatvi.Vi Neatvi.Props.C11b Neatvi.Props.C16b
open Neatvi.Lemmas.C08 (bind_apply pure_apply get_apply liftO_some liftO_none regPut_apply setPos_apply setRow_apply setOff_apply edEdit_apply)

theorem prel_regPut (c : Nat) {txt : Bytes} (h : IsU8 txt) (ln : Nat) : Prel (regPut c txt ln) :=
  Prel.withEd (fun ed he => he.withRegs (he.regs.put _ h _))

theorem prel_drawfixTop (r : Int) (p : Bool) : Prel (drawfixTop r p) := by
  intro s a s' h
  unfold drawfixTop at h
  rw [bind_apply, get_apply] at h
  dsimp only at h
  split at h
  · cases h; exact ⟨fun hs => EdOk.to hs rfl, rfl⟩
  · cases h; exact ⟨id, rfl⟩

/-- **`vi_change`** (`c` with any region, `cc`, `s`, `S`, `C`), given that the typed text will be valid -/
theorem presT_viChange (r1 o1 r2 o2 : Int) (ln : Bool) : PresT (viChange r1 o1 r2 o2 ln) := by
  unfold viChange
  refine PresT.bind_get (fun s hs => ?_)
  refine PresT.bind_liftO (fun region hreg => ?_)
  refine PresT.bind_prel (prel_regPut _ (hs.region hreg) _) (fun _ => ?_)
  dsimp only
  repeat' first
    | with_reducible refine PresT.bind_get (fun _ _ => ?_)
    | with_reducible refine PresT.bind_prel (prel_setRow _) (fun _ => ?_)
    | with_reducible refine PresT.bind_prel (prel_drawfixTop _ _) (fun _ => ?_)
    | with_reducible refine PresT.bind_valU8 (by first | exact ValU8.liftO_subI (VsOk.lineE hs _) _ _ | valu8_tac hs) (fun _ _ => ?_)
    | (with_reducible refine PresT.input (by assumption) (by assumption) (fun _ _ => ?_); pres_tac2; all_goals (first | exact isU8_nl | assumption))
    | with_reducible refine PresT.ite ?_ ?_
    | (show PresT _; split)

/-! ## typed lines -/
open Neatvi.Lemmas.C08e (loopText keepB aiNext lnBlanks TLine TKey inputTextB)
open Neatvi.Lemmas.C08d (dropB lineKeys)
open Neatvi.Lemmas.C08b (aiOf prefRest aiOf_append_prefRest)
open Neatvi.Lemmas.C09 (pending)

theorem isU8_blanks {l : Bytes} (h : ∀ c ∈ l, isBlankC c = true) : IsU8 l := by
  apply isU8_ascii
  intro b hb
  have := h b hb
  unfold isBlankC at this
  simp only [Bool.or_eq_true, beq_iff_eq] at this
  rcases this with h1 | h1 <;> omega

theorem dropB_valid (b : Bool) {post : Bytes} (h : IsU8 post) : IsU8 (dropB b post) := by
  unfold dropB
  cases b
  · simpa using h
  · simp only [if_true]
    rw [drop_takeWhile_length]
    exact isU8_dropWhile_ascii h _ (by
      intro c hc; unfold isBlankC at hc
      simp only [Bool.or_eq_true, beq_iff_eq] at hc
      rcases hc with hc | hc <;> omega)

theorem aiNext_blank (b pne : Bool) {ai : Bytes} (ln : Bytes) (h : ∀ c ∈ ai, isBlankC c = true) :
    ∀ c ∈ aiNext b pne ai ln, isBlankC c = true := by
  unfold aiNext
  split
  · intro c hc; simp at hc
  · split
    · exact h
    · intro c hc
      rcases List.mem_append.mp hc with h1 | h1
      · exact h c h1
      · have h2 : c ∈ lnBlanks ln := (List.take_sublist _ _).subset h1
        unfold lnBlanks at h2
        exact mem_takeWhile_imp' _ _ _ h2

/-- the text `led_input` assembles from valid pieces is valid -/
theorem loopText_valid (b : Bool) : ∀ (ls : List Bytes) (pref : Option Bytes) (post ai last : Bytes),
    OptValid pref → IsU8 post → (∀ c ∈ ai, isBlankC c = true) → (∀ l ∈ ls, IsU8 l) → IsU8 last →
    IsU8 (loopText b pref post ai ls last) := by
  intro ls
  induction ls with
  | nil =>
    intro pref post ai last hp hq ha _ hl
    unfold loopText
    have hpv : IsU8 (pref.getD []) := by
      cases pref with
      | none => exact isU8_nil
      | some x => exact hp x rfl
    refine isU8_append (isU8_append (isU8_append ?_ hpv) hl) hq
    split
    · exact isU8_blanks ha
    · exact isU8_nil
  | cons l ls ih =>
    intro pref post ai last hp hq ha hls hl
    unfold loopText
    have hpv : IsU8 (pref.getD []) := by
      cases pref with
      | none => exact isU8_nil
      | some x => exact hp x rfl
    refine isU8_append (isU8_append (isU8_append (isU8_append ?_ hpv) (hls l (by simp))) isU8_nl) ?_
    · split
      · exact isU8_blanks ha
      · exact isU8_nil
    · exact ih none _ _ last optValid_none (dropB_valid b hq) (aiNext_blank b _ l ha) (fun x hx => hls x (by simp [hx])) hl

theorem aiOf_blank (pref : Bytes) : ∀ c ∈ aiOf pref, isBlankC c = true := by
  intro c hc
  unfold aiOf at hc
  exact mem_takeWhile_imp' _ _ _ ((List.take_sublist _ _).subset hc)

/-- **the text insert mode returns for typed lines is valid** when the text around the insertion point is -/
theorem inputText_valid (xai : Bool) {pref post : Bytes} (hp : IsU8 pref) (hq : IsU8 post) (ls : List (List Nat)) (last : List Nat)
    (hv : ∀ l ∈ last :: ls, ∀ c ∈ l, ValidCp c) : IsU8 (Props.C08e.inputText xai pref post ls last) := by
  unfold Props.C08e.inputText inputTextB
  apply loopText_valid
  · apply optValid_some.mpr
    have h := aiOf_append_prefRest pref
    exact isU8_of_append_right (by rw [h]; exact hp) (isU8_blanks (aiOf_blank pref))
  · exact hq
  · exact aiOf_blank pref
  · intro l hl
    simp only [Props.C08e.encLines, List.mem_map] at hl
    obtain ⟨l0, h0, rfl⟩ := hl
    exact isU8_encStr (hv l0 (by simp [h0]))
  · exact isU8_encStr (hv last (by simp))

/-- **typed lines**: when the keys to come are lines of printable characters and tabs (any valid code points
≥ U+0020 but DEL), each ended by a newline, the last by ESC, under the default keymap, the text insert mode
returns is valid UTF-8 -/
theorem typedTextValid_of_lines (s : VS) (ls : List (List Nat)) (last : List Nat) (rest : Bytes)
    (hp : pending s = (ls.map (fun l => encStr l ++ [10])).flatten ++ encStr last ++ [27] ++ rest)
    (hpl : ∀ l ∈ last :: ls, TLine l) (hlen : ls.length < 100000) (hk : s.xkmap = 0) : TypedTextValid s := by
  intro sI pref post r sJ hsI _ hpv hqv hin
  have hpI : pending sI = (ls.map (fun l => encStr l ++ [10])).flatten ++ encStr last ++ [27] ++ rest := by
    rw [hsI]; exact hp
  have hkI : sI.xkmap = 0 := by rw [hsI]; exact hk
  obtain ⟨s2, h1, _, _⟩ := Props.C08e.ledInput_lines_general pref post sI ls last rest hpI hpl hlen hkI
  unfold viInput at hin
  rw [bind_apply, h1] at hin
  dsimp only at hin
  cases hin
  exact inputText_valid _ hpv hqv ls last (fun l hl => (hpl l hl).valid)

end Neatvi.Lemmas.C16c
