import NeatviVerif.Lemmas.Hist
/-!
# C05d lemmas, part 1: the marks of a line buffer stay inside it

`LbPos lb`: every stored line is well formed, every mark (`'a`–`'z`, `''`, `'*`, `'[`, `']`, `'^` and the spare
slot) is unset (`-1`) or a row `0 … len` of the buffer, and the marks an undo record saved lie among the lines the
record puts back.  Kept by every function of the lbuf API the ex layer calls.
-/
namespace Neatvi.Lemmas.C05d
open Neatvi Neatvi.Lbuf Neatvi.LbufIo Neatvi.Spec Neatvi.Props.C01 Neatvi.Lemmas.Hist

/-- a mark of a buffer of `n` lines: unset (`-1`) or a row `0 … n` (`n` itself is the position "after the last
    line", which `lbuf_replace` produces when the tail of the buffer goes) -/
def MarkIn (n : Nat) (m : Int) : Prop := -1 ≤ m ∧ m ≤ n

def MarksIn (n : Nat) (l : List Int) : Prop := ∀ m ∈ l, MarkIn n m

theorem markIn_neg (n : Nat) : MarkIn n (-1) := ⟨Int.le_refl _, by omega⟩

theorem MarksIn.getD {n : Nat} {l : List Int} (h : MarksIn n l) (i : Nat) : MarkIn n (l.getD i (-1)) := by
  rw [List.getD_eq_getElem?_getD]
  cases hi : l[i]? with
  | none => exact markIn_neg n
  | some m => exact h m (List.mem_of_getElem? hi)

theorem MarksIn.set {n : Nat} {l : List Int} (h : MarksIn n l) (i : Nat) {x : Int} (hx : MarkIn n x) :
    MarksIn n (l.set i x) := by
  intro m hm
  rcases List.mem_or_eq_of_mem_set hm with hm | rfl
  · exact h m hm
  · exact hx

theorem MarksIn.mono {n n' : Nat} {l : List Int} (h : MarksIn n l) (hn : n ≤ n') : MarksIn n' l :=
  fun m hm => ⟨(h m hm).1, by have := (h m hm).2; omega⟩

theorem marksIn_replicate (n k : Nat) : MarksIn n (List.replicate k (-1)) := by
  intro m hm
  rw [List.mem_replicate] at hm
  rw [hm.2]; exact markIn_neg n

/-- the marks an undo record saved are rows among the lines the record deleted -/
def EntPos (e : Entry) : Prop :=
  ∀ ms offs, e.marks = some (ms, offs) → ∀ m ∈ ms, -1 ≤ m ∧ m < ((e.pos + lineCount e.del : Nat) : Int)

structure LbPos (lb : Lb) : Prop where
  wf : ∀ l ∈ lb.lines, WfLine l
  marks : MarksIn lb.lines.length lb.mark
  hist : ∀ e ∈ lb.hist, EntPos e

theorem lbPos_make : LbPos Lbuf.make where
  wf := by intro l hl; simp [Lbuf.make] at hl
  marks := marksIn_replicate _ _
  hist := by intro e he; simp [Lbuf.make] at he

/-- anything that leaves text, marks and history alone -/
theorem LbPos.congr {lb lb' : Lb} (h : LbPos lb) (h1 : lb'.lines = lb.lines) (h2 : lb'.mark = lb.mark)
    (h3 : lb'.hist = lb.hist) : LbPos lb' where
  wf := by rw [h1]; exact h.wf
  marks := by rw [h1, h2]; exact h.marks
  hist := by rw [h3]; exact h.hist

theorem lbPos_modified {lb : Lb} (h : LbPos lb) : LbPos (modified lb).2 := h.congr rfl rfl rfl
theorem lbPos_unsavedMark {lb : Lb} (h : LbPos lb) : LbPos (unsavedMark lb) := h.congr rfl rfl rfl
theorem lbPos_globSet {lb : Lb} (h : LbPos lb) (p d : Nat) : LbPos (globSet lb p d) := h.congr rfl rfl rfl
theorem lbPos_globGet {lb : Lb} (h : LbPos lb) (p d : Nat) : LbPos (globGet lb p d).2 := h.congr rfl rfl rfl

theorem lbPos_savedCore {lb : Lb} (h : LbPos lb) (c : Bool) : LbPos (savedCore lb c) := by
  unfold savedCore
  cases c
  · exact h.congr rfl rfl rfl
  · exact ⟨h.wf, h.marks, by intro e he; simp at he⟩

theorem setMark_mark (lb : Lb) (c : Nat) (p o : Int) :
    (setMark lb c p o).mark = match markIdx c with | some i => lb.mark.set i p | none => lb.mark := by
  unfold setMark
  cases markIdx c <;> rfl

/-- `lbuf_mark` with a position inside the buffer -/
theorem lbPos_setMark {lb : Lb} (h : LbPos lb) (c : Nat) (p o : Int) (hp : MarkIn lb.lines.length p) :
    LbPos (setMark lb c p o) where
  wf := by rw [setMark_lines]; exact h.wf
  marks := by
    rw [setMark_lines, setMark_mark]
    split
    · exact h.marks.set _ hp
    · exact h.marks
  hist := by rw [setMark_hist]; exact h.hist

/-! ### `lbuf_replace` -/

theorem updMark_in (sNull : Bool) (pos nIns nDel len : Nat) (m : Int) (hb : pos + nDel ≤ len) (hm : MarkIn len m) :
    MarkIn (len - nDel + nIns) (updMark sNull pos nIns nDel m) := by
  obtain ⟨h1, h2⟩ := hm
  unfold updMark MarkIn
  split
  · omega
  · split
    · omega
    · split
      · omega
      · omega

theorem replace_lines_length (lb lb' : Lb) (s : Option Bytes) (pos nDel : Nat)
    (hr : replace lb s pos nDel = some lb') :
    pos + nDel ≤ lb.lines.length ∧ lb'.lines.length = lb.lines.length - nDel + (optLines s).length := by
  by_cases hb : pos + nDel ≤ lb.lines.length
  · obtain ⟨lb1, h1, h2, _⟩ := replace_spec lb s pos nDel hb
    rw [hr] at h1; cases h1
    exact ⟨hb, by rw [h2]; exact splice_length _ _ _ _ hb⟩
  · unfold replace at hr
    simp only [hb, if_false] at hr
    cases hr

theorem replace_mark (lb lb' : Lb) (s : Option Bytes) (pos nDel : Nat) (hr : replace lb s pos nDel = some lb') :
    lb'.mark = ((lb.mark.map (updMark s.isNone pos (optLines s).length nDel)).set 28 (pos : Int)).set 29
      ((pos + (if (optLines s).length > 0 then (optLines s).length - 1 else 0) : Nat) : Int) := by
  unfold replace at hr
  simp only [] at hr
  split at hr
  · cases hr
    rw [setMark_mark, setMark_mark]
    have e1 : markIdx 91 = some 28 := by decide
    have e2 : markIdx 93 = some 29 := by decide
    simp only [e1, e2]
    cases s <;> rfl
  · cases hr

theorem lbPos_replace {lb lb' : Lb} (h : LbPos lb) (s : Option Bytes) (pos nDel : Nat)
    (hr : replace lb s pos nDel = some lb') : LbPos lb' := by
  obtain ⟨hb, hlen⟩ := replace_lines_length lb lb' s pos nDel hr
  obtain ⟨lb1, h1, h2, h3, _⟩ := replace_spec lb s pos nDel hb
  rw [hr] at h1; cases h1
  refine ⟨?_, ?_, by rw [h3]; exact h.hist⟩
  · rw [h2]; exact splice_wf _ _ _ _ h.wf (optLines_wf s)
  · rw [hlen, replace_mark lb lb' s pos nDel hr]
    generalize hn : (optLines s).length = nIns
    have hbase : MarksIn (lb.lines.length - nDel + nIns) (lb.mark.map (updMark s.isNone pos nIns nDel)) := by
      intro m hm
      rw [List.mem_map] at hm
      obtain ⟨m0, hm0, rfl⟩ := hm
      exact updMark_in _ _ _ _ _ _ hb (h.marks m0 hm0)
    refine (hbase.set 28 ?_).set 29 ?_
    · constructor <;> omega
    · constructor
      · omega
      · split <;> omega

/-! ### `lbuf_opt` -/

theorem lineCount_cp (lb : Lb) (pos nDel : Nat) (hwf : ∀ l ∈ lb.lines, WfLine l) (hb : pos + nDel ≤ lb.lines.length) :
    lineCount (if nDel > 0 then some (cp lb pos (pos + nDel)) else none) = nDel := by
  rw [lineCount_eq, del_faithful lb pos nDel hwf]
  simp only [List.length_take, List.length_drop]
  omega

theorem opt_lines' (lb : Lb) (buf : Option Bytes) (pos nDel : Nat) : (opt lb buf pos nDel).lines = lb.lines := rfl

theorem lbPos_opt {lb : Lb} (h : LbPos lb) (buf : Option Bytes) (pos nDel : Nat) (hb : pos + nDel ≤ lb.lines.length) :
    LbPos (opt lb buf pos nDel) := by
  have hm1 : MarksIn lb.lines.length (lb.mark.set 27 (lb.mark.getD 30 (-1))) := h.marks.set 27 (h.marks.getD 30)
  refine ⟨h.wf, hm1, ?_⟩
  intro e he
  unfold opt at he
  simp only [List.mem_append, List.mem_singleton] at he
  rcases he with he | rfl
  · exact h.hist e (List.mem_of_mem_take he)
  · intro ms offs hmarks m hm
    simp only [] at hmarks
    split at hmarks
    · simp only [Option.some.injEq, Prod.mk.injEq] at hmarks
      obtain ⟨rfl, _⟩ := hmarks
      rw [List.mem_map] at hm
      obtain ⟨i, _, rfl⟩ := hm
      simp only []
      rw [lineCount_cp lb pos nDel h.wf hb]
      split
      · rename_i hc
        simp only [Bool.and_eq_true, decide_eq_true_eq] at hc
        obtain ⟨_, hc1, hc2⟩ := hc
        constructor
        · omega
        · push_cast; omega
      · constructor
        · omega
        · omega
    · cases hmarks

/-! ### `lbuf_edit`, `lbuf_rd` -/

theorem lbPos_edit {lb lb' : Lb} (h : LbPos lb) (buf : Option Bytes) (b e : Nat)
    (he : Lbuf.edit lb buf b e = some lb') : LbPos lb' := by
  unfold Lbuf.edit at he
  simp only [] at he
  split at he
  · cases he
  · split at he
    · cases he; exact h
    · refine lbPos_replace (lbPos_opt h buf _ _ ?_) buf _ _ he
      omega

theorem lbPos_rd {lb lb' : Lb} (h : LbPos lb) (chunks : List Bytes) (fe : Bool) (b e rc : Nat)
    (hr : rd lb chunks fe b e = some (rc, lb')) : LbPos lb' := by
  unfold rd at hr
  split at hr
  · cases hr
  · split at hr
    · cases hr; exact h
    · split at hr
      · cases hr
      · split at hr
        · cases hr
        · rename_i hed
          cases hr
          exact lbPos_edit h _ _ _ hed

/-! ### undo and redo -/

theorem lbPos_histU {lb : Lb} (h : LbPos lb) (u : Nat) : LbPos { lb with histU := u } := h.congr rfl rfl rfl

theorem loadPos_lines (lb : Lb) (e : Entry) : (loadPos lb e).lines = lb.lines := rfl
theorem loadPos_hist (lb : Lb) (e : Entry) : (loadPos lb e).hist = lb.hist := rfl

theorem lbPos_loadPos {lb : Lb} (h : LbPos lb) (e : Entry) (hp : e.pos ≤ lb.lines.length) : LbPos (loadPos lb e) := by
  refine ⟨h.wf, ?_, h.hist⟩
  have h30 : MarksIn lb.lines.length (lb.mark.set 30 (e.pos : Int)) := h.marks.set 30 ⟨by omega, by omega⟩
  exact h30.set 27 (h30.getD 30)

theorem lbPos_loadMarks {lb : Lb} (h : LbPos lb) (e : Entry) (he : EntPos e)
    (hp : e.pos + lineCount e.del ≤ lb.lines.length) : LbPos (loadMarks lb e) := by
  unfold loadMarks
  split
  · exact h
  · rename_i ms offs hm
    refine ⟨h.wf, ?_, h.hist⟩
    show MarksIn lb.lines.length _
    intro m hmem
    simp only [List.mem_map] at hmem
    obtain ⟨i, _, rfl⟩ := hmem
    split
    · rename_i hge
      have hmem : ms.getD i (-1) ∈ ms := by
        rw [List.getD_eq_getElem?_getD] at hge ⊢
        cases hi : ms[i]? with
        | none => rw [hi] at hge; simp at hge
        | some x => simp only [Option.getD_some]; exact List.mem_of_getElem? hi
      obtain ⟨a, b⟩ := he ms offs hm _ hmem
      have hle : ((e.pos + lineCount e.del : Nat) : Int) ≤ (lb.lines.length : Int) := by exact_mod_cast hp
      exact ⟨a, by omega⟩
    · exact h.marks.getD i

theorem lbPos_undoGo (seq : Nat) : ∀ (f : Nat) (lb lb' : Lb), LbPos lb → undoGo seq f lb = some lb' → LbPos lb' := by
  intro f
  induction f with
  | zero => intro lb lb' h hu; rw [undoGo] at hu; cases hu; exact h
  | succ f ih =>
    intro lb lb' h hu
    rw [undoGo] at hu
    split at hu
    · cases hu; exact h
    · rename_i u hU
      split at hu
      · cases hu
      · rename_i e he
        split at hu
        · split at hu
          · cases hu
          · rename_i lb1 hr
            have hmem : e ∈ lb.hist := List.mem_of_getElem? he
            have h1 : LbPos lb1 := lbPos_replace (lbPos_histU h u) _ _ _ hr
            obtain ⟨hb, hlen⟩ := replace_lines_length _ lb1 _ _ _ hr
            have hlen' : lb1.lines.length = lb.lines.length - e.nIns + lineCount e.del := by
              rw [lineCount_eq]; exact hlen
            have hb' : e.pos + e.nIns ≤ lb.lines.length := hb
            have h2 : LbPos (loadPos lb1 e) := lbPos_loadPos h1 e (by omega)
            have h3 : LbPos (loadMarks (loadPos lb1 e) e) :=
              lbPos_loadMarks h2 e (h.hist e hmem) (by rw [loadPos_lines]; omega)
            exact ih _ _ h3 hu
        · cases hu; exact h

theorem lbPos_undo {lb lb' : Lb} {rc : Nat} (h : LbPos lb) (hu : undo lb = some (rc, lb')) : LbPos lb' := by
  unfold undo at hu
  split at hu
  · cases hu; exact h
  · split at hu
    · cases hu
    · simp only [Option.map_eq_some_iff, Prod.mk.injEq] at hu
      obtain ⟨l, hl, _, rfl⟩ := hu
      exact lbPos_undoGo _ _ _ _ h hl

theorem lbPos_redoGo (seq : Nat) : ∀ (f : Nat) (lb lb' : Lb), LbPos lb → redoGo seq f lb = some lb' → LbPos lb' := by
  intro f
  induction f with
  | zero => intro lb lb' h hu; rw [redoGo] at hu; cases hu; exact h
  | succ f ih =>
    intro lb lb' h hu
    rw [redoGo] at hu
    split at hu
    · split at hu
      · cases hu
      · rename_i e he
        split at hu
        · split at hu
          · cases hu
          · rename_i lb1 hr
            have h1 : LbPos lb1 := lbPos_replace (lbPos_histU h _) _ _ _ hr
            obtain ⟨hb, hlen⟩ := replace_lines_length _ lb1 _ _ _ hr
            have hb' : e.pos + e.nDel ≤ lb.lines.length := hb
            have hlen' : lb1.lines.length = lb.lines.length - e.nDel + (optLines e.ins).length := hlen
            exact ih _ _ (lbPos_loadPos h1 e (by omega)) hu
        · cases hu; exact h
    · cases hu; exact h

theorem lbPos_redo {lb lb' : Lb} {rc : Nat} (h : LbPos lb) (hu : redo lb = some (rc, lb')) : LbPos lb' := by
  unfold redo at hu
  split at hu
  · cases hu; exact h
  · split at hu
    · cases hu
    · simp only [Option.map_eq_some_iff, Prod.mk.injEq] at hu
      obtain ⟨l, hl, _, rfl⟩ := hu
      exact lbPos_redoGo _ _ _ _ h hl

end Neatvi.Lemmas.C05d
