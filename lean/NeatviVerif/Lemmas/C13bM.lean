import NeatviVerif.Lemmas.C13bC
/-!
# C13b, part M: `ContextFree` spelled out, and the refutation of `suffix_eq_whole` without it
-/
namespace Neatvi.Lemmas.C13b
open Neatvi Neatvi.Regex Neatvi.Spec.RegexSem

theorem contextFree_iff (t : RNode) :
    ContextFree t = true ↔ TreeAtoms (fun a => a.k ≠ AK.wbeg ∧ a.k ≠ AK.wend) t := by
  induction t with
  | nul => simp [ContextFree, TreeAtoms]
  | atom a mn mx => simp [ContextFree, TreeAtoms, CFAtom]
  | cat a b iha ihb => simp [ContextFree, TreeAtoms, iha, ihb]
  | alt a b iha ihb => simp [ContextFree, TreeAtoms, iha, ihb]
  | grp a g mn mx iha => simp [ContextFree, TreeAtoms, iha]

/-- `suffix_eq_whole` (the parses) without the hypothesis `ContextFree` -/
def suffix_eq_whole_any_pattern : Prop :=
  ∀ (t : RNode) (line : Bytes) (k : Nat), 0 < k → k ∈ starts line (line.length + 2) 0 → BegOk t line k →
    ∀ (fw fs : Nat), FlagsRest fw fs → ∀ (i : Nat) (g : Marks),
      results ⟨line, fw⟩ t (i + k, shiftM k g) = (results ⟨line.drop k, fs⟩ t (i, g)).map (shiftR k)

/-- witness: `\<` on the line `ba` at `k = 1` -/
theorem suffix_eq_whole_any_pattern_is_false : ¬ suffix_eq_whole_any_pattern := by
  intro h
  have := h (.atom ⟨AK.wbeg, []⟩ 1 1) [98, 97] 1 (by decide) (by decide) (by decide) 0 REG_NOTBOL
    (flagsRest_or 0) 0 []
  revert this
  decide

end Neatvi.Lemmas.C13b
