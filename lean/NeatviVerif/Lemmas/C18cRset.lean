import NeatviVerif.Model.Rset
import NeatviVerif.Props.C11
import NeatviVerif.Props.C11b
/-!
# C18c helpers: what `regexec` / `rset_find` report, as far as C11 / C11b give it

`regexec_range`: every reported offset is `-1` or in `[0, length]` (C11 `offsets_in_range` lifted over the
start-position loop).  `find_offsets`: the same, the boundary clause (C11b `offsets_on_boundaries`) and
`0 ≤ out[0]`, `set < n` for `rset_find`.
-/
namespace Neatvi.Props.C18c
open Neatvi Neatvi.Regex Neatvi.Rset Neatvi.Spec Neatvi.Props.C11b

/-- `x` is unset or an offset into a subject of `len` bytes -/
def InSubj (len : Nat) (x : Int) : Prop := x = -1 ∨ (0 ≤ x ∧ x ≤ (len : Int))

theorem execLoop_range (cx : Ctx) : ∀ f start cuts m c,
    execLoop cx f start cuts = ExecRes.found m c → ∀ x ∈ m, InSubj cx.subj.length x := by
  intro f
  induction f with
  | zero => intro start cuts m c h; simp [execLoop] at h
  | succ f ih =>
    intro start cuts m c h
    rw [execLoop] at h
    split at h
    · cases h
    · next b hb =>
      have hs : start ≤ cx.subj.length := by
        unfold rdb at hb
        split at hb
        · omega
        · split at hb
          · omega
          · cases hb
      split at h
      · rename_i p1 m1 c1 heq
        cases h
        intro x hx
        rcases (C11.offsets_in_range cx start cuts p1 m c hs heq).2.2 x hx with h1 | h1
        · exact Or.inl h1
        · exact Or.inr ⟨by omega, h1.2⟩
      · cases h
      · split at h
        · cases h
        · exact ih _ _ _ _ h

/-- every offset `regexec` reports is `-1` or inside the subject -/
theorem regexec_range (prog : Prog) (subj : Bytes) (nsub eflg nd ngrps : Nat) (m : Marks) (c : Nat)
    (offs : List (Int × Int)) (h : regexec prog subj nsub eflg nd ngrps = (ExecRes.found m c, offs)) :
    ∀ so eo, (so, eo) ∈ offs → InSubj subj.length so ∧ InSubj subj.length eo := by
  unfold regexec at h
  dsimp only at h
  split at h
  · cases h
  · split at h
    · rename_i m' c' hex
      simp only [Prod.mk.injEq, ExecRes.found.injEq] at h
      obtain ⟨⟨hm, _⟩, ho⟩ := h
      subst hm; subst ho
      have hr := execLoop_range _ _ _ _ _ _ hex
      have hget : ∀ k, InSubj subj.length (m'.getD k (-1)) := by
        intro k
        rw [List.getD_eq_getElem?_getD]
        cases hk : m'[k]? with
        | none => exact Or.inl rfl
        | some x => exact hr x (List.mem_of_getElem? hk)
      intro so eo hmem
      simp only [List.mem_map, List.mem_range] at hmem
      obtain ⟨i, _, hi⟩ := hmem
      split at hi
      · cases hi; exact ⟨hget _, hget _⟩
      · cases hi; exact ⟨Or.inl rfl, Or.inl rfl⟩
    · rename_i hne
      simp only [Prod.mk.injEq] at h
      exact absurd h.1 (hne m c)

/-- the pattern-selection fold of `rset_find` returns `-1` or an index that passed the test -/
theorem selFold (P : Nat → Bool) : ∀ (l : List Nat) (acc : Int),
    let r := l.foldl (fun (acc : Int) i => if P i then (i : Int) else acc) acc
    r = acc ∨ ∃ i ∈ l, r = (i : Int) ∧ P i = true := by
  intro l
  induction l with
  | nil => intro acc; exact Or.inl rfl
  | cons a l ih =>
    intro acc
    simp only [List.foldl_cons]
    rcases ih (if P a then (a : Int) else acc) with h | ⟨i, hi, h1, h2⟩
    · by_cases hp : P a = true
      · rw [if_pos hp] at h
        exact Or.inr ⟨a, List.mem_cons_self, by rw [if_pos hp]; exact h, hp⟩
      · rw [if_neg hp] at h
        exact Or.inl (by rw [if_neg hp]; exact h)
    · exact Or.inr ⟨i, List.mem_cons_of_mem _ hi, h1, h2⟩

/-- what `rset_find` reports when it finds pattern `set` -/
theorem find_spec (rs : RSet) (s : Bytes) (n flg nd ngrps : Nat) (set : Int) (out : List Int) (c : Nat)
    (h : Rset.find rs s n flg nd ngrps = some (set, out, c)) (hset : 0 ≤ set) :
    ∃ rflg m c' offs, regexec rs.prog s rs.grpcnt rflg nd ngrps = (ExecRes.found m c', offs) ∧
      set.toNat < rs.n ∧ 0 ≤ rs.grp.getD set.toNat (-1) ∧
      0 ≤ (offs.getD (rs.grp.getD set.toNat (-1)).toNat (-1, -1)).1 ∧
      out = (List.range n).flatMap (fun i =>
        if i < rs.setgrpcnt.getD set.toNat 0 + 1 then
          [(offs.getD ((rs.grp.getD set.toNat 0).toNat + i) (-1, -1)).1,
           (offs.getD ((rs.grp.getD set.toNat 0).toNat + i) (-1, -1)).2]
        else [-1, -1]) := by
  unfold Rset.find at h
  split at h
  · cases h; omega
  · dsimp only at h
    split at h
    · cases h
    · cases h; omega
    · next m c' offs hex =>
      split at h
      · cases h; omega
      · next hneg =>
        simp only [Option.some.injEq, Prod.mk.injEq] at h
        obtain ⟨h1, h2, _⟩ := h
        refine ⟨_, m, c', offs, hex, ?_⟩
        have hsel := selFold (fun i => decide (rs.grp.getD i (-1) ≥ 0) &&
          decide ((offs.getD (rs.grp.getD i (-1)).toNat (-1, -1)).1 ≥ 0)) (List.range rs.n) (-1)
        dsimp only at hsel
        rw [h1] at hsel h2
        rcases hsel with hs | ⟨i, hi, hs1, hs2⟩
        · omega
        · have hi' : set.toNat = i := by omega
          simp only [Bool.and_eq_true, decide_eq_true_eq] at hs2
          rw [hi']
          refine ⟨List.mem_range.mp hi, hs2.1, hs2.2, ?_⟩
          rw [← h2, hi']

theorem getD_pair_mem {offs : List (Int × Int)} (k : Nat) (P : Int → Prop) (h1 : P (-1))
    (h : ∀ so eo, (so, eo) ∈ offs → P so ∧ P eo) :
    P (offs.getD k (-1, -1)).1 ∧ P (offs.getD k (-1, -1)).2 := by
  rw [List.getD_eq_getElem?_getD]
  cases hk : offs[k]? with
  | none => exact ⟨h1, h1⟩
  | some x => exact h x.1 x.2 (List.mem_of_getElem? hk)

/-- the offsets `rset_find` hands out: every one satisfies whatever `-1` and every offset of
    `regexec` satisfy; the first one is set -/
theorem find_offsets (rs : RSet) (s : Bytes) (n flg nd ngrps : Nat) (set : Int) (out : List Int) (c : Nat)
    (h : Rset.find rs s n flg nd ngrps = some (set, out, c)) (hset : 0 ≤ set) :
    ∃ rflg m c' offs, regexec rs.prog s rs.grpcnt rflg nd ngrps = (ExecRes.found m c', offs) ∧
      set.toNat < rs.n ∧ (0 < n → 0 ≤ out.getD 0 (-1)) ∧
      ∀ P : Int → Prop, P (-1) → (∀ so eo, (so, eo) ∈ offs → P so ∧ P eo) → ∀ k, P (out.getD k (-1)) := by
  obtain ⟨rflg, m, c', offs, hex, h1, h2, h3, h4⟩ := find_spec rs s n flg nd ngrps set out c h hset
  refine ⟨rflg, m, c', offs, hex, h1, ?_, ?_⟩
  · intro hn
    obtain ⟨n', rfl⟩ : ∃ n', n = n' + 1 := ⟨n - 1, by omega⟩
    rw [h4, List.range_succ_eq_map]
    simp only [List.flatMap_cons, Nat.zero_lt_succ, if_true, Nat.add_zero, List.cons_append, List.getD_cons_zero]
    have : rs.grp.getD set.toNat 0 = rs.grp.getD set.toNat (-1) := by
      rw [List.getD_eq_getElem?_getD, List.getD_eq_getElem?_getD] at *
      cases hg : rs.grp[set.toNat]? with
      | none => rw [hg] at h2; simp at h2
      | some g => rfl
    rw [this]; exact h3
  · intro P hP hoffs k
    rw [List.getD_eq_getElem?_getD]
    cases hk : out[k]? with
    | none => exact hP
    | some x =>
      have hx : x ∈ out := List.mem_of_getElem? hk
      rw [h4] at hx
      simp only [List.mem_flatMap, List.mem_range] at hx
      obtain ⟨i, _, hi⟩ := hx
      show P x
      split at hi
      · have := getD_pair_mem ((rs.grp.getD set.toNat 0).toNat + i) P hP hoffs
        simp only [List.mem_cons, List.not_mem_nil, or_false] at hi
        rcases hi with rfl | rfl
        · exact this.1
        · exact this.2
      · simp only [List.mem_cons, List.not_mem_nil, or_false] at hi
        rcases hi with rfl | rfl <;> exact hP

/-- `rset_make`: the program is the compiled combined pattern; `n` is the number of patterns -/
theorem make_spec (pats : List (Option Bytes)) (flg : Nat) (rs : RSet)
    (h : Rset.make pats flg = some (some rs)) :
    regcomp (combined pats) (1 ||| (if flg &&& RE_ICASE != 0 then REG_ICASE else 0)) = some (some rs.prog) ∧
      rs.n = pats.length := by
  unfold Rset.make at h
  split at h
  rename_i grp cnts grpcnt _
  dsimp only at h
  split at h
  · cases h
  · cases h
  · next p hp =>
    simp only [Option.some.injEq] at h
    subst h
    exact ⟨hp, rfl⟩

end Neatvi.Props.C18c
