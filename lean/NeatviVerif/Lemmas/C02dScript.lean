import NeatviVerif.Lemmas.C02dQuit
import NeatviVerif.Lemmas.C02cPlus
/-!
# C02d lemmas, part 6: running concrete scripts in the kernel

The mutual block `ecEdit` / `runCmd` / `exExec` / `exCommand` is compiled by well-founded recursion and
does not evaluate in the kernel.  `stepS` is a structural partial evaluator of one round of the `ex()`
loop (`exStep`) for command lines that consist of a single command among `:a`/`:i`/`:c`, `:b`, `:w`, and
`:e` without `+cmd`; it answers `none` for everything else.  Whenever it answers, `exStep` answers the
same (`stepS_sound`): every piece of it is a copy of the model's text, checked by `rfl` against the model.
-/
namespace Neatvi.Lemmas.C02d
open Neatvi Neatvi.Lbuf Neatvi.LbufIo Neatvi.Ex Neatvi.Props Neatvi.Lemmas.C02b Neatvi.Lemmas.C02Ex Neatvi.Lemmas.C02c

theorem exCommand_single (f : Nat) (ed edT : Ed) (ln loc l1 cmd l2 a arg l3 : Bytes) (txt : Option Bytes) (hd : String)
    (hlen : ln.length < Gen.EXLEN) (hne : ln.isEmpty = false)
    (h1 : exLoc ln = (loc, l1)) (h2 : exCmd l1 = (cmd, l2)) (h3 : exIdx cmd = some (a, hd))
    (h4 : exArg l2 a = (arg, l3)) (h5 : exTxt ed l3 a = ((txt, []), edT)) :
    exCommand (f + 2) ed ln = (runCmd f edT hd loc cmd arg txt).map (fun p => (p.1, (p.2.modifiedAt 0).2)) := by
  rw [exCommand, exExec]
  have hl : ¬ ln.length ≥ Gen.EXLEN := by omega
  rw [if_neg hl, exExec.cmds]
  simp only [hne, Bool.false_eq_true, if_false, h1, h2, h3, h4, h5]
  cases hr : runCmd f edT hd loc cmd arg txt with
  | none => rfl
  | some p =>
    obtain ⟨r, e⟩ := p
    simp only [cmds_nil, Option.map_some]

/-- the text of the `ec_insert` branch of `runCmd` -/
def insertS (ed : Ed) (loc cmd : Bytes) (txt : Option Bytes) : R Int :=
  match exRegion ed loc with
  | none => none
  | some ((rc, b, e), ed) =>
    if rc != 0 && (b != 0 || e != 0) then some (1, ed) else
    let len := ed.len
    let b := if cmd.headD 0 == 97 then e else b
    let e := if cmd.headD 0 != 99 then b else e
    match ed.edit txt b e with
    | none => none
    | some ed =>
      let len' := ed.len
      some (0, { ed with xrow := min (len' - 1) (e + len' - len - 1) })

theorem runCmd_insert (f : Nat) (ed : Ed) (loc cmd arg : Bytes) (txt : Option Bytes) :
    runCmd (f + 1) ed "ec_insert" loc cmd arg txt = insertS ed loc cmd txt := by
  rw [runCmd.eq_2]
  simp only [String.reduceBEq, Bool.false_eq_true, if_false, if_true, Bool.or_self]
  rfl

/-- the text of the `ec_buffer` branch of `runCmd` -/
def bufferS (ed : Ed) (cmd arg : Bytes) : R Int :=
      if arg.isEmpty then
        let ed := (List.range ed.bufs.length).foldl (fun (st : Bool × Ed) i =>
          let (go, ed) := st
          if !go then st else
          match ed.bufs.getD i none with
          | none => (false, ed)
          | some b =>
            let (m, ed) := ed.modifiedAt i
            let alias := (strOf "%#^").getD i 32
            let idstr := intStr b.id
            let line := (List.replicate (2 - idstr.length) 32) ++ idstr ++ [32, alias, 32] ++ b.path ++ [32, if m then 42 else 32]
            (true, ed.print (line.take 127))) (true, ed) |>.2
        some (0, ed)
      else if arg.headD 0 == 33 then
        let ed := ed.bufsShift
        if ed.cur.isNone then
          let b : Buf := { path := [], lb := Lbuf.make, id := ed.bufsCnt + 1 }
          some (0, { ed with bufs := ed.bufs.set 0 (some b), bufsCnt := ed.bufsCnt + 1 })
        else some (0, ed)
      else if arg.headD 0 == 126 then
        let (bufs, n) := ed.bufs.foldl (fun (acc : List (Option Buf) × Int) b =>
          match b with
          | some x => (acc.1 ++ [some { x with id := acc.2 + 1 }], acc.2 + 1)
          | none => (acc.1 ++ [none], acc.2)) ([], 0)
        some (0, { ed with bufs := bufs, bufsCnt := n })
      else
        let id := exAtoi arg
        let curId := (ed.cur.map (·.id)).getD 0
        let idOf (i : Nat) : Option Int := (ed.bufs.getD i none).map (·.id)
        let idx : Int :=
          if isDigitC (arg.headD 0) then
            (match (List.range ed.bufs.length).find? (fun i => idOf i == some id) with | some i => i | none => ed.bufs.length)
          else if arg.headD 0 == 45 then
            (List.range ed.bufs.length).foldl (fun (best : Int) i =>
              match idOf i with
              | some x => if x < curId && (best < 0 || x > (idOf best.toNat).getD 0) then i else best
              | none => best) (-1)
          else if arg.headD 0 == 43 then
            (List.range ed.bufs.length).foldl (fun (best : Int) i =>
              match idOf i with
              | some x => if x > curId && (best < 0 || x < (idOf best.toNat).getD 0) then i else best
              | none => best) (-1)
          else match (List.range 3).find? (fun i => (strOf "%#^").getD i 0 == arg.headD 0) with
            | some i => i
            | none => -1
        if idx ≥ 0 && idx < ed.bufs.length && (ed.bufs.getD idx.toNat none).isSome then
          let guard : R Bool := if ed.xwa == 0 && !hasBang cmd then bufsModified ed 0 (some (strOf "buffer modified")) else some (false, ed)
          match guard with
          | none => none
          | some (true, ed) => some (1, ed)
          | some (false, ed) => some (0, ed.bufsSwitch idx.toNat)
        else some (1, ed.show (strOf "no such buffer"))

theorem runCmd_buffer (f : Nat) (ed : Ed) (loc cmd arg : Bytes) (txt : Option Bytes) :
    runCmd (f + 1) ed "ec_buffer" loc cmd arg txt = bufferS ed cmd arg := by
  rw [runCmd.eq_2]
  simp only [String.reduceBEq, Bool.false_eq_true, if_false, if_true, Bool.or_self]
  rfl


/-- `ec_edit` without a `+cmd`, as the composition of its stages -/
def editS (ed : Ed) (cmd arg : Bytes) : R Int :=
  if (plusSplit arg).1.headD 0 == 43 then none else
  match C20.editGuard ed cmd with
  | none => none
  | some (true, ed) => some (1, ed)
  | some (false, ed) =>
    match pathExpand ed (plusSplit arg).2 false with
    | none => none
    | some (none, ed) => some (1, ed)
    | some (some path, ed) =>
      if !path.isEmpty && (C20.ewPre ed cmd path).bufsFind path ≥ 0 then
        some (0, (C20.ewPre ed cmd path).bufsSwitch ((C20.ewPre ed cmd path).bufsFind path).toNat)
      else
        match editGuard2 (C20.ewPre ed cmd path) path with
        | none => none
        | some (true, ed) => some (1, ed)
        | some (false, ed) =>
          match editFinish (editOpen ed path) path with
          | none => none
          | some ed => some (0, ed)

theorem editS_sound (f : Nat) (ed : Ed) (cmd arg : Bytes) (x : Int × Ed) (h : editS ed cmd arg = some x) :
    ecEdit (f + 1) ed cmd arg = some x := by
  unfold editS at h
  split at h
  · cases h
  · rename_i hpl
    rw [ecEdit_stages]
    simp only [editPlus, hpl, Bool.false_eq_true, if_false]
    exact h

/-- one parsed command, for the handlers that do not recurse -/
def cmdS (ed : Ed) (hd : String) (loc cmd arg : Bytes) (txt : Option Bytes) : R Int :=
  if hd == "ec_insert" then insertS ed loc cmd txt
  else if hd == "ec_buffer" then bufferS ed cmd arg
  else if hd == "ec_write" then ecWrite ed loc cmd arg
  else if hd == "ec_edit" then editS ed cmd arg
  else none

theorem cmdS_sound (f : Nat) (ed : Ed) (hd : String) (loc cmd arg : Bytes) (txt : Option Bytes) (x : Int × Ed)
    (h : cmdS ed hd loc cmd arg txt = some x) : runCmd (f + 2) ed hd loc cmd arg txt = some x := by
  unfold cmdS at h
  split at h
  · rename_i hh
    have : hd = "ec_insert" := by simpa using hh
    subst this
    rw [runCmd_insert]; exact h
  · split at h
    · rename_i hh
      have : hd = "ec_buffer" := by simpa using hh
      subst this
      rw [runCmd_buffer]; exact h
    · split at h
      · rename_i hh
        have : hd = "ec_write" := by simpa using hh
        subst this
        rw [runCmd_write]; exact h
      · split at h
        · rename_i hh
          have : hd = "ec_edit" := by simpa using hh
          subst this
          rw [runCmd_edit]; exact editS_sound f ed cmd arg x h
        · cases h

/-- one round of the `ex()` loop on a line holding one command -/
def stepS (ed : Ed) : Option (Int × Ed) :=
  match ed.input with
  | [] => none
  | ln :: rest =>
    let ed0 : Ed := { ed with input := rest, out := [], msg := [], calls := 0, fired := 0 }
    if ln.length < Gen.EXLEN && !ln.isEmpty then
      match exIdx (exCmd (exLoc ln).2).1 with
      | none => none
      | some (a, hd) =>
        if (exTxt ed0 (exArg (exCmd (exLoc ln).2).2 a).2 a).1.2.isEmpty then
          match cmdS (exTxt ed0 (exArg (exCmd (exLoc ln).2).2 a).2 a).2 hd (exLoc ln).1 (exCmd (exLoc ln).2).1
              (exArg (exCmd (exLoc ln).2).2 a).1 (exTxt ed0 (exArg (exCmd (exLoc ln).2).2 a).2 a).1.1 with
          | none => none
          | some (r, e) =>
            some (r, { (e.modifiedAt 0).2 with regs := (e.modifiedAt 0).2.regs.put 58 ln 1, faults := [] })
        else none
    else none

theorem stepS_sound (ed : Ed) (x : Int × Ed) (h : stepS ed = some x) : exStep ed = some x := by
  unfold stepS at h
  unfold exStep
  split at h
  · cases h
  · rename_i ln rest hin
    rw [hin]
    simp only [] at h ⊢
    split at h
    · rename_i hc
      simp only [Bool.and_eq_true, decide_eq_true_eq, Bool.not_eq_true'] at hc
      split at h
      · cases h
      · rename_i a hd hidx
        generalize hT : exTxt { ed with input := rest, out := [], msg := [], calls := 0, fired := 0 }
          (exArg (exCmd (exLoc ln).2).2 a).2 a = T at h
        obtain ⟨⟨txt, l4⟩, edT⟩ := T
        simp only [] at h
        split at h
        · rename_i hrest
          have hrest' : l4 = [] := List.isEmpty_iff.1 hrest
          subst hrest'
          split at h
          · cases h
          · rename_i r e hcmd
            have hs : runCmd (FUEL - 2) _ _ _ _ _ _ = _ := cmdS_sound (FUEL - 4) _ _ _ _ _ _ _ hcmd
            have hx := exCommand_single (FUEL - 2) { ed with input := rest, out := [], msg := [], calls := 0, fired := 0 }
              edT ln (exLoc ln).1 (exLoc ln).2 (exCmd (exLoc ln).2).1 (exCmd (exLoc ln).2).2 a
              (exArg (exCmd (exLoc ln).2).2 a).1 (exArg (exCmd (exLoc ln).2).2 a).2
              txt hd hc.1 hc.2 rfl rfl hidx rfl hT
            have hF : exCommand FUEL = exCommand ((FUEL - 2) + 2) := rfl
            rw [hF, hx, hs]
            simp only [Option.map_some]
            exact h
        · cases h
    · cases h

/-- the `ex()` loop -/
def runS : Nat → Ed → Option Ed
  | 0, ed => some ed
  | n + 1, ed =>
    if ed.input.isEmpty then some ed else
    match stepS ed with
    | none => none
    | some (_, ed') => runS n ed'

theorem runS_sound : ∀ (n : Nat) (ed ed' : Ed), runS n ed = some ed' → C02.Ex.exRun n ed = some ed' := by
  intro n
  induction n with
  | zero => intro ed ed' h; exact h
  | succ n ih =>
    intro ed ed' h
    rw [runS] at h
    rw [C02.Ex.exRun]
    split at h
    · rename_i hemp; rw [if_pos hemp]; exact h
    · rename_i hemp
      rw [if_neg hemp]
      split at h
      · cases h
      · rename_i r ed1 hs
        rw [stepS_sound ed _ hs]
        exact ih _ _ h

/-- `ex_init(files)` -/
def initS (ed : Ed) (files : List Bytes) : Option (Int × Ed) :=
  editS ed (strOf "e") (match files with
    | [] => []
    | p :: _ => p.flatMap (fun c => if c == 32 || c == 37 || c == 35 || c == 61 then [92, c] else [c]))

theorem initS_sound (ed : Ed) (files : List Bytes) (x : Int × Ed) (h : initS ed files = some x) :
    exInit ed files = some x := by
  unfold initS at h
  unfold exInit
  have hF : ecEdit FUEL = ecEdit ((FUEL - 1) + 1) := rfl
  rw [hF]
  exact editS_sound (FUEL - 1) ed _ _ x h

/-- a whole session: start the editor (whose input queue `ed0.input` holds the script) on `files`, run
    `n` rounds of the `ex()` loop -/
def sessionS (ed0 : Ed) (files : List Bytes) (n : Nat) : Option Ed :=
  match initS ed0 files with
  | none => none
  | some (_, ed1) => runS n ed1

theorem sessionS_sound (ed0 : Ed) (files : List Bytes) (n : Nat) (ed : Ed) (h : sessionS ed0 files n = some ed) :
    ∃ rc ed1, exInit ed0 files = some (rc, ed1) ∧ C02.Ex.exRun n ed1 = some ed := by
  unfold sessionS at h
  split at h
  · cases h
  · rename_i rc ed1 hi
    exact ⟨rc, ed1, initS_sound _ _ _ hi, runS_sound _ _ _ h⟩

/-- an observation `P` that holds of the final state of a session the partial evaluator can run -/
theorem sessionS_obs (ed0 : Ed) (files : List Bytes) (n : Nat) (P : Ed → Bool)
    (h : (sessionS ed0 files n).map P = some true) :
    ∃ rc ed1 ed, exInit ed0 files = some (rc, ed1) ∧ C02.Ex.exRun n ed1 = some ed ∧ P ed = true := by
  cases hs : sessionS ed0 files n with
  | none => rw [hs] at h; cases h
  | some ed =>
    rw [hs] at h
    simp only [Option.map_some, Option.some.injEq] at h
    obtain ⟨rc, ed1, h1, h2⟩ := sessionS_sound _ _ _ _ hs
    exact ⟨rc, ed1, ed, h1, h2, h⟩

/-! ### a line that holds a quit command -/

/-- the quit commands without `!`: `q`, `wq`, `x`, `xa` -/
def quitWords : List Bytes := [[113], [119, 113], [120], [120, 97]]

theorem exTxt_none (ed : Ed) (a : Bytes) (h1 : ¬ (a.headD 0 = 114 ∧ a.getD 1 0 = 115))
    (h2 : ¬ (a.getD 1 0 = 0 ∧ (a.headD 0 = 105 ∨ a.headD 0 = 97 ∨ a.headD 0 = 99))) (h0 : a.headD 0 ≠ 0) :
    exTxt ed [] a = ((none, []), ed) := by
  unfold exTxt
  have c0 : (a.headD 0 != 0) = true := by simpa using h0
  simp only [c0, if_true]
  have ha : (a.headD 0 == 114 && a.getD 1 0 == 115) = false := by
    rw [Bool.and_eq_false_iff]
    by_cases h : a.headD 0 = 114
    · right; simpa using fun h' => h1 ⟨h, h'⟩
    · left; simpa using h
  have hb : (a.getD 1 0 == 0 && (a.headD 0 == 105 || a.headD 0 == 97 || a.headD 0 == 99)) = false := by
    rw [Bool.and_eq_false_iff]
    by_cases h : a.getD 1 0 = 0
    · right
      simp only [Bool.or_eq_false_iff, beq_eq_false_iff_ne]
      exact ⟨⟨fun h' => h2 ⟨h, Or.inl h'⟩, fun h' => h2 ⟨h, Or.inr (Or.inl h')⟩⟩, fun h' => h2 ⟨h, Or.inr (Or.inr h')⟩⟩
    · left; simpa using h
  simp only [ha, hb, Bool.false_and, Bool.false_eq_true, if_false, Bool.or_self]

/-- one round of the `ex()` loop on a line that is one of the quit words: it is `ec_quit` with that
    command word, no address and no argument, followed by the bookkeeping of `ex_command` and `ex()` -/
theorem exStep_quit (ed ed' : Ed) (r : Int) (ln : Bytes) (rest : List Bytes) (hin : ed.input = ln :: rest)
    (hln : ln ∈ quitWords) (h : exStep ed = some (r, ed')) :
    ∃ e1, runCmd (FUEL - 2) { ed with input := rest, out := [], msg := [], calls := 0, fired := 0 } "ec_quit" [] ln [] none
        = some (r, e1) ∧
      ed' = { (e1.modifiedAt 0).2 with regs := (e1.modifiedAt 0).2.regs.put 58 ln 1, faults := [] } := by
  unfold exStep at h
  rw [hin] at h
  simp only [] at h
  have hF : exCommand FUEL = exCommand ((FUEL - 2) + 2) := rfl
  have key : ∀ (l1 l2 a : Bytes), ln.length < Gen.EXLEN → ln.isEmpty = false → exLoc ln = ([], l1) → exCmd l1 = (ln, l2) →
      exIdx ln = some (a, "ec_quit") → exArg l2 a = ([], []) →
      exTxt { ed with input := rest, out := [], msg := [], calls := 0, fired := 0 } [] a =
        ((none, []), { ed with input := rest, out := [], msg := [], calls := 0, fired := 0 }) →
      ∃ e1, runCmd (FUEL - 2) { ed with input := rest, out := [], msg := [], calls := 0, fired := 0 } "ec_quit" [] ln [] none
          = some (r, e1) ∧
        ed' = { (e1.modifiedAt 0).2 with regs := (e1.modifiedAt 0).2.regs.put 58 ln 1, faults := [] } := by
    intro l1 l2 a hlen hne h1 h2 h3 h4 h5
    rw [hF, exCommand_single (FUEL - 2) _ _ ln [] l1 ln l2 a [] [] none "ec_quit" hlen hne h1 h2 h3 h4 h5] at h
    cases hr : runCmd (FUEL - 2) { ed with input := rest, out := [], msg := [], calls := 0, fired := 0 } "ec_quit" [] ln [] none with
    | none => rw [hr] at h; cases h
    | some p =>
      obtain ⟨r1, e1⟩ := p
      rw [hr] at h
      simp only [Option.map_some, Option.some.injEq, Prod.mk.injEq] at h
      obtain ⟨rfl, rfl⟩ := h
      exact ⟨e1, rfl, rfl⟩
  simp only [quitWords, List.mem_cons, List.not_mem_nil, or_false] at hln
  rcases hln with rfl | rfl | rfl | rfl
  · exact key [113] [] [113] (by decide) (by decide) (by decide +kernel) (by decide +kernel) (by decide +kernel)
      (by decide +kernel) (exTxt_none _ _ (by decide) (by decide) (by decide))
  · exact key [119, 113] [] [119, 113] (by decide) (by decide) (by decide +kernel) (by decide +kernel) (by decide +kernel)
      (by decide +kernel) (exTxt_none _ _ (by decide) (by decide) (by decide))
  · exact key [120] [] [120] (by decide) (by decide) (by decide +kernel) (by decide +kernel) (by decide +kernel)
      (by decide +kernel) (exTxt_none _ _ (by decide) (by decide) (by decide))
  · exact key [120, 97] [] [120, 97] (by decide) (by decide) (by decide +kernel) (by decide +kernel) (by decide +kernel)
      (by decide +kernel) (exTxt_none _ _ (by decide) (by decide) (by decide))

end Neatvi.Lemmas.C02d
