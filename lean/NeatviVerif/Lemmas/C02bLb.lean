import NeatviVerif.Lemmas.C02Run
/-!
# C02b lemmas, part 1: the history invariant on a bare line buffer, at ANY point of a command

`Inv` (C04) and `SInv` (C02) speak about command boundaries: they carry the zipper of texts, whose
`open_` flag says whether the group on top is still growing.  The ex layer calls `lbuf_undo`,
`lbuf_redo`, `lbuf_saved` in the middle of a command line (`:d|u|w|d`), where neither shape holds
(after `:d|u` the group carrying the current sequence number sits ABOVE the cursor).  `HInv` is the
zipper-free core: groups strictly increasing and `≤ useq`.  It is preserved by every primitive of
`lbuf.c` the ex layer uses, whatever the order of the calls.
-/
namespace Neatvi.Lemmas.C02b
open Neatvi Neatvi.Lbuf Neatvi.Spec Neatvi.Lemmas.Hist Neatvi.Props.C01 Neatvi.Props.C04 Neatvi.Lemmas.C02

structure HInv (T0 : Text) (lb : Lb) (pg fg : List Group) : Prop where
  hist : lb.hist = ents pg.reverse ++ ents fg
  histU : lb.histU = (ents pg.reverse).length
  gok : ∀ g ∈ pg ++ fg, g.2 ≠ [] ∧ ∀ e ∈ g.2, e.seq = g.1
  sorted : (pg.reverse ++ fg).Pairwise (fun a b => a.1 < b.1)
  le : ∀ g ∈ pg ++ fg, g.1 ≤ lb.useq
  chain : Chain T0 lb.hist
  lines : lb.lines = applyFwd T0 (ents pg.reverse)
  wf0 : ∀ l ∈ T0, WfLine l

theorem HInv.wf {T0 lb pg fg} (h : HInv T0 lb pg fg) : ∀ l ∈ lb.lines, WfLine l := by
  rw [h.lines]; exact applyFwd_wf _ _ h.wf0

theorem hinv_of_inv {T0 lb z pg fg} (h : Inv T0 lb z pg fg) : HInv T0 lb pg fg :=
  ⟨h.hist, h.histU, h.gok, h.sorted, h.le, h.chain, h.lines, h.wf0⟩

theorem hinv_make : HInv [] Lbuf.make [] [] := hinv_of_inv inv_make

/-- the invariant reads four fields -/
theorem hinv_congr {T0 lb lb' pg fg} (h : HInv T0 lb pg fg)
    (h1 : lb'.hist = lb.hist) (h2 : lb'.histU = lb.histU) (h3 : lb'.useq = lb.useq)
    (h4 : lb'.lines = lb.lines) : HInv T0 lb' pg fg where
  hist := by rw [h1]; exact h.hist
  histU := by rw [h2]; exact h.histU
  gok := h.gok
  sorted := h.sorted
  le := by rw [h3]; exact h.le
  chain := by rw [h1]; exact h.chain
  lines := by rw [h4]; exact h.lines
  wf0 := h.wf0

theorem hinv_bump {T0 lb pg fg} (h : HInv T0 lb pg fg) : HInv T0 (modified lb).2 pg fg where
  hist := h.hist
  histU := h.histU
  gok := h.gok
  sorted := h.sorted
  le := fun g hg => Nat.le_succ_of_le (h.le g hg)
  chain := h.chain
  lines := h.lines
  wf0 := h.wf0

/-- every group is closed: its sequence number is below the counter -/
def Closed (lb : Lb) : Prop := ∀ e ∈ lb.hist, e.seq < lb.useq

theorem closed_groups {T0 lb pg fg} (h : HInv T0 lb pg fg) (hc : Closed lb) : ∀ g ∈ pg ++ fg, g.1 < lb.useq := by
  intro g hg
  obtain ⟨hne, hs⟩ := h.gok g hg
  cases hg2 : g.2 with
  | nil => exact absurd hg2 hne
  | cons e r =>
    have he : e ∈ lb.hist := by
      rw [h.hist]
      simp only [List.mem_append] at hg ⊢
      rcases hg with hg | hg
      · exact Or.inl ((mem_ents e _).2 ⟨g, by simp [hg], by rw [hg2]; simp⟩)
      · exact Or.inr ((mem_ents e _).2 ⟨g, hg, by rw [hg2]; simp⟩)
    have := hc e he
    rw [hs e (by rw [hg2]; simp)] at this
    exact this

/-- at a command boundary the zipper can be rebuilt: `HInv` + closed is `Inv` -/
theorem inv_of_hinv {T0 lb pg fg} (h : HInv T0 lb pg fg) (hc : Closed lb) :
    Inv T0 lb ⟨pastTexts T0 pg, lb.lines, futTexts lb.lines fg, false⟩ pg fg where
  hist := h.hist
  histU := h.histU
  gok := h.gok
  sorted := h.sorted
  le := h.le
  closed := fun _ => closed_groups h hc
  opened := by intro ho; cases ho
  chain := h.chain
  lines := h.lines
  wf0 := h.wf0
  present := rfl
  past := rfl
  future := rfl

theorem closed_bump_of_le {lb : Lb} (h : ∀ e ∈ lb.hist, e.seq ≤ lb.useq) : Closed (modified lb).2 := by
  intro e he
  exact Nat.lt_succ_of_le (h e he)

theorem hinv_seq_le {T0 lb pg fg} (h : HInv T0 lb pg fg) : ∀ e ∈ lb.hist, e.seq ≤ lb.useq := by
  intro e he
  rw [h.hist, List.mem_append] at he
  rcases he with he | he
  · obtain ⟨g, hg, heg⟩ := (mem_ents e _).1 he
    have hg' : g ∈ pg ++ fg := by simp at hg; simp [hg]
    rw [(h.gok g hg').2 e heg]; exact h.le g hg'
  · obtain ⟨g, hg, heg⟩ := (mem_ents e _).1 he
    have hg' : g ∈ pg ++ fg := by simp [hg]
    rw [(h.gok g hg').2 e heg]; exact h.le g hg'

/-! ### `lbuf_seq` -/

theorem seqAt_hinv {T0 lb pg fg} (h : HInv T0 lb pg fg) : seqAt lb = lastSeq lb.useqLast pg.reverse := by
  cases pg with
  | nil =>
    have hU : lb.histU = 0 := by rw [h.histU]; rfl
    simp [seqAt, hU, lastSeq]
  | cons g ps =>
    have hgok := h.gok g (by simp)
    obtain ⟨G', e, hG⟩ : ∃ G' e, g.2 = G' ++ [e] := by
      rcases List.eq_nil_or_concat g.2 with h0 | ⟨l', b, hb⟩
      · exact absurd h0 hgok.1
      · exact ⟨l', b, by rw [hb, List.concat_eq_append]⟩
    have hes : e.seq = g.1 := hgok.2 e (by rw [hG]; simp)
    have hhist : lb.hist = ents ps.reverse ++ g.2 ++ ents fg := by rw [h.hist]; simp
    have hhU : lb.histU = (ents ps.reverse ++ g.2).length := by rw [h.histU]; simp
    have hU : lb.histU = (ents ps.reverse ++ G').length + 1 := by rw [hhU, hG]; simp; omega
    have hget : lb.hist[(ents ps.reverse ++ G').length]? = some e := by
      rw [hhist, hG, ← List.append_assoc, List.append_assoc (ents ps.reverse ++ G')]
      rw [List.getElem?_append_right (Nat.le_refl _)]
      simp
    have hl : lastSeq lb.useqLast (g :: ps).reverse = g.1 := by
      rw [List.reverse_cons]; exact lastSeq_concat _ _ _
    rw [hl]
    simp only [seqAt, hU, hget, hes]

/-! ### `lbuf_edit` -/

theorem edit_clamp (lb : Lb) (buf : Option Bytes) (b e : Nat) :
    edit lb buf b e = edit lb buf (min b lb.lines.length) (min e lb.lines.length) := by
  unfold edit
  simp only [Nat.min_assoc, Nat.min_self]

/-- the shape of the groups after a logging `lbuf_edit` -/
def pushGroup (useq : Nat) (en : Entry) : List Group → List Group
  | [] => [(useq, [en])]
  | g :: ps => if g.1 = useq then (useq, g.2 ++ [en]) :: ps else (useq, [en]) :: g :: ps

/-- **`lbuf_edit`, any arguments**: if it returns, either nothing changed, or one entry carrying the
    current sequence number was appended below the cursor and everything above it dropped -/
theorem hinv_edit {T0 lb pg fg} (h : HInv T0 lb pg fg) (buf : Option Bytes) (b e : Nat) (lb' : Lb)
    (he : edit lb buf b e = some lb') :
    lb' = lb ∨ (∃ en, lb'.useq = lb.useq ∧ HInv T0 lb' (pushGroup lb.useq en pg) []) := by
  by_cases hnoop : min b lb.lines.length = min e lb.lines.length ∧ buf = none
  · left
    have := edit_noop lb b e hnoop.1
    rw [hnoop.2] at he
    rw [this] at he
    cases he; rfl
  · right
    by_cases hinv : min e lb.lines.length < min b lb.lines.length
    · exfalso
      unfold edit at he
      simp only [] at he
      rw [if_pos hinv] at he
      cases he
    · rw [edit_clamp] at he
      have hlog' : ¬ (min (min b lb.lines.length) lb.lines.length = min (min e lb.lines.length) lb.lines.length ∧
          buf = none) := by
        simp only [Nat.min_assoc, Nat.min_self]; exact hnoop
      obtain ⟨lb2, en, e1, e2, e3, e4, e5, e6, _, e8⟩ :=
        edit_log lb buf (min b lb.lines.length) (min e lb.lines.length) (ents pg.reverse) (ents fg)
          h.hist h.histU h.wf (by omega) hlog'
      rw [he] at e1
      cases e1
      refine ⟨en, e8, ?_⟩
      have hchainA : Chain T0 (ents pg.reverse) := by
        have := h.chain; rw [h.hist, chain_append] at this; exact this.1
      have hchain' : Chain T0 (ents pg.reverse ++ [en]) := by
        rw [chain_append]; refine ⟨hchainA, ?_⟩
        rw [chain_single, ← h.lines]; exact e5
      have hlines' : lb'.lines = applyFwd T0 (ents pg.reverse ++ [en]) := by
        rw [applyFwd_append, applyFwd_single, ← h.lines]; exact e6
      have hsP : pg.reverse.Pairwise (fun a b => a.1 < b.1) := by
        have := h.sorted; rw [List.pairwise_append] at this; exact this.1
      -- the generic "new group on top of pg" case
      have newgrp : (∀ g ∈ pg, g.1 < lb.useq) → HInv T0 lb' ((lb.useq, [en]) :: pg) [] := by
        intro hlt
        refine
          { hist := by rw [e2]; simp
            histU := by rw [e3]; simp
            gok := ?_, sorted := ?_, le := ?_
            chain := by rw [e2]; exact hchain'
            lines := by rw [hlines']; simp
            wf0 := h.wf0 }
        · intro g hg
          simp only [List.append_nil, List.mem_cons] at hg
          rcases hg with rfl | hg
          · exact ⟨by simp, by intro x hx; simp at hx; rw [hx]; exact e4⟩
          · exact h.gok g (by simp [hg])
        · simp only [List.reverse_cons, List.append_nil]
          rw [List.pairwise_append]
          refine ⟨hsP, by simp, ?_⟩
          intro a ha c hc
          simp only [List.mem_singleton] at hc
          subst hc
          exact hlt a (by simpa using ha)
        · intro g hg
          simp only [List.append_nil, List.mem_cons] at hg
          rw [e8]
          rcases hg with rfl | hg
          · exact Nat.le_refl _
          · exact h.le g (by simp [hg])
      cases pg with
      | nil => exact newgrp (by intro g hg; simp at hg)
      | cons g ps =>
        by_cases hgu : g.1 = lb.useq
        · simp only [pushGroup, hgu, if_true]
          have hgok := h.gok g (by simp)
          refine
            { hist := by rw [e2]; simp
              histU := by rw [e3]; simp; omega
              gok := ?_, sorted := ?_, le := ?_
              chain := by rw [e2]; exact hchain'
              lines := by rw [hlines']; simp
              wf0 := h.wf0 }
          · intro g' hg'
            simp only [List.append_nil, List.mem_cons] at hg'
            rcases hg' with rfl | hg'
            · refine ⟨by simp, ?_⟩
              intro x hx
              simp only [List.mem_append, List.mem_singleton] at hx
              rcases hx with hx | hx
              · rw [hgok.2 x hx, hgu]
              · rw [hx, e4]
            · exact h.gok g' (by simp [hg'])
          · simp only [List.reverse_cons, List.append_nil] at hsP ⊢
            rw [List.pairwise_append] at hsP ⊢
            refine ⟨hsP.1, by simp, ?_⟩
            intro a ha c hc
            simp only [List.mem_singleton] at hc
            subst hc
            have := hsP.2.2 a ha g (by simp)
            simp only; omega
          · intro g' hg'
            simp only [List.append_nil, List.mem_cons] at hg'
            rw [e8]
            rcases hg' with rfl | hg'
            · exact Nat.le_refl _
            · exact h.le g' (by simp [hg'])
        · simp only [pushGroup, hgu, if_false]
          apply newgrp
          intro a ha
          simp only [List.mem_cons] at ha
          have hgle := h.le g (by simp)
          rcases ha with rfl | ha
          · omega
          · simp only [List.reverse_cons] at hsP
            rw [List.pairwise_append] at hsP
            have := hsP.2.2 a (by simpa using ha) g (by simp)
            omega

/-! ### `lbuf_undo`, `lbuf_redo` (anywhere, not only at a command boundary) -/

theorem hinv_undo {T0 lb pg fg} (h : HInv T0 lb pg fg) :
    (pg = [] ∧ undo lb = some (1, lb)) ∨
    (∃ g ps lb', pg = g :: ps ∧ undo lb = some (0, lb') ∧ lb'.useq = lb.useq ∧ HInv T0 lb' ps (g :: fg)) := by
  cases pg with
  | nil =>
    left
    have hU : lb.histU = 0 := by rw [h.histU]; rfl
    exact ⟨rfl, by simp [undo, hU]⟩
  | cons g ps =>
    right
    have hgok := h.gok g (by simp)
    have hhist : lb.hist = ents ps.reverse ++ g.2 ++ ents fg := by rw [h.hist]; simp
    have hhU : lb.histU = (ents ps.reverse ++ g.2).length := by rw [h.histU]; simp
    have hlines : lb.lines = applyFwd T0 (ents ps.reverse ++ g.2) := by rw [h.lines]; simp
    have hchain : Chain T0 (ents ps.reverse ++ g.2) := by
      have := h.chain; rw [hhist, chain_append] at this; exact this.1
    have hsorted : (ps.reverse ++ g :: fg).Pairwise (fun a b => a.1 < b.1) := by
      have := h.sorted; simpa using this
    have hP : ∀ p ∈ ents ps.reverse, p.seq ≠ g.1 := by
      intro p hp
      obtain ⟨q, hq, hpq⟩ := (mem_ents p _).1 hp
      have h1 : p.seq = q.1 := (h.gok q (by simp at hq; simp [hq])).2 p hpq
      rw [List.pairwise_append] at hsorted
      have := hsorted.2.2 q hq g (by simp)
      omega
    obtain ⟨G', e, hG⟩ : ∃ G' e, g.2 = G' ++ [e] := by
      rcases List.eq_nil_or_concat g.2 with h0 | ⟨l', b, hb⟩
      · exact absurd h0 hgok.1
      · exact ⟨l', b, by rw [hb, List.concat_eq_append]⟩
    have hes : e.seq = g.1 := hgok.2 e (by rw [hG]; simp)
    have hU : lb.histU = (ents ps.reverse ++ G').length + 1 := by rw [hhU, hG]; simp; omega
    have hget : lb.hist[(ents ps.reverse ++ G').length]? = some e := by
      rw [hhist, hG, ← List.append_assoc, List.append_assoc (ents ps.reverse ++ G')]
      rw [List.getElem?_append_right (Nat.le_refl _)]
      simp
    obtain ⟨lb', g1, g2, g3, g4, g5⟩ := undoGo_run T0 g.1 g.2.reverse ((ents ps.reverse ++ G').length + 1)
      (ents ps.reverse) (ents fg) lb (by rw [List.reverse_reverse]; exact hhist)
      (by rw [List.reverse_reverse]; exact hhU) (by rw [List.reverse_reverse]; exact hchain)
      (by rw [List.reverse_reverse]; exact hlines) (fun x hx => hgok.2 x (by simpa using hx)) hP
      (by rw [hG]; simp)
    have hmem : ∀ x, x ∈ ps ++ g :: fg → x ∈ g :: ps ++ fg := by
      intro x hx
      simp only [List.mem_append, List.mem_cons] at hx ⊢
      rcases hx with hx | hx | hx
      · exact Or.inl (Or.inr hx)
      · exact Or.inl (Or.inl hx)
      · exact Or.inr hx
    refine ⟨g, ps, lb', rfl, ?_, g5, ?_⟩
    · simp only [undo, hU, hget, hes, g1]
      rfl
    · exact
        { hist := by rw [g3, hhist]; simp
          histU := g4
          gok := fun x hx => h.gok x (hmem x hx)
          sorted := hsorted
          le := fun x hx => by rw [g5]; exact h.le x (hmem x hx)
          chain := by rw [g3]; exact h.chain
          lines := g2
          wf0 := h.wf0 }

theorem hinv_redo {T0 lb pg fg} (h : HInv T0 lb pg fg) :
    (fg = [] ∧ redo lb = some (1, lb)) ∨
    (∃ g fs lb', fg = g :: fs ∧ redo lb = some (0, lb') ∧ lb'.useq = lb.useq ∧ HInv T0 lb' (g :: pg) fs) := by
  cases fg with
  | nil =>
    left
    have hU : lb.histU = lb.hist.length := by rw [h.histU, h.hist]; simp
    exact ⟨rfl, by simp [redo, hU]⟩
  | cons g fs =>
    right
    have hgok := h.gok g (by simp)
    have hhist : lb.hist = ents pg.reverse ++ g.2 ++ ents fs := by rw [h.hist]; simp
    have hchain : Chain (applyFwd T0 (ents pg.reverse)) g.2 := by
      have := h.chain
      rw [hhist, List.append_assoc, chain_append, chain_append] at this
      exact this.2.1
    have hF : ∀ p ∈ ents fs, p.seq ≠ g.1 := by
      intro p hp
      obtain ⟨q, hq, hpq⟩ := (mem_ents p _).1 hp
      have h1 : p.seq = q.1 := (h.gok q (by simp [hq])).2 p hpq
      have hs := h.sorted
      rw [List.pairwise_append, List.pairwise_cons] at hs
      have := hs.2.1.1 q hq
      omega
    obtain ⟨e, G', hG⟩ : ∃ e G', g.2 = e :: G' := by
      cases hg2 : g.2 with
      | nil => exact absurd hg2 hgok.1
      | cons e G' => exact ⟨e, G', rfl⟩
    have hes : e.seq = g.1 := hgok.2 e (by rw [hG]; simp)
    have hne : lb.histU ≠ lb.hist.length := by rw [h.histU, hhist, hG]; simp
    have hget : lb.hist[lb.histU]? = some e := by
      rw [hhist, h.histU, hG, List.append_assoc, List.getElem?_append_right (Nat.le_refl _)]
      simp
    obtain ⟨lb', g1, g2, g3, g4, g5⟩ := redoGo_run T0 g.1 g.2 (lb.hist.length - lb.histU)
      (ents pg.reverse) (ents fs) lb hhist h.histU hchain h.lines hgok.2 hF
      (by rw [h.histU, hhist]; simp)
    have hmem : ∀ x, x ∈ g :: pg ++ fs → x ∈ pg ++ g :: fs := by
      intro x hx
      simp only [List.mem_append, List.mem_cons] at hx ⊢
      rcases hx with (hx | hx) | hx
      · exact Or.inr (Or.inl hx)
      · exact Or.inl hx
      · exact Or.inr (Or.inr hx)
    refine ⟨g, fs, lb', rfl, ?_, g5, ?_⟩
    · simp only [redo, hne, if_false, hget, hes, g1]
      rfl
    · exact
        { hist := by rw [g3, hhist]; simp
          histU := by rw [g4]; simp
          gok := fun x hx => h.gok x (hmem x hx)
          sorted := by have := h.sorted; simpa using this
          le := fun x hx => by rw [g5]; exact h.le x (hmem x hx)
          chain := by rw [g3]; exact h.chain
          lines := by rw [g2]; simp
          wf0 := h.wf0 }

/-! ### `lbuf_saved(lb, 1)`: the history is dropped -/

theorem hinv_clear {T0 lb pg fg} (h : HInv T0 lb pg fg) :
    HInv lb.lines (modified (savedCore lb true)).2 [] [] where
  hist := by simp [savedCore, modified]
  histU := by simp [savedCore, modified]
  gok := by intro g hg; simp at hg
  sorted := by simp
  le := by intro g hg; simp at hg
  chain := by simp [savedCore, modified, Chain]
  lines := by simp [savedCore, modified, applyFwd]
  wf0 := h.wf

theorem hinv_saved {T0 lb pg fg} (h : HInv T0 lb pg fg) :
    HInv T0 (modified (savedCore lb false)).2 pg fg := by
  have h1 : HInv T0 (savedCore lb false) pg fg := by
    rw [savedCore_false]; exact hinv_congr h rfl rfl rfl rfl
  exact hinv_bump h1

end Neatvi.Lemmas.C02b
