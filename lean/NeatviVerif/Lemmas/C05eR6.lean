import NeatviVerif.Lemmas.C05eR5
import NeatviVerif.Lemmas.C05eE
/-!
# C05e lemmas, part R6: the hypotheses on the matcher, discharged — `reSafe`, `reGroups`
-/
namespace Neatvi.Lemmas.C05e
open Neatvi Neatvi.Uc Neatvi.Regex Neatvi.Rset Neatvi.Ex

/-- **the matcher never traps** -/
theorem reSafe : ReSafe where
  make := by
    intro pat flg h0 h
    obtain ⟨r, hr⟩ := rstrMake_total pat h0 flg
    rw [hr] at h; cases h
  find := by
    intro pat flg re s n fl hm h
    obtain ⟨x, hx⟩ := rstrFind_total hm s n fl ND NG
    rw [hx] at h; cases h

/-! ### the literal fast path -/

theorem matchCase_length : ∀ (s r : Bytes) (ic : Bool), matchCase s r ic = true → r.length ≤ s.length := by
  intro s
  induction s with
  | nil =>
    intro r ic h
    cases r with
    | nil => simp
    | cons b r' => simp [matchCase] at h
  | cons a s' ih =>
    intro r ic h
    cases r with
    | nil => simp
    | cons b r' =>
      rw [matchCase] at h
      by_cases hc : (if ic = true then lowerB a != lowerB b else a != b) = true
      · rw [if_pos hc] at h; cases h
      · rw [if_neg hc] at h
        have := ih r' ic h
        simp only [List.length_cons]; omega

theorem literalLoop_found (rs : RStr) (lit s : Bytes) : ∀ (f : Nat) (r e : Int) (ri : Nat),
    literalLoop rs lit s f r e = some (some ri) → matchCase (s.drop ri) lit rs.icase = true := by
  intro f
  induction f with
  | zero => intro r e ri h; simp [literalLoop] at h
  | succ f ih =>
    intro r e ri h
    rw [literalLoop] at h
    dsimp only at h
    split at h
    · cases h
    · split at h
      · exact ih _ _ _ h
      · split at h
        · exact ih _ _ _ h
        · split at h
          · rename_i hm
            injection h with h; injection h with h
            rw [← h]; exact hm
          · exact ih _ _ _ h

theorem getD_append_replicate (a b : Int) (k i : Nat) (hi : 2 ≤ i) (_hk : i < 2 + k) :
    ([a, b] ++ List.replicate k (-1 : Int)).getD i (-1) = -1 := by
  rw [List.getD_eq_getElem?_getD, List.getElem?_append_right (by simp; omega)]
  simp only [List.getElem?_replicate, List.length_cons, List.length_nil]
  split
  · rfl
  · rfl

theorem offsOk_literal (s : Bytes) (ri len : Nat) (h : 0 < len → ri + len ≤ s.length) :
    OffsOk s ([(ri : Int), ((ri + len : Nat) : Int)] ++ List.replicate (2 * (16 - 1)) (-1)) := by
  intro g hg
  cases g with
  | zero =>
    have e0 : ([(ri : Int), ((ri + len : Nat) : Int)] ++ List.replicate (2 * (16 - 1)) (-1)).getD (2 * 0) (-1) = (ri : Int) := rfl
    have e1 : ([(ri : Int), ((ri + len : Nat) : Int)] ++ List.replicate (2 * (16 - 1)) (-1)).getD (2 * 0 + 1) (-1) =
        ((ri + len : Nat) : Int) := rfl
    rw [e0, e1]
    refine ⟨by omega, fun hlt => ⟨by omega, ?_⟩⟩
    have := h (by omega)
    omega
  | succ g =>
    rw [getD_append_replicate _ _ _ _ (by omega) (by omega), getD_append_replicate _ _ _ _ (by omega) (by omega)]
    exact ⟨Int.le_refl _, fun h => absurd h (by omega)⟩


/-! ### the engine -/

theorem regexec_subs {p : Prog} {subj : Bytes} {nsub eflg nd ngrps : Nat} {m : Marks} {c : Nat} {subs : List (Int × Int)}
    (hr : regexec p subj nsub eflg nd ngrps = (ExecRes.found m c, subs)) :
    subs = (List.range nsub).map (fun i =>
      if i * 2 < 2 * ngrps then (m.getD (i * 2) (-1), m.getD (i * 2 + 1) (-1)) else (-1, -1)) := by
  unfold regexec at hr
  simp only [] at hr
  split at hr
  · cases hr
  · split at hr
    · injection hr with h1 h2
      injection h1 with hm hc
      subst hm
      exact h2.symm
    · rename_i r hnf
      injection hr with h1 h2
      exact absurd h1 (by intro h; exact hnf m c h)

theorem flatMap_pair_get {α : Type} (F G : α → Int) : ∀ (l : List α) (k : Nat) (hk : k < l.length),
    (l.flatMap (fun x => [F x, G x]))[2 * k]? = some (F l[k]) ∧ (l.flatMap (fun x => [F x, G x]))[2 * k + 1]? = some (G l[k]) := by
  intro l
  induction l with
  | nil => intro k hk; simp at hk
  | cons a l ih =>
    intro k hk
    cases k with
    | zero => simp
    | succ k =>
      simp only [List.length_cons] at hk
      obtain ⟨h1, h2⟩ := ih k (by omega)
      simp only [List.flatMap_cons, List.getElem_cons_succ]
      constructor
      · rw [show 2 * (k + 1) = 2 * k + 2 by omega, List.getElem?_append_right (by simp)]
        simpa using h1
      · rw [show 2 * (k + 1) + 1 = 2 * k + 1 + 2 by omega, List.getElem?_append_right (by simp)]
        simpa using h2

theorem pair_getD {m : Marks} {len j : Nat} (h : PairAt m len j) :
    m.getD (2 * j) (-1) ≤ m.getD (2 * j + 1) (-1) ∧
    (m.getD (2 * j) (-1) < m.getD (2 * j + 1) (-1) → 0 ≤ m.getD (2 * j) (-1) ∧ m.getD (2 * j + 1) (-1) ≤ len) := by
  rw [List.getD_eq_getElem?_getD, List.getD_eq_getElem?_getD]
  rcases h with ⟨h1, h2⟩ | ⟨a, b, h1, h2, h3, h4⟩
  · rw [h1, h2]
    simp
  · rw [h1, h2]
    simp only [Option.getD_some]
    exact ⟨by omega, fun _ => ⟨by omega, by omega⟩⟩

/-- the pair `regexec` delivers for group `j` -/
theorem subs_pair (m : Marks) (n len j : Nat) (hp : PairAt m len j) (hlt : j * 2 < 2 * (2 * 32)) :
    let p := ((List.range n).map (fun i =>
      if i * 2 < 2 * (2 * 32) then (m.getD (i * 2) (-1), m.getD (i * 2 + 1) (-1)) else ((-1 : Int), (-1 : Int)))).getD j (-1, -1)
    p.1 ≤ p.2 ∧ (p.1 < p.2 → 0 ≤ p.1 ∧ p.2 ≤ len) := by
  intro p
  have hp' := pair_getD hp
  by_cases hjn : j < n
  · have e : p = (m.getD (j * 2) (-1), m.getD (j * 2 + 1) (-1)) := by
      show ((List.range n).map _).getD j (-1, -1) = _
      rw [List.getD_eq_getElem?_getD, List.getElem?_map, List.getElem?_range hjn]
      simp only [Option.map_some, Option.getD_some]
      rw [if_pos hlt]
    rw [e, show j * 2 = 2 * j by omega]
    exact hp'
  · have e : p = (-1, -1) := by
      show ((List.range n).map _).getD j (-1, -1) = _
      rw [List.getD_eq_getElem?_getD, List.getElem?_eq_none (by simp; omega)]
      rfl
    rw [e]
    exact ⟨Int.le_refl _, fun h => absurd h (by omega)⟩

/-- `rset_find` on the one-pattern set `rstr_make` builds reports sane group offsets -/
theorem find_offsOk {pat : Bytes} {cflg : Nat} {r : RSet} (hc : regcomp (combined [some pat]) cflg = some (some r.prog))
    (hn : r.n = 1) (hgrp : r.grp = [2, ((3 + groupCount pat : Nat) : Int)]) (hcnt : r.setgrpcnt = [groupCount pat])
    (hgc : r.grpcnt = 3 + groupCount pat) (s : Bytes) (fl : Nat) (res : Int) (offs : List Int) (c : Nat)
    (hf : Rset.find r s 16 fl ND NG = some (res, offs, c)) (h0 : 0 ≤ res) : OffsOk s offs := by
  unfold Rset.find at hf
  rw [if_neg (by rw [hgc]; omega)] at hf
  dsimp only at hf
  generalize hq : regexec r.prog s r.grpcnt
      (REG_NEWLINE ||| (if (fl &&& RE_NOTBOL != 0) = true then REG_NOTBOL else 0) |||
        (if (fl &&& RE_NOTEOL != 0) = true then REG_NOTEOL else 0)) ND NG = q at hf
  obtain ⟨er, subs⟩ := q
  cases er with
  | trap => cases hf
  | «nomatch» c' => simp only [] at hf; cases hf; omega
  | found m c' =>
    simp only [] at hf
    have hNG : NG = 2 * 32 := rfl
    rw [hNG] at hq
    obtain ⟨hlen, hpair⟩ := regexec_marks hc s r.grpcnt _ ND 32 (by omega) m c' subs hq
    have hsubs := regexec_subs hq
    rw [hn, hgrp, hcnt] at hf
    simp only [List.range_one, List.foldl_cons, List.foldl_nil, List.getD_cons_zero] at hf
    by_cases hcnd : (decide ((2 : Int) ≥ 0) && decide ((subs.getD (Int.toNat 2) (-1, -1)).1 ≥ 0)) = true
    · simp only [hcnd, if_true] at hf
      rw [if_neg (by show ¬ ((0 : Nat) : Int) < 0; omega)] at hf
      injection hf with hf
      injection hf with _ hf
      injection hf with hoffs _
      subst hoffs
      have hfun : (fun i : Nat =>
            if i < [groupCount pat].getD ((0 : Nat) : Int).toNat 0 + 1 then
              [(subs.getD (([(2 : Int), ((3 + groupCount pat : Nat) : Int)].getD ((0 : Nat) : Int).toNat 0).toNat + i) (-1, -1)).1,
                (subs.getD (([(2 : Int), ((3 + groupCount pat : Nat) : Int)].getD ((0 : Nat) : Int).toNat 0).toNat + i) (-1, -1)).2]
            else [-1, -1]) =
          (fun i : Nat => [if i < groupCount pat + 1 then (subs.getD (2 + i) (-1, -1)).1 else -1,
            if i < groupCount pat + 1 then (subs.getD (2 + i) (-1, -1)).2 else -1]) := by
        funext i
        show (if i < groupCount pat + 1 then [(subs.getD (2 + i) (-1, -1)).1, (subs.getD (2 + i) (-1, -1)).2] else [-1, -1]) = _
        split <;> rfl
      rw [hfun]
      intro g hg
      obtain ⟨e0, e1⟩ := flatMap_pair_get
        (fun i : Nat => if i < groupCount pat + 1 then (subs.getD (2 + i) (-1, -1)).1 else -1)
        (fun i : Nat => if i < groupCount pat + 1 then (subs.getD (2 + i) (-1, -1)).2 else -1)
        (List.range 16) g (by simp; omega)
      rw [List.getD_eq_getElem?_getD, List.getD_eq_getElem?_getD, e0, e1]
      simp only [Option.getD_some, List.getElem_range]
      split
      · have := subs_pair m r.grpcnt s.length (2 + g) (hpair (2 + g) (by omega) (by rw [hlen]; omega)) (by omega)
        rw [← hsubs] at this
        exact this
      · exact ⟨Int.le_refl _, fun h => absurd h (by omega)⟩
    · simp only [hcnd] at hf
      rw [if_pos (by decide)] at hf
      cases hf
      omega

/-- **`rstr_find` reports sane group offsets** -/
theorem reGroups : ReGroups := by
  intro pat flg re s fl r offs c hm hf h0
  rcases rstrMake_cases' hm with hrs | ⟨rs, cflg, hrs, hc, hn, hgrp, hcnt, hgc⟩
  · unfold rstrFind at hf
    rw [hrs] at hf
    dsimp only at hf
    split at hf
    · cases hf; omega
    · split at hf
      · cases hf; omega
      · cases hl : literalLoop re (re.str.getD []) s (s.length + 2)
            (if re.lend = true then (s.length : Int) - (re.str.getD []).length - 1 else 0)
            (if re.lbeg = true then 0 else (s.length : Int) - (re.str.getD []).length - 1) with
        | none => rw [hl] at hf; cases hf
        | some x =>
          rw [hl] at hf
          cases x with
          | none => cases hf; omega
          | some ri =>
            dsimp only at hf
            cases hf
            have hmc := literalLoop_found re (re.str.getD []) s _ _ _ ri hl
            have hlen := matchCase_length _ _ _ hmc
            rw [if_pos (by omega)]
            refine offsOk_literal s ri (re.str.getD []).length ?_
            intro hpos
            simp only [List.length_drop] at hlen
            omega
  · unfold rstrFind at hf
    rw [hrs] at hf
    exact find_offsOk hc hn hgrp hcnt hgc s fl r offs c hf h0

end Neatvi.Lemmas.C05e
