import NeatviVerif.Lemmas.C09bRun
import NeatviVerif.Lemmas.C07Keeps
import NeatviVerif.Lemmas.ExFrame
/-!
# C09b: the iteration of `vi()` that executes `.` or `@`, step by step

* `viPost_zero_frame`: the end of an iteration (`mod = 0`) only updates `ed` when there is no pending
  `[enter to continue]` prompt;
* `dot_step`, `at_step`: the whole iteration, given what `viPre` returned and the command key;
* `viPre_cmdkey`, `viPre_digit_cmdkey`: `viPre` on the keys `.` / `@` and `d.` / `d@` (`d` a digit 1..9).
-/
namespace Neatvi.Lemmas.C09b
open Neatvi Neatvi.Vi Neatvi.Ex Neatvi.Lemmas.C09
open Neatvi.Props.C05c (iterate)

/-! ### the end of the iteration -/

/-- what the end of an iteration does to `ed`: no `[enter to continue]` becomes pending, the registers and
the text stay, and the sequence number of the buffer goes up by `n` (unless the editor is quitting) -/
structure EdStep (n : Nat) (ed ed' : Ed) : Prop where
  out : nlCount ed'.out ≤ 1
  xquit : ed'.xquit = ed.xquit
  regs : ed'.regs = ed.regs
  lines : ed'.lb.map (·.lines) = ed.lb.map (·.lines)
  useq : ed.xquit = false → ed'.lb.map (·.useq) = (ed.lb.map (·.useq)).map (· + n)

theorem EdStep.refl {ed : Ed} (h : nlCount ed.out ≤ 1) : EdStep 0 ed ed :=
  ⟨h, rfl, rfl, rfl, fun _ => by cases ed.lb <;> rfl⟩

theorem EdStep.trans {a b : Nat} {e0 e1 e2 : Ed} (h1 : EdStep a e0 e1) (h2 : EdStep b e1 e2) :
    EdStep (a + b) e0 e2 := by
  refine ⟨h2.out, h2.xquit.trans h1.xquit, h2.regs.trans h1.regs, h2.lines.trans h1.lines, fun hq => ?_⟩
  rw [h2.useq (h1.xquit.trans hq), h1.useq hq]
  cases e0.lb with
  | none => rfl
  | some l => simp [Nat.add_assoc]

/-- at the state `s`, `m` only updates `ed`, as `EdStep n` says (when at most one line of output is pending) -/
def EdAt (n : Nat) (m : M Unit) (s : VS) : Prop :=
  nlCount s.ed.out ≤ 1 → ∃ ed', m s = Res.ok () { s with ed := ed' } ∧ EdStep n s.ed ed'

theorem EdStep.of_same {ed ed' : Ed} (ho : nlCount ed'.out ≤ 1) (hx : ed'.xquit = ed.xquit)
    (hr : ed'.regs = ed.regs) (hlb : ed'.lb = ed.lb) : EdStep 0 ed ed' :=
  ⟨ho, hx, hr, by rw [hlb], fun _ => by rw [hlb]; cases ed.lb <;> rfl⟩

theorem EdAt.pure {s : VS} : EdAt 0 (Pure.pure ()) s := fun h => ⟨s.ed, rfl, EdStep.refl h⟩

/-- when the editor is quitting nothing is claimed about the sequence number -/
theorem EdAt.quit {n : Nat} {s : VS} (hq : s.ed.xquit = true) : EdAt n (Pure.pure ()) s :=
  fun h => ⟨s.ed, rfl, ⟨h, rfl, rfl, rfl, fun hf => by rw [hq] at hf; cases hf⟩⟩

theorem EdAt.bind {n a b : Nat} {m : M Unit} {f : Unit → M Unit} {s : VS} (hm : EdAt a m s)
    (hf : ∀ ed1, EdStep a s.ed ed1 → EdAt b (f ()) { s with ed := ed1 }) (hn : n = a + b) :
    EdAt n (m >>= f) s := by
  intro hs
  obtain ⟨e1, h1, o1⟩ := hm hs
  obtain ⟨e2, h2, o2⟩ := hf e1 o1 o1.out
  subst hn
  exact ⟨e2, by rw [bind_apply, h1]; exact h2, o1.trans o2⟩

theorem EdAt.get {n : Nat} {f : VS → M Unit} {s : VS} (hf : EdAt n (f s) s) : EdAt n (Vi.get >>= f) s := hf

theorem EdAt.ite {n : Nat} {c : Prop} [Decidable c] {a b : M Unit} {s : VS} (ha : c → EdAt n a s)
    (hb : ¬ c → EdAt n b s) : EdAt n (if c then a else b) s := by
  split
  · exact ha ‹_›
  · exact hb ‹_›

theorem EdAt.withEd {f : Ed → Ed} {s : VS}
    (hf : ∀ ed, (f ed).out = ed.out ∧ (f ed).xquit = ed.xquit ∧ (f ed).regs = ed.regs ∧ (f ed).lb = ed.lb) :
    EdAt 0 (withEd f) s := by
  intro hs
  obtain ⟨a, b, c, d⟩ := hf s.ed
  exact ⟨f s.ed, rfl, EdStep.of_same (by rw [a]; exact hs) b c d⟩

theorem setLb_out (ed : Ed) (lb : Lbuf.Lb) : (ed.setLb lb).out = ed.out := by
  rw [Lemmas.C06.setLb_fields]

theorem edAt_lbufModified {s : VS} : EdAt 1 lbufModified s := by
  intro hs
  refine ⟨_, rfl, ?_⟩
  cases hlb : s.ed.lb with
  | none =>
    simp only [hlb]
    exact ⟨hs, rfl, rfl, rfl, fun _ => by rw [hlb]; rfl⟩
  | some lb =>
    simp only [hlb]
    refine ⟨by rw [setLb_out]; exact hs, by rw [Lemmas.C06.setLb_fields], by rw [Lemmas.C06.setLb_fields], ?_, fun _ => ?_⟩
    · rw [Lemmas.ExFrame.setLb_lb, hlb]; rfl
    · rw [Lemmas.ExFrame.setLb_lb, hlb]; rfl

theorem edAt_setOff (o : Int) {s : VS} : EdAt 0 (setOff o) s := EdAt.withEd fun _ => ⟨rfl, rfl, rfl, rfl⟩

theorem edAt_viWfix {s : VS} : EdAt 0 viWfix s := by
  unfold viWfix
  exact EdAt.get (EdAt.bind (EdAt.withEd fun _ => ⟨rfl, rfl, rfl, rfl⟩)
    (fun _ _ => EdAt.get (edAt_setOff _)) rfl)

/-- `vi_wait()` when at most one line was printed: no prompt, the output is dropped -/
theorem edAt_viWait {s : VS} : EdAt 0 viWait s := by
  intro h
  refine ⟨{ s.ed with out := [] }, ?_, EdStep.of_same (by simp [nlCount]) rfl rfl rfl⟩
  unfold viWait
  simp only [bind_apply, Vi.get]
  rw [if_neg (by omega)]
  rfl

theorem edAt_viPostRest {s : VS} : EdAt 2 (Lemmas.C07.viPostRest 0) s := by
  unfold Lemmas.C07.viPostRest
  simp only [bne_self_eq_false, Bool.false_eq_true, if_false]
  repeat' first
    | (with_reducible exact EdAt.quit h)
    | with_reducible exact EdAt.pure
    | with_reducible exact edAt_viWait
    | with_reducible exact edAt_lbufModified
    | ((with_reducible refine EdAt.withEd fun _ => ?_); exact ⟨rfl, rfl, rfl, rfl⟩)
    | (with_reducible refine EdAt.get ?_)
    | (with_reducible refine EdAt.bind (a := ?_) (b := ?_) ?_ (fun _ _ => ?_) ?_)
    | (with_reducible refine EdAt.ite (fun h => ?_) (fun h => ?_))
    | (show (_ : Nat) = _; rfl)
    | dsimp only

/-- **the end of an iteration with `mod = 0`** (no `[enter to continue]` prompt pending): only `ed` changes;
registers and text stay and the sequence number of the buffer goes up by 2 -/
theorem viPost_zero_frame (X : VS) (hout : nlCount X.ed.out ≤ 1) :
    ∃ ed', viPost (some 0) X = Res.ok () { X with ed := ed' } ∧ EdStep 2 X.ed ed' := by
  have h : EdAt 2 (viPost (some 0)) X := by
    rw [Lemmas.C07.viPost_some]
    exact EdAt.bind edAt_viWfix (fun _ _ => edAt_viPostRest) rfl
  exact h hout

/-! ### `viPre` on a command key that is not a motion -/

theorem viRead_of_vibuf (S : VS) (k : Int) (v : List Int) (hS : S.vibuf = k :: v) :
    viRead S = Res.ok k { S with vibuf := v } := by
  unfold viRead; rw [hS]

theorem back_eq (S : VS) (k : Int) (v : List Int) (hS : S.vibuf = k :: v) :
    ({ S with vibuf := k :: ({ S with vibuf := v } : VS).vibuf } : VS) = S := by
  cases S
  simp only at hS
  subst hS
  rfl

theorem viMotionln_cmdkey (row : Int) (s s1 : VS) (k : Int) (h : k = 46 ∨ k = 64) (hk : viRead s = Res.ok k s1) :
    viMotionln row 0 s = Res.ok (0, row) { s1 with vibuf := k :: s1.vibuf } := by
  unfold viMotionln
  rcases h with rfl | rfl <;>
  · simp only [bind_apply, Vi.get, hk]
    simp [viBack, Vi.modify, bind_apply, pure_apply]

theorem viMotion_cmdkey (row off : Int) (s s1 : VS) (k : Int) (h : k = 46 ∨ k = 64) (hk : viRead s = Res.ok k s1) :
    viMotion row off s = Res.ok (0, row, off) { s1 with vibuf := k :: s1.vibuf } := by
  unfold viMotion
  simp only [bind_apply, Vi.get, viMotionln_cmdkey row s s1 k h hk]
  rcases h with rfl | rfl <;>
  simp [viBack, Vi.modify, bind_apply, pure_apply, viRead, Vi.get]

theorem viYankbuf_plain (s s1 : VS) (k : Int) (h : k ≠ 34) (hk : viRead s = Res.ok k s1) :
    viYankbuf s = Res.ok 0 { s1 with vibuf := k :: s1.vibuf } := by
  unfold viYankbuf
  simp only [bind_apply, hk]
  rw [if_neg (by simpa using h)]
  rfl

theorem viPrefix_nondigit' (s s1 : VS) (k : Int) (hk : viRead s = Res.ok k s1) (hd : ¬ (49 ≤ k ∧ k ≤ 57)) :
    viPrefix s = Res.ok 0 { s1 with vibuf := k :: s1.vibuf } := by
  unfold viPrefix
  simp only [bind_apply, hk]
  rw [if_neg (by simpa using hd)]
  rfl

/-- with a command key pushed back, the prefix readers and `vi_motion` leave the state alone -/
theorem viYankbuf_id (S : VS) (k : Int) (v : List Int) (hS : S.vibuf = k :: v) (h : k ≠ 34) :
    viYankbuf S = Res.ok 0 S := by
  rw [viYankbuf_plain S _ k h (viRead_of_vibuf S k v hS), back_eq S k v hS]

theorem viPrefix_id (S : VS) (k : Int) (v : List Int) (hS : S.vibuf = k :: v) (hd : ¬ (49 ≤ k ∧ k ≤ 57)) :
    viPrefix S = Res.ok 0 S := by
  rw [viPrefix_nondigit' S _ k (viRead_of_vibuf S k v hS) hd, back_eq S k v hS]

theorem viMotion_id (row off : Int) (S : VS) (k : Int) (v : List Int) (hS : S.vibuf = k :: v)
    (h : k = 46 ∨ k = 64) : viMotion row off S = Res.ok (0, row, off) S := by
  rw [viMotion_cmdkey row off S _ k h (viRead_of_vibuf S k v hS), back_eq S k v hS]

theorem viPre_cmdkey (s : VS) (k : Nat) (hk : k = 46 ∨ k = 64) (rest : Bytes) (hv : s.vibuf = [])
    (hp : pending s = k :: rest) :
    ∃ ib ip ty, viPre s = Res.ok (0, s.ed.xrow, noeol s s.ed.xrow s.ed.xoff)
        { s with ibuf := ib, ibufPos := ip, typed := ty, icmd := [k], vibuf := [(k : Int)],
                 arg1 := 0, arg2 := 0, ybuf := 0 } ∧
      ib.drop ip ++ ty = rest ∧ ip ≤ ib.length ∧
      (s.ibufPos < s.ibuf.length → ib = s.ibuf ∧ ip = s.ibufPos + 1 ∧ ty = s.typed) ∧
      (s.ibuf.length ≤ s.ibufPos → ib = [k] ∧ ip = 1 ∧ ty = rest) := by
  obtain ⟨ib, ip, ty, h1, h2, h3, h4, h5⟩ := termRead_ok { s with icmd := [], arg2 := 0 } k rest hp
  refine ⟨ib, ip, ty, ?_, h2, h3, h4, h5⟩
  have hki : (k : Int) = 46 ∨ (k : Int) = 64 := by omega
  have hk34 : (k : Int) ≠ 34 := by omega
  have hnd : ¬ (49 ≤ (k : Int) ∧ (k : Int) ≤ 57) := by omega
  have hr1 : viRead { s with icmd := [], arg2 := 0 } = Res.ok (k : Int)
      { s with icmd := [k], arg2 := 0, ibuf := ib, ibufPos := ip, typed := ty } :=
    (viRead_nil { s with icmd := [], arg2 := 0 } hv).trans h1
  unfold viPre
  simp only [bind_apply, Vi.get, termCmd_eq, Vi.modify]
  rw [viYankbuf_plain _ _ _ hk34 hr1]
  dsimp only
  rw [viPrefix_id _ (k : Int) s.vibuf rfl hnd]
  dsimp only
  simp only [BEq.rfl, if_true, bind_apply]
  rw [viYankbuf_id _ (k : Int) s.vibuf rfl hk34]
  dsimp only [Vi.modify]
  rw [viMotion_id _ _ _ (k : Int) s.vibuf rfl hki]
  simp [hv]
theorem setMark_lines (lb : Lbuf.Lb) (c : Nat) (r o : Int) : (Lbuf.setMark lb c r o).lines = lb.lines := by
  unfold Lbuf.setMark
  split <;> rfl

theorem marked_ed_fields (s : VS) : (marked s).ed = { s.ed with bufs := (marked s).ed.bufs } := by
  unfold marked
  dsimp only
  split
  · exact Lemmas.C06.setLb_fields _ _
  · rfl

theorem marked_line (s : VS) (r : Int) : (marked s).ed.line r = s.ed.line r := by
  unfold marked
  dsimp only
  cases hlb : s.ed.lb with
  | none => rfl
  | some lb =>
    dsimp only
    unfold Ed.line
    rw [Lemmas.ExFrame.setLb_lb, hlb]
    simp [setMark_lines]

theorem marked_regGet (s : VS) (c : Nat) : regGet (marked s).ed c = regGet s.ed c := by
  unfold regGet
  rw [marked_line]
  rw [marked_ed_fields]

theorem marked_out (s : VS) : (marked s).ed.out = s.ed.out := by rw [marked_ed_fields]

theorem setMark_useq (lb : Lbuf.Lb) (c : Nat) (r o : Int) : (Lbuf.setMark lb c r o).useq = lb.useq := by
  unfold Lbuf.setMark
  split <;> rfl

theorem marked_lb (s : VS) :
    (marked s).ed.lb = s.ed.lb.map (fun lb => Lbuf.setMark lb 94 s.ed.xrow s.ed.xoff) := by
  unfold marked
  dsimp only
  cases hlb : s.ed.lb with
  | none => simp [hlb]
  | some lb =>
    dsimp only
    rw [Lemmas.ExFrame.setLb_lb, hlb]
    rfl

/-- `lbuf_mark` changes neither the text, the registers nor the sequence number -/
theorem edStep_marked (s : VS) (hout : nlCount s.ed.out ≤ 1) : EdStep 0 s.ed (marked s).ed := by
  refine ⟨by rw [marked_out]; exact hout, by rw [marked_ed_fields], by rw [marked_ed_fields], ?_, fun _ => ?_⟩
  · rw [marked_lb]; cases s.ed.lb <;> simp [setMark_lines]
  · rw [marked_lb]; cases s.ed.lb <;> simp [setMark_useq]

/-- `vi_prefix()` on a one-digit count `d` followed by a key that is not a digit -/
theorem viPrefix_digit' (s s1 s2 : VS) (d k : Int) (hd : viRead s = Res.ok d s1) (h1 : 49 ≤ d) (h2 : d ≤ 57)
    (hk : viRead s1 = Res.ok k s2) (hnd : ¬ (48 ≤ k ∧ k ≤ 57)) :
    viPrefix s = Res.ok (d - 48) { s2 with vibuf := k :: s2.vibuf } := by
  unfold viPrefix
  simp only [bind_apply, hd]
  rw [if_pos (by simp; omega)]
  unfold viPrefix.digits
  rw [if_pos (by simp; omega)]
  simp only [bind_apply, hk]
  unfold viPrefix.digits
  rw [if_neg (by simpa using hnd)]
  simp only [bind_apply]
  show Res.ok _ _ = _
  congr 1
  rw [if_pos (by omega)]
  omega

theorem viPre_digit_cmdkey (s : VS) (d k : Nat) (hd1 : 49 ≤ d) (hd2 : d ≤ 57) (hk : k = 46 ∨ k = 64)
    (rest : Bytes) (hv : s.vibuf = []) (hp : pending s = d :: k :: rest) :
    ∃ ib ip ty, viPre s = Res.ok (0, s.ed.xrow, noeol s s.ed.xrow s.ed.xoff)
        { s with ibuf := ib, ibufPos := ip, typed := ty, icmd := [d, k], vibuf := [(k : Int)],
                 arg1 := (d : Int) - 48, arg2 := 0, ybuf := 0 } ∧
      ib.drop ip ++ ty = rest ∧ ip ≤ ib.length ∧ ib.length ≤ max 1 s.ibuf.length ∧
      (s.ibuf.length ≤ s.ibufPos → ib = [k] ∧ ip = 1 ∧ ty = rest) := by
  obtain ⟨ib1, ip1, ty1, g1, g2, g3, g4, g5⟩ := termRead_ok { s with icmd := [], arg2 := 0 } d (k :: rest) hp
  have hp2 : pending ({ s with icmd := [d], arg2 := 0, ibuf := ib1, ibufPos := ip1, typed := ty1, ybuf := 0 } : VS) = k :: rest := g2
  obtain ⟨ib, ip, ty, h1, h2, h3, h4, h5⟩ := termRead_ok _ k rest hp2
  refine ⟨ib, ip, ty, ?_, h2, h3, ?_, ?_⟩
  · have hki : (k : Int) = 46 ∨ (k : Int) = 64 := by omega
    have hk34 : (k : Int) ≠ 34 := by omega
    have hd34 : (d : Int) ≠ 34 := by omega
    have hnd : ¬ (48 ≤ (k : Int) ∧ (k : Int) ≤ 57) := by omega
    have hr1 : viRead { s with icmd := [], arg2 := 0 } = Res.ok (d : Int)
        { s with icmd := [d], arg2 := 0, ibuf := ib1, ibufPos := ip1, typed := ty1 } :=
      (viRead_nil { s with icmd := [], arg2 := 0 } hv).trans g1
    unfold viPre
    simp only [bind_apply, Vi.get, termCmd_eq, Vi.modify]
    rw [viYankbuf_plain _ _ _ hd34 hr1]
    dsimp only
    have hA : viRead ({ s with icmd := [d], arg2 := 0, ibuf := ib1, ibufPos := ip1, typed := ty1, vibuf := (d : Int) :: s.vibuf, ybuf := 0 } : VS)
        = Res.ok (d : Int) { s with icmd := [d], arg2 := 0, ibuf := ib1, ibufPos := ip1, typed := ty1, ybuf := 0 } := rfl
    have hB : viRead ({ s with icmd := [d], arg2 := 0, ibuf := ib1, ibufPos := ip1, typed := ty1, ybuf := 0 } : VS)
        = Res.ok (k : Int) { s with icmd := icmdAfter [d] k, arg2 := 0, ibuf := ib, ibufPos := ip, typed := ty, ybuf := 0 } := by
      refine (viRead_nil _ (by exact hv)).trans ?_
      exact h1
    rw [viPrefix_digit' _ _ _ (d : Int) (k : Int) hA (by omega) (by omega) hB hnd]
    dsimp only
    simp only [BEq.rfl, if_true, bind_apply]
    rw [viYankbuf_id _ (k : Int) s.vibuf rfl hk34]
    dsimp only [Vi.modify]
    rw [viMotion_id _ _ _ (k : Int) s.vibuf rfl hki]
    simp [hv, icmdAfter]
  · -- the length of `ibuf`
    have h4' := h4; have h5' := h5
    dsimp only at h4' h5' g4 g5
    by_cases hn : ib1.length ≤ ip1
    · rw [(h5' hn).1]; simp; omega
    · rw [(h4' (by omega)).1]
      by_cases hn0 : s.ibuf.length ≤ s.ibufPos
      · rw [(g5 hn0).1]; simp; omega
      · rw [(g4 (by omega)).1]; omega
  · intro hn0
    have h5' := h5
    dsimp only at h5' g5
    obtain ⟨a, b, c⟩ := g5 hn0
    exact h5' (by rw [a, b]; simp)

/-! ### the whole iteration -/

theorem isRepeatable_dot : isRepeatable 46 0 = false := by decide +kernel
theorem isRepeatable_at : isRepeatable 64 0 = false := by decide +kernel

theorem stepMid_zero (r o : Int) : stepMid 0 r o = commandTail := by
  unfold stepMid
  simp

/-- the iteration that executes `.`: everything up to `viPost` -/
theorem dot_step_eq (s s1 s2 : VS) (r o : Int) (hpre : viPre s = Res.ok (0, r, o) s1)
    (hkey : viRead s1 = Res.ok 46 s2) :
    viStep s = viPost (some 0) { pushN (cnt1 s2) s2.repCmd (marked s2) with icmd := [] } := by
  rw [viStep_eq_mid, bind_apply, hpre]
  dsimp only
  rw [stepMid_zero, bind_apply, commandTail_dot' s1 s2 hkey, finRec_eq]
  simp only [isRepeatable_dot, Bool.false_and, Bool.false_eq_true, if_false]

theorem pushN_ed (n : Nat) (x : Bytes) (s : VS) : (pushN n x s).ed = s.ed := by
  induction n generalizing s with
  | zero => rfl
  | succ n ih => exact ih (push x s)

/-- **the iteration that executes `.`**, with room in `ibuf` and no `[enter to continue]` pending: the
recorded keys are appended to `ibuf`, `icmd` is emptied, and `ed` is updated (mark, window, sequence
number); the counts, `rep_cmd`, the push-back stack are those of the state in which `.` was read -/
theorem dot_step (s s1 s2 : VS) (r o : Int) (hpre : viPre s = Res.ok (0, r, o) s1)
    (hkey : viRead s1 = Res.ok 46 s2) (hout : nlCount s2.ed.out ≤ 1)
    (hroom : s2.ibuf.length + cnt1 s2 * s2.repCmd.length ≤ 4096) :
    ∃ ed', viStep s = Res.ok ()
      { s2 with ed := ed', icmd := [], ibuf := s2.ibuf ++ (List.replicate (cnt1 s2) s2.repCmd).flatten } ∧
      EdStep 2 s2.ed ed' := by
  rw [dot_step_eq s s1 s2 r o hpre hkey, pushN_room _ _ (marked s2) hroom]
  obtain ⟨ed', h, hs⟩ := viPost_zero_frame
    { marked s2 with icmd := [], ibuf := s2.ibuf ++ (List.replicate (cnt1 s2) s2.repCmd).flatten }
    (by show nlCount (marked s2).ed.out ≤ 1; rw [marked_out]; exact hout)
  exact ⟨ed', h, (edStep_marked s2 hout).trans hs⟩

/-- the state in which the `@` command leaves the queue -/
def atPushed (s3 : VS) : Option (Nat × Bytes) → VS
  | some (n, x) => { pushN n x s3 with icmd := [] }
  | none => { s3 with icmd := [] }

/-- the iteration that executes `@`: everything up to `viPost` -/
theorem at_step_eq (s s1 s2 s3 : VS) (r o : Int) (p : Option (Nat × Bytes))
    (hpre : viPre s = Res.ok (0, r, o) s1) (hkey : viRead s1 = Res.ok 64 s2)
    (hhead : execHead (marked s2) = Res.ok p s3) :
    viStep s = viPost (some 0) (atPushed s3 p) := by
  rw [viStep_eq_mid, bind_apply, hpre]
  dsimp only
  rw [stepMid_zero, bind_apply, commandTail_at' s1 s2 hkey, bind_apply, hhead]
  dsimp only
  cases p with
  | none =>
    simp only [execPush, bind_apply, pure_apply, finRec_eq, isRepeatable_at, Bool.false_and,
      Bool.false_eq_true, if_false, atPushed]
  | some q =>
    obtain ⟨n, x⟩ := q
    simp only [execPush, bind_apply, repeatM_push, finRec_eq, isRepeatable_at, Bool.false_and,
      Bool.false_eq_true, if_false, atPushed]

theorem at_step (s s1 s2 s3 : VS) (r o : Int) (n : Nat) (x : Bytes)
    (hpre : viPre s = Res.ok (0, r, o) s1) (hkey : viRead s1 = Res.ok 64 s2)
    (hhead : execHead (marked s2) = Res.ok (some (n, x)) s3) (hout : nlCount s3.ed.out ≤ 1)
    (hroom : s3.ibuf.length + n * x.length ≤ 4096) :
    ∃ ed', viStep s = Res.ok ()
      { s3 with ed := ed', icmd := [], ibuf := s3.ibuf ++ (List.replicate n x).flatten } ∧
      EdStep 2 s3.ed ed' := by
  rw [at_step_eq s s1 s2 s3 r o _ hpre hkey hhead]
  unfold atPushed
  dsimp only
  rw [pushN_room _ _ s3 hroom]
  obtain ⟨ed', h, hs⟩ := viPost_zero_frame
    { s3 with icmd := [], ibuf := s3.ibuf ++ (List.replicate n x).flatten } hout
  exact ⟨ed', h, hs⟩

/-! ### `vc_execute()` on explicit keys -/

/-- `term_read`, with what it does to the queue spelled out -/
theorem termRead_ok' (s : VS) (k : Nat) (rest : Bytes) (h : pending s = k :: rest) :
    ∃ ib ip ty, termRead s = Res.ok (k : Int)
        { s with ibuf := ib, ibufPos := ip, typed := ty, icmd := icmdAfter s.icmd k } ∧
      ib.drop ip ++ ty = rest ∧ ip ≤ ib.length ∧ ib.length ≤ max 1 s.ibuf.length ∧
      (s.ibuf.length ≤ s.ibufPos + 1 → ip = ib.length ∧ ty = rest) := by
  obtain ⟨ib, ip, ty, h1, h2, h3, h4, h5⟩ := termRead_ok s k rest h
  refine ⟨ib, ip, ty, h1, h2, h3, ?_, ?_⟩
  · by_cases hn : s.ibuf.length ≤ s.ibufPos
    · rw [(h5 hn).1]; simp; omega
    · rw [(h4 (by omega)).1]; omega
  · intro hd
    by_cases hn : s.ibuf.length ≤ s.ibufPos
    · obtain ⟨a, b, c⟩ := h5 hn
      rw [a, b, c]; exact ⟨rfl, rfl⟩
    · obtain ⟨a, b, c⟩ := h4 (by omega)
      subst a b c
      have : s.ibufPos + 1 = s.ibuf.length := by omega
      rw [List.drop_eq_nil_of_le (by omega), List.nil_append] at h2
      exact ⟨this, h2⟩

/-- `vc_execute()` up to the push, on a plain register name `r` -/
theorem execHead_reg (S : VS) (r : Nat) (rest buf : Bytes) (hv : S.vibuf = []) (hp : pending S = r :: rest)
    (h92 : r ≠ 92) (h64 : r ≠ 64) (h27 : r ≠ 27) (h3 : r ≠ 3) (hreg : regGet S.ed r = some buf) :
    ∃ ib ip ty, execHead S = Res.ok (some (cnt1 S, buf.takeWhile (· != 0)))
        { S with ibuf := ib, ibufPos := ip, typed := ty, icmd := icmdAfter S.icmd r, execReg := (r : Int) } ∧
      ib.drop ip ++ ty = rest ∧ ip ≤ ib.length ∧ ib.length ≤ max 1 S.ibuf.length ∧
      (S.ibuf.length ≤ S.ibufPos + 1 → ip = ib.length ∧ ty = rest) := by
  obtain ⟨ib, ip, ty, h1, hrest⟩ := termRead_ok' S r rest hp
  refine ⟨ib, ip, ty, ?_, hrest⟩
  have e92 : ((r : Int) == 92) = false := by simp; omega
  have e64 : ((r : Int) == 64) = false := by simp; omega
  have eint : tkInt (r : Int) = false := by simp [tkInt]; omega
  have eneg : ¬ ((r : Int) < 0) := by omega
  unfold execHead
  simp only [bind_apply, viRead_nil S hv, h1, e92, pure_apply, eint, Vi.get, Vi.modify, e64,
    Bool.false_eq_true, if_false, eneg, Int.toNat_natCast, hreg]
  rfl

/-- `@@`: the register of the last `@` -/
theorem execHead_again (S : VS) (rest buf : Bytes) (hv : S.vibuf = []) (hp : pending S = 64 :: rest)
    (h0 : 0 ≤ S.execReg) (hreg : regGet S.ed S.execReg.toNat = some buf) :
    ∃ ib ip ty, execHead S = Res.ok (some (cnt1 S, buf.takeWhile (· != 0)))
        { S with ibuf := ib, ibufPos := ip, typed := ty, icmd := icmdAfter S.icmd 64 } ∧
      ib.drop ip ++ ty = rest ∧ ip ≤ ib.length ∧ ib.length ≤ max 1 S.ibuf.length ∧
      (S.ibuf.length ≤ S.ibufPos + 1 → ip = ib.length ∧ ty = rest) := by
  obtain ⟨ib, ip, ty, h1, hrest⟩ := termRead_ok' S 64 rest hp
  refine ⟨ib, ip, ty, ?_, hrest⟩
  have eneg : ¬ (S.execReg < 0) := by omega
  unfold execHead
  simp only [bind_apply, viRead_nil S hv, h1]
  simp [tkInt, Vi.get, Vi.modify, bind_apply, pure_apply, eneg, hreg, cnt1]

end Neatvi.Lemmas.C09b
