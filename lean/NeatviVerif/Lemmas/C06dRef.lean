import NeatviVerif.Model.Bytes
/-!
# C06d, the reference: ex addresses as syntax trees, and what they mean

This file does not import the model of `ex.c`.  It defines

* the *syntax* of an address list (`Addr`, `Sep`, `Loc`) with its rendering as bytes (`Loc.render`);
* the *world* an address is evaluated in (`World`: length of the buffer, marks, a search oracle) and the
  part of the state an address may change (`Cursor`: current row, remembered search keyword and direction);
* the *meaning* of an address (`Addr.eval`), of an address list (`evalList`), of a whole location
  (`refRegion`): terms are added exactly, each number saturating at `2^40` before it is added and the line
  number at `±2^29` after (what `ex.c` documents), `;` makes its address the current row, the region is
  (second-to-last address, last address + 1), a trailing separator is ignored.

Bytes: `.` 46, `$` 36, `'` 39, `/` 47, `?` 63, `+` 43, `-` 45, `,` 44, `;` 59, `%` 37, `\` 92, digits 48–57.
-/
namespace Neatvi.Lemmas.C06d
open Neatvi

/-! ## numbers -/

/-- line numbers saturate here (`NUMMAX` of `ex.c`): `2^29` -/
def numMax : Int := 536870912
/-- the numbers of an address saturate here before they are added (`TERMMAX` of `ex.c`): `2^40` -/
def termMax : Int := 1099511627776
/-- a remembered search keyword holds at most `EXLEN - 1` bytes -/
def kwdMax : Nat := 511

/-- the decimal value of a string of digits (`""` is 0) -/
def digitsVal (ds : Bytes) : Int := ds.foldl (fun (a : Int) (d : Nat) => a * 10 + ((d : Int) - 48)) 0

/-- saturation at `±mx` -/
def sat (mx x : Int) : Int := max (-mx) (min x mx)

theorem sat_id (mx x : Int) (h0 : -mx ≤ x) (h1 : x ≤ mx) : sat mx x = x := by unfold sat; omega

def isDigit (c : Nat) : Bool := 48 ≤ c && c ≤ 57

/-! ## syntax -/

/-- one offset `+ds` / `-ds` (`neg` for `-`); the digits may be missing (`+` alone adds 0) -/
structure Off where
  neg : Bool
  ds : Bytes
deriving Repr, DecidableEq

def Off.text (o : Off) : Bytes := (if o.neg then 45 else 43) :: o.ds

/-- the value an offset adds: its number, saturated at `2^40`, with its sign -/
def Off.val (o : Off) : Int := sat termMax (if o.neg then -digitsVal o.ds else digitsVal o.ds)

def offsText (l : List Off) : Bytes := l.flatMap Off.text
def offsVal (l : List Off) : Int := (l.map Off.val).sum

/-- a piece of a search pattern as typed: a plain byte, or a backslash and the byte it quotes -/
inductive PTok where
  | ch (c : Nat)
  | esc (d : Nat)
deriving Repr, DecidableEq

/-- as typed -/
def PTok.raw : PTok → Bytes
  | .ch c => [c]
  | .esc d => [92, d]

/-- as the regular expression sees it: a quoted delimiter loses its backslash, every other pair is kept -/
def PTok.cooked (delim : Nat) : PTok → Bytes
  | .ch c => [c]
  | .esc d => if d = delim then [d] else [92, d]

def rawPat (toks : List PTok) : Bytes := toks.flatMap PTok.raw
def cookedPat (delim : Nat) (toks : List PTok) : Bytes := toks.flatMap (PTok.cooked delim)

/-- what an address starts from -/
inductive Base where
  /-- nothing typed: the current line -/
  | implicit
  /-- `.` -/
  | dot
  /-- `$` -/
  | dollar
  /-- `'c` -/
  | mark (c : Nat)
  /-- a `'` that ends the address text: no mark name follows (it never resolves in practice: the mark "NUL") -/
  | quote
  /-- `/pat/` (forward) or `?pat?` (`back`); `closed = false`: the pattern runs to the end of the address -/
  | search (back : Bool) (toks : List PTok) (closed : Bool)
  /-- a line number -/
  | num (ds : Bytes)
deriving Repr, DecidableEq

def delimOf (back : Bool) : Nat := if back then 63 else 47

def Base.render : Base → Bytes
  | .implicit => []
  | .dot => [46]
  | .dollar => [36]
  | .mark c => [39, c]
  | .quote => [39]
  | .search back toks closed => delimOf back :: (rawPat toks ++ (if closed then [delimOf back] else []))
  | .num ds => ds

/-- one address: a base, offsets, and trailing bytes the evaluator skips (anything up to the next separator) -/
structure Addr where
  base : Base
  offs : List Off := []
  junk : Bytes := []
deriving Repr, DecidableEq

def Addr.render (a : Addr) : Bytes := a.base.render ++ offsText a.offs ++ a.junk

/-- what follows an address: `,`, `;`, or the end of the list -/
inductive Sep where
  | comma | semi | fin
deriving Repr, DecidableEq

def Sep.text : Sep → Bytes
  | .comma => [44]
  | .semi => [59]
  | .fin => []

abbrev AddrList := List (Addr × Sep)

def renderList (l : AddrList) : Bytes := l.flatMap (fun p => p.1.render ++ p.2.text)

/-- the address part of a command -/
inductive Loc where
  /-- `%` -/
  | whole
  /-- nothing -/
  | current
  | list (l : AddrList)
deriving Repr, DecidableEq

def Loc.render : Loc → Bytes
  | .whole => [37]
  | .current => []
  | .list l => renderList l

/-! ### which trees are the parse of their rendering -/

/-- the base does not run to the end of the address text -/
def Base.closed : Base → Bool
  | .search _ _ c => c
  | .quote => false
  | _ => true

def PTok.Ok (delim : Nat) : PTok → Prop
  | .ch c => c ≠ delim ∧ c ≠ 92
  | .esc _ => True

instance (delim : Nat) (t : PTok) : Decidable (t.Ok delim) := by
  cases t <;> (unfold PTok.Ok; exact inferInstance)

/-- the pieces of a pattern: plain bytes other than the delimiter and backslash, and pairs; a pattern that runs to
    the end of the text may end in a lone backslash -/
def ToksOk (delim : Nat) (toks : List PTok) (closed : Bool) : Prop :=
  (∀ t ∈ toks, t.Ok delim) ∨
  (closed = false ∧ toks.getLast? = some (.ch 92) ∧ ∀ t ∈ toks.dropLast, t.Ok delim)

instance (delim : Nat) (toks : List PTok) (closed : Bool) : Decidable (ToksOk delim toks closed) := by
  unfold ToksOk; exact inferInstance

def Base.Ok : Base → Prop
  | .search back toks cl => ToksOk (delimOf back) toks cl
  | .num ds => ds ≠ [] ∧ ∀ d ∈ ds, isDigit d = true
  | _ => True

instance (b : Base) : Decidable b.Ok := by
  cases b <;> (unfold Base.Ok; exact inferInstance)

/-- the skipped bytes hold no separator and do not continue the address: they do not start with a sign, nor —
    after a number or an offset (`nodigit`) — with a digit, nor — right after an empty address (`bare`) — with
    anything an address can start with -/
def junkOk (bare nodigit : Bool) (junk : Bytes) : Prop :=
  (∀ c ∈ junk, c ≠ 44 ∧ c ≠ 59) ∧
  (junk ≠ [] → junk.headD 0 ≠ 43 ∧ junk.headD 0 ≠ 45 ∧ (nodigit = true → isDigit (junk.headD 0) = false) ∧
    (bare = true → isDigit (junk.headD 0) = false ∧ junk.headD 0 ≠ 46 ∧ junk.headD 0 ≠ 36 ∧ junk.headD 0 ≠ 39 ∧
      junk.headD 0 ≠ 47 ∧ junk.headD 0 ≠ 63))

instance (bare nodigit : Bool) (junk : Bytes) : Decidable (junkOk bare nodigit junk) := by
  unfold junkOk; exact inferInstance

/-- the address is empty up to its junk -/
def Addr.bare (a : Addr) : Bool := a.base == .implicit && a.offs.isEmpty

def Base.isNum : Base → Bool
  | .num _ => true
  | _ => false

/-- the address ends in digits (a number or an offset): a digit after it would belong to it -/
def Addr.nodigit (a : Addr) : Bool := !a.offs.isEmpty || a.base.isNum

def Addr.Ok (a : Addr) : Prop :=
  a.base.Ok ∧ (∀ o ∈ a.offs, ∀ d ∈ o.ds, isDigit d = true) ∧ junkOk a.bare a.nodigit a.junk ∧
  (a.base.closed = false → a.offs = [] ∧ a.junk = [])

instance (a : Addr) : Decidable a.Ok := by unfold Addr.Ok; exact inferInstance

/-- every address is well formed, only the last item ends the list, an unclosed pattern comes last, and a
    last address after a separator is not empty (an empty one is the "trailing separator" list) -/
def ListOk : AddrList → Prop
  | [] => False
  | [(a, s)] => a.Ok ∧ (s = .fin → a.render ≠ []) ∧ (s ≠ .fin → a.base.closed = true)
  | (a, s) :: r => a.Ok ∧ s ≠ .fin ∧ a.base.closed = true ∧ ListOk r

instance : (l : AddrList) → Decidable (ListOk l)
  | [] => by unfold ListOk; exact inferInstance
  | [(a, s)] => by unfold ListOk; exact inferInstance
  | (a, s) :: b :: r => by
    have := instDecidableListOk (b :: r)
    unfold ListOk; exact inferInstance

def Loc.Ok : Loc → Prop
  | .list l => ListOk l ∧ renderList l ≠ [37]
  | _ => True

instance (l : Loc) : Decidable l.Ok := by cases l <;> (unfold Loc.Ok; exact inferInstance)

/-! ## meaning -/

/-- what an address reads and cannot change: the number of lines, the marks, and the search oracle —
    `reOk kw`: does the keyword compile (`none`: the engine gives up), `hit kw row`: does line `row` match it -/
structure World where
  len : Int
  mark : Nat → Option Int
  reOk : Bytes → Option Bool
  hit : Bytes → Int → Option Bool

/-- what an address list may change: the current row (`;`), the remembered search -/
structure Cursor where
  cur : Int
  kwd : Bytes
  dir : Int
deriving Repr, DecidableEq

/-- the nearest row from `row` on, going by `dir`, whose line matches; `k` rows are looked at at most.
    `none`: the matcher gave up; `some none`: no such row inside the buffer -/
def nearest (hit : Int → Option Bool) (len dir : Int) : Nat → Int → Option (Option Int)
  | 0, _ => some none
  | k + 1, row =>
    if row < 0 ∨ row ≥ len then some none else
    match hit row with
    | none => none
    | some true => some (some row)
    | some false => nearest hit len dir k (row + dir)

/-- the value of a base: `none` = the evaluation does not end; `some (none, _)` = unresolved (mark not set,
    no previous search, bad pattern, no matching line) -/
def Base.eval (w : World) (c : Cursor) : Base → Option (Option Int × Cursor)
  | .implicit => some (some c.cur, c)
  | .dot => some (some c.cur, c)
  | .dollar => some (some (w.len - 1), c)
  | .mark m => some (w.mark m, c)
  | .quote => some (w.mark 0, c)
  | .num ds => some (some (sat termMax (digitsVal ds) - 1), c)
  | .search back toks _ =>
    let kw := cookedPat (delimOf back) toks
    -- a non-empty pattern becomes the remembered search; an empty one repeats it
    let c1 : Cursor := if kw ≠ [] then { c with kwd := kw.take kwdMax, dir := if back then -1 else 1 } else c
    if c1.dir = 0 then some (none, c1) else
    match w.reOk c1.kwd with
    | none => none
    | some false => some (none, c1)
    | some true =>
      match nearest (w.hit c1.kwd) w.len c1.dir (w.len.toNat + 1) (c1.cur + c1.dir) with
      | none => none
      | some r => some (r, c1)

/-- the value of an address: base plus offsets, saturated at `±2^29` -/
def Addr.eval (w : World) (c : Cursor) (a : Addr) : Option (Option Int × Cursor) :=
  match a.base.eval w c with
  | none => none
  | some (none, c1) => some (none, c1)
  | some (some v, c1) => some (some (sat numMax (v + offsVal a.offs)), c1)

/-- the values of the addresses of a list, left to right; an address below line 0 (value `< -1`) is
    unresolved; after `;` the address is the current row -/
def evalList (w : World) : Cursor → AddrList → Option (Option (List Int) × Cursor)
  | c, [] => some (some [], c)
  | c, (a, s) :: r =>
    match a.eval w c with
    | none => none
    | some (none, c1) => some (none, c1)
    | some (some n, c1) =>
      if n < -1 then some (none, c1) else
      match evalList w (if s = .semi then { c1 with cur := n } else c1) r with
      | none => none
      | some (none, c2) => some (none, c2)
      | some (some l, c2) => some (some (n :: l), c2)

/-- the region of the values `[n₁, …, nₖ]`: from `nₖ₋₁` (from `nₖ` itself when `k = 1`) up to and including `nₖ` -/
def begOf (vals : List Int) : Int := (vals.dropLast.getLast?).getD (vals.getLast?.getD 0)
def endOf (vals : List Int) : Int := vals.getLast?.getD 0 + 1

/-- the verdict on a region `beg, end` (0-based, `end` exclusive): `(1, -1, -1)` for a reversed range; address
    `0` (`beg = -1`, `end = 0`) is the empty range before the first line; accepted (`0`) iff
    `0 ≤ beg < len` and `end ≤ len` -/
def verdict (len b e : Int) : Nat × Int × Int :=
  if e ≤ b then (1, -1, -1) else
  let b := if b < 0 ∧ e = 0 then 0 else b
  if 0 ≤ b ∧ b < len ∧ e ≤ len then (0, b, e) else (1, b, e)

/-- **the reference**: the region a location designates.  `(rc, beg, end)` and the cursor left behind;
    `rc = 1` is a rejection (`beg`, `end` as `ex_region` leaves them: `-1, -1` for an unresolved or reversed
    address, the out-of-range values otherwise) -/
def refRegion (w : World) (c : Cursor) : Loc → Option ((Nat × Int × Int) × Cursor)
  | .whole => some ((0, 0, max 0 w.len), c)
  | .current =>
    let b := max 0 (min c.cur w.len)
    some ((0, b, if b = w.len then b else b + 1), c)
  | .list l =>
    match evalList w c l with
    | none => none
    | some (none, c1) => some ((1, -1, -1), c1)
    | some (some vals, c1) => some (verdict w.len (begOf vals) (endOf vals), c1)

/-! ## from text to tree

`parseLoc s` reads an address text into a tree and *checks* that the tree is well formed and renders back to `s`;
so `parseLoc s = some loc` gives `loc.render = s ∧ loc.Ok` by construction, whatever `rawParse` does.  It is a
convenience (the hypothesis `parseLoc s = some loc` is decidable: `by decide`) — the semantics is defined on trees. -/

/-- the pieces of a pattern up to the closing delimiter -/
def parsePat (delim : Nat) : Nat → Bytes → List PTok → List PTok × Bool × Bytes
  | 0, s, acc => (acc, false, s)
  | _ + 1, [], acc => (acc, false, [])
  | f + 1, c :: r, acc =>
    if c = delim then (acc, true, r)
    else if c = 92 then
      (match r with
      | d :: r' => parsePat delim f r' (acc ++ [.esc d])
      | [] => (acc ++ [.ch c], false, []))
    else parsePat delim f r (acc ++ [.ch c])

def parseBase (s : Bytes) : Base × Bytes :=
  match s with
  | [] => (.implicit, [])
  | c :: r =>
    if c = 46 then (.dot, r)
    else if c = 36 then (.dollar, r)
    else if c = 39 then (match r with | m :: r' => (.mark m, r') | [] => (.quote, []))
    else if c = 47 then
      ((.search false (parsePat 47 (r.length + 1) r []).1 (parsePat 47 (r.length + 1) r []).2.1),
        (parsePat 47 (r.length + 1) r []).2.2)
    else if c = 63 then
      ((.search true (parsePat 63 (r.length + 1) r []).1 (parsePat 63 (r.length + 1) r []).2.1),
        (parsePat 63 (r.length + 1) r []).2.2)
    else if isDigit c then (.num (s.takeWhile isDigit), s.dropWhile isDigit)
    else (.implicit, s)

def parseOffs : Nat → Bytes → List Off → List Off × Bytes
  | 0, s, acc => (acc, s)
  | f + 1, s, acc =>
    match s with
    | c :: r =>
      if c = 43 ∨ c = 45 then parseOffs f (r.dropWhile isDigit) (acc ++ [⟨c = 45, r.takeWhile isDigit⟩])
      else (acc, s)
    | [] => (acc, [])

def parseAddr (s : Bytes) : Addr × Bytes :=
  let (b, r1) := parseBase s
  let (offs, r2) := parseOffs (r1.length + 1) r1 []
  (⟨b, offs, r2.takeWhile (fun c => c != 44 && c != 59)⟩, r2.dropWhile (fun c => c != 44 && c != 59))

def rawParse : Nat → Bytes → AddrList
  | 0, _ => []
  | f + 1, s =>
    match (parseAddr s).2 with
    | [] => [((parseAddr s).1, .fin)]
    | c :: r' =>
      if c = 44 then (if r' = [] then [((parseAddr s).1, .comma)] else ((parseAddr s).1, .comma) :: rawParse f r')
      else if c = 59 then (if r' = [] then [((parseAddr s).1, .semi)] else ((parseAddr s).1, .semi) :: rawParse f r')
      else [((parseAddr s).1, .fin)]

def parseLoc (s : Bytes) : Option Loc :=
  if s = [37] then some .whole
  else if s = [] then some .current
  else
    let loc := Loc.list (rawParse (s.length + 1) s)
    if loc.render = s ∧ loc.Ok then some loc else none

theorem parseLoc_sound (s : Bytes) (loc : Loc) (h : parseLoc s = some loc) : loc.render = s ∧ loc.Ok := by
  unfold parseLoc at h
  split at h
  · rename_i h1; cases h; exact ⟨h1.symm, trivial⟩
  · split at h
    · rename_i h2; cases h; exact ⟨h2.symm, trivial⟩
    · simp only [] at h
      split at h
      · rename_i h3; cases h; exact h3
      · cases h

/-! ## the reference line editor

What a line command does to the text (a list of lines), given the region `b..e` its address designates
(0-based, `e` exclusive). -/

inductive LineOp where
  /-- `d`: lines `b..e-1` go -/
  | delete
  /-- `y`, `k`, `=`, `p`, `w`, `rs`, or a rejected command: no line changes -/
  | keep
  /-- `a`, `pu`, `r`: the new lines come after line `e-1` -/
  | append (new : List Bytes)
  /-- `i`: the new lines come before line `b` -/
  | insert (new : List Bytes)
  /-- `c`, `!cmd`: lines `b..e-1` are replaced by the new lines -/
  | change (new : List Bytes)
deriving Repr, DecidableEq

def LineOp.apply (t : List Bytes) (b e : Nat) : LineOp → List Bytes
  | .delete => t.take b ++ t.drop e
  | .keep => t
  | .append new => t.take e ++ new ++ t.drop e
  | .insert new => t.take b ++ new ++ t.drop b
  | .change new => t.take b ++ new ++ t.drop e

/-- the frame law of the reference: with `b ≤ e ≤ length`, every line above `b` stays where it is, and every line
    from `e` on keeps its bytes and its order (it moves by the change of length) -/
theorem LineOp.frame (op : LineOp) (t : List Bytes) (b e : Nat) (hbe : b ≤ e) (he : e ≤ t.length) :
    (∀ m, m < b → (op.apply t b e)[m]? = t[m]?) ∧
    (∀ m, e ≤ m → (op.apply t b e)[m + (op.apply t b e).length - t.length]? = t[m]?) := by
  cases op with
  | keep => exact ⟨fun _ _ => rfl, fun m _ => by simp [LineOp.apply]⟩
  | delete =>
    refine ⟨fun m hm => ?_, fun m hm => ?_⟩
    · simp only [LineOp.apply]
      rw [List.getElem?_append_left (by simp; omega), List.getElem?_take_of_lt hm]
    · simp only [LineOp.apply, List.length_append, List.length_take, List.length_drop]
      rw [List.getElem?_append_right (by simp; omega)]
      simp only [List.length_take, List.getElem?_drop]
      congr 1; omega
  | append new =>
    refine ⟨fun m hm => ?_, fun m hm => ?_⟩
    · simp only [LineOp.apply, List.append_assoc]
      rw [List.getElem?_append_left (by simp; omega), List.getElem?_take_of_lt (by omega)]
    · simp only [LineOp.apply, List.length_append, List.length_take, List.length_drop]
      rw [List.getElem?_append_right (by simp; omega)]
      simp only [List.length_append, List.length_take, List.getElem?_drop]
      congr 1; omega
  | insert new =>
    refine ⟨fun m hm => ?_, fun m hm => ?_⟩
    · simp only [LineOp.apply, List.append_assoc]
      rw [List.getElem?_append_left (by simp; omega), List.getElem?_take_of_lt hm]
    · simp only [LineOp.apply, List.length_append, List.length_take, List.length_drop]
      rw [List.getElem?_append_right (by simp; omega)]
      simp only [List.length_append, List.length_take, List.getElem?_drop]
      congr 1; omega
  | change new =>
    refine ⟨fun m hm => ?_, fun m hm => ?_⟩
    · simp only [LineOp.apply, List.append_assoc]
      rw [List.getElem?_append_left (by simp; omega), List.getElem?_take_of_lt hm]
    · simp only [LineOp.apply, List.length_append, List.length_take, List.length_drop]
      rw [List.getElem?_append_right (by simp; omega)]
      simp only [List.length_append, List.length_take, List.getElem?_drop]
      congr 1; omega

end Neatvi.Lemmas.C06d
