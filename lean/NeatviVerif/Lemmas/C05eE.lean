import NeatviVerif.Lemmas.C05eD
/-!
# C05e lemmas, part E: `:s`

The traps of `ec_substitute`: the matcher (`ReSafe`), a group offset pair that is garbage (`ReGroups`: what the
matcher reports for the groups `\0`–`\9` is an empty pair or a range inside the line), a row outside the buffer
(excluded: the loop keeps `row = beg + k + shift` inside the buffer whatever the replacements do to the number of
lines), `lbuf_edit` with an inverted range (never).
-/
namespace Neatvi.Lemmas.C05e
open Neatvi Neatvi.Lbuf Neatvi.LbufIo Neatvi.Ex Neatvi.Rset
open Neatvi.Lemmas.ExFrame Neatvi.Lemmas.C02Ex Neatvi.Lemmas.C02b Neatvi.Lemmas.C06
open Neatvi.Lemmas.Hist

/-- the offsets of the groups `\0`–`\9` as `replace()` needs them: an empty pair (unset groups are `-1, -1`) or a
    range inside the line -/
def OffsOk (ln : Bytes) (offs : List Int) : Prop :=
  ∀ g, g < 10 → offs.getD (2 * g) (-1) ≤ offs.getD (2 * g + 1) (-1) ∧
    (offs.getD (2 * g) (-1) < offs.getD (2 * g + 1) (-1) → 0 ≤ offs.getD (2 * g) (-1) ∧ offs.getD (2 * g + 1) (-1) ≤ ln.length)

/-- the matcher reports sane groups.  Discharged in part R (`reGroups`). -/
def ReGroups : Prop :=
  ∀ (pat : Bytes) (flg : Nat) (re : RStr) (s : Bytes) (fl : Nat) (r : Int) (offs : List Int) (c : Nat),
    rstrMake pat flg = some (some re) → rstrFind re s 16 fl ND NG = some (r, offs, c) → 0 ≤ r → OffsOk s offs

theorem opt_ite {α : Type} {c : Prop} [Decidable c] {a b : Option α} (ha : ∃ x, a = some x) (hb : ∃ x, b = some x) :
    ∃ x, (if c then a else b) = some x := by
  split <;> assumption

theorem substExpand_go_total (ln : Bytes) (offs : List Int) (h : OffsOk ln offs) :
    ∀ (f : Nat) (rep acc : Bytes), ∃ x, substExpand.go ln offs f rep acc = some x := by
  intro f
  induction f with
  | zero => intro rep acc; exact ⟨_, rfl⟩
  | succ f ih =>
    intro rep acc
    rw [substExpand.go.eq_def]
    dsimp only
    split
    · exact ⟨_, rfl⟩
    · rename_i c r
      split
      · split
        · rename_i hd
          simp only [Bool.and_eq_true, decide_eq_true_eq] at hd
          have hg := h (r.headD 0 - 48) (by omega)
          rw [show 2 * (r.headD 0 - 48) = (r.headD 0 - 48) * 2 by omega] at hg
          obtain ⟨h1, h2⟩ := hg
          rw [if_neg (by omega)]
          split
          · exact ih _ _
          · rename_i hne
            simp only [beq_iff_eq] at hne
            have := h2 (by omega)
            rw [if_neg (by simp only [Bool.or_eq_true, decide_eq_true_eq]; omega)]
            exact ih _ _
        · exact ih _ _
      · exact ih _ _

theorem substExpand_total {ln : Bytes} {offs : List Int} (h : OffsOk ln offs) (rep : Bytes) :
    ∃ x, substExpand rep ln offs = some x := substExpand_go_total ln offs h _ _ _

theorem substLine_go_total (hre : ReSafe) (hgr : ReGroups) {pat : Bytes} {flg : Nat} {re : RStr}
    (hm : rstrMake pat flg = some (some re)) (rep : Bytes) (g : Bool) :
    ∀ (f : Nat) (ln : Bytes) (r : Option Bytes) (first : Bool), ∃ x, substLine.go re rep g f ln r first = some x := by
  intro f
  induction f with
  | zero => intro ln r first; exact ⟨_, rfl⟩
  | succ f ih =>
    intro ln r first
    rw [substLine.go]
    have hf := hre.find pat flg re ln 16 (if first = true then 0 else RE_NOTBOL) hm
    cases hfe : rstrFind re ln 16 (if first = true then 0 else RE_NOTBOL) ND NG with
    | none => exact absurd hfe hf
    | some p =>
      obtain ⟨res, offs, c⟩ := p
      dsimp only
      split
      · exact ⟨_, rfl⟩
      · rename_i hres
        obtain ⟨x, hx⟩ := substExpand_total (hgr pat flg re ln _ res offs c hm hfe (by omega)) rep
        rw [hx]
        dsimp only
        split <;> exact opt_ite ⟨_, rfl⟩ (ih _ _ _)

theorem substLine_total (hre : ReSafe) (hgr : ReGroups) {pat : Bytes} {flg : Nat} {re : RStr}
    (hm : rstrMake pat flg = some (some re)) (rep : Bytes) (g : Bool) (line : Bytes) :
    ∃ x, substLine re rep g line = some x := by
  unfold substLine
  obtain ⟨x, hx⟩ := substLine_go_total hre hgr hm rep g (line.length + 2) line none true
  rw [hx]
  obtain ⟨a, rest⟩ := x
  cases a <;> exact ⟨_, rfl⟩


theorem line_some (ed : Ed) (row : Int) (h0 : 0 ≤ row) (h1 : row < ed.len) : ∃ ln, ed.line row = some ln := by
  obtain ⟨k, rfl⟩ : ∃ k : Nat, row = k := ⟨row.toNat, by omega⟩
  rw [line_eq]
  rw [len_eq] at h1
  exact ⟨_, List.getElem?_eq_getElem (by omega)⟩

theorem sLoop_ret (hre : ReSafe) (hgr : ReGroups) {pat : Bytes} {flg : Nat} {re : RStr}
    (hm : rstrMake pat flg = some (some re)) (g : Bool) (b : Int) (hb : 0 ≤ b) :
    ∀ (n : Nat) (ed : Ed), Safe ed → b + n ≤ ed.len →
      ∃ ed' sh, sLoop re g b n ed = some (ed', sh) ∧ Safe ed' ∧ ed'.len = ed.len + sh ∧ -(n : Int) ≤ sh ∧
        ed'.atDepth = ed.atDepth := by
  intro n
  induction n with
  | zero => intro ed h _; exact ⟨ed, 0, rfl, h, by omega, by omega, rfl⟩
  | succ n ih =>
    intro ed h hle
    obtain ⟨edn, sh, hl, hs, hlen, hsh, hdn⟩ := ih ed h (by omega)
    rw [sLoop_succ, hl]
    unfold sStep
    dsimp only
    obtain ⟨ln, hln⟩ := line_some edn (b + (n : Int) + sh) (by omega) (by omega)
    rw [hln]
    dsimp only
    obtain ⟨x, hx⟩ := substLine_total hre hgr hm edn.xrep g ln
    rw [hx]
    cases x with
    | none => exact ⟨edn, sh, rfl, hs, hlen, by omega, hdn⟩
    | some nl =>
      dsimp only
      obtain ⟨ed', he, hs', hd'⟩ := edit_total' hs (some nl) (b + (n : Int) + sh) (b + (n : Int) + sh + 1) (by omega) (by omega)
      rw [he]
      have hfr := (ed_edit_frame edn ed' (some nl) _ _ (by omega) (by omega) (by omega) he).2
      exact ⟨ed', _, rfl, hs', by omega, by omega, hd'.trans hdn⟩

theorem sPrep_bufs (ed : Ed) (arg : Bytes) : (sPrep ed arg).1.bufs = ed.bufs := by
  unfold sPrep
  dsimp only
  repeat' split
  all_goals rfl

theorem sPrep_atDepth (ed : Ed) (arg : Bytes) : (sPrep ed arg).1.atDepth = ed.atDepth := by
  unfold sPrep
  dsimp only
  repeat' split
  all_goals rfl

theorem sPrep_kwd (ed : Ed) (arg : Bytes) (h0 : 0 ∉ arg) (hk : 0 ∉ ed.xkwd) : 0 ∉ (sPrep ed arg).1.xkwd := by
  have aux : ∀ (c : Prop) [Decidable c] (x : Bytes) (e0 : Ed), (if c then { e0 with xrep := x } else e0).xkwd = e0.xkwd := by
    intro c _ x e0; split <;> rfl
  have key : (sPrep ed arg).1.xkwd = (kwEd ed (reRead arg).1 1).xkwd := aux _ _ _
  rw [key]
  exact kwEd_nul ed arg 1 h0 hk

/-- **`:s` never traps** (given the matcher) -/
theorem run_subst (hre : ReSafe) (hgr : ReGroups) (f : Nat) {ed : Ed} (h : Safe ed) (loc cmd arg : Bytes) (txt : Option Bytes)
    (hloc : 0 ∉ loc) (harg : 0 ∉ arg) :
    Ret ed.atDepth (runCmd (f + 1) ed "ec_substitute" loc cmd arg txt) := by
  rw [runCmd_subst_eq']
  obtain ⟨rc, b, e, ed1, hr, h1, hd1, hrc, hin, _⟩ := region_cases hre h loc hloc
  rw [hr]
  dsimp only
  split
  · exact Ret.mk h1 hd1
  · rename_i hc
    have h0 : rc = 0 := by
      rcases hrc with h0 | h1'
      · exact h0
      · subst h1'; simp at hc
    have hb2 : (sPrep ed1 arg).1.bufs = ed1.bufs := sPrep_bufs ed1 arg
    have h2 : Safe (sPrep ed1 arg).1 := ⟨edInv_of_bufs hb2 h1.inv, by rw [cur_congr hb2]; exact h1.cur, sPrep_kwd ed1 arg harg h1.kwd⟩
    have hd2 : (sPrep ed1 arg).1.atDepth = ed.atDepth := (sPrep_atDepth ed1 arg).trans hd1
    split
    · exact Ret.mk h2 hd2
    · rcases hre.mkRe (sPrep ed1 arg).1 (sPrep ed1 arg).1.xkwd h2.kwd with hmk | ⟨re, hmk⟩
      · rw [hmk]; exact Ret.mk h2 hd2
      · rw [hmk]
        dsimp only
        obtain ⟨hb0, hbe, hel⟩ := hin h0
        obtain ⟨ed', sh, hl, hs, _, _, hd'⟩ := sLoop_ret hre hgr hmk (sPrep ed1 arg).2 b hb0 (e - b).toNat (sPrep ed1 arg).1 h2
          (by rw [len_congr hb2]; omega)
        rw [hl]
        exact Ret.mk hs (hd'.trans hd2)

end Neatvi.Lemmas.C05e
