import NeatviVerif.Lemmas.C08gB
/-!
# C08g: the case operators (`~`, `g~`, `gu`, `gU`) with a motion on the row, the shifts (`>`, `<`) with a line
motion
-/
set_option linter.unusedSimpArgs false
set_option linter.unusedVariables false
namespace Neatvi.Lemmas.C08g
open Neatvi Neatvi.Uc Neatvi.Vi Neatvi.Ex Neatvi.Lbuf Neatvi.Mot Neatvi.Spec
open Neatvi.Lemmas.C08 Neatvi.Lemmas.C08b Neatvi.Lemmas.C08f
open Neatvi.Lemmas.C09 (finRec pending)
open Neatvi.Props.C08f

/-- `RowCased cmd s sm s' r body a b`: the characters `[a, b)` of the row `r` were mapped by `caseCp cmd`
(`126`: toggle, `117`: lower, `85`: upper; non-ASCII characters are left alone); the cursor is on `(r, b)`
(the window fix of `vi()` then clamps it to the line); the registers are untouched -/
structure RowCased (cmd : Nat) (s sm s' : VS) (r : Int) (body : List Nat) (a b : Nat) : Prop where
  lines : lines s' = (lines s).take r.toNat ++
    [encStr (body.take a ++ ((body.take b).drop a).map (caseCp cmd) ++ (body.drop b ++ [10]))] ++ (lines s).drop (r.toNat + 1)
  regs : s'.ed.regs = s.ed.regs
  xrow : s'.ed.xrow = r
  xoff : s'.ed.xoff = (b : Int)
  frame : s' = { sm with ed := s'.ed }

/-- **generic**: a case operator (`cmd` = `~`, `u`, `U` as `vc_motion` receives it) with a motion that lands on
the row: the reference span is case-mapped -/
theorem row_case (cmd : Nat) (hc : cmd = 126 ∨ cmd = 117 ∨ cmd = 85)
    (s s1 sm : VS) (a2 k mv : Int) (body : List Nat) (o t : Nat)
    (hrow : OnRow s body o) (hl : Lands s s1 sm a2 k mv body o t) :
    ∃ s', vcMotion cmd s = Res.ok VC_OK s' ∧
      RowCased cmd s sm s' s.ed.xrow body (span (inclusive sm mv) o t body.length).1
        (span (inclusive sm mv) o t body.length).2 := by
  rw [vcMotion_lands cmd (by omega) s s1 sm a2 k mv body o t hrow hl]
  have hsp := span_bounds (inclusive sm mv) o t body.length hrow.onChar hl.le
  have hap : ∀ a b : Int, applyOp cmd s.ed.xrow a s.ed.xrow b false = viCase s.ed.xrow a s.ed.xrow b false cmd := by
    intro a b
    rcases hc with rfl | rfl | rfl <;> rfl
  rw [hap]
  have hls : lines sm = lines s := hl.lines
  obtain ⟨s', e1, e2, e3, e4, e5, e6⟩ := Props.C08b.viCase_line_spec sm s.ed.xrow cmd body _ _ hrow.row0
    (by rw [hls]; exact hrow.line) hrow.valid hrow.no10 hsp.1 hsp.2
  refine ⟨s', e1, ?_, ?_, e3, e4, e6⟩
  · rw [e2, hls]
  · rw [e5, hl.ed]

/-- `LineShifted dir s sm s' lo hi`: the rows `lo..hi` were shifted (`shiftLine dir`: a tab in front of every
non-empty row for `>`, one leading blank removed for `<`); the cursor is on the first non-blank of row `lo` -/
structure LineShifted (dir : Int) (s sm s' : VS) (lo hi : Int) : Prop where
  lines : lines s' = (lines s).take lo.toNat ++
    (((lines s).drop lo.toNat).take (hi.toNat - lo.toNat + 1)).map (shiftLine dir) ++ (lines s).drop (hi.toNat + 1)
  regs : s'.ed.regs = s.ed.regs
  xrow : s'.ed.xrow = lo
  xoff : s'.ed.xoff = Mot.indents (Vi.lines s') lo
  frame : s' = { sm with ed := s'.ed }

/-- **generic**: `>` / `<` (`cmd` = 62 / 60) with a line motion `k` whose target row is `t` -/
theorem line_shift (cmd : Nat) (hc : cmd = 62 ∨ cmd = 60) (s s1 : VS) (a2 k t : Int)
    (hk : Prefixed s a2 k s1) (hkpos : 0 < k)
    (ht : lnTarget (setArg2 a2 s) s.ed.xrow cmd k = some t)
    (h0 : 0 ≤ s.ed.xrow) (h1 : s.ed.xrow < lenOf s) (ht0 : 0 ≤ t) (ht1 : t < lenOf s)
    (hwf : ∀ l ∈ lines s, Props.C01.WfLine l) :
    ∃ s', vcMotion cmd s = Res.ok VC_OK s' ∧
      LineShifted (if cmd = 62 then 1 else -1) s (setArg2 a2 s1) s' (min s.ed.xrow t) (max s.ed.xrow t) := by
  obtain ⟨a, b, e⟩ := vcMotion_line cmd s s1 a2 k t hk hkpos ht ht0
  have hf := hk.frame
  have hls : lines (setArg2 a2 s1) = lines s := hf.lines
  have hap : applyOp cmd (min s.ed.xrow t) a (max s.ed.xrow t) b true =
      viShift (min s.ed.xrow t) (max s.ed.xrow t) (if cmd = 62 then 1 else -1) := by
    rcases hc with rfl | rfl <;> rfl
  rw [e, hap]
  obtain ⟨s', e1, e2, e3, e4, e5, e6⟩ := Props.C08b.viShift_spec (setArg2 a2 s1) (min s.ed.xrow t) (max s.ed.xrow t)
    (if cmd = 62 then 1 else -1) (by omega) (by omega)
    (by rw [show lenOf (setArg2 a2 s1) = lenOf s from hf.lenOf]; omega) (by rw [hls]; exact hwf)
  refine ⟨s', e1, ?_, ?_, e3, e4, e6⟩
  · rw [e2, hls]
  · rw [e5]; show s1.ed.regs = _; rw [hf.ed]

end Neatvi.Lemmas.C08g
