import NeatviVerif.Lemmas.C06dRef
import NeatviVerif.Lemmas.C05bEx
/-!
# C06d: `ex_lineno` on the rendering of an address is the reference value of the address
-/
namespace Neatvi.Lemmas.C06d
open Neatvi Neatvi.Lbuf Neatvi.Ex Neatvi.Rset Neatvi.Lemmas.C06 Neatvi.Lemmas.C05b

/-! ### the world and the cursor of an editor state -/

/-- does line `row` match the compiled keyword `kw` (rows outside the buffer match nothing) -/
def hitOf (ed : Ed) (kw : Bytes) (row : Int) : Option Bool :=
  match ed.mkRe kw with
  | some (some re) =>
    (match ed.line row with
    | some ln => (rstrFind re ln 0 0 ND NG).map (fun r => decide (r.1 ≥ 0))
    | none => some false)
  | _ => some false

/-- what address evaluation reads from the editor state -/
def worldOf (ed : Ed) : World where
  len := ed.len
  mark := fun c => (ed.lb.bind (fun l => jump l c)).map (·.1)
  reOk := fun kw => (ed.mkRe kw).map Option.isSome
  hit := hitOf ed

def cursorOf (ed : Ed) : Cursor := ⟨ed.xrow, ed.xkwd, ed.xkwddir⟩

def withCursor (ed : Ed) (c : Cursor) : Ed := { ed with xrow := c.cur, xkwd := c.kwd, xkwddir := c.dir }

@[simp] theorem worldOf_withCursor (ed : Ed) (c : Cursor) : worldOf (withCursor ed c) = worldOf ed := rfl
@[simp] theorem cursorOf_withCursor (ed : Ed) (c : Cursor) : cursorOf (withCursor ed c) = c := rfl
@[simp] theorem withCursor_cursorOf (ed : Ed) : withCursor ed (cursorOf ed) = ed := rfl
@[simp] theorem withCursor_withCursor (ed : Ed) (c c' : Cursor) : withCursor (withCursor ed c) c' = withCursor ed c' := rfl

/-! ### `re_read` on a rendered pattern -/

theorem rawPat_cons (t : PTok) (r : List PTok) : rawPat (t :: r) = t.raw ++ rawPat r := by simp [rawPat]
theorem cookedPat_cons (d : Nat) (t : PTok) (r : List PTok) : cookedPat d (t :: r) = t.cooked d ++ cookedPat d r := by
  simp [cookedPat]

theorem toks_le_raw (toks : List PTok) : toks.length ≤ (rawPat toks).length := by
  induction toks with
  | nil => simp [rawPat]
  | cons t r ih =>
    rw [rawPat_cons]
    cases t <;> simp [PTok.raw] <;> omega

theorem reRead_go_toks (delim : Nat) : ∀ (toks : List PTok) (tail acc : Bytes) (f : Nat),
    delim ≠ 92 → delim < 128 → (∀ t ∈ toks, t.Ok delim) → toks.length ≤ f →
    reRead.go delim f (rawPat toks ++ tail) acc =
      reRead.go delim (f - toks.length) tail (acc ++ cookedPat delim toks) := by
  intro toks
  induction toks with
  | nil => intro tail acc f _ _ _ _; simp [rawPat, cookedPat]
  | cons t r ih =>
    intro tail acc f hd h7 hok hf
    have e7 : decide (delim < 128) = true := by simpa using h7
    obtain ⟨f, rfl⟩ : ∃ g, f = g + 1 := ⟨f - 1, by simp at hf; omega⟩
    have hr : ∀ t ∈ r, t.Ok delim := fun x hx => hok x (List.mem_cons_of_mem _ hx)
    have hf' : r.length ≤ f := by simp at hf; omega
    rw [rawPat_cons, cookedPat_cons]
    cases t with
    | ch c =>
      obtain ⟨h1, h2⟩ : c ≠ delim ∧ c ≠ 92 := hok (.ch c) (List.mem_cons_self ..)
      have e1 : (c == delim) = false := by simpa using h1
      have e2 : (c == 92) = false := by simpa using h2
      simp only [PTok.raw, PTok.cooked, List.cons_append, List.nil_append]
      rw [reRead.go]
      simp only [e1, e2, Bool.false_eq_true, if_false, Bool.false_and]
      rw [ih tail _ f hd h7 hr hf']
      simp [List.append_assoc]
    | esc d =>
      simp only [PTok.raw, PTok.cooked, List.cons_append, List.nil_append]
      rw [reRead.go]
      · have e1 : ((92 : Nat) == delim) = false := by simpa using fun h => hd h.symm
        simp only [e1, Bool.false_eq_true, if_false, beq_self_eq_true, Bool.true_and, List.isEmpty_cons,
          Bool.not_false, if_true, List.headD_cons, List.drop_succ_cons, List.drop_zero]
        rw [ih tail _ f hd h7 hr hf']
        by_cases hdd : d = delim
        · simp [hdd, e7, List.append_assoc]
        · simp [hdd, List.append_assoc]

theorem delimOf_ne (back : Bool) : delimOf back ≠ 92 := by cases back <;> decide
theorem delimOf_lt (back : Bool) : delimOf back < 128 := by cases back <;> decide

theorem getLast_split (toks : List PTok) (x : PTok) (h : toks.getLast? = some x) : toks = toks.dropLast ++ [x] := by
  have hne : toks ≠ [] := by intro h0; rw [h0] at h; cases h
  have := List.dropLast_concat_getLast hne
  rw [List.getLast?_eq_some_getLast hne] at h
  simp only [Option.some.injEq] at h
  rw [h] at this
  exact this.symm

theorem reRead_search (back : Bool) (toks : List PTok) (closed : Bool) (t : Bytes)
    (hok : ToksOk (delimOf back) toks closed) (hc : closed = false → t = []) :
    reRead ((Base.search back toks closed).render ++ t) = (some (cookedPat (delimOf back) toks), t) := by
  have hlen := toks_le_raw toks
  rcases hok with hok | ⟨hcl, hlast, hinit⟩
  · cases closed with
    | true =>
      simp only [Base.render, if_true, List.cons_append, List.append_assoc, List.nil_append]
      unfold reRead
      simp only []
      rw [reRead_go_toks _ toks _ [] _ (delimOf_ne back) (delimOf_lt back) hok (by simp; omega)]
      obtain ⟨k, hk⟩ : ∃ k, (rawPat toks ++ delimOf back :: t).length + 1 - toks.length = k + 1 :=
        ⟨(rawPat toks ++ delimOf back :: t).length - toks.length, by simp; omega⟩
      rw [hk, reRead.go]
      simp [delimOf_lt back]
    | false =>
      have ht := hc rfl
      subst ht
      simp only [Base.render, Bool.false_eq_true, if_false, List.append_nil]
      unfold reRead
      simp only []
      rw [← List.append_nil (rawPat toks), reRead_go_toks _ toks [] [] _ (delimOf_ne back) (delimOf_lt back) hok (by simp; omega)]
      cases (rawPat toks ++ []).length + 1 - toks.length with
      | zero => rw [reRead.go]; simp
      | succ k => rw [reRead.go]; simp
  · -- an unclosed pattern that ends in a lone backslash
    subst hcl
    have ht := hc rfl
    subst ht
    have hsplit := getLast_split toks _ hlast
    have hraw : rawPat toks = rawPat toks.dropLast ++ [92] := by
      conv => lhs; rw [hsplit]
      simp [rawPat, PTok.raw]
    have hcook : cookedPat (delimOf back) toks = cookedPat (delimOf back) toks.dropLast ++ [92] := by
      conv => lhs; rw [hsplit]
      simp [cookedPat, PTok.cooked]
    have hl2 := toks_le_raw toks.dropLast
    simp only [Base.render, Bool.false_eq_true, if_false, List.append_nil]
    unfold reRead
    simp only []
    rw [hraw, hcook, reRead_go_toks _ toks.dropLast [92] [] _ (delimOf_ne back) (delimOf_lt back) hinit
      (by simp only [List.length_append, List.length_cons, List.length_nil]; omega)]
    obtain ⟨k, hk⟩ : ∃ k, (rawPat toks.dropLast ++ [92]).length + 1 - toks.dropLast.length = k + 2 :=
      ⟨(rawPat toks.dropLast ++ [92]).length - toks.dropLast.length - 1,
        by simp only [List.length_append, List.length_cons, List.length_nil]; omega⟩
    have e1 : ((92 : Nat) == delimOf back) = false := by cases back <;> rfl
    rw [hk, reRead.go]
    simp only [e1, Bool.false_eq_true, if_false, beq_self_eq_true, List.isEmpty_nil, Bool.not_true, Bool.and_false]
    rw [reRead.go]
    simp

/-! ### the search loop is `nearest` -/

theorem line_some (ed : Ed) (row : Int) (h0 : 0 ≤ row) (h1 : row < ed.len) : ∃ ln, ed.line row = some ln := by
  obtain ⟨k, rfl⟩ : ∃ k : Nat, row = (k : Int) := ⟨row.toNat, by omega⟩
  rw [line_eq]
  rw [len_eq] at h1
  exact ⟨_, List.getElem?_eq_getElem (by omega)⟩

theorem scan_nearest (ed : Ed) (kw : Bytes) (re : RStr) (hre : ed.mkRe kw = some (some re)) (dir : Int) :
    ∀ (f : Nat) (row : Int),
    exSearch.scan ed re dir ed.len f row =
      (nearest (hitOf ed kw) ed.len dir f row).map (fun o => o.getD (-1)) := by
  intro f
  induction f with
  | zero => intro row; rw [exSearch.scan, nearest]; rfl
  | succ f ih =>
    intro row
    rw [exSearch.scan, nearest]
    by_cases hr : row < 0 ∨ row ≥ ed.len
    · have : (decide (row < 0) || decide (row ≥ ed.len)) = true := by simpa using hr
      rw [if_pos this, if_pos hr]
      simp only [Option.map_some, Option.getD_none]
    · have : ¬ ((decide (row < 0) || decide (row ≥ ed.len)) = true) := by simpa using hr
      rw [if_neg this, if_neg hr]
      obtain ⟨ln, hln⟩ := line_some ed row (by omega) (by omega)
      have hh : hitOf ed kw row = (rstrFind re ln 0 0 ND NG).map (fun r => decide (r.1 ≥ 0)) := by
        unfold hitOf
        rw [hre, hln]
      rw [hh]
      simp only [hln]
      cases hfind : rstrFind re ln 0 0 ND NG with
      | none => rfl
      | some x =>
        obtain ⟨r, o, n⟩ := x
        simp only [Option.map_some]
        by_cases hr0 : r ≥ 0
        · simp [hr0]
        · simp only [hr0, decide_false, if_false]
          exact ih _

/-! ### `ex_search` on a rendered pattern -/

/-- the cursor after the pattern `kw` was read: a non-empty pattern is remembered -/
def kwCursor (c : Cursor) (back : Bool) (kw : Bytes) : Cursor :=
  if kw ≠ [] then { c with kwd := kw.take kwdMax, dir := if back then -1 else 1 } else c

theorem kwEd_eq (ed : Ed) (back : Bool) (kw : Bytes) :
    kwEd ed (some kw) (if back then -1 else 1) = withCursor ed (kwCursor (cursorOf ed) back kw) := by
  unfold kwEd kwCursor
  cases kw with
  | nil => simp
  | cons x xs =>
    simp only [List.isEmpty_cons, Bool.not_false, if_true, ne_eq, reduceCtorEq, not_false_eq_true]
    rfl

theorem search_eval_eq (w : World) (c : Cursor) (back : Bool) (toks : List PTok) (cl : Bool) :
    (Base.search back toks cl).eval w c =
      (let c1 := kwCursor c back (cookedPat (delimOf back) toks)
       if c1.dir = 0 then some (none, c1) else
       match w.reOk c1.kwd with
       | none => none
       | some false => some (none, c1)
       | some true =>
         match nearest (w.hit c1.kwd) w.len c1.dir (w.len.toNat + 1) (c1.cur + c1.dir) with
         | none => none
         | some r => some (r, c1)) := rfl

theorem exSearch_render (ed : Ed) (back : Bool) (toks : List PTok) (closed : Bool) (t : Bytes)
    (hok : ToksOk (delimOf back) toks closed) (hc : closed = false → t = []) :
    exSearch ed ((Base.search back toks closed).render ++ t) =
      match (Base.search back toks closed).eval (worldOf ed) (cursorOf ed) with
      | none => none
      | some (r, c1) => some ((r.getD (-1), t), withCursor ed c1) := by
  have hhead : ((Base.search back toks closed).render ++ t).headD 0 = delimOf back := rfl
  have hdir : (if (delimOf back == 47) = true then (1 : Int) else -1) = if back then -1 else 1 := by
    cases back <;> rfl
  rw [exSearch_eq, reRead_search back toks closed t hok hc, hhead, hdir, kwEd_eq, search_eval_eq]
  generalize kwCursor (cursorOf ed) back (cookedPat (delimOf back) toks) = c1
  simp only []
  have hx : (withCursor ed c1).xkwddir = c1.dir := rfl
  have hk : (withCursor ed c1).xkwd = c1.kwd := rfl
  have hr : (withCursor ed c1).xrow = c1.cur := rfl
  have hl : (withCursor ed c1).len = ed.len := rfl
  have hm : (withCursor ed c1).mkRe c1.kwd = ed.mkRe c1.kwd := rfl
  rw [hx, hk, hr, hl, hm]
  by_cases hd : c1.dir = 0
  · rw [if_pos (by simpa using hd), if_pos hd]
    rfl
  · rw [if_neg (by simpa using hd), if_neg hd]
    have hreok : (worldOf ed).reOk c1.kwd = (ed.mkRe c1.kwd).map Option.isSome := rfl
    rw [hreok]
    cases hre : ed.mkRe c1.kwd with
    | none => rfl
    | some o =>
      cases o with
      | none => rfl
      | some re =>
        simp only [Option.map_some, Option.isSome_some]
        have := scan_nearest (withCursor ed c1) c1.kwd re hre c1.dir (ed.len.toNat + 1) (c1.cur + c1.dir)
        rw [hl] at this
        rw [this]
        have hh : hitOf (withCursor ed c1) c1.kwd = (worldOf ed).hit c1.kwd := rfl
        have hlen : (worldOf ed).len = ed.len := rfl
        rw [hh, hlen]
        cases nearest ((worldOf ed).hit c1.kwd) ed.len c1.dir (ed.len.toNat + 1) (c1.cur + c1.dir) with
        | none => rfl
        | some r => rfl

/-! ### the base of an address -/

theorem isDigit_eq (c : Nat) : isDigit c = isDigitC c := rfl
theorem digitsVal_eq (ds : Bytes) : digitsVal ds = decVal ds := rfl

theorem nearest_range (hit : Int → Option Bool) (len dir : Int) : ∀ (k : Nat) (row r : Int),
    nearest hit len dir k row = some (some r) → 0 ≤ r ∧ r < len := by
  intro k
  induction k with
  | zero => intro row r h; rw [nearest] at h; cases h
  | succ k ih =>
    intro row r h
    rw [nearest] at h
    split at h
    · cases h
    · rename_i hr
      split at h
      · cases h
      · cases h; omega
      · exact ih _ _ h

/-- the value of a resolved base is not the failure marker of the model: it is at least `-1`, except for the
    current row, which is whatever the state holds -/
theorem base_eval_ge (w : World) (c : Cursor) (b : Base) (v : Int) (c1 : Cursor) (hok : b.Ok) (hlen : 0 ≤ w.len)
    (hm : ∀ m p, w.mark m = some p → 0 ≤ p) (h : b.eval w c = some (some v, c1)) : -1 ≤ v ∨ v = c.cur := by
  cases b with
  | implicit => simp only [Base.eval, Option.some.injEq, Prod.mk.injEq] at h; right; exact h.1.symm
  | dot => simp only [Base.eval, Option.some.injEq, Prod.mk.injEq] at h; right; exact h.1.symm
  | dollar => simp only [Base.eval, Option.some.injEq, Prod.mk.injEq] at h; left; omega
  | mark m =>
    simp only [Base.eval, Option.some.injEq, Prod.mk.injEq] at h
    left; have := hm m v h.1; omega
  | quote =>
    simp only [Base.eval, Option.some.injEq, Prod.mk.injEq] at h
    left; have := hm 0 v h.1; omega
  | num ds =>
    simp only [Base.eval, Option.some.injEq, Prod.mk.injEq] at h
    have := decVal_nonneg ds (fun d hd => by rw [← isDigit_eq]; exact hok.2 d hd)
    rw [← digitsVal_eq] at this
    left; unfold sat termMax at h; omega
  | search back toks cl =>
    rw [search_eval_eq] at h
    simp only [] at h
    split at h
    · cases h
    · split at h
      · cases h
      · cases h
      · split at h
        · cases h
        · rename_i r hn
          simp only [Option.some.injEq, Prod.mk.injEq] at h
          obtain ⟨rfl, _⟩ := h
          have := nearest_range _ _ _ _ _ _ hn
          left; omega

/-- what the text after the base must not start with, so that the base ends where it should -/
def tailOk : Base → Bytes → Prop
  | .implicit, t => t.headD 0 ≠ 46 ∧ t.headD 0 ≠ 36 ∧ t.headD 0 ≠ 39 ∧ t.headD 0 ≠ 47 ∧ t.headD 0 ≠ 63 ∧
      isDigit (t.headD 0) = false
  | .num _, t => isDigit (t.headD 0) = false
  | _, _ => True

/-- the text the model leaves when the base does not resolve (it is not looked at) -/
def failRest : Base → Bytes → Bytes
  | .mark c, t => c :: t
  | _, t => t

theorem worldOf_len (ed : Ed) : (worldOf ed).len = ed.len := rfl
theorem worldOf_mark (ed : Ed) (c : Nat) : (worldOf ed).mark c = (ed.lb.bind (fun l => jump l c)).map (·.1) := rfl

theorem worldOf_mark_nonneg (ed : Ed) (m : Nat) (p : Int) (h : (worldOf ed).mark m = some p) : 0 ≤ p := by
  rw [worldOf_mark] at h
  cases hl : ed.lb with
  | none => rw [hl] at h; cases h
  | some lb =>
    rw [hl] at h
    simp only [Option.bind_some, Option.map_eq_some_iff] at h
    obtain ⟨⟨p', o⟩, hj, rfl⟩ := h
    exact jump_nonneg lb m p' o hj

theorem exLinenoBase_render (ed : Ed) (b : Base) (t : Bytes) (hok : b.Ok) (hc : b.closed = false → t = [])
    (ht : tailOk b t) :
    exLinenoBase ed (b.render ++ t) =
      match b.eval (worldOf ed) (cursorOf ed) with
      | none => none
      | some (none, c1) => some ((-1000000, failRest b t), withCursor ed c1)
      | some (some v, c1) => some ((v, t), withCursor ed c1) := by
  cases b with
  | implicit =>
    obtain ⟨h1, h2, h3, h4, h5, h6⟩ := ht
    rw [isDigit_eq] at h6
    have e46 : (t.headD 0 == 46) = false := by simpa using h1
    have e36 : (t.headD 0 == 36) = false := by simpa using h2
    have e39 : (t.headD 0 == 39) = false := by simpa using h3
    have e47 : (t.headD 0 == 47) = false := by simpa using h4
    have e63 : (t.headD 0 == 63) = false := by simpa using h5
    unfold exLinenoBase
    simp only [Base.render, List.nil_append, Base.eval, e46, e36, e39, e47, e63, h6, Bool.false_eq_true, if_false,
      Bool.or_self]
    rfl
  | dot =>
    unfold exLinenoBase
    simp only [Base.render, List.cons_append, List.nil_append, Base.eval, List.headD_cons]
    simp
    rfl
  | dollar =>
    unfold exLinenoBase
    simp only [Base.render, List.cons_append, List.nil_append, Base.eval, List.headD_cons]
    simp
    rfl
  | mark m =>
    unfold exLinenoBase
    simp only [Base.render, List.cons_append, List.nil_append, Base.eval, List.headD_cons, worldOf_mark]
    simp only [show ((39 : Nat) == 46) = false by decide, show ((39 : Nat) == 36) = false by decide,
      Bool.false_eq_true, if_false, beq_self_eq_true, if_true]
    have hg : (39 :: m :: t).getD 1 0 = m := rfl
    rw [hg]
    cases hj : ed.lb.bind (fun l => jump l m) with
    | none => simp [failRest]
    | some x => obtain ⟨p, o⟩ := x; simp
  | quote =>
    have ht0 := hc rfl
    subst ht0
    unfold exLinenoBase
    simp only [Base.render, List.append_nil, Base.eval, List.headD_cons, worldOf_mark]
    simp only [show ((39 : Nat) == 46) = false by decide, show ((39 : Nat) == 36) = false by decide,
      Bool.false_eq_true, if_false, beq_self_eq_true, if_true]
    have hg : ([39] : Bytes).getD 1 0 = 0 := rfl
    rw [hg]
    cases hj : ed.lb.bind (fun l => jump l 0) with
    | none => simp [failRest]
    | some x => obtain ⟨p, o⟩ := x; simp
  | num ds =>
    obtain ⟨hne, hd⟩ := hok
    have ht' : isDigitC (t.headD 0) = false := ht
    have hd' : ∀ d ∈ ds, isDigitC d = true := hd
    obtain ⟨c, r, rfl⟩ : ∃ c r, ds = c :: r := by
      cases ds with
      | nil => exact absurd rfl hne
      | cons c r => exact ⟨c, r, rfl⟩
    have hc' := hd' c (List.mem_cons_self ..)
    have hc'' := hc'
    simp only [isDigitC, Bool.and_eq_true, decide_eq_true_eq] at hc''
    have e46 : (c == 46) = false := by simp only [beq_eq_false_iff_ne, ne_eq]; omega
    have e36 : (c == 36) = false := by simp only [beq_eq_false_iff_ne, ne_eq]; omega
    have e39 : (c == 39) = false := by simp only [beq_eq_false_iff_ne, ne_eq]; omega
    have e47 : (c == 47) = false := by simp only [beq_eq_false_iff_ne, ne_eq]; omega
    have e63 : (c == 63) = false := by simp only [beq_eq_false_iff_ne, ne_eq]; omega
    have hat := atoi_digits_append c r t hd' ht'
    have hdrop := dropWhile_digits_append (c :: r) t hd' ht'
    have hbase : ∀ r' : Bytes, exLinenoBase ed (c :: r') =
        some ((exNum (c :: r') TERMMAX - 1, (c :: r').dropWhile isDigitC), ed) := by
      intro r'
      unfold exLinenoBase
      simp only [List.headD_cons, e46, e36, e39, e47, e63, hc', Bool.false_eq_true, if_false, Bool.or_self, if_true]
    simp only [Base.render, Base.eval]
    rw [List.cons_append] at hat hdrop ⊢
    rw [hbase, hdrop]
    unfold exNum
    rw [hat]
    rfl
  | search back toks cl =>
    have hh : ((Base.search back toks cl).render ++ t).headD 0 = delimOf back := rfl
    unfold exLinenoBase
    rw [hh, exSearch_render ed back toks cl t hok hc]
    have e46 : (delimOf back == 46) = false := by cases back <;> rfl
    have e36 : (delimOf back == 36) = false := by cases back <;> rfl
    have e39 : (delimOf back == 39) = false := by cases back <;> rfl
    have e4763 : (delimOf back == 47 || delimOf back == 63) = true := by cases back <;> rfl
    simp only [e46, e36, e39, e4763, Bool.false_eq_true, if_false, if_true]
    cases hev : (Base.search back toks cl).eval (worldOf ed) (cursorOf ed) with
    | none => rfl
    | some x =>
      obtain ⟨r, c1⟩ := x
      cases r with
      | none => simp [failRest]
      | some v =>
        have hv : 0 ≤ v := by
          rw [search_eval_eq] at hev
          simp only [] at hev
          split at hev
          · cases hev
          · split at hev
            · cases hev
            · cases hev
            · split at hev
              · cases hev
              · rename_i r hn
                simp only [Option.some.injEq, Prod.mk.injEq] at hev
                obtain ⟨rfl, _⟩ := hev
                exact (nearest_range _ _ _ _ _ _ hn).1
        simp only [Option.getD_some]
        rw [if_neg (by omega)]

/-! ### the offsets -/

theorem offsText_cons (o : Off) (l : List Off) : offsText (o :: l) = (if o.neg then 45 else 43) :: (o.ds ++ offsText l) := by
  simp [offsText, Off.text]

theorem offsVal_cons (o : Off) (l : List Off) : offsVal (o :: l) = o.val + offsVal l := by
  simp [offsVal]

theorem offsText_head_nd (l : List Off) (t : Bytes) (ht : isDigitC (t.headD 0) = false) :
    isDigitC ((offsText l ++ t).headD 0) = false := by
  cases l with
  | nil => simpa [offsText] using ht
  | cons o l =>
    rw [offsText_cons]
    cases o.neg <;> simp [isDigitC]

theorem offsText_len (l : List Off) : l.length ≤ (offsText l).length := by
  induction l with
  | nil => simp
  | cons o l ih => rw [offsText_cons]; simp; omega

/-- the loop adds the value of every offset and stops at `t`, which does not start with a sign nor — after an
    offset — with a digit -/
theorem offs_render : ∀ (l : List Off) (f : Nat) (n : Int) (t : Bytes),
    l.length < f → (∀ o ∈ l, ∀ d ∈ o.ds, isDigit d = true) → (t.headD 0 == 45 || t.headD 0 == 43) = false →
    (l ≠ [] → isDigitC (t.headD 0) = false) →
    exLineno.offs f n (offsText l ++ t) = (n + offsVal l, t) := by
  intro l
  induction l with
  | nil =>
    intro f n t hf _ hs _
    cases f with
    | zero => omega
    | succ f =>
      rw [exLineno.offs]
      simp only [offsText, List.flatMap_nil, List.nil_append, hs, Bool.false_eq_true, if_false, offsVal, List.map_nil,
        List.sum_nil, Int.add_zero]
  | cons o l ih =>
    intro f n t hf hok hs hdg
    cases f with
    | zero => omega
    | succ f =>
      have hdt : isDigitC (t.headD 0) = false := hdg (by simp)
      have hds : ∀ d ∈ o.ds, isDigitC d = true := hok o (List.mem_cons_self ..)
      have hok' : ∀ o ∈ l, ∀ d ∈ o.ds, isDigit d = true := fun q hq => hok q (List.mem_cons_of_mem _ hq)
      have hnd := offsText_head_nd l t hdt
      have hsign : (((if o.neg then 45 else 43) :: (o.ds ++ (offsText l ++ t))).headD 0 == 45 ||
          ((if o.neg then 45 else 43) :: (o.ds ++ (offsText l ++ t))).headD 0 == 43) = true := by
        cases o.neg <;> simp
      have hnum : exNum ((if o.neg then 45 else 43) :: (o.ds ++ (offsText l ++ t))) TERMMAX = o.val := by
        unfold exNum
        rw [atoi_sign_digits o.neg o.ds _ hds hnd]
        rfl
      rw [offsText_cons, List.cons_append, List.append_assoc, exLineno.offs, if_pos hsign, hnum]
      simp only [List.drop_succ_cons, List.drop_zero]
      rw [dropWhile_digits_append o.ds _ hds hnd, ih f _ t (by simp only [List.length_cons] at hf; omega) hok' hs
        (fun _ => hdt), offsVal_cons, Int.add_assoc]

/-! ### one address -/

/-- what follows an address inside a list: nothing, `,` or `;` -/
def SepTail (t : Bytes) : Prop := t = [] ∨ t.headD 0 = 44 ∨ t.headD 0 = 59

theorem sepTail_head (t : Bytes) (h : SepTail t) : t.headD 0 = 0 ∨ t.headD 0 = 44 ∨ t.headD 0 = 59 := by
  rcases h with rfl | h | h
  · exact Or.inl rfl
  · exact Or.inr (Or.inl h)
  · exact Or.inr (Or.inr h)

theorem headD_append' (a b : Bytes) : (a ++ b).headD 0 = if a = [] then b.headD 0 else a.headD 0 := by
  cases a <;> simp

/-- the head of `junk ++ t`: not a sign; after a number or an offset not a digit; after an empty address nothing an
    address starts with -/
theorem junk_head (bare nodigit : Bool) (junk t : Bytes) (hj : junkOk bare nodigit junk) (ht : SepTail t) :
    (junk ++ t).headD 0 ≠ 43 ∧ (junk ++ t).headD 0 ≠ 45 ∧
    (nodigit = true → isDigitC ((junk ++ t).headD 0) = false) ∧
    (bare = true → isDigitC ((junk ++ t).headD 0) = false ∧ (junk ++ t).headD 0 ≠ 46 ∧ (junk ++ t).headD 0 ≠ 36 ∧
      (junk ++ t).headD 0 ≠ 39 ∧ (junk ++ t).headD 0 ≠ 47 ∧ (junk ++ t).headD 0 ≠ 63) := by
  rw [headD_append']
  split
  · rcases sepTail_head t ht with h | h | h <;> rw [h] <;>
      exact ⟨by decide, by decide, fun _ => by decide, fun _ => by decide⟩
  · rename_i hne
    obtain ⟨h1, h2, h3, h4⟩ := hj.2 hne
    exact ⟨h1, h2, h3, h4⟩

theorem exLineno_render (ed : Ed) (a : Addr) (t : Bytes) (hok : a.Ok) (ht : SepTail t)
    (hc : a.base.closed = false → t = []) (hx : ed.xrow ≠ -1000000) :
    exLineno ed (a.render ++ t) =
      match a.eval (worldOf ed) (cursorOf ed) with
      | none => none
      | some (none, c1) => some ((-2, failRest a.base (offsText a.offs ++ (a.junk ++ t))), withCursor ed c1)
      | some (some n, c1) => some ((n, a.junk ++ t), withCursor ed c1) := by
  obtain ⟨hb, ho, hj, hcl⟩ := hok
  obtain ⟨j1, j2, j3, j4⟩ := junk_head a.bare a.nodigit a.junk t hj ht
  have hsgn : ((a.junk ++ t).headD 0 == 45 || (a.junk ++ t).headD 0 == 43) = false := by
    generalize (a.junk ++ t).headD 0 = x at j1 j2
    simp [j1, j2]
  have hdig : a.offs ≠ [] → isDigitC ((a.junk ++ t).headD 0) = false := by
    intro h
    apply j3
    cases ho' : a.offs with
    | nil => exact absurd ho' h
    | cons o l => simp [Addr.nodigit, ho']
  -- the text after the base does not continue it
  have htail : tailOk a.base (offsText a.offs ++ (a.junk ++ t)) := by
    cases hbase : a.base with
    | implicit =>
      cases hoffs : a.offs with
      | nil =>
        have hbare : a.bare = true := by simp [Addr.bare, hbase, hoffs]
        obtain ⟨k0, k1, k2, k3, k4, k5⟩ := j4 hbare
        simp only [tailOk, offsText, List.flatMap_nil, List.nil_append]
        exact ⟨k1, k2, k3, k4, k5, k0⟩
      | cons o l =>
        simp only [tailOk, offsText_cons, List.cons_append, List.headD_cons]
        cases o.neg <;> decide
    | num ds =>
      simp only [tailOk]
      cases hoffs : a.offs with
      | nil =>
        simp only [offsText, List.flatMap_nil, List.nil_append]
        exact j3 (by simp [Addr.nodigit, hbase, Base.isNum])
      | cons o l =>
        rw [offsText_cons]
        cases o.neg <;> simp [isDigit]
    | dot => trivial
    | dollar => trivial
    | mark m => trivial
    | quote => trivial
    | search b tk cl => trivial
  have hc' : a.base.closed = false → offsText a.offs ++ (a.junk ++ t) = [] := by
    intro h
    obtain ⟨h1, h2⟩ := hcl h
    rw [h1, h2, hc h]
    rfl
  have hrender : a.render ++ t = a.base.render ++ (offsText a.offs ++ (a.junk ++ t)) := by
    simp [Addr.render, List.append_assoc]
  rw [hrender, exLineno_eq, exLinenoBase_render ed a.base _ hb hc' htail]
  unfold Addr.eval
  cases hev : a.base.eval (worldOf ed) (cursorOf ed) with
  | none => rfl
  | some x =>
    obtain ⟨r, c1⟩ := x
    cases r with
    | none => rfl
    | some v =>
      have hge := base_eval_ge (worldOf ed) (cursorOf ed) a.base v c1 hb (len_nonneg ed) (worldOf_mark_nonneg ed) hev
      have hv : (v == -1000000) = false := by
        have : v ≠ -1000000 := by
          rcases hge with h | h
          · omega
          · rw [h]; exact hx
        simpa using this
      simp only [hv, Bool.false_eq_true, if_false]
      rw [offs_render a.offs _ v (a.junk ++ t) (by have := offsText_len a.offs; simp only [List.length_append]; omega) ho
        hsgn hdig]
      rfl

end Neatvi.Lemmas.C06d
