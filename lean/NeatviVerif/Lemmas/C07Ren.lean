import NeatviVerif.Model.Ren
/-!
# C07 helper lemmas: `ren_noeol`, and the character index `uc_chr` is strictly increasing
-/
set_option linter.unusedSimpArgs false
set_option linter.unusedVariables false

namespace Neatvi.Lemmas.C07
open Neatvi Neatvi.Uc Neatvi.Ren

/-- the first step of `ren_noeol`: an offset at or beyond the end goes to the last character -/
def clampOff (ln : Bytes) (o : Int) : Int := if o ≥ (ucSlen ln : Int) then max 0 ((ucSlen ln : Int) - 1) else o

theorem renNoeol_eq (ln : Bytes) (o : Int) :
    renNoeol ln o = if clampOff ln o > 0 ∧ chrHd ln (clampOff ln o).toNat = 10 then clampOff ln o - 1 else clampOff ln o := by
  unfold renNoeol clampOff
  simp only [Bool.and_eq_true, decide_eq_true_eq, beq_iff_eq]

theorem clampOff_nonneg (ln : Bytes) (o : Int) (h : 0 ≤ o) : 0 ≤ clampOff ln o := by
  unfold clampOff; split <;> omega

theorem clampOff_le (ln : Bytes) (o : Int) (h : 0 ≤ o) : clampOff ln o ≤ o := by
  unfold clampOff; split <;> omega

theorem clampOff_lt (ln : Bytes) (o : Int) : clampOff ln o < max 1 (ucSlen ln : Int) := by
  unfold clampOff; split <;> omega

theorem clampOff_neg (ln : Bytes) (o : Int) (h : o < 0) : clampOff ln o = o := by
  unfold clampOff; split <;> omega

theorem clampOff_fix (ln : Bytes) (o : Int) (h : o < max 1 (ucSlen ln : Int)) (h0 : 0 ≤ o) : clampOff ln o = o := by
  unfold clampOff; split <;> omega

theorem renNoeol_nonneg (ln : Bytes) (o : Int) (h : 0 ≤ o) : 0 ≤ renNoeol ln o := by
  have := clampOff_nonneg ln o h
  rw [renNoeol_eq]; split <;> omega

theorem renNoeol_le (ln : Bytes) (o : Int) (h : 0 ≤ o) : renNoeol ln o ≤ o := by
  have := clampOff_le ln o h
  rw [renNoeol_eq]; split <;> omega

theorem renNoeol_lt (ln : Bytes) (o : Int) : renNoeol ln o < max 1 (ucSlen ln : Int) := by
  have := clampOff_lt ln o
  rw [renNoeol_eq]; split <;> omega

/-- a negative offset is returned unchanged -/
theorem renNoeol_neg (ln : Bytes) (o : Int) (h : o < 0) : renNoeol ln o = o := by
  rw [renNoeol_eq, clampOff_neg ln o h]
  rw [if_neg]; omega

theorem renNoeol_neg_iff (ln : Bytes) (o : Int) : renNoeol ln o < 0 ↔ o < 0 := by
  constructor
  · intro h
    by_cases h0 : 0 ≤ o
    · have := renNoeol_nonneg ln o h0; omega
    · omega
  · intro h; rw [renNoeol_neg ln o h]; exact h

/-- no two consecutive characters of the line start with a newline byte -/
def NoNlNl (ln : Bytes) : Prop := ∀ k, chrHd ln (k + 1) = 10 → chrHd ln k ≠ 10

/-- what `ren_noeol` guarantees on any line: the result is not on a newline, unless the character
before that newline is a newline too -/
theorem renNoeol_not_nl_gen (ln : Bytes) (o : Int) (h : 0 < renNoeol ln o) :
    chrHd ln (renNoeol ln o).toNat ≠ 10 ∨ chrHd ln ((renNoeol ln o).toNat + 1) = 10 := by
  rw [renNoeol_eq] at h ⊢
  split
  · rename_i hc
    right
    rw [if_pos hc] at h
    have : (clampOff ln o - 1).toNat + 1 = (clampOff ln o).toNat := by omega
    rw [this]; exact hc.2
  · rename_i hc
    rw [if_neg hc] at h
    left
    intro h10
    exact hc ⟨h, h10⟩

theorem renNoeol_not_nl (ln : Bytes) (o : Int) (hl : NoNlNl ln) (h : 0 < renNoeol ln o) :
    chrHd ln (renNoeol ln o).toNat ≠ 10 := by
  rcases renNoeol_not_nl_gen ln o h with h1 | h1
  · exact h1
  · exact hl _ h1

/-- idempotence, on lines without two consecutive newline characters (every line of a buffer) -/
theorem renNoeol_idem (ln : Bytes) (o : Int) (hl : NoNlNl ln) :
    renNoeol ln (renNoeol ln o) = renNoeol ln o := by
  by_cases h0 : 0 ≤ o
  · have h1 := renNoeol_nonneg ln o h0
    have h2 := renNoeol_lt ln o
    generalize hr : renNoeol ln o = r at *
    rw [renNoeol_eq, clampOff_fix ln r h2 h1]
    rw [if_neg]
    intro ⟨hp, h10⟩
    have := renNoeol_not_nl ln o hl (by rw [hr]; exact hp)
    rw [hr] at this
    exact this h10
  · have : o < 0 := by omega
    rw [renNoeol_neg ln o this, renNoeol_neg ln o this]

/-! ### `uc_chr` is strictly increasing -/

theorem ucNext_pos (s : Bytes) (h : Bytes.hd s ≠ 0) : 0 < ucNext s := by
  unfold ucNext
  simp only []
  split
  · omega
  · rename_i hc
    by_cases he : ucEnd s = 0
    · rw [he] at hc
      simp at hc
      exact absurd hc h
    · omega

theorem ucChrF_le (f : Nat) (s : Bytes) (i off a : Nat) (h : ucChrF f s i off = some a) : i ≤ off := by
  induction f generalizing s i a with
  | zero =>
    unfold ucChrF at h
    split at h
    · split at h
      · rename_i h2; simp at h2; omega
      · cases h
    · cases h
  | succ f ih =>
    unfold ucChrF at h
    split at h
    · split at h
      · rename_i h2; simp at h2; omega
      · cases h
    · split at h
      · rename_i h2; simp at h2; omega
      · cases hr : ucChrF f (s.drop (ucNext s)) (i + 1) off with
        | none => rw [hr] at h; cases h
        | some a' => have := ih _ _ _ hr; omega

theorem ucChrF_mono (f : Nat) (s : Bytes) (i off a b : Nat)
    (ha : ucChrF f s i off = some a) (hb : ucChrF f s i (off + 1) = some b) :
    a < b ∧ Bytes.hd (s.drop a) ≠ 0 := by
  induction f generalizing s i a b with
  | zero =>
    unfold ucChrF at ha hb
    split at ha
    · rename_i h0
      rw [if_pos h0] at hb
      split at ha
      · rename_i h2
        simp at h2
        rw [if_neg (by simp; omega)] at hb
        cases hb
      · cases ha
    · cases ha
  | succ f ih =>
    unfold ucChrF at ha hb
    split at ha
    · rename_i h0
      rw [if_pos h0] at hb
      split at ha
      · rename_i h2
        simp at h2
        rw [if_neg (by simp; omega)] at hb
        cases hb
      · cases ha
    · rename_i h0
      rw [if_neg h0] at hb
      have hne : Bytes.hd s ≠ 0 := by simpa using h0
      have hpos := ucNext_pos s hne
      split at ha
      · rename_i h2
        simp at h2
        cases ha
        rw [if_neg (by simp; omega)] at hb
        cases hr : ucChrF f (s.drop (ucNext s)) (i + 1) (off + 1) with
        | none => rw [hr] at hb; cases hb
        | some b' =>
          rw [hr] at hb
          simp at hb
          exact ⟨by omega, by simpa using hne⟩
      · rename_i h2
        simp at h2
        cases hra : ucChrF f (s.drop (ucNext s)) (i + 1) off with
        | none => rw [hra] at ha; cases ha
        | some a' =>
          rw [hra] at ha
          simp at ha
          have hle := ucChrF_le _ _ _ _ _ hra
          rw [if_neg (by simp; omega)] at hb
          cases hrb : ucChrF f (s.drop (ucNext s)) (i + 1) (off + 1) with
          | none => rw [hrb] at hb; cases hb
          | some b' =>
            rw [hrb] at hb
            simp at hb
            obtain ⟨h1, h2⟩ := ih _ _ _ _ hra hrb
            refine ⟨by omega, ?_⟩
            rw [← ha, Nat.add_comm, ← List.drop_drop]
            exact h2

theorem ucChr_mono (s : Bytes) (k a b : Nat) (ha : ucChr s k = some a) (hb : ucChr s (k + 1) = some b) :
    a < b ∧ Bytes.hd (s.drop a) ≠ 0 := ucChrF_mono _ _ _ _ _ _ ha hb

/-- a line of the buffer: its only newline byte is the last byte -/
def WfLine (l : Bytes) : Prop := ∃ w, l = w ++ [10] ∧ 10 ∉ w

theorem hd_drop_eq_10 (w : Bytes) (hw : 10 ∉ w) (i : Nat) (h : Bytes.hd ((w ++ [10]).drop i) = 10) : i = w.length := by
  by_cases h1 : i < w.length
  · exfalso
    rw [List.drop_append_of_le_length (by omega)] at h
    have hne : w.drop i ≠ [] := by
      intro he
      have := congrArg List.length he
      simp at this; omega
    cases hd : w.drop i with
    | nil => exact hne hd
    | cons x xs =>
      rw [hd] at h
      simp [Bytes.hd] at h
      subst h
      have : 10 ∈ w.drop i := by rw [hd]; simp
      exact hw (List.mem_of_mem_drop this)
  · by_cases h2 : i = w.length
    · exact h2
    · exfalso
      have : (w ++ [10]).drop i = [] := by
        apply List.drop_eq_nil_of_le; simp; omega
      rw [this] at h
      simp at h

theorem wfLine_noNlNl (l : Bytes) (h : WfLine l) : NoNlNl l := by
  obtain ⟨w, rfl, hw⟩ := h
  intro k h1 h0
  unfold chrHd at h1 h0
  cases ha : ucChr (w ++ [10]) k with
  | none => rw [ha] at h0; simp at h0
  | some a =>
    cases hb : ucChr (w ++ [10]) (k + 1) with
    | none => rw [hb] at h1; simp at h1
    | some b =>
      rw [ha] at h0; rw [hb] at h1
      simp only [] at h0 h1
      have e1 := hd_drop_eq_10 w hw a h0
      have e2 := hd_drop_eq_10 w hw b h1
      have := (ucChr_mono _ _ _ _ ha hb).1
      omega

/-! ### below `uc_slen` every offset designates a character -/

theorem hd_ne_zero_of_not_mem (s : Bytes) (hz : 0 ∉ s) (hne : s ≠ []) : Bytes.hd s ≠ 0 := by
  cases s with
  | nil => exact absurd rfl hne
  | cons a t =>
    intro h
    simp [Bytes.hd] at h
    subst h
    exact hz (by simp)

theorem drop_eq_nil_of_hd_zero (s : Bytes) (hz : 0 ∉ s) (e : Nat) (h : Bytes.hd (s.drop e) = 0) : s.drop e = [] := by
  by_cases hne : s.drop e = []
  · exact hne
  · exfalso
    exact hd_ne_zero_of_not_mem _ (fun hm => hz (List.mem_of_mem_drop hm)) hne h

theorem drop_next_eq (s : Bytes) (hz : 0 ∉ s) : s.drop (ucNext s) = s.drop (ucEnd s + 1) := by
  unfold ucNext
  simp only []
  split
  · rfl
  · rename_i hc
    have h0 : Bytes.hd (s.drop (ucEnd s)) = 0 := by simpa using hc
    have h1 := drop_eq_nil_of_hd_zero s hz _ h0
    rw [h1]
    have : s.length ≤ ucEnd s := by
      have := congrArg List.length h1
      simp at this; omega
    rw [List.drop_eq_nil_of_le (by omega)]

theorem ucSlen_pos (s : Bytes) (h : Bytes.hd s ≠ 0) : 0 < ucSlen s := by
  unfold ucSlen
  cases s with
  | nil => simp at h
  | cons a t =>
    simp only [List.length_cons]
    unfold ucSlenF
    rw [if_neg (by simpa using h)]
    omega

/-- below `uc_slen` every character index designates a character (a non-NUL byte) -/
theorem ucChrF_exists (f : Nat) (s : Bytes) (hz : 0 ∉ s) (hf : s.length ≤ f) (i k : Nat) (hk : k < ucSlenF f s) :
    ∃ j, ucChrF f s i (i + k) = some j ∧ Bytes.hd (s.drop j) ≠ 0 := by
  induction f generalizing s i k with
  | zero => unfold ucSlenF at hk; omega
  | succ f ih =>
    unfold ucSlenF at hk
    unfold ucChrF
    by_cases h0 : (Bytes.hd s == 0) = true
    · rw [if_pos h0] at hk; omega
    · rw [if_neg h0] at hk
      rw [if_neg h0]
      have hne : Bytes.hd s ≠ 0 := by simpa using h0
      cases k with
      | zero =>
        refine ⟨0, by simp, by simpa using hne⟩
      | succ k =>
        rw [if_neg (by simp)]
        rw [← drop_next_eq s hz] at hk
        have hpos := ucNext_pos s hne
        obtain ⟨j, hj, hh⟩ := ih (s.drop (ucNext s)) (fun hm => hz (List.mem_of_mem_drop hm))
          (by simp; omega) (i + 1) k (by omega)
        rw [show i + (k + 1) = i + 1 + k by omega, hj]
        refine ⟨j + ucNext s, rfl, ?_⟩
        rw [Nat.add_comm, ← List.drop_drop]
        exact hh

theorem chrHd_exists (s : Bytes) (hz : 0 ∉ s) (k : Nat) (hk : k < ucSlen s) : chrHd s k ≠ 0 := by
  obtain ⟨j, hj, hh⟩ := ucChrF_exists s.length s hz (Nat.le_refl _) 0 k hk
  unfold chrHd ucChr
  rw [Nat.zero_add] at hj
  rw [hj]
  exact hh

theorem chrHd_zero (s : Bytes) : chrHd s 0 = Bytes.hd s := by
  unfold chrHd ucChr
  cases s with
  | nil => rfl
  | cons a t =>
    simp only [List.length_cons]
    have : ucChrF (t.length + 1) (a :: t) 0 0 = some 0 := by
      unfold ucChrF
      split <;> simp
    rw [this]
    rfl

end Neatvi.Lemmas.C07
