import NeatviVerif.Lemmas.C05fS
import NeatviVerif.Drive.Vi
/-!
# C05f, part T: no trap along the runs of the editor
-/
set_option linter.unusedSimpArgs false
set_option linter.unusedVariables false
namespace Neatvi.Lemmas.C05f
open Neatvi Neatvi.Uc Neatvi.Lbuf Neatvi.Ex Neatvi.Mot Neatvi.Vi Neatvi.Rset
open Neatvi.Lemmas.C05b (CountsFit)
open Neatvi.Props.C05c (iterate)

/-- the hypotheses on a state from which an iteration starts (they are not invariants of C05f's `ViOk`): the editor is
    not quitting; a mark beyond the buffer has column 0, also once the caret mark is set; the hypotheses on the
    searches (`SearchOk`: no counted `/` typed from the pending keys overruns a line, the remembered pattern has no
    NUL, the patterns of `? n N ^A` match inside the lines) and on the ex commands typed from the pending keys
    (`ColonOk`) -/
structure StepHyp (s : VS) : Prop where
  noquit : s.ed.xquit = false
  marks : MarksIn s
  caret : MarksIn (markCaret s)
  search : SearchOk s
  colon : ColonOk s

/-- **one iteration from a state with the invariant** -/
theorem viStep_safe {s : VS} (hv : ViOk s) (hm1 : MarksIn s)
    (hm2 : MarksIn (markCaret s)) (hsl : SearchOk s) (hcol : ColonOk s) :
    wp viStep (fun _ s' => s'.ed.xquit = false → ViOk s') s := by
  have h := wp_viStep hv.sok hv.cur hm1 hm2 hsl hcol
  refine wp_mono (wp_and h (fun a s' hm => Props.C05c.presFit_viStep s a s' hv.fit hm)) ?_
  intro a s' ⟨h1, h2⟩ hq
  exact ⟨(h1 hq).1, (h1 hq).2, h2⟩

theorem viStep_no_trap {s : VS} (hv : ViOk s) (hm1 : MarksIn s)
    (hm2 : MarksIn (markCaret s)) (hsl : SearchOk s) (hcol : ColonOk s) : viStep s ≠ Res.trap :=
  wp_no_trap (viStep_safe hv hm1 hm2 hsl hcol)

theorem viStep_keeps {s s' : VS} (hv : ViOk s) (hm1 : MarksIn s)
    (hm2 : MarksIn (markCaret s)) (hsl : SearchOk s) (hcol : ColonOk s) (h : viStep s = Res.ok () s') (hq : s'.ed.xquit = false) : ViOk s' :=
  wp_post (viStep_safe hv hm1 hm2 hsl hcol) h hq

/-- **the invariant along a run**: the state after `n` iterations has `ViOk`, provided the states the
    iterations start from satisfy `StepHyp` -/
theorem viOk_iterate : ∀ (n : Nat) (s₀ s : VS), ViOk s₀ →
    (∀ k t, k ≤ n → iterate k s₀ = some t → StepHyp t) → iterate n s₀ = some s → ViOk s := by
  intro n
  induction n with
  | zero =>
    intro s₀ s h0 _ h
    unfold iterate at h
    cases h; exact h0
  | succ n ih =>
    intro s₀ s h0 hh h
    have hs0 := hh 0 s₀ (by omega) (by unfold iterate; rfl)
    unfold iterate at h
    cases hst : viStep s₀ with
    | ok u s1 =>
      rw [hst] at h
      dsimp only at h
      have hh1 : ∀ k t, k ≤ n → iterate k s1 = some t → StepHyp t := by
        intro k t hk ht
        exact hh (k + 1) t (by omega) (by rw [Props.C05c.iterate_succ k s₀ s1 u hst]; exact ht)
      have hq1 := (hh1 0 s1 (by omega) (by unfold iterate; rfl)).noquit
      exact ih s1 s (viStep_keeps h0 hs0.marks hs0.caret hs0.search hs0.colon hst hq1) hh1 h
    | eof => rw [hst] at h; cases h
    | trap => rw [hst] at h; cases h

/-- **no trap along a run**: no state reached by iterating `viStep` traps on its next iteration -/
theorem no_trap_iterate (n : Nat) (s₀ s : VS) (h0 : ViOk s₀)
    (hh : ∀ k t, k ≤ n → iterate k s₀ = some t → StepHyp t) (h : iterate n s₀ = some s) : viStep s ≠ Res.trap := by
  have hv := viOk_iterate n s₀ s h0 hh h
  have hs := hh n s (Nat.le_refl _) h
  exact viStep_no_trap hv hs.marks hs.caret hs.search hs.colon

/-! ### the loop of the driver (`Drive/Vi.lean`) -/

open Neatvi.Drive.ViD in
/-- the run did not end in a trap -/
def NotTrap : End → Prop
  | End.trap => False
  | _ => True

open Neatvi.Drive.ViD in
theorem loop_states_mem (n : Nat) : ∀ (f : Nat) (s : VS) (bds : List Bd) (sts : List VS) (um : Option Nat) (t : VS),
    t ∈ sts → t ∈ (runModel.loop n f s bds sts um).states := by
  intro f
  induction f with
  | zero =>
    intro s bds sts um t ht
    unfold runModel.loop
    exact List.mem_reverse.mpr ht
  | succ f ih =>
    intro s bds sts um t ht
    have hm : t ∈ (s :: sts).reverse := List.mem_reverse.mpr (List.mem_cons_of_mem _ ht)
    unfold runModel.loop
    dsimp only
    split
    · split
      · exact hm
      · exact ih _ _ _ _ t (List.mem_cons_of_mem _ ht)
    · exact hm
    · exact hm

open Neatvi.Drive.ViD in
/-- **the driver's loop never ends in a trap**, from a state with the invariant, when the recorded states
    (the states the iterations start from) satisfy `StepHyp` -/
theorem loop_no_trap (n : Nat) :
    ∀ (f : Nat) (s : VS) (bds : List Bd) (sts : List VS) (um : Option Nat), ViOk s →
      (∀ t ∈ (runModel.loop n f s bds sts um).states, StepHyp t) → NotTrap (runModel.loop n f s bds sts um).fin := by
  intro f
  induction f with
  | zero => intro s bds sts um _ _; unfold runModel.loop; trivial
  | succ f ih =>
    intro s bds sts um hv hh
    have hs : StepHyp s := hh s (by
      have : s ∈ (s :: sts) := List.mem_cons_self
      unfold runModel.loop
      dsimp only
      split
      · split
        · exact List.mem_reverse.mpr this
        · exact loop_states_mem n _ _ _ _ _ s this
      · exact List.mem_reverse.mpr this
      · exact List.mem_reverse.mpr this)
    have hnt := viStep_no_trap hv hs.marks hs.caret hs.search hs.colon
    unfold runModel.loop at hh ⊢
    dsimp only at hh ⊢
    cases hst : viStep s with
    | ok u s' =>
      rw [hst] at hh
      dsimp only at hh ⊢
      by_cases hq : s'.ed.xquit = true
      · rw [if_pos hq]; trivial
      · rw [if_neg hq] at hh ⊢
        have hq' : s'.ed.xquit = false := by simpa using hq
        exact ih s' _ _ _ (viStep_keeps hv hs.marks hs.caret hs.search hs.colon hst hq') hh
    | eof => trivial
    | trap => exact absurd hst hnt

end Neatvi.Lemmas.C05f
