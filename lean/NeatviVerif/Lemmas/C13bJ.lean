import NeatviVerif.Lemmas.C13bI
import NeatviVerif.Lemmas.C13bF
/-!
# C13b, part J: the oracle's reference scan of `:s`, suffix reading against whole-line reading

`Drive/ExSpec.lean` judges `:s` against `substRef … (suffix := false)` (every match is looked for in
the whole line) and names the cause `match_judged_on_suffix` when the implementation agrees with
`substRef … (suffix := true)` instead.  `substRef_suffix_eq_whole`: for a `ContextFree` pattern the two
reference scans are the same function of the line, provided the matches end on character starts of
the line (the scan positions then are character starts, where the two matchers agree).
-/
namespace Neatvi.Lemmas.C13b
open Neatvi Neatvi.Regex Neatvi.Spec.RegexSem Neatvi.Drive.ExSpec

/-- the character starts of the line, as `regexec` steps through them -/
abbrev lineStarts (line : Bytes) : List Nat := starts line (line.length + 2) 0

theorem starts_head (s : Bytes) (f i : Nat) : i ∈ starts s (f + 1) i := by
  simp only [starts]; split <;> simp

/-- the start after a character start inside the line is a character start -/
theorem starts_next (line : Bytes) (i : Nat) (hi : i ∈ lineStarts line) (hlt : i < line.length) :
    i + max 1 (rxLen line i) ∈ lineStarts line := by
  obtain ⟨pre, f', h1, _, h3⟩ := starts_split line i _ _ hi
  unfold lineStarts
  rw [h1]
  apply List.mem_append_right
  obtain ⟨f'', rfl⟩ : ∃ f'', f' = f'' + 2 := ⟨f' - 2, by omega⟩
  simp only [starts, if_neg (show ¬ i ≥ line.length by omega)]
  exact List.mem_cons_of_mem _ (starts_head line f'' _)

/-- a match the whole-line matcher reports starts at a character start at or after the position asked for -/
theorem matchFrom_start {t : RNode} {line : Bytes} {icase : Bool} {pos so eo : Nat} {m : Marks}
    (h : matchFrom t line icase pos = some (so, eo, m)) : so ∈ lineStarts line ∧ pos ≤ so := by
  rw [matchFrom_eq] at h
  cases hf : ((starts line (line.length + 2) 0).filter (fun i => decide (i ≥ pos))).findSome?
      (headAt ⟨line, refFlags icase false⟩ t 128) with
  | none => rw [hf] at h; cases h
  | some x =>
    rw [hf] at h
    obtain ⟨i, hi, hx⟩ := List.exists_of_findSome?_eq_some hf
    have hi' := List.mem_filter.mp hi
    unfold headAt at hx
    split at hx
    · cases hx
    · injection hx with hx
      subst hx
      simp only [Option.map_some, Option.some.injEq, Prod.mk.injEq] at h
      obtain ⟨rfl, -, -⟩ := h
      exact ⟨hi'.1, by simpa using hi'.2⟩

/-- every match the whole-line matcher reports from a character start ends on a character start -/
def EndsOnStarts (t : RNode) (line : Bytes) (icase : Bool) : Prop :=
  ∀ pos so eo m, pos ∈ lineStarts line → matchFrom t line icase pos = some (so, eo, m) → eo ∈ lineStarts line

theorem substRef_go_eq (t : RNode) (rep : Bytes) (g icase : Bool) (line : Bytes)
    (hcf : ContextFree t = true) (hbeg : NoBeg t = true ∨ LineNl line) (hends : EndsOnStarts t line icase) :
    ∀ (f pos : Nat) (acc : Bytes) (any : Bool), pos ∈ lineStarts line → (pos = 0 ∨ pos < line.length) →
      substRef.go t rep g icase line true f pos acc any = substRef.go t rep g icase line false f pos acc any := by
  intro f
  induction f with
  | zero => intro pos acc any _ _; rfl
  | succ f ih =>
    intro pos acc any hpos hlt
    rw [substRef.go, substRef.go]
    simp only [if_true, Bool.false_eq_true, if_false]
    have hb : 0 < pos → BegOk t line pos := by
      intro h0
      rcases hbeg with hbeg | hbeg
      · exact Or.inl hbeg
      · exact Or.inr (Or.inl (hbeg (pos - 1) (by omega)))
    rw [matchFromSuffix_eq_matchFrom t line icase pos hpos hcf hb]
    cases hm : matchFrom t line icase pos with
    | none => rfl
    | some x =>
      obtain ⟨so, eo, marks⟩ := x
      simp only []
      have hso := matchFrom_start hm
      have heo := hends pos so eo marks hpos hm
      by_cases he : (eo == so) = true
      · simp only [he, if_true]
        split
        · rfl
        · rename_i hc
          simp only [Bool.or_eq_true, Bool.not_eq_true', decide_eq_true_eq, beq_iff_eq, not_or] at hc
          have hlt' : eo + max 1 (rxLen line eo) < line.length := by omega
          exact ih _ _ _ (starts_next line eo heo (by omega)) (Or.inr hlt')
      · simp only [he, Bool.false_eq_true, if_false]
        split
        · rfl
        · rename_i hc
          simp only [Bool.or_eq_true, Bool.not_eq_true', decide_eq_true_eq, beq_iff_eq, not_or] at hc
          exact ih _ _ _ heo (Or.inr (by omega))

/-- **substRef_suffix_eq_whole**: the oracle's reference scan of `:s` does not depend on the reading
    (rest of the line + "not at the beginning" against whole line) for a `ContextFree` pattern, a line
    whose only newline is its last byte (or a pattern without `^`), and matches that end on character
    starts -/
theorem substRef_suffix_eq_whole (t : RNode) (rep : Bytes) (g icase : Bool) (line : Bytes)
    (hcf : ContextFree t = true) (hbeg : NoBeg t = true ∨ LineNl line) (hends : EndsOnStarts t line icase) :
    substRef t rep g icase line true = substRef t rep g icase line false := by
  unfold substRef
  exact substRef_go_eq t rep g icase line hcf hbeg hends _ 0 [] false (starts_head line _ 0) (Or.inl rfl)

/-- on a line of single-byte characters every byte offset is a character start, so `EndsOnStarts`
    holds for every pattern -/
theorem endsOnStarts_of_all (t : RNode) (line : Bytes) (icase : Bool)
    (hall : ∀ i, i ≤ line.length → i ∈ lineStarts line) : EndsOnStarts t line icase := by
  intro pos so eo m _ hm
  apply hall
  rw [matchFrom_eq] at hm
  cases hf : ((starts line (line.length + 2) 0).filter (fun i => decide (i ≥ pos))).findSome?
      (headAt ⟨line, refFlags icase false⟩ t 128) with
  | none => rw [hf] at hm; cases hm
  | some x =>
    rw [hf] at hm
    obtain ⟨i, hi, hx⟩ := List.exists_of_findSome?_eq_some hf
    have hi' := (List.mem_filter.mp hi).1
    have hil := starts_le line _ _ _ (Nat.zero_le _) hi'
    unfold headAt at hx
    split at hx
    · cases hx
    · rename_i r rest hres
      injection hx with hx
      subst hx
      simp only [Option.map_some, Option.some.injEq, Prod.mk.injEq] at hm
      obtain ⟨-, rfl, -⟩ := hm
      have := Neatvi.Lemmas.C10b.results_bounded ⟨line, refFlags icase false⟩ t _ r (by rw [hres]; exact List.mem_cons_self)
      have h2 := this.2
      simp only at h2
      omega

end Neatvi.Lemmas.C13b
