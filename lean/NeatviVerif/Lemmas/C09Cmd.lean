import NeatviVerif.Lemmas.C09Queue
/-!
# C09: `.` (`vc_repeat`), `@r` (`vc_execute`) and the recording of the last change
-/
namespace Neatvi.Lemmas.C09
open Neatvi Neatvi.Vi Neatvi.Ex

theorem bind_apply {α β : Type} (m : M α) (f : α → M β) (s : VS) :
    (m >>= f) s = match m s with
      | Res.ok a s' => f a s'
      | Res.eof => Res.eof
      | Res.trap => Res.trap := rfl

theorem pure_apply {α : Type} (a : α) (s : VS) : (pure a : M α) s = Res.ok a s := rfl

theorem viRead_nil (s : VS) (h : s.vibuf = []) : viRead s = termRead s := by
  simp [viRead, h]

/-! ### `.` -/

/-- the repeat count of `.`, `@`: `MAX(1, vi_arg1)` -/
def cnt1 (s : VS) : Nat := (max 1 s.arg1).toNat

theorem vcRepeat_eq (s : VS) : vcRepeat s = Res.ok () (pushN (cnt1 s) s.repCmd s) := by
  show (get >>= fun s => repeatM (max 1 s.arg1).toNat (termPush s.repCmd)) s = _
  rw [bind_apply]
  exact repeatM_push _ _ _

/-! ### `@r` -/

/-- `vc_execute` with a plain register name `r` at the head of the pending keys: it reads the name,
remembers it in `execReg` and pushes the register's text (as a C string) `max 1 count` times -/
theorem vcExecute_eq (s : VS) (r : Nat) (rest buf : Bytes)
    (hv : s.vibuf = []) (hp : pending s = r :: rest)
    (h92 : r ≠ 92) (h64 : r ≠ 64) (h27 : r ≠ 27) (h3 : r ≠ 3)
    (hreg : regGet s.ed r = some buf) :
    ∃ s1, termRead s = Res.ok (r : Int) s1 ∧ pending s1 = rest ∧
      vcExecute s = Res.ok () (pushN (cnt1 s) (buf.takeWhile (· != 0)) { s1 with execReg := (r : Int) }) := by
  obtain ⟨ib, ip, ty, h1, h2, -⟩ := termRead_ok s r rest hp
  refine ⟨_, h1, h2, ?_⟩
  have e92 : ((r : Int) == 92) = false := by simp; omega
  have e64 : ((r : Int) == 64) = false := by simp; omega
  have eint : tkInt (r : Int) = false := by simp [tkInt]; omega
  have eneg : ¬ ((r : Int) < 0) := by omega
  unfold vcExecute
  simp only [bind_apply, viRead_nil s hv, h1, e92, pure_apply, eint, Vi.get, Vi.modify, e64,
    Bool.false_eq_true, if_false, eneg, Int.toNat_natCast, hreg]
  exact repeatM_push _ _ _


/-- **`@r` is typing the register `max 1 count` times**, when no pushed key is left after the register
name has been read and `ibuf` has room -/
theorem vcExecute_drained (s : VS) (r : Nat) (rest buf : Bytes)
    (hv : s.vibuf = []) (hp : pending s = r :: rest)
    (h92 : r ≠ 92) (h64 : r ≠ 64) (h27 : r ≠ 27) (h3 : r ≠ 3)
    (hreg : regGet s.ed r = some buf)
    (hd : s.ibuf.length ≤ s.ibufPos + 1)
    (hroom : max 1 s.ibuf.length + cnt1 s * (buf.takeWhile (· != 0)).length ≤ 4096) :
    ∃ s1 s', termRead s = Res.ok (r : Int) s1 ∧ vcExecute s = Res.ok () s' ∧
      pending s' = (List.replicate (cnt1 s) (buf.takeWhile (· != 0))).flatten ++ rest ∧
      s' = { s1 with execReg := (r : Int),
                     ibuf := s1.ibuf ++ (List.replicate (cnt1 s) (buf.takeWhile (· != 0))).flatten } := by
  obtain ⟨ib, h1, hl⟩ := termRead_ok_drained s r rest hp hd
  obtain ⟨s1, h1', -, hx⟩ := vcExecute_eq s r rest buf hv hp h92 h64 h27 h3 hreg
  rw [h1] at h1'
  injection h1' with _ hs
  subst hs
  refine ⟨_, _, h1, hx, ?_, ?_⟩
  · rw [pending_pushN_drained _ _ _ (by simp [Drained]) (by simp only []; omega)]
  · rw [pushN_room _ _ _ (by simp only []; omega)]

/-! ### the recording of the last change -/

/-- the local `fin` of `commandTail` (the tail of the `switch` of `vi()`): `term_cmd`, and for a
repeatable command the keys are copied to `rep_cmd` and to register `.` -/
def finRec (c k : Int) (mod : Nat) : M (Option Nat) := do
  let cmd ← termCmd
  if isRepeatable c k && cmd.length + 1 < 4096 then
    Vi.modify fun s => { s with repCmd := cmd.takeWhile (· != 0) }
    Vi.modify fun s => { s with repCmd := cmd }
    regPut 46 (cmd.takeWhile (· != 0)) 0
  pure (some mod)

theorem termCmd_eq (s : VS) : termCmd s = Res.ok s.icmd { s with icmd := [] } := rfl

theorem finRec_eq (c k : Int) (mod : Nat) (s : VS) :
    finRec c k mod s = Res.ok (some mod)
      (if isRepeatable c k && s.icmd.length + 1 < 4096 then
        { s with icmd := [], repCmd := s.icmd,
                 ed := { s.ed with regs := s.ed.regs.put 46 (s.icmd.takeWhile (· != 0)) 0 } }
       else { s with icmd := [] }) := by
  unfold finRec
  by_cases h : (isRepeatable c k && s.icmd.length + 1 < 4096) = true
  · simp only [bind_apply, termCmd_eq, h, if_true, Vi.modify, regPut, withEd, pure_apply]
  · simp only [bind_apply, termCmd_eq, h, if_false, pure_apply, Bool.false_eq_true]

/-- `n` calls of `term_read` -/
def readKeys : Nat → M (List Int)
  | 0 => pure []
  | n + 1 => do
    let c ← termRead
    let r ← readKeys n
    pure (c :: r)

/-- reading the keys `ks`: `ibuf`/`ibufPos`/`typed` are existentially hidden, `icmd` grows by `ks` -/
theorem readKeys_ok (ks rest : Bytes) (s : VS) (hp : pending s = ks ++ rest)
    (hl : s.icmd.length + ks.length ≤ 4096) :
    ∃ ib ip ty, readKeys ks.length s = Res.ok (ks.map Int.ofNat)
        { s with ibuf := ib, ibufPos := ip, typed := ty, icmd := s.icmd ++ ks } ∧
      ib.drop ip ++ ty = rest := by
  induction ks generalizing s with
  | nil =>
    refine ⟨s.ibuf, s.ibufPos, s.typed, ?_, by simpa [pending] using hp⟩
    simp [readKeys, pure_apply]
  | cons k ks ih =>
    obtain ⟨ib, ip, ty, h1, h2, -⟩ := termRead_ok s k (ks ++ rest) hp
    simp only [List.length_cons] at hl
    have hic : icmdAfter s.icmd k = s.icmd ++ [k] := by simp [icmdAfter]; omega
    rw [hic] at h1
    obtain ⟨ib', ip', ty', e1, e2⟩ := ih { s with ibuf := ib, ibufPos := ip, typed := ty, icmd := s.icmd ++ [k] }
      h2 (by simp; omega)
    refine ⟨ib', ip', ty', ?_, e2⟩
    simp only [List.length_cons, readKeys, bind_apply, h1, e1, pure_apply, List.map_cons,
      List.append_assoc, List.singleton_append]
    rfl

/-- **`icmd_accumulates`**: reading the keys `ks` appends exactly `ks` to `icmd` (below the limit) and
touches nothing but the queue -/
theorem icmd_accumulates (ks rest : Bytes) (s : VS) (hp : pending s = ks ++ rest)
    (hl : s.icmd.length + ks.length ≤ 4096) :
    ∃ s', readKeys ks.length s = Res.ok (ks.map Int.ofNat) s' ∧
      s'.icmd = s.icmd ++ ks ∧ pending s' = rest ∧
      { s' with ibuf := s.ibuf, ibufPos := s.ibufPos, typed := s.typed, icmd := s.icmd } = s := by
  obtain ⟨ib, ip, ty, e1, e2⟩ := readKeys_ok ks rest s hp hl
  exact ⟨_, e1, rfl, e2, rfl⟩

theorem regGet_put_dot (ed : Ed) (x : Bytes) (h : 46 < ed.regs.buf.length) :
    regGet { ed with regs := ed.regs.put 46 x 0 } 46 = some x := by
  simp [regGet, Regs.getRaw, Regs.put, Regs.putRaw, isAlphaC, lowerC, isUpperC, h]

/-- **`record_is_keys_read`**: `term_cmd` at the start of the command, then the keys `ks` are read, then
the command finishes: `rep_cmd` is exactly `ks` (for a repeatable command of fewer than 4095 keys), and
register `.` holds them as a C string -/
def recordRun (c k : Int) (mod : Nat) (n : Nat) : M (Option Nat) := do
  let _ ← termCmd
  let _ ← readKeys n
  finRec c k mod

theorem record_is_keys_read (c k : Int) (mod : Nat) (ks rest : Bytes) (s : VS)
    (hp : pending s = ks ++ rest) (hl : ks.length + 1 < 4096) (hr : isRepeatable c k = true) :
    ∃ s', recordRun c k mod ks.length s = Res.ok (some mod) s' ∧
      s'.repCmd = ks ∧ s'.icmd = [] ∧ pending s' = rest ∧
      (46 < s.ed.regs.buf.length → regGet s'.ed 46 = some (ks.takeWhile (· != 0))) := by
  obtain ⟨ib, ip, ty, e1, e2⟩ := readKeys_ok ks rest { s with icmd := [] } hp (by simp; omega)
  simp only [List.nil_append] at e1
  have hrun : recordRun c k mod ks.length s
      = Res.ok (some mod) { s with
          ed := { s.ed with regs := s.ed.regs.put 46 (ks.takeWhile (· != 0)) 0 },
          ibuf := ib, ibufPos := ip, typed := ty, icmd := [], repCmd := ks } := by
    simp only [recordRun, bind_apply, termCmd_eq, e1, finRec_eq, hr, Bool.true_and, decide_eq_true hl, if_true]
  exact ⟨_, hrun, rfl, rfl, e2, fun h => regGet_put_dot _ _ h⟩


/-! ### `.` and `@` inside the command switch of `vi()` -/

/-- `commandTail` on the key `.`: the mark, `vc_repeat`, and the common tail -/
theorem commandTail_dot (s : VS) (rest : Bytes) (hv : s.vibuf = []) (hp : pending s = 46 :: rest) :
    ∃ s1, termRead s = Res.ok 46 s1 ∧ pending s1 = rest ∧
      commandTail s = (do markSet 94 s.ed.xrow s.ed.xoff; vcRepeat; finRec 46 0 0 : M (Option Nat)) s1 := by
  obtain ⟨ib, ip, ty, h1, h2, -⟩ := termRead_ok s 46 rest hp
  refine ⟨_, h1, h2, ?_⟩
  unfold commandTail
  simp only [bind_apply, viRead_nil s hv, h1]
  simp [Vi.get, bind_apply, finRec]

/-- `commandTail` on the key `@` -/
theorem commandTail_at (s : VS) (rest : Bytes) (hv : s.vibuf = []) (hp : pending s = 64 :: rest) :
    ∃ s1, termRead s = Res.ok 64 s1 ∧ pending s1 = rest ∧
      commandTail s = (do markSet 94 s.ed.xrow s.ed.xoff; vcExecute; finRec 64 0 0 : M (Option Nat)) s1 := by
  obtain ⟨ib, ip, ty, h1, h2, -⟩ := termRead_ok s 64 rest hp
  refine ⟨_, h1, h2, ?_⟩
  unfold commandTail
  simp only [bind_apply, viRead_nil s hv, h1]
  simp [Vi.get, bind_apply, finRec]

theorem markSet_eq (c : Nat) (r o : Int) (s : VS) :
    ∃ ed', markSet c r o s = Res.ok () { s with ed := ed' } := ⟨_, rfl⟩

/-- **the whole `.` command**: with nothing pushed left behind the `.` key and room in `ibuf`, the
command leaves `max 1 count` copies of the recorded change in front of the remaining keys; it does not
re-record (`.` is not repeatable) and empties `icmd`. -/
theorem commandTail_dot_pending (s : VS) (rest : Bytes) (hv : s.vibuf = [])
    (hp : pending s = 46 :: rest) (hd : s.ibuf.length ≤ s.ibufPos + 1)
    (hroom : max 1 s.ibuf.length + cnt1 s * s.repCmd.length ≤ 4096) :
    ∃ s', commandTail s = Res.ok (some 0) s' ∧
      pending s' = (List.replicate (cnt1 s) s.repCmd).flatten ++ rest ∧
      s'.repCmd = s.repCmd ∧ s'.icmd = [] ∧ s'.vibuf = [] ∧ s'.arg1 = s.arg1 := by
  obtain ⟨ib, h1, hl⟩ := termRead_ok_drained s 46 rest hp hd
  obtain ⟨s1, h1', -, hx⟩ := commandTail_dot s rest hv hp
  rw [h1] at h1'
  injection h1' with _ hs
  subst hs
  obtain ⟨ed', hm⟩ := markSet_eq 94 s.ed.xrow s.ed.xoff
    { s with ibuf := ib, ibufPos := ib.length, typed := rest, icmd := icmdAfter s.icmd 46 }
  have hrep : isRepeatable 46 0 = false := by decide +kernel
  rw [hx]
  simp only [bind_apply, hm, vcRepeat_eq, finRec_eq, hrep, Bool.false_and, Bool.false_eq_true, if_false]
  refine ⟨_, rfl, ?_, ?_, rfl, ?_, ?_⟩
  · show pending (pushN _ _ _) = _
    rw [pending_pushN_drained _ _ _ (by simp [Drained]) (by simp only [cnt1] at hroom ⊢; omega)]
    rfl
  · simp only [cnt1]
    rw [pushN_room _ _ _ (by simp only [cnt1] at hroom ⊢; omega)]
  · rw [pushN_room _ _ _ (by simp only [cnt1] at hroom ⊢; omega)]; exact hv
  · rw [pushN_room _ _ _ (by simp only [cnt1] at hroom ⊢; omega)]

/-- **the `.` command in general** (pushed keys may still be unread, e.g. inside a macro): the recorded
change is queued *behind* the unread pushed keys `s1.ibuf.drop s1.ibufPos`, not in front of them -/
theorem commandTail_dot_general (s : VS) (rest : Bytes) (hv : s.vibuf = [])
    (hp : pending s = 46 :: rest)
    (hroom : max 1 s.ibuf.length + cnt1 s * s.repCmd.length ≤ 4096) :
    ∃ s1 s', termRead s = Res.ok 46 s1 ∧ commandTail s = Res.ok (some 0) s' ∧
      pending s' = s1.ibuf.drop s1.ibufPos ++ (List.replicate (cnt1 s) s.repCmd).flatten ++ s1.typed ∧
      s1.ibuf.drop s1.ibufPos ++ s1.typed = rest ∧
      s'.repCmd = s.repCmd ∧ s'.icmd = [] := by
  obtain ⟨ib, ip, ty, h1, h2, h3, h4, h5⟩ := termRead_ok s 46 rest hp
  obtain ⟨s1, h1', -, hx⟩ := commandTail_dot s rest hv hp
  rw [h1] at h1'
  injection h1' with _ hs
  subst hs
  have hlen : ib.length ≤ max 1 s.ibuf.length := by
    by_cases hn : s.ibuf.length ≤ s.ibufPos
    · rw [(h5 hn).1]; simp; omega
    · rw [(h4 (by omega)).1]; omega
  obtain ⟨ed', hm⟩ := markSet_eq 94 s.ed.xrow s.ed.xoff
    { s with ibuf := ib, ibufPos := ip, typed := ty, icmd := icmdAfter s.icmd 46 }
  have hrep : isRepeatable 46 0 = false := by decide +kernel
  rw [hx]
  simp only [bind_apply, hm, vcRepeat_eq, finRec_eq, hrep, Bool.false_and, Bool.false_eq_true, if_false]
  refine ⟨_, _, h1, rfl, ?_, h2, ?_, rfl⟩
  · show pending (pushN _ _ _) = _
    rw [pending_pushN_room _ _ _ (by simp [QWf]; exact h3) (by simp only [cnt1] at hroom ⊢; omega)]
    rfl
  · simp only [cnt1]
    rw [pushN_room _ _ _ (by simp only [cnt1] at hroom ⊢; omega)]

end Neatvi.Lemmas.C09
