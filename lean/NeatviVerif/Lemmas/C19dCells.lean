import NeatviVerif.Lemmas.C19dEmit
/-!
# C19d lemmas, part 3: where a run sits in the list, and the cells of the emitted row
-/
namespace Neatvi.Lemmas.C19d
open Neatvi Neatvi.Uc Neatvi.Ren Neatvi.Render

/-! ### where a run sits -/

theorem adjNe_tail {α : Type} (p : α × Nat) (t : List (α × Nat)) (h : AdjNe (p :: t)) : AdjNe t := by
  cases t with
  | nil => trivial
  | cons q t' => exact h.2

theorem adjNe_append_right {α : Type} (r1 r2 : List (α × Nat)) (h : AdjNe (r1 ++ r2)) : AdjNe r2 := by
  induction r1 with
  | nil => exact h
  | cons p r1 ih => exact ih (adjNe_tail p _ h)

theorem expand_length_concat {α : Type} (r : List (α × Nat)) (b : α) (m : Nat) :
    (expand (r ++ [(b, m)])).length = (expand r).length + m := by
  rw [expand_append, expand_cons, expand_nil, List.append_nil, List.length_append, List.length_replicate]

/-- a run of `runs L` is a maximal stretch of equal entries of `L` -/
theorem runs_mem_spec {α : Type} [DecidableEq α] (L : List α) (v : α) (n : Nat) (h : (v, n) ∈ runs L) :
    ∃ a, 1 ≤ n ∧ a + n ≤ L.length ∧ (∀ j, j < n → L[a + j]? = some v) ∧
      (∀ a', a' + 1 = a → L[a']? ≠ some v) ∧ L[a + n]? ≠ some v := by
  obtain ⟨r1, r2, hr⟩ := List.append_of_mem h
  have hn : 1 ≤ n := runs_pos L (v, n) h
  have hadj : AdjNe (r1 ++ (v, n) :: r2) := hr ▸ runs_adjNe L
  have hpos : ∀ q ∈ r1 ++ (v, n) :: r2, 1 ≤ q.2 := hr ▸ runs_pos L
  have hL : L = expand r1 ++ (List.replicate n v ++ expand r2) := by
    rw [← runs_expand L, hr, expand_append, expand_cons]
  refine ⟨(expand r1).length, hn, ?_, ?_, ?_, ?_⟩
  · rw [hL]; simp only [List.length_append, List.length_replicate]; omega
  · intro j hj
    rw [hL, List.getElem?_append_right (by omega), Nat.add_sub_cancel_left,
      List.getElem?_append_left (by simpa using hj), List.getElem?_replicate, if_pos hj]
  · intro a' ha'
    rcases List.eq_nil_or_concat r1 with h0 | ⟨r1', q, rfl⟩
    · subst h0
      simp at ha'
    · obtain ⟨b, m⟩ := q
      rw [List.concat_eq_append] at hadj hpos hL ha'
      have hm : 1 ≤ m := hpos (b, m) (by simp)
      have hbv : b ≠ v := by
        rw [List.append_assoc] at hadj
        exact (adjNe_append_right r1' _ hadj).1
      rw [expand_length_concat] at ha'
      rw [hL, expand_append, expand_cons, expand_nil, List.append_nil, List.append_assoc,
        List.getElem?_append_right (by omega),
        List.getElem?_append_left (by rw [List.length_replicate]; omega), List.getElem?_replicate,
        if_pos (by omega)]
      intro he
      exact hbv (Option.some.inj he)
  · rw [hL, List.getElem?_append_right (by omega), Nat.add_sub_cancel_left,
      List.getElem?_append_right (by rw [List.length_replicate]; omega), List.length_replicate, Nat.sub_self]
    cases r2 with
    | nil => simp
    | cons q t =>
      obtain ⟨b, m⟩ := q
      have hm : 1 ≤ m := hpos (b, m) (by simp)
      have hvb : v ≠ b := (adjNe_append_right r1 _ hadj).1
      obtain ⟨m', rfl⟩ : ∃ m', m = m' + 1 := ⟨m - 1, by omega⟩
      rw [expand_cons]
      simp only [List.replicate_succ, List.cons_append, List.getElem?_cons_zero, ne_eq, Option.some.injEq]
      exact fun he => hvb he.symm

/-- when the entries equal to `v` are exactly those of the stretch `[p, p + c)`, every run of `v`
    has length `c` -/
theorem run_len_of_interval {α : Type} [DecidableEq α] (L : List α) (v : α) (p c : Nat)
    (hint : ∀ k, L[k]? = some v ↔ p ≤ k ∧ k < p + c) (n : Nat) (h : (v, n) ∈ runs L) : n = c := by
  obtain ⟨a, hn, _, h1, h2, h3⟩ := runs_mem_spec L v n h
  have ha := (hint a).mp (by simpa using h1 0 (by omega))
  have hap : a = p := by
    apply Nat.le_antisymm _ ha.1
    apply Nat.le_of_not_lt
    intro hlt
    exact h2 (a - 1) (by omega) ((hint (a - 1)).mpr (by omega))
  have hl := (hint (a + (n - 1))).mp (h1 (n - 1) (by omega))
  have hr : ¬ (p ≤ a + n ∧ a + n < p + c) := fun hh => h3 ((hint (a + n)).mpr hh)
  omega

/-- ... and starts at `p` -/
theorem run_unique_of_interval {α : Type} [DecidableEq α] (L : List α) (v : α) (p c : Nat)
    (hint : ∀ k, L[k]? = some v ↔ p ≤ k ∧ k < p + c) (n : Nat) (h : (v, n) ∈ runs L) :
    1 ≤ c ∧ p + c ≤ L.length := by
  have hc := run_len_of_interval L v p c hint n h
  have hn : 1 ≤ n := runs_pos L (v, n) h
  subst hc
  refine ⟨hn, ?_⟩
  have := (hint (p + n - 1)).mpr (by omega)
  have hlt : p + n - 1 < L.length := by
    apply Nat.lt_of_not_le
    intro hle
    rw [List.getElem?_eq_none hle] at this
    cases this
  omega

/-! ### a value whose entries are contiguous has one run -/

/-- when the entries equal to `v` are contiguous, `v` has at most one run -/
theorem runs_count_le_one {α : Type} [DecidableEq α] (L : List α) (v : α)
    (hc : ∀ k1 k k2 : Nat, k1 ≤ k → k ≤ k2 → L[k1]? = some v → L[k2]? = some v → L[k]? = some v) :
    ((runs L).filter (fun p => decide (p.1 = v))).length ≤ 1 := by
  induction L with
  | nil => exact Nat.zero_le _
  | cons x r ih =>
    have hcr : ∀ k1 k k2 : Nat, k1 ≤ k → k ≤ k2 → r[k1]? = some v → r[k2]? = some v → r[k]? = some v := by
      intro k1 k k2 h1 h2 e1 e2
      have := hc (k1 + 1) (k + 1) (k2 + 1) (by omega) (by omega) (by simpa using e1) (by simpa using e2)
      simpa using this
    have ih' := ih hcr
    cases h : runs r with
    | nil => rw [runs_cons_nil x r h]; simp only [List.filter_cons]; split <;> simp
    | cons q t =>
      obtain ⟨b, n⟩ := q
      rw [h] at ih'
      by_cases hxb : x = b
      · subst hxb
        rw [runs_cons_eq x r n t h]
        simp only [List.filter_cons] at ih' ⊢
        by_cases hxv : x = v
        · rw [if_pos (by simpa using hxv)] at ih' ⊢
          exact ih'
        · rw [if_neg (by simpa using hxv)] at ih' ⊢
          exact ih'
      · rw [runs_cons_ne x b r n t h hxb]
        by_cases hxv : x = v
        · subst hxv
          have hall : ∀ p ∈ runs r, p.1 ≠ x := by
            intro p hp hpx
            obtain ⟨pv, m⟩ := p
            simp only at hpx
            subst hpx
            obtain ⟨a, hm, _, h1, _, _⟩ := runs_mem_spec r pv m hp
            have e2 : (pv :: r)[a + 1]? = some pv := by simpa using h1 0 hm
            have := hc 0 1 (a + 1) (by omega) (by omega) (by simp) e2
            have hh : r.head? = some pv := by
              rw [List.head?_eq_getElem?]
              simpa using this
            rw [← runs_head r, h] at hh
            simp only [List.head?_cons, Option.map_some, Option.some.injEq] at hh
            exact hxb hh.symm
          rw [h] at hall
          rw [List.filter_cons, if_pos (by simp)]
          have : ((b, n) :: t).filter (fun p => decide (p.1 = x)) = [] := by
            rw [List.filter_eq_nil_iff]
            intro p hp
            simpa using hall p hp
          rw [this]
          exact Nat.le_refl _
        · rw [List.filter_cons, if_neg (by simpa using hxv)]
          exact ih'

/-! ### the covered part of the table -/

theorem occ_le_shown (off : List (Option Nat)) (cbeg cend : Int) : occ off ≤ shown off cbeg cend := by
  unfold shown; split <;> omega

theorem shown_le (off : List (Option Nat)) (cbeg cend : Int) (hlen : off.length = (cend - cbeg).toNat) :
    shown off cbeg cend ≤ off.length := by
  have := occ_le off
  unfold shown; split <;> omega

/-- the covered part of the table holds every occupied column -/
theorem take_shown_getD (off : List (Option Nat)) (cbeg cend : Int) (k : Nat) :
    (off.take (shown off cbeg cend)).getD k none = off.getD k none := by
  by_cases hk : k < shown off cbeg cend
  · rw [List.getD_eq_getElem?_getD, List.getD_eq_getElem?_getD, List.getElem?_take_of_lt hk]
  · rw [occ_none_after off k (by have := occ_le_shown off cbeg cend; omega), List.getD_eq_getElem?_getD,
      List.getElem?_take, if_neg hk]
    rfl

theorem getD_eq_some_iff (L : List (Option Nat)) (k i : Nat) : L[k]? = some (some i) ↔ L.getD k none = some i := by
  rw [List.getD_eq_getElem?_getD]
  cases L[k]? with
  | none => simp
  | some x => simp

/-! ### the cells of the emitted items -/

/-- the columns the emitted items take on the screen when every character takes its own width
    `ren_cwid` and every blank one column -/
def glyphCells (chs : List Bytes) (pos : List Nat) (its : List (Option Nat × Nat)) : List (Option Nat) :=
  its.flatMap (fun p =>
    match p.1 with
    | none => List.replicate p.2 none
    | some i => List.replicate (renCwid (chs.getD i []) (pos.getD i 0)) (some i))

theorem glyphCells_eq_expand (chs : List Bytes) (pos : List Nat) (its : List (Option Nat × Nat))
    (h : ∀ i n, (some i, n) ∈ its → n = renCwid (chs.getD i []) (pos.getD i 0)) :
    glyphCells chs pos its = expand its := by
  induction its with
  | nil => rfl
  | cons p t ih =>
    unfold glyphCells at ih ⊢
    rw [List.flatMap_cons, expand_cons, ih (fun i n hm => h i n (List.mem_cons_of_mem _ hm))]
    congr 1
    obtain ⟨a, n⟩ := p
    cases a with
    | none => rfl
    | some i =>
      simp only []
      rw [← h i n (List.mem_cons_self)]

end Neatvi.Lemmas.C19d
