import NeatviVerif.Lemmas.C05fU
/-!
# C05f, part V: the traps that remain in the model, as witnesses

1. **a mark beyond the buffer with a positive column** (`MarksIn` fails): after the undo of an append at the
   end of the buffer the marks `` `* `` and `` `^ `` are `(len, column)`; an operator with the motion `` `* ``
   then asks `uc_sub` for a part of the missing line.  The model traps (`mark_beyond_buffer_traps`, checked by the
   kernel).  The C code is *safe* here: `lbuf_get` returns NULL and `uc_chr(NULL, …)` returns its static `""` for
   both ends — see the report: the model is stricter than the code at this point.
2. **a counted `/` whose match reaches the end of its line** (`SearchOk.slash` fails): the next search is started beyond
   the line, `uc_chr` returns `""` and the pointer difference `"" - s` is formed (`counted_slash_overrun`).
-/
set_option linter.unusedSimpArgs false
set_option linter.unusedVariables false
namespace Neatvi.Lemmas.C05f
open Neatvi Neatvi.Uc Neatvi.Lbuf Neatvi.Ex Neatvi.Mot Neatvi.Vi Neatvi.Rset Neatvi.Spec
open Neatvi.Props.C05c (iterate)

/-- did the computation trap? -/
def isTrap {α : Type} : Res α → Bool
  | Res.trap => true
  | _ => false

/-- a buffer with the one line `hello w` -/
def oneLine (keys : Bytes) : VS :=
  { ed := { bufs := [some { path := [], lb := { lines := [[104, 101, 108, 108, 111, 32, 119, 10]] } }] }, typed := keys }

/-- does the iteration after `n` completed ones trap? -/
def trapsAfter (n : Nat) (s : VS) : Bool := match iterate n s with | some t => isTrap (viStep t) | none => false

/-- **witness 1**: the keys ``$ oxyz<ESC> u d`*`` on the one-line buffer: three commands complete, the
    fourth (``d`*``) traps in the model -/
theorem mark_beyond_buffer_traps : trapsAfter 3 (oneLine [36, 111, 120, 121, 122, 27, 117, 100, 96, 42]) = true := by
  decide +kernel

/-- the first three commands alone do not trap -/
theorem mark_beyond_buffer_prefix_ok :
    trapsAfter 2 (oneLine [36, 111, 120, 121, 122, 27, 117, 100, 96, 42]) = false := by
  decide +kernel

/-- **witness 2, in general**: a search restarted beyond the end of a line traps -/
theorem search_beyond_line_traps (ls : Lines) (kw : Bytes) (ic : Bool) (r o : Int) (l : Bytes) (re : RStr)
    (hre : rstrMake kw (if ic then RE_ICASE else 0) = some (some re))
    (hl : lineAt ls r = some l) (ho : (ucSlen l : Int) ≤ o) : search ls kw ic 1 r o = none := by
  have hr0 : 0 ≤ r := lineAt_nonneg hl
  have hrl : r < ls.length := by
    unfold lineAt at hl
    rw [if_neg (by omega)] at hl
    have := List.getElem?_eq_some_iff.mp hl
    obtain ⟨h, _⟩ := this
    omega
  unfold search
  rw [hre]
  dsimp only
  unfold search.rows
  rw [if_neg (by simp; omega), hl]
  dsimp only
  have hc : ucChr l (o + 1).toNat = none := by
    cases h : ucChr l (o + 1).toNat with
    | none => rfl
    | some b => have := Lemmas.C08.chr_le_slen _ _ _ h; omega
  simp only [hc]
  simp

/-- **witness 2**: a `/` search with a count of at least 2 traps when the first match reaches the end of its line -/
theorem counted_slash_overrun (cnt : Int) (s : VS) (kwd : Bytes) (r o r' o' len : Int) (l : Bytes) (hcnt : 2 ≤ cnt)
    (h1 : search (lines s) kwd (s.ed.xic != 0) 1 r o = some (some (r', o', len)))
    (hl : lineAt (lines s) r' = some l) (hend : (ucSlen l : Int) ≤ o' + len) :
    viSearch.rep 47 cnt s kwd 1 (cnt.toNat + 1) r o 0 = none := by
  have hre : ∃ re, rstrMake kwd (if (s.ed.xic != 0) = true then RE_ICASE else 0) = some (some re) := by
    unfold search at h1
    cases hm : rstrMake kwd (if (s.ed.xic != 0) = true then RE_ICASE else 0) with
    | none => rw [hm] at h1; cases h1
    | some x =>
      cases x with
      | none => rw [hm] at h1; cases h1
      | some re => exact ⟨re, rfl⟩
  obtain ⟨re, hre⟩ := hre
  have h2 := search_beyond_line_traps (lines s) kwd (s.ed.xic != 0) r' (o' + len) l re hre hl hend
  obtain ⟨k, hk⟩ : ∃ k, cnt.toNat + 1 = k + 2 := ⟨cnt.toNat - 1, by omega⟩
  rw [hk, rep_succ_hit _ _ _ _ _ _ _ _ _ _ _ _ (by omega) h1]
  rw [if_pos (by simp; omega)]
  exact rep_succ_trap _ _ _ _ _ _ _ _ _ (by omega) h2

/-! ### the literal fast path of `rstr.c`: matches start inside the subject (`ReOk`, the position clause of the old `EngineOk`) -/

theorem literalLoop_some (rs : RStr) (lit s : Bytes) : ∀ (f : Nat) (r e : Int), 0 ≤ r →
    ∃ x, literalLoop rs lit s f r e = some x ∧ ∀ k, x = some k → ((k : Nat) : Int) ≤ e := by
  intro f
  induction f with
  | zero => intro r e _; exact ⟨none, by unfold literalLoop; rfl, by intro k h; cases h⟩
  | succ f ih =>
    intro r e hr
    unfold literalLoop
    by_cases h1 : r > e
    · rw [if_pos h1]; exact ⟨none, rfl, by intro k h; cases h⟩
    · rw [if_neg h1]
      dsimp only
      splits
      all_goals first
        | exact ih _ _ (by omega)
        | exact ⟨_, rfl, by intro k h; cases h; omega⟩

/-- a pattern taken as a literal: its matcher never traps and reports a match that starts inside the subject -/
theorem reOk_of_literal (re : RStr) (h : re.rs = none) : ReOk re := by
  intro s f
  unfold rstrFind
  rw [h]
  dsimp only
  by_cases c1 : (re.lbeg && f &&& RE_NOTBOL != 0) = true
  · rw [if_pos c1]; exact ⟨_, _, _, rfl, fun hneg => absurd hneg (by decide)⟩
  rw [if_neg c1]
  by_cases c2 : (s.length : Int) - (re.str.getD []).length - 1 < 0
  · rw [if_pos c2]; exact ⟨_, _, _, rfl, fun hneg => absurd hneg (by decide)⟩
  rw [if_neg c2]
  obtain ⟨x, hx, hk⟩ := literalLoop_some re (re.str.getD []) s (s.length + 2)
    (if re.lend = true then (s.length : Int) - (re.str.getD []).length - 1 else 0)
    (if re.lbeg = true then 0 else (s.length : Int) - (re.str.getD []).length - 1) (by split <;> omega)
  rw [hx]
  cases x with
  | none => exact ⟨_, _, _, rfl, fun hneg => absurd hneg (by decide)⟩
  | some k =>
    dsimp only
    refine ⟨_, _, _, rfl, fun _ => ?_⟩
    have := hk k rfl
    simp only [Nat.le_refl, if_true, ge_iff_le, List.cons_append, List.getD_cons_zero]
    constructor
    · omega
    · split at this <;> omega

/-- `rstr_make` of a pattern without regular-expression characters (`rstr_simple`) yields such a matcher: the
    assumption `EngineOk` holds for these patterns (the word searches of `^A` among them) -/
theorem engineOk_simple (kw : Bytes) (flg : Nat) (h : (simple kw).isSome = true) :
    ∃ r, rstrMake kw flg = some r ∧ ∀ re, r = some re → ReOk re := by
  unfold rstrMake
  cases hs : simple kw with
  | none => rw [hs] at h; cases h
  | some x =>
    obtain ⟨a, b, c, d, e⟩ := x
    dsimp only
    exact ⟨_, rfl, fun re hre => by cases hre; exact reOk_of_literal _ rfl⟩

/-! ### restatements as "does not trap" -/

theorem viMotion_no_trap (row off : Int) (s : VS) {c : Prop} (hs : SOk s c) (hcur : CurOk s row off)
    (hmk : MarksIn s) (hsl : SearchOk s) :
    viMotion row off s ≠ Res.trap ∧
    ∀ mv r o s', viMotion row off s = Res.ok (mv, r, o) s' → 0 < mv → PosIn (lines s) r o := by
  have h := wp_viMotion row off s hs hcur hmk hsl (fun res s' => 0 < res.1 → PosIn (lines s) res.2.1 res.2.2)
    (fun mv r o s' _ hp _ => hp)
  exact ⟨wp_no_trap h, fun mv r o s' hm hpos => wp_post h hm hpos⟩

theorem viSearch_no_trap (cmd : Nat) (cnt r o : Int) (s : VS) {c : Prop} (hs : SOk s c) (hkw : NoNul s.ed.xkwd)
    (hp : PosIn (lines s) r o) (ho : lenOf s ≠ 0 → o < slenAt (lines s) r)
    (hsl : cmd = 47 → 2 ≤ cnt → viSearch cmd cnt r o s ≠ Res.trap)
    (hpos : cmd ≠ 47 → 2 ≤ cnt → ∀ ab s1, sPre cmd s = Res.ok ab s1 → ∀ ic, PatIn s1.ed.xkwd ic (lines s)) :
    viSearch cmd cnt r o s ≠ Res.trap :=
  wp_no_trap (wp_viSearch cmd cnt r o s hs hkw hp ho hsl hpos (fun _ _ => True) (fun _ _ _ _ _ => trivial))

theorem viSearch_no_trap_uncounted (cmd : Nat) (cnt r o : Int) (s : VS) {c : Prop} (hs : SOk s c) (hkw : NoNul s.ed.xkwd)
    (hp : PosIn (lines s) r o) (ho : lenOf s ≠ 0 → o < slenAt (lines s) r) (h : cnt ≤ 1) :
    viSearch cmd cnt r o s ≠ Res.trap :=
  viSearch_no_trap cmd cnt r o s hs hkw hp ho (fun _ h2 => by omega) (fun _ h2 => by omega)

theorem operators_no_trap {s : VS} {c : Prop} (hs : SOk s c) (cmd : Nat) (r1 o1 r2 o2 : Int) (ln : Bool)
    (hr1 : 0 ≤ r1) (hr : r1 ≤ r2) (h1 : o1 ≤ slenAt (lines s) r1) (h2 : o2 ≤ slenAt (lines s) r2) :
    viYank r1 o1 r2 o2 ln s ≠ Res.trap ∧ viDelete r1 o1 r2 o2 ln s ≠ Res.trap ∧ viChange r1 o1 r2 o2 ln s ≠ Res.trap ∧
    viCase r1 o1 r2 o2 ln cmd s ≠ Res.trap ∧ viShift r1 r2 1 s ≠ Res.trap ∧ viShift r1 r2 (-1) s ≠ Res.trap :=
  ⟨wp_no_trap (wp_viYank hs _ _ _ _ _ h1 h2 (fun _ _ => True) (fun _ _ _ => trivial)),
   wp_no_trap (wp_viDelete hs _ _ _ _ _ hr1 hr h1 h2 (fun _ _ => True) (fun _ _ _ => trivial)),
   wp_no_trap (wp_viChange hs _ _ _ _ _ hr1 hr h1 h2 (fun _ _ => True) (fun _ _ _ => trivial)),
   wp_no_trap (wp_viCase hs _ _ _ _ _ _ hr1 hr h1 h2 (fun _ _ => True) (fun _ _ _ => trivial)),
   wp_no_trap (wp_viShift hs _ _ _ hr1 (fun _ _ => True) (fun _ _ _ => trivial)),
   wp_no_trap (wp_viShift hs _ _ _ hr1 (fun _ _ => True) (fun _ _ _ => trivial))⟩

end Neatvi.Lemmas.C05f
