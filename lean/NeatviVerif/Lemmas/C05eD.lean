import NeatviVerif.Lemmas.C05eC
/-!
# C05e lemmas, part D: the handlers that act on the buffer table — `:q :wq :x :xa`, `:b`
-/
namespace Neatvi.Lemmas.C05e
open Neatvi Neatvi.Lbuf Neatvi.LbufIo Neatvi.Ex Neatvi.Rset
open Neatvi.Lemmas.ExFrame Neatvi.Lemmas.C02Ex Neatvi.Lemmas.C02b Neatvi.Lemmas.C06 Neatvi.Props.C20

theorem bufsLoad_atDepth (ed : Ed) : ed.bufsLoad.atDepth = ed.atDepth := by
  unfold Ed.bufsLoad; split <;> rfl

theorem bufsSave_atDepth (ed : Ed) : ed.bufsSave.atDepth = ed.atDepth := by
  unfold Ed.bufsSave; split <;> rfl

theorem switch_atDepth (ed : Ed) (idx : Nat) : (ed.bufsSwitch idx).atDepth = ed.atDepth := by
  unfold Ed.bufsSwitch
  dsimp only
  rw [bufsLoad_atDepth]
  split <;> exact bufsSave_atDepth ed

theorem bufsLoad_xkwd (ed : Ed) : ed.bufsLoad.xkwd = ed.xkwd := by
  unfold Ed.bufsLoad; split <;> rfl

theorem bufsSave_xkwd (ed : Ed) : ed.bufsSave.xkwd = ed.xkwd := by
  unfold Ed.bufsSave; split <;> rfl

theorem switch_xkwd (ed : Ed) (idx : Nat) : (ed.bufsSwitch idx).xkwd = ed.xkwd := by
  unfold Ed.bufsSwitch
  dsimp only
  rw [bufsLoad_xkwd]
  split <;> exact bufsSave_xkwd ed

theorem shift_xkwd (ed : Ed) : ed.bufsShift.xkwd = ed.xkwd := by
  unfold Ed.bufsShift
  rw [bufsLoad_xkwd]

theorem shift_atDepth (ed : Ed) : ed.bufsShift.atDepth = ed.atDepth := by
  unfold Ed.bufsShift
  rw [bufsLoad_atDepth]

/-! ### `bufs_switch` to an occupied slot -/

theorem switch_cur_isSome (ed : Ed) (idx : Nat) (h : (ed.bufs.getD idx none).isSome = true) :
    (ed.bufsSwitch idx).cur.isSome = true := by
  unfold Ed.cur
  rw [switch_rotation]
  have e : ([(leftBufs ed).getD idx none] ++ (leftBufs ed).take idx ++ (leftBufs ed).drop (idx + 1)).getD 0 none =
      (leftBufs ed).getD idx none := by simp
  rw [e]
  cases idx with
  | zero =>
    cases hb : ed.bufs.getD 0 none with
    | none => rw [hb] at h; cases h
    | some b => rw [leftBufs_zero ed b hb]; rfl
  | succ k => rw [leftBufs_getD ed (k + 1) (by omega)]; exact h

theorem Safe.switch {ed : Ed} (h : Safe ed) (idx : Nat) (hs : (ed.bufs.getD idx none).isSome = true) :
    Safe (ed.bufsSwitch idx) :=
  ⟨edInv_bufsSwitch idx h.inv, switch_cur_isSome ed idx hs, by rw [switch_xkwd]; exact h.kwd⟩

/-! ### `:q` and its relatives -/

theorem each_ret (cmd : Bytes) (all : Bool) : ∀ (g i : Nat) {ed : Ed}, Safe ed → Ret ed.atDepth (runCmd.each cmd all g i ed) := by
  intro g
  induction g with
  | zero => intro i ed h; exact Ret.mk h rfl
  | succ g ih =>
    intro i ed h
    rw [runCmd.each]
    split
    · exact Ret.mk h rfl
    · split
      · exact ih _ h
      · rename_i b0 hb0
        obtain ⟨r, ed1, hg, h1, hq, hd1⟩ := guard_total h ((!all && !hasBang cmd) = true) i (some (strOf "buffer modified"))
        rw [hg]
        have hs1 : (ed1.bufs.getD i none).isSome = true := by rw [hq.isSome i, hb0]; rfl
        cases r with
        | true => exact Ret.mk (h1.switch i hs1) (by rw [switch_atDepth]; exact hd1)
        | false =>
          dsimp only
          split
          · cases hb1 : ed1.bufs.getD i none with
            | none => rw [hb1] at hs1; cases hs1
            | some b =>
              dsimp only
              obtain ⟨r2, ed2, hs⟩ := lbufSaveP_total ed1 b.lb 0 (-1) b.path (hasBang cmd) b.mtime (Or.inl (by omega))
              rw [hs]
              have hb2 := lbufSaveP_bufs _ _ _ _ _ _ _ _ _ hs
              have h2 : Safe ed2 := h1.of_bufs hb2 (lbufSaveP_ioFr _ _ _ _ _ _ _ _ _ hs).xkwd
              have hd2 : ed2.atDepth = ed1.atDepth := (lbufSaveP_ioFr _ _ _ _ _ _ _ _ _ hs).atDepth
              cases r2 with
              | some err =>
                exact Ret.mk ((h2.switch i (by rw [hb2]; exact hs1)).show _)
                  (by show (ed2.bufsSwitch i).atDepth = _; rw [switch_atDepth, hd2, hd1])
              | none => have := ih (i + 1) h2; rw [hd2, hd1] at this; exact this
          · have := ih (i + 1) h1; rw [hd1] at this; exact this

theorem run_quit (hre : ReSafe) (f : Nat) {ed : Ed} (h : Safe ed) (loc cmd arg : Bytes) (txt : Option Bytes)
    (hp : PathFits ed arg true) : Ret ed.atDepth (runCmd (f + 1) ed "ec_quit" loc cmd arg txt) := by
  rw [runCmd]
  simp (config := {decide := true}) only [if_false, if_true]
  have hw : Ret ed.atDepth (if (cmd.headD 0 == 119 || cmd.headD 0 == 120) = true then ecWrite ed [] cmd arg else some (0, ed)) :=
    Ret.ite (ecWrite_ret hre h [] cmd arg (by simp) hp) (Ret.mk h rfl)
  obtain ⟨rc, ed1, hw, h1, hd1⟩ := hw
  rw [hw]
  dsimp only
  split
  · exact Ret.mk h1 hd1
  · obtain ⟨r, ed2, he, h2, hd2⟩ := each_ret cmd (cmd.contains 97) (ed1.bufs.length + 1) 0 h1
    rw [he]
    cases r with
    | true => exact Ret.mk h2 (by dep)
    | false => exact Ret.mk (h2.of_bufs rfl) (by dep)


/-! ### `:b` -/

theorem isSome_of_map_lb {l l' : List (Option Buf)}
    (hm : l'.map (Option.map (·.lb)) = l.map (Option.map (·.lb))) (i : Nat) :
    (l'.getD i none).isSome = (l.getD i none).isSome := by
  have := congrArg (fun x => x[i]?) hm
  simp only [List.getElem?_map] at this
  simp only [List.getD_eq_getElem?_getD]
  cases h1 : l'[i]? <;> cases h2 : l[i]? <;> rw [h1, h2] at this <;> simp_all
  rename_i a b
  cases a <;> cases b <;> simp_all

theorem run_buffer (f : Nat) {ed : Ed} (h : Safe ed) (loc cmd arg : Bytes) (txt : Option Bytes) :
    Ret ed.atDepth (runCmd (f + 1) ed "ec_buffer" loc cmd arg txt) := by
  rw [runCmd]
  simp (config := {decide := true}) only [if_false, if_true]
  split
  · have hf := foldl_safe' (fun st : Bool × Ed => Safe st.2 ∧ st.2.atDepth = ed.atDepth)
      (fun (st : Bool × Ed) i =>
          let (go, ed) := st
          if !go then st else
          match ed.bufs.getD i none with
          | none => (false, ed)
          | some b =>
            let (m, ed) := ed.modifiedAt i
            let alias := (strOf "%#^").getD i 32
            let idstr := intStr b.id
            let line := (List.replicate (2 - idstr.length) 32) ++ idstr ++ [32, alias, 32] ++ b.path ++ [32, if m then 42 else 32]
            (true, ed.print (line.take 127))) ?_ (List.range ed.bufs.length) (true, ed) ⟨h, rfl⟩
    · exact Ret.mk hf.1 hf.2
    intro st i hst
    obtain ⟨go, ed0⟩ := st
    simp only [] at hst ⊢
    split
    · exact hst
    · split
      · exact hst
      · have hm : Safe (ed0.modifiedAt i).2 ∧ (ed0.modifiedAt i).2.atDepth = ed.atDepth :=
          ⟨hst.1.paths (edInv_modifiedAt i hst.1.inv) (modifiedAt_pathsEq ed0 i) (modifiedAt_xkwd ed0 i), (modifiedAt_atDepth ed0 i).trans hst.2⟩
        generalize ed0.modifiedAt i = p at hm
        obtain ⟨m, ed1⟩ := p
        exact ⟨hm.1.print _, hm.2⟩
  · split
    · have e1 := edInv_bufsShift h.inv
      split
      · refine Ret.mk ⟨?_, ?_, by show 0 ∉ ed.bufsShift.xkwd; rw [shift_xkwd]; exact h.kwd⟩ (shift_atDepth ed)
        · exact tabInv_setAt (b := { path := [], lb := Lbuf.make, id := ed.bufsShift.bufsCnt + 1 }) e1 goodLb_make
            (fun _ => closed_make)
        · show ((ed.bufsShift.bufs.set 0 _).getD 0 none).isSome = true
          have hl : 0 < ed.bufsShift.bufs.length := by
            unfold Ed.bufsShift
            rw [bufsLoad_bufs]
            simp
          rw [getD_set_self _ _ _ hl]; rfl
      · rename_i hc
        refine Ret.mk ⟨e1, ?_, by rw [shift_xkwd]; exact h.kwd⟩ (shift_atDepth ed)
        cases hcc : ed.bufsShift.cur with
        | none => rw [hcc] at hc; simp at hc
        | some b => rfl
    · split
      · refine Ret.mk ⟨?_, ?_, h.kwd⟩ rfl
        · show TabInv _
          refine tabInv_congr_lb ?_ h.inv
          exact (renumber_lbs ed.bufs [] 0).trans (by simp)
        · have := isSome_of_map_lb ((renumber_lbs ed.bufs [] 0).trans (by simp) :
            _ = ed.bufs.map (Option.map (·.lb))) 0
          exact this.trans h.cur
      · refine Ret.dite (fun hidx => ?_) (fun _ => Ret.mk (h.show _) rfl)
        have hsome := ((Bool.and_eq_true _ _).mp hidx).2
        obtain ⟨g, ed1, hg, h1, hq, hd1⟩ := guard_total h ((ed.xwa == 0 && !hasBang cmd) = true) 0 (some (strOf "buffer modified"))
        rw [hg]
        cases g with
        | true => exact Ret.mk h1 hd1
        | false => exact Ret.mk (h1.switch _ (by rw [hq.isSome]; exact hsome)) (by rw [switch_atDepth]; exact hd1)

end Neatvi.Lemmas.C05e
