import NeatviVerif.Lemmas.C18cRset
import NeatviVerif.Lemmas.C18cNested
/-!
# C18c helpers: the offsets `rset_find` hands out are ordered like nested groups

For a set made from patterns `pats` whose combined tree `((p0)|(p1)|…)` passes the computable check
`setCheck` (the top-level alternatives are groups taken once, none writes the marks of another, and
the group table of `rset_make` points at them): `find_nested`.
-/
namespace Neatvi.Props.C18c
open Neatvi Neatvi.Regex Neatvi.Rset Neatvi.Lemmas.C10 Neatvi.Props.C10

/-! ### `regexec`: the offsets are the marks -/

theorem regexec_offs (prog : Prog) (subj : Bytes) (nsub eflg nd ngrps : Nat) (m : Marks) (c : Nat)
    (offs : List (Int × Int)) (h : regexec prog subj nsub eflg nd ngrps = (ExecRes.found m c, offs)) :
    ∀ j, offs.getD j (-1, -1) = (-1, -1) ∨ offs.getD j (-1, -1) = (mk m (2 * j), mk m (2 * j + 1)) := by
  unfold regexec at h
  dsimp only at h
  split at h
  · cases h
  · split at h
    · rename_i m' c' hex
      simp only [Prod.mk.injEq, ExecRes.found.injEq] at h
      obtain ⟨⟨hm, _⟩, ho⟩ := h
      subst hm; subst ho
      intro j
      rw [List.getD_eq_getElem?_getD, List.getElem?_map]
      by_cases hj : j < nsub
      · rw [List.getElem?_range hj]
        simp only [Option.map_some, Option.getD_some]
        split
        · right; rw [Nat.mul_comm j 2]; rfl
        · left; rfl
      · rw [List.getElem?_eq_none (by simp; omega)]
        left; rfl
    · rename_i hne
      simp only [Prod.mk.injEq] at h
      exact absurd h.1 (hne m c)

/-! ### `rset_make`: the tables -/

/-- the group table, the group counts and the total of `rset_make` -/
def tables (pats : List (Option Bytes)) : List Int × List Nat × Nat :=
  pats.foldl (fun (acc : List Int × List Nat × Nat) p =>
    let (g, c, gc) := acc
    match p with
    | none => (g ++ [-1], c ++ [0], gc)
    | some x => let k := groupCount x; (g ++ [(gc : Int)], c ++ [k], gc + 1 + k)) ([], [], 2)

theorem make_tables (pats : List (Option Bytes)) (flg : Nat) (rs : RSet)
    (h : Rset.make pats flg = some (some rs)) :
    rs.grp = (tables pats).1 ++ [((tables pats).2.2 : Int)] ∧ rs.setgrpcnt = (tables pats).2.1 ∧
      rs.grpcnt = (tables pats).2.2 := by
  unfold Rset.make at h
  split at h
  rename_i grp cnts grpcnt heq
  have ht : tables pats = (grp, cnts, grpcnt) := heq
  dsimp only at h
  split at h
  · cases h
  · cases h
  · next p hp =>
    simp only [Option.some.injEq] at h
    subst h
    rw [ht]
    exact ⟨rfl, rfl, rfl⟩

/-! ### lists of pairs -/

theorem flatMap_pair_get {α : Type} (f h : Nat → α) : ∀ (l : List Nat) (j : Nat),
    (l.flatMap (fun i => [f i, h i]))[2 * j]? = (l[j]?).map f ∧
    (l.flatMap (fun i => [f i, h i]))[2 * j + 1]? = (l[j]?).map h
  | [], j => by simp
  | a :: l, 0 => by simp
  | a :: l, j + 1 => by
    have := flatMap_pair_get f h l j
    simp only [List.flatMap_cons, List.cons_append, List.nil_append]
    rw [show 2 * (j + 1) = 2 * j + 1 + 1 by omega, show 2 * j + 1 + 1 + 1 = (2 * j + 1) + 1 + 1 by omega]
    simp only [List.getElem?_cons_succ]
    exact this

/-! ### the check -/

/-- the numbered tree of the combined pattern -/
def setTree (pats : List (Option Bytes)) : RNode :=
  (grpnum (((parse (combined pats)).getD none).getD RNode.nul) 1).1

/-- the top-level alternatives are groups taken once, numbered ≥ 2 and below `ngrps / 2`, none writes
    the marks of another one, and every entry of the group table of `rset_make` is one of them -/
def setCheck (ngrps : Nat) (pats : List (Option Bytes)) : Bool :=
  match topGroups (setTree pats) with
  | none => false
  | some l =>
    altsOk ngrps l && decide ((tables pats).1.length = pats.length) &&
      (tables pats).1.all (fun g => decide (g < 0) || (l.map Prod.fst).contains g.toNat)

/-- no top-level alternative can match the empty string -/
def setConsumes (pats : List (Option Bytes)) : Bool :=
  match topGroups (setTree pats) with
  | none => false
  | some l => l.all (fun x => consumes x.2)

/-- **the offsets of `rset_find` are ordered like nested groups**: `out[0] ≤ out[1]`, every offset is
    unset or inside `[out[0], out[1]]`, no group pair is inverted; and `out[0] < out[1]` when no
    pattern of the set can match the empty string -/
theorem find_nested {pats : List (Option Bytes)} {flg0 : Nat} {rs : RSet}
    (hmk : Rset.make pats flg0 = some (some rs)) {ngrps : Nat} (hev : ngrps % 2 = 0) (hng : 1 < ngrps)
    (hchk : setCheck ngrps pats = true) {str : Bytes} {n flg nd : Nat} (hn : 0 < n) {set : Int}
    {out : List Int} {c : Nat} (h : Rset.find rs str n flg nd ngrps = some (set, out, c)) (hset : 0 ≤ set) :
    out.getD 0 (-1) ≤ out.getD 1 (-1) ∧
    (∀ k, out.getD k (-1) < 0 ∨ (out.getD 0 (-1) ≤ out.getD k (-1) ∧ out.getD k (-1) ≤ out.getD 1 (-1))) ∧
    (∀ g, 0 ≤ out.getD (g * 2) (-1) → 0 ≤ out.getD (g * 2 + 1) (-1) →
      out.getD (g * 2) (-1) ≤ out.getD (g * 2 + 1) (-1)) ∧
    (setConsumes pats = true → out.getD 0 (-1) < out.getD 1 (-1)) := by
  obtain ⟨rflg, m, c', offs, hex, hlt, hg0, hso, hout⟩ := find_spec rs str n flg nd ngrps set out c h hset
  obtain ⟨hcomp, hrn⟩ := make_spec pats flg0 rs hmk
  obtain ⟨hgrp, hcnt, _⟩ := make_tables pats flg0 rs hmk
  obtain ⟨t0, s, p, m1, hparse, hM, hm, _⟩ :=
    regexec_sound hcomp str rs.grpcnt rflg nd ngrps hng m c' offs hex
  have hoffs := regexec_offs _ _ _ _ _ _ _ _ _ hex
  have htree : setTree pats = (grpnum t0 1).1 := by unfold setTree; rw [hparse]; rfl
  -- unpack the check
  unfold setCheck at hchk
  rw [htree] at hchk
  split at hchk
  · cases hchk
  next l ht =>
  simp only [Bool.and_eq_true, decide_eq_true_eq] at hchk
  obtain ⟨⟨hok, hlen⟩, hall⟩ := hchk
  obtain ⟨G, hG, hsp, e0, e1, hoth, M3, M4, hlt⟩ := top_marks hev (grpnum_fresh t0 1) ht hok hM
  rw [← hm] at e0 e1 hoth M3 M4
  -- the selected base group is `G`
  have hidx : set.toNat < (tables pats).1.length := by omega
  have hgd : ∀ d, rs.grp.getD set.toNat d = (tables pats).1[set.toNat] := by
    intro d
    rw [hgrp, List.getD_eq_getElem?_getD, List.getElem?_append_left hidx, List.getElem?_eq_getElem hidx]
    rfl
  have hbmem : (tables pats).1[set.toNat] ∈ (tables pats).1 := List.getElem_mem hidx
  rw [hgd] at hg0 hso
  rw [hgd] at hout
  generalize hbdef : (tables pats).1[set.toNat] = bI at hg0 hso hout hbmem
  have hbl : bI.toNat ∈ l.map Prod.fst := by
    have := List.all_eq_true.mp hall bI hbmem
    simp only [Bool.or_eq_true, decide_eq_true_eq, List.contains_eq_mem] at this
    rcases this with h1 | h1
    · omega
    · exact h1
  have hbG : bI.toNat = G := by
    apply Decidable.byContradiction
    intro hne
    have h1 := hoth _ hbl hne
    rcases hoffs bI.toNat with h2 | h2
    · rw [h2] at hso; simp at hso
    · rw [h2] at hso; simp only at hso; omega
  rw [hbG] at hso hout
  have hoG : offs.getD G (-1, -1) = ((s : Int), (p : Int)) := by
    rcases hoffs G with h2 | h2
    · rw [h2] at hso; simp at hso
    · rw [h2, e0, e1]
  -- every pair handed out
  have hpair : ∀ j, (offs.getD j (-1, -1) = (-1, -1)) ∨
      (offs.getD j (-1, -1) = (mk m (2 * j), mk m (2 * j + 1))) := hoffs
  have hin : ∀ j, ((offs.getD j (-1, -1)).1 = -1 ∨ ((s : Int) ≤ (offs.getD j (-1, -1)).1 ∧ (offs.getD j (-1, -1)).1 ≤ (p : Int))) ∧
      ((offs.getD j (-1, -1)).2 = -1 ∨ ((s : Int) ≤ (offs.getD j (-1, -1)).2 ∧ (offs.getD j (-1, -1)).2 ≤ (p : Int))) := by
    intro j
    rcases hpair j with h2 | h2
    · rw [h2]; exact ⟨Or.inl rfl, Or.inl rfl⟩
    · rw [h2]; exact ⟨M3 _, M3 _⟩
  have hord : ∀ j, 1 ≤ j → 0 ≤ (offs.getD j (-1, -1)).1 → 0 ≤ (offs.getD j (-1, -1)).2 →
      (offs.getD j (-1, -1)).1 ≤ (offs.getD j (-1, -1)).2 := by
    intro j hj
    rcases hpair j with h2 | h2
    · rw [h2]; intro h3; simp at h3
    · rw [h2]
      simp only
      intro h3 h4
      rcases M4 j hj with ⟨q1, q2⟩ | ⟨q1, q2⟩
      · omega
      · exact q2
  -- the list handed out, entry by entry
  generalize hcn : rs.setgrpcnt.getD set.toNat 0 = cnt at hout
  let F : Nat → Int := fun i => if i < cnt + 1 then (offs.getD (G + i) (-1, -1)).1 else -1
  let H : Nat → Int := fun i => if i < cnt + 1 then (offs.getD (G + i) (-1, -1)).2 else -1
  have hout' : out = (List.range n).flatMap (fun i => [F i, H i]) := by
    rw [hout]
    congr 1
    funext i
    show _ = [if i < cnt + 1 then _ else _, if i < cnt + 1 then _ else _]
    split <;> rfl
  have hget : ∀ i, out.getD (2 * i) (-1) = (if i < n then F i else -1) ∧
      out.getD (2 * i + 1) (-1) = (if i < n then H i else -1) := by
    intro i
    have := flatMap_pair_get F H (List.range n) i
    rw [← hout'] at this
    rw [List.getD_eq_getElem?_getD, List.getD_eq_getElem?_getD, this.1, this.2]
    by_cases hi : i < n
    · rw [List.getElem?_range hi, if_pos hi, if_pos hi]; exact ⟨rfl, rfl⟩
    · rw [List.getElem?_eq_none (by simp; omega), if_neg hi, if_neg hi]; exact ⟨rfl, rfl⟩
  have h0 : out.getD 0 (-1) = (s : Int) := by
    have := (hget 0).1
    rw [Nat.mul_zero, if_pos hn] at this
    rw [this]
    show (if 0 < cnt + 1 then (offs.getD (G + 0) (-1, -1)).1 else -1) = _
    rw [if_pos (by omega), Nat.add_zero, hoG]
  have h1 : out.getD 1 (-1) = (p : Int) := by
    have := (hget 0).2
    rw [Nat.mul_zero, Nat.zero_add, if_pos hn] at this
    rw [this]
    show (if 0 < cnt + 1 then (offs.getD (G + 0) (-1, -1)).2 else -1) = _
    rw [if_pos (by omega), Nat.add_zero, hoG]
  have hFH : ∀ i, (F i = -1 ∨ ((s : Int) ≤ F i ∧ F i ≤ (p : Int))) ∧ (H i = -1 ∨ ((s : Int) ≤ H i ∧ H i ≤ (p : Int))) := by
    intro i
    by_cases hi : i < cnt + 1
    · have eF : F i = (offs.getD (G + i) (-1, -1)).1 := if_pos hi
      have eH : H i = (offs.getD (G + i) (-1, -1)).2 := if_pos hi
      rw [eF, eH]; exact hin _
    · have eF : F i = -1 := if_neg hi
      have eH : H i = -1 := if_neg hi
      exact ⟨Or.inl eF, Or.inl eH⟩
  have hG2 : 2 ≤ G := by
    obtain ⟨x, hx, rfl⟩ := List.mem_map.mp hG
    have := List.all_eq_true.mp hok x hx
    simp only [Bool.and_eq_true, decide_eq_true_eq] at this
    exact this.1.1
  rw [h0, h1]
  refine ⟨by omega, ?_, ?_, ?_⟩
  rotate_left 2
  · intro hcons
    unfold setConsumes at hcons
    rw [htree, ht] at hcons
    have := hlt hcons
    omega
  · intro k
    have hk : k = 2 * (k / 2) ∨ k = 2 * (k / 2) + 1 := by omega
    rcases hk with hk | hk
    · rw [hk, (hget (k / 2)).1]
      split
      · rcases (hFH (k / 2)).1 with h2 | h2
        · left; omega
        · right; exact h2
      · left; decide
    · rw [hk, (hget (k / 2)).2]
      split
      · rcases (hFH (k / 2)).2 with h2 | h2
        · left; omega
        · right; exact h2
      · left; decide
  · intro g
    rw [Nat.mul_comm g 2, (hget g).1, (hget g).2]
    split
    · show 0 ≤ (if g < cnt + 1 then _ else _) → 0 ≤ (if g < cnt + 1 then _ else _) →
        (if g < cnt + 1 then _ else _) ≤ (if g < cnt + 1 then _ else _)
      split
      · exact hord _ (by omega)
      · intro h3; simp at h3
    · intro h3; simp at h3

end Neatvi.Props.C18c
