import NeatviVerif.Lemmas.C15bRun
/-!
# C15b lemmas, part 6: a nested `:g` is one undo step

`Props/C15.one_undo_step`: a quiet command list never bumps the sequence counter `useq` of the current buffer.  Here the
other half: every undo record (`lbuf_opt`) written while the list runs — by the `:s`, `:d`, … of the innermost list of a
nest of `:g`s — carries that one sequence number, and the records that were there before are a prefix of the history.
`lbuf_undo` undoes the records on top of the history that carry the sequence number of the topmost one
(`Props/C04`): one `u` takes back everything the nested `:g` did.
-/
namespace Neatvi.Lemmas.C15b
open Neatvi Neatvi.Lbuf Neatvi.Ex Neatvi.Rset Neatvi.Props Neatvi.Props.C15
open Neatvi.Lemmas.ExFrame Neatvi.Lemmas.Hist

/-- the history of `lb` is a prefix of the history of `lb0` followed by records that carry the sequence number `u`,
    and `u` is still the sequence counter -/
def OneSeq (lb0 : Lb) (u : Nat) (lb : Lb) : Prop :=
  lb.useq = u ∧ ∃ (k : Nat) (news : List Entry), lb.hist = lb0.hist.take k ++ news ∧ ∀ e ∈ news, e.seq = u

theorem OneSeq.refl (lb0 : Lb) : OneSeq lb0 lb0.useq lb0 :=
  ⟨rfl, lb0.hist.length, [], by simp, fun e he => by cases he⟩

theorem OneSeq.of_eq {lb0 lb lb' : Lb} {u : Nat} (h : OneSeq lb0 u lb) (hu : lb'.useq = lb.useq) (hh : lb'.hist = lb.hist) :
    OneSeq lb0 u lb' := by
  obtain ⟨h1, k, news, h2, h3⟩ := h
  exact ⟨hu.trans h1, k, news, hh.trans h2, h3⟩

theorem replace_hist {lb lb' : Lb} {s : Option Bytes} {pos nDel : Nat} (h : replace lb s pos nDel = some lb') :
    lb'.hist = lb.hist ∧ lb'.useq = lb.useq := by
  have hb := (replace_lines h).1
  obtain ⟨lb2, h1, _, h3, _, h5⟩ := replace_spec lb s pos nDel hb
  rw [h] at h1; cases h1
  exact ⟨h3, h5⟩

theorem opt_hist (lb : Lb) (buf : Option Bytes) (pos nDel : Nat) :
    ∃ e, (opt lb buf pos nDel).hist = lb.hist.take lb.histU ++ [e] ∧ e.seq = lb.useq ∧ (opt lb buf pos nDel).useq = lb.useq :=
  ⟨_, rfl, rfl, rfl⟩

theorem edit_oneSeq {lb0 lb lb' : Lb} {u : Nat} {buf : Option Bytes} {b e : Nat} (h : OneSeq lb0 u lb)
    (he : edit lb buf b e = some lb') : OneSeq lb0 u lb' := by
  unfold edit at he
  simp only [] at he
  split at he
  · cases he
  · split at he
    · cases he; exact h
    · obtain ⟨hh, hu⟩ := replace_hist he
      obtain ⟨h1, k, news, h2, h3⟩ := h
      obtain ⟨en, e1, e2, e3⟩ := opt_hist lb buf (min b lb.lines.length) (min e lb.lines.length - min b lb.lines.length)
      refine ⟨by rw [hu, e3, h1], min lb.histU k, news.take (lb.histU - (lb0.hist.take k).length) ++ [en], ?_, ?_⟩
      · rw [hh, e1, h2, List.take_append, List.take_take, List.append_assoc]
      · intro x hx
        rw [List.mem_append] at hx
        rcases hx with hx | hx
        · exact h3 x (List.mem_of_mem_take hx)
        · simp only [List.mem_singleton] at hx
          rw [hx, e2, h1]

theorem undoGo_hist (seq : Nat) : ∀ (f : Nat) (lb lb' : Lb), undoGo seq f lb = some lb' →
    lb'.hist = lb.hist ∧ lb'.useq = lb.useq := by
  intro f
  induction f with
  | zero => intro lb lb' h; cases h; exact ⟨rfl, rfl⟩
  | succ f ih =>
    intro lb lb' h
    rw [undoGo] at h
    split at h
    · cases h; exact ⟨rfl, rfl⟩
    · split at h
      · cases h
      · split at h
        · split at h
          · cases h
          · rename_i lb1 hr
            obtain ⟨a1, a2⟩ := replace_hist hr
            obtain ⟨b1, b2⟩ := ih _ _ h
            rw [loadMarks_hist] at b1
            rw [loadMarks_useq] at b2
            exact ⟨b1.trans a1, b2.trans a2⟩
        · cases h; exact ⟨rfl, rfl⟩

theorem redoGo_hist (seq : Nat) : ∀ (f : Nat) (lb lb' : Lb), redoGo seq f lb = some lb' →
    lb'.hist = lb.hist ∧ lb'.useq = lb.useq := by
  intro f
  induction f with
  | zero => intro lb lb' h; cases h; exact ⟨rfl, rfl⟩
  | succ f ih =>
    intro lb lb' h
    rw [redoGo] at h
    split at h
    · split at h
      · cases h
      · split at h
        · split at h
          · cases h
          · rename_i lb1 hr
            obtain ⟨a1, a2⟩ := replace_hist hr
            obtain ⟨b1, b2⟩ := ih _ _ h
            exact ⟨b1.trans a1, b2.trans a2⟩
        · cases h; exact ⟨rfl, rfl⟩
    · cases h; exact ⟨rfl, rfl⟩

theorem undo_hist {lb lb' : Lb} {rc : Nat} (h : Lbuf.undo lb = some (rc, lb')) : lb'.hist = lb.hist ∧ lb'.useq = lb.useq := by
  unfold Lbuf.undo at h
  split at h
  · cases h; exact ⟨rfl, rfl⟩
  · split at h
    · cases h
    · rename_i e _
      cases hg : undoGo e.seq lb.histU lb with
      | none => rw [hg] at h; cases h
      | some l => rw [hg] at h; cases h; exact undoGo_hist _ _ _ _ hg

theorem redo_hist {lb lb' : Lb} {rc : Nat} (h : Lbuf.redo lb = some (rc, lb')) : lb'.hist = lb.hist ∧ lb'.useq = lb.useq := by
  unfold Lbuf.redo at h
  split at h
  · cases h; exact ⟨rfl, rfl⟩
  · split at h
    · cases h
    · rename_i e _
      cases hg : redoGo e.seq (lb.hist.length - lb.histU) lb with
      | none => rw [hg] at h; cases h
      | some l => rw [hg] at h; cases h; exact redoGo_hist _ _ _ _ hg

/-- the current buffer's history is that of `lb0` cut somewhere and continued by records of sequence number `u` -/
def OneSeqEd (lb0 : Lb) (u : Nat) (ed : Ed) : Prop := ∃ lb, ed.lb = some lb ∧ OneSeq lb0 u lb

theorem oneSeq_stableG (lb0 : Lb) (u : Nat) : StableG 0 (OneSeqEd lb0 u) (OneSeq lb0 u) where
  to := by
    intro ed ed' ⟨lb, hl, hc⟩ hb
    exact ⟨lb, by rw [lb_of_bufs hb]; exact hl, hc⟩
  getLb := by
    intro ed lb ⟨lb1, hl, hc⟩ hl'
    rw [hl] at hl'; cases hl'; exact hc
  setLb := by
    intro ed lb ⟨lb1, hl, _⟩ hq
    exact ⟨lb, by rw [setLb_lb, hl]; rfl, hq⟩
  edit := fun h he => edit_oneSeq h he
  undo := fun h he => h.of_eq (undo_hist he).2 (undo_hist he).1
  redo := fun h he => h.of_eq (redo_hist he).2 (redo_hist he).1
  setMark := fun c p o h => h.of_eq (setMark_useq _ _ _ _) (setMark_hist _ _ _ _)
  globSet := fun _ _ _ _ h => h.of_eq rfl rfl
  globGet := fun _ _ _ _ h => h.of_eq rfl rfl

/-- **a quiet command list (nested `:g`s included) logs all its undo records under one sequence number** -/
theorem exExec_oneSeq (f d : Nat) (ln : Bytes) (hq : C15.quietLine d ln = true) (ed ed' : Ed) (r : Int) (lb : Lb)
    (hl : ed.lb = some lb) (h : exExec f ed ln = some (r, ed')) :
    ∃ lb', ed'.lb = some lb' ∧ OneSeq lb lb.useq lb' :=
  exExec_stableG (oneSeq_stableG lb lb.useq) f d ln hq ed r ed' (Nat.zero_le _) ⟨lb, hl, OneSeq.refl lb⟩ h

/-- the same for one complete `:g` -/
theorem ecGlob_oneSeq (f d : Nat) (loc cmd arg : Bytes) (hq : C15.quietLine d (reRead arg).2 = true) (ed ed' : Ed) (r : Int)
    (lb : Lb) (hl : ed.lb = some lb) (h : ecGlob f ed loc cmd arg = some (r, ed')) :
    ∃ lb', ed'.lb = some lb' ∧ OneSeq lb lb.useq lb' := by
  cases f with
  | zero => rw [ecGlob] at h; cases h
  | succ f =>
    exact ecGlob_stableG (oneSeq_stableG lb lb.useq) f ed ed' loc cmd arg r
      (exExec_stableG (oneSeq_stableG lb lb.useq) f d _ hq) (Nat.zero_le _) ⟨lb, hl, OneSeq.refl lb⟩ h

theorem modifiedAt0_eq' (ed : Ed) :
    (ed.modifiedAt 0).2 = match ed.lb with | some lb => ed.setLb (modified lb).2 | none => ed := by
  unfold Ed.modifiedAt Ed.lb Ed.setLb Ed.cur Ed.setCur
  cases h : ed.bufs.getD 0 none with
  | none => rfl
  | some b => rfl

/-- `ex_command` on a quiet line: the records it logged carry the old value of the counter, the counter is one more -/
theorem exCommand_oneSeq (f d : Nat) (ln : Bytes) (hq : C15.quietLine d ln = true) (ed ed' : Ed) (r : Int) (lb : Lb)
    (hl : ed.lb = some lb) (h : exCommand f ed ln = some (r, ed')) :
    ∃ lb', ed'.lb = some lb' ∧ lb'.useq = lb.useq + 1 ∧
      ∃ (k : Nat) (news : List Entry), lb'.hist = lb.hist.take k ++ news ∧ ∀ e ∈ news, e.seq = lb.useq := by
  cases f with
  | zero => rw [exCommand] at h; cases h
  | succ f =>
    rw [exCommand] at h
    split at h
    · cases h
    · rename_i r1 ed1 hx
      cases h
      obtain ⟨lb1, hl1, hu, k, news, hh, hs⟩ := exExec_oneSeq f d ln hq ed ed1 r lb hl hx
      refine ⟨(modified lb1).2, ?_, by show lb1.useq + 1 = _; rw [hu], k, news, hh, hs⟩
      rw [modifiedAt0_eq', hl1]
      simp only []
      rw [setLb_lb, hl1]; rfl

end Neatvi.Lemmas.C15b
