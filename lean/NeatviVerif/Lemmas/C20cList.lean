import NeatviVerif.Lemmas.C20cMore
/-!
# C20c lemmas, part 10: what `:b` without an argument prints
-/
namespace Neatvi.Lemmas.C20c
open Neatvi Neatvi.Lbuf Neatvi.Ex Neatvi.Props.C20 Neatvi.Props.C20b Neatvi.Lemmas.C20b
open Neatvi.Lemmas.C02Ex

/-- the line `:b` prints for the buffer `b` in slot `i`: the number right-aligned in two columns,
    the alias (`%` current, `#` alternate, `^` third, else a blank), the path, `*` when modified;
    cut at 127 bytes -/
def listLine (i : Nat) (b : Buf) : Bytes :=
  ((List.replicate (2 - (intStr b.id).length) 32) ++ intStr b.id ++ [32, (strOf "%#^").getD i 32, 32] ++ b.path ++
    [32, if (modified b.lb).1 then 42 else 32]).take 127

/-- `ex_print`: the line, and a newline unless it ends in one -/
def withNl (l : Bytes) : Bytes := l ++ (if l.getLast? == some 10 then [] else [10])

/-- the listing from slot `i` on (at most `g` slots): it stops at the first empty slot -/
def listFrom : Nat → Nat → Ed → Ed
  | 0, _, ed => ed
  | g + 1, i, ed =>
    match ed.bufs.getD i none with
    | none => ed
    | some b => listFrom g (i + 1) ((bumpAt ed i b).print (listLine i b))

/-- what the listing prints, from slot `i` on -/
def listOut : Nat → Nat → List (Option Buf) → Bytes
  | 0, _, _ => []
  | g + 1, i, L =>
    match L.getD i none with
    | none => []
    | some b => withNl (listLine i b) ++ listOut g (i + 1) L

theorem listStep_false (ed : Ed) (i : Nat) : listStep (false, ed) i = (false, ed) := rfl

theorem foldl_listStep_false : ∀ (l : List Nat) (ed : Ed), l.foldl listStep (false, ed) = (false, ed) := by
  intro l
  induction l with
  | nil => intro ed; rfl
  | cons i l ih => intro ed; rw [List.foldl_cons, listStep_false, ih]

theorem listStep_true (ed : Ed) (i : Nat) :
    listStep (true, ed) i =
      match ed.bufs.getD i none with
      | none => (false, ed)
      | some b => (true, (bumpAt ed i b).print (listLine i b)) := by
  unfold listStep
  cases hb : ed.bufs.getD i none with
  | none => simp only [Bool.not_true, Bool.false_eq_true, if_false, hb]
  | some b =>
    simp only [Bool.not_true, Bool.false_eq_true, if_false, hb, Ed.modifiedAt]
    rfl

theorem foldl_listStep : ∀ (g i : Nat) (ed : Ed),
    ((List.range' i g).foldl listStep (true, ed)).2 = listFrom g i ed := by
  intro g
  induction g with
  | zero => intro i ed; rfl
  | succ g ih =>
    intro i ed
    rw [List.range'_succ, List.foldl_cons, listStep_true, listFrom]
    cases hb : ed.bufs.getD i none with
    | none => simp only []; rw [foldl_listStep_false]
    | some b => simp only []; exact ih (i + 1) _

theorem listEd_eq (ed : Ed) : listEd ed = listFrom ed.bufs.length 0 ed := by
  unfold listEd
  rw [List.range_eq_range']
  exact foldl_listStep _ 0 ed

/-- only the table and the output differ -/
def OutOnly (ed ed' : Ed) : Prop := ∃ bufs out, ed' = { ed with bufs := bufs, out := out }

theorem OutOnly.refl (ed : Ed) : OutOnly ed ed := ⟨_, _, rfl⟩
theorem OutOnly.trans {a b c : Ed} (h1 : OutOnly a b) (h2 : OutOnly b c) : OutOnly a c := by
  obtain ⟨_, _, e1⟩ := h1
  obtain ⟨_, _, e2⟩ := h2
  subst e1; subst e2
  exact ⟨_, _, rfl⟩

theorem listFrom_outOnly : ∀ (g i : Nat) (ed : Ed), OutOnly ed (listFrom g i ed) := by
  intro g
  induction g with
  | zero => intro i ed; exact OutOnly.refl _
  | succ g ih =>
    intro i ed
    rw [listFrom]
    split
    · exact OutOnly.refl _
    · exact OutOnly.trans ⟨_, _, rfl⟩ (ih _ _)

theorem listOut_congr : ∀ (g i : Nat) (L L' : List (Option Buf)),
    (∀ k, i ≤ k → L'.getD k none = L.getD k none) → listOut g i L' = listOut g i L := by
  intro g
  induction g with
  | zero => intro i L L' _; rfl
  | succ g ih =>
    intro i L L' h
    rw [listOut, listOut, h i (Nat.le_refl _)]
    cases L.getD i none with
    | none => rfl
    | some b =>
      simp only []
      rw [ih (i + 1) L L' (fun k hk => h k (by omega))]

theorem listFrom_out : ∀ (g i : Nat) (ed : Ed), (listFrom g i ed).out = ed.out ++ listOut g i ed.bufs := by
  intro g
  induction g with
  | zero => intro i ed; simp [listFrom, listOut]
  | succ g ih =>
    intro i ed
    rw [listFrom, listOut]
    cases hb : ed.bufs.getD i none with
    | none => simp
    | some b =>
      simp only []
      rw [ih]
      have h1 : ((bumpAt ed i b).print (listLine i b)).out = ed.out ++ withNl (listLine i b) := by
        simp [Ed.print, bumpAt, withNl, List.append_assoc]
      have h2 : listOut g (i + 1) ((bumpAt ed i b).print (listLine i b)).bufs = listOut g (i + 1) ed.bufs := by
        apply listOut_congr
        intro k hk
        show (ed.bufs.set i _).getD k none = _
        exact C02Ex.getD_set_ne _ _ _ _ (by omega)
      rw [h1, h2, List.append_assoc]

/-- **`:b` without an argument**: status 0; one line per buffer of the occupied prefix of the table,
    in table order; nothing else changes but sequence counters -/
theorem b_list_spec (f : Nat) (ed : Ed) (loc cmd arg : Bytes) (txt : Option Bytes) (h : arg.isEmpty = true) :
    runCmd (f + 1) ed "ec_buffer" loc cmd arg txt = some (0, listEd ed) ∧
    Quiet ed (listEd ed) ∧ OutOnly ed (listEd ed) ∧
    (listEd ed).out = ed.out ++ listOut ed.bufs.length 0 ed.bufs :=
  ⟨runCmd_b_list f ed loc cmd arg txt h, quiet_listEd ed, by rw [listEd_eq]; exact listFrom_outOnly _ _ _,
    by rw [listEd_eq]; exact listFrom_out _ _ _⟩

end Neatvi.Lemmas.C20c
