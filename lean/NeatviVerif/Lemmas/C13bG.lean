import NeatviVerif.Lemmas.C13bF
import NeatviVerif.Props.C13
/-!
# C13b, part G: `lbuf_search` under the whole-line reading

`search_eq_whole`: for a pattern without word-boundary tests, `Mot.search` is the generic scan of
C13 at the *whole-line* matcher.  The characterisations of C13 (`search_forward_first_row`,
`search_backward_last`, the two "not found") follow with `wholeMatcher re` in place of `reMatcher re`.
-/
namespace Neatvi.Lemmas.C13b
open Neatvi Neatvi.Regex Neatvi.Rset Neatvi.Mot Neatvi.Lemmas.C13 Neatvi.Props.C13

theorem gGo_congr {m m' : Matcher} {s : Bytes} (h : ∀ off, off ≤ s.length → m s off = m' s off)
    (dir r0 o0 i : Int) : ∀ (f off : Nat) (best : Option (Int × Int)), off ≤ s.length →
      gGo m dir r0 o0 i s f off best = gGo m' dir r0 o0 i s f off best := by
  intro f
  induction f with
  | zero => intro off best _; rfl
  | succ f ih =>
    intro off best hoff
    rw [gGo, gGo, h off hoff]
    cases m' s off with
    | none => rfl
    | some x =>
      cases x with
      | none => rfl
      | some p =>
        obtain ⟨so, eo⟩ := p
        simp only []
        split
        · rfl
        · split
          · rfl
          · rename_i hc
            have : nextOff off so eo < s.length := by
              simp only [Bool.or_eq_true, decide_eq_true_eq, not_or] at hc
              omega
            exact ih _ _ (by omega)

theorem gLineScan_congr {m m' : Matcher} {s : Bytes} (h : ∀ off, off ≤ s.length → m s off = m' s off)
    (dir r0 o0 i : Int) : gLineScan m dir r0 o0 i s = gLineScan m' dir r0 o0 i s := by
  unfold gLineScan
  split
  · rfl
  · exact gGo_congr h dir r0 o0 i _ _ _ (by omega)

theorem lineAt_mem {ls : Lines} {i : Int} {s : Bytes} (h : lineAt ls i = some s) : s ∈ ls := by
  unfold lineAt at h
  split at h
  · cases h
  · exact List.mem_of_getElem? h

theorem gRows_congr {ls : Lines} {dir : Int} {scan scan' : Int → Bytes → Option (Option (Int × Int))}
    (h : ∀ i s, s ∈ ls → scan i s = scan' i s) : ∀ (f : Nat) (i : Int),
    gRows ls dir scan f i = gRows ls dir scan' f i := by
  intro f
  induction f with
  | zero => intro i; rfl
  | succ f ih =>
    intro i
    rw [gRows, gRows]
    split
    · rfl
    · cases hl : lineAt ls i with
      | none => rfl
      | some s =>
        simp only []
        rw [h i s (lineAt_mem hl)]
        cases scan' i s with
        | none => rfl
        | some x =>
          cases x with
          | none => exact ih _
          | some p => rfl

theorem gSearch_congr {m m' : Matcher} {ls : Lines} (h : ∀ s ∈ ls, ∀ off, off ≤ s.length → m s off = m' s off)
    (dir r0 o0 : Int) : gSearch m ls dir r0 o0 = gSearch m' ls dir r0 o0 := by
  unfold gSearch
  exact gRows_congr (fun i s hs => gLineScan_congr (h s hs) dir r0 o0 i) _ _

/-- **search_eq_whole**: for a pattern without `\<` / `\>` (and without `^`, or on lines whose only
    newline is their last byte) `lbuf_search` is the scan of C13 at the whole-line matcher -/
theorem search_eq_whole {ls : Lines} {kw : Bytes} {icase : Bool} {re : RStr}
    (hre : rstrMake kw (reFlags icase) = some (some re)) (hcf : PatCF kw = true)
    (hbeg : PatNoBeg kw = true ∨ ∀ s ∈ ls, LineNl s) (dir r0 o0 : Int) :
    search ls kw icase dir r0 o0 = gSearch (wholeMatcher re) ls dir r0 o0 := by
  rw [search_of_re dir r0 o0 hre]
  apply gSearch_congr
  intro s hs off hoff
  apply reMatcher_eq_whole re s off hoff (reCF_of_pat hre hcf)
  rcases hbeg with hbeg | hbeg
  · exact Or.inl (reNoBeg_of_pat hre hbeg)
  · exact Or.inr (hbeg s hs)

theorem search_forward_first_row_whole {ls : Lines} {kw : Bytes} {icase : Bool} {re : RStr} {r0 o0 r o len : Int}
    (hre : rstrMake kw (reFlags icase) = some (some re)) (hcf : PatCF kw = true)
    (hbeg : PatNoBeg kw = true ∨ ∀ s ∈ ls, LineNl s) (h0 : 0 ≤ r0) :
    search ls kw icase 1 r0 o0 = some (some (r, o, len)) ↔
      (r0 ≤ r ∧ r < ls.length ∧
        (∀ j s, r0 ≤ j → j < r → lineAt ls j = some s → fwdLine (wholeMatcher re) r0 o0 j s = some none) ∧
        ∃ s, lineAt ls r = some s ∧ fwdLine (wholeMatcher re) r0 o0 r s = some (some (o, len))) := by
  rw [search_eq_whole hre hcf hbeg, gSearch, gRows_fwd_found ls _ _ r0 r o len h0 (by omega)]
  simp only [gLineScan_fwd _ 1 r0 o0 _ _ (by omega : (0 : Int) < 1)]

theorem search_forward_not_found_whole {ls : Lines} {kw : Bytes} {icase : Bool} {re : RStr} {r0 o0 : Int}
    (hre : rstrMake kw (reFlags icase) = some (some re)) (hcf : PatCF kw = true)
    (hbeg : PatNoBeg kw = true ∨ ∀ s ∈ ls, LineNl s) (h0 : 0 ≤ r0) :
    search ls kw icase 1 r0 o0 = some none ↔
      ∀ j s, r0 ≤ j → lineAt ls j = some s → fwdLine (wholeMatcher re) r0 o0 j s = some none := by
  rw [search_eq_whole hre hcf hbeg, gSearch, gRows_fwd_none ls _ _ r0 h0 (by omega)]
  simp only [gLineScan_fwd _ 1 r0 o0 _ _ (by omega : (0 : Int) < 1)]

theorem search_backward_last_whole {ls : Lines} {kw : Bytes} {icase : Bool} {re : RStr} {r0 o0 r o len : Int}
    (hre : rstrMake kw (reFlags icase) = some (some re)) (hcf : PatCF kw = true)
    (hbeg : PatNoBeg kw = true ∨ ∀ s ∈ ls, LineNl s) :
    search ls kw icase (-1) r0 o0 = some (some (r, o, len)) ↔
      (0 ≤ r ∧ r ≤ r0 ∧ r0 < ls.length ∧
        (∀ j s, r < j → j ≤ r0 → lineAt ls j = some s → Chain (wholeMatcher re) s (stopB r0 o0 j s) 0 []) ∧
        ∃ s l b n, lineAt ls r = some s ∧ Chain (wholeMatcher re) s (stopB r0 o0 r s) 0 l ∧
          l.getLast? = some (b, n) ∧ (o, len) = report s b n) := by
  by_cases hlen : r0 < ls.length
  · rw [search_eq_whole hre hcf hbeg, gSearch, gRows_bwd_found ls _ _ r0 r o len (by omega)]
    simp only [gLineScan_bwd _ (-1) r0 o0 _ _ (by omega : (-1 : Int) < 0), bwdLine_none, bwdLine_some]
    constructor
    · rintro ⟨h1, h2, h3, h4, s, h5, l, b, n, h6⟩; exact ⟨h1, h2, h3, h4, s, l, b, n, h5, h6⟩
    · rintro ⟨h1, h2, h3, h4, s, l, b, n, h5, h6⟩; exact ⟨h1, h2, h3, h4, s, h5, l, b, n, h6⟩
  · rw [search_eq_whole hre hcf hbeg, gSearch, gRows]
    have : (r0 < 0 || r0 ≥ (ls.length : Int)) = true := by simp; omega
    simp only [this, if_true, Option.some.injEq, reduceCtorEq, false_iff]
    rintro ⟨-, -, h, -⟩; omega

theorem search_backward_not_found_whole {ls : Lines} {kw : Bytes} {icase : Bool} {re : RStr} {r0 o0 : Int}
    (hre : rstrMake kw (reFlags icase) = some (some re)) (hcf : PatCF kw = true)
    (hbeg : PatNoBeg kw = true ∨ ∀ s ∈ ls, LineNl s) (hlen : r0 < ls.length) :
    search ls kw icase (-1) r0 o0 = some none ↔
      ∀ j s, j ≤ r0 → lineAt ls j = some s → Chain (wholeMatcher re) s (stopB r0 o0 j s) 0 [] := by
  rw [search_eq_whole hre hcf hbeg, gSearch, gRows_bwd_none ls _ _ r0 (by omega) hlen]
  simp only [gLineScan_bwd _ (-1) r0 o0 _ _ (by omega : (-1 : Int) < 0), bwdLine_none]

end Neatvi.Lemmas.C13b
