import NeatviVerif.Lemmas.C02dRun
/-!
# C02d lemmas, part 5: a quit without `!` leaves nothing unsaved behind

The loop of `ec_quit` (`runCmd.each`) over the buffer table, without `!`:
* `:q`, `:wq`, `:x`: `bufs_modified(i)` must answer "no" for every slot: the buffer is clean, or `autowrite`
  wrote it successfully just now;
* `:xa`: every buffer is written (`lbuf_save`, not forced).
A buffer written in the loop is not overwritten later in the same loop: a later unforced save to the same
path carries an older time stamp and is refused.
-/
namespace Neatvi.Lemmas.C02d
open Neatvi Neatvi.Lbuf Neatvi.LbufIo Neatvi.Ex Neatvi.Props Neatvi.Lemmas.C02b Neatvi.Lemmas.C02Ex

/-- what the clean flag is worth: the buffer reports clean, and if it has a name and its file still carries
    the time stamp the buffer recorded, the file (if there is one) holds the buffer's text -/
def CleanSync (ed : Ed) (b : Buf) : Prop :=
  (modified b.lb).1 = false ∧
  (b.path ≠ [] → ed.mtimeOf b.path = b.mtime → ∀ fl, ed.findFile b.path = some fl → FileIs fl.data b.lb.lines)

/-- the file of the buffer holds its text byte for byte -/
def Held (ed : Ed) (b : Buf) : Prop := ∃ fl, ed.findFile b.path = some fl ∧ fl.data = b.lb.lines.flatten

/-- nothing of this buffer is unsaved -/
def SavedAt (ed : Ed) (b : Buf) : Prop := CleanSync ed b ∨ Held ed b

/-- **clean means the file is the text**, for any buffer of a table satisfying the invariant -/
theorem cleanSync_of_inv {ed : Ed} (h : Inv ed) {b : Buf} (hb : some b ∈ ed.bufs) (hc : (modified b.lb).1 = false) :
    CleanSync ed b := by
  obtain ⟨_, d, hr, ha⟩ := h.mem hb
  have hd := hr.inv.clean_text hc
  exact ⟨hc, fun hne hm fl hfl => ha _ hd hne hm fl hfl⟩

/-- held, and the file is newer than every time stamp recorded in the table -/
def HeldS (ed : Ed) (b : Buf) : Prop :=
  ∃ fl, ed.findFile b.path = some fl ∧ fl.data = b.lb.lines.flatten ∧ ∀ b', some b' ∈ ed.bufs → b'.mtime < fl.mtime

def Done (ed : Ed) (b : Buf) : Prop := (modified b.lb).1 = false ∨ HeldS ed b

theorem done_savedAt {ed : Ed} (h : Inv ed) {b : Buf} (hb : some b ∈ ed.bufs) (hd : Done ed b) : SavedAt ed b := by
  rcases hd with hc | ⟨fl, h1, h2, _⟩
  · exact Or.inl (cleanSync_of_inv h hb hc)
  · exact Or.inr ⟨fl, h1, h2⟩

/-! ### a successful save -/

/-- a save that reports success passed the guards and the `open` -/
theorem lbufSave_ok_guards {ed ed' : Ed} {lb : Lb} {b : Nat} {e : Int} {path : Bytes} {force : Bool} {ts : Int}
    (h : lbufSave ed lb b e path force ts = some (none, ed')) :
    C03.GuardsPass ed path force ts ∧ ed.nextFault.1 ≠ 101 := by
  by_cases hg : C03.GuardsPass ed path force ts
  · refine ⟨hg, ?_⟩
    intro ho
    obtain ⟨ed1, h1, _⟩ := C03.open_failure_surfaces ed lb b e path force ts hg ho
    rw [h1] at h; cases h
  · obtain ⟨msg, h1⟩ := C03.guards_fail ed lb b e path force ts hg
    rw [h1] at h; cases h

/-- a successful whole save: the file holds the text and carries a stamp beyond the old clock -/
theorem lbufSave_ok_whole {ed ed' : Ed} {lb : Lb} {path : Bytes} {force : Bool} {ts : Int}
    (h : lbufSave ed lb 0 (-1) path force ts = some (none, ed')) :
    ∃ fl, ed'.findFile path = some fl ∧ fl.data = lb.lines.flatten ∧ ed.clock < fl.mtime := by
  obtain ⟨fl, hfl, hd⟩ := lbufSave_whole ed ed' lb path force ts (-1) (Or.inl (by decide)) h
  obtain ⟨hg, ho⟩ := lbufSave_ok_guards h
  have hm := C03.mtime_advanced ed ed' lb 0 (-1) path force ts hg ho _ h
  refine ⟨fl, hfl, hd, ?_⟩
  have : ed'.mtimeOf path = fl.mtime := mtimeF_some hfl
  omega

/-- one buffer `b` of the table written (not forced, with its own time stamp) while the invariant holds:
    it is held afterwards, and so is every buffer that was held before -/
theorem save_step {ed ed1 : Ed} {b : Buf} (hi : Inv ed) (hb : some b ∈ ed.bufs)
    (hs : lbufSave ed b.lb 0 (-1) b.path false b.mtime = some (none, ed1)) :
    Inv ed1 ∧ HeldS ed1 b ∧ ∀ b0, HeldS ed b0 → HeldS ed1 b0 := by
  have he := lbufSave_eff _ _ _ _ _ _ _ _ _ hs
  obtain ⟨fl, hfl, hd, hgt⟩ := lbufSave_ok_whole hs
  refine ⟨inv_save hi he, ⟨fl, hfl, hd, ?_⟩, ?_⟩
  · intro b' hb'
    rw [he.bufs] at hb'
    have := (hi.mem hb').1
    omega
  · intro b0 ⟨fl0, hf0, hd0, hlt0⟩
    by_cases hp : b0.path = b.path
    · exfalso
      have hm : ed.mtimeOf b.path > b.mtime := by
        have h1 : ed.mtimeOf b.path = fl0.mtime := by rw [← hp]; exact mtimeF_some hf0
        have := hlt0 b hb
        omega
      obtain ⟨_, hr⟩ := lbufSave_stale ed ed1 b.lb 0 (-1) b.path b.mtime none hm hs
      cases hr
    · refine ⟨fl0, by rw [he.other b0.path hp]; exact hf0, hd0, ?_⟩
      intro b' hb'
      rw [he.bufs] at hb'
      exact hlt0 b' hb'

/-! ### `bufs_modified` answering "no" -/

theorem bufsModified_pass {ed ed1 : Ed} {idx : Nat} {msg : Option Bytes} {b : Buf}
    (hb : ed.bufs.getD idx none = some b) (h : bufsModified ed idx msg = some (false, ed1)) :
    ((modified b.lb).1 = false ∧ ed1 = bumpAt ed idx b) ∨
    ((modified b.lb).1 = true ∧
      lbufSave (bumpAt ed idx b) (modified b.lb).2 0 (-1) b.path false b.mtime = some (none, ed1)) := by
  obtain ⟨hlt, _⟩ := getD_some hb
  have hget := getD_set_self ed.bufs idx (some { b with lb := (modified b.lb).2 }) hlt
  unfold bufsModified at h
  simp only [hb, Ed.modifiedAt] at h
  rcases hp : modified b.lb with ⟨m, lb'⟩
  rw [hp] at h hget
  simp only [] at h hget
  cases m with
  | false =>
    left
    simp only [Bool.not_false, if_true, Option.some.injEq, Prod.mk.injEq, true_and] at h
    exact ⟨rfl, by rw [← h]; simp [bumpAt, hp]⟩
  | true =>
    right
    refine ⟨rfl, ?_⟩
    simp only [Bool.not_true, Bool.false_eq_true, if_false, hget] at h
    split at h
    · split at h
      · cases h
      · rename_i err ed2 hs
        simp only [Option.some.injEq, Prod.mk.injEq] at h
        obtain ⟨h1, h2⟩ := h
        subst h2
        cases err with
        | some x => simp at h1
        | none =>
          have : bumpAt ed idx b = { ed with bufs := ed.bufs.set idx (some { b with lb := lb' }) } := by
            simp [bumpAt, hp]
          rw [this]
          exact hs
    · cases h

/-! ### the loop -/

theorem done_bumpAt {ed : Ed} {i : Nat} {bi : Buf} (hi : ed.bufs.getD i none = some bi) {b : Buf} (h : Done ed b) :
    Done (bumpAt ed i bi) b := by
  rcases h with h | ⟨fl, h1, h2, h3⟩
  · exact Or.inl h
  · refine Or.inr ⟨fl, h1, h2, ?_⟩
    intro b' hb'
    simp only [bumpAt] at hb'
    rcases List.mem_or_eq_of_mem_set hb' with hm | he
    · exact h3 b' hm
    · cases he
      exact h3 bi (C20.mem_of_getD _ _ _ hi).1

theorem inv_bumpAt {ed : Ed} {i : Nat} {bi : Buf} (h : Inv ed) (hi : ed.bufs.getD i none = some bi) :
    Inv (bumpAt ed i bi) := core_set h i (h.at hi).bump

/-- the loop invariant: the invariant of the table, and every slot below `i` is done -/
def LI (ed : Ed) (i : Nat) : Prop :=
  Inv ed ∧ ∀ j b, j < i → ed.bufs.getD j none = some b → Done ed b

theorem li_all {ed : Ed} {i : Nat} (h : LI ed i) (hlen : ed.bufs.length ≤ i) :
    Inv ed ∧ ∀ j b, ed.bufs.getD j none = some b → Done ed b := by
  refine ⟨h.1, fun j b hb => h.2 j b ?_ hb⟩
  have := (getD_some hb).1
  omega

/-- slot `i` (holding `b2` in `ed2`) has been dealt with: it is clean, or it has just been written -/
theorem li_step {ed2 ed1 : Ed} {i : Nat} {b2 : Buf} (hinv2 : Inv ed2) (hslot : ed2.bufs.getD i none = some b2)
    (hlow : ∀ j b0, j < i → ed2.bufs.getD j none = some b0 → Done ed2 b0)
    (hcase : ((modified b2.lb).1 = false ∧ ed1 = ed2) ∨
      (lbufSave ed2 b2.lb 0 (-1) b2.path false b2.mtime = some (none, ed1))) :
    LI ed1 (i + 1) ∧ ed1.bufs.length = ed2.bufs.length := by
  rcases hcase with ⟨hc, rfl⟩ | hs
  · refine ⟨⟨hinv2, ?_⟩, rfl⟩
    intro j b0 hj hb0
    by_cases hji : j = i
    · subst hji
      rw [hslot] at hb0
      cases hb0
      exact Or.inl hc
    · exact hlow j b0 (by omega) hb0
  · have hmem : some b2 ∈ ed2.bufs := (C20.mem_of_getD _ _ _ hslot).1
    obtain ⟨hinv3, hheld, hkeep⟩ := save_step hinv2 hmem hs
    have hbufs : ed1.bufs = ed2.bufs := (lbufSave_eff _ _ _ _ _ _ _ _ _ hs).bufs
    refine ⟨⟨hinv3, ?_⟩, by rw [hbufs]⟩
    intro j b0 hj hb0
    rw [hbufs] at hb0
    by_cases hji : j = i
    · subst hji
      rw [hslot] at hb0
      cases hb0
      exact Or.inr hheld
    · rcases hlow j b0 (by omega) hb0 with hc | hh
      · exact Or.inl hc
      · exact Or.inr (hkeep b0 hh)

/-- the state after the `lbuf_modified` bump of slot `i` -/
theorem li_bump {ed : Ed} {i : Nat} {b : Buf} (h : LI ed i) (hb : ed.bufs.getD i none = some b) :
    Inv (bumpAt ed i b) ∧ (bumpAt ed i b).bufs.getD i none = some { b with lb := (modified b.lb).2 } ∧
    (∀ j b0, j < i → (bumpAt ed i b).bufs.getD j none = some b0 → Done (bumpAt ed i b) b0) ∧
    (bumpAt ed i b).bufs.length = ed.bufs.length := by
  obtain ⟨hlt, _⟩ := getD_some hb
  refine ⟨inv_bumpAt h.1 hb, getD_set_self _ _ _ hlt, ?_, by simp [bumpAt]⟩
  intro j b0 hj hb0
  simp only [bumpAt] at hb0
  rw [getD_set_ne _ _ _ _ (by omega : i ≠ j)] at hb0
  exact done_bumpAt hb (h.2 j b0 hj hb0)

/-- **the loop of `ec_quit` without `!`**: if it runs through (answers "quit"), every slot is done -/
theorem each_done (cmd : Bytes) (hbang : hasBang cmd = false) (all : Bool) : ∀ (g i : Nat) (ed ed' : Ed),
    LI ed i → ed.bufs.length < i + g → runCmd.each cmd all g i ed = some (false, ed') →
    Inv ed' ∧ ∀ j b, ed'.bufs.getD j none = some b → Done ed' b := by
  intro g
  induction g with
  | zero =>
    intro i ed ed' hli hlen h
    rw [runCmd.each.eq_1] at h
    cases h
    exact li_all hli (by omega)
  | succ g ih =>
    intro i ed ed' hli hlen h
    rw [runCmd.each.eq_2] at h
    split at h
    · rename_i hge
      cases h
      exact li_all hli hge
    · split at h
      · rename_i hnone
        refine ih (i + 1) ed ed' ⟨hli.1, ?_⟩ (by omega) h
        intro j b hj hb
        by_cases hji : j = i
        · subst hji; rw [hnone] at hb; cases hb
        · exact hli.2 j b (by omega) hb
      · rename_i b hb
        simp only [] at h
        cases all with
        | false =>
          simp only [hbang, Bool.not_false, Bool.and_self, if_true, Bool.false_eq_true, if_false] at h
          split at h
          · cases h
          · cases h
          · rename_i ed1 hchk
            have hcase := bufsModified_pass hb hchk
            obtain ⟨hinv2, hslot, hlow, hl2⟩ := li_bump hli hb
            obtain ⟨hli1, hl1⟩ := li_step (ed1 := ed1) hinv2 hslot hlow (by
              rcases hcase with ⟨hc, he⟩ | ⟨_, hs⟩
              · exact Or.inl ⟨(modified_bump_fst b.lb).trans hc, he⟩
              · exact Or.inr hs)
            exact ih (i + 1) ed1 ed' hli1 (by omega) h
        | true =>
          simp only [Bool.not_true, Bool.false_and, Bool.false_eq_true, if_false, if_true] at h
          rw [hb] at h
          simp only [hbang] at h
          split at h
          · cases h
          · cases h
          · rename_i ed1 hs
            obtain ⟨_, hs'⟩ := lbufSaveP_ok _ _ _ _ _ _ _ _ hs
            obtain ⟨hli1, hl1⟩ := li_step (ed1 := ed1) hli.1 hb (fun j b0 hj hb0 => hli.2 j b0 hj hb0) (Or.inr hs')
            exact ih (i + 1) ed1 ed' hli1 (by omega) h

/-! ### the quit flag is set by `ec_quit` alone -/

theorem modifiedAt_xquit (ed : Ed) (idx : Nat) : (ed.modifiedAt idx).2.xquit = ed.xquit := by
  unfold Ed.modifiedAt; split <;> rfl

theorem switch_xquit (ed : Ed) (idx : Nat) : (ed.bufsSwitch idx).xquit = ed.xquit := by
  unfold Ed.bufsSwitch Ed.bufsLoad Ed.bufsSave Ed.setCur
  simp only []
  repeat' split
  all_goals rfl

theorem bufsModified_xquit {ed ed' : Ed} {idx : Nat} {msg : Option Bytes} {r : Bool}
    (hm : bufsModified ed idx msg = some (r, ed')) : ed'.xquit = ed.xquit := by
  unfold bufsModified at hm
  have h1 := modifiedAt_xquit ed idx
  generalize ed.modifiedAt idx = p at hm h1
  obtain ⟨m, ed1⟩ := p
  simp only [] at hm h1
  split at hm
  · cases hm; rfl
  · split at hm
    · cases hm; exact h1
    · split at hm
      · cases hm
      · split at hm
        · split at hm
          · cases hm
          · rename_i hs
            cases hm
            exact ((lbufSave_eff _ _ _ _ _ _ _ _ _ hs).xquit).trans h1
        · cases hm
          split
          · exact h1
          · exact h1

theorem each_xquit (cmd : Bytes) (all : Bool) : ∀ (g i : Nat) (ed ed' : Ed) (r : Bool),
    runCmd.each cmd all g i ed = some (r, ed') → ed'.xquit = ed.xquit := by
  intro g
  induction g with
  | zero => intro i ed ed' r h; rw [runCmd.each.eq_1] at h; cases h; rfl
  | succ g ih =>
    intro i ed ed' r h
    rw [runCmd.each.eq_2] at h
    split at h
    · cases h; rfl
    · split at h
      · exact ih _ _ _ _ h
      · simp only [] at h
        split at h
        · cases h
        · rename_i ed1 hchk
          have h1 : ed1.xquit = ed.xquit := by
            split at hchk
            · exact bufsModified_xquit hchk
            · cases hchk
          cases h
          exact (switch_xquit _ _).trans h1
        · rename_i ed1 hchk
          have h1 : ed1.xquit = ed.xquit := by
            split at hchk
            · exact bufsModified_xquit hchk
            · cases hchk; rfl
          split at h
          · split at h
            · cases h
            · split at h
              · cases h
              · rename_i hs
                have h2 := (lbufSaveP_eff _ _ _ _ _ _ _ _ _ hs).xquit
                cases h
                exact ((switch_xquit _ _).trans h2).trans h1
              · rename_i hs
                have h2 := (lbufSaveP_eff _ _ _ _ _ _ _ _ _ hs).xquit
                exact (ih _ _ _ _ h).trans (h2.trans h1)
          · exact (ih _ _ _ _ h).trans h1

theorem writeFinish_xquit {ed ed' : Ed} {cur : Buf} {path : Bytes} {b e r : Int}
    (hw : writeFinish ed cur path b e = some (r, ed')) : ed'.xquit = ed.xquit := by
  unfold writeFinish at hw
  by_cases hp : cur.path.isEmpty = true
  · simp only [hp, if_true] at hw
    repeat' (split at hw)
    all_goals (cases hw; rfl)
  · simp only [hp, Bool.false_eq_true, if_false] at hw
    repeat' (split at hw)
    all_goals (cases hw; rfl)

theorem pathExpand_xquit {ed ed' : Ed} {src : Bytes} {sp : Bool} {r : Option Bytes}
    (h : pathExpand ed src sp = some (r, ed')) : ed'.xquit = ed.xquit := by
  obtain ⟨h1, h2⟩ := Lemmas.C06b.pathExpand_cases h
  cases r with
  | none => rw [h2 rfl]; rfl
  | some p => rw [h1 rfl]

theorem exRegion_xquit {ed ed' : Ed} {loc : Bytes} {r : Nat × Int × Int} (h : exRegion ed loc = some (r, ed')) :
    ed'.xquit = ed.xquit := by
  obtain ⟨rc, b, e⟩ := r
  obtain ⟨_, _, _, rfl⟩ := (Lemmas.C06.region_all ed loc rc b e ed' h).1
  rfl

theorem unmod_if_xquit (e : Ed) : (if e.xvis = true then { e with unmodelled := true } else e).xquit = e.xquit := by
  split <;> rfl

theorem ecWrite_xquit {ed ed' : Ed} {loc cmd arg : Bytes} {r : Int}
    (hw : ecWrite ed loc cmd arg = some (r, ed')) : ed'.xquit = ed.xquit := by
  unfold ecWrite at hw
  simp only [] at hw
  split at hw
  · cases hw
  · rename_i path ed1 hp
    have h1 : ed1.xquit = ed.xquit := by
      split at hp
      · exact pathExpand_xquit hp
      · cases hp; rfl
    have hxx : ∀ (m : Bool) (ed2 : Ed), (if (List.headD cmd 0 == 120) = true then some (ed1.modifiedAt 0) else some (true, ed1)) = some (m, ed2) → ed2.xquit = ed.xquit := by
      intro m ed2 hx
      split at hx
      · have e := (some_pair_inj (b := (ed1.modifiedAt 0).2) hx).2
        rw [← e]; exact (modifiedAt_xquit _ _).trans h1
      · cases hx; exact h1
    split at hw
    · cases hw
    · rename_i ed2 hx
      cases hw
      exact hxx _ _ hx
    · rename_i ed2 hx
      have h2 := hxx _ _ hx
      split at hw
      · cases hw
      · rename_i rc b e ed3 hr
        have h3 : ed3.xquit = ed.xquit := (exRegion_xquit hr).trans h2
        split at hw
        · cases hw; exact h3
        · split at hw
          · cases hw
          · rename_i cur hcur
            split at hw
            · split at hw
              · cases hw; exact h3
              · cases hw; exact (unmod_if_xquit _).trans h3
            · split at hw
              · cases hw
              · rename_i err ed4 hs
                have h4 := (lbufSaveP_eff _ _ _ _ _ _ _ _ _ hs).xquit
                cases hw
                exact h4.trans h3
              · rename_i ed4 hs
                have hb4 := lbufSaveP_bufs _ _ _ _ _ _ _ _ _ hs
                have h4 := (lbufSaveP_eff _ _ _ _ _ _ _ _ _ hs).xquit
                generalize hE : Ed.show ed4 _ = ed5 at hw
                have hq5 : ed5.xquit = ed4.xquit := by rw [← hE]; rfl
                have hc5 : ed5.cur = some cur := by
                  rw [← hE]
                  show ed4.cur = _
                  rw [cur_congr hb4]; exact hcur
                rw [hc5] at hw
                simp only [] at hw
                exact (writeFinish_xquit hw).trans (hq5.trans (h4.trans h3))

/-! ### the corollary for a quit command without `!` -/

/-- **a quit without `!` that quits leaves nothing unsaved behind**: `:q`, `:wq`, `:x`, `:xa` (any command
    word of `ec_quit` without `!`), from a state satisfying the invariant in which the quit flag is not
    yet set.  If the flag is set afterwards, then every buffer of the table is `SavedAt`: it reports clean
    and its file — if it has one that nobody wrote since the buffer was loaded or written — holds its text;
    or it was written by this very command and its file holds its text byte for byte. -/
theorem quit_saved (f : Nat) (ed ed' : Ed) (loc cmd arg : Bytes) (txt : Option Bytes) (rc : Int)
    (hi : Inv ed) (hbang : hasBang cmd = false) (hq0 : ed.xquit = false)
    (h : runCmd (f + 1) ed "ec_quit" loc cmd arg txt = some (rc, ed')) (hq : ed'.xquit = true) :
    Inv ed' ∧ ∀ j b, ed'.bufs.getD j none = some b → SavedAt ed' b := by
  rw [runCmd_quit] at h
  split at h
  · cases h
  · rename_i rc1 ed1 hw
    have h1 : Inv ed1 ∧ ed1.xquit = false := by
      split at hw
      · exact ⟨ecWrite_inv hi hw, (ecWrite_xquit hw).trans hq0⟩
      · cases hw; exact ⟨hi, hq0⟩
    split at h
    · cases h
      rw [h1.2] at hq; cases hq
    · split at h
      · cases h
      · rename_i ed2 he
        cases h
        rw [each_xquit _ _ _ _ _ _ _ he, h1.2] at hq; cases hq
      · rename_i ed2 he
        cases h
        obtain ⟨hinv2, hdone⟩ := each_done cmd hbang _ _ 0 ed1 ed2 ⟨h1.1, fun j b hj => by omega⟩ (by omega) he
        refine ⟨hinv2.to (by rfl) (by rfl) (by rfl), ?_⟩
        intro j b hb
        exact done_savedAt hinv2 (C20.mem_of_getD _ _ _ hb).1 (hdone j b hb)

end Neatvi.Lemmas.C02d
