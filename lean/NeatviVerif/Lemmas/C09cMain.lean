import NeatviVerif.Lemmas.C09cFirst
/-!
# C09c, part 15: `.` against retyping, on the observable state

`dot_retyped`: the run on `. rest` after `k + 1` iterations and the run on `recorded rest` after `k` iterations end
alike — both stopped, or both in states whose `ed` are related by `EdRel` (equal up to a monotone renumbering of the
sequence numbers): with the mark `^` exempt for `k = 0` (the `.` has set it; the retyped command is about to), with
nothing exempt for `k ≥ 1`.
-/
namespace Neatvi.Lemmas.C09c
open Neatvi Neatvi.Uc Neatvi.Lbuf Neatvi.Ex Neatvi.Vi Neatvi.Mot
open Neatvi.Lemmas.C09b (Inv retype runOk stepOk RelO relO_cases K keyEq_ed)
open Neatvi.Props.C05c (iterate iterate_succ)

theorem nlCount_nil : nlCount [] = 0 := rfl

theorem runOk_succ {k : Nat} {s s' : VS} (h : runOk (k + 1) s = true) (hs : viStep s = Res.ok () s') :
    runOk k s' = true := by
  unfold runOk at h
  rw [hs] at h
  simp only [Bool.and_eq_true] at h
  exact h.2

/-- what the two runs are compared on -/
def DotOut (k : Nat) (o o' : Option VS) : Prop :=
  match o, o' with
  | some a, some b => EdRel true a.ed b.ed ∧ (0 < k → EdRel false a.ed b.ed)
  | none, none => True
  | _, _ => False

/-- **`.` has the same effect as retyping the recorded keys**, up to the sequence numbers of the undo history (and,
right after the `.`, the mark `^`) -/
theorem dot_retyped (s : VS) (rest : Bytes) (k : Nat) (hinv : Inv s) (hv : s.vibuf = [])
    (hd : s.ibuf.length ≤ s.ibufPos) (ht : s.typed = 46 :: rest) (hout : s.ed.out = []) (hq : s.ed.xquit = false)
    (hseq : DotSeqOk s.ed) (hset : DotSettled s rest)
    (hcmd : cmdFirst { s with typed := s.repCmd ++ rest } = true) (hok : runOk (k + 1) s = true) :
    DotOut k (iterate (k + 1) s) (iterate k { s with typed := s.repCmd ++ rest }) := by
  have hout' : nlCount s.ed.out ≤ 1 := by rw [hout]; exact Nat.zero_le _
  have hstep := dot_iter s rest hinv hv hd ht hout' hq
  have hsim := dot_sim s rest (s.repCmd ++ rest) hv hout hseq hset
  cases k with
  | zero =>
    rw [iterate_succ 0 s _ () hstep]
    exact ⟨hsim.ed, fun h => absurd h (Nat.lt_irrefl 0)⟩
  | succ n =>
    obtain ⟨s', h1, -, -, -, -, hrun⟩ := Lemmas.C09b.dot_run s rest hinv hv hd ht hout'
    have e : s' = dotState s rest := by
      rw [hstep] at h1
      cases h1
      rfl
    subst e
    have hr := hrun (n + 1) (runOk_succ hok hstep)
    -- the run from the retyped state after `.` against the run from the retyped state before it
    have hcmd0 : cmdFirst (typedAt s (s.repCmd ++ rest)) = true := by
      rw [← cmdFirst_typed s _ hv hd]; exact hcmd
    have hT : iterate (n + 1) { s with typed := s.repCmd ++ rest } = iterate (n + 1) (typedAt s (s.repCmd ++ rest)) := by
      unfold iterate
      rw [viStep_typed s _ hv hd]
    rw [hT]
    have hmid : ORel (Sim false) (iterate (n + 1) (retype (dotState s rest) (s.repCmd ++ rest)))
        (iterate (n + 1) (typedAt s (s.repCmd ++ rest))) := by
      unfold iterate
      rcases (viStep_weak hsim hcmd0).noEsc_cases with ⟨u, x1, y1, r1, r2, h'⟩ | ⟨r1, r2⟩ | ⟨r1, r2⟩
      · rw [r1, r2]; exact iterate_sim n _ _ h'
      · rw [r1, r2]; trivial
      · rw [r1, r2]; trivial
    rcases relO_cases _ _ hr with ⟨o1, o2⟩ | ⟨a, b', o1, o2, hk⟩
    · rw [o1]
      rw [o2] at hmid
      cases hb : iterate (n + 1) (typedAt s (s.repCmd ++ rest)) with
      | none => trivial
      | some b => rw [hb] at hmid; exact hmid.elim
    · rw [o1]
      rw [o2] at hmid
      cases hb : iterate (n + 1) (typedAt s (s.repCmd ++ rest)) with
      | none => rw [hb] at hmid; exact hmid.elim
      | some b =>
        rw [hb] at hmid
        have hs : Sim false b' b := hmid
        have he : a.ed = b'.ed := keyEq_ed hk.keq
        show EdRel true a.ed b.ed ∧ (0 < n + 1 → EdRel false a.ed b.ed)
        rw [he]
        exact ⟨hs.ed.weaken, fun _ => hs.ed⟩

end Neatvi.Lemmas.C09c
