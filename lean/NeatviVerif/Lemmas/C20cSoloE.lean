import NeatviVerif.Lemmas.C20cLocal
/-!
# C20c lemmas, part 16: a local command does not look at the parked buffers

`runCmd_withTail`: for every ex command other than `:e`, `:b`, `:q`, `:g`, `:@`, running it with the
parked slots replaced by any list `L` (naming the same alternate file) gives the same return value,
the same current buffer, the same view, registers, files, messages, … — and leaves `L` in place.
-/
namespace Neatvi.Lemmas.C20c
open Neatvi Neatvi.Lbuf Neatvi.LbufIo Neatvi.Ex Neatvi.Rset Neatvi.Props.C20 Neatvi.Props.C20b Neatvi.Lemmas.C20b
open Neatvi.Lemmas.ExFrame Neatvi.Lemmas.C02Ex

theorem runCmd_print_withTail (L : List (Option Buf)) (f : Nat) (ed : Ed) (loc cmd arg : Bytes) (txt : Option Bytes) :
    runCmd f (withTail L ed) "ec_print" loc cmd arg txt = tailR L (runCmd f ed "ec_print" loc cmd arg txt) := by
  cases f with
  | zero => rw [runCmd, runCmd]; rfl
  | succ f =>
    rw [runCmd.eq_2, runCmd.eq_2]
    simp only [String.reduceBEq, Bool.false_eq_true, if_false, if_true]
    have hx : (withTail L ed).xrow = ed.xrow := rfl
    rw [hx, withTail_len, exRegion_withTail]
    simp only [tailR_ite]
    split
    · rfl
    · cases exRegion ed loc with
      | none => rfl
      | some p =>
        obtain ⟨⟨rc, b, e⟩, ed1⟩ := p
        simp only [tailR_some, tailR_ite]
        split
        · rfl
        · exact congrArg (fun x : Ed => some ((0 : Int), ({ x with xrow := max b (e - 1), xoff := 0 } : Ed)))
            (foldl_print_withTail L b (List.range (e - b).toNat) ed1)

theorem runCmd_withTail (L : List (Option Buf)) (f : Nat) (ed : Ed) (hA : Alt L ed) (hd : String)
    (loc cmd arg : Bytes) (txt : Option Bytes) (hl : tableHandler hd = false) :
    runCmd (f + 1) (withTail L ed) hd loc cmd arg txt = tailR L (runCmd (f + 1) ed hd loc cmd arg txt) := by
  simp only [tableHandler, Bool.or_eq_false_iff] at hl
  obtain ⟨⟨⟨⟨he, hbuf⟩, hq⟩, hglob⟩, hat⟩ := hl
  by_cases hs : hd = "ec_substitute"
  · subst hs
    exact subst_withTail L f ed loc cmd arg txt
  by_cases hw : hd = "ec_write"
  · subst hw
    rw [runCmd_write, runCmd_write]
    exact ecWrite_withTail L ed hA loc cmd arg
  have hs' : (hd == "ec_substitute") = false := by simpa using hs
  have hw' : (hd == "ec_write") = false := by simpa using hw
  rw [runCmd.eq_2, runCmd.eq_2]
  simp only [he, hbuf, hq, hglob, hat, hs', hw', Bool.false_eq_true, if_false]
  -- ec_insert
  by_cases c : (hd == "ec_insert") = true
  · simp only [c, if_true, exRegion_withTail]
    cases exRegion ed loc with
    | none => rfl
    | some p =>
      obtain ⟨⟨rc, b, e⟩, ed1⟩ := p
      simp only [tailR_some, tailR_ite, withTail_len, withTail_edit]
      by_cases c1 : (rc != 0 && (b != 0 || e != 0)) = true
      · simp only [c1, if_true]
      simp only [c1, Bool.false_eq_true, if_false]
      cases ed1.edit txt (if (cmd.headD 0 == 97) = true then e else b)
          (if (cmd.headD 0 != 99) = true then (if (cmd.headD 0 == 97) = true then e else b) else e) with
      | none => rfl
      | some ed2 => rfl
  have c' : (hd == "ec_insert") = false := by simpa using c
  simp only [c', Bool.false_eq_true, if_false]
  clear c c'
  -- ec_print
  by_cases c : (hd == "ec_print") = true
  · have : hd = "ec_print" := by simpa using c
    subst this
    have h1 := runCmd_print_withTail L (f + 1) ed loc cmd arg txt
    rw [runCmd.eq_2, runCmd.eq_2] at h1
    simp only [String.reduceBEq, Bool.false_eq_true, if_false, if_true] at h1
    simp only [String.reduceBEq, if_true]
    exact h1
  have c' : (hd == "ec_print") = false := by simpa using c
  simp only [c', Bool.false_eq_true, if_false]
  clear c c'
  -- ec_null
  by_cases c : (hd == "ec_null") = true
  · simp only [c, if_true]
    have hv : (withTail L ed).xvis = ed.xvis := rfl
    have hx : (withTail L ed).xrow = ed.xrow := rfl
    rw [hv, hx, withTail_len]
    by_cases c1 : (!ed.xvis) = true
    · simp only [c1, if_true]
      exact runCmd_print_withTail L f { ed with xrow := if ed.xrow + 1 < ed.len then ed.xrow + 1 else ed.xrow } loc cmd arg txt
    simp only [c1, Bool.false_eq_true, if_false, exRegion_withTail]
    cases exRegion ed loc with
    | none => rfl
    | some p =>
      obtain ⟨⟨rc, b, e⟩, ed1⟩ := p
      simp only [tailR_some, tailR_ite]
      rfl
  have c' : (hd == "ec_null") = false := by simpa using c
  simp only [c', Bool.false_eq_true, if_false]
  clear c c'
  -- ec_delete / ec_yank
  by_cases c : (hd == "ec_delete" || hd == "ec_yank") = true
  · simp only [c, if_true, exRegion_withTail]
    cases exRegion ed loc with
    | none => rfl
    | some p =>
      obtain ⟨⟨rc, b, e⟩, ed1⟩ := p
      simp only [tailR_some, tailR_ite, withTail_len, withTail_cp]
      have hr : (withTail L ed1).regs = ed1.regs := rfl
      rw [hr]
      by_cases c1 : (rc != 0 || ed1.len == 0) = true
      · simp only [c1, if_true]
      simp only [c1, Bool.false_eq_true, if_false]
      by_cases c2 : (hd == "ec_yank") = true
      · simp only [c2, if_true]; rfl
      simp only [c2, Bool.false_eq_true, if_false]
      have h3 : ({ withTail L ed1 with regs := ed1.regs.put (regName arg) (ed1.cp b e) 1 } : Ed) =
          withTail L { ed1 with regs := ed1.regs.put (regName arg) (ed1.cp b e) 1 } := rfl
      rw [h3, withTail_edit]
      cases ({ ed1 with regs := ed1.regs.put (regName arg) (ed1.cp b e) 1 } : Ed).edit none b e with
      | none => rfl
      | some ed2 => rfl
  have c' : (hd == "ec_delete" || hd == "ec_yank") = false := by simpa using c
  simp only [c', Bool.false_eq_true, if_false]
  clear c c'
  -- ec_put
  by_cases c : (hd == "ec_put") = true
  · simp only [c, if_true, regGet_withTail]
    cases regGet ed (regName arg) with
    | none => rfl
    | some buf =>
      simp only [exRegion_withTail]
      cases exRegion ed loc with
      | none => rfl
      | some p =>
        obtain ⟨⟨rc, b, e⟩, ed1⟩ := p
        simp only [tailR_some, tailR_ite, withTail_len, withTail_edit]
        by_cases c1 : (rc != 0 && (b != 0 || e != 0)) = true
        · simp only [c1, if_true]
        simp only [c1, Bool.false_eq_true, if_false]
        cases ed1.edit (some buf) e e with
        | none => rfl
        | some ed2 => rfl
  have c' : (hd == "ec_put") = false := by simpa using c
  simp only [c', Bool.false_eq_true, if_false]
  clear c c'
  -- ec_lnum
  by_cases c : (hd == "ec_lnum") = true
  · simp only [c, if_true, exRegion_withTail]
    cases exRegion ed loc with
    | none => rfl
    | some p =>
      obtain ⟨⟨rc, b, e⟩, ed1⟩ := p
      simp only [tailR_some, tailR_ite]
      rfl
  have c' : (hd == "ec_lnum") = false := by simpa using c
  simp only [c', Bool.false_eq_true, if_false]
  clear c c'
  -- ec_undo
  by_cases c : (hd == "ec_undo") = true
  · simp only [c, if_true, withTail_lb]
    cases ed.lb.bind Lbuf.undo with
    | none => rfl
    | some p => simp only [tailR_some, withTail_setLb]
  have c' : (hd == "ec_undo") = false := by simpa using c
  simp only [c', Bool.false_eq_true, if_false]
  clear c c'
  -- ec_redo
  by_cases c : (hd == "ec_redo") = true
  · simp only [c, if_true, withTail_lb]
    cases ed.lb.bind Lbuf.redo with
    | none => rfl
    | some p => simp only [tailR_some, withTail_setLb]
  have c' : (hd == "ec_redo") = false := by simpa using c
  simp only [c', Bool.false_eq_true, if_false]
  clear c c'
  -- ec_mark
  by_cases c : (hd == "ec_mark") = true
  · simp only [c, if_true, exRegion_withTail]
    cases exRegion ed loc with
    | none => rfl
    | some p =>
      obtain ⟨⟨rc, b, e⟩, ed1⟩ := p
      simp only [tailR_some, tailR_ite, withTail_lb]
      by_cases c1 : (rc != 0 || decide (e ≤ b)) = true
      · simp only [c1, if_true]
      simp only [c1, Bool.false_eq_true, if_false]
      cases ed1.lb with
      | none => rfl
      | some lb => simp only [tailR_some, withTail_setLb]
  have c' : (hd == "ec_mark") = false := by simpa using c
  simp only [c', Bool.false_eq_true, if_false]
  clear c c'
  -- ec_rs
  by_cases c : (hd == "ec_rs") = true
  · simp only [c, if_true]; rfl
  have c' : (hd == "ec_rs") = false := by simpa using c
  simp only [c', Bool.false_eq_true, if_false]
  clear c c'
  -- ec_exec
  by_cases c : (hd == "ec_exec") = true
  · simp only [c, if_true]
    have hwa : (withTail L ed).xwa = ed.xwa := rfl
    rw [hwa, guard0_withTail]
    cases hg : (if ed.xwa == 0 then bufsModified ed 0 (some (strOf "buffer modified")) else some (false, ed) : R Bool) with
    | none => rfl
    | some p =>
      obtain ⟨r1, ed1⟩ := p
      have hA1 : Alt L ed1 := hA.loc (loc_guard0 hg)
      cases r1 with
      | true => rfl
      | false =>
        simp only [tailR_some, pathExpand_withTail L ed1 hA1]
        cases pathExpand ed1 arg true with
        | none => rfl
        | some q =>
          obtain ⟨pth, ed2⟩ := q
          cases pth with
          | none => rfl
          | some ecmd =>
            simp only [tailR_some]
            by_cases c1 : loc.isEmpty = true
            · simp only [c1, if_true]; rfl
            simp only [c1, Bool.false_eq_true, if_false, exRegion_withTail]
            cases exRegion ed2 loc with
            | none => rfl
            | some p3 =>
              obtain ⟨⟨rc, b, e⟩, ed3⟩ := p3
              simp only [tailR_some, tailR_ite, withTail_pipe, withTail_cp]
              by_cases c2 : (rc != 0) = true
              · simp only [c2, if_true]
              simp only [c2, Bool.false_eq_true, if_false]
              cases ed3.pipe ecmd (ed3.cp b e) with
              | none => rfl
              | some o =>
                cases o with
                | none => rfl
                | some rep =>
                  simp only [withTail_edit]
                  cases ed3.edit (some rep) b e with
                  | none => rfl
                  | some ed4 => rfl
  have c' : (hd == "ec_exec") = false := by simpa using c
  simp only [c', Bool.false_eq_true, if_false]
  clear c c'
  -- ec_read
  by_cases c : (hd == "ec_read") = true
  · simp only [c, if_true, withTail_len, withTail_cur]
    have hpr : (if (!arg.isEmpty) = true then pathExpand (withTail L ed) arg true
        else some (ed.cur.map (·.path), withTail L ed)) =
        tailR L (if (!arg.isEmpty) = true then pathExpand ed arg true else some (ed.cur.map (·.path), ed)) := by
      split
      · exact pathExpand_withTail L ed hA arg true
      · rfl
    rw [hpr]
    cases (if (!arg.isEmpty) = true then pathExpand ed arg true else some (ed.cur.map (·.path), ed)) with
    | none => rfl
    | some q =>
      obtain ⟨path, ed1⟩ := q
      simp only [tailR_some, exRegion_withTail]
      cases exRegion ed1 loc with
      | none => rfl
      | some p3 =>
        obtain ⟨⟨rc, b, e⟩, ed2⟩ := p3
        simp only [tailR_some, tailR_ite, withTail_pipe, withTail_findFile, withTail_lb]
        rw [withTail_len L ed2]
        by_cases c1 : (rc != 0 || path.isNone) = true
        · simp only [c1, if_true]
        simp only [c1, Bool.false_eq_true, if_false]
        by_cases c2 : ((path.getD []).headD 0 == 33) = true
        · simp only [c2, if_true]
          by_cases c3 : (path.getD []).length < 2
          · simp only [c3, if_true]
          simp only [c3, if_false]
          cases ed2.pipe ((path.getD []).drop 1) [] with
          | none => rfl
          | some obuf =>
            cases obuf with
            | none => rfl
            | some o =>
              simp only [withTail_edit]
              cases ed2.edit (some o) (if (ed2.len != 0) = true then e else 0) (if (ed2.len != 0) = true then e else 0) with
              | none => rfl
              | some ed3 => rfl
        simp only [c2, Bool.false_eq_true, if_false]
        cases ed2.findFile (path.getD []) with
        | none => rfl
        | some fl =>
          simp only []
          cases ed2.lb.bind (fun lb => LbufIo.rd lb [fl.data] false (if (ed2.len != 0) = true then e else 0).toNat
              (if (ed2.len != 0) = true then e else 0).toNat) with
          | none => rfl
          | some r3 =>
            simp only []
            rw [← withTail_setLb]
            rfl
  have c' : (hd == "ec_read") = false := by simpa using c
  simp only [c', Bool.false_eq_true, if_false]
  clear c c'
  -- ec_set
  by_cases c : (hd == "ec_set") = true
  · simp only [c, if_true]
    by_cases c1 : arg.isEmpty = true
    · simp only [c1, if_true]; rfl
    simp only [c1, Bool.false_eq_true, if_false, setOpt_withTail]
    split <;> rfl
  have c' : (hd == "ec_set") = false := by simpa using c
  simp only [c', Bool.false_eq_true, if_false]
  clear c c'
  -- ec_echo and the rest
  by_cases c : (hd == "ec_echo") = true
  · simp only [c, if_true]; rfl
  have c' : (hd == "ec_echo") = false := by simpa using c
  simp only [c', Bool.false_eq_true, if_false]
  rfl

end Neatvi.Lemmas.C20c
