import NeatviVerif.Lemmas.C19gRun
/-!
# C19g helper lemmas, part 5: the sticky column after a horizontal motion

A motion other than `j`, `k`, `|` assigns `xcol = vi_off2col(xrow, xoff)` in the motion branch of
`vi()` (vi.c:1552–1553), *before* `vi_wfix()`; the redraw class of a motion is 0, so the end of the
iteration does not recompute it.  When the target row exists and its line is a buffer line,
`vi_wfix()` changes neither the row nor the offset (`ren_noeol` is idempotent on buffer lines), so at
the next command boundary the sticky column is the column of the cursor character and the offset
is not negative: `run_cursor_on_character` applies to every such iteration.
-/
set_option linter.unusedSimpArgs false
set_option linter.unusedVariables false

namespace Neatvi.Lemmas.C19g
open Neatvi Neatvi.Uc Neatvi.Spec Neatvi.Ren Neatvi.Render Neatvi.Lbuf Neatvi.Ex Neatvi.Mot Neatvi.Vi
open Neatvi.Lemmas.C19f
open Neatvi.Lemmas.C05c (bind_inv)
open Neatvi.Lemmas.C07 (lbText motionTail_eq motionRest motionOff)

/-- `vi_marksave()` leaves `xcol`, `xcols`, `xleft`, `xtd`, `xquit` alone -/
theorem hz_markSave (v : Int × Int × Int × Int × Bool) : Pres (Hz v) markSave := by
  unfold markSave
  pres_tac

/-- the cursor update of a motion other than `j`, `k`, `|`, in closed form -/
theorem motionRest_h (mv nrow noff : Int) (h1 : mv ≠ 106) (h2 : mv ≠ 107) (h3 : mv ≠ 124) (s : VS) :
    ∃ s', motionRest mv nrow noff s = Res.ok (some 0) s' ∧ s'.ed.xrow = nrow ∧
      s'.ed.xoff = noeol s nrow (motionOff s mv nrow noff) ∧ lbText s' = lbText s ∧ s'.ed.xtd = s.ed.xtd ∧
      s'.ed.xquit = s.ed.xquit ∧ s'.xcol = off2col s' s'.ed.xrow s'.ed.xoff := by
  unfold motionRest motionOff
  have b2 : (mv == 124) = false := by simpa using h3
  have jk : (mv == 106 || mv == 107) = false := by simp [h1, h2]
  simp only [b2, jk]
  exact ⟨_, rfl, rfl, rfl, rfl, rfl, rfl, rfl⟩

/-- **after a horizontal motion the sticky column is the column of the cursor character**: a motion
    other than `j`, `k`, `|` to a row `nrow` whose line is a buffer line (its only newline is its last
    byte), followed by the end of the iteration, from a state that is not quitting -/
theorem hmotion_onChar (mv nrow noff : Int) (h1 : mv ≠ 106) (h2 : mv ≠ 107) (h3 : mv ≠ 124) (s s2 s3 : VS)
    (c : Option Nat) (hm : motionTail mv nrow noff s = Res.ok c s2) (hp : viPost c s2 = Res.ok () s3)
    (hq : s.ed.xquit = false) (ln : Bytes) (hln : lineOf s nrow = some ln) (hwf : C07.WfLine ln) :
    s3.xcol = off2col s3 s3.ed.xrow s3.ed.xoff ∧ 0 ≤ s3.ed.xoff ∧ s3.ed.xrow = nrow ∧ s3.ed.xquit = false ∧
    lineOf s3 s3.ed.xrow = some ln := by
  rw [motionTail_eq] at hm
  obtain ⟨u, sa, ha, hb⟩ := bind_inv _ _ _ _ _ hm
  have hka : lbText sa = lbText s ∧ hsnap sa = hsnap s := by
    split at ha
    · exact ⟨(C07.markSaveOpt_run true s u sa (by simpa using ha)).2, hz_frame hz_markSave s u sa ha⟩
    · cases ha; exact ⟨rfl, rfl⟩
  obtain ⟨hta, hsa⟩ := hka
  obtain ⟨_, _, _, hda, hqa⟩ := hsnap_fields hsa
  obtain ⟨s', e0, e1, e2, e3, e4, e5, e6⟩ := motionRest_h mv nrow noff h1 h2 h3 sa
  rw [e0] at hb
  cases hb
  have hq2 : s2.ed.xquit = false := by rw [e5, hqa]; exact hq
  obtain ⟨a1, a2, a3, a4, a5, a6, a7, a8⟩ := (viPost_run 0 s2 s3 hp).2 hq2
  have ht2 : lbText s2 = lbText s := e3.trans hta
  have hln2 : lineOf s2 nrow = some ln := by rw [C07.lineOf_of_lbText ht2]; exact hln
  obtain ⟨r0, r1⟩ := lineOf_some_range s2 nrow ln hln2
  have hrow : Props.C07.wfixRow s2 = nrow := by
    rw [← e1]; exact Props.C07.wfixRow_of_range s2 (by rw [e1]; exact r0) (by rw [e1]; exact r1)
  have hlna : lineOf sa nrow = some ln := by rw [C07.lineOf_of_lbText hta]; exact hln
  have hoff2 : s2.ed.xoff = renNoeol ln (motionOff sa mv nrow noff) := by
    rw [e2]; unfold noeol; rw [hlna]
  have hoff : Props.C07.wfixOff s2 = s2.ed.xoff := by
    unfold Props.C07.wfixOff
    rw [hrow, hln2]
    simp only [Option.getD_some]
    rw [hoff2]
    exact Props.C07.renNoeol_idem_wf ln hwf _
  have hx3 : s3.xcol = s2.xcol := by rw [a7]; rfl
  have h0 : 0 ≤ s2.ed.xoff := by
    rw [e2]; exact C07.noeol_nonneg _ _ _ (C07.motionOff_nonneg _ _ _ _)
  refine ⟨?_, by rw [a6, hoff]; exact h0, by rw [a5, hrow], a1, ?_⟩
  · rw [hx3, e6, a5, a6, hrow, hoff, e1]
    exact (off2col_congr a4 a3 _ _).symm
  · rw [a5, hrow, C07.lineOf_of_lbText a4]; exact hln2

/-- ... for the iteration of a state of a run: the motion `viPre` returns is `mv > 0`, not `j`, `k`, `|`,
    to a row whose line is a buffer line -/
theorem stepVia_hmotion (s s1 s3 : VS) (mv nrow noff : Int) (hpos : 0 < mv) (h1 : mv ≠ 106) (h2 : mv ≠ 107)
    (h3 : mv ≠ 124) (hq : s.ed.xquit = false)
    (hpre : viPre s = Res.ok (mv, nrow, noff) s1) (h : viStep s = Res.ok () s3)
    (ln : Bytes) (hln : lineOf s nrow = some ln) (hwf : C07.WfLine ln) :
    StepVia s s3 (some 0) ∧ s3.xcol = off2col s3 s3.ed.xrow s3.ed.xoff ∧ 0 ≤ s3.ed.xoff ∧ s3.ed.xrow = nrow ∧
    s3.ed.xquit = false ∧ lineOf s3 s3.ed.xrow = some ln := by
  rw [C07.viStep_of_pre s s1 mv nrow noff hpre] at h
  obtain ⟨cont, s2, hcont, hpost⟩ := bind_inv _ _ _ _ _ h
  have hcont' := hcont
  unfold C07.stepCont at hcont
  rw [if_pos hpos] at hcont
  have hc0 := (C07.motionTail_run mv nrow noff s1 cont s2 hcont).1
  obtain ⟨f1, f2, f3, f4, f5, f6⟩ := viPre_frame s s1 _ hpre
  obtain ⟨k1, k2, k3, k4, k5⟩ := hmotion_onChar mv nrow noff h1 h2 h3 s1 s2 s3 cont hcont hpost (by rw [f6]; exact hq)
    ln (by rw [f1]; exact hln) hwf
  subst hc0
  exact ⟨⟨(mv, nrow, noff), s1, s2, hpre, hcont', hpost⟩, k1, k2, k3, k4, k5⟩

end Neatvi.Lemmas.C19g
