import NeatviVerif.Lemmas.C05eR2
/-!
# C05e lemmas, part R3: the matcher never traps — the VM, `regexec`, `rset_find`, the literal fast path, `rstr_find`
-/
namespace Neatvi.Lemmas.C05e
open Neatvi Neatvi.Uc Neatvi.Regex Neatvi.Rset Neatvi.Props.C11

/-- on a well-formed program the VM does not trap from a position inside the subject -/
theorem loop_no_trap_in (cx : Ctx) (hwf : WfProg cx.prog) :
    ∀ dep pc, pc < cx.prog.length → ∀ pos m cuts, pos ≤ cx.subj.length → loop cx dep pc pos m cuts ≠ Res.trap := by
  apply loop_induction cx (fun dep pc =>
    pc < cx.prog.length → ∀ pos m cuts, pos ≤ cx.subj.length → loop cx dep pc pos m cuts ≠ Res.trap)
  intro dep pc ihd ihp hpc pos m cuts hpos
  obtain ⟨inst, hi⟩ : ∃ inst, cx.prog[pc]? = some inst := ⟨_, List.getElem?_eq_getElem hpc⟩
  have hw := hwf pc inst hi
  cases inst with
  | atom a =>
    simp only [EdgeOk] at hw
    rw [loop_atom cx hi]
    split
    · intro h; cases h
    · rename_i heq; exact absurd heq (atomMatch_no_trap a cx.subj cx.flg pos hpos)
    · rename_i pos' heq
      have := atomMatch_range_aux a cx.subj cx.flg pos pos' hpos heq
      exact ihp (pc + 1) (by omega) hpc hw _ _ _ this.2
  | mark k =>
    simp only [EdgeOk] at hw
    rw [loop_mark cx hi]
    exact ihp (pc + 1) (by omega) hpc hw _ _ _ hpos
  | jump a =>
    simp only [EdgeOk] at hw
    rw [loop_jump cx hi, if_pos hw.1]
    exact ihp a hw.1 hpc hw.2 _ _ _ hpos
  | fork a1 a2 =>
    simp only [EdgeOk] at hw
    rw [loop_fork cx hi]
    split
    · intro h; cases h
    · rename_i heq
      rw [act_eq] at heq
      split at heq
      · cases heq
      · exact absurd heq (ihd a1 (by omega) hw.1 _ _ _ hpos)
    · rw [if_pos hw.2.1]
      exact ihp a2 hw.2.1 hpc hw.2.2 _ _ _ hpos
  | mtch =>
    rw [loop_mtch cx hi]
    intro h; cases h

theorem recmatch_no_trap (cx : Ctx) (hwf : WfProg cx.prog) (hne : 0 < cx.prog.length) (start cuts : Nat)
    (hs : start ≤ cx.subj.length) : recmatch cx start cuts ≠ Res.trap := by
  unfold recmatch
  rw [act_eq]
  split
  · intro h; cases h
  · exact loop_no_trap_in cx hwf _ _ hne _ _ _ hs

theorem execLoop_no_trap (cx : Ctx) (hwf : WfProg cx.prog) (hne : 0 < cx.prog.length) :
    ∀ (f start cuts : Nat), start ≤ cx.subj.length → execLoop cx f start cuts ≠ ExecRes.trap := by
  intro f
  induction f with
  | zero => intro start cuts _; rw [execLoop]; intro h; cases h
  | succ f ih =>
    intro start cuts hs
    rw [execLoop]
    obtain ⟨b, hb, _, _⟩ := rdb_some cx.subj start hs
    rw [hb]
    dsimp only
    have hr := recmatch_no_trap cx hwf hne start cuts hs
    cases hrm : recmatch cx start cuts with
    | ok p m c => intro h; cases h
    | trap => exact absurd hrm hr
    | fail c =>
      dsimp only
      split
      · intro h; cases h
      · exact ih _ _ (rxLen_in cx.subj start hs)

theorem regexec_no_trap {pat : Bytes} {flg : Nat} {p : Prog} (hc : regcomp pat flg = some (some p))
    (subj : Bytes) (nsub eflg nd ngrps : Nat) : (regexec p subj nsub eflg nd ngrps).1 ≠ ExecRes.trap := by
  have hwf := Neatvi.Props.C11.regcomp_wf pat flg p hc
  have hne : 0 < p.code.length := by
    unfold regcomp at hc
    split at hc
    · cases hc
    · cases hc
    · split at hc
      · cases hc
      · cases hc; simp
  unfold regexec
  dsimp only
  split
  · intro h; cases h
  · have := execLoop_no_trap ⟨p.code, subj, p.flg ||| eflg, nd, ngrps⟩ hwf hne (subj.length + 2) 0 0 (Nat.zero_le _)
    cases he : execLoop ⟨p.code, subj, p.flg ||| eflg, nd, ngrps⟩ (subj.length + 2) 0 0 with
    | trap => exact absurd he this
    | _ => intro h; cases h

theorem literalLoop_some (rs : RStr) (lit s : Bytes) : ∀ (f : Nat) (r e : Int), ∃ x, literalLoop rs lit s f r e = some x := by
  intro f
  induction f with
  | zero => intro r e; exact ⟨_, rfl⟩
  | succ f ih =>
    intro r e
    rw [literalLoop]
    dsimp only
    split
    · exact ⟨_, rfl⟩
    · split
      · exact ih _ _
      · split
        · exact ih _ _
        · split
          · exact ⟨_, rfl⟩
          · exact ih _ _


/-- what `rstr_make` returns: the literal fast path, or the program compiled from `((pat))` -/
theorem rstrMake_cases' {pat : Bytes} {flg : Nat} {re : RStr} (h : rstrMake pat flg = some (some re)) :
    re.rs = none ∨ ∃ r cflg, re.rs = some r ∧ regcomp (combined [some pat]) cflg = some (some r.prog) ∧
      r.n = 1 ∧ r.grp = [2, ((3 + groupCount pat : Nat) : Int)] ∧ r.setgrpcnt = [groupCount pat] ∧ r.grpcnt = 3 + groupCount pat := by
  unfold rstrMake at h
  dsimp only at h
  split at h
  · cases h; exact Or.inl rfl
  · unfold Rset.make at h
    simp only [List.foldl_cons, List.foldl_nil] at h
    cases hreg : regcomp (combined [some pat]) (1 ||| if (flg &&& RE_ICASE != 0) = true then REG_ICASE else 0) with
    | none => rw [hreg] at h; cases h
    | some o =>
      cases o with
      | none => rw [hreg] at h; cases h
      | some p =>
        rw [hreg] at h
        cases h
        refine Or.inr ⟨_, _, rfl, hreg, rfl, ?_, rfl, ?_⟩
        · simp
        · show 2 + 1 + groupCount pat = _; omega

/-- **`rstr_find` never traps** on what `rstr_make` made -/
theorem rstrFind_total {pat : Bytes} {flg : Nat} {re : RStr} (h : rstrMake pat flg = some (some re))
    (s : Bytes) (n fl nd ngrps : Nat) : ∃ x, rstrFind re s n fl nd ngrps = some x := by
  unfold rstrFind
  rcases rstrMake_cases' h with hrs | ⟨r, cflg, hrs, hc, _⟩
  · rw [hrs]
    dsimp only
    split
    · exact ⟨_, rfl⟩
    · split
      · exact ⟨_, rfl⟩
      · obtain ⟨x, hx⟩ := literalLoop_some re (re.str.getD []) s (s.length + 2)
          (if re.lend = true then (s.length : Int) - (re.str.getD []).length - 1 else 0)
          (if re.lbeg = true then 0 else (s.length : Int) - (re.str.getD []).length - 1)
        rw [hx]
        cases x <;> exact ⟨_, rfl⟩
  · rw [hrs]
    dsimp only
    unfold Rset.find
    split
    · exact ⟨_, rfl⟩
    · have hnt := regexec_no_trap hc s r.grpcnt
        (REG_NEWLINE ||| (if (fl &&& RE_NOTBOL != 0) = true then REG_NOTBOL else 0) |||
          (if (fl &&& RE_NOTEOL != 0) = true then REG_NOTEOL else 0)) nd ngrps
      dsimp only
      generalize regexec r.prog s r.grpcnt
        (REG_NEWLINE ||| (if (fl &&& RE_NOTBOL != 0) = true then REG_NOTBOL else 0) |||
          (if (fl &&& RE_NOTEOL != 0) = true then REG_NOTEOL else 0)) nd ngrps = q at hnt
      obtain ⟨res, subs⟩ := q
      cases res with
      | trap => exact absurd rfl hnt
      | found m c =>
        dsimp only
        split <;> exact ⟨_, rfl⟩
      | _ => exact ⟨_, rfl⟩

end Neatvi.Lemmas.C05e
