import NeatviVerif.Lemmas.C08fMotion
/-!
# C08f: motions and `opRegion` on one row whose line is `encStr (body ++ [10])`
-/
set_option linter.unusedSimpArgs false
set_option linter.unusedVariables false
namespace Neatvi.Lemmas.C08f
open Neatvi Neatvi.Uc Neatvi.Vi Neatvi.Ex Neatvi.Lbuf Neatvi.Mot Neatvi.Spec Neatvi.Lemmas.C08 Neatvi.Lemmas.C09 Neatvi.Lemmas.C08b

theorem lineAt_of_get (ls : Lines) (r : Int) (l : Bytes) (h0 : 0 ≤ r) (h : ls[r.toNat]? = some l) : lineAt ls r = some l := by
  unfold lineAt; rw [if_neg (by omega), h]

theorem slenAt_line (ls : Lines) (r : Int) (body : List Nat) (h0 : 0 ≤ r) (hb : ∀ c ∈ body, ValidCp c)
    (hline : ls[r.toNat]? = some (encStr (body ++ [10]))) : slenAt ls r = ((body.length + 1 : Nat) : Int) := by
  unfold slenAt
  rw [lineAt_of_get ls r _ h0 hline]
  simp only [Props.C16.slen_spec (valid_snoc_ten hb), List.length_append, List.length_singleton]

/-- `SPC` with count `c` from offset `o ≤ |body|`: `c` characters to the right, at most to the newline -/
theorem repeatMove_spc (ls : Lines) (r : Int) (body : List Nat) (h0 : 0 ≤ r) (hb : ∀ c ∈ body, ValidCp c)
    (hline : ls[r.toNat]? = some (encStr (body ++ [10]))) :
    ∀ (c o : Nat), o ≤ body.length →
      repeatMove (stepSpc ls) c r (o : Int) = (r, ((min (o + c) body.length : Nat) : Int)) := by
  have hs := slenAt_line ls r body h0 hb hline
  have hl := lineAt_of_get ls r _ h0 hline
  intro c
  induction c with
  | zero => intro o ho; simp [repeatMove]; omega
  | succ c ih =>
    intro o ho
    unfold repeatMove
    by_cases hlt : o < body.length
    · have : stepSpc ls r (o : Int) = some (r, ((o + 1 : Nat) : Int)) := by
        unfold stepSpc
        rw [hs, hl]
        rw [if_neg (by simp; omega)]
        simp
      rw [this]
      simp only []
      rw [ih (o + 1) (by omega)]
      congr 2
      omega
    · have : stepSpc ls r (o : Int) = none := by
        unfold stepSpc
        rw [hs, hl]
        rw [if_pos (by simp; omega)]
      rw [this]
      simp only []
      congr 2
      omega

/-- `BS` with count `c` from offset `o ≤ |body|`: `c` characters to the left, at most to the first -/
theorem repeatMove_bs (ls : Lines) (r : Int) (body : List Nat) (h0 : 0 ≤ r) (hb : ∀ c ∈ body, ValidCp c)
    (hline : ls[r.toNat]? = some (encStr (body ++ [10]))) :
    ∀ (c o : Nat), o ≤ body.length →
      repeatMove (stepBs ls) c r (o : Int) = (r, ((o - c : Nat) : Int)) := by
  have hs := slenAt_line ls r body h0 hb hline
  have hl := lineAt_of_get ls r _ h0 hline
  intro c
  induction c with
  | zero => intro o ho; simp [repeatMove]
  | succ c ih =>
    intro o ho
    unfold repeatMove
    by_cases hlt : 0 < o
    · have : stepBs ls r (o : Int) = some (r, ((o - 1 : Nat) : Int)) := by
        unfold stepBs
        rw [hs, hl]
        rw [if_neg (by simp; omega)]
        simp; omega
      rw [this]
      simp only []
      rw [ih (o - 1) (by omega)]
      congr 2
      omega
    · have : stepBs ls r (o : Int) = none := by
        unfold stepBs
        rw [hs, hl]
        rw [if_pos (by simp; omega)]
      rw [this]
      simp only []
      congr 2
      omega

/-- on a character of the line `ren_noeol` keeps the offset -/
theorem noeol_line (s : VS) (r : Int) (body : List Nat) (o : Nat) (h0 : 0 ≤ r) (hb : ∀ c ∈ body, ValidCp c)
    (hb10 : 10 ∉ body) (hline : (lines s)[r.toNat]? = some (encStr (body ++ [10]))) (ho : o < body.length) :
    noeol s r (o : Int) = (o : Int) := by
  unfold noeol
  rw [lineOf_of_get s r _ h0 hline]
  exact renNoeol_body body hb hb10 o ho

/-- the reference span between the cursor `o` and the target `t` on a line of `len` characters:
`[min o t, max o t)`, and one more character for an inclusive motion unless the end is the newline -/
def span (incl : Bool) (o t len : Nat) : Nat × Nat :=
  (min o t, if incl && decide (max o t < len) then max o t + 1 else max o t)

/-- `opRegion` on the row: the reference span -/
theorem opRegion_span (s : VS) (mv r : Int) (body : List Nat) (o t : Nat) (h0 : 0 ≤ r)
    (hb : ∀ c ∈ body, ValidCp c) (hb10 : 10 ∉ body) (hline : (lines s)[r.toNat]? = some (encStr (body ++ [10])))
    (ho : o < body.length) (ht : t ≤ body.length) :
    opRegion s mv r (o : Int) r (t : Int) =
      (r, (((span (inclusive s mv) o t body.length).1 : Nat) : Int), r,
        (((span (inclusive s mv) o t body.length).2 : Nat) : Int), false) := by
  rw [opRegion_row s mv r o t (by omega)]
  have e1 : min (o : Int) (t : Int) = ((min o t : Nat) : Int) := by omega
  have e2 : max (o : Int) (t : Int) = ((max o t : Nat) : Int) := by omega
  have he : eol (lines s) r = (body.length : Int) := eol_line s r body h0 hb hline
  rw [e1, e2, he, noeol_line s r body (min o t) h0 hb hb10 hline (by omega)]
  unfold span
  simp only []
  by_cases hi : (inclusive s mv && decide (max o t < body.length)) = true
  · have hi' : (inclusive s mv && decide (((max o t : Nat) : Int) < (body.length : Int))) = true := by
      simp only [Bool.and_eq_true, decide_eq_true_eq] at hi ⊢
      exact ⟨hi.1, by omega⟩
    rw [if_pos hi, if_pos hi']
    simp only [Bool.and_eq_true, decide_eq_true_eq] at hi
    rw [noeol_line s r body (max o t) h0 hb hb10 hline hi.2]
    simp
  · have hi' : ¬ (inclusive s mv && decide (((max o t : Nat) : Int) < (body.length : Int))) = true := by
      simp only [Bool.and_eq_true, decide_eq_true_eq] at hi ⊢
      intro h; exact hi ⟨h.1, by omega⟩
    rw [if_neg hi, if_neg hi']

/-! ### which motions are inclusive -/

theorem strHas_incl : strHas "fteE%" 32 = false ∧ strHas "fteE%" 8 = false ∧ strHas "fteE%" 36 = false ∧
    strHas "fteE%" 48 = false ∧ strHas "fteE%" 119 = false ∧ strHas "fteE%" 101 = true ∧
    strHas "fteE%" 102 = true ∧ strHas "fteE%" 116 = true ∧ strHas "fteE%" 69 = true ∧ strHas "fteE%" 37 = true ∧
    strHas "fteE%" 70 = false ∧ strHas "fteE%" 84 = false ∧ strHas "fteE%" 104 = false ∧ strHas "fteE%" 108 = false ∧
    strHas "fteE%" 98 = false ∧ strHas "fteE%" 87 = false := by
  decide +kernel

/-- `SPC BS $ 0 w W b h l F T` are exclusive -/
theorem inclusive_false (s : VS) (mv : Int)
    (h : mv = 32 ∨ mv = 8 ∨ mv = 36 ∨ mv = 48 ∨ mv = 119 ∨ mv = 70 ∨ mv = 84 ∨ mv = 104 ∨ mv = 108 ∨ mv = 98 ∨ mv = 87) :
    inclusive s mv = false := by
  obtain ⟨a1, a2, a3, a4, a5, _, _, _, _, _, a6, a7, a8, a9, a10, a11⟩ := strHas_incl
  unfold inclusive
  rcases h with rfl | rfl | rfl | rfl | rfl | rfl | rfl | rfl | rfl | rfl | rfl
  · rw [a1]; rfl
  · rw [a2]; rfl
  · rw [a3]; rfl
  · rw [a4]; rfl
  · rw [a5]; rfl
  · rw [a6]; rfl
  · rw [a7]; rfl
  · rw [a8]; rfl
  · rw [a9]; rfl
  · rw [a10]; rfl
  · rw [a11]; rfl

/-- `e E f t %` are inclusive -/
theorem inclusive_true (s : VS) (mv : Int) (h : mv = 101 ∨ mv = 102 ∨ mv = 116 ∨ mv = 69 ∨ mv = 37) :
    inclusive s mv = true := by
  obtain ⟨_, _, _, _, _, a1, a2, a3, a4, a5, _⟩ := strHas_incl
  unfold inclusive
  rcases h with rfl | rfl | rfl | rfl | rfl
  · rw [a1]; rfl
  · rw [a2]; rfl
  · rw [a3]; rfl
  · rw [a4]; rfl
  · rw [a5]; rfl

theorem span_excl (o t len : Nat) : span false o t len = (min o t, max o t) := rfl

theorem span_incl (o t len : Nat) (h : max o t < len) : span true o t len = (min o t, max o t + 1) := by
  unfold span
  simp [h]

end Neatvi.Lemmas.C08f
