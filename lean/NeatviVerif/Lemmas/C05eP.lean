import NeatviVerif.Lemmas.C05eE
/-!
# C05e lemmas, part P: the handlers that act on the current buffer never add a `:g` mark

`RetM ed x`: the call returns, in a safe state at the same `:@` depth, and no line of the current buffer carries a
mark it did not carry before (`MLe`, for every depth at once).  This is what makes the scan of `:g` end: every round
clears a mark and the command list it runs adds none.  Proved for every handler that neither changes the current
buffer (`:e`, `:b`, `:q`) nor runs a command line (`:@`, `:g`).
-/
namespace Neatvi.Lemmas.C05e
open Neatvi Neatvi.Lbuf Neatvi.LbufIo Neatvi.Ex Neatvi.Rset
open Neatvi.Lemmas.ExFrame Neatvi.Lemmas.C02Ex Neatvi.Lemmas.C02b Neatvi.Lemmas.C06

def RetM {α : Type} (ed : Ed) (x : R α) : Prop :=
  ∃ r ed', x = some (r, ed') ∧ Safe ed' ∧ ed'.atDepth = ed.atDepth ∧ MLe ed ed'

theorem RetM.mk {α : Type} {r : α} {ed ed' : Ed} (h : Safe ed') (hd : ed'.atDepth = ed.atDepth) (hm : MLe ed ed') :
    RetM ed (some (r, ed')) := ⟨r, ed', rfl, h, hd, hm⟩

theorem RetM.ret {α : Type} {ed : Ed} {x : R α} (h : RetM ed x) : Ret ed.atDepth x := by
  obtain ⟨r, ed', he, hs, hd, _⟩ := h
  exact ⟨r, ed', he, hs, hd⟩

/-- from another start state with the same current buffer -/
theorem RetM.from {α : Type} {ed ed0 : Ed} {x : R α} (h : RetM ed0 x) (hd : ed0.atDepth = ed.atDepth) (hm : MLe ed ed0) :
    RetM ed x := by
  obtain ⟨r, ed', he, hs, hd', hm'⟩ := h
  exact ⟨r, ed', he, hs, hd'.trans hd, hm.trans hm'⟩

/-! ### the handlers of part B -/

theorem run_insert_m (hre : ReSafe) (f : Nat) {ed : Ed} (h : Safe ed) (loc cmd arg : Bytes) (txt : Option Bytes)
    (hloc : 0 ∉ loc) : RetM ed (runCmd (f + 1) ed "ec_insert" loc cmd arg txt) := by
  rw [runCmd]
  simp (config := {decide := true}) only [if_false, if_true]
  obtain ⟨rc, b, e, ed1, hr, h1, hd1, hrc, hin, h00⟩ := region_cases hre h loc hloc
  have hm1 : MLe ed ed1 := region_mle hr
  rw [hr]
  dsimp only
  split
  · exact RetM.mk h1 hd1 hm1
  · rename_i hc
    have hbe : 0 ≤ b ∧ b ≤ e := by
      rcases hrc with h0 | h1'
      · exact ⟨(hin h0).1, (hin h0).2.1⟩
      · subst h1'
        simp at hc
        omega
    obtain ⟨ed2, he, h2, hd2⟩ := edit_total' h1 txt (if (List.headD cmd 0 == 97) = true then e else b)
      (if (List.headD cmd 0 != 99) = true then if (List.headD cmd 0 == 97) = true then e else b else e)
      (by split <;> omega) (by repeat' split <;> omega)
    rw [he]
    exact RetM.mk (h2.of_bufs rfl) (by dep) (hm1.trans ((edit_mle he).trans (MLe.of_bufs rfl)))

theorem run_print_m (hre : ReSafe) (f : Nat) {ed : Ed} (h : Safe ed) (loc cmd arg : Bytes) (txt : Option Bytes)
    (hloc : 0 ∉ loc) : RetM ed (runCmd (f + 1) ed "ec_print" loc cmd arg txt) := by
  rw [runCmd]
  simp (config := {decide := true}) only [if_false, if_true]
  split
  · exact RetM.mk h rfl (MLe.refl _)
  · obtain ⟨rc, b, e, ed1, hr, h1, hd1, _⟩ := region_cases hre h loc hloc
    have hm1 : MLe ed ed1 := region_mle hr
    rw [hr]
    dsimp only
    split
    · exact RetM.mk h1 hd1 hm1
    · have hf := foldl_safe' (fun s : Ed => Safe s ∧ s.atDepth = ed.atDepth ∧ MLe ed s)
        (fun (ed : Ed) (k : Nat) => match ed.line (b + (k : Int)) with | some l => ed.print l | none => ed) ?_
        (List.range (e - b).toNat) ed1 ⟨h1, hd1, hm1⟩
      · exact RetM.mk (hf.1.of_bufs rfl) hf.2.1 (hf.2.2.trans (MLe.of_bufs rfl))
      intro s a hs
      split
      · exact ⟨hs.1.print _, hs.2.1, hs.2.2.trans (MLe.of_bufs rfl)⟩
      · exact hs

theorem run_null_m (hre : ReSafe) (f : Nat) {ed : Ed} (h : Safe ed) (loc cmd arg : Bytes) (txt : Option Bytes)
    (hloc : 0 ∉ loc) : RetM ed (runCmd (f + 2) ed "ec_null" loc cmd arg txt) := by
  rw [runCmd]
  simp (config := {decide := true}) only [if_false, if_true]
  split
  · refine RetM.from (run_print_m hre f ?_ loc cmd arg txt hloc) rfl (MLe.of_bufs rfl)
    exact h.of_bufs rfl
  · obtain ⟨rc, b, e, ed1, hr, h1, hd1, _⟩ := region_cases hre h loc hloc
    have hm1 : MLe ed ed1 := region_mle hr
    rw [hr]
    dsimp only
    split
    · exact RetM.mk h1 hd1 hm1
    · exact RetM.mk (h1.of_bufs rfl) (by dep) (hm1.trans (MLe.of_bufs rfl))

theorem run_delete_m (hre : ReSafe) (f : Nat) {ed : Ed} (h : Safe ed) (loc cmd arg : Bytes) (txt : Option Bytes)
    (hloc : 0 ∉ loc) : RetM ed (runCmd (f + 1) ed "ec_delete" loc cmd arg txt) := by
  rw [runCmd]
  simp (config := {decide := true}) only [if_false, if_true]
  obtain ⟨rc, b, e, ed1, hr, h1, hd1, hrc, hin, h00⟩ := region_cases hre h loc hloc
  have hm1 : MLe ed ed1 := region_mle hr
  rw [hr]
  dsimp only
  split
  · exact RetM.mk h1 hd1 hm1
  · rename_i hc
    have h0 : rc = 0 := by
      rcases hrc with h0 | h1'
      · exact h0
      · subst h1'; simp at hc
    obtain ⟨ed2, he, h2, hd2⟩ := edit_total' (ed := { ed1 with regs := ed1.regs.put (regName arg) (ed1.cp b e) 1 }) (h1.of_bufs rfl)
      none b e (hin h0).1 (hin h0).2.1
    rw [he]
    exact RetM.mk (h2.of_bufs rfl) (by dep) (hm1.trans ((MLe.of_bufs rfl).trans ((edit_mle he).trans (MLe.of_bufs rfl))))

theorem run_yank_m (hre : ReSafe) (f : Nat) {ed : Ed} (h : Safe ed) (loc cmd arg : Bytes) (txt : Option Bytes)
    (hloc : 0 ∉ loc) : RetM ed (runCmd (f + 1) ed "ec_yank" loc cmd arg txt) := by
  rw [runCmd]
  simp (config := {decide := true}) only [if_false, if_true]
  obtain ⟨rc, b, e, ed1, hr, h1, hd1, _⟩ := region_cases hre h loc hloc
  have hm1 : MLe ed ed1 := region_mle hr
  rw [hr]
  dsimp only
  split
  · exact RetM.mk h1 hd1 hm1
  · exact RetM.mk (h1.of_bufs rfl) (by dep) (hm1.trans (MLe.of_bufs rfl))

theorem run_put_m (hre : ReSafe) (f : Nat) {ed : Ed} (h : Safe ed) (loc cmd arg : Bytes) (txt : Option Bytes)
    (hloc : 0 ∉ loc) : RetM ed (runCmd (f + 1) ed "ec_put" loc cmd arg txt) := by
  rw [runCmd]
  simp (config := {decide := true}) only [if_false, if_true]
  split
  · exact RetM.mk h rfl (MLe.refl _)
  · rename_i buf _
    obtain ⟨rc, b, e, ed1, hr, h1, hd1, hrc, hin, h00⟩ := region_cases hre h loc hloc
    have hm1 : MLe ed ed1 := region_mle hr
    rw [hr]
    dsimp only
    split
    · exact RetM.mk h1 hd1 hm1
    · rename_i hc
      have he0 : 0 ≤ e := by
        rcases hrc with h0 | h1'
        · have := hin h0; omega
        · subst h1'; simp at hc; omega
      obtain ⟨ed2, he, h2, hd2⟩ := edit_total' h1 (some buf) e e he0 (Int.le_refl _)
      rw [he]
      exact RetM.mk (h2.of_bufs rfl) (by dep) (hm1.trans ((edit_mle he).trans (MLe.of_bufs rfl)))

theorem run_lnum_m (hre : ReSafe) (f : Nat) {ed : Ed} (h : Safe ed) (loc cmd arg : Bytes) (txt : Option Bytes)
    (hloc : 0 ∉ loc) : RetM ed (runCmd (f + 1) ed "ec_lnum" loc cmd arg txt) := by
  rw [runCmd]
  simp (config := {decide := true}) only [if_false, if_true]
  obtain ⟨rc, b, e, ed1, hr, h1, hd1, _⟩ := region_cases hre h loc hloc
  have hm1 : MLe ed ed1 := region_mle hr
  rw [hr]
  dsimp only
  split
  · exact RetM.mk h1 hd1 hm1
  · exact RetM.mk (h1.print _) (by dep) (hm1.trans (MLe.of_bufs rfl))

theorem run_undo_m (f : Nat) {ed : Ed} (h : Safe ed) (loc cmd arg : Bytes) (txt : Option Bytes) :
    RetM ed (runCmd (f + 1) ed "ec_undo" loc cmd arg txt) := by
  rw [runCmd]
  simp (config := {decide := true}) only [if_false, if_true]
  obtain ⟨lb, hl, hg⟩ := h.lb
  obtain ⟨rc, lb', hu⟩ := undo_total hg
  rw [hl]
  simp only [Option.bind_some, hu]
  exact RetM.mk (h.setLb (hg.undo hu)) (by dep) (MLe.setLb hl (undo_gle hu))

theorem run_redo_m (f : Nat) {ed : Ed} (h : Safe ed) (loc cmd arg : Bytes) (txt : Option Bytes) :
    RetM ed (runCmd (f + 1) ed "ec_redo" loc cmd arg txt) := by
  rw [runCmd]
  simp (config := {decide := true}) only [if_false, if_true]
  obtain ⟨lb, hl, hg⟩ := h.lb
  obtain ⟨rc, lb', hu⟩ := redo_total hg
  rw [hl]
  simp only [Option.bind_some, hu]
  exact RetM.mk (h.setLb (hg.redo hu)) (by dep) (MLe.setLb hl (redo_gle hu))

theorem run_mark_m (hre : ReSafe) (f : Nat) {ed : Ed} (h : Safe ed) (loc cmd arg : Bytes) (txt : Option Bytes)
    (hloc : 0 ∉ loc) : RetM ed (runCmd (f + 1) ed "ec_mark" loc cmd arg txt) := by
  rw [runCmd]
  simp (config := {decide := true}) only [if_false, if_true]
  obtain ⟨rc, b, e, ed1, hr, h1, hd1, _⟩ := region_cases hre h loc hloc
  have hm1 : MLe ed ed1 := region_mle hr
  rw [hr]
  dsimp only
  split
  · exact RetM.mk h1 hd1 hm1
  · obtain ⟨lb, hl, hg⟩ := h1.lb
    rw [hl]
    exact RetM.mk (h1.setLb (hg.setMark _ _ _)) (by dep) (hm1.trans (MLe.setLb_same hl (setMark_glob' _ _ _ _)))

theorem run_rs_m (f : Nat) {ed : Ed} (h : Safe ed) (loc cmd arg : Bytes) (txt : Option Bytes) :
    RetM ed (runCmd (f + 1) ed "ec_rs" loc cmd arg txt) := by
  rw [runCmd]
  simp (config := {decide := true}) only [if_false, if_true]
  exact RetM.mk (h.of_bufs rfl) (by dep) (MLe.of_bufs rfl)

theorem run_set_m (f : Nat) {ed : Ed} (h : Safe ed) (loc cmd arg : Bytes) (txt : Option Bytes) :
    RetM ed (runCmd (f + 1) ed "ec_set" loc cmd arg txt) := by
  rw [runCmd]
  simp (config := {decide := true}) only [if_false, if_true]
  split
  · exact RetM.mk h rfl (MLe.refl _)
  · split
    · exact RetM.mk (h.of_bufs (setOpt_bufs _ _ _) (setOpt_xkwd _ _ _)) (by dep) (MLe.of_bufs (setOpt_bufs _ _ _))
    · exact RetM.mk (h.show _) (by dep) (MLe.of_bufs rfl)

theorem run_echo_m (f : Nat) {ed : Ed} (h : Safe ed) (loc cmd arg : Bytes) (txt : Option Bytes) :
    RetM ed (runCmd (f + 1) ed "ec_echo" loc cmd arg txt) := by
  rw [runCmd]
  simp (config := {decide := true}) only [if_false, if_true]
  exact RetM.mk (h.print _) (by dep) (MLe.of_bufs rfl)


/-! ### the unsaved-changes guard, `lbuf_save`, the handlers of part C and `:s` -/

theorem markCnt_set_slot (ed : Ed) (idx : Nat) (b b' : Buf) (hb : ed.bufs.getD idx none = some b) (hg : b'.lb.glob = b.lb.glob)
    (dep : Nat) : markCnt dep { ed with bufs := ed.bufs.set idx (some b') } = markCnt dep ed := by
  unfold markCnt Ed.lb Ed.cur
  dsimp only
  by_cases h0 : idx = 0
  · subst h0
    rw [getD_set_self _ _ _ (getD_some hb).1, hb]
    simp only [Option.map_some]
    rw [hg]
  · rw [getD_set_ne _ _ _ _ h0]

theorem modifiedAt_mle (ed : Ed) (idx : Nat) : MLe ed (ed.modifiedAt idx).2 := by
  intro dep
  unfold Ed.modifiedAt
  cases hb : ed.bufs.getD idx none with
  | none => exact Nat.le_refl _
  | some b =>
    dsimp only
    rw [markCnt_set_slot ed idx b { b with lb := (modified b.lb).2 } hb rfl dep]
    exact Nat.le_refl _

theorem bufsModified_mle {ed ed' : Ed} {idx : Nat} {msg : Option Bytes} {r : Bool}
    (hm : bufsModified ed idx msg = some (r, ed')) : MLe ed ed' := by
  unfold bufsModified at hm
  have h1 := modifiedAt_mle ed idx
  generalize ed.modifiedAt idx = p at hm h1
  obtain ⟨m, ed1⟩ := p
  simp only [] at hm h1
  split at hm
  · cases hm; exact MLe.refl _
  · split at hm
    · cases hm; exact h1
    · split at hm
      · cases hm
      · split at hm
        · split at hm
          · cases hm
          · rename_i hs
            cases hm
            exact h1.trans (MLe.of_bufs (lbufSave_bufs _ _ _ _ _ _ _ _ _ hs))
        · cases hm
          split
          · exact h1.trans (MLe.of_bufs rfl)
          · exact h1

theorem guard_mle {ed ed' : Ed} {c : Prop} [Decidable c] {idx : Nat} {msg : Option Bytes} {r : Bool}
    (h : (if c then bufsModified ed idx msg else some (false, ed) : R Bool) = some (r, ed')) : MLe ed ed' := by
  split at h
  · exact bufsModified_mle h
  · cases h; exact MLe.refl _

theorem MLe.setCur {ed : Ed} {cur b : Buf} (hc : ed.cur = some cur) (hg : b.lb.glob = cur.lb.glob) : MLe ed (ed.setCur b) := by
  intro dep
  have := markCnt_set_slot ed 0 cur b hc hg dep
  unfold Ed.setCur
  rw [this]
  exact Nat.le_refl _

theorem run_exec_m (hre : ReSafe) (f : Nat) {ed : Ed} (h : Safe ed) (loc cmd arg : Bytes) (txt : Option Bytes)
    (hloc : 0 ∉ loc) (hp : PathFits ed arg true) : RetM ed (runCmd (f + 1) ed "ec_exec" loc cmd arg txt) := by
  rw [runCmd]
  simp (config := {decide := true}) only [if_false, if_true]
  obtain ⟨g, ed1, hg, h1, hq, hd1⟩ := guard_total h ((ed.xwa == 0) = true) 0 (some (strOf "buffer modified"))
  have hm1 : MLe ed ed1 := guard_mle hg
  rw [hg]
  cases g with
  | true => exact RetM.mk h1 hd1 hm1
  | false =>
    dsimp only
    obtain ⟨path, ed2, he, h2, hb2, hd2⟩ := pathExpand_cases h1 (hp.congr hq)
    have hm2 : MLe ed ed2 := hm1.trans (MLe.of_bufs hb2)
    rw [he]
    cases path with
    | none => exact RetM.mk h2 (by dep) hm2
    | some ecmd =>
      dsimp only
      split
      · exact RetM.mk (h2.of_bufs rfl) (by dep) (hm2.trans (MLe.of_bufs rfl))
      · obtain ⟨rc, b, e, ed3, hr, h3, hd3, hrc, hin, _⟩ := region_cases hre h2 loc hloc
        have hm3 : MLe ed ed3 := hm2.trans (region_mle hr)
        rw [hr]
        dsimp only
        split
        · exact RetM.mk h3 (by dep) hm3
        · rename_i hc
          have h0 : rc = 0 := by
            rcases hrc with h0 | h1'
            · exact h0
            · subst h1'; simp at hc
          split
          · exact RetM.mk (h3.of_bufs rfl) (by dep) (hm3.trans (MLe.of_bufs rfl))
          · exact RetM.mk h3 (by dep) hm3
          · rename_i rep _
            obtain ⟨ed4, he4, h4, hd4⟩ := edit_total' h3 (some rep) b e (hin h0).1 (hin h0).2.1
            rw [he4]
            exact RetM.mk h4 (by dep) (hm3.trans (edit_mle he4))


theorem run_read_m (hre : ReSafe) (f : Nat) {ed : Ed} (h : Safe ed) (loc cmd arg : Bytes) (txt : Option Bytes)
    (hloc : 0 ∉ loc) (hp : PathFits ed arg true) : RetM ed (runCmd (f + 1) ed "ec_read" loc cmd arg txt) := by
  rw [runCmd]
  simp (config := {decide := true}) only [if_false, if_true]
  have hpr : ∃ path ed1, (if (!arg.isEmpty) = true then pathExpand ed arg true else some (ed.cur.map (·.path), ed)) = some (path, ed1) ∧
      Safe ed1 ∧ ed1.atDepth = ed.atDepth ∧ MLe ed ed1 := by
    split
    · obtain ⟨path, ed1, he, h1, hb1, hd1⟩ := pathExpand_cases h hp
      exact ⟨path, ed1, he, h1, hd1, MLe.of_bufs hb1⟩
    · exact ⟨_, _, rfl, h, rfl, MLe.refl _⟩
  obtain ⟨path, ed1, hpe, h1, hd1, hm1⟩ := hpr
  rw [hpe]
  dsimp only
  obtain ⟨rc, b, e, ed2, hr, h2, hd2, hrc, hin, _⟩ := region_cases hre h1 loc hloc
  have hm2 : MLe ed ed2 := hm1.trans (region_mle hr)
  rw [hr]
  dsimp only
  split
  · exact RetM.mk h2 (by dep) hm2
  · rename_i hc
    have h0 : rc = 0 := by
      rcases hrc with h0 | h1'
      · exact h0
      · subst h1'; simp at hc
    have hpos : 0 ≤ (if (ed2.len != 0) = true then e else 0) := by
      split
      · have := hin h0; omega
      · omega
    split
    · split
      · exact RetM.mk h2 (by dep) hm2
      · split
        · exact RetM.mk (h2.of_bufs rfl) (by dep) (hm2.trans (MLe.of_bufs rfl))
        · rename_i obuf _
          cases obuf with
          | none => exact RetM.mk (h2.of_bufs rfl) (by dep) (hm2.trans (MLe.of_bufs rfl))
          | some o =>
            dsimp only
            obtain ⟨ed3, he3, h3, hd3⟩ := edit_total' h2 (some o) _ _ hpos (Int.le_refl _)
            rw [he3]
            exact RetM.mk (h3.of_bufs rfl) (by dep) (hm2.trans ((edit_mle he3).trans (MLe.of_bufs rfl)))
    · split
      · exact RetM.mk (h2.show _) (by dep) (hm2.trans (MLe.of_bufs rfl))
      · rename_i fl _
        obtain ⟨lb, hl, hg⟩ := h2.lb
        rw [hl]
        simp only [Option.bind_some]
        obtain ⟨rc', lb', hrd⟩ := rd_total lb [fl.data] false (if (ed2.len != 0) = true then e else 0).toNat
          (if (ed2.len != 0) = true then e else 0).toNat (Nat.le_refl _)
        rw [hrd]
        exact RetM.mk ((h2.setLb (hg.rd hrd)).of_bufs rfl) (by dep)
          (hm2.trans ((MLe.setLb hl (rd_gle hrd)).trans (MLe.of_bufs rfl)))

theorem ecWrite_m (hre : ReSafe) {ed : Ed} (h : Safe ed) (loc cmd arg : Bytes) (hloc : 0 ∉ loc)
    (hp : PathFits ed arg true) : RetM ed (ecWrite ed loc cmd arg) := by
  unfold ecWrite
  dsimp only
  have hpr : ∃ path ed1, (if (!arg.isEmpty) = true then pathExpand ed arg true else some (ed.cur.map (·.path), ed)) = some (path, ed1) ∧
      Safe ed1 ∧ ed1.atDepth = ed.atDepth ∧ MLe ed ed1 := by
    split
    · obtain ⟨path, ed1, he, h1, hb1, hd1⟩ := pathExpand_cases h hp
      exact ⟨path, ed1, he, h1, hd1, MLe.of_bufs hb1⟩
    · exact ⟨_, _, rfl, h, rfl, MLe.refl _⟩
  obtain ⟨path, ed1, hpe, h1, hd1, hm1⟩ := hpr
  rw [hpe]
  dsimp only
  have hx : ∃ m ed2, (if (cmd.headD 0 == 120) = true then some (ed1.modifiedAt 0) else some (true, ed1)) = some (m, ed2) ∧ Safe ed2 ∧
      ed2.atDepth = ed1.atDepth ∧ MLe ed1 ed2 := by
    split
    · exact ⟨_, _, rfl, h1.paths (edInv_modifiedAt 0 h1.inv) (modifiedAt_pathsEq ed1 0) (modifiedAt_xkwd ed1 0), modifiedAt_atDepth ed1 0,
        modifiedAt_mle ed1 0⟩
    · exact ⟨_, _, rfl, h1, rfl, MLe.refl _⟩
  obtain ⟨m, ed2, hxe, h2, hd2, hm12⟩ := hx
  have hm2 : MLe ed ed2 := hm1.trans hm12
  rw [hxe]
  cases m with
  | false => exact RetM.mk h2 (by dep) hm2
  | true =>
    dsimp only
    obtain ⟨rc, b, e, ed3, hr, h3, hd3, hrc, hin, _⟩ := region_cases hre h2 loc hloc
    have hm3 : MLe ed ed3 := hm2.trans (region_mle hr)
    rw [hr]
    dsimp only
    split
    · exact RetM.mk h3 (by dep) hm3
    · rename_i hc
      have h0 : rc = 0 := by
        rcases hrc with h0 | h1'
        · exact h0
        · subst h1'; simp at hc
      have hbe : ∃ b' e' : Int, (if loc.isEmpty = true then ((0 : Int), ed3.len) else (b, e)) = (b', e') ∧ 0 ≤ b' ∧ b' ≤ e' ∧ e' ≤ ed3.len := by
        split
        · exact ⟨_, _, rfl, by omega, len_nonneg _, Int.le_refl _⟩
        · exact ⟨_, _, rfl, (hin h0).1, (hin h0).2.1, (hin h0).2.2⟩
      obtain ⟨b', e', hbe, hb0, hb1, hb2⟩ := hbe
      rw [hbe]
      dsimp only
      cases hcur : ed3.cur with
      | none => have := h3.cur; rw [hcur] at this; cases this
      | some cur =>
        dsimp only
        have hgc : GoodLb cur.lb := edInv_cur h3.inv hcur
        split
        · split
          · exact RetM.mk h3 (by dep) hm3
          · refine RetM.mk ?_ ?_ ?_
            · split
              · exact h3.of_bufs rfl
              · exact h3.show _
            · split <;> dep
            · split
              · exact hm3.trans (MLe.of_bufs rfl)
              · exact hm3.trans (MLe.of_bufs rfl)
        · have hlen : ed3.len = cur.lb.lines.length := by simp [Ed.len, Ed.lb, hcur]
          obtain ⟨r, ed4, hs⟩ := lbufSaveP_total ed3 cur.lb b'.toNat e' (path.getD []) (hasBang cmd)
            (if (cur.path == path.getD []) = true then cur.mtime else 0) (Or.inr (by omega))
          rw [hs]
          have hb4 := lbufSaveP_bufs _ _ _ _ _ _ _ _ _ hs
          have h4 : Safe ed4 := h3.of_bufs hb4 (lbufSaveP_ioFr _ _ _ _ _ _ _ _ _ hs).xkwd
          have hd4 : ed4.atDepth = ed3.atDepth := (lbufSaveP_ioFr _ _ _ _ _ _ _ _ _ hs).atDepth
          have hm4 : MLe ed ed4 := hm3.trans (MLe.of_bufs hb4)
          cases r with
          | some err => exact RetM.mk (h4.show _) (by dep) (hm4.trans (MLe.of_bufs rfl))
          | none =>
            dsimp only
            have hc4 : (ed4.show ([34] ++ path.getD [] ++ strOf "\"  [=" ++ intStr (e' - b') ++ strOf "]  [w]")).cur = some cur := by
              rw [← hcur]; exact cur_congr hb4
            rw [hc4]
            dsimp only
            generalize hE : Ed.show ed4 _ = ed5 at hc4 ⊢
            have h5 : Safe ed5 := by rw [← hE]; exact h4.show _
            have hd5 : ed5.atDepth = ed4.atDepth := by rw [← hE]; rfl
            have hm5 : MLe ed ed5 := by rw [← hE]; exact hm4.trans (MLe.of_bufs rfl)
            generalize hX : (if cur.path.isEmpty = true then _ else (cur, ed5) : Buf × Ed) = X
            have hX1 : X.1.lb = cur.lb := by rw [← hX]; split <;> rfl
            have hX2 : Safe X.2 := by rw [← hX]; split <;> first | exact h5 | exact h5.of_bufs rfl
            have hX3 : X.2.atDepth = ed5.atDepth := by rw [← hX]; split <;> rfl
            have hX4 : X.2.bufs = ed5.bufs := by rw [← hX]; split <;> rfl
            obtain ⟨c3, ed6⟩ := X
            simp only [] at hX1 hX2 hX3 hX4 ⊢
            have hc6 : ed6.cur = some cur := by rw [cur_congr hX4]; exact hc4
            have hm6 : MLe ed ed6 := hm5.trans (MLe.of_bufs hX4)
            repeat' split
            all_goals
              refine RetM.mk (hX2.setCur ?_) (by dep) (hm6.trans (MLe.setCur hc6 ?_))
              · first
                  | (show GoodLb (modified (savedCore c3.lb false)).2; rw [hX1]; exact hgc.savedBump false)
                  | (show GoodLb (unsavedMark c3.lb); rw [hX1]; exact hgc.partialWrite)
                  | (rw [hX1]; exact hgc)
              · first
                  | (show (modified (savedCore c3.lb false)).2.glob = cur.lb.glob; rw [hX1]; rfl)
                  | (show (unsavedMark c3.lb).glob = cur.lb.glob; rw [hX1]; rfl)
                  | (rw [hX1])

theorem run_write_m (hre : ReSafe) (f : Nat) {ed : Ed} (h : Safe ed) (loc cmd arg : Bytes) (txt : Option Bytes)
    (hloc : 0 ∉ loc) (hp : PathFits ed arg true) : RetM ed (runCmd (f + 1) ed "ec_write" loc cmd arg txt) := by
  rw [runCmd]
  simp (config := {decide := true}) only [if_false, if_true]
  exact ecWrite_m hre h loc cmd arg hloc hp


theorem sLoop_mle (re : RStr) (g : Bool) (b : Int) : ∀ (n : Nat) (ed : Ed) (p : Ed × Int),
    sLoop re g b n ed = some p → MLe ed p.1 := by
  intro n
  induction n with
  | zero => intro ed p h; cases h; exact MLe.refl _
  | succ n ih =>
    intro ed p h
    rw [sLoop_succ] at h
    cases hm : sLoop re g b n ed with
    | none => rw [hm] at h; cases h
    | some em =>
      rw [hm] at h
      have hm' := ih _ _ hm
      obtain ⟨e0, sh⟩ := em
      unfold sStep at h
      simp only [] at h
      repeat' (split at h)
      all_goals (first | cases h | skip)
      · exact hm'
      · rename_i he
        exact hm'.trans (edit_mle he)

theorem run_subst_m (hre : ReSafe) (hgr : ReGroups) (f : Nat) {ed : Ed} (h : Safe ed) (loc cmd arg : Bytes) (txt : Option Bytes)
    (hloc : 0 ∉ loc) (harg : 0 ∉ arg) : RetM ed (runCmd (f + 1) ed "ec_substitute" loc cmd arg txt) := by
  obtain ⟨r, ed', he, hs, hd⟩ := run_subst hre hgr f h loc cmd arg txt hloc harg
  refine ⟨r, ed', he, hs, hd, ?_⟩
  rw [runCmd_subst_eq'] at he
  cases hr : exRegion ed loc with
  | none => rw [hr] at he; cases he
  | some x =>
    obtain ⟨⟨rc, b, e⟩, ed1⟩ := x
    rw [hr] at he
    dsimp only at he
    have hm1 : MLe ed ed1 := region_mle hr
    have hm2 : MLe ed (sPrep ed1 arg).1 := hm1.trans (MLe.of_bufs (sPrep_bufs ed1 arg))
    split at he
    · cases he; exact hm1
    · split at he
      · cases he; exact hm2
      · split at he
        · cases he
        · cases he; exact hm2
        · split at he
          · cases he
          · rename_i ed2 sh hl
            cases he
            exact hm2.trans (sLoop_mle _ _ _ _ _ _ hl)

end Neatvi.Lemmas.C05e
