import NeatviVerif.Lemmas.C08bInput
/-!
# C08 (insert mode): `vc_insert` — the part after the prefix and the rest of the line are cut out
-/
namespace Neatvi.Lemmas.C08b
open Neatvi Neatvi.Uc Neatvi.Vi Neatvi.Ex Neatvi.Spec Neatvi.Lemmas.C08 Neatvi.Lemmas.C09

/-! ### `lbuf_edit` on the vi state -/

theorem lb_of_line (s : VS) (k : Nat) (L : Bytes) (h : (Vi.lines s)[k]? = some L) : ∃ lb : Lbuf.Lb, s.ed.lb = some lb := by
  unfold Vi.lines at h
  cases hlb : s.ed.lb with
  | none => rw [hlb] at h; simp at h
  | some lb => exact ⟨lb, rfl⟩

/-- `lbuf_edit(xb, rep, b, e)` on a state with a buffer, `0 ≤ b ≤ e ≤ len`: never traps, replaces the
rows `b..e-1` by the lines of `rep`, changes nothing but the buffer table -/
theorem edEdit_spec (s : VS) (rep : Bytes) (b e : Int) (lb : Lbuf.Lb) (hlb : s.ed.lb = some lb)
    (hb : 0 ≤ b) (hbe : b ≤ e) (he : e ≤ lenOf s) :
    ∃ ed', edEdit (some rep) b e s = Res.ok () { s with ed := ed' } ∧
      Lemmas.C06.lines ed' = (Vi.lines s).take b.toNat ++ Lbuf.splitLines rep ++ (Vi.lines s).drop e.toNat ∧
      ed' = { s.ed with bufs := ed'.bufs } := by
  obtain ⟨ed', hed⟩ := Lemmas.C06.ed_edit_total s.ed lb (some rep) b e hlb hb hbe
  refine ⟨ed', by rw [edEdit_apply, hed], ?_, Lemmas.C06.edit_fields _ _ _ _ _ hed⟩
  exact (Lemmas.C06.ed_edit_frame s.ed ed' (some rep) b e hb hbe (by rw [← lenOf_eq]; exact he) hed).1

/-! ### what `Reads` keeps -/

theorem Reads.ed {ins : Bool} {used : Bytes} {s s' : VS} (h : Reads ins used s s') :
    s'.ed = { s.ed with xleft := s'.ed.xleft } := by
  obtain ⟨ib, ip, ty, xl, rfl, -⟩ := h; rfl

theorem Reads.lines {ins : Bool} {used : Bytes} {s s' : VS} (h : Reads ins used s s') : Vi.lines s' = Vi.lines s := by
  obtain ⟨ib, ip, ty, xl, rfl, -⟩ := h; rfl

theorem Reads.lb {ins : Bool} {used : Bytes} {s s' : VS} (h : Reads ins used s s') : s'.ed.lb = s.ed.lb := by
  obtain ⟨ib, ip, ty, xl, rfl, -⟩ := h; rfl

theorem Reads.xrow {ins : Bool} {used : Bytes} {s s' : VS} (h : Reads ins used s s') : s'.ed.xrow = s.ed.xrow := by
  obtain ⟨ib, ip, ty, xl, rfl, -⟩ := h; rfl

/-- the state after a command that read the keys `used` and otherwise changed only the editor record -/
def ReadsEd (used : Bytes) (s s' : VS) : Prop :=
  ∃ ib ip ty, s' = { s with ibuf := ib, ibufPos := ip, typed := ty, icmd := icmdAfterL s.icmd used, ed := s'.ed }

theorem Reads.readsEd {ins : Bool} {used : Bytes} {s s' : VS} (h : Reads ins used s s') : ReadsEd used s s' := by
  obtain ⟨ib, ip, ty, xl, rfl, -⟩ := h
  exact ⟨ib, ip, ty, rfl⟩

theorem ReadsEd.withEd {used : Bytes} {s s' : VS} (h : ReadsEd used s s') (ed : Ed) :
    ReadsEd used s { s' with ed := ed } := by
  obtain ⟨ib, ip, ty, hs⟩ := h
  refine ⟨ib, ip, ty, ?_⟩
  rw [hs]

theorem ReadsEd.of_ed {used : Bytes} {s0 s s' : VS} (h : ReadsEd used s s') (h0 : ∃ ed, s = { s0 with ed := ed }) :
    ReadsEd used s0 s' := by
  obtain ⟨ib, ip, ty, hs⟩ := h
  obtain ⟨ed, rfl⟩ := h0
  refine ⟨ib, ip, ty, ?_⟩
  rw [hs]

/-! ### the tail of `vc_insert` for `i a I A` -/

/-- `vc_insert` after the cursor was settled and `pref`, `post` were cut out of the line (`i a I A`) -/
def insertTail (pref post : Bytes) : M Nat := do
  let (rep, row, off') ← viInput pref post
  let s ← Vi.get
  let beg := s.ed.xrow - row + 1
  edEdit (some rep) beg (beg + 1)
  setOff off'
  pure VC_OK

/-- what the insertion commands establish -/
structure Inserted (used : Bytes) (s s' : VS) (r : Int) (newLines : List Bytes) (delRows : Nat) (row off : Int) : Prop where
  lines : Vi.lines s' = (Vi.lines s).take r.toNat ++ newLines ++ (Vi.lines s).drop (r.toNat + delRows)
  xrow : s'.ed.xrow = row
  xoff : s'.ed.xoff = off
  regs : s'.ed.regs = s.ed.regs
  frame : ReadsEd used s s'

theorem wfLine_enc_snoc {qs' : List Nat} {xs : List Nat} (h1 : 10 ∉ xs) (h2 : 10 ∉ qs') :
    Props.C01.WfLine (encStr (xs ++ (qs' ++ [10]))) := by
  rw [← List.append_assoc]
  exact wfLine_enc (by
    intro hm
    rcases List.mem_append.mp hm with hm | hm
    · exact h1 hm
    · exact h2 hm)

theorem insertTail_spec (ps qs' cs : List Nat) (s : VS) (K rest : Bytes) (L : Bytes)
    (hr0 : 0 ≤ s.ed.xrow) (hline : (Vi.lines s)[s.ed.xrow.toNat]? = some L)
    (hps : ∀ c ∈ ps, ValidCp c) (hqs : ∀ c ∈ qs', ValidCp c) (hps10 : 10 ∉ ps) (hqs10 : 10 ∉ qs')
    (hin : Inputs K cs) (hp : pending s = K ++ rest) (hpl : ∀ c ∈ cs, ValidCp c) (h10 : 10 ∉ cs)
    (hk : s.xkmap = 0)
    (hkeep : keepAi (encStr ps) (encStr (qs' ++ [10])) (encStr cs) = true) :
    ∃ s', insertTail (encStr ps) (encStr (qs' ++ [10])) s = Res.ok VC_OK s' ∧ pending s' = rest ∧
      Inserted K s s' s.ed.xrow [encStr (ps ++ cs ++ (qs' ++ [10]))] 1 s.ed.xrow
        (if ((ps.length + cs.length : Nat) : Int) - 1 < 0 then 0 else ((ps.length + cs.length : Nat) : Int) - 1) := by
  have hqv : ∀ c ∈ qs' ++ [10], ValidCp c := by
    intro c hc
    rcases List.mem_append.mp hc with hc | hc
    · exact hqs c hc
    · simp at hc; subst hc; decide
  obtain ⟨s1, h1, h2, h3⟩ := viInput_single_line_aux ps (qs' ++ [10]) s K cs rest hps hqv hps10 hin hp hpl h10 hk hkeep
  have hnl : nlCount (encStr (qs' ++ [10])) = 1 := by
    rw [encStr_append, nlCount_append, nlCount_encStr hqs10]; rfl
  rw [hnl] at h1
  obtain ⟨offv, hoffv⟩ : ∃ x : Int, x = (if ((ps.length + cs.length : Nat) : Int) - 1 < 0 then 0 else ((ps.length + cs.length : Nat) : Int) - 1) := ⟨_, rfl⟩
  rw [← hoffv] at h1 ⊢
  obtain ⟨lb, hlb⟩ := lb_of_line s _ L hline
  have hrlt : s.ed.xrow.toNat < (Vi.lines s).length := (List.getElem?_eq_some_iff.mp hline).1
  have hbeg : s1.ed.xrow - ((1 : Nat) : Int) + 1 = s.ed.xrow := by rw [h3.xrow]; omega
  obtain ⟨ed', he1, he2, he3⟩ := edEdit_spec s1 (encStr (ps ++ cs ++ (qs' ++ [10]))) s.ed.xrow (s.ed.xrow + 1) lb
    (by rw [h3.lb]; exact hlb) hr0 (by omega) (by unfold lenOf; rw [h3.lines]; omega)
  refine ⟨{ s1 with ed := { ed' with xoff := offv } }, ?_, ?_, ?_⟩
  · unfold insertTail
    simp only [bind_apply, h1, get_apply, hbeg, he1, setOff_apply, pure_apply]
  · show pending { s1 with ed := _ } = rest
    exact h2
  · refine ⟨?_, ?_, rfl, ?_, ?_⟩
    · show Lemmas.C06.lines { ed' with xoff := _ } = _
      have : Lemmas.C06.lines { ed' with xoff := offv } = Lemmas.C06.lines ed' := rfl
      rw [this, he2, h3.lines, splitLines_wf _ (by
        exact wfLine_enc_snoc (by
          intro hm
          rcases List.mem_append.mp hm with hm | hm
          · exact hps10 hm
          · exact h10 hm) hqs10)]
      rw [show (s.ed.xrow + 1).toNat = s.ed.xrow.toNat + 1 by omega]
    · show ed'.xrow = s.ed.xrow
      rw [he3]; exact h3.xrow
    · show ed'.regs = s.ed.regs
      rw [he3, h3.ed]
    · exact (h3.readsEd).withEd _

/-! ### `vc_insert` for `i a I A` is the cut and `insertTail` -/

macro "vc_insert_red" hl:ident hpref:ident hpost:ident : tactic => `(tactic| (
  unfold vcInsert insertTail
  simp only [bind_apply, get_apply, $hl:ident, setOff_apply, pure_apply,
    show ((105 : Nat) == 73) = false from rfl, show ((105 : Nat) == 65) = false from rfl,
    show ((105 : Nat) == 111) = false from rfl, show ((105 : Nat) == 105) = true from rfl,
    show ((105 : Nat) == 79) = false from rfl, show ((105 : Nat) == 97) = false from rfl,
    show ((97 : Nat) == 73) = false from rfl, show ((97 : Nat) == 65) = false from rfl,
    show ((97 : Nat) == 111) = false from rfl, show ((97 : Nat) == 105) = false from rfl,
    show ((97 : Nat) == 79) = false from rfl, show ((97 : Nat) == 97) = true from rfl,
    show ((73 : Nat) == 73) = true from rfl, show ((73 : Nat) == 65) = false from rfl,
    show ((73 : Nat) == 111) = false from rfl, show ((73 : Nat) == 105) = false from rfl,
    show ((73 : Nat) == 79) = false from rfl, show ((73 : Nat) == 97) = false from rfl,
    show ((65 : Nat) == 73) = false from rfl, show ((65 : Nat) == 65) = true from rfl,
    show ((65 : Nat) == 111) = false from rfl, show ((65 : Nat) == 105) = false from rfl,
    show ((65 : Nat) == 79) = false from rfl, show ((65 : Nat) == 97) = false from rfl,
    Bool.false_eq_true, if_false, if_true, Bool.or_false, Bool.true_or, Bool.or_true, Bool.not_false, Bool.or_self]
  rw [$hpref:ident]
  simp only [liftO_some]
  rw [$hpost:ident]
  simp only [liftO_some, Bool.false_and, Bool.false_eq_true, if_false, bind_apply, get_apply, setOff_apply, pure_apply]
  ))

theorem vcInsert_i_red (s : VS) (l pref post : Bytes) (hl : lineOf s s.ed.xrow = some l)
    (hpref : subI l 0 (if l.headD 0 == 10 then 0 else Ren.renNoeol l s.ed.xoff) = some pref)
    (hpost : subI l (if l.headD 0 == 10 then 0 else Ren.renNoeol l s.ed.xoff) (-1) = some post) :
    vcInsert 105 s = insertTail pref post { s with ed := { s.ed with xoff := Ren.renNoeol l s.ed.xoff } } := by
  vc_insert_red hl hpref hpost

theorem vcInsert_a_red (s : VS) (l pref post : Bytes) (hl : lineOf s s.ed.xrow = some l)
    (hpref : subI l 0 (if l.headD 0 == 10 then 0 else Ren.renNoeol l s.ed.xoff + 1) = some pref)
    (hpost : subI l (if l.headD 0 == 10 then 0 else Ren.renNoeol l s.ed.xoff + 1) (-1) = some post) :
    vcInsert 97 s = insertTail pref post { s with ed := { s.ed with xoff := Ren.renNoeol l s.ed.xoff } } := by
  vc_insert_red hl hpref hpost

theorem vcInsert_I_red (s : VS) (l pref post : Bytes) (hl : lineOf s s.ed.xrow = some l)
    (hpref : subI l 0 (if l.headD 0 == 10 then 0 else Ren.renNoeol l (Mot.indents (lines s) s.ed.xrow)) = some pref)
    (hpost : subI l (if l.headD 0 == 10 then 0 else Ren.renNoeol l (Mot.indents (lines s) s.ed.xrow)) (-1) = some post) :
    vcInsert 73 s = insertTail pref post { s with ed := { s.ed with xoff := Ren.renNoeol l (Mot.indents (lines s) s.ed.xrow) } } := by
  vc_insert_red hl hpref hpost

theorem vcInsert_A_red (s : VS) (l pref post : Bytes) (hl : lineOf s s.ed.xrow = some l)
    (hpref : subI l 0 (if l.headD 0 == 10 then 0 else Ren.renNoeol l (Mot.eol (lines s) s.ed.xrow) + 1) = some pref)
    (hpost : subI l (if l.headD 0 == 10 then 0 else Ren.renNoeol l (Mot.eol (lines s) s.ed.xrow) + 1) (-1) = some post) :
    vcInsert 65 s = insertTail pref post { s with ed := { s.ed with xoff := Ren.renNoeol l (Mot.eol (lines s) s.ed.xrow) } } := by
  vc_insert_red hl hpref hpost

/-! ### lines of valid UTF-8 -/

theorem lineOf_of_get (s : VS) (r : Int) (l : Bytes) (h0 : 0 ≤ r) (h : (Vi.lines s)[r.toNat]? = some l) :
    lineOf s r = some l := by
  unfold lineOf Mot.lineAt
  rw [if_neg (by omega), h]

theorem valid_snoc_ten {body : List Nat} (h : ∀ c ∈ body, ValidCp c) : ∀ c ∈ body ++ [10], ValidCp c := by
  intro c hc
  rcases List.mem_append.mp hc with hc | hc
  · exact h c hc
  · simp at hc; subst hc; decide

/-- the head and the tail of a line at character offset `off ≤ |body|` -/
theorem subI_line (body : List Nat) (hb : ∀ c ∈ body, ValidCp c) (off : Nat) (hoff : off ≤ body.length) :
    subI (encStr (body ++ [10])) 0 (off : Int) = some (encStr (body.take off)) ∧
    subI (encStr (body ++ [10])) (off : Int) (-1) = some (encStr (body.drop off ++ [10])) := by
  have hv := valid_snoc_ten hb
  constructor
  · rw [subI_enc_head hv off (by simp; omega), List.take_append_of_le_length hoff]
  · rw [subI_enc_tail hv off (by simp; omega), List.drop_append_of_le_length hoff]

/-- the first byte of a non-empty line body is not the newline -/
theorem headD_line_ne_ten (c : Nat) (t : List Nat) (h10 : 10 ∉ c :: t) :
    ((encStr (c :: t ++ [10])).headD 0 == 10) = false := by
  have hc : c ≠ 10 := fun h => h10 (by simp [h])
  have := hd_enc_ne_ten hc (encStr (t ++ [10]))
  rw [List.cons_append, encStr_cons]
  simpa [Bytes.hd] using this

/-- a typed text whose first character is not a blank keeps the auto-indent -/
theorem keepAi_of_text (pref post : Bytes) (c : Nat) (t : List Nat) (hc : ValidCp c) (h32 : c ≠ 32) (h9 : c ≠ 9) :
    keepAi pref post (encStr (c :: t)) = true := by
  obtain ⟨a, u, he, hch⟩ := enc_chr hc
  have ha : isBlankC a = false := by
    unfold isBlankC
    unfold enc at he
    split at he
    · injection he with he1 _; subst he1; simp [h32, h9]
    split at he
    · injection he with he1 _; subst he1; simp; omega
    split at he
    · injection he with he1 _; subst he1; simp; omega
    · injection he with he1 _; subst he1; simp; omega
  unfold keepAi
  rw [encStr_cons, he]
  simp [ha]

/-- `insertTail` at the character offset `off` of the line `body` -/
theorem insertTail_at (s : VS) (x : Int) (body cs : List Nat) (off : Nat) (K rest : Bytes)
    (hr0 : 0 ≤ s.ed.xrow) (hline : (Vi.lines s)[s.ed.xrow.toNat]? = some (encStr (body ++ [10])))
    (hb : ∀ c ∈ body, ValidCp c) (hb10 : 10 ∉ body) (hoff : off ≤ body.length)
    (hin : Inputs K cs) (hp : pending s = K ++ rest) (hpl : ∀ c ∈ cs, ValidCp c) (h10 : 10 ∉ cs)
    (hne : cs.head? ≠ none ∧ cs.head? ≠ some 32 ∧ cs.head? ≠ some 9)
    (hk : s.xkmap = 0) :
    ∃ s', insertTail (encStr (body.take off)) (encStr (body.drop off ++ [10])) { s with ed := { s.ed with xoff := x } }
        = Res.ok VC_OK s' ∧ pending s' = rest ∧
      Inserted K s s' s.ed.xrow [encStr (body.take off ++ cs ++ (body.drop off ++ [10]))] 1 s.ed.xrow
        ((off : Int) + cs.length - 1) := by
  obtain ⟨c, t, rfl⟩ : ∃ c t, cs = c :: t := by
    cases cs with
    | nil => exact absurd rfl hne.1
    | cons c t => exact ⟨c, t, rfl⟩
  have hc32 : c ≠ 32 := fun h => hne.2.1 (by simp [h])
  have hc9 : c ≠ 9 := fun h => hne.2.2 (by simp [h])
  have hcv := hpl c (by simp)
  have hkeep := keepAi_of_text (encStr (body.take off)) (encStr (body.drop off ++ [10])) c t hcv hc32 hc9
  obtain ⟨s', h1, h2, h3⟩ := insertTail_spec (body.take off) (body.drop off) (c :: t)
    { s with ed := { s.ed with xoff := x } } K rest _ hr0 hline
    (fun d hd => hb d (List.mem_of_mem_take hd)) (fun d hd => hb d (List.mem_of_mem_drop hd))
    (fun h => hb10 (List.mem_of_mem_take h)) (fun h => hb10 (List.mem_of_mem_drop h)) hin hp hpl h10 hk hkeep
  refine ⟨s', h1, h2, ?_⟩
  obtain ⟨a1, a2, a3, a4, a5⟩ := h3
  refine ⟨a1, a2, ?_, a4, a5.of_ed ⟨_, rfl⟩⟩
  rw [a3, List.length_take, Nat.min_eq_left hoff, if_neg (by simp only [List.length_cons]; omega)]
  simp only [List.length_cons]
  omega

/-! ### where the cursor goes before the insertion -/

theorem getElem?_line_body (body : List Nat) (o : Nat) (ho : o < body.length) :
    (body ++ [10])[o]? = some (body[o]'ho) := by
  rw [List.getElem?_append_left ho, List.getElem?_eq_getElem ho]

/-- on a character of the body `ren_noeol` keeps the offset -/
theorem renNoeol_body (body : List Nat) (hb : ∀ c ∈ body, ValidCp c) (hb10 : 10 ∉ body) (o : Nat) (ho : o < body.length) :
    Ren.renNoeol (encStr (body ++ [10])) (o : Int) = o :=
  renNoeol_keep (valid_snoc_ten hb) o _ (getElem?_line_body body o ho)
    (fun h => hb10 (h ▸ List.getElem_mem ho))

/-- from the newline of a non-empty line `ren_noeol` steps back onto the last character -/
theorem renNoeol_eol (body : List Nat) (hb : ∀ c ∈ body, ValidCp c) (hne : body ≠ []) :
    Ren.renNoeol (encStr (body ++ [10])) (body.length : Int) = (body.length : Int) - 1 := by
  have hv := valid_snoc_ten hb
  have hpos : 0 < body.length := by cases body <;> simp_all
  have hch : Ren.chrHd (encStr (body ++ [10])) body.length = 10 := by
    unfold Ren.chrHd
    rw [Props.C16.chr_spec hv, if_pos (by simp)]
    simp only []
    rw [drop_byteOff, List.drop_left']
    · rfl
    · rfl
  unfold Ren.renNoeol
  simp only [Props.C16.slen_spec hv, List.length_append, List.length_singleton]
  have e : (if (body.length : Int) ≥ ((body.length + 1 : Nat) : Int) then max 0 (((body.length + 1 : Nat) : Int) - 1)
      else (body.length : Int)) = (body.length : Int) := by
    rw [if_neg (by omega)]
  rw [e, Int.toNat_natCast, hch]
  simp
  intro h; exact absurd h hne

theorem eol_line (s : VS) (r : Int) (body : List Nat) (h0 : 0 ≤ r) (hb : ∀ c ∈ body, ValidCp c)
    (hline : (Vi.lines s)[r.toNat]? = some (encStr (body ++ [10]))) :
    Mot.eol (Vi.lines s) r = (body.length : Int) := by
  have hs : Mot.slenAt (Vi.lines s) r = ((body.length + 1 : Nat) : Int) := by
    unfold Mot.slenAt Mot.lineAt
    rw [if_neg (by omega), hline]
    simp only [Props.C16.slen_spec (valid_snoc_ten hb), List.length_append, List.length_singleton]
  unfold Mot.eol
  simp only [hs]
  rw [if_pos (by simp; omega)]
  omega

/-- the bytes of the leading white space of a line are its leading white-space characters -/
theorem takeWhile_space_enc : ∀ (body : List Nat) (r : Bytes), (∀ c ∈ body, ValidCp c) → 10 ∉ body →
    (body.takeWhile ucIsSpace).length < body.length →
    ((encStr body ++ r).takeWhile (fun c => c != 10 && ucIsSpace c)).length = (body.takeWhile ucIsSpace).length := by
  intro body
  induction body with
  | nil => intro r _ _ h; simp at h
  | cons c t ih =>
    intro r hv h10 h
    have hc := hv c (by simp)
    rw [encStr_cons, List.append_assoc]
    by_cases hs : ucIsSpace c = true
    · have hlt : c < 128 := by unfold ucIsSpace at hs; simp at hs; omega
      have he : enc c = [c] := by unfold enc; rw [if_pos hlt]
      have hc10 : (c != 10) = true := by
        simp only [bne_iff_ne, ne_eq]; intro hc; exact h10 (by simp [hc])
      rw [he, List.takeWhile_cons, if_pos hs] at *
      simp only [List.singleton_append, List.takeWhile_cons, hs, hc10, Bool.and_self, if_true, List.length_cons] at h ⊢
      rw [ih r (fun d hd => hv d (by simp [hd])) (fun hd => h10 (by simp [hd])) (by omega)]
    · obtain ⟨a, u, he, hch⟩ := enc_chr hc
      have ha : ucIsSpace a = false := by
        unfold enc at he
        split at he
        · injection he with he1 _; subst he1; simpa using hs
        split at he
        · injection he with he1 _; subst he1; unfold ucIsSpace; simp; omega
        split at he
        · injection he with he1 _; subst he1; unfold ucIsSpace; simp; omega
        · injection he with he1 _; subst he1; unfold ucIsSpace; simp; omega
      rw [he, List.takeWhile_cons, if_neg hs]
      simp [ha]

theorem indents_line (s : VS) (r : Int) (body : List Nat) (h0 : 0 ≤ r) (hb : ∀ c ∈ body, ValidCp c) (h10 : 10 ∉ body)
    (hline : (Vi.lines s)[r.toNat]? = some (encStr (body ++ [10])))
    (hk : (body.takeWhile ucIsSpace).length < body.length) :
    Mot.indents (Vi.lines s) r = ((body.takeWhile ucIsSpace).length : Int) := by
  unfold Mot.indents Mot.lineAt
  rw [if_neg (by omega), hline]
  simp only []
  rw [encStr_append, takeWhile_space_enc body _ hb h10 hk]

end Neatvi.Lemmas.C08b
