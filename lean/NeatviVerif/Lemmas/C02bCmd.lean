import NeatviVerif.Lemmas.C02bEd
import NeatviVerif.Props.C15
/-!
# C02b lemmas, part 4: every ex command keeps the invariant of the buffer table
-/
namespace Neatvi.Lemmas.C02b
open Neatvi Neatvi.Lbuf Neatvi.Ex Neatvi.Rset Neatvi.Spec Neatvi.Lemmas.ExFrame Neatvi.Lemmas.C02Ex

theorem some_pair_inj {α β} {a a' : α} {b b' : β} (h : some (a, b) = some (a', b')) : a = a' ∧ b = b' := by
  cases h; exact ⟨rfl, rfl⟩

/-- the end of `:w !cmd`: in vi mode the "press a key" protocol is not modelled -/
theorem unmod_if_bufs (e : Ed) : (if e.xvis = true then { e with unmodelled := true } else e).bufs = e.bufs := by
  split <;> rfl

theorem ecWrite_inv {ed ed' : Ed} {loc cmd arg : Bytes} {r : Int} (h : EdInv ed)
    (hw : ecWrite ed loc cmd arg = some (r, ed')) : EdInv ed' := by
  unfold ecWrite at hw
  simp only [] at hw
  split at hw
  · cases hw
  · rename_i path ed1 hp
    have h1 : EdInv ed1 := by
      split at hp
      · exact edInv_of_bufs (Props.C15.pathExpand_bufs hp) h
      · cases hp; exact h
    have hxx : ∀ (m : Bool) (ed2 : Ed), (if (List.headD cmd 0 == 120) = true then some (ed1.modifiedAt 0) else some (true, ed1)) = some (m, ed2) → EdInv ed2 := by
      intro m ed2 hx
      split at hx
      · have e := (some_pair_inj (b := (ed1.modifiedAt 0).2) hx).2
        rw [← e]; exact edInv_modifiedAt 0 h1
      · cases hx; exact h1
    split at hw
    · cases hw
    · rename_i ed2 hx
      cases hw
      exact hxx _ _ hx
    · rename_i ed2 hx
      have h2 : EdInv ed2 := hxx _ _ hx
      split at hw
      · cases hw
      · rename_i rc b e ed3 hr
        have h3 : EdInv ed3 := edInv_of_bufs (exRegion_bufs hr) h2
        split at hw
        · cases hw; exact h3
        · split at hw
          · cases hw
          · rename_i cur hcur
            split at hw
            · split at hw
              · cases hw; exact h3
              · cases hw; exact edInv_of_bufs (unmod_if_bufs _) h3
            · split at hw
              · cases hw
              · rename_i err ed4 hs
                have h4 : EdInv ed4 := edInv_of_bufs (lbufSaveP_bufs _ _ _ _ _ _ _ _ _ hs) h3
                cases hw
                exact h4
              · rename_i ed4 hs
                have h4 : EdInv ed4 := edInv_of_bufs (lbufSaveP_bufs _ _ _ _ _ _ _ _ _ hs) h3
                generalize hE : Ed.show ed4 _ = ed5 at hw
                have h5 : EdInv ed5 := by rw [← hE]; exact h4
                split at hw
                · cases hw
                · rename_i cur2 hcur2
                  have hg : GoodLb cur2.lb := edInv_cur h5 hcur2
                  generalize hX : (if cur2.path.isEmpty = true then _ else (cur2, ed5) : Buf × Ed) = X at hw
                  have hX1 : X.1.lb = cur2.lb := by rw [← hX]; split <;> rfl
                  have hX2 : EdInv X.2 := by rw [← hX]; split <;> exact h5
                  obtain ⟨c3, ed6⟩ := X
                  simp only [] at hw hX1 hX2
                  repeat' (split at hw)
                  all_goals
                    cases hw
                    apply edInv_setCur hX2
                    first
                      | (show GoodLb (modified (savedCore c3.lb false)).2; rw [hX1]; exact hg.savedBump false)
                      | (show GoodLb (unsavedMark c3.lb); rw [hX1]; exact hg.partialWrite)
                      | (rw [hX1]; exact hg)

open Neatvi.Props in
theorem substLoop_inv (re : RStr) (g : Bool) (b : Int) : ∀ (n : Nat) (ed ed' : Ed), EdInv ed →
    C14.substLoop re g b n ed = some ed' → EdInv ed' := by
  intro n
  induction n with
  | zero => intro ed ed' hi h; cases h; exact hi
  | succ n ih =>
    intro ed ed' hi h
    rw [C14.substLoop_succ] at h
    cases hm : C14.substLoop re g b n ed with
    | none => rw [hm] at h; cases h
    | some em =>
      rw [hm] at h
      simp only [Option.bind_some] at h
      have hm' := ih _ _ hi hm
      unfold C14.substStep at h
      repeat' (split at h)
      all_goals (first | cases h | skip)
      · exact hm'
      · exact edInv_edit hm' h

theorem foldl_print_inv (b : Int) (l : List Nat) (ed : Ed) (hi : EdInv ed) :
    EdInv (l.foldl (fun (ed : Ed) (k : Nat) => match ed.line (b + (k : Int)) with | some l => ed.print l | none => ed) ed) :=
  edInv_of_bufs (Props.C15.foldl_print_bufs b l ed) hi

theorem runCmd_print_inv (f : Nat) (ed ed' : Ed) (loc cmd arg : Bytes) (txt : Option Bytes) (r : Int) (hi : EdInv ed)
    (h : runCmd f ed "ec_print" loc cmd arg txt = some (r, ed')) : EdInv ed' := by
  cases f with
  | zero => rw [runCmd] at h; cases h
  | succ f =>
    rw [runCmd] at h
    rw [if_neg (by decide), if_pos (by decide)] at h
    split at h
    · cases h; exact hi
    · split at h
      · cases h
      · rename_i hr
        have e1 := edInv_of_bufs (exRegion_bufs hr) hi
        split at h
        · cases h; exact e1
        · cases h
          exact foldl_print_inv _ _ _ e1

theorem each_inv (cmd : Bytes) (all : Bool) : ∀ (g i : Nat) (ed ed' : Ed) (r : Bool), EdInv ed →
    runCmd.each cmd all g i ed = some (r, ed') → EdInv ed' := by
  intro g
  induction g with
  | zero => intro i ed ed' r hi h; rw [runCmd.each.eq_1] at h; cases h; exact hi
  | succ g ih =>
    intro i ed ed' r hi h
    rw [runCmd.each.eq_2] at h
    split at h
    · cases h; exact hi
    · split at h
      · exact ih _ _ _ _ hi h
      · simp only [] at h
        split at h
        · cases h
        · rename_i ed1 hchk
          have h1 : EdInv ed1 := by
            split at hchk
            · exact edInv_bufsModified hi hchk
            · cases hchk
          cases h
          exact edInv_bufsSwitch _ h1
        · rename_i ed1 hchk
          have h1 : EdInv ed1 := by
            split at hchk
            · exact edInv_bufsModified hi hchk
            · cases hchk; exact hi
          split at h
          · split at h
            · cases h
            · split at h
              · cases h
              · rename_i hs
                have h2 := edInv_of_bufs (lbufSaveP_bufs _ _ _ _ _ _ _ _ _ hs) h1
                cases h
                exact edInv_bufsSwitch _ h2
              · rename_i hs
                have h2 := edInv_of_bufs (lbufSaveP_bufs _ _ _ _ _ _ _ _ _ hs) h1
                exact ih _ _ _ _ h2 h
          · exact ih _ _ _ _ h1 h

theorem EdInv.to {ed ed' : Ed} (h : EdInv ed) (hb : ed'.bufs = ed.bufs) : EdInv ed' := edInv_of_bufs hb h

theorem edInv_edit' {ed ed1 ed' : Ed} {s : Option Bytes} {b e : Int} (h : EdInv ed) (he : ed.edit s b e = some ed1)
    (hb : ed'.bufs = ed1.bufs) : EdInv ed' := (edInv_edit h he).to hb

theorem edInv_edit3 {ed0 ed ed1 ed' : Ed} {s : Option Bytes} {b e : Int} (he : ed.edit s b e = some ed1)
    (h : EdInv ed0) (hb0 : ed.bufs = ed0.bufs) (hb : ed'.bufs = ed1.bufs) : EdInv ed' :=
  (edInv_edit (h.to hb0) he).to hb

theorem foldl_inv {α β} (P : β → Prop) (F : β → α → β) (hF : ∀ s a, P s → P (F s a)) :
    ∀ (l : List α) (s : β), P s → P (l.foldl F s) := by
  intro l
  induction l with
  | nil => intro s hs; exact hs
  | cons a l ih => intro s hs; exact ih _ (hF s a hs)

/-- the guard `if c then bufs_modified(...) else pass` -/
theorem guard_inv {ed ed' : Ed} {c : Prop} [Decidable c] {idx : Nat} {msg : Option Bytes} {r : Bool} (hi : EdInv ed)
    (h : (if c then bufsModified ed idx msg else some (false, ed) : R Bool) = some (r, ed')) : EdInv ed' := by
  split at h
  · exact edInv_bufsModified hi h
  · cases h; exact hi

/-- every branch of the dispatcher keeps the invariant, given that the three recursive handlers do -/
theorem runCmd_inv (f : Nat) (ed ed' : Ed) (hd : String) (loc cmd arg : Bytes) (txt : Option Bytes) (r : Int)
    (hat : ∀ ed r ed', EdInv ed → ecAt f ed loc cmd arg = some (r, ed') → EdInv ed')
    (hglob : ∀ ed r ed', EdInv ed → ecGlob f ed loc cmd arg = some (r, ed') → EdInv ed')
    (hedit : ∀ ed r ed', EdInv ed → ecEdit f ed cmd arg = some (r, ed') → EdInv ed')
    (hi : EdInv ed)
    (h : runCmd (f + 1) ed hd loc cmd arg txt = some (r, ed')) : EdInv ed' := by
  by_cases hs : hd = "ec_substitute"
  · subst hs
    rw [Props.C14.runCmd_subst_eq] at h
    split at h
    · cases h
    · rename_i ed1 hr
      have e1 := edInv_of_bufs (exRegion_bufs hr) hi
      have e2 : EdInv (Props.C14.substPrep ed1 arg).1 := edInv_of_bufs (Props.C14.substPrep_bufs ed1 arg) e1
      repeat' (split at h)
      all_goals (first | cases h | skip)
      · exact e1
      · exact e2
      · exact e2
      · rename_i hl
        exact substLoop_inv _ _ _ _ _ _ e2 hl
  by_cases hq : hd = "ec_quit"
  · subst hq
    rw [runCmd_quit] at h
    split at h
    · cases h
    · rename_i rc ed1 hw
      have h1 : EdInv ed1 := by
        split at hw
        · exact ecWrite_inv hi hw
        · cases hw; exact hi
      split at h
      · cases h; exact h1
      · split at h
        · cases h
        · rename_i he; cases h; exact (each_inv _ _ _ _ _ _ _ h1 he).to rfl
        · rename_i he; cases h; exact (each_inv _ _ _ _ _ _ _ h1 he).to rfl
  by_cases hw : hd = "ec_write"
  · subst hw
    rw [runCmd_write] at h
    exact ecWrite_inv hi h
  by_cases he : hd = "ec_edit"
  · subst he
    rw [runCmd_edit] at h
    exact hedit _ _ _ hi h
  rw [runCmd] at h
  by_cases c : (hd == "ec_insert") = true
  · rw [if_pos c] at h
    simp only [] at h
    split at h
    · cases h
    · rename_i hr
      have e1 := edInv_of_bufs (exRegion_bufs hr) hi
      repeat' (split at h)
      all_goals (first | cases h | skip)
      all_goals (first | exact e1 | exact edInv_edit3 (by assumption) e1 (by rfl) (by rfl))
  rw [if_neg c] at h; clear c
  by_cases c : (hd == "ec_print") = true
  · have : hd = "ec_print" := by simpa using c
    subst this
    have h' : runCmd (f + 1) ed "ec_print" loc cmd arg txt = some (r, ed') := by
      rw [runCmd, if_neg (by decide), if_pos (by decide)]
      rw [if_pos c] at h
      exact h
    exact runCmd_print_inv _ _ _ _ _ _ _ _ hi h'
  rw [if_neg c] at h; clear c
  by_cases c : (hd == "ec_null") = true
  · rw [if_pos c] at h
    split at h
    · exact runCmd_print_inv _ _ _ _ _ _ _ _ (by exact hi) h
    · split at h
      · cases h
      · rename_i hr
        have e1 := edInv_of_bufs (exRegion_bufs hr) hi
        split at h
        · cases h; exact e1
        · cases h; exact e1
  rw [if_neg c] at h; clear c
  by_cases c : (hd == "ec_delete" || hd == "ec_yank") = true
  · rw [if_pos c] at h
    simp only [] at h
    split at h
    · cases h
    · rename_i hr
      have e1 := edInv_of_bufs (exRegion_bufs hr) hi
      repeat' (split at h)
      all_goals (first | cases h | skip)
      all_goals (first | exact e1 | exact edInv_edit3 (by assumption) e1 (by rfl) (by rfl))
  rw [if_neg c] at h; clear c
  by_cases c : (hd == "ec_put") = true
  · rw [if_pos c] at h
    simp only [] at h
    split at h
    · cases h; exact hi
    · split at h
      · cases h
      · rename_i hr
        have e1 := edInv_of_bufs (exRegion_bufs hr) hi
        repeat' (split at h)
        all_goals (first | cases h | skip)
        all_goals (first | exact e1 | exact edInv_edit3 (by assumption) e1 (by rfl) (by rfl))
  rw [if_neg c] at h; clear c
  by_cases c : (hd == "ec_lnum") = true
  · rw [if_pos c] at h
    split at h
    · cases h
    · rename_i hr
      have e1 := edInv_of_bufs (exRegion_bufs hr) hi
      split at h
      · cases h; exact e1
      · cases h; exact e1
  rw [if_neg c] at h; clear c
  by_cases c : (hd == "ec_undo") = true
  · rw [if_pos c] at h
    split at h
    · cases h
    · rename_i rc lb hu
      cases h
      cases hl : ed.lb with
      | none => rw [hl] at hu; cases hu
      | some lb0 =>
        rw [hl] at hu
        exact edInv_setLb hi ((edInv_lb hi hl).undo hu)
  rw [if_neg c] at h; clear c
  by_cases c : (hd == "ec_redo") = true
  · rw [if_pos c] at h
    split at h
    · cases h
    · rename_i rc lb hu
      cases h
      cases hl : ed.lb with
      | none => rw [hl] at hu; cases hu
      | some lb0 =>
        rw [hl] at hu
        exact edInv_setLb hi ((edInv_lb hi hl).redo hu)
  rw [if_neg c] at h; clear c
  by_cases c : (hd == "ec_mark") = true
  · rw [if_pos c] at h
    split at h
    · cases h
    · rename_i hr
      have e1 := edInv_of_bufs (exRegion_bufs hr) hi
      split at h
      · cases h; exact e1
      · split at h
        · cases h
        · rename_i lb hlb
          cases h
          exact edInv_setLb e1 ((edInv_lb e1 hlb).setMark _ _ _)
  rw [if_neg c] at h; clear c
  by_cases c : (hd == "ec_rs") = true
  · rw [if_pos c] at h
    cases h; exact hi
  rw [if_neg c] at h; clear c
  by_cases c : (hd == "ec_at") = true
  · rw [if_pos c] at h
    exact hat _ _ _ hi h
  rw [if_neg c] at h; clear c
  by_cases c : (hd == "ec_glob") = true
  · rw [if_pos c] at h
    exact hglob _ _ _ hi h
  rw [if_neg c] at h; clear c
  by_cases c : (hd == "ec_edit") = true
  · exact absurd (by simpa using c) he
  rw [if_neg c] at h; clear c
  by_cases c : (hd == "ec_substitute") = true
  · exact absurd (by simpa using c) hs
  rw [if_neg c] at h; clear c
  by_cases c : (hd == "ec_exec") = true
  · rw [if_pos c] at h
    simp only [] at h
    split at h
    · cases h
    · rename_i ed1 hg
      cases h
      exact guard_inv hi hg
    · rename_i ed1 hg
      have e0 : EdInv ed1 := guard_inv hi hg
      split at h
      · cases h
      · rename_i ed2 hp
        cases h
        exact edInv_of_bufs (Props.C15.pathExpand_bufs hp) e0
      · rename_i ecmd ed2 hp
        have e1 : EdInv ed2 := edInv_of_bufs (Props.C15.pathExpand_bufs hp) e0
        split at h
        · cases h; exact e1
        · split at h
          · cases h
          · rename_i hr
            have e2 := edInv_of_bufs (exRegion_bufs hr) e1
            repeat' (split at h)
            all_goals (first | cases h | skip)
            all_goals (first | exact e2 | skip)
            · rename_i hm
              cases hx : Ed.edit _ _ _ _ with
              | none => rw [hx] at h; cases h
              | some edx =>
                rw [hx] at h
                cases h
                exact edInv_edit e2 hx
  rw [if_neg c] at h; clear c
  by_cases c : (hd == "ec_read") = true
  · rw [if_pos c] at h
    simp only [] at h
    split at h
    · cases h
    · rename_i path ed1 hp
      have e0 : EdInv ed1 := by
        split at hp
        · exact edInv_of_bufs (Props.C15.pathExpand_bufs hp) hi
        · cases hp; exact hi
      split at h
      · cases h
      · rename_i edr hr
        have e1 := edInv_of_bufs (exRegion_bufs hr) e0
        repeat' (split at h)
        all_goals (first | cases h | skip)
        all_goals (first | exact e1 | skip)
        · rename_i hm
          split at hm
          · exact edInv_edit' e1 hm (by rfl)
          · cases hm; exact e1
        · rename_i lb1 hrd
          refine (edInv_setLb (lb := lb1) e1 ?_).to (by rfl)
          cases hl : edr.lb with
          | none => rw [hl] at hrd; cases hrd
          | some lb0 =>
            rw [hl] at hrd
            simp only [Option.bind_some] at hrd
            exact (edInv_lb e1 hl).rd hrd
  rw [if_neg c] at h; clear c
  by_cases c : (hd == "ec_write") = true
  · exact absurd (by simpa using c) hw
  rw [if_neg c] at h; clear c
  by_cases c : (hd == "ec_quit") = true
  · exact absurd (by simpa using c) hq
  rw [if_neg c] at h; clear c
  by_cases c : (hd == "ec_buffer") = true
  · rw [if_pos c] at h
    split at h
    · simp only [] at h
      cases h
      refine foldl_inv (fun st : Bool × Ed => EdInv st.2) _ ?_ _ _ hi
      intro st i hst
      obtain ⟨go, ed0⟩ := st
      simp only [] at hst ⊢
      split
      · exact hst
      · split
        · exact hst
        · have hm := edInv_modifiedAt i hst
          generalize ed0.modifiedAt i = p at hm
          obtain ⟨m, ed1⟩ := p
          exact hm
    · split at h
      · simp only [] at h
        have e1 := edInv_bufsShift hi
        split at h
        · cases h
          exact tabInv_setAt (b := { path := [], lb := Lbuf.make, id := ed.bufsShift.bufsCnt + 1 }) e1 goodLb_make
            (fun _ => closed_make)
        · cases h; exact e1
      · split at h
        · simp only [] at h
          cases h
          show TabInv _
          refine tabInv_congr_lb ?_ hi
          exact (renumber_lbs ed.bufs [] 0).trans (by simp)
        · simp only [] at h
          repeat' (split at h)
          all_goals (try cases h)
          all_goals first
            | exact hi
            | exact guard_inv hi (by assumption)
            | exact edInv_bufsSwitch _ (guard_inv hi (by assumption))
  rw [if_neg c] at h; clear c
  by_cases c : (hd == "ec_set") = true
  · rw [if_pos c] at h
    simp only [] at h
    repeat' (split at h)
    all_goals (first | cases h | skip)
    all_goals (first | exact hi | exact edInv_of_bufs (Props.C15.setOpt_bufs _ _ _) hi)
  rw [if_neg c] at h; clear c
  by_cases c : (hd == "ec_echo") = true
  · rw [if_pos c] at h
    cases h; exact hi
  rw [if_neg c] at h; clear c
  cases h; exact hi

/-! ### `:g` -/

/-- running a line with fuel `f` keeps the invariant -/
def ExecOK (f : Nat) : Prop := ∀ ed ln r ed', EdInv ed → exExec f ed ln = some (r, ed') → EdInv ed'
def CmdOK (f : Nat) : Prop := ∀ ed ln r ed', EdInv ed → exCommand f ed ln = some (r, ed') → EdInv ed'

theorem adv_inv (dep : Nat) : ∀ (h : Nat) (ed : Ed) (i : Int), EdInv ed → EdInv (ecGlob.scan.adv dep h ed i).1 := by
  intro h
  induction h with
  | zero => intro ed i hi; rw [ecGlob.scan.adv]; exact hi
  | succ h ih =>
    intro ed i hi
    rw [ecGlob.scan.adv]
    split
    · exact hi
    · split
      · exact hi
      · rename_i lb hlb
        simp only []
        have e1 : EdInv (ed.setLb (globGet lb i.toNat dep).2) := edInv_setLb hi ((edInv_lb hi hlb).globGet _ _)
        split
        · exact e1
        · exact ih _ _ e1

theorem scan_inv (f : Nat) (neg : Bool) (s : Bytes) (re : RStr) (dep : Nat) (hbody : ExecOK f) :
    ∀ (g : Nat) (ed : Ed) (i : Int) (ed' : Ed), EdInv ed → ecGlob.scan f neg s re dep g ed i = some ed' → EdInv ed' := by
  intro g
  induction g with
  | zero => intro ed i ed' _ h; rw [ecGlob.scan] at h; cases h
  | succ g ih =>
    intro ed i ed' hi h
    rw [ecGlob.scan] at h
    split at h
    · cases h; exact hi
    · split at h
      · cases h
      · split at h
        · cases h
        · simp only [] at h
          split at h
          · cases h
          · rename_i edx _ hstep
            cases h
            split at hstep
            · split at hstep
              · cases hstep
              · rename_i hx
                split at hstep
                · cases hstep
                  exact hbody _ _ _ _ (hi.to (by rfl)) hx
                · cases hstep
            · cases hstep
          · rename_i edx ix hstep
            have e1 : EdInv edx := by
              split at hstep
              · split at hstep
                · cases hstep
                · rename_i hx
                  split at hstep
                  · cases hstep
                  · cases hstep
                    exact hbody _ _ _ _ (hi.to (by rfl)) hx
              · cases hstep; exact hi
            split at h
            · cases h
            · exact ih _ _ _ (adv_inv _ _ _ _ e1) h

open Neatvi.Props.C15 in
theorem ecGlob_inv (f : Nat) (hbody : ExecOK f) (ed ed' : Ed) (loc cmd arg : Bytes) (r : Int) (hi : EdInv ed)
    (h : ecGlob (f + 1) ed loc cmd arg = some (r, ed')) : EdInv ed' := by
  rw [ecGlob_eq] at h
  by_cases hdep : ed.xgdep ≥ 7
  · rw [if_pos hdep] at h; cases h; exact hi.to (by rfl)
  rw [if_neg hdep] at h
  split at h
  · cases h
  · rename_i rc b e ed1 hr
    have e1 : EdInv ed1 := hi.to (exRegion_bufs hr)
    have e2 : EdInv (globPrep ed1 arg) := e1.to (globPrep_bufs ed1 arg)
    split at h
    · cases h; exact e1
    · split at h
      · cases h; exact e2
      · split at h
        · cases h
        · cases h; exact e2
        · split at h
          · cases h
          · rename_i ed2 hscan
            cases h
            have e4 : EdInv (globMark (globPrep ed1 arg) b e ((globPrep ed1 arg).xgdep + 1)) := by
              unfold globMark
              refine foldl_inv EdInv _ ?_ _ _ (e2.to (by rfl))
              intro s k hs
              exact edInv_updLb (fun lb => globSet lb (b.toNat + 1 + k) ((globPrep ed1 arg).xgdep + 1))
                (fun lb hl => hl.globSet _ _) hs
            have e3 := scan_inv f _ _ _ _ hbody _ _ _ _ e4 hscan
            have e5 : EdInv (globSweep ed2 ((globPrep ed1 arg).xgdep + 1)) := by
              unfold globSweep
              exact edInv_updLb (fun lb => (List.range lb.lines.length).foldl
                  (fun lb k => (globGet lb k ((globPrep ed1 arg).xgdep + 1)).2) lb)
                (fun lb hl => foldl_inv GoodLb _ (fun s k hs => hs.globGet _ _) _ _ hl) e3
            exact e5.to (by rfl)

/-! ### `:@` -/

theorem ecAt_inv (f : Nat) (hcmd : CmdOK f) (ed ed' : Ed) (loc cmd arg : Bytes) (r : Int) (hi : EdInv ed)
    (h : ecAt (f + 1) ed loc cmd arg = some (r, ed')) : EdInv ed' := by
  rw [ecAt] at h
  split at h
  · cases h; exact hi
  · split at h
    · cases h
    · rename_i hr
      have e1 := hi.to (exRegion_bufs hr)
      split at h
      · cases h; exact e1
      · split at h
        · cases h; exact e1.to (by rfl)
        · simp only [] at h
          split at h
          · cases h; exact e1
          · split at h
            · cases h
            · rename_i r2 ed2 hx
              cases h
              exact (hcmd _ _ _ _ (e1.to (by rfl)) hx).to (by rfl)

end Neatvi.Lemmas.C02b
