import NeatviVerif.Lemmas.C19gFrame
import NeatviVerif.Lemmas.C20cLocal
/-!
# C19g helper lemmas, part 2: every ex command other than `:e`, `:b`, `:q`, `:g`, `:@` keeps `LOk`

These commands never assign `xleft` and change the current record through its line buffer, its path
and its time stamp only (`:w`): the saved `left` of every entry is what it was.  The structure of the
proofs is that of `Lemmas/C20cLocal.lean` / `Lemmas/C20cSubstWrite.lean` (`Loc`), with `LK` in place
of `Loc`.
-/
set_option linter.unusedSimpArgs false
set_option linter.unusedVariables false

namespace Neatvi.Lemmas.C19g
open Neatvi Neatvi.Lbuf Neatvi.LbufIo Neatvi.Ex Neatvi.Rset
open Neatvi.Lemmas.C19f (LOk)
open Neatvi.Lemmas.C20c (tableHandler lbufSaveP_io modifiedAt_eq)
open Neatvi.Lemmas.ExFrame Neatvi.Lemmas.C02Ex Neatvi.Lemmas.C02b

variable {P : Int → Prop}

/-! ### `:s` -/

open Neatvi.Props in
theorem substLoop_lk (re : RStr) (g : Bool) (b : Int) : ∀ (n : Nat) (ed ed' : Ed),
    C14.substLoop re g b n ed = some ed' → LK P ed ed' := by
  intro n
  induction n with
  | zero => intro ed ed' h; cases h; exact LK.refl _
  | succ n ih =>
    intro ed ed' h
    rw [C14.substLoop_succ] at h
    cases hm : C14.substLoop re g b n ed with
    | none => rw [hm] at h; cases h
    | some em =>
      rw [hm] at h
      simp only [Option.bind_some] at h
      have hm' := ih _ _ hm
      unfold C14.substStep at h
      repeat' (split at h)
      all_goals (first | cases h | skip)
      · exact hm'
      · exact hm'.trans (lk_edit h)

theorem subst_lk (f : Nat) (ed ed' : Ed) (loc cmd arg : Bytes) (txt : Option Bytes) (r : Int)
    (h : runCmd (f + 1) ed "ec_substitute" loc cmd arg txt = some (r, ed')) : LK P ed ed' := by
  rw [Props.C14.runCmd_subst_eq] at h
  split at h
  · cases h
  · rename_i ed1 hr
    have e1 : LK P ed ed1 := LK.of_same (exRegion_sameL hr)
    have e2 : LK P ed (Props.C14.substPrep ed1 arg).1 := e1.same (substPrep_sameL ed1 arg)
    repeat' (split at h)
    all_goals (first | cases h | skip)
    · exact e1
    · exact e2
    · exact e2
    · rename_i hl
      exact e2.trans (substLoop_lk _ _ _ _ _ _ hl)

/-! ### `:w` -/

theorem ecWrite_lk {ed ed' : Ed} {loc cmd arg : Bytes} {r : Int}
    (hw : ecWrite ed loc cmd arg = some (r, ed')) : LK P ed ed' := by
  unfold ecWrite at hw
  simp only [] at hw
  split at hw
  · cases hw
  · rename_i path ed1 hp
    have h1 : LK P ed ed1 := by
      split at hp
      · exact LK.of_same (pathExpand_sameL hp)
      · cases hp; exact LK.refl _
    have hxx : ∀ (m : Bool) (ed2 : Ed), (if (List.headD cmd 0 == 120) = true then some (ed1.modifiedAt 0) else some (true, ed1)) = some (m, ed2) → LK P ed ed2 := by
      intro m ed2 hx
      split at hx
      · have e := (some_pair_inj (b := (ed1.modifiedAt 0).2) hx).2
        rw [← e]
        exact h1.trans (lk_modifiedAt ed1 0)
      · cases hx; exact h1
    split at hw
    · cases hw
    · rename_i ed2 hx
      cases hw
      exact hxx _ _ hx
    · rename_i ed2 hx
      have h2 : LK P ed ed2 := hxx _ _ hx
      split at hw
      · cases hw
      · rename_i rc b e ed3 hr
        have h3 : LK P ed ed3 := h2.same (exRegion_sameL hr)
        split at hw
        · cases hw; exact h3
        · split at hw
          · cases hw
          · rename_i cur hcur
            split at hw
            · split at hw
              · cases hw; exact h3
              · cases hw
                exact LK.ite _ (h3.to rfl rfl) (h3.to rfl rfl)
            · split at hw
              · cases hw
              · rename_i err ed4 hs
                have h4 : LK P ed ed4 := h3.trans (lk_io (lbufSaveP_io _ _ _ _ _ _ _ _ _ hs))
                cases hw
                exact h4.to rfl rfl
              · rename_i ed4 hs
                have h4 : LK P ed ed4 := h3.trans (lk_io (lbufSaveP_io _ _ _ _ _ _ _ _ _ hs))
                generalize hE : Ed.show ed4 _ = ed5 at hw
                have h5 : LK P ed ed5 := by rw [← hE]; exact h4.to rfl rfl
                split at hw
                · cases hw
                · rename_i cur2 hcur2
                  generalize hX : (if cur2.path.isEmpty = true then _ else (cur2, ed5) : Buf × Ed) = X at hw
                  have hX1 : X.1.left = cur2.left := by rw [← hX]; split <;> rfl
                  have hX2 : LK P ed X.2 := by rw [← hX]; split <;> first | exact h5 | exact h5.to rfl rfl
                  have hX3 : X.2.cur = some cur2 := by rw [← hX]; split <;> exact hcur2
                  obtain ⟨c3, ed6⟩ := X
                  simp only [] at hw hX1 hX2 hX3
                  repeat' (split at hw)
                  all_goals
                    cases hw
                    exact hX2.trans (lk_setCur hX3 hX1)

/-! ### the other commands -/

theorem LK.edit3 {ed0 edm ed ed1 ed' : Ed} {s : Option Bytes} {b e : Int} (he : ed.edit s b e = some ed1)
    (h : LK P ed0 edm) (hb0 : ed.bufs = edm.bufs) (hc0 : ed.xleft = edm.xleft)
    (hb : ed'.bufs = ed1.bufs) (hc : ed'.xleft = ed1.xleft) : LK P ed0 ed' :=
  ((h.to hb0 hc0).trans (lk_edit he)).to hb hc

theorem runCmd_print_lk (f : Nat) (ed ed' : Ed) (loc cmd arg : Bytes) (txt : Option Bytes) (r : Int)
    (h : runCmd f ed "ec_print" loc cmd arg txt = some (r, ed')) : LK P ed ed' := by
  cases f with
  | zero => rw [runCmd] at h; cases h
  | succ f =>
    rw [runCmd] at h
    rw [if_neg (by decide), if_pos (by decide)] at h
    split at h
    · cases h; exact LK.refl _
    · split at h
      · cases h
      · rename_i hr
        have e1 : LK P ed _ := LK.of_same (exRegion_sameL hr)
        split at h
        · cases h; exact e1
        · cases h
          exact (e1.same (foldl_print_sameL _ _ _)).to rfl rfl

/-- every command other than `:e`, `:b`, `:q`, `:g`, `:@` keeps `LOk` -/
theorem runCmd_local_lk (f : Nat) (ed ed' : Ed) (hd : String) (loc cmd arg : Bytes) (txt : Option Bytes) (r : Int)
    (hl : tableHandler hd = false)
    (h : runCmd (f + 1) ed hd loc cmd arg txt = some (r, ed')) : LK P ed ed' := by
  have hi : LK P ed ed := LK.refl ed
  simp only [tableHandler, Bool.or_eq_false_iff, beq_eq_false_iff_ne, ne_eq] at hl
  obtain ⟨⟨⟨⟨he, hbuf⟩, hq⟩, hglob⟩, hat⟩ := hl
  by_cases hs : hd = "ec_substitute"
  · subst hs
    exact subst_lk f ed ed' loc cmd arg txt r h
  by_cases hw : hd = "ec_write"
  · subst hw
    rw [runCmd_write] at h
    exact ecWrite_lk h
  rw [runCmd] at h
  by_cases c : (hd == "ec_insert") = true
  · rw [if_pos c] at h
    simp only [] at h
    split at h
    · cases h
    · rename_i hr
      have e1 : LK P ed _ := LK.of_same (exRegion_sameL hr)
      repeat' (split at h)
      all_goals (first | cases h | skip)
      all_goals (first | exact e1 | exact LK.edit3 (by assumption) e1 (by rfl) (by rfl) (by rfl) (by rfl))
  rw [if_neg c] at h; clear c
  by_cases c : (hd == "ec_print") = true
  · have : hd = "ec_print" := by simpa using c
    subst this
    have h' : runCmd (f + 1) ed "ec_print" loc cmd arg txt = some (r, ed') := by
      rw [runCmd, if_neg (by decide), if_pos (by decide)]
      rw [if_pos c] at h
      exact h
    exact runCmd_print_lk _ _ _ _ _ _ _ _ h'
  rw [if_neg c] at h; clear c
  by_cases c : (hd == "ec_null") = true
  · rw [if_pos c] at h
    split at h
    · simp only [] at h
      have h2 := runCmd_print_lk (P := P) _ _ _ _ _ _ _ _ h
      refine LK.trans ?_ h2
      exact LK.of_same ⟨rfl, rfl⟩
    · split at h
      · cases h
      · rename_i hr
        have e1 : LK P ed _ := LK.of_same (exRegion_sameL hr)
        split at h
        · cases h; exact e1
        · cases h; exact e1.to rfl rfl
  rw [if_neg c] at h; clear c
  by_cases c : (hd == "ec_delete" || hd == "ec_yank") = true
  · rw [if_pos c] at h
    simp only [] at h
    split at h
    · cases h
    · rename_i hr
      have e1 : LK P ed _ := LK.of_same (exRegion_sameL hr)
      repeat' (split at h)
      all_goals (first | cases h | skip)
      all_goals (first | exact e1 | exact e1.to rfl rfl | exact LK.edit3 (by assumption) e1 (by rfl) (by rfl) (by rfl) (by rfl))
  rw [if_neg c] at h; clear c
  by_cases c : (hd == "ec_put") = true
  · rw [if_pos c] at h
    simp only [] at h
    split at h
    · cases h; exact hi
    · split at h
      · cases h
      · rename_i hr
        have e1 : LK P ed _ := LK.of_same (exRegion_sameL hr)
        repeat' (split at h)
        all_goals (first | cases h | skip)
        all_goals (first | exact e1 | exact LK.edit3 (by assumption) e1 (by rfl) (by rfl) (by rfl) (by rfl))
  rw [if_neg c] at h; clear c
  by_cases c : (hd == "ec_lnum") = true
  · rw [if_pos c] at h
    split at h
    · cases h
    · rename_i hr
      have e1 : LK P ed _ := LK.of_same (exRegion_sameL hr)
      split at h
      · cases h; exact e1
      · cases h; exact e1.to rfl rfl
  rw [if_neg c] at h; clear c
  by_cases c : (hd == "ec_undo") = true
  · rw [if_pos c] at h
    split at h
    · cases h
    · cases h
      exact lk_setLb _ _
  rw [if_neg c] at h; clear c
  by_cases c : (hd == "ec_redo") = true
  · rw [if_pos c] at h
    split at h
    · cases h
    · cases h
      exact lk_setLb _ _
  rw [if_neg c] at h; clear c
  by_cases c : (hd == "ec_mark") = true
  · rw [if_pos c] at h
    split at h
    · cases h
    · rename_i hr
      have e1 : LK P ed _ := LK.of_same (exRegion_sameL hr)
      split at h
      · cases h; exact e1
      · split at h
        · cases h
        · cases h
          exact e1.trans (lk_setLb _ _)
  rw [if_neg c] at h; clear c
  by_cases c : (hd == "ec_rs") = true
  · rw [if_pos c] at h
    cases h; exact hi.to rfl rfl
  rw [if_neg c] at h; clear c
  by_cases c : (hd == "ec_at") = true
  · exact absurd (by simpa using c) hat
  rw [if_neg c] at h; clear c
  by_cases c : (hd == "ec_glob") = true
  · exact absurd (by simpa using c) hglob
  rw [if_neg c] at h; clear c
  by_cases c : (hd == "ec_edit") = true
  · exact absurd (by simpa using c) he
  rw [if_neg c] at h; clear c
  by_cases c : (hd == "ec_substitute") = true
  · exact absurd (by simpa using c) hs
  rw [if_neg c] at h; clear c
  by_cases c : (hd == "ec_exec") = true
  · rw [if_pos c] at h
    simp only [] at h
    split at h
    · cases h
    · rename_i ed1 hg
      cases h
      exact lk_guard hg
    · rename_i ed1 hg
      have e0 : LK P ed ed1 := lk_guard hg
      split at h
      · cases h
      · rename_i ed2 hp
        cases h
        exact e0.same (pathExpand_sameL hp)
      · rename_i ecmd ed2 hp
        have e1 : LK P ed ed2 := e0.same (pathExpand_sameL hp)
        split at h
        · cases h; exact e1.to rfl rfl
        · split at h
          · cases h
          · rename_i hr
            have e2 := e1.same (exRegion_sameL hr)
            repeat' (split at h)
            all_goals (first | cases h | skip)
            all_goals (first | exact e2 | exact e2.to rfl rfl | skip)
            · rename_i hm
              cases hx : Ed.edit _ _ _ _ with
              | none => rw [hx] at h; cases h
              | some edx =>
                rw [hx] at h
                cases h
                exact e2.trans (lk_edit hx)
  rw [if_neg c] at h; clear c
  by_cases c : (hd == "ec_read") = true
  · rw [if_pos c] at h
    simp only [] at h
    split at h
    · cases h
    · rename_i path ed1 hp
      have e0 : LK P ed ed1 := by
        split at hp
        · exact LK.of_same (pathExpand_sameL hp)
        · cases hp; exact hi
      split at h
      · cases h
      · rename_i edr hr
        have e1 := e0.same (exRegion_sameL hr)
        repeat' (split at h)
        all_goals (first | cases h | skip)
        all_goals (first | exact e1 | exact e1.to rfl rfl | skip)
        · rename_i hm
          split at hm
          · exact (e1.trans (lk_edit hm)).to rfl rfl
          · cases hm; exact e1.to rfl rfl
        · rename_i lb1 hrd
          exact (e1.trans (lk_setLb _ lb1)).to rfl rfl
  rw [if_neg c] at h; clear c
  by_cases c : (hd == "ec_write") = true
  · exact absurd (by simpa using c) hw
  rw [if_neg c] at h; clear c
  by_cases c : (hd == "ec_quit") = true
  · exact absurd (by simpa using c) hq
  rw [if_neg c] at h; clear c
  by_cases c : (hd == "ec_buffer") = true
  · exact absurd (by simpa using c) hbuf
  rw [if_neg c] at h; clear c
  by_cases c : (hd == "ec_set") = true
  · rw [if_pos c] at h
    simp only [] at h
    repeat' (split at h)
    all_goals (first | cases h | skip)
    all_goals (first | exact hi | exact hi.to rfl rfl | exact LK.of_same (setOpt_sameL _ _ _))
  rw [if_neg c] at h; clear c
  by_cases c : (hd == "ec_echo") = true
  · rw [if_pos c] at h
    cases h; exact hi.to rfl rfl
  rw [if_neg c] at h; clear c
  cases h; exact hi.to rfl rfl

end Neatvi.Lemmas.C19g
