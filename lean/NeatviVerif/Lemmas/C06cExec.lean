import NeatviVerif.Lemmas.C06cGuard
/-!
# C06c, helpers: the shape of `ec_exec`, the pipe oracle, the closed shell
-/
namespace Neatvi.Lemmas.C06c
open Neatvi Neatvi.Lbuf Neatvi.LbufIo Neatvi.Ex Neatvi.Lemmas.C06 Neatvi.Lemmas.C06b
open Neatvi.Lemmas.Hist (optLines)

/-- `ec_exec` as the model runs it: guard, expansion of the command text, address, pipe, edit -/
theorem ec_exec_eq (f : Nat) (ed : Ed) (loc cmd arg : Bytes) (txt : Option Bytes) :
    runCmd (f + 1) ed "ec_exec" loc cmd arg txt =
      match execGuard ed with
      | none => none
      | some (true, ed) => some (1, ed)
      | some (false, ed) =>
        match pathExpand ed arg true with
        | none => none
        | some (none, ed) => some (1, ed)
        | some (some ecmd, ed) =>
          if loc.isEmpty then some (0, { ed with unmodelled := true }) else
          match exRegion ed loc with
          | none => none
          | some ((rc, b, e), ed) =>
            if rc != 0 then some (1, ed) else
            match ed.pipe ecmd (ed.cp b e) with
            | none => some (0, { ed with unmodelled := true })
            | some none => some (0, ed)
            | some (some rep) => (ed.edit (some rep) b e).map (fun ed => (0, ed)) := by
  rw [runCmd]
  simp only [String.reduceBEq, Bool.false_eq_true, ↓reduceIte, Bool.or_self]
  rfl

/-! ### the pipe oracle -/

/-- the oracle always answers (the branch `unmodelled` of the filter is dead) -/
theorem pipe_ne_none (ed : Ed) (cmd input : Bytes) : ed.pipe cmd input ≠ none := by
  unfold Ed.pipe; split <;> simp

/-- the oracle only looks at the table `pipes` -/
theorem pipe_congr {ed ed' : Ed} (h : ed'.pipes = ed.pipes) (cmd input : Bytes) :
    ed'.pipe cmd input = ed.pipe cmd input := by
  unfold Ed.pipe; rw [h]

/-- no explicit table entry for the command `cmd`, whatever the input -/
def NoEntry (ed : Ed) (cmd : Bytes) : Prop := ∀ p ∈ ed.pipes, p.1 ≠ cmd

theorem noEntry_of_nil {ed : Ed} (h : ed.pipes = []) (cmd : Bytes) : NoEntry ed cmd := by
  intro p hp; rw [h] at hp; cases hp

/-- without a table entry the closed shell of the harness answers -/
theorem pipe_noEntry {ed : Ed} {cmd : Bytes} (h : NoEntry ed cmd) (input : Bytes) :
    ed.pipe cmd input = some (some (builtinPipe cmd input)) := by
  unfold Ed.pipe
  have : ed.pipes.find? (fun p => p.1 == cmd && p.2.1 == input) = none := by
    rw [List.find?_eq_none]
    intro p hp
    have := h p hp
    simp [this]
  rw [this]

/-! ### the closed shell -/

/-- what `tr a-z A-Z` does to a byte -/
def upperC (c : Nat) : Nat := if 97 ≤ c && c ≤ 122 then c - 32 else c

/-- what `sed 1q` answers: the first line of its input -/
def sedFirst (input : Bytes) : Bytes :=
  let l := input.takeWhile (· != 10); if l.length < input.length then l ++ [10] else l

theorem strOf_cat : strOf "cat" = [99, 97, 116] := by decide +kernel
theorem strOf_tr : strOf "tr a-z A-Z" = [116, 114, 32, 97, 45, 122, 32, 65, 45, 90] := by decide +kernel
theorem strOf_sed : strOf "sed 1q" = [115, 101, 100, 32, 49, 113] := by decide +kernel
theorem strOf_true : strOf "true" = [116, 114, 117, 101] := by decide +kernel
theorem strOf_printf : strOf "printf x" = [112, 114, 105, 110, 116, 102, 32, 120] := by decide +kernel

theorem builtin_cat (input : Bytes) : builtinPipe (strOf "cat") input = input := by
  unfold builtinPipe; simp

theorem builtin_tr (input : Bytes) : builtinPipe (strOf "tr a-z A-Z") input = input.map upperC := by
  unfold builtinPipe
  simp only [strOf_cat, strOf_tr]
  rw [if_neg (by decide), if_pos (by decide)]
  rfl

theorem builtin_printf (input : Bytes) : builtinPipe (strOf "printf x") input = [120] := by
  unfold builtinPipe
  simp only [strOf_cat, strOf_tr, strOf_printf]
  rw [if_neg (by decide), if_neg (by decide), if_pos (by decide)]

theorem builtin_sed (input : Bytes) : builtinPipe (strOf "sed 1q") input = sedFirst input := by
  unfold builtinPipe
  simp only [strOf_cat, strOf_tr, strOf_printf, strOf_sed]
  rw [if_neg (by decide), if_neg (by decide), if_neg (by decide), if_pos (by decide)]
  rfl

/-- a command the closed shell does not interpret (`true` is one of them) produces no output -/
def Unknown (cmd : Bytes) : Prop :=
  cmd ≠ strOf "cat" ∧ cmd ≠ strOf "tr a-z A-Z" ∧ cmd ≠ strOf "printf x" ∧ cmd ≠ strOf "sed 1q"

theorem builtin_unknown {cmd : Bytes} (h : Unknown cmd) (input : Bytes) : builtinPipe cmd input = [] := by
  obtain ⟨h1, h2, h3, h4⟩ := h
  unfold builtinPipe
  simp [h1, h2, h3, h4]

theorem unknown_true : Unknown (strOf "true") := by
  simp only [Unknown, strOf_cat, strOf_tr, strOf_printf, strOf_sed, strOf_true]
  decide

/-! ### splitting what the closed shell answers on well-formed lines -/
open Neatvi.Props.C01 (WfLine split_of_join)

theorem upperC_ne10 (c : Nat) (h : c ≠ 10) : upperC c ≠ 10 := by
  unfold upperC
  split
  · rename_i hc
    simp only [Bool.and_eq_true, decide_eq_true_eq] at hc
    omega
  · exact h

theorem upperC_10 : upperC 10 = 10 := by decide

theorem wf_map_upper (l : Bytes) (h : WfLine l) : WfLine (l.map upperC) := by
  obtain ⟨w, rfl, hw⟩ := h
  refine ⟨w.map upperC, by simp [upperC_10], ?_⟩
  intro hm
  rw [List.mem_map] at hm
  obtain ⟨c, hc, h10⟩ := hm
  exact upperC_ne10 c (fun h => hw (h ▸ hc)) h10

/-- upper-casing the joined lines and splitting again gives the upper-cased lines -/
theorem split_tr (L : List Bytes) (h : ∀ l ∈ L, WfLine l) :
    splitLines (L.flatten.map upperC) = L.map (fun l => l.map upperC) := by
  rw [List.map_flatten]
  apply split_of_join
  intro l hl
  rw [List.mem_map] at hl
  obtain ⟨l0, hl0, rfl⟩ := hl
  exact wf_map_upper l0 (h l0 hl0)

theorem takeWhile_ne10 (w r : Bytes) (hw : 10 ∉ w) : (w ++ 10 :: r).takeWhile (· != 10) = w := by
  induction w with
  | nil => simp
  | cons x w ih =>
    have hx : x ≠ 10 := fun h => hw (by simp [h])
    simp only [List.cons_append, List.takeWhile_cons, bne_iff_ne, ne_eq, hx, not_false_eq_true, if_true]
    rw [ih (fun h => hw (by simp [h]))]

/-- the first line of the joined lines is the first line -/
theorem split_sed (L : List Bytes) (h : ∀ l ∈ L, WfLine l) : splitLines (sedFirst L.flatten) = L.take 1 := by
  cases L with
  | nil => rfl
  | cons l L =>
    obtain ⟨w, rfl, hw⟩ := h l (by simp)
    have : sedFirst ((w ++ [10]) :: L).flatten = w ++ [10] := by
      unfold sedFirst
      simp only [List.flatten_cons, List.append_assoc, List.singleton_append]
      rw [takeWhile_ne10 w _ hw, if_pos (by simp)]
    rw [this]
    have := split_of_join [w ++ [10]] (by intro l hl; simp at hl; subst hl; exact ⟨w, rfl, hw⟩)
    simpa using this

/-! ### `ex_pathexpand` on a command text without `%`, `#`, `=`, backslash, newline -/

/-- a command text `ex_pathexpand` copies as it is -/
def PlainArg (arg : Bytes) : Prop := ∀ c ∈ arg, c ≠ 10 ∧ c ≠ 37 ∧ c ≠ 35 ∧ c ≠ 61 ∧ c ≠ 92

theorem pathExpand_go_plain (ed : Ed) : ∀ (f : Nat) (src dst : Bytes), src.length < f → PlainArg src →
    pathExpand.go ed true f src dst = some (some (dst ++ src)) := by
  intro f
  induction f with
  | zero => intro src dst h; omega
  | succ f ih =>
    intro src dst hl hp
    cases src with
    | nil => simp [pathExpand.go]
    | cons c r =>
      obtain ⟨h1, h2, h3, h4, h5⟩ := hp c (by simp)
      rw [pathExpand.go]
      have ih' := ih r (dst ++ [c]) (by simp at hl; omega) (fun x hx => hp x (by simp [hx]))
      simp [h1, h2, h3, h4, h5, ih']

theorem pathExpand_plain (ed : Ed) (arg : Bytes) (hp : PlainArg arg) (hl : arg.length < 1000) :
    pathExpand ed arg true = some (some arg, ed) := by
  unfold pathExpand
  rw [pathExpand_go_plain ed _ arg [] (by omega) hp]
  simp only [List.nil_append]
  rw [if_neg (by omega)]

theorem plain_cat : PlainArg (strOf "cat") := by rw [strOf_cat]; unfold PlainArg; decide
theorem plain_tr : PlainArg (strOf "tr a-z A-Z") := by rw [strOf_tr]; unfold PlainArg; decide
theorem plain_sed : PlainArg (strOf "sed 1q") := by rw [strOf_sed]; unfold PlainArg; decide
theorem plain_true : PlainArg (strOf "true") := by rw [strOf_true]; unfold PlainArg; decide
theorem plain_printf : PlainArg (strOf "printf x") := by rw [strOf_printf]; unfold PlainArg; decide

end Neatvi.Lemmas.C06c
