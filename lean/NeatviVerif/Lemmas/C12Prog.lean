import NeatviVerif.Lemmas.C12VM
/-!
# C12 lemmas, part 5: the program the engine compiles for a literal pattern
-/
namespace Neatvi.C12
open Neatvi Neatvi.Uc Neatvi.Regex Neatvi.Rset

/-- the atoms of a literal pattern, in order -/
def atomsOf (lbeg wbeg wend lend : Bool) (lit : Bytes) : List Atom :=
  (if lbeg then [⟨AK.beg, []⟩] else []) ++ (if wbeg then [⟨AK.wbeg, []⟩] else []) ++ [⟨AK.chr, lit⟩] ++
  (if wend then [⟨AK.wend, []⟩] else []) ++ (if lend then [⟨AK.end_, []⟩] else [])

theorem seqText_atomsOf (lbeg wbeg wend lend : Bool) (lit : Bytes) :
    seqText (atomsOf lbeg wbeg wend lend lit) = pre lbeg wbeg ++ lit ++ suf wend lend := by
  cases lbeg <;> cases wbeg <;> cases wend <;> cases lend <;>
    simp [atomsOf, seqText, atomText, pre, suf]

theorem atomsOf_ne_nil (lbeg wbeg wend lend : Bool) (lit : Bytes) : atomsOf lbeg wbeg wend lend lit ≠ [] := by
  cases lbeg <;> cases wbeg <;> cases wend <;> cases lend <;> simp [atomsOf]

theorem atomsOf_length (lbeg wbeg wend lend : Bool) (lit : Bytes) :
    (atomsOf lbeg wbeg wend lend lit).length ≤ 5 := by
  cases lbeg <;> cases wbeg <;> cases wend <;> cases lend <;> simp [atomsOf]

theorem seqOk_atomsOf (lbeg wbeg wend lend : Bool) (lit : Bytes) (hne : lit ≠ []) (hlo : LitOk lit)
    (hlit : ∀ c ∈ lit, isSpecial c = false ∧ isRepChar c = false) :
    SeqOk (atomsOf lbeg wbeg wend lend lit) [41, 41] := by
  cases lit with
  | nil => exact absurd rfl hne
  | cons c t =>
    have hc := (hlit c (by simp)).2
    have s92 : isSpecial 92 = true := by decide
    have s36 : isSpecial 36 = true := by decide
    have s41 : isSpecial 41 = true := by decide
    have r92 : isRepChar 92 = false := by decide
    have r36 : isRepChar 36 = false := by decide
    have r41 : isRepChar 41 = false := by decide
    cases lbeg <;> cases wbeg <;> cases wend <;> cases lend <;>
      simp [atomsOf, SeqOk, seqText, atomText, AtomOk, hc, hlo, s92, s36, s41, r92, r36, r41] <;>
      exact ⟨(hlit c (by simp)).1, fun a ha => hlit a (by simp [ha])⟩

/-- **program shape**: `((re))` parses to two groups around the concatenation of the atoms -/
theorem parse_literal {re : Bytes} {lbeg wbeg wend lend : Bool} {lit : Bytes}
    (hnul : ∀ c ∈ re, c ≠ 0)
    (h : simple re = some (lbeg, wbeg, wend, lend, lit)) (hne : lit ≠ []) (hlo : LitOk lit) :
    parse ([40, 40] ++ re ++ [41, 41]) =
      some (some (RNode.grp (RNode.grp (catOf (atomsOf lbeg wbeg wend lend lit)) 0 1 1) 0 1 1)) := by
  obtain ⟨hre, hstop⟩ := simple_decomp h
  have hlit : ∀ c ∈ lit, isSpecial c = false ∧ isRepChar c = false := by
    intro c hc
    have hs := hstop c hc
    have hmem : ¬ c ∈ Gen.rstrStop := by
      intro hm; simp [isStop, hm] at hs
    have h0 : c ≠ 0 := hnul c (by rw [hre]; simp [hc])
    have hcov : (∀ c ∈ Gen.ratomSpecial, c ∈ Gen.rstrStop) ∧ (∀ c ∈ Gen.repChars, c ∈ Gen.rstrStop) := by
      decide
    refine ⟨?_, ?_⟩
    · unfold isSpecial
      cases h1 : Gen.ratomSpecial.contains c
      · simp [h0]
      · exact absurd (hcov.1 c (List.contains_iff_mem.mp h1)) hmem
    · unfold isRepChar
      cases h1 : Gen.repChars.contains c
      · rfl
      · exact absurd (hcov.2 c (List.contains_iff_mem.mp h1)) hmem
  have hok := seqOk_atomsOf lbeg wbeg wend lend lit hne hlo hlit
  have := parse_wrapped (atomsOf lbeg wbeg wend lend lit) hok (atomsOf_ne_nil _ _ _ _ _)
    (by
      rw [seqText_atomsOf]
      cases lit with
      | nil => exact absurd rfl hne
      | cons c t =>
        have := (not_special (hlit c (by simp)).1).2.2.2.2.2.2.2.1
        cases lbeg <;> cases wbeg <;> simp [pre, this])
    (atomsOf_length _ _ _ _ _)
  rw [seqText_atomsOf, ← hre] at this
  exact this

/-! ### numbering and code emission -/

theorem grpnum_catOf : ∀ (as : List Atom) (k : Nat), grpnum (catOf as) k = (catOf as, 0)
  | [], _ => rfl
  | [_], _ => rfl
  | a :: b :: t, k => by
    have := grpnum_catOf (b :: t) (k + 0)
    simp only [catOf, grpnum, this]

theorem emitLen_catOf : ∀ (as : List Atom), emitLen (catOf as) = as.length
  | [] => rfl
  | [_] => by simp [catOf, emitLen, repLen]
  | a :: b :: t => by
    have := emitLen_catOf (b :: t)
    simp only [catOf, emitLen, this, repLen]
    simp; omega

theorem emit_catOf : ∀ (as : List Atom) (base : Nat), emit (catOf as) base = as.map Inst.atom
  | [], _ => rfl
  | [_], _ => by simp [catOf, emit, emitRep]
  | a :: b :: t, base => by
    have := emit_catOf (b :: t) (base + 1)
    simp only [catOf, emit, emitRep, emitLen, repLen] at this ⊢
    simp [this]

theorem emitRep_one (body : Nat → List Inst) (bl base : Nat) : emitRep body bl 1 1 base = body base := by
  simp [emitRep]

/-- a literal pattern compiles to a handful of instructions: far below the size limit -/
theorem count_literal_small (lbeg wbeg wend lend : Bool) (lit : Bytes) :
    ¬ (count (RNode.grp (RNode.grp (catOf (atomsOf lbeg wbeg wend lend lit)) 0 1 1) 0 1 1) + 3 > (Gen.NCODE : Int)) := by
  cases lbeg <;> cases wbeg <;> cases wend <;> cases lend <;>
    simp [atomsOf, catOf, count, countRep, Gen.NCODE]

/-- the same for the clamped count `regcomp` tests (what `rnode_count()` returns in C) -/
theorem countSat_literal_small (lbeg wbeg wend lend : Bool) (lit : Bytes) :
    ¬ (countSat (RNode.grp (RNode.grp (catOf (atomsOf lbeg wbeg wend lend lit)) 0 1 1) 0 1 1) + 3 > (Gen.NCODE : Int)) := by
  cases lbeg <;> cases wbeg <;> cases wend <;> cases lend <;>
    simp [atomsOf, catOf, countSat, countRepSat, sat, Gen.NCODE]

/-- `regcomp` of `((re))` for a literal pattern -/
theorem regcomp_literal {re : Bytes} {lbeg wbeg wend lend : Bool} {lit : Bytes}
    (hnul : ∀ c ∈ re, c ≠ 0)
    (h : simple re = some (lbeg, wbeg, wend, lend, lit)) (hne : lit ≠ []) (hlo : LitOk lit) (rflg : Nat) :
    ∃ alloc, regcomp ([40, 40] ++ re ++ [41, 41]) rflg =
      some (some { code := litCode (atomsOf lbeg wbeg wend lend lit), alloc := alloc, flg := rflg }) := by
  refine ⟨countSat (RNode.grp (RNode.grp (catOf (atomsOf lbeg wbeg wend lend lit)) 0 1 1) 0 1 1) + 3, ?_⟩
  unfold regcomp
  rw [parse_literal hnul h hne hlo]
  simp only [if_neg (countSat_literal_small lbeg wbeg wend lend lit)]
  simp only [grpnum, grpnum_catOf, emit, emitRep_one, emit_catOf, litCode]
  simp

/-! ### the group count of a literal pattern -/

theorem groupCountLoop_none (s : Bytes) (h : ∀ j, s.getD j 0 ≠ 40 ∧ s.getD j 0 ≠ 91) :
    ∀ (f i n b2 : Nat), groupCountLoop s f i n false b2 = n := by
  intro f
  induction f with
  | zero => intro i n b2; rfl
  | succ f ih =>
    intro i n b2
    rw [groupCountLoop]
    obtain ⟨h1, h2⟩ := h i
    have h2' : (s.getD i 0 == 91) = false := beq_eq_false_iff_ne.mpr h2
    simp only [beq_iff_eq, h1, h2', Bool.not_false, if_true, if_false, Bool.false_and, Bool.false_eq_true, ih]
    split <;> (try split) <;> rfl

theorem groupCount_literal {re : Bytes} {lbeg wbeg wend lend : Bool} {lit : Bytes}
    (h : simple re = some (lbeg, wbeg, wend, lend, lit)) : groupCount re = 0 := by
  obtain ⟨hre, hstop⟩ := simple_decomp h
  unfold groupCount
  apply groupCountLoop_none
  intro j
  have hmem : ∀ c ∈ re, c ≠ 40 ∧ c ≠ 91 := by
    intro c hc
    rw [hre] at hc
    simp only [List.mem_append] at hc
    rcases hc with (hc | hc) | hc
    · cases lbeg <;> cases wbeg <;> simp [pre] at hc <;> omega
    · have := hstop c hc
      simp [isStop, Gen.rstrStop] at this
      omega
    · cases wend <;> cases lend <;> simp [suf] at hc <;> omega
  by_cases hj : j < re.length
  · exact hmem _ (getD_mem hj)
  · rw [List.getD_eq_getElem?_getD, List.getElem?_eq_none (by omega)]
    simp

theorem combined_one (re : Bytes) : combined [some re] = [40, 40] ++ re ++ [41, 41] := by
  simp [combined]

/-- `rset_make` of a literal pattern -/
theorem make_literal {re : Bytes} {lbeg wbeg wend lend : Bool} {lit : Bytes}
    (hnul : ∀ c ∈ re, c ≠ 0)
    (h : simple re = some (lbeg, wbeg, wend, lend, lit)) (hne : lit ≠ []) (hlo : LitOk lit) (cflg : Nat) :
    ∃ alloc, make [some re] cflg = some (some
      { prog := { code := litCode (atomsOf lbeg wbeg wend lend lit), alloc := alloc,
                  flg := 1 ||| (if cflg &&& RE_ICASE != 0 then REG_ICASE else 0) },
        n := 1, grp := [2, 3], setgrpcnt := [0], grpcnt := 3 }) := by
  obtain ⟨alloc, ha⟩ := regcomp_literal hnul h hne hlo (1 ||| (if cflg &&& RE_ICASE != 0 then REG_ICASE else 0))
  refine ⟨alloc, ?_⟩
  unfold make
  simp only [combined_one, List.foldl_cons, List.foldl_nil, groupCount_literal h, ha]
  rfl

end Neatvi.C12
