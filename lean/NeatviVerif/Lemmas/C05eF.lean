import NeatviVerif.Lemmas.C06bProgress
/-!
# C05e lemmas, part F: the pieces `ex_exec` cuts a command line into are sublists of the line

Needed twice: a side condition on the bytes of a line is inherited by every argument and every nested command line
(`:g` body, `+cmd`), and the count of the bytes that can start a nested line (`g`, `v`, `+`) goes down with every level.
-/
namespace Neatvi.Lemmas.C05e
open Neatvi Neatvi.Ex Neatvi.Lemmas.C06b

theorem sublist_of_suffix {α : Type} {a b : List α} (h : a <:+ b) : a.Sublist b := h.sublist

theorem drop_sublist' {α : Type} (n : Nat) (l : List α) : (l.drop n).Sublist l := List.drop_sublist n l

theorem ite_sublist {α : Type} {c : Prop} [Decidable c] {a b l : List α} (ha : a.Sublist l) (hb : b.Sublist l) :
    (if c then a else b).Sublist l := by
  split <;> assumption

theorem ite_suffix {α : Type} {c : Prop} [Decidable c] {a b l : List α} (ha : a <:+ l) (hb : b <:+ l) :
    (if c then a else b) <:+ l := by
  split <;> assumption

theorem headD_drop1 (s : Bytes) (h : s ≠ []) : [s.headD 0] ++ s.drop 1 = s := by
  cases s with
  | nil => exact absurd rfl h
  | cons c r => rfl

/-- a copy loop: what it appended, followed by what it left, is what it was given -/
theorem copyUntil_split (stop : Nat → Bool) : ∀ (f : Nat) (s acc : Bytes),
    ∃ x, (copyUntil stop f s acc).1 = acc ++ x ∧ x ++ (copyUntil stop f s acc).2 = s := by
  intro f
  induction f with
  | zero => intro s acc; rw [copyUntil]; exact ⟨[], by simp, rfl⟩
  | succ f ih =>
    intro s acc
    cases s with
    | nil => rw [copyUntil]; exact ⟨[], by simp, rfl⟩
    | cons c s =>
      rw [copyUntil]
      split
      · exact ⟨[], by simp, rfl⟩
      · split
        · rename_i hb
          obtain ⟨x, h1, h2⟩ := ih (s.drop 1) (acc ++ [c, s.headD 0])
          refine ⟨[c, s.headD 0] ++ x, by rw [h1]; simp, ?_⟩
          have hs : s ≠ [] := by
            intro h0; rw [h0] at hb; simp at hb
          rw [List.append_assoc, h2]
          show c :: ([s.headD 0] ++ s.drop 1) = c :: s
          rw [headD_drop1 s hs]
        · obtain ⟨x, h1, h2⟩ := ih s (acc ++ [c])
          exact ⟨[c] ++ x, by rw [h1]; simp, by rw [List.append_assoc, h2]; rfl⟩

theorem copyUntilPlus_split : ∀ (f : Nat) (s acc : Bytes),
    ∃ x, (copyUntilPlus f s acc).1 = acc ++ x ∧ (x ++ (copyUntilPlus f s acc).2).Sublist s := by
  intro f
  induction f with
  | zero => intro s acc; rw [copyUntilPlus]; exact ⟨[], by simp, List.Sublist.refl _⟩
  | succ f ih =>
    intro s acc
    cases s with
    | nil => rw [copyUntilPlus]; exact ⟨[], by simp, List.Sublist.refl _⟩
    | cons c s =>
      rw [copyUntilPlus]
      split
      · exact ⟨[], by simp, List.Sublist.refl _⟩
      · split
        · rename_i hb
          obtain ⟨x, h1, h2⟩ := ih (s.drop 1) (acc ++ [s.headD 0])
          refine ⟨[s.headD 0] ++ x, by rw [h1]; simp, ?_⟩
          have hs : s ≠ [] := by
            intro h0; rw [h0] at hb; simp at hb
          rw [List.append_assoc]
          have : ([s.headD 0] ++ (x ++ (copyUntilPlus f (s.drop 1) (acc ++ [s.headD 0])).2)).Sublist ([s.headD 0] ++ s.drop 1) :=
            List.Sublist.append_left h2 _
          rw [headD_drop1 s hs] at this
          exact List.Sublist.cons _ this
        · obtain ⟨x, h1, h2⟩ := ih s (acc ++ [c])
          refine ⟨[c] ++ x, by rw [h1]; simp, ?_⟩
          rw [List.append_assoc]
          exact List.Sublist.cons_cons _ h2

/-! ### `re_read` -/

theorem reRead_go_suffix (delim : Nat) : ∀ (f : Nat) (s acc : Bytes), (reRead.go delim f s acc).2 <:+ s := by
  intro f
  induction f with
  | zero => intro s acc; rw [reRead.go]; exact List.suffix_refl _
  | succ f ih =>
    intro s acc
    cases s with
    | nil => rw [reRead.go]; exact List.suffix_refl _
    | cons c r =>
      rw [reRead.go]
      split
      · exact List.suffix_cons _ _
      · split
        · exact ((ih (r.drop 1) _).trans (List.drop_suffix 1 r)).trans (List.suffix_cons _ _)
        · exact (ih r _).trans (List.suffix_cons _ _)

theorem reRead_suffix (s : Bytes) : (reRead s).2 <:+ s := by
  unfold reRead
  cases s with
  | nil => exact List.suffix_refl _
  | cons d r =>
    dsimp only
    exact (reRead_go_suffix d (r.length + 1) r []).trans (List.suffix_cons _ _)


/-! ### `ex_loc` -/

theorem pat_suffix (c2 : Nat) : ∀ (g : Nat) (s acc : Bytes), (exLoc.go.pat c2 g s acc).2 <:+ s := by
  intro g
  induction g with
  | zero => intro s acc; rw [exLoc.go.pat]; exact List.suffix_refl _
  | succ g ih =>
    intro s acc
    cases s with
    | nil => rw [exLoc.go.pat]; exact List.suffix_refl _
    | cons c s =>
      rw [exLoc.go.pat]
      split
      · exact List.suffix_refl _
      · split
        · exact ((ih (s.drop 1) _).trans (List.drop_suffix 1 s)).trans (List.suffix_cons _ _)
        · exact (ih s _).trans (List.suffix_cons _ _)

theorem exLoc_go_suffix : ∀ (f : Nat) (s loc : Bytes), (exLoc.go f s loc).2 <:+ s := by
  intro f
  induction f with
  | zero => intro s loc; rw [exLoc.go]; exact List.suffix_refl _
  | succ f ih =>
    intro s loc
    cases s with
    | nil => rw [exLoc.go]; exact List.suffix_refl _
    | cons c s =>
      rw [exLoc.go]
      split
      · exact List.suffix_refl _
      · generalize hp1 : (if (c == 39) = true then (loc ++ [c], List.drop 1 (c :: s)) else (loc, c :: s)) = p1
        obtain ⟨loc1, s1⟩ := p1
        have h1 : s1 <:+ (c :: s) := by
          split at hp1
          · cases hp1; exact List.drop_suffix 1 _
          · cases hp1; exact List.suffix_refl _
        simp only []
        generalize hp2 : (if (s1.headD 0 == 47 || s1.headD 0 == 63) = true then
            match exLoc.go.pat (s1.headD 0) (s1.length + 1) (List.drop 1 s1) [] with
            | (p, s') => (loc1 ++ [s1.headD 0] ++ p, s')
          else (loc1, s1)) = p2
        obtain ⟨loc2, s2⟩ := p2
        have h2 : s2 <:+ s1 := by
          split at hp2
          · have := pat_suffix (s1.headD 0) (s1.length + 1) (List.drop 1 s1) []
            generalize exLoc.go.pat (s1.headD 0) (s1.length + 1) (List.drop 1 s1) [] = q at hp2 this
            obtain ⟨p, s'⟩ := q
            cases hp2
            exact this.trans (List.drop_suffix 1 s1)
          · cases hp2; exact List.suffix_refl _
        simp only []
        cases s2 with
        | nil => exact List.nil_suffix
        | cons x r =>
          exact (((ih r (loc2 ++ [x])).trans (List.suffix_cons _ _)).trans h2).trans h1

theorem pat_split (c2 : Nat) : ∀ (g : Nat) (s acc : Bytes),
    ∃ x, (exLoc.go.pat c2 g s acc).1 = acc ++ x ∧ x ++ (exLoc.go.pat c2 g s acc).2 = s := by
  intro g
  induction g with
  | zero => intro s acc; rw [exLoc.go.pat]; exact ⟨[], by simp, rfl⟩
  | succ g ih =>
    intro s acc
    cases s with
    | nil => rw [exLoc.go.pat]; exact ⟨[], by simp, rfl⟩
    | cons c s =>
      rw [exLoc.go.pat]
      split
      · exact ⟨[], by simp, rfl⟩
      · split
        · rename_i hb
          obtain ⟨x, h1, h2⟩ := ih (s.drop 1) (acc ++ [c, s.headD 0])
          refine ⟨[c, s.headD 0] ++ x, by rw [h1]; simp, ?_⟩
          have hs : s ≠ [] := by
            intro h0; rw [h0] at hb; simp at hb
          rw [List.append_assoc, h2]
          show c :: ([s.headD 0] ++ s.drop 1) = c :: s
          rw [headD_drop1 s hs]
        · obtain ⟨x, h1, h2⟩ := ih s (acc ++ [c])
          exact ⟨[c] ++ x, by rw [h1]; simp, by rw [List.append_assoc, h2]; rfl⟩

/-- the address text followed by what is left is what `ex_loc` was given -/
theorem exLoc_go_split : ∀ (f : Nat) (s loc : Bytes),
    ∃ x, (exLoc.go f s loc).1 = loc ++ x ∧ x ++ (exLoc.go f s loc).2 = s := by
  intro f
  induction f with
  | zero => intro s loc; rw [exLoc.go]; exact ⟨[], by simp, rfl⟩
  | succ f ih =>
    intro s loc
    cases s with
    | nil => rw [exLoc.go]; exact ⟨[], by simp, rfl⟩
    | cons c s =>
      rw [exLoc.go]
      split
      · exact ⟨[], by simp, rfl⟩
      · generalize hp1 : (if (c == 39) = true then (loc ++ [c], List.drop 1 (c :: s)) else (loc, c :: s)) = p1
        obtain ⟨loc1, s1⟩ := p1
        have h1 : ∃ x1, loc1 = loc ++ x1 ∧ x1 ++ s1 = c :: s := by
          split at hp1
          · cases hp1; exact ⟨[c], rfl, rfl⟩
          · cases hp1; exact ⟨[], by simp, rfl⟩
        obtain ⟨x1, e1, e2⟩ := h1
        simp only []
        generalize hp2 : (if (s1.headD 0 == 47 || s1.headD 0 == 63) = true then
            match exLoc.go.pat (s1.headD 0) (s1.length + 1) (List.drop 1 s1) [] with
            | (p, s') => (loc1 ++ [s1.headD 0] ++ p, s')
          else (loc1, s1)) = p2
        obtain ⟨loc2, s2⟩ := p2
        have h2 : ∃ x2, loc2 = loc1 ++ x2 ∧ x2 ++ s2 = s1 := by
          split at hp2
          · rename_i hc
            obtain ⟨x, hx1, hx2⟩ := pat_split (s1.headD 0) (s1.length + 1) (List.drop 1 s1) []
            generalize exLoc.go.pat (s1.headD 0) (s1.length + 1) (List.drop 1 s1) [] = q at hp2 hx1 hx2
            obtain ⟨p, s'⟩ := q
            cases hp2
            simp only [List.nil_append] at hx1 hx2
            subst hx1
            have hs1 : s1 ≠ [] := by
              intro h0; rw [h0] at hc; simp at hc
            refine ⟨[s1.headD 0] ++ p, by simp, ?_⟩
            rw [List.append_assoc, hx2]
            exact headD_drop1 s1 hs1
          · cases hp2; exact ⟨[], by simp, rfl⟩
        obtain ⟨x2, e3, e4⟩ := h2
        simp only []
        cases s2 with
        | nil =>
          refine ⟨x1 ++ x2, by rw [e3, e1]; simp, ?_⟩
          rw [List.append_nil] at e4
          rw [List.append_nil, ← e2, ← e4]
        | cons x r =>
          obtain ⟨x3, e5, e6⟩ := ih r (loc2 ++ [x])
          refine ⟨x1 ++ x2 ++ [x] ++ x3, by rw [e5, e3, e1]; simp, ?_⟩
          have : c :: s = x1 ++ (x2 ++ x :: (x3 ++ (exLoc.go f r (loc2 ++ [x])).2)) := by rw [e6, e4, e2]
          rw [this]
          simp

theorem exLoc_loc_sublist (s : Bytes) : (exLoc s).1.Sublist s := by
  unfold exLoc
  obtain ⟨x, h1, h2⟩ := exLoc_go_split ((s.dropWhile (fun c => c == 58 || c == 32 || c == 9)).length + 1)
    (s.dropWhile (fun c => c == 58 || c == 32 || c == 9)) []
  simp only [List.nil_append] at h1
  rw [h1]
  have : x.Sublist (s.dropWhile (fun c => c == 58 || c == 32 || c == 9)) := by
    rw [← h2]; exact List.sublist_append_left _ _
  exact this.trans (List.dropWhile_suffix _).sublist

theorem exLoc_suffix (s : Bytes) : (exLoc s).2 <:+ s := by
  unfold exLoc
  exact (exLoc_go_suffix _ _ _).trans (List.dropWhile_suffix _)

/-! ### `ex_cmd` -/

theorem exCmd_go_split : ∀ (f : Nat) (s cmd : Bytes),
    ∃ x, (exCmd.go f s cmd).1 = cmd ++ x ∧ x ++ (exCmd.go f s cmd).2 = s := by
  intro f
  induction f with
  | zero => intro s cmd; rw [exCmd.go]; exact ⟨[], by simp, rfl⟩
  | succ f ih =>
    intro s cmd
    cases s with
    | nil => rw [exCmd.go]; exact ⟨[], by simp, rfl⟩
    | cons c s =>
      rw [exCmd.go]
      split
      · split
        · rename_i hk
          simp only [Bool.and_eq_true, beq_iff_eq, List.isEmpty_iff] at hk
          exact ⟨[c], by rw [hk.2]; rfl, rfl⟩
        · obtain ⟨x, h1, h2⟩ := ih s (cmd ++ [c])
          exact ⟨[c] ++ x, by rw [h1]; simp, by rw [List.append_assoc, h2]; rfl⟩
      · exact ⟨[], by simp, rfl⟩

/-- the command name followed by the rest is the line (without its leading blanks) -/
theorem exCmd_split (s : Bytes) : (exCmd s).1 ++ (exCmd s).2 = s.dropWhile (fun c => c == 32 || c == 9) := by
  unfold exCmd
  dsimp only
  obtain ⟨x, h1, h2⟩ := exCmd_go_split ((s.dropWhile (fun c => c == 32 || c == 9)).length + 1)
    (s.dropWhile (fun c => c == 32 || c == 9)) []
  generalize exCmd.go ((s.dropWhile (fun c => c == 32 || c == 9)).length + 1)
    (s.dropWhile (fun c => c == 32 || c == 9)) [] = q at h1 h2
  obtain ⟨cmd, s'⟩ := q
  simp only [List.nil_append] at h1 h2 ⊢
  subst h1
  split
  · rename_i hc
    have hs : s' ≠ [] := by
      intro h0; rw [h0] at hc; simp at hc
    rw [List.append_assoc, headD_drop1 s' hs]; exact h2
  · exact h2

theorem exCmd_sublist (s : Bytes) : ((exCmd s).1 ++ (exCmd s).2).Sublist s := by
  rw [exCmd_split]; exact (List.dropWhile_suffix _).sublist


/-! ### `ex_arg` -/

theorem sub_split (d : Nat) : ∀ (f : Nat) (s acc : Bytes) (cnt : Nat),
    ∃ x, (exArg.sub d f s acc cnt).1 = acc ++ x ∧ x ++ (exArg.sub d f s acc cnt).2 = s := by
  intro f
  induction f with
  | zero => intro s acc cnt; rw [exArg.sub]; exact ⟨[], by simp, rfl⟩
  | succ f ih =>
    intro s acc cnt
    cases s with
    | nil => rw [exArg.sub]; exact ⟨[], by simp, rfl⟩
    | cons c s =>
      rw [exArg.sub]
      split
      · exact ⟨[], by simp, rfl⟩
      · simp only []
        split
        · rename_i hb
          obtain ⟨x, h1, h2⟩ := ih (s.drop 1) (acc ++ [c, s.headD 0]) (if (c == d) = true then cnt - 1 else cnt)
          refine ⟨[c, s.headD 0] ++ x, by rw [h1]; simp, ?_⟩
          have hs : s ≠ [] := by
            intro h0; rw [h0] at hb; simp at hb
          rw [List.append_assoc, h2]
          show c :: ([s.headD 0] ++ s.drop 1) = c :: s
          rw [headD_drop1 s hs]
        · obtain ⟨x, h1, h2⟩ := ih s (acc ++ [c]) (if (c == d) = true then cnt - 1 else cnt)
          exact ⟨[c] ++ x, by rw [h1]; simp, by rw [List.append_assoc, h2]; rfl⟩

/-- **the argument followed by the rest of the line is a sublist of what `ex_arg` was given** -/
theorem exArg_sublist (src a : Bytes) : ((exArg src a).1 ++ (exArg src a).2).Sublist src := by
  unfold exArg
  dsimp only
  have hd : (src.dropWhile (fun c => c == 32 || c == 9)).Sublist src := (List.dropWhile_suffix _).sublist
  generalize src.dropWhile (fun c => c == 32 || c == 9) = src1 at hd
  generalize (if (a.headD 0 != 0) = true then a.getD 1 0 else 0) = c1
  generalize hfirst : (if (a.headD 0 == 33 || a.headD 0 == 103 || a.headD 0 == 118 ||
        ((a.headD 0 == 114 || a.headD 0 == 119) && c1 == 0 && src1.headD 0 == 33)) = true then
      copyUntil (fun c => c == 10) (src1.length + 1) src1 []
    else if ((a.headD 0 == 115 && c1 != 101) || a.headD 0 == 38 || a.headD 0 == 126) = true then
      if (src1.headD 0 != 0 && src1.headD 0 != 10 && src1.headD 0 != 124 && src1.headD 0 != 92 && src1.headD 0 != 34 &&
          !src1.isEmpty) = true then
        exArg.sub (src1.headD 0) (src1.length + 1) (src1.drop 1) [src1.headD 0] 2
      else ([], src1)
    else ([], src1)) = first
  have h1 : first.1 ++ first.2 = src1 := by
    rw [← hfirst]
    split
    · obtain ⟨x, e1, e2⟩ := copyUntil_split (fun c => c == 10) (src1.length + 1) src1 []
      rw [e1]; simpa using e2
    · split
      · split
        · rename_i hc
          have hs : src1 ≠ [] := by
            intro h0; rw [h0] at hc; simp at hc
          obtain ⟨x, e1, e2⟩ := sub_split (src1.headD 0) (src1.length + 1) (src1.drop 1) [src1.headD 0] 2
          rw [e1, List.append_assoc, e2]
          exact headD_drop1 src1 hs
        · rfl
      · rfl
  obtain ⟨dst, src2⟩ := first
  simp only [] at h1 ⊢
  split
  · rw [h1]; exact hd
  · obtain ⟨d2, e1, e2⟩ := copyUntil_split (fun c => c == 10 || c == 124 || c == 34) (src2.length + 1) src2 []
    generalize copyUntil (fun c => c == 10 || c == 124 || c == 34) (src2.length + 1) src2 [] = q at e1 e2
    obtain ⟨d2', src3⟩ := q
    simp only [List.nil_append] at e1 e2 ⊢
    subst e1
    have h4 : (if (src3.headD 0 == 34) = true then src3.dropWhile (fun c => c != 10) else src3).Sublist src3 :=
      ite_sublist (List.dropWhile_suffix _).sublist (List.Sublist.refl _)
    refine List.Sublist.trans ?_ hd
    rw [← h1, ← e2]
    simp only [List.append_assoc]
    exact List.Sublist.append_left (List.Sublist.append_left (ite_sublist ((List.drop_sublist 1 _).trans h4) h4) _) _

/-! ### `ex_txt` -/

theorem cut_suffix : ∀ (f : Nat) (s acc : Bytes), (exTxt.cut f s acc).2 <:+ s := by
  intro f
  induction f with
  | zero => intro s acc; rw [exTxt.cut]; exact List.suffix_refl _
  | succ f ih =>
    intro s acc
    cases s with
    | nil => rw [exTxt.cut]; exact List.suffix_refl _
    | cons c r =>
      rw [exTxt.cut]
      split
      · exact List.suffix_refl _
      · exact (ih r _).trans (List.suffix_cons _ _)

theorem exTxt_suffix (ed : Ed) (src a : Bytes) : (exTxt ed src a).1.2 <:+ src := by
  unfold exTxt
  simp only []
  generalize (if (a.headD 0 != 0) = true then a.getD 1 0 else 0) = c1
  split
  · have hc := cut_suffix (src.length + 1) src []
    generalize exTxt.cut (src.length + 1) src [] = q at hc
    obtain ⟨body, rest⟩ := q
    show (if rest.isEmpty = true then [] else List.drop 3 rest) <:+ src
    split
    · exact List.nil_suffix
    · exact (List.drop_suffix 3 rest).trans hc
  · split
    · exact List.suffix_refl _
    · exact List.suffix_refl _

end Neatvi.Lemmas.C05e
